import Babylon.ExecQ.LemmasCount
namespace Babylon.ExecQ
open Babylon.Core Babylon.Gen.ExecQ

theorem filterMap_congr' {α β : Type} {f g : α → Option β} (l : List α) (h : ∀ x, x ∈ l → f x = g x) :
    l.filterMap f = l.filterMap g := by
  induction l with
  | nil => rfl
  | cons a l ih =>
    simp only [List.filterMap_cons, h a (List.mem_cons_self ..), ih (fun x hx => h x (List.mem_cons_of_mem _ hx))]

/-- Invariant I: items.  Every index carries one item; an owner's items sit at increasing indices in
submission order (hence no item sits at two indices); what was popped is the items of the indices
below `head`, in index order; what the consume function was handed is a prefix of it, the remainder
being the current batch of the consumer. -/
structure InvI (s : State) : Prop where
  seq : ∀ i it, s.tick i = some it → it.seq < s.nextSeq it.owner
  ord : ∀ i j a b, s.tick i = some a → s.tick j = some b → a.owner = b.owner → (i < j ↔ a.seq < b.seq)
  popped : s.popped = (List.range s.head).filterMap s.tick
  ccb : ∀ t, (s.pc t).consumer = true → s.popped = s.consumed ++ (s.pc t).batch
  cno : (∀ t, (s.pc t).consumer = false) → s.popped = s.consumed
  len : s.ncons = s.consumed.length

theorem invI_init : InvI State.init := by
  refine ⟨?_, ?_, ?_, ?_, ?_, ?_⟩ <;> simp [State.init, Pc.consumer]

theorem InvI.frame {s s' : State} (hi : InvI s) (t : Nat) (p' : Pc)
    (hpc : s'.pc = upd s.pc t p') (hh : s'.head = s.head) (htick : s'.tick = s.tick) (hns : s'.nextSeq = s.nextSeq)
    (hpop : s'.popped = s.popped) (hco : s'.consumed = s.consumed) (hn : s'.ncons = s.ncons)
    (hcons : p'.consumer = (s.pc t).consumer) (hb : p'.batch = (s.pc t).batch) : InvI s' := by
  obtain ⟨seq, ord, popped, ccb, cno, len⟩ := hi
  have hc : ∀ u, (s'.pc u).consumer = (s.pc u).consumer := by
    intro u; rw [hpc, upd_apply]; split
    · next h => rw [h, hcons]
    · rfl
  have hbb : ∀ u, (s'.pc u).batch = (s.pc u).batch := by
    intro u; rw [hpc, upd_apply]; split
    · next h => rw [h, hb]
    · rfl
  refine ⟨?_, ?_, ?_, ?_, ?_, ?_⟩
  · rw [htick, hns]; exact seq
  · rw [htick]; exact ord
  · rw [hpop, hh, htick]; exact popped
  · intro a ha; rw [hc] at ha; rw [hpop, hco, hbb]; exact ccb a ha
  · intro h; rw [hpop, hco]; exact cno (fun a => by rw [← hc]; exact h a)
  · rw [hn, hco]; exact len

theorem invI_tstep {c : Cfg} {s s' : State} {t : Nat} (ho : InvO s) (hq : InvQ s)
    (hi : InvI s) (h : TStep c s t s') : InvI s' := by
  cases h with
  | publish it tk hpc hlt => exact hi.frame t _ rfl rfl rfl rfl rfl rfl rfl (by rw [hpc]; rfl) (by rw [hpc]; rfl)
  | signalLaunch otk hpc h0 => exact hi.frame t _ rfl rfl rfl rfl rfl rfl rfl (by rw [hpc]; rfl) (by rw [hpc]; rfl)
  | signalRet otk hpc hne => exact hi.frame t _ rfl rfl rfl rfl rfl rfl rfl (by rw [hpc]; rfl) (by rw [hpc]; rfl)
  | refuse ev otk hpc => exact hi.frame t _ rfl rfl rfl rfl rfl rfl rfl (by rw [hpc]; rfl) (by rw [hpc]; rfl)
  | acceptAsync ev otk hpc => exact hi.frame t _ rfl rfl rfl rfl rfl rfl rfl (by rw [hpc]; rfl) (by rw [hpc]; rfl)
  | rollbackOk ev otk hpc he => exact hi.frame t _ rfl rfl rfl rfl rfl rfl rfl (by rw [hpc]; rfl) (by rw [hpc]; rfl)
  | rollbackFail ev otk hpc hne => exact hi.frame t _ rfl rfl rfl rfl rfl rfl rfl (by rw [hpc]; rfl) (by rw [hpc]; rfl)
  | load0 k hpc => exact hi.frame t _ rfl rfl rfl rfl rfl rfl rfl (by rw [hpc]; rfl) (by rw [hpc]; rfl)
  | pop0 k ev hpc hp =>
    exact hi.frame t _ rfl rfl rfl rfl rfl rfl rfl (by rw [hpc]; cases c.sizeCheck <;> rfl) (by rw [hpc]; cases c.sizeCheck <;> rfl)
  | reload k ev hpc => exact hi.frame t _ rfl rfl rfl rfl rfl rfl rfl (by rw [hpc]; rfl) (by rw [hpc]; rfl)
  | cbBegin k ev b hpc => exact hi.frame t _ rfl rfl rfl rfl rfl rfl rfl (by rw [hpc]; rfl) (by rw [hpc]; rfl)
  | cbEnd k ev hpc => exact hi.frame t _ rfl rfl rfl rfl rfl rfl rfl (by rw [hpc]; rfl) (by rw [hpc]; rfl)
  | size k ev hpc => exact hi.frame t _ rfl rfl rfl rfl rfl rfl rfl (by rw [hpc]; split <;> rfl) (by rw [hpc]; split <;> rfl)
  | exitFail k ev hpc hne => exact hi.frame t _ rfl rfl rfl rfl rfl rfl rfl (by rw [hpc]; rfl) (by rw [hpc]; rfl)
  | joinRet snap hpc he => exact hi.frame t _ rfl rfl rfl rfl rfl rfl rfl (by rw [hpc]; rfl) (by rw [hpc]; rfl)
  | joinSpin snap hpc he => exact hi
  | ticket v hpc =>
    obtain ⟨seq, ord, popped, ccb, cno, len⟩ := hi
    have hc : ∀ u, ((upd s.pc t (Pc.pPublish { owner := t, seq := s.nextSeq t, val := v } s.tail)) u).consumer = (s.pc u).consumer := by
      intro u; rw [upd_apply]; split
      · next h => rw [h, hpc]; rfl
      · rfl
    have hbb : ∀ u, ((upd s.pc t (Pc.pPublish { owner := t, seq := s.nextSeq t, val := v } s.tail)) u).batch = (s.pc u).batch := by
      intro u; rw [upd_apply]; split
      · next h => rw [h, hpc]; rfl
      · rfl
    have hold : ∀ i it, i ≠ s.tail → upd s.tick s.tail (some { owner := t, seq := s.nextSeq t, val := v }) i = some it →
        s.tick i = some it := by
      intro i it hne h; rwa [upd_ne _ _ hne] at h
    have hlt : ∀ i it, s.tick i = some it → i < s.tail := by
      intro i it h
      by_cases hl : i < s.tail
      · exact hl
      · rw [hq.tick_none i (by omega)] at h; cases h
    refine ⟨?_, ?_, ?_, ?_, ?_, len⟩
    · intro i it h
      simp only [upd_apply] at h ⊢
      split at h
      · simp only [Option.some.injEq] at h; subst h; simp
      · have := seq i it h
        split
        · next ho' => rw [ho'] at this; omega
        · exact this
    · intro i j a b ha hb hab
      by_cases hi' : i = s.tail <;> by_cases hj : j = s.tail
      · subst hi'; subst hj
        simp only [upd_same, Option.some.injEq] at ha hb
        subst ha; subst hb; simp
      · subst hi'
        simp only [upd_same, Option.some.injEq] at ha
        have hb' := hold j b hj hb
        have h1 := hlt j b hb'
        have h2 := seq j b hb'
        subst ha
        simp only at hab
        rw [← hab] at h2
        simp only
        constructor <;> intro <;> omega
      · subst hj
        simp only [upd_same, Option.some.injEq] at hb
        have ha' := hold i a hi' ha
        have h1 := hlt i a ha'
        have h2 := seq i a ha'
        subst hb
        simp only at hab
        rw [hab] at h2
        simp only
        constructor <;> intro <;> omega
      · exact ord i j a b (hold i a hi' ha) (hold j b hj hb) hab
    · show s.popped = (List.range s.head).filterMap (upd s.tick s.tail _)
      rw [popped]
      apply filterMap_congr'
      intro x hx
      rw [List.mem_range] at hx
      rw [upd_ne]
      · have := hq.ht; omega
    · intro a ha; rw [hc] at ha; rw [hbb]; exact ccb a ha
    · intro h; exact cno (fun a => by rw [← hc]; exact h a)
  | acceptInl ev otk hpc =>
    obtain ⟨seq, ord, popped, ccb, cno, len⟩ := hi
    have hto : (s.pc t).owner = true := by rw [hpc]; rfl
    have hnc : ∀ u, (s.pc u).consumer = false := by
      intro u; cases h : (s.pc u).consumer
      · rfl
      · have := ho.uniq u t (Pc.owner_of_consumer h) hto; subst this; rw [hpc] at h; cases h
    have hn := cno hnc
    refine ⟨seq, ord, popped, ?_, ?_, len⟩
    · intro a ha
      simp only [upd_apply] at ha ⊢
      split at ha
      · next h => rw [if_pos h]; simpa [Pc.batch] using hn
      · rw [hnc] at ha; cases ha
    · intro h; have := h t; simp [Pc.consumer] at this
  | popK k ev got n hpc hp =>
    obtain ⟨seq, ord, popped, ccb, cno, len⟩ := hi
    have htc : (s.pc t).consumer = true := by rw [hpc]; rfl
    have hn := ccb t htc
    rw [hpc] at hn
    simp only [Pc.batch, List.append_nil] at hn
    refine ⟨seq, ord, ?_, ?_, ?_, len⟩
    · show s.popped ++ batchOf s (n + 1) = (List.range (s.head + (n + 1))).filterMap s.tick
      rw [List.range_add, List.filterMap_append, List.filterMap_map, ← popped]
      rfl
    · intro a ha
      simp only [upd_apply] at ha ⊢
      split
      · simp only [Pc.batch]; rw [hn]
      · next hat =>
        rw [if_neg hat] at ha
        exact absurd (ho.uniq a t (Pc.owner_of_consumer ha) (Pc.owner_of_consumer htc)) hat
    · intro h; have := h t; simp [Pc.consumer] at this
  | cbItem k ev b rest hpc =>
    obtain ⟨seq, ord, popped, ccb, cno, len⟩ := hi
    have htc : (s.pc t).consumer = true := by rw [hpc]; rfl
    have hn := ccb t htc
    rw [hpc] at hn
    simp only [Pc.batch] at hn
    refine ⟨seq, ord, popped, ?_, ?_, ?_⟩
    · intro a ha
      simp only [upd_apply] at ha ⊢
      split
      · simp only [Pc.batch]; rw [hn]; simp
      · next hat =>
        rw [if_neg hat] at ha
        exact absurd (ho.uniq a t (Pc.owner_of_consumer ha) (Pc.owner_of_consumer htc)) hat
    · intro h; have := h t; simp [Pc.consumer] at this
    · simp [len]
  | exitOk k ev hpc he =>
    obtain ⟨seq, ord, popped, ccb, cno, len⟩ := hi
    have htc : (s.pc t).consumer = true := by rw [hpc]; rfl
    have hn := ccb t htc
    rw [hpc] at hn
    simp only [Pc.batch, List.append_nil] at hn
    refine ⟨seq, ord, popped, ?_, ?_, len⟩
    · intro a ha
      simp only [upd_apply] at ha
      split at ha
      · cases ha
      · next hat => exact absurd (ho.uniq a t (Pc.owner_of_consumer ha) (Pc.owner_of_consumer htc)) hat
    · intro _; exact hn

theorem invI_any {c : Cfg} {s s' : State} (ho : InvO s) (hq : InvQ s) (hi : InvI s) (h : AnyStep c s s') : InvI s' := by
  cases h with
  | thread t s' h => exact invI_tstep ho hq hi h
  | execute t v hpc => exact hi.frame t _ rfl rfl rfl rfl rfl rfl rfl (by rw [hpc]; rfl) (by rw [hpc]; rfl)
  | signal t hpc => exact hi.frame t _ rfl rfl rfl rfl rfl rfl rfl (by rw [hpc]; rfl) (by rw [hpc]; rfl)
  | join t hpc => exact hi.frame t _ rfl rfl rfl rfl rfl rfl rfl (by rw [hpc]; rfl) (by rw [hpc]; rfl)
  | start t hpc hl =>
    obtain ⟨seq, ord, popped, ccb, cno, len⟩ := hi
    have hnc : ∀ u, (s.pc u).consumer = false := by
      intro u; cases h : (s.pc u).consumer
      · rfl
      · have := ho.nol u (Pc.owner_of_consumer h); omega
    have hn := cno hnc
    refine ⟨seq, ord, popped, ?_, ?_, len⟩
    · intro a ha
      simp only [startWorker, upd_apply] at ha ⊢
      split at ha
      · next h => rw [if_pos h]; simpa [Pc.batch] using hn
      · rw [hnc] at ha; cases ha
    · intro h; have := h t; simp [startWorker, Pc.consumer] at this

/-- all items for which an index was taken so far, in index order -/
def allItems (s : State) : List Item := (List.range s.tail).filterMap s.tick

theorem pairwise_items {s : State} (hi : InvI s) (n : Nat) :
    ((List.range n).filterMap s.tick).Pairwise (fun a b => a.owner = b.owner → a.seq < b.seq) := by
  induction n with
  | zero => simp
  | succ n ih =>
    rw [List.range_succ, List.filterMap_append, List.pairwise_append]
    refine ⟨ih, ?_, ?_⟩
    · cases h : s.tick n <;> simp [h]
    · intro a ha b hb hab
      rw [List.mem_filterMap] at ha hb
      obtain ⟨i, hi', hia⟩ := ha
      obtain ⟨j, hj, hjb⟩ := hb
      rw [List.mem_range] at hi'
      simp only [List.mem_singleton] at hj
      subst hj
      exact (hi.ord i j a b hia hjb hab).1 hi'


end Babylon.ExecQ
