/-
  Consequences of the invariant of the coroutine futex model, in the form the property theorems
  of Properties/C13.lean use them.
-/
import Babylon.Coro.InvStep

namespace Babylon.Coro
open Babylon.Core

/-- the wait in slot `n` has been taken by actor `a`, who has not resumed its coroutine yet -/
def HoldsWait (s : State) (a : Actor) (n : Nat) : Prop := n ∈ (s.pc a).pre

theorem holds_facts {s : State} (h : Reach s) {a : Actor} {n : Nat} (hn : HoldsWait s a n) :
    (s.box n).alloc = true ∧ (s.box n).taken = true ∧ (s.box n).own = some a ∧ (s.box n).rsm = false ∧
    s.fr (s.node n).h = .suspended ∧ s.pc (.fr (s.node n).h) = .idle ∧ s.wslot (s.node n).h = some n := by
  have hI := h.inv
  have hp := hI.preOk a n hn
  have hw := hI.waiting n hp.1 hp.2.2.2.1 hp.2.2.2.2
  exact ⟨hp.1, hp.2.1, hp.2.2.1, hp.2.2.2.2, hw.1, hw.2.1, hw.2.2⟩

/-- two held waits of the same coroutine are the same wait, held by the same actor -/
theorem holds_unique {s : State} (h : Reach s) {a b : Actor} {n m : Nat} (hn : HoldsWait s a n) (hm : HoldsWait s b m)
    (he : (s.node n).h = (s.node m).h) : n = m ∧ a = b := by
  have h1 := holds_facts h hn
  have h2 := holds_facts h hm
  have hnm : n = m := by
    have e1 := h1.2.2.2.2.2.2
    have e2 := h2.2.2.2.2.2.2
    rw [he, e2] at e1
    injection e1 with e1
    exact e1.symm
  subst hnm
  have o1 := h1.2.2.1
  have o2 := h2.2.2.1
  rw [o1] at o2
  injection o2 with o2
  exact ⟨rfl, o2⟩

/-- the three program counters at which an actor calls `promise->resume(handle)` for slot `n` -/
def AtResume (s : State) (a : Actor) (n : Nat) : Prop :=
  s.pc a = .oResume n ∨ (∃ nx k took rs, s.pc a = .aResume n nx k took rs) ∨ s.pc a = .cResume n

theorem atResume_holds {s : State} (h : Reach s) {a : Actor} {n : Nat} (hr : AtResume s a n) : HoldsWait s a n := by
  rcases hr with e | ⟨nx, k, took, rs, e⟩ | e
  · simp [HoldsWait, e, Pc.pre]
  · obtain ⟨h1, h2, ⟨rest, h3, _⟩, _⟩ := h.inv.aResumeOk a n nx k took rs e
    simp [HoldsWait, e, Pc.pre, ← h1, h3]
  · simp [HoldsWait, e, Pc.pre]

/-- wake_one at the end of an empty-handed scan -/
theorem wake_one_none {s : State} (h : Reach s) {a : Actor} {f : Nat} {l0 seen : List Nat}
    (hp : s.pc a = .oUnlock f none l0 seen) : seen = l0 ∧ s.glist f = [] ∧ s.hnext f = none := by
  obtain ⟨h1, h2, h3⟩ := h.inv.oNoneOk a f l0 seen hp
  exact ⟨h3, h2, h1⟩

/-- wake_one in the middle of its scan: `cur` is the first linked node, everything before it was skipped -/
theorem wake_one_scan {s : State} (h : Reach s) {a : Actor} {f cur : Nat} {l0 seen : List Nat}
    (hp : s.pc a = .oScan f cur l0 seen) :
    l0 = seen ++ s.glist f ∧ (s.glist f).head? = some cur ∧ (s.node cur).ver = (s.box cur).ver ∧
    ((s.box cur).taken = true → CancelPending s cur) := by
  obtain ⟨_, ⟨rest, hgl, _⟩, hcur, _, _⟩ := h.inv.oScan_facts hp
  obtain ⟨_, hl0⟩ := h.inv.oScanOk a f cur l0 seen hp
  exact ⟨hl0, by rw [hgl]; rfl, h.inv.pubNode cur hcur.1 hcur.2.1, hcur.2.2.2⟩

/-- the scan step of wake_one takes an untaken node -/
theorem wake_one_takes {s : State} (h : Reach s) {a : Actor} {f cur : Nat} {l0 seen : List Nat} {inp : Nat × Nat}
    (hp : s.pc a = .oScan f cur l0 seen) (hnt : (s.box cur).taken = false) :
    ∃ s', step cfgFixed s a inp = some (s', .take cur (s.node cur).ver true) ∧ s'.pc a = .oUnlock f (some cur) l0 seen := by
  have hv := (wake_one_scan h hp).2.2.1
  rw [step_oScan hp]
  have htk : ((s.unlinkFirst f cur).take cur (s.node cur).ver a).1 = true := by
    simp [take_eq, unlinkFirst_box, hv, hnt]
  rw [if_pos htk]
  exact ⟨_, rfl, by simp⟩

/-- wake_all, end of the first phase -/
theorem wake_all_phase1 {s : State} (h : Reach s) {a : Actor} {f : Nat} {hd : Option Nat} {took skip l0 : List Nat}
    (hp : s.pc a = .aUnlock f hd took skip l0) :
    (∀ x, x ∈ l0 ↔ (x ∈ took ∨ x ∈ skip)) ∧ NChain s.node hd took ∧ took.Nodup ∧ s.glist f = [] ∧
    (∀ n ∈ took, HoldsWait s a n) := by
  obtain ⟨h1, h2, h3⟩ := h.inv.aUnlockOk a f hd took skip l0 hp
  refine ⟨h.inv.unlockL0 a f hd took skip l0 hp, h2, h3, h1, ?_⟩
  intro n hn
  simp [HoldsWait, hp, Pc.pre, hn]

/-- wake_all in its first loop -/
theorem wake_all_scan {s : State} (h : Reach s) {a : Actor} {f cur : Nat} {hd : Option Nat} {tail : TailP}
    {took pend skip l0 : List Nat} (hp : s.pc a = .aScan f hd tail cur took pend skip l0) :
    (∀ x, x ∈ l0 ↔ (x ∈ took ∨ x ∈ skip ∨ x ∈ pend)) ∧ pend.head? = some cur ∧ s.glist f = [] ∧
    ((s.box cur).taken = true → CancelPending s cur) := by
  obtain ⟨_, hg0, _, ⟨prest, hpend, _⟩, _, _, _, hcurM, _, _⟩ := h.inv.aScan_facts hp
  exact ⟨h.inv.scanL0 a f hd tail cur took pend skip l0 hp, by rw [hpend]; rfl, hg0, hcurM.2.2.2⟩

/-- wake_all about to return -/
theorem wake_all_done {s : State} (h : Reach s) {a : Actor} {n k : Nat} {took rs : List Nat}
    (hp : s.pc a = .aFree n none k took rs) : rs = took ∧ k + 1 = took.length := by
  obtain ⟨h1, h2, h3, _, _⟩ := h.inv.aFreeOk a n none k took rs hp
  have hd : took.drop (k + 1) = [] := by
    cases hdd : took.drop (k + 1) with
    | nil => rfl
    | cons z zs => rw [hdd] at h3; exact absurd h3.1 (by simp)
  have hle : took.length ≤ k + 1 := List.drop_eq_nil_iff.mp hd
  have htake : took.take (k + 1) = took := List.take_of_length_le hle
  rw [htake] at h2
  refine ⟨h2, ?_⟩
  rw [h2] at h1
  exact h1.symm

/-- wake_all in its second loop: the nodes resumed so far and the ones still to resume make up `took` -/
theorem wake_all_phase2 {s : State} (h : Reach s) {a : Actor} {n k : Nat} {nx : Option Nat} {took rs : List Nat}
    (hp : s.pc a = .aResume n nx k took rs) :
    rs = took.take k ∧ (∃ rest, took.drop k = n :: rest ∧ NChain s.node nx rest) ∧ HoldsWait s a n := by
  obtain ⟨h1, h2, h3, _⟩ := h.inv.aResumeOk a n nx k took rs hp
  exact ⟨h2, h3, atResume_holds h (Or.inr (Or.inl ⟨nx, k, took, rs, hp⟩))⟩

/-- every allocated slot is accounted for -/
theorem slot_accounted {s : State} (h : Reach s) {n : Nat} (ha : (s.box n).alloc = true) :
    (∃ h', (s.pc (.fr h')).fresh = some n) ∨
    (∃ a, (s.box n).own = some a ∧ (n ∈ (s.pc a).pre ∨ (s.pc a).post = some n)) ∨
    ((s.box n).pub = true ∧ (s.box n).taken = false ∧
      (n ∈ s.glist (s.node n).fut ∨ ∃ b, s.lock (s.node n).fut = some b ∧ n ∈ (s.pc b).pend)) := by
  have hI := h.inv
  cases hp : (s.box n).pub with
  | false => exact Or.inl (hI.freshHolder n ha hp)
  | true =>
    cases ht : (s.box n).taken with
    | true => exact Or.inr (Or.inl (hI.ownOk n ha ht))
    | false => exact Or.inr (Or.inr ⟨rfl, rfl, hI.placed n ha hp ht⟩)

/-- at quiescence the allocated slots are exactly the linked waits of the suspended coroutines -/
theorem quiescent_slots {s : State} (h : Reach s) (hq : ∀ a, s.pc a = .idle) {n : Nat} (ha : (s.box n).alloc = true) :
    n ∈ s.glist (s.node n).fut ∧ (s.box n).taken = false ∧ s.fr (s.node n).h = .suspended ∧ s.wslot (s.node n).h = some n := by
  have hI := h.inv
  rcases slot_accounted h ha with ⟨h', hf⟩ | ⟨a, _, hh⟩ | ⟨hp, ht, hpl⟩
  · rw [hq] at hf; simp [Pc.fresh] at hf
  · rw [hq] at hh; simp [Pc.pre, Pc.post] at hh
  · have hr : (s.box n).rsm = false := by
      cases hr : (s.box n).rsm
      · rfl
      · have := hI.rsmTaken n ha hr; rw [ht] at this; cases this
    have hw := hI.waiting n ha hp hr
    rcases hpl with hg | ⟨b, _, hb⟩
    · exact ⟨hg, ht, hw.1, hw.2.2⟩
    · rw [hq] at hb; simp [Pc.pend] at hb

theorem quiescent_frames {s : State} (h : Reach s) (hq : ∀ a, s.pc a = .idle) {h' : Nat} (hs : s.fr h' = .suspended) :
    ∃ n, s.wslot h' = some n ∧ (s.box n).alloc = true ∧ (s.node n).h = h' ∧ n ∈ s.glist (s.node n).fut := by
  obtain ⟨n, h1, h2, _, h4, _⟩ := h.inv.parked h' hs (hq _)
  exact ⟨n, h1, h2, h4, (quiescent_slots h hq h2).1⟩

/-- a coroutine inside `await_suspend` (in particular on the non-matching path) cannot be resumed:
nobody holds a wait of it -/
theorem in_await_not_held {s : State} (h : Reach s) {h' : Nat} (hp : s.pc (.fr h') ≠ .idle) :
    ∀ a n, HoldsWait s a n → (s.node n).h ≠ h' := by
  intro a n hn e
  have := (holds_facts h hn).2.2.2.2.2.1
  rw [e] at this
  exact hp this

/-- the slot of a wait that is still inside `await_suspend` is unpublished and in no list -/
theorem in_await_slot {s : State} (h : Reach s) {h' n : Nat} (hf : (s.pc (.fr h')).fresh = some n) :
    (s.box n).alloc = true ∧ (s.box n).pub = false ∧ ∀ f, n ∉ s.glist f := by
  have := h.inv.freshOk h' n hf
  exact ⟨this.1, this.2.1, this.2.2.1⟩

end Babylon.Coro
