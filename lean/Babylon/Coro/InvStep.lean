/-
  `Inv` is an inductive invariant of the coroutine futex model in the repaired configuration:
  it holds initially and every transition preserves it (the per-step work is in
  Babylon/Coro/Step/*.lean).
-/
import Babylon.Coro.Step.Free
import Babylon.Coro.Step.Resume
import Babylon.Coro.Step.PcOnly
import Babylon.Coro.Step.Lock
import Babylon.Coro.Step.Take
import Babylon.Coro.Step.Alloc
import Babylon.Coro.Step.Frame
import Babylon.Coro.Step.Link
import Babylon.Coro.Step.Cons
import Babylon.Coro.Step.ALock
import Babylon.Coro.Step.OScan
import Babylon.Coro.Step.AScanTN
import Babylon.Coro.Step.AScanTS
import Babylon.Coro.Step.AScanFHN
import Babylon.Coro.Step.AScanFHS
import Babylon.Coro.Step.AScanFXN
import Babylon.Coro.Step.AScanFXS
import Babylon.Coro.Step.CRemoveN
import Babylon.Coro.Step.CRemoveS

namespace Babylon.Coro
open Babylon.Core

theorem Inv.init : Inv State.init := by
  have hpc : ∀ a, State.init.pc a = .idle := fun _ => rfl
  constructor
  case listOk => intro f; simp [State.init, Chain, MemOk]
  case scanOk => intro a f hd tail cur took pend skip l0 h; rw [hpc] at h; cases h
  case prevOk => intro n h; simp [State.init] at h
  case scanL0 => intro a f hd tail cur took pend skip l0 h; rw [hpc] at h; cases h
  case unlockL0 => intro a f hd took skip l0 h; rw [hpc] at h; cases h
  all_goals simp [State.init, Pc.isWait, Pc.fresh, Pc.pre, Pc.post, Pc.locks, Pc.pend]

/-- an actor inside `await_suspend` is a coroutine frame -/
theorem Inv.frame_of_wait {s : State} (hI : Inv s) {a : Actor} (h : (s.pc a).isWait = true) : ∃ h', a = .fr h' := by
  cases a with
  | fr h' => exact ⟨h', rfl⟩
  | cl t => have := hI.kindC t; rw [h] at this; cases this

/-- an actor at a client pc is a client thread -/
theorem Inv.client_of {s : State} (hI : Inv s) {a : Actor} (h1 : (s.pc a).isWait = false) (h2 : s.pc a ≠ .idle) :
    ∀ h', a ≠ .fr h' := by
  intro h' e; subst e
  rcases hI.kindF h' with h3 | h3
  · exact h2 h3
  · rw [h1] at h3; cases h3

/-- returning from a call: `res` is not read by the invariant -/
theorem Inv.of_ret {s : State} {a : Actor} {k : Nat} (h : Inv (s.setPc a .idle)) : Inv (s.ret a k) := by
  refine h.congr ?_ ?_ ?_ ?_ ?_ ?_ ?_ ?_ ?_ <;> simp


theorem drop_cons_facts (took : List Nat) (k n : Nat) (rest : List Nat) (h : took.drop k = n :: rest) :
    k < took.length ∧ took.take (k + 1) = took.take k ++ [n] ∧ took.drop (k + 1) = rest := by
  have hk : k < took.length := by
    rcases Nat.lt_or_ge k took.length with hk | hge
    · exact hk
    · have : took.drop k = [] := List.drop_eq_nil_of_le hge
      rw [this] at h; cases h
  refine ⟨hk, ?_, ?_⟩
  · rw [List.take_add_one]
    congr 1
    have : took[k]? = some n := by
      have := List.head?_drop (l := took) (i := k)
      rw [h] at this
      simpa using this.symm
    rw [this]; rfl
  · have : took.drop (k + 1) = (took.drop k).drop 1 := by rw [List.drop_drop]
    rw [this, h]; rfl

/-- every step of an actor preserves the invariant -/
theorem Inv.act {s s' : State} (hI : Inv s) {a : Actor} {inp : Nat × Nat} {e : Ev}
    (h : step cfgFixed s a inp = some (s', e)) : Inv s' := by
  cases hp : s.pc a with
  | idle => rw [step_idle hp] at h; cases h
  | wAlloc f v =>
    obtain ⟨h', rfl⟩ := hI.frame_of_wait (a := a) (by simp [hp, Pc.isWait])
    rw [step_wAlloc hp] at h
    split at h
    · rename_i hc
      injection h with h; injection h with h1 _; subst h1
      exact hI.wAlloc hp hc.1 hc.2
    · cases h
  | wCons f v n ver =>
    obtain ⟨h', rfl⟩ := hI.frame_of_wait (a := a) (by simp [hp, Pc.isWait])
    rw [step_wCons hp] at h
    injection h with h; injection h with h1 _; subst h1
    exact hI.wCons hp
  | wLock f v n ver =>
    rw [step_wLock hp] at h
    split at h
    · rename_i hc
      injection h with h; injection h with h1 _; subst h1
      exact hI.lockStep hc (by simp [hp, Pc.isWait]) (by simp [hp, Pc.fresh]) (by simp [hp, Pc.pre]) (by simp [hp, Pc.post])
        (by simp [hp, Pc.locks]) (by simp [Pc.locks]) (by simp [Pc.pend]) (by simp [hp, Pc.pend]) (by simp [hp])
        (by simp) (by simp [hp]) (by simp) (by simp) (by simp [hp]) (by simp [hp]) (by simp [hp])
        (by simp) (by simp) (by simp) (by simp) (by simp) (by simp) (by simp) (by simp) (by simp)
        (by intro g v' n' ver' m he; injection he with e1 e2 e3 e4 e5; subst e1 e2 e3 e4; exact hp)
        (by simp) (by simp) (by simp) (by simp) (by simp [hp])
    · cases h
  | wLink f v n ver m =>
    obtain ⟨h', rfl⟩ := hI.frame_of_wait (a := a) (by simp [hp, Pc.isWait])
    cases m with
    | true =>
      rw [step_wLinkT hp] at h
      injection h with h; injection h with h1 _; subst h1
      exact hI.wLinkT hp
    | false =>
      rw [step_wLinkF hp] at h
      injection h with h; injection h with h1 _; subst h1
      have hv := hI.freshVer h' f v n ver (Or.inr (Or.inr ⟨false, hp⟩))
      exact hI.unlockStep (by simp [hp, Pc.isWait]) (by simp [hp, Pc.fresh]) (by simp [hp, Pc.pre]) (by simp [hp, Pc.post])
        (by simp [hp, Pc.locks]) (by simp [Pc.locks]) (by simp [Pc.pend]) (by simp [hp, Pc.pend]) (by simp)
        (by simp) (by simp) (by simp) (by simp) (by simp [hp]) (by simp [hp]) (by simp [hp]) (by simp [hp])
        (by simp) (by simp) (by simp) (by simp) (by simp) (by simp) (by simp) (by simp) (by simp)
        (by simp) (by simp) (by simp)
        (by intro n' ver' he; injection he with e1 e2; subst e1 e2; exact hv)
        (by simp) (by simp [hp])
  | wTake n ver =>
    obtain ⟨h', rfl⟩ := hI.frame_of_wait (a := a) (by simp [hp, Pc.isWait])
    rw [step_wTake hp] at h
    injection h with h; injection h with h1 _; subst h1
    have hfr := hI.freshOk h' n (by simp [hp, Pc.fresh])
    have hnt : (s.box n).taken = false := by
      cases ht : (s.box n).taken
      · rfl
      · have := (hfr.2.2.2 ht).1; rw [hp] at this; cases this
    have hv := hI.freshVerT h' n ver hp
    have : (s.take n ver (.fr h')).2 = { s with box := upd s.box n { s.box n with taken := true, own := some (.fr h') } } := by
      simp [take_eq, hv, hnt]
    rw [this]
    exact hI.wTake hp
  | wFree n =>
    obtain ⟨h', rfl⟩ := hI.frame_of_wait (a := a) (by simp [hp, Pc.isWait])
    rw [step_wFree hp] at h
    injection h with h; injection h with h1 _; subst h1
    exact hI.wFree hp
  | sSet f v =>
    rw [step_sSet hp] at h
    injection h with h; injection h with h1 _; subst h1
    have hcl := hI.client_of (a := a) (by simp [hp, Pc.isWait]) (by simp [hp])
    refine Inv.of_ret ?_
    have : Inv (s.setPc a .idle) := hI.pcOnly (by simp [hp, Pc.isWait]) (by simp [hp, Pc.fresh]) (by simp [hp, Pc.pre])
      (by simp [hp, Pc.post]) (by simp [hp, Pc.locks]) (by simp [hp, Pc.pend]) hcl (by simp [hp, Pc.isWait])
      (by simp) (by simp) (by simp) (by simp) (by simp [hp]) (by simp [hp]) (by simp [hp]) (by simp [hp])
      (by simp) (by simp) (by simp) (by simp) (by simp) (by simp) (by simp) (by simp) (by simp) (by simp [hp])
    exact this.congr rfl rfl rfl rfl rfl rfl rfl rfl rfl
  | oLock f =>
    rw [step_oLock hp] at h
    split at h
    · rename_i hc
      have hnone : s.hnext f = none → s.glist f = [] := by
        intro e
        have := (hI.listOk f).1.head
        rw [e] at this
        cases hg : s.glist f with
        | nil => rfl
        | cons y ys => rw [hg] at this; cases this
      cases hx : s.hnext f with
      | none =>
        rw [hx] at h
        injection h with h; injection h with h1 _; subst h1
        exact hI.lockStep hc (by simp [hp, Pc.isWait]) (by simp [hp, Pc.fresh]) (by simp [hp, Pc.pre]) (by simp [hp, Pc.post])
          (by simp [hp, Pc.locks]) (by simp [Pc.locks]) (by simp [Pc.pend]) (by simp [hp, Pc.pend]) (by simp [hp])
          (by simp) (by simp [hp]) (by simp) (by simp) (by simp [hp]) (by simp [hp]) (by simp [hp])
          (by simp) (by simp)
          (by intro g got l0 seen he; injection he with e1 e2 e3 e4; subst e1 e2 e3 e4; exact ⟨rfl, hx, hnone hx, by rw [hnone hx]⟩)
          (by simp) (by simp) (by simp) (by simp) (by simp) (by simp)
          (by simp) (by simp) (by simp) (by simp) (by simp) (by simp [hp])
      | some x =>
        rw [hx] at h
        injection h with h; injection h with h1 _; subst h1
        exact hI.lockStep hc (by simp [hp, Pc.isWait]) (by simp [hp, Pc.fresh]) (by simp [hp, Pc.pre]) (by simp [hp, Pc.post])
          (by simp [hp, Pc.locks]) (by simp [Pc.locks]) (by simp [Pc.pend]) (by simp [hp, Pc.pend]) (by simp [hp])
          (by simp) (by simp [hp]) (by simp) (by simp) (by simp [hp]) (by simp [hp]) (by simp [hp])
          (by simp)
          (by intro g cur l0 seen he; injection he with e1 e2 e3 e4; subst e1 e2 e3 e4; exact ⟨hx, by simp⟩)
          (by simp) (by simp) (by simp) (by simp) (by simp) (by simp) (by simp)
          (by simp) (by simp) (by simp) (by simp) (by simp) (by simp [hp])
    · cases h
  | oScan f cur l0 seen =>
    rw [step_oScan hp] at h
    obtain ⟨_, _, hcurM, _, _⟩ := hI.oScan_facts hp
    have hpn := hI.pubNode cur hcurM.1 hcurM.2.1
    cases ht : (s.box cur).taken with
    | false =>
      have htk : ((s.unlinkFirst f cur).take cur (s.node cur).ver a) =
          (true, { s.unlinkFirst f cur with box := upd (s.unlinkFirst f cur).box cur { (s.unlinkFirst f cur).box cur with taken := true, own := some a } }) := by
        simp [take_eq, unlinkFirst_box, hpn, ht]
      rw [htk] at h
      simp only [if_true] at h
      injection h with h; injection h with h1 _; subst h1
      exact hI.oScanT hp ht
    | true =>
      have htk : ((s.unlinkFirst f cur).take cur (s.node cur).ver a) = (false, s.unlinkFirst f cur) := by
        simp [take_eq, unlinkFirst_box, ht]
      rw [htk] at h
      simp only [Bool.false_eq_true, if_false] at h
      cases hnx : (s.node cur).next with
      | none =>
        rw [hnx] at h
        injection h with h; injection h with h1 _; subst h1
        exact hI.oScanFN hp ht hnx
      | some y =>
        rw [hnx] at h
        injection h with h; injection h with h1 _; subst h1
        exact hI.oScanFS hp ht hnx rfl
  | oUnlock f got l0 seen =>
    have hcl := hI.client_of (a := a) (by simp [hp, Pc.isWait]) (by simp [hp])
    cases got with
    | none =>
      rw [step_oUnlockN hp] at h
      injection h with h; injection h with h1 _; subst h1
      refine Inv.of_ret ?_
      exact hI.unlockStep (by simp [hp, Pc.isWait]) (by simp [hp, Pc.fresh]) (by simp [hp, Pc.pre]) (by simp [hp, Pc.post])
        (by simp [hp, Pc.locks]) (by simp [Pc.locks]) (by simp [Pc.pend]) (by simp [hp, Pc.pend]) (fun _ => hcl)
        (by simp) (by simp) (by simp) (by simp) (by simp [hp]) (by simp [hp]) (by simp [hp]) (by simp [hp])
        (by simp) (by simp) (by simp) (by simp) (by simp) (by simp) (by simp) (by simp) (by simp)
        (by simp) (by simp) (by simp) (by simp) (by simp) (by simp [hp])
    | some n =>
      rw [step_oUnlockS hp] at h
      injection h with h; injection h with h1 _; subst h1
      exact hI.unlockStep (by simp [hp, Pc.isWait]) (by simp [hp, Pc.fresh]) (by simp [hp, Pc.pre]) (by simp [hp, Pc.post])
        (by simp [hp, Pc.locks]) (by simp [Pc.locks]) (by simp [Pc.pend]) (by simp [hp, Pc.pend]) (by simp)
        (by simp) (by simp) (by simp) (by simp) (by simp [hp]) (by simp [hp]) (by simp [hp]) (by simp [hp])
        (by simp) (by simp) (by simp) (by simp) (by simp) (by simp) (by simp) (by simp) (by simp)
        (by simp) (by simp) (by simp) (by simp) (by simp) (by simp [hp])
  | oResume n =>
    rw [step_oResume hp] at h
    injection h with h; injection h with h1 _; subst h1
    exact hI.resumeOf (by simp [hp, Pc.pre]) (by simp [hp, Pc.locks]) (by simp [hp, Pc.isWait]) (by simp [hp, Pc.pend])
      (by simp [hp, Pc.post]) (by simp [hp]) (by simp [hp]) (by simp [Pc.isWait]) (by simp [Pc.fresh])
      (by intro x; simp [hp, Pc.pre]) (by simp [Pc.post]) (by simp [Pc.locks]) (by simp [Pc.pend])
      (by simp) (by simp) (by simp) (by simp [hp])
      ⟨by simp, by simp, by simp, by simp, by simp, by simp, by simp, by simp, by simp⟩
  | oFree n =>
    rw [step_oFree hp] at h
    injection h with h; injection h with h1 _; subst h1
    refine Inv.of_ret ?_
    exact hI.free (by simp [hp, Pc.post]) (by simp [hp, Pc.locks]) (by simp [hp, Pc.isWait]) (by simp [hp, Pc.pend])
      (by simp [Pc.isWait]) (by simp [Pc.fresh]) (by simp [hp, Pc.pre]) (by simp [Pc.post]) (by simp [Pc.locks]) (by simp [Pc.pend])
      (by simp) ⟨by simp, by simp, by simp, by simp, by simp, by simp, by simp, by simp, by simp⟩
  | aLock f =>
    rw [step_aLock hp] at h
    split at h
    · rename_i hc
      cases hx : s.hnext f with
      | none =>
        rw [hx] at h
        injection h with h; injection h with h1 _; subst h1
        exact hI.aLockN hp hc hx
      | some x =>
        rw [hx] at h
        injection h with h; injection h with h1 _; subst h1
        exact hI.aLockS hp hc hx
    · cases h
  | aScan f hd tail cur took pend skip l0 =>
    obtain ⟨_, _, _, ⟨prest, hpend, _⟩, _, _, htl, hcurM, _, _⟩ := hI.aScan_facts hp
    subst hpend
    have hpn := hI.pubNode cur hcurM.1 hcurM.2.1
    simp only [step, hp] at h
    cases ht : (s.box cur).taken with
    | false =>
      have htk : ((s.setPrev cur .null).take cur (s.node cur).ver a) =
          (true, { s.setPrev cur .null with box := upd (s.setPrev cur .null).box cur { (s.setPrev cur .null).box cur with taken := true, own := some a } }) := by
        simp [take_eq, hpn, ht]
      rw [htk] at h
      simp only [if_true] at h
      cases hnx : (s.node cur).next with
      | none =>
        rw [hnx] at h
        injection h with h; injection h with h1 _; subst h1
        exact hI.aScanTN hp ht hnx
      | some y =>
        rw [hnx] at h
        simp only [List.tail_cons] at h
        injection h with h; injection h with h1 _; subst h1
        exact hI.aScanTS hp ht hnx
    | true =>
      have htk : ((s.setPrev cur .null).take cur (s.node cur).ver a) = (false, s.setPrev cur .null) := by
        simp [take_eq, ht]
      rw [htk] at h
      simp only [Bool.false_eq_true, if_false] at h
      cases tail with
      | hd =>
        have htook : took = [] := by
          unfold tailOf at htl
          cases hgl : took.getLast? with
          | none => exact List.getLast?_eq_none_iff.mp hgl
          | some z => rw [hgl] at htl; cases htl
        subst htook
        cases hnx : (s.node cur).next with
        | none =>
          rw [hnx] at h
          injection h with h; injection h with h1 _; subst h1
          exact hI.aScanFHN hp ht hnx
        | some y =>
          rw [hnx] at h
          simp only [List.tail_cons] at h
          injection h with h; injection h with h1 _; subst h1
          exact hI.aScanFHS hp ht hnx
      | nx t =>
        cases hnx : (s.node cur).next with
        | none =>
          rw [hnx] at h
          injection h with h; injection h with h1 _; subst h1
          have := hI.aScanFXN hp ht rfl hnx
          rw [hnx] at this
          exact this
        | some y =>
          rw [hnx] at h
          simp only [List.tail_cons] at h
          injection h with h; injection h with h1 _; subst h1
          have := hI.aScanFXS hp ht rfl hnx
          rw [hnx] at this
          exact this
  | aUnlock f hd took skip l0 =>
    have hcl := hI.client_of (a := a) (by simp [hp, Pc.isWait]) (by simp [hp])
    obtain ⟨hu1, hu2, hu3⟩ := hI.aUnlockOk a f hd took skip l0 hp
    cases hd with
    | none =>
      rw [step_aUnlockN hp] at h
      injection h with h; injection h with h1 _; subst h1
      have htk0 : took = [] := by
        cases took with
        | nil => rfl
        | cons z zs => cases hu2.1
      subst htk0
      refine Inv.of_ret ?_
      exact hI.unlockStep (by simp [hp, Pc.isWait]) (by simp [hp, Pc.fresh]) (by simp [hp, Pc.pre]) (by simp [hp, Pc.post])
        (by simp [hp, Pc.locks]) (by simp [Pc.locks]) (by simp [Pc.pend]) (by simp [hp, Pc.pend]) (fun _ => hcl)
        (by simp) (by simp) (by simp) (by simp) (by simp [hp]) (by simp [hp]) (by simp [hp]) (by simp [hp])
        (by simp) (by simp) (by simp) (by simp) (by simp) (by simp) (by simp) (by simp) (by simp)
        (by simp) (by simp) (by simp) (by simp) (by simp) (by simp [hp])
    | some n =>
      rw [step_aUnlockS hp] at h
      injection h with h; injection h with h1 _; subst h1
      exact hI.unlockStep (by simp [hp, Pc.isWait]) (by simp [hp, Pc.fresh]) (by simp [hp, Pc.pre]) (by simp [hp, Pc.post])
        (by simp [hp, Pc.locks]) (by simp [Pc.locks]) (by simp [Pc.pend]) (by simp [hp, Pc.pend]) (by simp)
        (by simp) (by simp) (by simp) (by simp) (by simp [hp]) (by simp [hp]) (by simp [hp]) (by simp [hp])
        (by simp) (by simp) (by simp) (by simp)
        (by intro m k took' rs he; injection he with e1 e2 e3 e4; subst e1 e2 e3 e4; exact ⟨rfl, by simp, by simpa using hu2, hu3⟩)
        (by simp) (by simp) (by simp) (by simp)
        (by simp) (by simp) (by simp) (by simp) (by simp) (by simp [hp])
  | aNext n k took rs =>
    have hcl := hI.client_of (a := a) (by simp [hp, Pc.isWait]) (by simp [hp])
    obtain ⟨hn1, hn2, hn3, hn4⟩ := hI.aNextOk a n k took rs hp
    rw [step_aNext hp] at h
    injection h with h; injection h with h1 _; subst h1
    exact hI.pcOnly (by simp [hp, Pc.isWait]) (by simp [hp, Pc.fresh]) (by simp [hp, Pc.pre])
      (by simp [hp, Pc.post]) (by simp [hp, Pc.locks]) (by simp [hp, Pc.pend]) hcl (by simp [hp, Pc.isWait])
      (by simp) (by simp) (by simp) (by simp) (by simp [hp]) (by simp [hp]) (by simp [hp]) (by simp [hp])
      (by simp) (by simp) (by simp) (by simp) (by simp)
      (by
        intro m nx k' took' rs' he
        injection he with e1 e2 e3 e4 e5
        subst e1 e2 e3 e4 e5
        cases hd : took.drop k with
        | nil => rw [hd] at hn3; cases hn3
        | cons z rest =>
          rw [hd] at hn3
          have : z = n := by have := hn3.1; injection this with this; exact this.symm
          subst this
          exact ⟨hn1, hn2, ⟨rest, rfl, hn3.2⟩, hn4⟩)
      (by simp) (by simp) (by simp) (by simp [hp])
  | aResume n nx k took rs =>
    obtain ⟨hr1, hr2, ⟨rest, hr3, hr3'⟩, hr4⟩ := hI.aResumeOk a n nx k took rs hp
    rw [step_aResume hp] at h
    injection h with h; injection h with h1 _; subst h1
    obtain ⟨hk, htk1, hdrop⟩ := drop_cons_facts took k n rest hr3
    have hnrest : n ∉ rest := by
      have : (took.drop k).Nodup := List.Nodup.sublist (List.drop_sublist k took) hr4
      rw [hr3] at this
      exact (List.nodup_cons.mp this).1
    have htake : rs ++ [n] = took.take (k + 1) := by rw [hr2, htk1]
    exact hI.resumeOf (by simp [hp, Pc.pre, ← hr1, hr3]) (by simp [hp, Pc.locks]) (by simp [hp, Pc.isWait]) (by simp [hp, Pc.pend])
      (by simp [hp, Pc.post]) (by simp [hp]) (by simp [hp]) (by simp [Pc.isWait]) (by simp [Pc.fresh])
      (by
        intro x
        simp only [Pc.pre, hp, List.length_append, List.length_singleton, ← hr1, hdrop, hr3, List.mem_cons]
        constructor
        · intro hx; exact ⟨Or.inr hx, fun e => hnrest (e ▸ hx)⟩
        · rintro ⟨hx | hx, hne⟩
          · exact absurd hx hne
          · exact hx)
      (by simp [Pc.post]) (by simp [Pc.locks]) (by simp [Pc.pend])
      (by simp) (by simp) (by simp) (by simp [hp])
      ⟨by simp, by simp, by simp, by simp, by simp, by simp,
       by
        intro m nx' k' took' rs' he
        injection he with e1 e2 e3 e4 e5
        subst e1 e2 e3 e4 e5
        exact ⟨by simp [← hr1], htake, by rw [hdrop]; exact hr3', hr4, by simp⟩,
       by simp, by simp⟩
  | aFree n nx k took rs =>
    obtain ⟨hf1, hf2, hf3, hf4, hf5⟩ := hI.aFreeOk a n nx k took rs hp
    cases nx with
    | none =>
      rw [step_aFreeN hp] at h
      injection h with h; injection h with h1 _; subst h1
      refine Inv.of_ret ?_
      have hd0 : took.drop rs.length = [] := by
        rw [hf1]
        cases hd : took.drop (k + 1) with
        | nil => rfl
        | cons z zs => rw [hd] at hf3; exact absurd hf3.1 (by simp)
      exact hI.free (by simp [hp, Pc.post]) (by simp [hp, Pc.locks]) (by simp [hp, Pc.isWait]) (by simp [hp, Pc.pend])
        (by simp [Pc.isWait]) (by simp [Pc.fresh]) (by simp [hp, Pc.pre, hd0]) (by simp [Pc.post]) (by simp [Pc.locks]) (by simp [Pc.pend])
        (by simp) ⟨by simp, by simp, by simp, by simp, by simp, by simp, by simp, by simp, by simp⟩
    | some m =>
      rw [step_aFreeS hp] at h
      injection h with h; injection h with h1 _; subst h1
      exact hI.free (by simp [hp, Pc.post]) (by simp [hp, Pc.locks]) (by simp [hp, Pc.isWait]) (by simp [hp, Pc.pend])
        (by simp [Pc.isWait]) (by simp [Pc.fresh]) (by simp [hp, Pc.pre]) (by simp [Pc.post]) (by simp [Pc.locks]) (by simp [Pc.pend])
        (by simp) ⟨by simp, by simp, by simp, by simp,
          by
            intro m' k' took' rs' he
            injection he with e1 e2 e3 e4
            subst e1 e2 e3 e4
            exact ⟨hf1.symm, hf2, hf3, hf4⟩,
          by simp, by simp, by simp, by simp⟩
  | aRead n k took rs => exact absurd hp (hI.noRead a n k took rs)
  | cTake n ver =>
    have hcl := hI.client_of (a := a) (by simp [hp, Pc.isWait]) (by simp [hp])
    rw [step_cTake hp] at h
    by_cases hc : (s.box n).ver = ver ∧ (s.box n).taken = false
    · have htk : s.take n ver a = (true, { s with box := upd s.box n { s.box n with taken := true, own := some a } }) := by
        simp [take_eq, hc.1, hc.2]
      rw [htk] at h
      simp only [if_true] at h
      injection h with h; injection h with h1 _; subst h1
      exact hI.cTakeOk' hp hc.1 hc.2
    · have htk : s.take n ver a = (false, s) := by
        simp only [take_eq]; rw [if_neg hc]
      rw [htk] at h
      simp only [Bool.false_eq_true, if_false] at h
      injection h with h; injection h with h1 _; subst h1
      refine Inv.of_ret ?_
      exact hI.pcOnly (by simp [hp, Pc.isWait]) (by simp [hp, Pc.fresh]) (by simp [hp, Pc.pre])
        (by simp [hp, Pc.post]) (by simp [hp, Pc.locks]) (by simp [hp, Pc.pend]) hcl (by simp [hp, Pc.isWait])
        (by simp) (by simp) (by simp) (by simp) (by simp [hp]) (by simp [hp]) (by simp [hp]) (by simp [hp])
        (by simp) (by simp) (by simp) (by simp) (by simp) (by simp) (by simp) (by simp) (by simp) (by simp [hp])
  | cLock n =>
    rw [step_cLock hp] at h
    split at h
    · rename_i hc
      injection h with h; injection h with h1 _; subst h1
      exact hI.lockStep hc (by simp [hp, Pc.isWait]) (by simp [hp, Pc.fresh]) (by simp [hp, Pc.pre]) (by simp [hp, Pc.post])
        (by simp [hp, Pc.locks]) (by simp [Pc.locks]) (by simp [Pc.pend]) (by simp [hp, Pc.pend]) (by simp [hp])
        (by simp)
        (by
          intro x g
          constructor
          · intro he; injection he with e1 e2; subst e1 e2; exact ⟨hp, rfl⟩
          · rintro ⟨he, hg⟩; rw [hp] at he; injection he with he; subst he hg; rfl)
        (by simp) (by simp) (by simp [hp]) (by simp [hp]) (by simp [hp])
        (by simp) (by simp) (by simp) (by simp) (by simp) (by simp) (by simp) (by simp) (by simp)
        (by simp) (by simp) (by simp) (by simp) (by simp) (by simp [hp])
    · cases h
  | cRemove n f =>
    rw [step_cRemove hp] at h
    injection h with h; injection h with h1 _; subst h1
    by_cases hpv : (s.node n).prev = .null
    · rw [removeNode_null s f n hpv]
      exact hI.cRemoveN hp hpv
    · exact hI.cRemoveS hp hpv
  | cResume n =>
    rw [step_cResume hp] at h
    injection h with h; injection h with h1 _; subst h1
    exact hI.resumeOf (by simp [hp, Pc.pre]) (by simp [hp, Pc.locks]) (by simp [hp, Pc.isWait]) (by simp [hp, Pc.pend])
      (by simp [hp, Pc.post]) (by simp [hp]) (by simp [hp]) (by simp [Pc.isWait]) (by simp [Pc.fresh])
      (by intro x; simp [hp, Pc.pre]) (by simp [Pc.post]) (by simp [Pc.locks]) (by simp [Pc.pend])
      (by simp) (by simp) (by simp) (by intro x; simp [hp, eq_comm])
      ⟨by simp, by simp, by simp, by simp, by simp, by simp, by simp, by simp, by simp⟩
  | cFree n =>
    rw [step_cFree hp] at h
    injection h with h; injection h with h1 _; subst h1
    refine Inv.of_ret ?_
    exact hI.free (by simp [hp, Pc.post]) (by simp [hp, Pc.locks]) (by simp [hp, Pc.isWait]) (by simp [hp, Pc.pend])
      (by simp [Pc.isWait]) (by simp [Pc.fresh]) (by simp [hp, Pc.pre]) (by simp [Pc.post]) (by simp [Pc.locks]) (by simp [Pc.pend])
      (by simp) ⟨by simp, by simp, by simp, by simp, by simp, by simp, by simp, by simp, by simp⟩

/-- every transition of the model preserves the invariant -/
theorem Inv.step {s s' : State} (hI : Inv s) (h : Step cfgFixed s s') : Inv s' := by
  cases h with
  | act a inp s'' e hs => exact hI.act hs
  | spawn h e hf =>
    exact hI.frChange (h := h) (x := .resuming) (by rw [hf]; simp) (by simp)
  | run h hr =>
    have := hI.frChange (h := h) (x := .running) (fx := s.fex) (by rw [hr]; simp) (by simp)
    exact this
  | wait h f v hr hp => exact hI.wait hr hp
  | finish h hr hp =>
    have := hI.frChange (h := h) (x := .done) (fx := s.fex) (by rw [hr]; simp) (by simp)
    exact this
  | wakeOne t f hp =>
    exact hI.pcOnly (by simp [State.cpc] at hp; simp [hp, Pc.isWait]) (by simp [State.cpc] at hp; simp [hp, Pc.fresh])
      (by simp [State.cpc] at hp; simp [hp, Pc.pre]) (by simp [State.cpc] at hp; simp [hp, Pc.post])
      (by simp [State.cpc] at hp; simp [hp, Pc.locks]) (by simp [State.cpc] at hp; simp [hp, Pc.pend]) (by simp)
      (by simp [State.cpc] at hp; simp [hp, Pc.isWait])
      (by simp) (by simp) (by simp) (by simp)
      (by simp [State.cpc] at hp; simp [hp]) (by simp [State.cpc] at hp; simp [hp]) (by simp [State.cpc] at hp; simp [hp])
      (by simp [State.cpc] at hp; simp [hp])
      (by simp) (by simp) (by simp) (by simp) (by simp) (by simp) (by simp) (by simp) (by simp)
      (by simp [State.cpc] at hp; simp [hp])
  | wakeAll t f hp =>
    exact hI.pcOnly (by simp [State.cpc] at hp; simp [hp, Pc.isWait]) (by simp [State.cpc] at hp; simp [hp, Pc.fresh])
      (by simp [State.cpc] at hp; simp [hp, Pc.pre]) (by simp [State.cpc] at hp; simp [hp, Pc.post])
      (by simp [State.cpc] at hp; simp [hp, Pc.locks]) (by simp [State.cpc] at hp; simp [hp, Pc.pend]) (by simp)
      (by simp [State.cpc] at hp; simp [hp, Pc.isWait])
      (by simp) (by simp) (by simp) (by simp)
      (by simp [State.cpc] at hp; simp [hp]) (by simp [State.cpc] at hp; simp [hp]) (by simp [State.cpc] at hp; simp [hp])
      (by simp [State.cpc] at hp; simp [hp])
      (by simp) (by simp) (by simp) (by simp) (by simp) (by simp) (by simp) (by simp) (by simp)
      (by simp [State.cpc] at hp; simp [hp])
  | setVal t f v hp =>
    exact hI.pcOnly (by simp [State.cpc] at hp; simp [hp, Pc.isWait]) (by simp [State.cpc] at hp; simp [hp, Pc.fresh])
      (by simp [State.cpc] at hp; simp [hp, Pc.pre]) (by simp [State.cpc] at hp; simp [hp, Pc.post])
      (by simp [State.cpc] at hp; simp [hp, Pc.locks]) (by simp [State.cpc] at hp; simp [hp, Pc.pend]) (by simp)
      (by simp [State.cpc] at hp; simp [hp, Pc.isWait])
      (by simp) (by simp) (by simp) (by simp)
      (by simp [State.cpc] at hp; simp [hp]) (by simp [State.cpc] at hp; simp [hp]) (by simp [State.cpc] at hp; simp [hp])
      (by simp [State.cpc] at hp; simp [hp])
      (by simp) (by simp) (by simp) (by simp) (by simp) (by simp) (by simp) (by simp) (by simp)
      (by simp [State.cpc] at hp; simp [hp])
  | cancel t n ver hp hu hv hc =>
    exact hI.pcOnly (by simp [State.cpc] at hp; simp [hp, Pc.isWait]) (by simp [State.cpc] at hp; simp [hp, Pc.fresh])
      (by simp [State.cpc] at hp; simp [hp, Pc.pre]) (by simp [State.cpc] at hp; simp [hp, Pc.post])
      (by simp [State.cpc] at hp; simp [hp, Pc.locks]) (by simp [State.cpc] at hp; simp [hp, Pc.pend]) (by simp)
      (by simp [State.cpc] at hp; simp [hp, Pc.isWait])
      (by simp) (by simp) (by simp) (by simp)
      (by simp [State.cpc] at hp; simp [hp]) (by simp [State.cpc] at hp; simp [hp]) (by simp [State.cpc] at hp; simp [hp])
      (by simp [State.cpc] at hp; simp [hp])
      (by simp) (by simp) (by simp) (by simp) (by simp) (by simp) (by simp) (by simp)
      (by intro m v he; injection he with e1 e2; subst e1 e2; exact ⟨hu, hv, hc⟩)
      (by simp [State.cpc] at hp; simp [hp])

/-- reachable states of the repaired configuration -/
def Reach (s : State) : Prop := Reachable (· = State.init) (Step cfgFixed) s

theorem Reach.inv {s : State} (h : Reach s) : Inv s :=
  Reachable.invariant Inv (fun x (h0 : x = State.init) => by rw [h0]; exact Inv.init) (fun _ _ hI hs => hI.step hs) s h

end Babylon.Coro
