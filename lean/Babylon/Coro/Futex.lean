/-
  Model of the coroutine futex `babylon::coroutine::Futex`
  (src/babylon/coroutine/futex.h, futex.cpp) together with the `DepositBox<Node>` slots its waits
  live in.

  * Coroutine frames are abstract ids `h` with a status `running | suspended | resuming | done`;
    "resume h" (the call `node->promise->resume(node->handle)`) is legal only for a suspended frame:
    a second resume, or one that targets a frame that is not suspended, sets the ghost flag `bad`.
  * One futex = a mutex, the futex word and the intrusive doubly linked waiter list exactly as in
    futex.cpp: `hnext f` is `_awaiter_head.next`, every node has `prev` (null | the head | a node)
    and `next`.  The nodes live in deposit-box slots; a node is named by its slot index.
  * DepositBox specification assumed (property C14, stated here, nothing imported):
      - `emplace` returns an id `(slot, ver)` whose slot is not allocated and whose version is
        strictly larger than every version issued for that slot before; the slot becomes allocated
        and untaken;
      - `take_released (slot, ver)` succeeds iff `ver` is the slot's current version and nobody took
        it before (single winner; a stale id never matches); it is one atomic CAS;
      - `finish_released` recycles the slot (it may be handed out by the next `emplace`, which
        re-constructs the object in it).
  * Granularity: one step = one acquisition of the mutex (with the plain reads that follow it
    before the next scheduling point: the futex-word comparison of `add_awaiter`, the detaching of
    the list in `wake_all`), one deposit-box operation (with the plain list manipulation of the
    same loop iteration, which only the lock holder can observe), one release of the mutex (with
    the list manipulation of that critical section), one plain read of `next` outside the lock,
    one construction of a node, one `resume` call.  This is exactly the set of points at which
    VRT can switch threads (see harness/c13.cpp), so the same `step` function serves the theorems
    (any interleaving of any number of actors) and the lock-step replay of the real code.
  * `Cfg.nextFirst` is the shape of `wake_all`'s second loop, extracted from the source by
    gen/coro.py: `true` = `next` is read before `finish_released` (repaired), `false` = after.

  Ghost state (never read by a non-ghost update): `glist` (the waiter list as a list), the lists
  carried by the program counters of `wake_one` / `wake_all`, `own`, `pub`, `rsm`, `wslot`, `resumes`, `bad`,
  `allocs`, `frees`.
  Core Lean only.
-/
namespace Babylon.Coro

inductive Ptr
  | null
  | head (f : Nat)
  | node (n : Nat)
  deriving DecidableEq, Repr, Inhabited

/-- who executes a step: a client thread (wake_one / wake_all / cancel / store to the futex word)
or a coroutine frame (its own `co_await futex.wait(v)`) -/
inductive Actor
  | cl (t : Nat)
  | fr (h : Nat)
  deriving DecidableEq, Repr, Inhabited

/-- `Futex::Node` -/
structure Node where
  prev : Ptr := .null
  next : Option Nat := none
  fut : Nat := 0
  ver : Nat := 0            -- `id.version` (`id.value` is the slot index itself)
  h : Nat := 0              -- `promise` / `handle`: the waiting coroutine
  deriving DecidableEq, Repr, Inhabited

/-- bookkeeping of one deposit-box slot -/
structure Slot where
  ver : Nat := 0            -- version of the id issued by the last `emplace`
  taken : Bool := true      -- that id has been taken (the version word is `ver + 1`)
  alloc : Bool := false     -- the slot id is allocated (between `emplace` and `finish_released`)
  used : Bool := false      -- an id was issued for this slot at least once
  own : Option Actor := none   -- ghost: who took it
  pub : Bool := false       -- ghost: the wait of this round has been linked (its token may exist)
  rsm : Bool := false       -- ghost: the taker has issued the resume of this round's waiter
  deriving DecidableEq, Repr, Inhabited

inductive FrSt
  | fresh                   -- not spawned
  | running
  | suspended               -- inside `co_await` (from the moment `await_suspend` starts)
  | resuming                -- `resume` was called, the executor has not run the continuation yet
  | done
  deriving DecidableEq, Repr, Inhabited

/-- `tail` of `wake_all`: `&head` or `&node->next` -/
inductive TailP
  | hd
  | nx (n : Nat)
  deriving DecidableEq, Repr, Inhabited

/-- program counters; the arguments are the C++ locals (plus ghost lists, marked) -/
inductive Pc
  | idle
  -- Futex::Awaitable::await_suspend, executed by the waiting frame
  | wAlloc (f v : Nat)                         -- `box.emplace()`
  | wCons (f v n ver : Nat)                    -- construct the node, fill futex / id / promise / handle
  | wLock (f v n ver : Nat)                    -- add_awaiter: lock, compare
  | wLink (f v n ver : Nat) (m : Bool)         -- link if matched, unlock
  | wTake (n ver : Nat)                        -- value mismatch: `box.take_released(id)`
  | wFree (n : Nat)                            -- `box.finish_released(id)`
  -- store to the futex word
  | sSet (f v : Nat)
  -- Futex::wake_one
  | oLock (f : Nat)
  | oScan (f cur : Nat) (l0 seen : List Nat)   -- loop body on `node = cur`; ghost: list at lock time, nodes skipped
  | oUnlock (f : Nat) (got : Option Nat) (l0 seen : List Nat)
  | oResume (n : Nat)
  | oFree (n : Nat)
  -- Futex::wake_all
  | aLock (f : Nat)
  | aScan (f : Nat) (hd : Option Nat) (tail : TailP) (cur : Nat) (took pend skip l0 : List Nat)   -- ghost: taken so far, not yet scanned, skipped, list at lock time
  | aUnlock (f : Nat) (hd : Option Nat) (took skip l0 : List Nat)
  | aNext (n k : Nat) (took rs : List Nat)                     -- repaired shape: `next_node = node->next`
  | aResume (n : Nat) (nx : Option Nat) (k : Nat) (took rs : List Nat)
  | aFree (n : Nat) (nx : Option Nat) (k : Nat) (took rs : List Nat)
  | aRead (n k : Nat) (took rs : List Nat)                     -- old shape: `node = node->next` after finish
  -- Futex::Awaitable::cancel
  | cTake (n ver : Nat)
  | cLock (n : Nat)
  | cRemove (n f : Nat)
  | cResume (n : Nat)
  | cFree (n : Nat)
  deriving DecidableEq, Repr, Inhabited

structure Cfg where
  nextFirst : Bool := true
  deriving DecidableEq, Repr

structure State where
  val : Nat → Nat := fun _ => 0                -- futex words
  hnext : Nat → Option Nat := fun _ => none    -- `_awaiter_head.next`
  lock : Nat → Option Actor := fun _ => none   -- `_mutex`
  node : Nat → Node := fun _ => {}
  box : Nat → Slot := fun _ => {}
  fr : Nat → FrSt := fun _ => .fresh
  fex : Nat → Nat := fun _ => 0                -- executor a frame is bound to
  pc : Actor → Pc := fun _ => .idle            -- program counter of every actor
  res : Nat → Nat := fun _ => 0                -- value returned by the last call of a client
  -- ghost
  glist : Nat → List Nat := fun _ => []
  wslot : Nat → Option Nat := fun _ => none    -- the slot of the linked wait a frame is suspended in
  resumes : Nat → Nat := fun _ => 0
  bad : Bool := false
  allocs : Nat := 0
  frees : Nat := 0

def upd {α : Type} (f : Nat → α) (i : Nat) (v : α) : Nat → α := fun j => if j = i then v else f j

def updA {α : Type} (f : Actor → α) (a : Actor) (v : α) : Actor → α := fun b => if b = a then v else f b

def State.cpc (s : State) (t : Nat) : Pc := s.pc (.cl t)
def State.fpc (s : State) (h : Nat) : Pc := s.pc (.fr h)

def State.setPc (s : State) (a : Actor) (p : Pc) : State := { s with pc := updA s.pc a p }

/-- a client call returns `k` -/
def State.ret (s : State) (a : Actor) (k : Nat) : State :=
  match a with
  | .cl t => { s with pc := updA s.pc a .idle, res := upd s.res t k }
  | .fr _ => { s with pc := updA s.pc a .idle }

def State.setPrev (s : State) (n : Nat) (p : Ptr) : State :=
  { s with node := upd s.node n { s.node n with prev := p } }
def State.setNext (s : State) (n : Nat) (x : Option Nat) : State :=
  { s with node := upd s.node n { s.node n with next := x } }

/-- `p->next = x` where `p` is `&_awaiter_head` of some futex or a node -/
def State.setNextOf (s : State) (p : Ptr) (x : Option Nat) : State :=
  match p with
  | .null => s
  | .head f => { s with hnext := upd s.hnext f x }
  | .node n => s.setNext n x

/-- `DepositBox::take_released (n, v)`: one CAS on the slot's version word -/
def State.take (s : State) (n v : Nat) (a : Actor) : Bool × State :=
  if (s.box n).ver = v ∧ (s.box n).taken = false then
    (true, { s with box := upd s.box n { s.box n with taken := true, own := some a } })
  else (false, s)

/-- `DepositBox::finish_released`: the slot id goes back to the allocator -/
def State.free (s : State) (n : Nat) : State :=
  { s with box := upd s.box n { s.box n with alloc := false }, frees := s.frees + 1 }

/-- `promise->resume(handle)` -/
def State.resume (s : State) (h : Nat) : State :=
  if s.fr h = .suspended then
    { s with fr := upd s.fr h .resuming, resumes := upd s.resumes h (s.resumes h + 1), wslot := upd s.wslot h none }
  else
    { s with bad := true, resumes := upd s.resumes h (s.resumes h + 1), wslot := upd s.wslot h none }

/-- the taker of slot `n` resumes the coroutine stored in the node -/
def State.resumeOf (s : State) (n : Nat) : State :=
  let s1 := s.resume (s.node n).h
  { s1 with box := upd s1.box n { s1.box n with rsm := true } }

/-- observable label of a step (vocabulary of the lock-step replay) -/
inductive Ev
  | alloc (n ver : Nat)
  | cons (n : Nat)
  | lock (f : Nat)
  | unlock (f : Nat)
  | take (n ver : Nat) (ok : Bool)
  | free (n : Nat)
  | rdnext (n : Nat) (val : Option Nat)
  | setval (f v : Nat)
  | resume (h e : Nat)
  deriving DecidableEq, Repr, Inhabited

/-- the frame an actor stands for when it executes a wait (clients never do) -/
def Actor.frame : Actor → Nat
  | .fr h => h
  | .cl _ => 0

/-- unlink the first node `cur` of futex `f` the way `wake_one` does -/
def State.unlinkFirst (s : State) (f cur : Nat) : State :=
  let nx := (s.node cur).next
  let s1 := match nx with
    | some y => s.setPrev y (.head f)
    | none => s
  let s2 := { s1 with hnext := upd s1.hnext f nx }
  let s3 := { s2 with node := upd s2.node cur { s2.node cur with prev := .null, next := none } }
  { s3 with glist := upd s3.glist f ((s3.glist f).erase cur) }

/-- `remove_awaiter(node)` -/
def State.removeNode (s : State) (f n : Nat) : State :=
  if (s.node n).prev = .null then s else
    let s1 := s.setNextOf (s.node n).prev (s.node n).next
    let s2 := match (s.node n).next with
      | some y => s1.setPrev y (s.node n).prev
      | none => s1
    { s2 with glist := upd s2.glist f ((s2.glist f).erase n) }

/-- front insert of `add_awaiter` -/
def State.linkFront (s : State) (f n : Nat) : State :=
  let old := s.hnext f
  let s1 := { s with node := upd s.node n { s.node n with prev := .head f, next := old } }
  let s2 := { s1 with hnext := upd s1.hnext f (some n) }
  let s3 := match old with
    | some x => s2.setPrev x (.node n)
    | none => s2
  { s3 with glist := upd s3.glist f (n :: s3.glist f),
            box := upd s3.box n { s3.box n with pub := true },
            wslot := upd s3.wslot (s3.node n).h (some n) }

/-- One step of actor `a`.  `inp` is the id `(slot, version)` an `emplace` obtains (the only
nondeterministic input; constrained by the DepositBox specification above). -/
def step (c : Cfg) (s : State) (a : Actor) (inp : Nat × Nat) : Option (State × Ev) :=
  match s.pc a with
  | .idle => none
  -- ---------------------------------------------------------------- wait
  | .wAlloc f v =>
    let (n, ver) := inp
    if (s.box n).alloc = false ∧ ((s.box n).used = false ∨ (s.box n).ver < ver) then
      some (({ s with box := upd s.box n { ver := ver, taken := false, alloc := true, used := true, own := none, pub := false, rsm := false },
                      allocs := s.allocs + 1 }).setPc a (.wCons f v n ver), .alloc n ver)
    else none
  | .wCons f v n ver =>
    some (({ s with node := upd s.node n { prev := .null, next := none, fut := f, ver := ver, h := a.frame } }).setPc a (.wLock f v n ver),
          .cons n)
  | .wLock f v n ver =>
    if s.lock f = none then
      some (({ s with lock := upd s.lock f (some a) }).setPc a (.wLink f v n ver (s.val f == v)), .lock f)
    else none
  | .wLink f _ n ver m =>
    if m then
      let s1 := s.linkFront f n
      some (({ s1 with lock := upd s1.lock f none }).setPc a .idle, .unlock f)
    else
      some (({ s with lock := upd s.lock f none }).setPc a (.wTake n ver), .unlock f)
  | .wTake n ver =>
    let (ok, s1) := s.take n ver a
    some (s1.setPc a (.wFree n), .take n ver ok)
  | .wFree n =>
    let s1 := s.free n
    some (({ s1 with fr := upd s1.fr a.frame .running }).setPc a .idle, .free n)
  -- ---------------------------------------------------------------- store to the futex word
  | .sSet f v =>
    some (({ s with val := upd s.val f v }).ret a 0, .setval f v)
  -- ---------------------------------------------------------------- wake_one
  | .oLock f =>
    if s.lock f = none then
      let s1 := { s with lock := upd s.lock f (some a) }
      match s.hnext f with
      | none => some (s1.setPc a (.oUnlock f none (s.glist f) []), .lock f)
      | some x => some (s1.setPc a (.oScan f x (s.glist f) []), .lock f)
    else none
  | .oScan f cur l0 seen =>
    let nx := (s.node cur).next
    let ver := (s.node cur).ver
    let s1 := s.unlinkFirst f cur
    let (ok, s2) := s1.take cur ver a
    if ok then some (s2.setPc a (.oUnlock f (some cur) l0 seen), .take cur ver true)
    else match nx with
      | none => some (s2.setPc a (.oUnlock f none l0 (seen ++ [cur])), .take cur ver false)
      | some y => some (s2.setPc a (.oScan f y l0 (seen ++ [cur])), .take cur ver false)
  | .oUnlock f got _ _ =>
    let s1 := { s with lock := upd s.lock f none }
    match got with
    | none => some (s1.ret a 0, .unlock f)
    | some n => some (s1.setPc a (.oResume n), .unlock f)
  | .oResume n =>
    let h := (s.node n).h
    some ((s.resumeOf n).setPc a (.oFree n), .resume h (s.fex h))
  | .oFree n =>
    some ((s.free n).ret a 1, .free n)
  -- ---------------------------------------------------------------- wake_all
  | .aLock f =>
    if s.lock f = none then
      let s1 := { s with lock := upd s.lock f (some a), hnext := upd s.hnext f none, glist := upd s.glist f [] }
      match s.hnext f with
      | none => some (s1.setPc a (.aUnlock f none [] [] (s.glist f)), .lock f)
      | some x => some (s1.setPc a (.aScan f (some x) .hd x [] (s.glist f) [] (s.glist f)), .lock f)
    else none
  | .aScan f hd tail cur took pend skip l0 =>
    let nx := (s.node cur).next
    let ver := (s.node cur).ver
    let s1 := s.setPrev cur .null
    let (ok, s2) := s1.take cur ver a
    if ok then
      match nx with
      | none => some (s2.setPc a (.aUnlock f hd (took ++ [cur]) skip l0), .take cur ver true)
      | some y => some (s2.setPc a (.aScan f hd (.nx cur) y (took ++ [cur]) pend.tail skip l0), .take cur ver true)
    else
      -- `*tail = node->next`
      let (hd', s3) := match tail with
        | .hd => (nx, s2)
        | .nx t => (hd, s2.setNext t nx)
      match nx with
      | none => some (s3.setPc a (.aUnlock f hd' took (skip ++ [cur]) l0), .take cur ver false)
      | some y => some (s3.setPc a (.aScan f hd' tail y took pend.tail (skip ++ [cur]) l0), .take cur ver false)
  | .aUnlock f hd took _ _ =>
    let s1 := { s with lock := upd s.lock f none }
    match hd with
    | none => some (s1.ret a 0, .unlock f)
    | some n =>
      if c.nextFirst then some (s1.setPc a (.aNext n 0 took []), .unlock f)
      else some (s1.setPc a (.aResume n none 0 took []), .unlock f)
  | .aNext n k took rs =>
    some (s.setPc a (.aResume n (s.node n).next k took rs), .rdnext n (s.node n).next)
  | .aResume n nx k took rs =>
    let h := (s.node n).h
    some ((s.resumeOf n).setPc a (.aFree n nx k took (rs ++ [n])), .resume h (s.fex h))
  | .aFree n nx k took rs =>
    let s1 := s.free n
    if c.nextFirst then
      match nx with
      | none => some (s1.ret a (k + 1), .free n)
      | some m => some (s1.setPc a (.aNext m (k + 1) took rs), .free n)
    else some (s1.setPc a (.aRead n (k + 1) took rs), .free n)
  | .aRead n k took rs =>
    match (s.node n).next with
    | none => some (s.ret a k, .rdnext n none)
    | some m => some (s.setPc a (.aResume m none k took rs), .rdnext n (some m))
  -- ---------------------------------------------------------------- cancel
  | .cTake n ver =>
    let (ok, s1) := s.take n ver a
    if ok then some (s1.setPc a (.cLock n), .take n ver true)
    else some (s1.ret a 0, .take n ver false)
  | .cLock n =>
    let f := (s.node n).fut
    if s.lock f = none then
      some (({ s with lock := upd s.lock f (some a) }).setPc a (.cRemove n f), .lock f)
    else none
  | .cRemove n f =>
    let s1 := s.removeNode f n
    some (({ s1 with lock := upd s1.lock f none }).setPc a (.cResume n), .unlock f)
  | .cResume n =>
    let h := (s.node n).h
    some ((s.resumeOf n).setPc a (.cFree n), .resume h (s.fex h))
  | .cFree n =>
    some ((s.free n).ret a 1, .free n)

/-- the executor starts / continues a frame whose resumption was requested -/
def State.run (s : State) (h : Nat) : State := { s with fr := upd s.fr h .running }

/-- Transition relation: an actor takes its next step, or an idle actor starts a call the client
contract allows, or an executor runs a frame whose resumption is pending. -/
inductive Step (c : Cfg) : State → State → Prop
  | act (s : State) (a : Actor) (inp : Nat × Nat) (s' : State) (e : Ev) :
      step c s a inp = some (s', e) → Step c s s'
  /-- `executor.submit(task)`: a new coroutine, bound to executor `e` -/
  | spawn (s : State) (h e : Nat) : s.fr h = .fresh →
      Step c s { s with fr := upd s.fr h .resuming, fex := upd s.fex h e }
  /-- the executor the frame is bound to runs the (re)start - or refuses the closure (`invoke` returns a
  code != 0), in which case `resume_in_executor` resumes the frame in place: the outcome is a fault
  input, the frame runs in both cases -/
  | run (s : State) (h : Nat) : s.fr h = .resuming → Step c s (s.run h)
  /-- a running coroutine evaluates `co_await futex(f).wait(v)` -/
  | wait (s : State) (h f v : Nat) : s.fr h = .running → s.fpc h = .idle →
      Step c s ({ s with fr := upd s.fr h .suspended }.setPc (.fr h) (.wAlloc f v))
  /-- a running coroutine returns -/
  | finish (s : State) (h : Nat) : s.fr h = .running → s.fpc h = .idle →
      Step c s { s with fr := upd s.fr h .done }
  | wakeOne (s : State) (t f : Nat) : s.cpc t = .idle → Step c s (s.setPc (.cl t) (.oLock f))
  | wakeAll (s : State) (t f : Nat) : s.cpc t = .idle → Step c s (s.setPc (.cl t) (.aLock f))
  | setVal (s : State) (t f v : Nat) : s.cpc t = .idle → Step c s (s.setPc (.cl t) (.sSet f v))
  /-- `Cancellation::operator()`: the token `(n, ver)` came out of an `on_suspend` callback: it was
  issued by an earlier `emplace`, and if it names the current round of slot `n`, that wait has been
  linked -/
  | cancel (s : State) (t n ver : Nat) : s.cpc t = .idle →
      (s.box n).used = true → ver ≤ (s.box n).ver →
      ((s.box n).ver = ver → (s.box n).taken = false → (s.box n).pub = true) →
      Step c s (s.setPc (.cl t) (.cTake n ver))

def State.init : State := {}

end Babylon.Coro
