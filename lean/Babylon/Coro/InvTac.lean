/-
  Proof infrastructure for the preservation of `Inv` (Babylon/Coro/Inv.lean): projections of the
  state transformers, the equation of `step` at every program counter, and the automation used by
  the per-step files `Babylon/Coro/Step/*.lean`.
-/
import Babylon.Coro.Inv

namespace Babylon.Coro
open Babylon.Core

/-! ### projections -/
section proj
variable (s : State) (a : Actor) (p : Pc) (k n m f : Nat) (x : Option Nat) (q : Ptr) (h : Nat)

@[simp] theorem setPc_box : (s.setPc a p).box = s.box := rfl
@[simp] theorem setPc_node : (s.setPc a p).node = s.node := rfl
@[simp] theorem setPc_lock : (s.setPc a p).lock = s.lock := rfl
@[simp] theorem setPc_fr : (s.setPc a p).fr = s.fr := rfl
@[simp] theorem setPc_glist : (s.setPc a p).glist = s.glist := rfl
@[simp] theorem setPc_hnext : (s.setPc a p).hnext = s.hnext := rfl
@[simp] theorem setPc_wslot : (s.setPc a p).wslot = s.wslot := rfl
@[simp] theorem setPc_bad : (s.setPc a p).bad = s.bad := rfl
@[simp] theorem setPc_val : (s.setPc a p).val = s.val := rfl
@[simp] theorem setPc_resumes : (s.setPc a p).resumes = s.resumes := rfl
@[simp] theorem setPc_pc : (s.setPc a p).pc = updA s.pc a p := rfl

@[simp] theorem ret_box : (s.ret a k).box = s.box := by cases a <;> rfl
@[simp] theorem ret_node : (s.ret a k).node = s.node := by cases a <;> rfl
@[simp] theorem ret_lock : (s.ret a k).lock = s.lock := by cases a <;> rfl
@[simp] theorem ret_fr : (s.ret a k).fr = s.fr := by cases a <;> rfl
@[simp] theorem ret_glist : (s.ret a k).glist = s.glist := by cases a <;> rfl
@[simp] theorem ret_hnext : (s.ret a k).hnext = s.hnext := by cases a <;> rfl
@[simp] theorem ret_wslot : (s.ret a k).wslot = s.wslot := by cases a <;> rfl
@[simp] theorem ret_bad : (s.ret a k).bad = s.bad := by cases a <;> rfl
@[simp] theorem ret_val : (s.ret a k).val = s.val := by cases a <;> rfl
@[simp] theorem ret_resumes : (s.ret a k).resumes = s.resumes := by cases a <;> rfl
@[simp] theorem ret_pc : (s.ret a k).pc = updA s.pc a .idle := by cases a <;> rfl

@[simp] theorem free_box : (s.free n).box = upd s.box n { s.box n with alloc := false } := rfl
@[simp] theorem free_node : (s.free n).node = s.node := rfl
@[simp] theorem free_lock : (s.free n).lock = s.lock := rfl
@[simp] theorem free_fr : (s.free n).fr = s.fr := rfl
@[simp] theorem free_glist : (s.free n).glist = s.glist := rfl
@[simp] theorem free_hnext : (s.free n).hnext = s.hnext := rfl
@[simp] theorem free_wslot : (s.free n).wslot = s.wslot := rfl
@[simp] theorem free_bad : (s.free n).bad = s.bad := rfl
@[simp] theorem free_pc : (s.free n).pc = s.pc := rfl

@[simp] theorem setPrev_box : (s.setPrev n q).box = s.box := rfl
@[simp] theorem setPrev_node : (s.setPrev n q).node = upd s.node n { s.node n with prev := q } := rfl
@[simp] theorem setPrev_lock : (s.setPrev n q).lock = s.lock := rfl
@[simp] theorem setPrev_fr : (s.setPrev n q).fr = s.fr := rfl
@[simp] theorem setPrev_glist : (s.setPrev n q).glist = s.glist := rfl
@[simp] theorem setPrev_hnext : (s.setPrev n q).hnext = s.hnext := rfl
@[simp] theorem setPrev_wslot : (s.setPrev n q).wslot = s.wslot := rfl
@[simp] theorem setPrev_bad : (s.setPrev n q).bad = s.bad := rfl
@[simp] theorem setPrev_pc : (s.setPrev n q).pc = s.pc := rfl

@[simp] theorem setNext_box : (s.setNext n x).box = s.box := rfl
@[simp] theorem setNext_node : (s.setNext n x).node = upd s.node n { s.node n with next := x } := rfl
@[simp] theorem setNext_lock : (s.setNext n x).lock = s.lock := rfl
@[simp] theorem setNext_fr : (s.setNext n x).fr = s.fr := rfl
@[simp] theorem setNext_glist : (s.setNext n x).glist = s.glist := rfl
@[simp] theorem setNext_hnext : (s.setNext n x).hnext = s.hnext := rfl
@[simp] theorem setNext_wslot : (s.setNext n x).wslot = s.wslot := rfl
@[simp] theorem setNext_bad : (s.setNext n x).bad = s.bad := rfl
@[simp] theorem setNext_pc : (s.setNext n x).pc = s.pc := rfl

end proj

/-- `take` as a conditional update -/
theorem take_eq (s : State) (n v : Nat) (a : Actor) :
    s.take n v a =
      if (s.box n).ver = v ∧ (s.box n).taken = false then
        (true, { s with box := upd s.box n { s.box n with taken := true, own := some a } })
      else (false, s) := rfl

/-- `resume` on a suspended frame -/
theorem resume_susp (s : State) (h : Nat) (hs : s.fr h = .suspended) :
    s.resume h = { s with fr := upd s.fr h .resuming, resumes := upd s.resumes h (s.resumes h + 1),
                          wslot := upd s.wslot h none } := by
  simp [State.resume, hs]

/-! ### `step` at every program counter -/
section stepeq
variable {c : Cfg} {s : State} {a : Actor} {inp : Nat × Nat}

theorem step_idle (h : s.pc a = .idle) : step c s a inp = none := by simp [step, h]
theorem step_wAlloc {f v} (h : s.pc a = .wAlloc f v) : step c s a inp =
    if (s.box inp.1).alloc = false ∧ ((s.box inp.1).used = false ∨ (s.box inp.1).ver < inp.2) then
      some (({ s with box := upd s.box inp.1 { ver := inp.2, taken := false, alloc := true, used := true, own := none, pub := false, rsm := false },
                      allocs := s.allocs + 1 }).setPc a (.wCons f v inp.1 inp.2), .alloc inp.1 inp.2)
    else none := by
  obtain ⟨n, ver⟩ := inp
  simp [step, h]
theorem step_wCons {f v n ver} (h : s.pc a = .wCons f v n ver) : step c s a inp =
    some (({ s with node := upd s.node n { prev := .null, next := none, fut := f, ver := ver, h := a.frame } }).setPc a (.wLock f v n ver), .cons n) := by
  simp [step, h]
theorem step_wLock {f v n ver} (h : s.pc a = .wLock f v n ver) : step c s a inp =
    if s.lock f = none then
      some (({ s with lock := upd s.lock f (some a) }).setPc a (.wLink f v n ver (s.val f == v)), .lock f)
    else none := by
  simp [step, h]
theorem step_wLinkT {f v n ver} (h : s.pc a = .wLink f v n ver true) : step c s a inp =
    some (({ s.linkFront f n with lock := upd (s.linkFront f n).lock f none }).setPc a .idle, .unlock f) := by
  simp [step, h]
theorem step_wLinkF {f v n ver} (h : s.pc a = .wLink f v n ver false) : step c s a inp =
    some (({ s with lock := upd s.lock f none }).setPc a (.wTake n ver), .unlock f) := by
  simp [step, h]
theorem step_wTake {n ver} (h : s.pc a = .wTake n ver) : step c s a inp =
    some ((s.take n ver a).2.setPc a (.wFree n), .take n ver (s.take n ver a).1) := by
  simp [step, h]
theorem step_wFree {n} (h : s.pc a = .wFree n) : step c s a inp =
    some (({ s.free n with fr := upd (s.free n).fr a.frame .running }).setPc a .idle, .free n) := by
  simp [step, h]
theorem step_sSet {f v} (h : s.pc a = .sSet f v) : step c s a inp =
    some (({ s with val := upd s.val f v }).ret a 0, .setval f v) := by
  simp [step, h]
theorem step_oLock {f} (h : s.pc a = .oLock f) : step c s a inp =
    if s.lock f = none then
      match s.hnext f with
      | none => some (({ s with lock := upd s.lock f (some a) }).setPc a (.oUnlock f none (s.glist f) []), .lock f)
      | some x => some (({ s with lock := upd s.lock f (some a) }).setPc a (.oScan f x (s.glist f) []), .lock f)
    else none := by
  simp only [step, h]
  split
  · cases hh : s.hnext f <;> rfl
  · rfl
theorem step_oScan {f cur l0 seen} (h : s.pc a = .oScan f cur l0 seen) : step c s a inp =
    if ((s.unlinkFirst f cur).take cur (s.node cur).ver a).1 then
      some (((s.unlinkFirst f cur).take cur (s.node cur).ver a).2.setPc a (.oUnlock f (some cur) l0 seen), .take cur (s.node cur).ver true)
    else match (s.node cur).next with
      | none => some (((s.unlinkFirst f cur).take cur (s.node cur).ver a).2.setPc a (.oUnlock f none l0 (seen ++ [cur])), .take cur (s.node cur).ver false)
      | some y => some (((s.unlinkFirst f cur).take cur (s.node cur).ver a).2.setPc a (.oScan f y l0 (seen ++ [cur])), .take cur (s.node cur).ver false) := by
  simp only [step, h]
  split <;> rfl
theorem step_oUnlockN {f l0 seen} (h : s.pc a = .oUnlock f none l0 seen) : step c s a inp =
    some (({ s with lock := upd s.lock f none }).ret a 0, .unlock f) := by
  simp [step, h]
theorem step_oUnlockS {f n l0 seen} (h : s.pc a = .oUnlock f (some n) l0 seen) : step c s a inp =
    some (({ s with lock := upd s.lock f none }).setPc a (.oResume n), .unlock f) := by
  simp [step, h]
theorem step_oResume {n} (h : s.pc a = .oResume n) : step c s a inp =
    some ((s.resumeOf n).setPc a (.oFree n), .resume (s.node n).h (s.fex (s.node n).h)) := by
  simp [step, h]
theorem step_oFree {n} (h : s.pc a = .oFree n) : step c s a inp = some ((s.free n).ret a 1, .free n) := by
  simp [step, h]
theorem step_aLock {f} (h : s.pc a = .aLock f) : step c s a inp =
    if s.lock f = none then
      match s.hnext f with
      | none => some (({ s with lock := upd s.lock f (some a), hnext := upd s.hnext f none, glist := upd s.glist f [] }).setPc a (.aUnlock f none [] [] (s.glist f)), .lock f)
      | some x => some (({ s with lock := upd s.lock f (some a), hnext := upd s.hnext f none, glist := upd s.glist f [] }).setPc a (.aScan f (some x) .hd x [] (s.glist f) [] (s.glist f)), .lock f)
    else none := by
  simp only [step, h]
  split
  · cases hh : s.hnext f <;> rfl
  · rfl
theorem step_aUnlockN {f took skip l0} (h : s.pc a = .aUnlock f none took skip l0) : step c s a inp =
    some (({ s with lock := upd s.lock f none }).ret a 0, .unlock f) := by
  simp [step, h]
theorem step_aUnlockS {f n took skip l0} (h : s.pc a = .aUnlock f (some n) took skip l0) : step cfgFixed s a inp =
    some (({ s with lock := upd s.lock f none }).setPc a (.aNext n 0 took []), .unlock f) := by
  simp [step, h, cfgFixed]
theorem step_aNext {n k took rs} (h : s.pc a = .aNext n k took rs) : step c s a inp =
    some (s.setPc a (.aResume n (s.node n).next k took rs), .rdnext n (s.node n).next) := by
  simp [step, h]
theorem step_aResume {n nx k took rs} (h : s.pc a = .aResume n nx k took rs) : step c s a inp =
    some ((s.resumeOf n).setPc a (.aFree n nx k took (rs ++ [n])), .resume (s.node n).h (s.fex (s.node n).h)) := by
  simp [step, h]
theorem step_aFreeN {n k took rs} (h : s.pc a = .aFree n none k took rs) : step cfgFixed s a inp =
    some ((s.free n).ret a (k + 1), .free n) := by
  simp [step, h, cfgFixed]
theorem step_aFreeS {n m k took rs} (h : s.pc a = .aFree n (some m) k took rs) : step cfgFixed s a inp =
    some ((s.free n).setPc a (.aNext m (k + 1) took rs), .free n) := by
  simp [step, h, cfgFixed]
theorem step_cTake {n ver} (h : s.pc a = .cTake n ver) : step c s a inp =
    if (s.take n ver a).1 then some ((s.take n ver a).2.setPc a (.cLock n), .take n ver true)
    else some ((s.take n ver a).2.ret a 0, .take n ver false) := by
  simp only [step, h]
theorem step_cLock {n} (h : s.pc a = .cLock n) : step c s a inp =
    if s.lock (s.node n).fut = none then
      some (({ s with lock := upd s.lock (s.node n).fut (some a) }).setPc a (.cRemove n (s.node n).fut), .lock (s.node n).fut)
    else none := by
  simp [step, h]
theorem step_cRemove {n f} (h : s.pc a = .cRemove n f) : step c s a inp =
    some (({ s.removeNode f n with lock := upd (s.removeNode f n).lock f none }).setPc a (.cResume n), .unlock f) := by
  simp [step, h]
theorem step_cResume {n} (h : s.pc a = .cResume n) : step c s a inp =
    some ((s.resumeOf n).setPc a (.cFree n), .resume (s.node n).h (s.fex (s.node n).h)) := by
  simp [step, h]
theorem step_cFree {n} (h : s.pc a = .cFree n) : step c s a inp = some ((s.free n).ret a 1, .free n) := by
  simp [step, h]

end stepeq


/-! ### transfer of the list invariants along a step that leaves the pointers alone -/

theorem ListOk.transfer {s s' : State} (hn : s'.node = s.node) (hh : s'.hnext = s.hnext) (hg : s'.glist = s.glist)
    (hm : ∀ f m, m ∈ s.glist f → MemOk s f m → MemOk s' f m) (h : ListOk s) : ListOk s' := by
  intro f
  obtain ⟨h1, h2, h3⟩ := h f
  rw [hn, hh, hg]
  exact ⟨h1, h2, fun m hmem => hm f m hmem (h3 m hmem)⟩

theorem ScanOk.transfer {s s' : State} (hn : s'.node = s.node) (hg : s'.glist = s.glist)
    (hpc : ∀ b f hd tail cur took pend skip l0, s'.pc b = .aScan f hd tail cur took pend skip l0 →
      s.pc b = .aScan f hd tail cur took pend skip l0)
    (hm : ∀ b f hd tail cur took pend skip l0 m, s.pc b = .aScan f hd tail cur took pend skip l0 → m ∈ pend →
      MemOk s f m → MemOk s' f m) (h : ScanOk s) : ScanOk s' := by
  intro b f hd tail cur took pend skip l0 hb
  have hb' := hpc _ _ _ _ _ _ _ _ _ hb
  obtain ⟨h1, h2, h3, h4, h5, h6, h7⟩ := h b f hd tail cur took pend skip l0 hb'
  rw [hn, hg]
  exact ⟨h1, h2, h3, h4, h5, fun m hmem => hm _ _ _ _ _ _ _ _ _ m hb' hmem (h6 m hmem), h7⟩

theorem PrevOk.transfer {s s' : State} (hn : s'.node = s.node) (hg : s'.glist = s.glist)
    (hb : ∀ m, (s'.box m).alloc = true → (s'.box m).pub = true → (s.box m).alloc = true ∧ (s.box m).pub = true)
    (h2 : ∀ m b, (s'.box m).alloc = true → s.lock (s.node m).fut = some b → m ∈ (s.pc b).pend →
      ∃ b', s'.lock (s.node m).fut = some b' ∧ m ∈ (s'.pc b').pend)
    (h3 : ∀ m c, (s'.box m).alloc = true → (s.box m).own = some c → (s.pc c = .cResume m ∨ s.pc c = .cFree m) →
      ∃ c', (s'.box m).own = some c' ∧ (s'.pc c' = .cResume m ∨ s'.pc c' = .cFree m))
    (h : PrevOk s) : PrevOk s' := by
  intro m ha hp hprev
  rw [hn] at hprev ⊢
  rw [hg]
  obtain ⟨ha0, hp0⟩ := hb m ha hp
  rcases h m ha0 hp0 hprev with h' | ⟨b, hb1, hb2⟩ | ⟨c, hc1, hc2⟩
  · exact Or.inl h'
  · exact Or.inr (Or.inl (h2 m b ha hb1 hb2))
  · exact Or.inr (Or.inr (h3 m c ha hc1 hc2))

/-- rewrite every projection of the new state into updates of the old one, then call `grind` with
the definitions of the pc attributes -/
macro "inv_simp" : tactic => `(tactic|
  simp only [ret_pc, free_pc, ret_box, free_box, ret_glist, free_glist, ret_lock, free_lock, ret_fr, free_fr,
    ret_node, free_node, ret_hnext, free_hnext, ret_wslot, free_wslot, ret_bad, free_bad,
    setPc_pc, setPc_box, setPc_node, setPc_lock, setPc_fr, setPc_glist, setPc_hnext, setPc_wslot, setPc_bad,
    setPrev_pc, setPrev_box, setPrev_node, setPrev_lock, setPrev_fr, setPrev_glist, setPrev_hnext, setPrev_wslot, setPrev_bad,
    setNext_pc, setNext_box, setNext_node, setNext_lock, setNext_fr, setNext_glist, setNext_hnext, setNext_wslot, setNext_bad])

macro "inv_grind" : tactic => `(tactic|
  grind [updA, upd, Pc.isWait, Pc.fresh, Pc.pre, Pc.post, Pc.locks, Pc.pend, CancelPending, tailOf])

macro "inv_auto" : tactic => `(tactic| (inv_simp; inv_grind))

/-- all fields of `Inv` at once; the goals the automation cannot close stay -/
macro "inv_cases" : tactic => `(tactic| (constructor <;> first | (inv_auto; done) | skip))

/-- destructure an invariant into its named fields -/
macro "inv_obtain" h:ident : tactic => `(tactic|
  obtain ⟨kindC, kindF, lockOk, frWait, freshOk, freshUniq, freshVer, freshVerT, freshNode, wFreeTaken, preOk, postOk, ownOk, rsmTaken,
    freeTaken, pubNode, waiting, parked, listOk, scanOk, prevOk, placed, freshHolder, scanL0, unlockL0, oScanOk, oNoneOk, aUnlockOk, aNextOk, aResumeOk, aFreeOk,
    noRead, cTakeOk, cRemoveOk, allocUsed, noBad⟩ := $h)

end Babylon.Coro
