/-
  The inductive invariant of the coroutine futex model (Babylon/Coro/Futex.lean) in the repaired
  configuration (`nextFirst = true`), stated over the ghost lists.

  * typing of program counters, the mutex is held exactly by the actors whose pc says so;
  * a frame inside `await_suspend` is suspended; the slot it holds before publication is
    allocated, unpublished, in no list, untaken (taken by itself on the last step of the failure
    path), and the node is initialised once constructed;
  * ownership: a taken allocated slot is held by exactly one actor, and the pc of that actor says
    so (`Pc.pre` = taken, frame not yet resumed; `Pc.post` = resume issued / own failure path);
  * a free slot is marked taken (the version word of a recycled slot never matches a stale id);
  * a published slot whose resume was not issued yet: its frame is suspended, parked, and this is
    the frame's current wait (`wslot`) - the source of "at most one resume";
  * the pointer structure: for every futex `Chain (head f) (hnext f) (glist f)`, no duplicates,
    members allocated / published / of this futex, a taken member is in the hands of a canceller
    that has not unlinked it yet;
  * `wake_all` phase 1: the futex list is empty while it scans, its private chain is
    `took ++ pend`, `tail` designates the `next` field of the last taken node (or `head`);
    phase 2: the chain from the current node is the not yet resumed suffix of `took`;
  * `wake_one`: the scan position is the first node of the list, `l0 = seen ++ glist f`;
  * a non-null `prev` of a published node means: linked, or waiting to be scanned by a `wake_all`,
    or stale after the canceller's `remove_awaiter`;
  * cancellation tokens were issued by an earlier emplace.
-/
import Babylon.Coro.Lemmas
import Babylon.Core.Reach

namespace Babylon.Coro
open Babylon.Core

def cfgFixed : Cfg := { nextFirst := true }

def Pc.isWait : Pc → Bool
  | .wAlloc .. | .wCons .. | .wLock .. | .wLink .. | .wTake .. | .wFree .. => true
  | _ => false

/-- slot a frame holds before publication / on the failure path -/
def Pc.fresh : Pc → Option Nat
  | .wCons _ _ n _ | .wLock _ _ n _ | .wLink _ _ n _ _ | .wTake n _ | .wFree n => some n
  | _ => none

/-- slots an actor has taken and whose frames it still has to resume -/
def Pc.pre : Pc → List Nat
  | .oUnlock _ (some n) _ _ => [n]
  | .oResume n => [n]
  | .aScan _ _ _ _ took _ _ _ => took
  | .aUnlock _ _ took _ _ => took
  | .aNext _ _ took rs => took.drop rs.length
  | .aResume _ _ _ took rs => took.drop rs.length
  | .aFree _ _ _ took rs => took.drop rs.length
  | .cLock n | .cRemove n _ | .cResume n => [n]
  | _ => []

/-- slot an actor has taken, whose resume is done (or is its own failure path), and will free -/
def Pc.post : Pc → Option Nat
  | .oFree n | .aFree n _ _ _ _ | .cFree n | .wFree n => some n
  | _ => none

/-- mutex an actor holds -/
def Pc.locks : Pc → Option Nat
  | .wLink f _ _ _ _ | .oScan f _ _ _ | .oUnlock f _ _ _ | .aScan f _ _ _ _ _ _ _ | .aUnlock f _ _ _ _
  | .cRemove _ f => some f
  | _ => none

def tailOf (took : List Nat) : TailP :=
  match took.getLast? with
  | none => .hd
  | some t => .nx t

/-- a canceller that took `n` and has not unlinked it yet -/
def CancelPending (s : State) (n : Nat) : Prop :=
  ∃ c, (s.box n).own = some c ∧ (s.pc c = .cLock n ∨ s.pc c = .cRemove n (s.node n).fut)

/-- what holds of a node that is linked on futex `f` or waits to be scanned by a `wake_all` on `f` -/
def MemOk (s : State) (f n : Nat) : Prop :=
  (s.box n).alloc = true ∧ (s.box n).pub = true ∧ (s.node n).fut = f ∧ ((s.box n).taken = true → CancelPending s n)

/-- nodes a scanning `wake_all` has detached and not looked at yet -/
def Pc.pend : Pc → List Nat
  | .aScan _ _ _ _ _ pend _ _ => pend
  | _ => []

/-- the pointer structure of every futex list -/
def ListOk (s : State) : Prop :=
  ∀ f, Chain s.node (.head f) (s.hnext f) (s.glist f) ∧ (s.glist f).Nodup ∧ ∀ n ∈ s.glist f, MemOk s f n

/-- `wake_all`, first phase -/
def ScanOk (s : State) : Prop :=
  ∀ a f hd tail cur took pend skip l0, s.pc a = .aScan f hd tail cur took pend skip l0 →
    s.glist f = [] ∧ NChain s.node hd (took ++ pend) ∧ pend.head? = some cur ∧ (took ++ pend).Nodup ∧
    tail = tailOf took ∧ (∀ n ∈ pend, MemOk s f n) ∧
    (∀ n ∈ took, (s.node n).fut = f ∧ (s.node n).prev = .null)

/-- what a non-null `prev` of a published node means -/
def PrevOk (s : State) : Prop :=
  ∀ n, (s.box n).alloc = true → (s.box n).pub = true → (s.node n).prev ≠ .null →
    n ∈ s.glist (s.node n).fut ∨
    (∃ b, s.lock (s.node n).fut = some b ∧ n ∈ (s.pc b).pend) ∨
    (∃ c, (s.box n).own = some c ∧ (s.pc c = .cResume n ∨ s.pc c = .cFree n))

/-- `wake_all`, first phase: the nodes detached at lock time are exactly the taken, the skipped and the
not yet scanned ones (ghost lists of the program counter) -/
def ScanL0 (s : State) : Prop :=
  ∀ a f hd tail cur took pend skip l0, s.pc a = .aScan f hd tail cur took pend skip l0 →
    ∀ x, x ∈ l0 ↔ (x ∈ took ∨ x ∈ skip ∨ x ∈ pend)

def UnlockL0 (s : State) : Prop :=
  ∀ a f hd took skip l0, s.pc a = .aUnlock f hd took skip l0 → ∀ x, x ∈ l0 ↔ (x ∈ took ∨ x ∈ skip)

structure Inv (s : State) : Prop where
  kindC : ∀ t, (s.pc (.cl t)).isWait = false
  kindF : ∀ h, s.pc (.fr h) = .idle ∨ (s.pc (.fr h)).isWait = true
  lockOk : ∀ f a, s.lock f = some a ↔ (s.pc a).locks = some f
  frWait : ∀ h, s.pc (.fr h) ≠ .idle → s.fr h = .suspended
  freshOk : ∀ h n, (s.pc (.fr h)).fresh = some n →
    (s.box n).alloc = true ∧ (s.box n).pub = false ∧ (∀ f, n ∉ s.glist f) ∧
    ((s.box n).taken = true → s.pc (.fr h) = .wFree n ∧ (s.box n).own = some (.fr h))
  freshUniq : ∀ h h' n, (s.pc (.fr h)).fresh = some n → (s.pc (.fr h')).fresh = some n → h = h'
  freshVer : ∀ h f v n ver, (s.pc (.fr h) = .wCons f v n ver ∨ s.pc (.fr h) = .wLock f v n ver ∨ (∃ m, s.pc (.fr h) = .wLink f v n ver m))
    → (s.box n).ver = ver
  freshVerT : ∀ h n ver, s.pc (.fr h) = .wTake n ver → (s.box n).ver = ver
  freshNode : ∀ h f v n ver, (s.pc (.fr h) = .wLock f v n ver ∨ (∃ m, s.pc (.fr h) = .wLink f v n ver m)) →
    s.node n = { prev := .null, next := none, fut := f, ver := ver, h := h }
  wFreeTaken : ∀ h n, s.pc (.fr h) = .wFree n → (s.box n).taken = true
  preOk : ∀ a n, n ∈ (s.pc a).pre →
    (s.box n).alloc = true ∧ (s.box n).taken = true ∧ (s.box n).own = some a ∧ (s.box n).pub = true ∧ (s.box n).rsm = false
  postOk : ∀ a n, (s.pc a).post = some n →
    (s.box n).alloc = true ∧ (s.box n).taken = true ∧ (s.box n).own = some a ∧ ((s.box n).pub = true → (s.box n).rsm = true)
  ownOk : ∀ n, (s.box n).alloc = true → (s.box n).taken = true →
    ∃ a, (s.box n).own = some a ∧ (n ∈ (s.pc a).pre ∨ (s.pc a).post = some n)
  rsmTaken : ∀ n, (s.box n).alloc = true → (s.box n).rsm = true → (s.box n).taken = true
  freeTaken : ∀ n, (s.box n).alloc = false → (s.box n).taken = true
  pubNode : ∀ n, (s.box n).alloc = true → (s.box n).pub = true → (s.node n).ver = (s.box n).ver
  waiting : ∀ n, (s.box n).alloc = true → (s.box n).pub = true → (s.box n).rsm = false →
    s.fr (s.node n).h = .suspended ∧ s.pc (.fr (s.node n).h) = .idle ∧ s.wslot (s.node n).h = some n
  parked : ∀ h, s.fr h = .suspended → s.pc (.fr h) = .idle →
    ∃ n, s.wslot h = some n ∧ (s.box n).alloc = true ∧ (s.box n).pub = true ∧ (s.node n).h = h ∧ (s.box n).rsm = false
  listOk : ListOk s
  scanOk : ScanOk s
  prevOk : PrevOk s
  placed : ∀ n, (s.box n).alloc = true → (s.box n).pub = true → (s.box n).taken = false →
    n ∈ s.glist (s.node n).fut ∨ (∃ b, s.lock (s.node n).fut = some b ∧ n ∈ (s.pc b).pend)
  freshHolder : ∀ n, (s.box n).alloc = true → (s.box n).pub = false → ∃ h, (s.pc (.fr h)).fresh = some n
  scanL0 : ScanL0 s
  unlockL0 : UnlockL0 s
  oScanOk : ∀ a f cur l0 seen, s.pc a = .oScan f cur l0 seen → s.hnext f = some cur ∧ l0 = seen ++ s.glist f
  oNoneOk : ∀ a f l0 seen, s.pc a = .oUnlock f none l0 seen → s.hnext f = none ∧ s.glist f = [] ∧ seen = l0
  aUnlockOk : ∀ a f hd took skip l0, s.pc a = .aUnlock f hd took skip l0 →
    s.glist f = [] ∧ NChain s.node hd took ∧ took.Nodup
  aNextOk : ∀ a n k took rs, s.pc a = .aNext n k took rs →
    k = rs.length ∧ rs = took.take k ∧ NChain s.node (some n) (took.drop k) ∧ took.Nodup
  aResumeOk : ∀ a n nx k took rs, s.pc a = .aResume n nx k took rs →
    k = rs.length ∧ rs = took.take k ∧ (∃ rest, took.drop k = n :: rest ∧ NChain s.node nx rest) ∧ took.Nodup
  aFreeOk : ∀ a n nx k took rs, s.pc a = .aFree n nx k took rs →
    rs.length = k + 1 ∧ rs = took.take (k + 1) ∧ NChain s.node nx (took.drop (k + 1)) ∧ took.Nodup ∧ rs.getLast? = some n
  noRead : ∀ a n k took rs, s.pc a ≠ .aRead n k took rs
  cTakeOk : ∀ a n ver, s.pc a = .cTake n ver → (s.box n).used = true ∧ ver ≤ (s.box n).ver ∧
    ((s.box n).ver = ver → (s.box n).taken = false → (s.box n).pub = true)
  cRemoveOk : ∀ a n f, s.pc a = .cRemove n f → (s.node n).fut = f
  allocUsed : ∀ n, (s.box n).alloc = true → (s.box n).used = true
  noBad : s.bad = false

end Babylon.Coro
