/-
  Inductive invariant of the await model (Babylon/Coro/Await.lean): a bound frame only ever runs in
  the context of its own executor, and only suspended frames are resumed (once).
-/
import Babylon.Coro.Await
import Babylon.Core.Reach

namespace Babylon.Coro.Await
open Babylon.Core

@[simp] theorem upd_same {α : Type} (f : Nat → α) (i : Nat) (v : α) : upd f i v i = v := by simp [upd]
theorem upd_other {α : Type} (f : Nat → α) {i j : Nat} (v : α) (h : j ≠ i) : upd f i v j = f j := by
  simp [upd, h]

/-- frames with a callback registered on (or being run for) future `q` -/
abbrev cbs (fut : Nat → Fut) (q : Nat) : List Nat := (fut q).waiters ++ (fut q).pend

structure Inv (s : State) : Prop where
  noBad : s.bad = false
  noWrong : s.wrongCtx = false
  /-- a bound frame runs in the context of its executor, unless that executor rejected the resumption
  and the library resumed the frame in place -/
  ctxOk : ∀ h c e, s.fr h = .running c → s.fex h = some e → c = some e ∨ s.fb h = true
  /-- a pending resumption goes through the frame's own executor -/
  viaOk : ∀ h via, s.fr h = .resuming via → via = s.fex h
  /-- a registered awaiter: recorded with its own executor; suspended on this task until it finishes -/
  awOk : ∀ b a, s.awaiter b = some a → s.awaiterEx b = s.fex a ∧ s.fr a ≠ .fresh ∧ s.fr a ≠ .created ∧
    (s.fr b = .done ∨ (s.fr a = .suspended ∧ s.waitsOn a = some b ∧ s.pc a = .idle))
  /-- a task that was not started has no awaiter -/
  newOk : ∀ b, (s.fr b = .fresh ∨ s.fr b = .created) → s.awaiter b = none ∧ s.pc b = .idle
  /-- frames waiting for a future -/
  cbOk : ∀ q a, a ∈ cbs s.fut q → s.fr a = .suspended ∧ s.waitsOn a = none ∧ s.pc a = .idle
  waitersOk : ∀ q, (s.fut q).waiters ≠ [] → (s.fut q).ready = false
  regOk : ∀ a q, s.pc a = .fReg q → s.fr a = .suspended ∧ s.waitsOn a = none ∧ ∀ q', a ∉ cbs s.fut q'
  cbNodup : ∀ q, (cbs s.fut q).Nodup
  cbUniq : ∀ q q' a, a ∈ cbs s.fut q → a ∈ cbs s.fut q' → q = q'
  pcOk : ∀ a, s.pc a ≠ .idle → s.fr a = .suspended

theorem Inv.init : Inv State.init := by
  constructor <;> simp [State.init, cbs]

macro "aw_grind" : tactic => `(tactic| grind (instances := 8000) (splits := 40) (gen := 12) [upd, State.enter])

theorem resumeVia_susp (s : State) (h : Nat) (hs : s.fr h = .suspended) :
    s.resumeVia h = { s with fr := upd s.fr h (.resuming (s.fex h)), resumes := upd s.resumes h (s.resumes h + 1) } := by
  simp [State.resumeVia, hs]

theorem resumeInline_susp (s : State) (h : Nat) (c : Option Nat) (hs : s.fr h = .suspended) :
    s.resumeInline h c = ({ s with resumes := upd s.resumes h (s.resumes h + 1) }).enter h c := by
  simp [State.resumeInline, hs]

set_option maxHeartbeats 4000000 in
theorem Inv.submitStep {s : State} (hI : Inv s) {h e : Nat} (hf : s.fr h = .fresh) :
    Inv { s with fr := upd s.fr h (.resuming (some e)), fex := upd s.fex h (some e) } := by
  have hn := hI.newOk h (Or.inl hf)
  have hna : ∀ b, s.awaiter b ≠ some h := by
    intro b hb; exact (hI.awOk b h hb).2.1 hf
  have hnc : ∀ q, h ∉ cbs s.fut q := by
    intro q hq; have := (hI.cbOk q h hq).1; rw [hf] at this; cases this
  obtain ⟨noBad, noWrong, ctxOk, viaOk, awOk, newOk, cbOk, waitersOk, regOk, cbNodup, cbUniq, pcOk⟩ := hI
  constructor <;> (try simp only) <;> aw_grind

set_option maxHeartbeats 4000000 in
theorem Inv.createStep {s : State} (hI : Inv s) {h : Nat} {x : Option Nat} (hf : s.fr h = .fresh) :
    Inv { s with fr := upd s.fr h .created, fex := upd s.fex h x } := by
  have hn := hI.newOk h (Or.inl hf)
  have hna : ∀ b, s.awaiter b ≠ some h := by
    intro b hb; exact (hI.awOk b h hb).2.1 hf
  have hnc : ∀ q, h ∉ cbs s.fut q := by
    intro q hq; have := (hI.cbOk q h hq).1; rw [hf] at this; cases this
  obtain ⟨noBad, noWrong, ctxOk, viaOk, awOk, newOk, cbOk, waitersOk, regOk, cbNodup, cbUniq, pcOk⟩ := hI
  constructor <;> (try simp only) <;> aw_grind

set_option maxHeartbeats 4000000 in
theorem Inv.runStep {s : State} (hI : Inv s) {h : Nat} {via : Option Nat} (hr : s.fr h = .resuming via) :
    Inv (s.enter h via) := by
  have hv := hI.viaOk h via hr
  have hnc : ∀ q, h ∉ cbs s.fut q := by
    intro q hq; have := (hI.cbOk q h hq).1; rw [hr] at this; cases this
  have hpc : s.pc h = .idle := by
    cases hp : s.pc h with
    | idle => rfl
    | fReg q => have := hI.pcOk h (by rw [hp]; simp); rw [hr] at this; cases this
  obtain ⟨noBad, noWrong, ctxOk, viaOk, awOk, newOk, cbOk, waitersOk, regOk, cbNodup, cbUniq, pcOk⟩ := hI
  unfold State.enter
  constructor <;> (try simp only) <;> aw_grind

/-- facts about a running frame -/
theorem Inv.running_facts {s : State} (hI : Inv s) {a : Nat} {c : Option Nat} (hr : s.fr a = .running c) :
    s.pc a = .idle ∧ (∀ q, a ∉ cbs s.fut q) ∧ (∀ b, s.awaiter b = some a → s.fr b = .done) := by
  refine ⟨?_, ?_, ?_⟩
  · cases hp : s.pc a with
    | idle => rfl
    | fReg q => have := hI.pcOk a (by rw [hp]; simp); rw [hr] at this; cases this
  · intro q hq; have := (hI.cbOk q a hq).1; rw [hr] at this; cases this
  · intro b hb
    rcases (hI.awOk b a hb).2.2.2 with h' | h'
    · exact h'
    · rw [hr] at h'; cases h'.1

set_option maxHeartbeats 8000000 in
theorem Inv.awaitTaskStep {s : State} (hI : Inv s) {a b : Nat} {c : Option Nat} (hra : s.fr a = .running c)
    (hrb : s.fr b = .created) {s' : State} (h : awaitTask s a b = some s') : Inv s' := by
  obtain ⟨hpa, hca, hda⟩ := hI.running_facts hra
  have hnb := hI.newOk b (Or.inr hrb)
  have hab : a ≠ b := by intro e; subst e; rw [hra] at hrb; cases hrb
  have hnab : ∀ b', s.awaiter b' ≠ some b := by
    intro b' hb'; exact (hI.awOk b' b hb').2.2.1 hrb
  have hncb : ∀ q, b ∉ cbs s.fut q := by
    intro q hq; have := (hI.cbOk q b hq).1; rw [hrb] at this; cases this
  simp only [awaitTask, hra, hrb] at h
  obtain ⟨noBad, noWrong, ctxOk, viaOk, awOk, newOk, cbOk, waitersOk, regOk, cbNodup, cbUniq, pcOk⟩ := hI
  cases hfb : s.fex b with
  | none =>
    simp only [hfb] at h
    split at h
    · injection h with h; subst h
      unfold State.enter
      constructor <;> (try simp only) <;> aw_grind
    · injection h with h; subst h
      constructor <;> (try simp only) <;> aw_grind
  | some e =>
    simp only [hfb] at h
    split at h
    · injection h with h; subst h
      unfold State.enter
      constructor <;> (try simp only) <;> aw_grind
    · injection h with h; subst h
      constructor <;> (try simp only) <;> aw_grind

set_option maxHeartbeats 8000000 in
theorem Inv.finishStep {s : State} (hI : Inv s) {b v : Nat} {c : Option Nat} (hrb : s.fr b = .running c)
    {s' : State} (h : finish s b v = some s') : Inv s' := by
  obtain ⟨hpb, hcb, hdb⟩ := hI.running_facts hrb
  simp only [finish, hrb, hpb, ne_eq, not_true_eq_false, if_false] at h
  cases haw : s.awaiter b with
  | none =>
    rw [haw] at h
    injection h with h; subst h
    obtain ⟨noBad, noWrong, ctxOk, viaOk, awOk, newOk, cbOk, waitersOk, regOk, cbNodup, cbUniq, pcOk⟩ := hI
    constructor <;> (try simp only) <;> aw_grind
  | some a =>
    rw [haw] at h
    have hA := hI.awOk b a haw
    have hsus : s.fr a = .suspended ∧ s.waitsOn a = some b ∧ s.pc a = .idle := by
      rcases hA.2.2.2 with h' | h'
      · rw [hrb] at h'; cases h'
      · exact h'
    have hab : a ≠ b := by intro e; subst e; rw [hrb] at hsus; cases hsus.1
    have hnca : ∀ q, a ∉ cbs s.fut q := by
      intro q hq; have := (hI.cbOk q a hq).2.1; rw [hsus.2.1] at this; cases this
    simp only at h
    split at h
    · injection h with h; subst h
      have hs' : ({ s with fr := upd s.fr b .done, ret := upd s.ret b v, got := upd s.got a (some v) } : State).fr a = .suspended := by
        simp [upd, hab, hsus.1]
      rw [resumeInline_susp _ a c hs']
      obtain ⟨noBad, noWrong, ctxOk, viaOk, awOk, newOk, cbOk, waitersOk, regOk, cbNodup, cbUniq, pcOk⟩ := hI
      unfold State.enter
      constructor <;> (try simp only) <;> aw_grind
    · injection h with h; subst h
      have hs' : ({ s with fr := upd s.fr b .done, ret := upd s.ret b v, got := upd s.got a (some v) } : State).fr a = .suspended := by
        simp [upd, hab, hsus.1]
      rw [resumeVia_susp _ a hs']
      obtain ⟨noBad, noWrong, ctxOk, viaOk, awOk, newOk, cbOk, waitersOk, regOk, cbNodup, cbUniq, pcOk⟩ := hI
      constructor <;> (try simp only) <;> aw_grind

set_option maxHeartbeats 8000000 in
theorem Inv.awaitFutureStep {s : State} (hI : Inv s) {a q : Nat} {c : Option Nat} (hra : s.fr a = .running c)
    {s' : State} (h : awaitFuture s a q = some s') : Inv s' := by
  obtain ⟨hpa, hca, hda⟩ := hI.running_facts hra
  simp only [awaitFuture, hra, hpa, ne_eq, not_true_eq_false, if_false] at h
  obtain ⟨noBad, noWrong, ctxOk, viaOk, awOk, newOk, cbOk, waitersOk, regOk, cbNodup, cbUniq, pcOk⟩ := hI
  split at h
  · injection h with h; subst h
    constructor <;> (try simp only) <;> aw_grind
  · injection h with h; subst h
    constructor <;> (try simp only) <;> aw_grind

set_option maxHeartbeats 8000000 in
theorem Inv.registerStep {s : State} (hI : Inv s) {a q : Nat} (hp : s.pc a = .fReg q)
    {s' : State} (h : registerCb s a = some s') : Inv s' := by
  have hR := hI.regOk a q hp
  simp only [registerCb, hp] at h
  split at h
  · injection h with h; subst h
    have hs' : ({ s with pc := upd s.pc a .idle, got := upd s.got a (some (s.fut q).value) } : State).fr a = .suspended := hR.1
    rw [resumeVia_susp _ a hs']
    obtain ⟨noBad, noWrong, ctxOk, viaOk, awOk, newOk, cbOk, waitersOk, regOk, cbNodup, cbUniq, pcOk⟩ := hI
    constructor <;> (try simp only) <;> aw_grind
  · injection h with h; subst h
    obtain ⟨noBad, noWrong, ctxOk, viaOk, awOk, newOk, cbOk, waitersOk, regOk, cbNodup, cbUniq, pcOk⟩ := hI
    constructor <;> (try simp only) <;> aw_grind

set_option maxHeartbeats 8000000 in
theorem Inv.setFutureStep {s : State} (hI : Inv s) {q v : Nat} {s' : State} (h : setFuture s q v = some s') : Inv s' := by
  simp only [setFuture] at h
  split at h
  · cases h
  · rename_i hnr
    injection h with h; subst h
    have hpe : (s.fut q).pend = [] ∨ (s.fut q).pend ≠ [] := by
      cases (s.fut q).pend <;> simp
    obtain ⟨noBad, noWrong, ctxOk, viaOk, awOk, newOk, cbOk, waitersOk, regOk, cbNodup, cbUniq, pcOk⟩ := hI
    constructor <;> (try simp only) <;> aw_grind

set_option maxHeartbeats 8000000 in
theorem Inv.runCbStep {s : State} (hI : Inv s) {q : Nat} {s' : State} (h : runCb s q = some s') : Inv s' := by
  simp only [runCb] at h
  split at h
  · cases h
  · rename_i a rest hpd
    injection h with h; subst h
    have hmem : a ∈ cbs s.fut q := by simp [cbs, hpd]
    have hC := hI.cbOk q a hmem
    have hs' : ({ s with fut := upd s.fut q { s.fut q with pend := rest }, got := upd s.got a (some (s.fut q).value) } : State).fr a = .suspended := hC.1
    rw [resumeVia_susp _ a hs']
    have hnd := hI.cbNodup q
    have hna : a ∉ (s.fut q).waiters ∧ a ∉ rest := by
      unfold cbs at hnd
      rw [hpd] at hnd
      have h' := List.nodup_append.mp hnd
      exact ⟨fun e => h'.2.2 a e a (by simp) rfl, (List.nodup_cons.mp h'.2.1).1⟩
    obtain ⟨noBad, noWrong, ctxOk, viaOk, awOk, newOk, cbOk, waitersOk, regOk, cbNodup, cbUniq, pcOk⟩ := hI
    constructor <;> (try simp only) <;> aw_grind

set_option maxHeartbeats 4000000 in
theorem Inv.rejectStep {s : State} (hI : Inv s) {h : Nat} {via c : Option Nat} (hr : s.fr h = .resuming via) :
    Inv { s with fr := upd s.fr h (.running c), fb := upd s.fb h true } := by
  have hnc : ∀ q, h ∉ cbs s.fut q := by
    intro q hq; have := (hI.cbOk q h hq).1; rw [hr] at this; cases this
  have hpc : s.pc h = .idle := by
    cases hp : s.pc h with
    | idle => rfl
    | fReg q => have := hI.pcOk h (by rw [hp]; simp); rw [hr] at this; cases this
  obtain ⟨noBad, noWrong, ctxOk, viaOk, awOk, newOk, cbOk, waitersOk, regOk, cbNodup, cbUniq, pcOk⟩ := hI
  constructor <;> (try simp only) <;> aw_grind

theorem Inv.step {s s' : State} (hI : Inv s) (h : Step s s') : Inv s' := by
  cases h with
  | reject h c s'' hs =>
    simp only [reject] at hs
    split at hs
    · rename_i via hr; injection hs with hs; subst hs; exact hI.rejectStep hr
    · cases hs
  | submit h e s'' hs =>
    simp only [submit] at hs
    split at hs
    · rename_i hf; injection hs with hs; subst hs; exact hI.submitStep hf
    · cases hs
  | create h x s'' hs =>
    simp only [create] at hs
    split at hs
    · rename_i hf; injection hs with hs; subst hs; exact hI.createStep hf
    · cases hs
  | run h s'' hs =>
    simp only [run] at hs
    split at hs
    · rename_i via hr; injection hs with hs; subst hs; exact hI.runStep hr
    · cases hs
  | awaitTask a b s'' hs =>
    cases hra : s.fr a with
    | running c =>
      cases hrb : s.fr b with
      | created => exact hI.awaitTaskStep hra hrb hs
      | _ => simp [awaitTask, hra, hrb] at hs
    | _ => simp [awaitTask, hra] at hs
  | finish b v s'' hs =>
    cases hrb : s.fr b with
    | running c => exact hI.finishStep hrb hs
    | _ => simp [finish, hrb] at hs
  | awaitFuture a q s'' hs =>
    cases hra : s.fr a with
    | running c => exact hI.awaitFutureStep hra hs
    | _ => simp [awaitFuture, hra] at hs
  | registerCb a s'' hs =>
    cases hp : s.pc a with
    | idle => simp [registerCb, hp] at hs
    | fReg q => exact hI.registerStep hp hs
  | setFuture q v s'' hs => exact hI.setFutureStep hs
  | runCb q s'' hs => exact hI.runCbStep hs

def Reach (s : State) : Prop := Reachable (· = State.init) Step s

theorem Reach.inv {s : State} (h : Reach s) : Inv s :=
  Reachable.invariant Inv (fun x (h0 : x = State.init) => by rw [h0]; exact Inv.init) (fun _ _ hI hs => hI.step hs) s h

end Babylon.Coro.Await
