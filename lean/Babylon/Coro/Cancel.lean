/-
  Model of the cancellable wrapper `babylon::coroutine::Cancellable<A>` / `BasicCancellable`
  (src/babylon/coroutine/cancelable.h).

  One *instance* `i` = one evaluation of `co_await Cancellable<A>(awaitable).on_suspend(cb)` by a
  coroutine (the awaiter of instance `i`):
    await_suspend: `emplace(handle)` puts `this` into a `DepositBox<BasicCancellable*>` slot and yields
      the id `(slot, ver)`; the id is given to the proxy task (which awaits the inner awaitable) and,
      as the cancellation token, to the `on_suspend` callback;
    completion: when the inner awaitable has produced its value the proxy task leaves its body, the
      destructor of its local `S` calls `BasicCancellable::resume(id)`: `take(id)`; on success
      `do_resume` registers the awaiter as the proxy's awaiter (`set_awaiter(_handle, executor)`), the
      accessor's destructor finishes the slot, and the proxy's `final_suspend` then resumes the
      awaiter (inline or through its executor).  On failure the proxy has no awaiter and destroys
      itself, touching nothing of the (possibly dead) Cancellable;
    cancellation: `BasicCancellable::cancel(id)`: `take(id)`; on success `do_cancel` sets `_canceled`
      and resumes the awaiter through its executor; the accessor's destructor finishes the slot;
    await_resume: empty optional iff `_canceled`.
  DepositBox specification assumed: as in Babylon/Coro/Futex.lean (fresh version per emplace, single
  winner of `take`, stale ids never match).

  Steps: one per deposit-box operation / resume call / flag write.  Ghost: `winner`, `resumes`, `bad`.
  Core Lean only.
-/
import Babylon.Core.Trace
import Babylon.Gen.Coro

namespace Babylon.Coro.Cancel
open Babylon.Core

inductive ASt
  | fresh | running | suspended | resuming | done
  deriving DecidableEq, Repr, Inhabited

structure CSlot where
  ver : Nat := 0
  taken : Bool := true
  alloc : Bool := false
  used : Bool := false
  inst : Nat := 0           -- the Cancellable stored in the slot (`this`)
  deriving DecidableEq, Repr, Inhabited

inductive Winner
  | completion
  | cancel (c : Nat)
  deriving DecidableEq, Repr, Inhabited

/-- the proxy task of instance `i` after its inner awaitable was started -/
inductive PPc
  | none                    -- not armed
  | inner                   -- inner awaitable in progress
  | take                    -- `~S`: `resume(id)` -> `take(id)`
  | doResume                -- `do_resume`: `set_awaiter`
  | finish                  -- accessor destructor: `finish_released`
  | final (aw : Bool)       -- `final_suspend`: awaiter registered?
  | done
  deriving DecidableEq, Repr, Inhabited

/-- a client thread inside `Cancellation::operator()` -/
inductive KPc
  | idle
  | take (n ver : Nat)
  | doCancel (n i : Nat)    -- `_canceled = true; _promise->resume(_handle)`
  | finish (n i : Nat)
  deriving DecidableEq, Repr, Inhabited

structure State where
  box : Nat → CSlot := fun _ => {}
  ast : Nat → ASt := fun _ => .fresh
  tok : Nat → Option (Nat × Nat) := fun _ => none
  canceled : Nat → Bool := fun _ => false
  ppc : Nat → PPc := fun _ => .none
  kpc : Nat → KPc := fun _ => .idle
  kres : Nat → Bool := fun _ => false                 -- result of the last cancel call of a client
  result : Nat → Option (Option Nat) := fun _ => none   -- what `await_resume` returned
  value : Nat → Nat := fun _ => 0                     -- value the inner awaitable produces
  -- ghost
  winner : Nat → Option Winner := fun _ => none
  resumes : Nat → Nat := fun _ => 0
  bad : Bool := false

def upd {α : Type} (f : Nat → α) (i : Nat) (v : α) : Nat → α := fun j => if j = i then v else f j

def State.take (s : State) (n v : Nat) : Bool × State :=
  if (s.box n).ver = v ∧ (s.box n).taken = false then
    (true, { s with box := upd s.box n { s.box n with taken := true } })
  else (false, s)

def State.free (s : State) (n : Nat) : State :=
  { s with box := upd s.box n { s.box n with alloc := false } }

/-- the awaiter's `handle.resume()` is requested (through its executor or by symmetric transfer) -/
def State.resume (s : State) (i : Nat) : State :=
  if s.ast i = .suspended then
    { s with ast := upd s.ast i .resuming, resumes := upd s.resumes i (s.resumes i + 1) }
  else { s with bad := true, resumes := upd s.resumes i (s.resumes i + 1) }

inductive Ev
  | emplace (i n ver : Nat)
  | take (n ver : Nat) (ok : Bool)
  | tau
  deriving DecidableEq, Repr, Inhabited

/-- the awaiter of instance `i` suspends: `await_suspend` up to the start of the proxy -/
def arm (s : State) (i n ver : Nat) : Option (State × Ev) :=
  if s.ast i = .running ∧ s.tok i = none ∧ (s.box n).alloc = false ∧ ((s.box n).used = false ∨ (s.box n).ver < ver) then
    some ({ s with ast := upd s.ast i .suspended, tok := upd s.tok i (some (n, ver)),
                   box := upd s.box n { ver := ver, taken := false, alloc := true, used := true, inst := i },
                   ppc := upd s.ppc i .inner }, .emplace i n ver)
  else none

/-- one step of the proxy task of instance `i` -/
def stepProxy (s : State) (i : Nat) : Option (State × Ev) :=
  match s.ppc i, s.tok i with
  | .inner, _ => some ({ s with ppc := upd s.ppc i .take }, .tau)       -- inner awaitable finished
  | .take, some (n, ver) =>
    let (ok, s1) := s.take n ver
    if ok then some ({ s1 with ppc := upd s1.ppc i .doResume, winner := upd s1.winner i (some .completion) }, .take n ver true)
    else some ({ s1 with ppc := upd s1.ppc i (.final false) }, .take n ver false)
  | .doResume, _ => some ({ s with ppc := upd s.ppc i .finish }, .tau)
  | .finish, some (n, _) => some ({ s.free n with ppc := upd s.ppc i (.final true) }, .tau)
  | .final aw, _ =>
    if aw then some ({ s.resume i with ppc := upd s.ppc i .done }, .tau)
    else some ({ s with ppc := upd s.ppc i .done }, .tau)
  | _, _ => none

/-- one step of client `c` inside a cancel call -/
def stepCancel (s : State) (c : Nat) : Option (State × Ev) :=
  match s.kpc c with
  | .idle => none
  | .take n ver =>
    let (ok, s1) := s.take n ver
    if ok then
      let i := (s.box n).inst
      some ({ s1 with kpc := upd s1.kpc c (.doCancel n i), winner := upd s1.winner i (some (.cancel c)) }, .take n ver true)
    else some ({ s1 with kpc := upd s1.kpc c .idle, kres := upd s1.kres c false }, .take n ver false)
  | .doCancel n i =>
    let s1 := { s with canceled := upd s.canceled i true }
    some ({ s1.resume i with kpc := upd s1.kpc c (.finish n i) }, .tau)
  | .finish n _ => some ({ s.free n with kpc := upd s.kpc c .idle, kres := upd s.kres c true }, .tau)

/-- the awaiter's executor runs the continuation (or refuses it and `resume_in_executor` resumes in place:
same effect): `await_resume` -/
def run (s : State) (i : Nat) : Option State :=
  if s.ast i = .resuming then
    some { s with ast := upd s.ast i .running,
                  result := upd s.result i (some (if s.canceled i then none else some (s.value i))) }
  else none

inductive Step : State → State → Prop
  | spawn (s : State) (i v : Nat) : s.ast i = .fresh →
      Step s { s with ast := upd s.ast i .running, value := upd s.value i v }
  | arm (s : State) (i n ver : Nat) (s' : State) (e : Ev) : arm s i n ver = some (s', e) → Step s s'
  | proxy (s : State) (i : Nat) (s' : State) (e : Ev) : stepProxy s i = some (s', e) → Step s s'
  /-- the token `(n, ver)` came from an `on_suspend` callback: it was issued by an emplace -/
  | cancel (s : State) (c n ver : Nat) : s.kpc c = .idle → (s.box n).used = true → ver ≤ (s.box n).ver →
      Step s { s with kpc := upd s.kpc c (.take n ver) }
  | kstep (s : State) (c : Nat) (s' : State) (e : Ev) : stepCancel s c = some (s', e) → Step s s'
  | run (s : State) (i : Nat) (s' : State) : run s i = some s' → Step s s'

def State.init : State := {}

-- ---------------------------------------------------------------------------------------------
-- statement lists this model was written against (compared with the generated ones in Properties/C13)
def Stmts.bc_cancel : List String := [
  "autoaccessor=DepositBox<BasicCancellable*>::instance().take(id)", "if(accessor)", "(*accessor)->do_cancel()",
  "returntrue", "returnfalse"]
def Stmts.bc_resume : List String := [
  "autoaccessor=DepositBox<BasicCancellable*>::instance().take(id)", "if(accessor)", "(*accessor)->do_resume()",
  "returntrue", "returnfalse"]
def Stmts.bc_do_cancel : List String := ["_canceled=true", "_promise->resume(_handle)"]
def Stmts.bc_do_resume : List String := ["_proxy_promise->set_awaiter(_handle,_promise->executor())"]
def Stmts.c_await_resume : List String := [
  "if(!canceled())", "returnmove(_task.handle().promise().value())", "_task.release()", "return"]
def Stmts.accessor_dtor : List String := ["if(_object)", "_box->finish_released(_id)"]

-- ---------------------------------------------------------------------------------------------
-- L2 replay of the harness traces (mode=cancel)
structure RState where
  s : State := {}
  fex : List (Nat × Nat) := []          -- awaiter -> executor
  cur : List (Nat × Nat) := []          -- OS thread -> instance whose `cwait` it executed last
  call : List (Nat × Nat) := []         -- OS thread -> inside a ccancel call (1) or not
  rej : List Nat := []                  -- OS threads on which an executor has just rejected a resumption

def RState.init : RState := {}

def lookup (l : List (Nat × Nat)) (k : Nat) : Option Nat := (l.find? (·.1 == k)).map (·.2)
def setKey (l : List (Nat × Nat)) (k v : Nat) : List (Nat × Nat) := (k, v) :: l.filter (·.1 != k)

def nameNum (pre : String) (s : String) : Option Nat :=
  if s.startsWith pre then (s.drop pre.length).toNat? else none

/-- run the silent steps of the proxy of instance `i` -/
def drainProxy (s : State) (i : Nat) : Nat → State
  | 0 => s
  | k + 1 =>
    match s.ppc i with
    | .doResume | .finish | .final _ =>
      match stepProxy s i with
      | some (s', _) => drainProxy s' i k
      | none => s
    | _ => s

def drainCancel (s : State) (c : Nat) : Nat → State
  | 0 => s
  | k + 1 =>
    match s.kpc c with
    | .doCancel .. | .finish .. =>
      match stepCancel s c with
      | some (s', _) => drainCancel s' c k
      | none => s
    | _ => s

def drainAll (s : State) : State :=
  let s := (List.range 8).foldl (fun s i => drainProxy s i 4) s
  (List.range 64).foldl (fun s c => drainCancel s c 4) s

def stepObs (r : RState) (o : Obs) : Except String RState :=
  let t := o.tid
  match o.kind, o.args with
  | "ev", ["cspawn", i, e] =>
    match i.toNat?, nameNum "e" e with
    | some i, some e => .ok { r with s := { r.s with ast := upd r.s.ast i .resuming, value := upd r.s.value i (100 + i) }, fex := setKey r.fex i e }
    | _, _ => .error "bad cspawn"
  | "ev", ["cstart", i, e] =>
    match i.toNat?, nameNum "e" e with
    | some i, some e =>
      if lookup r.fex i ≠ some e then .error s!"awaiter {i} starts on executor {e}"
      else if r.s.ast i = .resuming then .ok { r with s := { r.s with ast := upd r.s.ast i .running } }
      else .error "start of an awaiter that was not spawned"
    | _, _ => .error "bad cstart"
  | "ev", ["cwait", i] =>
    match i.toNat? with
    | some i => .ok { r with cur := setKey r.cur t i }
    | none => .error "bad cwait"
  | "st", [l, _, v] =>
    match nameNum "cver" l, v.toNat?, lookup r.cur t with
    | some n, some ver, some i =>
      match arm (drainAll r.s) i n ver with
      | some (s', _) => .ok { r with s := s' }
      | none => .error s!"emplace of slot {n}@{ver} for awaiter {i} is not allowed by the model"
    | _, _, _ => .error "unknown store"
  | "ev", ["ctoken", i, n, ver] =>
    match i.toNat?, n.toNat?, ver.toNat? with
    | some i, some n, some ver =>
      if r.s.tok i = some (n, ver) then .ok r else .error s!"token {n}@{ver} of awaiter {i} differs from the id the model saw emplaced"
    | _, _, _ => .error "bad ctoken"
  | "ev", ["call", "ccancel", _, n, ver] =>
    match n.toNat?, ver.toNat? with
    | some n, some ver =>
      let s := drainCancel r.s t 4
      if s.kpc t ≠ .idle then .error "cancel while a cancel call is in progress"
      else if (s.box n).used = false ∨ (s.box n).ver < ver then .error "client contract: token was never issued"
      else .ok { r with s := { s with kpc := upd s.kpc t (.take n ver) }, call := setKey r.call t 1 }
    | _, _ => .error "bad ccancel"
  | "ev", ["ret", "ccancel", v] =>
    let s := drainCancel r.s t 4
    if s.kpc t = .idle ∧ (s.kres t == (v == "1")) then .ok { r with s := s, call := setKey r.call t 0 }
    else .error s!"cancel returned {v}, model says {s.kres t} (pc {reprStr (s.kpc t)})"
  | "ev", ["ifinish", i] =>
    match i.toNat? with
    | some i =>
      match r.s.ppc i with
      | .inner =>
        match stepProxy r.s i with
        | some (s', _) => .ok { r with s := s', cur := setKey r.cur t i }
        | none => .error "proxy cannot step"
      | p => .error s!"inner awaitable of {i} finished but the model proxy is at {reprStr p}"
    | none => .error "bad ifinish"
  | "cas", [l, _, _, e, d, ok, _] =>
    match nameNum "cver" l, e.toNat?, d.toNat? with
    | some n, some e, some d =>
      if d ≠ e + 1 then .error "take does not bump the version by one" else
      if lookup r.call t = some 1 then
        match stepCancel r.s t with
        | some (s', l) => if l = .take n e (ok == "1") then .ok { r with s := s' } else .error s!"model cancel expects {reprStr l}"
        | none => .error "cancel take but the model client is idle"
      else
        match lookup r.cur t with
        | some i =>
          match r.s.ppc i, stepProxy r.s i with
          | .take, some (s', l) => if l = .take n e (ok == "1") then .ok { r with s := s' } else .error s!"model proxy expects {reprStr l}, implementation did take {n}@{e} ok={ok}"
          | p, _ => .error s!"take by the proxy of {i} but the model proxy is at {reprStr p}"
        | none => .error "take by an unknown actor"
    | _, _, _ => .error "unknown cas"
  | "ev", "cresumed" :: i :: e :: rest =>
    -- `e-1` (the thread is in no executor) is an index no awaiter is bound to
    match i.toNat?, (if e == "e-1" then some 1000 else nameNum "e" e) with
    | some i, some e =>
      let s := drainAll r.s
      if lookup r.fex i ≠ some e ∧ ¬ r.rej.contains t then .error s!"awaiter {i} resumed on executor {e}, bound to {reprStr (lookup r.fex i)}"
      else match run s i with
        | some s' =>
          let r := { r with rej := r.rej.erase t }
          let got : Option Nat := match rest with
            | ["value", v] => v.toNat?
            | _ => none
          if s'.result i = some got then .ok { r with s := s' }
          else .error s!"awaiter {i} received {reprStr got}, model says {reprStr (s'.result i)}"
        | none => .error s!"awaiter {i} resumed but the model has it {reprStr (s.ast i)}"
    | _, _ => .error "bad cresumed"
  | "ev", ["xreject", _, _] => .ok { r with rej := t :: r.rej }
  | "ev", ["cdone", i] =>
    match i.toNat? with
    | some i => if r.s.ast i = .running then .ok { r with s := { r.s with ast := upd r.s.ast i .done } } else .error "cdone of an awaiter that is not running"
    | none => .error "bad cdone"
  | "ev", ["cslots", "allocated", n] =>
    let s := drainAll r.s
    let cnt := ((List.range 64).filter (fun i => (s.box i).alloc)).length
    if some cnt == n.toNat? then .ok { r with s := s } else .error s!"{n} cancellable slots allocated at the end, model {cnt}"
  | "ev", _ => .ok r
  | "ld", _ | "spawn", _ | "join", _ | "exit", _ | "race", _ | "VERDICT", _ | "casw", _ | "rmw", _ | "lock", _ | "unlock", _ => .ok r
  | k, _ => .error s!"unknown trace line kind {k}"

def finalR (r : RState) : Except String Unit :=
  let s := drainAll r.s
  if s.bad then .error "model: an awaiter that was not suspended was resumed"
  else if (List.range 8).any (fun i => s.resumes i > 1) then .error "model: an awaiter was resumed twice"
  else .ok ()

end Babylon.Coro.Cancel
