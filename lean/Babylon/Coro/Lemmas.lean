/-
  Basic lemmas for the coroutine futex model: `upd`, program counters, and the two chain predicates
  that tie the pointer fields of `Futex::Node` to lists.
    `Chain node p first l`  : walking `next` from `first` visits exactly `l` and stops at null, and every
                              visited node's `prev` is its predecessor (`p` for the first one)
    `NChain node first l`   : the same without the `prev` part (wake_all's private chain)
-/
import Babylon.Coro.Futex

namespace Babylon.Coro

@[simp] theorem upd_same {α : Type} (f : Nat → α) (i : Nat) (v : α) : upd f i v i = v := by simp [upd]
theorem upd_other {α : Type} (f : Nat → α) {i j : Nat} (v : α) (h : j ≠ i) : upd f i v j = f j := by
  simp [upd, h]
theorem upd_apply {α : Type} (f : Nat → α) (i j : Nat) (v : α) : upd f i v j = if j = i then v else f j := rfl

@[simp] theorem updA_same {α : Type} (f : Actor → α) (a : Actor) (v : α) : updA f a v a = v := by simp [updA]
theorem updA_other {α : Type} (f : Actor → α) {a b : Actor} (v : α) (h : b ≠ a) : updA f a v b = f b := by
  simp [updA, h]
theorem updA_apply {α : Type} (f : Actor → α) (a b : Actor) (v : α) : updA f a v b = if b = a then v else f b := rfl

@[simp] theorem pc_setPc_same (s : State) (a : Actor) (p : Pc) : (s.setPc a p).pc a = p := by
  simp [State.setPc]
theorem pc_setPc_other (s : State) {a b : Actor} (p : Pc) (h : b ≠ a) : (s.setPc a p).pc b = s.pc b := by
  simp [State.setPc, updA_other _ _ h]
theorem pc_setPc (s : State) (a b : Actor) (p : Pc) : (s.setPc a p).pc b = if b = a then p else s.pc b := rfl

@[simp] theorem pc_ret_same (s : State) (a : Actor) (k : Nat) : (s.ret a k).pc a = .idle := by
  cases a <;> simp [State.ret]
theorem pc_ret (s : State) (a b : Actor) (k : Nat) : (s.ret a k).pc b = if b = a then .idle else s.pc b := by
  cases a <;> rfl

/-! ### chains -/

def Chain (node : Nat → Node) : Ptr → Option Nat → List Nat → Prop
  | _, first, [] => first = none
  | p, first, x :: xs => first = some x ∧ (node x).prev = p ∧ Chain node (.node x) (node x).next xs

def NChain (node : Nat → Node) : Option Nat → List Nat → Prop
  | first, [] => first = none
  | first, x :: xs => first = some x ∧ NChain node (node x).next xs

theorem Chain.toN {node : Nat → Node} : ∀ {l : List Nat} {p : Ptr} {first : Option Nat},
    Chain node p first l → NChain node first l
  | [], _, _, h => h
  | _ :: _, _, _, h => ⟨h.1, Chain.toN h.2.2⟩

/-- nodes outside the list do not matter -/
theorem Chain.congr {node node' : Nat → Node} : ∀ {l : List Nat} {p : Ptr} {first : Option Nat},
    (∀ x ∈ l, node' x = node x) → Chain node p first l → Chain node' p first l
  | [], _, _, _, h => h
  | x :: xs, _, _, he, h => by
    have hx : node' x = node x := he x (by simp)
    refine ⟨h.1, by rw [hx]; exact h.2.1, ?_⟩
    rw [hx]
    exact Chain.congr (fun y hy => he y (by simp [hy])) h.2.2

theorem NChain.congr {node node' : Nat → Node} : ∀ {l : List Nat} {first : Option Nat},
    (∀ x ∈ l, (node' x).next = (node x).next) → NChain node first l → NChain node' first l
  | [], _, _, h => h
  | x :: xs, _, he, h => by
    refine ⟨h.1, ?_⟩
    rw [he x (by simp)]
    exact NChain.congr (fun y hy => he y (by simp [hy])) h.2

/-- the list a chain denotes is determined by the pointers -/
theorem NChain.unique {node : Nat → Node} : ∀ {l l' : List Nat} {first : Option Nat},
    NChain node first l → NChain node first l' → l = l'
  | [], [], _, _, _ => rfl
  | [], _ :: _, _, h, h' => by simp [NChain] at h h'; rw [h] at h'; cases h'.1
  | _ :: _, [], _, h, h' => by simp [NChain] at h h'; rw [h'] at h; cases h.1
  | x :: xs, y :: ys, _, h, h' => by
    have e : x = y := by
      have := h.1; rw [h'.1] at this; injection this with this; exact this.symm
    subst e
    rw [NChain.unique h.2 h'.2]

theorem NChain.append {node : Nat → Node} : ∀ {l1 l2 : List Nat} {first : Option Nat},
    NChain node first (l1 ++ l2) →
    ∃ mid, NChain node mid l2 ∧ (l1 = [] → mid = first) ∧ (∀ z, l1.getLast? = some z → mid = (node z).next)
  | [], l2, first, h => ⟨first, h, fun _ => rfl, by simp⟩
  | x :: xs, l2, first, h => by
    obtain ⟨mid, hm, h0, hl⟩ := NChain.append (l1 := xs) h.2
    refine ⟨mid, hm, by simp, ?_⟩
    intro z hz
    cases xs with
    | nil => simp at hz; subst hz; exact h0 rfl
    | cons y ys => exact hl z (by simpa using hz)

/-- head and membership facts -/
theorem NChain.head {node : Nat → Node} {l : List Nat} {first : Option Nat} (h : NChain node first l) :
    first = l.head? := by
  cases l with
  | nil => simpa [NChain] using h
  | cons x xs => simpa using h.1

theorem Chain.head {node : Nat → Node} {l : List Nat} {p : Ptr} {first : Option Nat} (h : Chain node p first l) :
    first = l.head? := NChain.head h.toN

/-- every member's `prev` is not null when the chain starts from a non-null predecessor -/
theorem Chain.prev_ne_null {node : Nat → Node} : ∀ {l : List Nat} {p : Ptr} {first : Option Nat},
    Chain node p first l → p ≠ .null → ∀ x ∈ l, (node x).prev ≠ .null
  | [], _, _, _, _, x, hx => by simp at hx
  | y :: ys, p, _, h, hp, x, hx => by
    rcases List.mem_cons.mp hx with rfl | hx
    · rw [h.2.1]; exact hp
    · exact Chain.prev_ne_null h.2.2 (by simp) x hx

/-- `prev` of a member is the head pointer or a member -/
theorem Chain.prev_mem {node : Nat → Node} : ∀ {l : List Nat} {p : Ptr} {first : Option Nat},
    Chain node p first l → ∀ x ∈ l, (node x).prev = p ∨ ∃ y ∈ l, (node x).prev = .node y
  | [], _, _, _, x, hx => by simp at hx
  | y :: ys, p, _, h, x, hx => by
    rcases List.mem_cons.mp hx with rfl | hx
    · exact Or.inl h.2.1
    · rcases Chain.prev_mem h.2.2 x hx with h1 | ⟨z, hz, h1⟩
      · exact Or.inr ⟨y, by simp, h1⟩
      · exact Or.inr ⟨z, by simp [hz], h1⟩

/-- `next` of a member is null or a member -/
theorem NChain.next_mem {node : Nat → Node} : ∀ {l : List Nat} {first : Option Nat},
    NChain node first l → ∀ x ∈ l, ∀ y, (node x).next = some y → y ∈ l
  | [], _, _, x, hx => by simp at hx
  | z :: zs, _, h, x, hx => by
    intro y hy
    rcases List.mem_cons.mp hx with rfl | hx
    · cases zs with
      | nil => have := h.2; simp [NChain] at this; rw [this] at hy; cases hy
      | cons w ws => have := h.2.1; rw [this] at hy; injection hy with hy; subst hy; simp
    · exact List.mem_cons_of_mem _ (NChain.next_mem h.2 x hx y hy)

end Babylon.Coro

namespace Babylon.Coro

/-- writing a node outside the list does not change the chain -/
theorem Chain.upd_notin {node : Nat → Node} {n : Nat} {v : Node} {l : List Nat} {p : Ptr} {first : Option Nat}
    (hn : n ∉ l) (h : Chain node p first l) : Chain (upd node n v) p first l :=
  Chain.congr (fun x hx => upd_other _ _ (fun e => hn (by rw [← e]; exact hx))) h

theorem NChain.upd_notin {node : Nat → Node} {n : Nat} {v : Node} {l : List Nat} {first : Option Nat}
    (hn : n ∉ l) (h : NChain node first l) : NChain (upd node n v) first l :=
  NChain.congr (fun x hx => by rw [upd_other _ _ (fun e => hn (by rw [← e]; exact hx))]) h

/-- writing only the `prev` field never changes an `NChain` -/
theorem NChain.upd_prev {node : Nat → Node} {n : Nat} {q : Ptr} {l : List Nat} {first : Option Nat}
    (h : NChain node first l) : NChain (upd node n { node n with prev := q }) first l :=
  NChain.congr (fun x _ => by by_cases e : x = n <;> simp [upd, e]) h

end Babylon.Coro
