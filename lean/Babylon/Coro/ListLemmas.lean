/-
  The pointer manipulations of futex.cpp on the chain predicates:
    front insert (`add_awaiter`), removal of the first node (`wake_one`), removal of an arbitrary
    node through its own `prev` / `next` (`remove_awaiter`), and `*tail = node->next` of `wake_all`.
  Pure lemmas about `Nat → Node` functions.
-/
import Babylon.Coro.Lemmas

namespace Babylon.Coro

/-- `add_awaiter`: node->prev = &head; node->next = head.next; head.next = node;
if (node->next) node->next->prev = node -/
def linkNodes (node : Nat → Node) (f n : Nat) (first : Option Nat) : Nat → Node :=
  let node1 := upd node n { node n with prev := .head f, next := first }
  match first with
  | some x => upd node1 x { node1 x with prev := .node n }
  | none => node1

theorem Chain.link {node : Nat → Node} {f n : Nat} {first : Option Nat} {l : List Nat}
    (h : Chain node (.head f) first l) (hn : n ∉ l) (hd : l.Nodup) :
    Chain (linkNodes node f n first) (.head f) (some n) (n :: l) := by
  cases l with
  | nil =>
    simp only [Chain] at h
    subst h
    simp [linkNodes, Chain]
  | cons x xs =>
    obtain ⟨h1, h2, h3⟩ := h
    subst h1
    have hnx : n ≠ x := fun e => hn (by simp [e])
    have hxn : x ≠ n := fun e => hnx e.symm
    have hnxs : n ∉ xs := fun e => hn (by simp [e])
    have hxxs : x ∉ xs := (List.nodup_cons.mp hd).1
    simp only [linkNodes]
    refine ⟨rfl, ?_, ?_⟩
    · simp [upd, hnx]
    · have e1 : (upd (upd node n { node n with prev := .head f, next := some x }) x
          { upd node n { node n with prev := .head f, next := some x } x with prev := .node n } n).next = some x := by
        simp [upd, hnx]
      rw [e1]
      refine ⟨rfl, by simp [upd], ?_⟩
      have e2 : (upd (upd node n { node n with prev := .head f, next := some x }) x
          { upd node n { node n with prev := .head f, next := some x } x with prev := .node n } x).next = (node x).next := by
        simp [upd, hxn]
      rw [e2]
      exact Chain.congr (fun y hy => by
        have hy1 : y ≠ x := fun e => hxxs (e ▸ hy)
        have hy2 : y ≠ n := fun e => hnxs (e ▸ hy)
        simp [upd, hy1, hy2]) h3

/-- `wake_one` on the first node `cur`: next_node->prev = &head; head.next = next_node;
node->prev = nullptr; node->next = nullptr -/
def unlinkNodes (node : Nat → Node) (f cur : Nat) : Nat → Node :=
  let nx := (node cur).next
  let node1 := match nx with
    | some y => upd node y { node y with prev := .head f }
    | none => node
  upd node1 cur { node1 cur with prev := .null, next := none }

theorem Chain.unlinkFirst {node : Nat → Node} {f cur : Nat} {first : Option Nat} {rest : List Nat}
    (h : Chain node (.head f) first (cur :: rest)) (hd : (cur :: rest).Nodup) :
    Chain (unlinkNodes node f cur) (.head f) (node cur).next rest := by
  obtain ⟨_, _, h3⟩ := h
  have hcr : cur ∉ rest := (List.nodup_cons.mp hd).1
  cases rest with
  | nil => simp only [Chain] at h3; simp [Chain, h3]
  | cons y ys =>
    obtain ⟨g1, g2, g3⟩ := h3
    have hyc : y ≠ cur := fun e => hcr (by simp [e])
    have hyys : y ∉ ys := (List.nodup_cons.mp (List.nodup_cons.mp hd).2).1
    have hcys : cur ∉ ys := fun e => hcr (by simp [e])
    simp only [unlinkNodes, g1]
    refine ⟨rfl, by simp [upd, hyc], ?_⟩
    have e : (upd (upd node y { node y with prev := .head f }) cur
        { upd node y { node y with prev := .head f } cur with prev := .null, next := none } y).next = (node y).next := by
      simp [upd, hyc]
    rw [e]
    exact Chain.congr (fun z hz => by
      have hz1 : z ≠ y := fun e => hyys (e ▸ hz)
      have hz2 : z ≠ cur := fun e => hcys (e ▸ hz)
      simp [upd, hz1, hz2]) g3

/-- the node part of `remove_awaiter` for a node whose predecessor is a node:
`node->prev->next = node->next; if (node->next) node->next->prev = node->prev` -/
def removeNodes (node : Nat → Node) (n : Nat) : Nat → Node :=
  let P := (node n).prev
  let X := (node n).next
  let nodeA := match P with
    | .node p => upd node p { node p with next := X }
    | _ => node
  match X with
  | some y => upd nodeA y { nodeA y with prev := P }
  | none => nodeA

theorem Chain.remove {node : Nat → Node} {n : Nat} {l2 : List Nat} :
    ∀ (l1 : List Nat) (p0 : Ptr) (first : Option Nat),
      Chain node p0 first (l1 ++ n :: l2) → (l1 ++ n :: l2).Nodup → (∀ q, p0 = .node q → q ∉ l1 ++ n :: l2) →
      (l1 = [] → ∀ q, p0 ≠ .node q) →
      Chain (removeNodes node n) p0 (if l1 = [] then (node n).next else first) (l1 ++ l2)
  | [], p0, first, h, hd, _, hp0 => by
    simp only [List.nil_append] at h hd ⊢
    obtain ⟨h1, h2, h3⟩ := h
    have hp := hp0 rfl
    have hnl2 : n ∉ l2 := (List.nodup_cons.mp hd).1
    simp only [if_true]
    have hA : ∀ X : Option Nat, (match (node n).prev with
        | .node p => upd node p { node p with next := X }
        | _ => node) = node := by
      intro X
      rw [h2]
      cases p0 with
      | null => rfl
      | head f => rfl
      | node q => exact absurd rfl (hp q)
    cases l2 with
    | nil =>
      simp only [Chain] at h3
      simp only [removeNodes, h3, hA, Chain]
    | cons y ys =>
      obtain ⟨g1, g2, g3⟩ := h3
      have hyn : y ≠ n := fun e => hnl2 (by simp [e])
      have hyys : y ∉ ys := (List.nodup_cons.mp (List.nodup_cons.mp hd).2).1
      simp only [removeNodes, g1, hA, h2]
      refine ⟨rfl, by simp [upd], ?_⟩
      have e : (upd node y { node y with prev := p0 } y).next = (node y).next := by simp [upd]
      rw [e]
      exact Chain.congr (fun z hz => by
        have hz1 : z ≠ y := fun e => hyys (e ▸ hz)
        simp [upd, hz1]) g3
  | z :: zs, p0, first, h, hd, hq, _ => by
    obtain ⟨h1, h2, h3⟩ := h
    have hd' : (zs ++ n :: l2).Nodup := (List.nodup_cons.mp hd).2
    have hzn : z ∉ zs ++ n :: l2 := (List.nodup_cons.mp hd).1
    have hzne : z ≠ n := fun e => hzn (by simp [e])
    simp only [List.cons_append, List.cons_ne_nil, if_false]
    cases zs with
    | nil =>
      -- `z` is the predecessor of `n`
      simp only [List.nil_append] at h3 hd' hzn ⊢
      obtain ⟨g1, g2, g3⟩ := h3
      have hnl2 : n ∉ l2 := (List.nodup_cons.mp hd').1
      have hzl2 : z ∉ l2 := fun e => hzn (by simp [e])
      cases l2 with
      | nil =>
        simp only [Chain] at g3
        simp only [removeNodes, g2, g3]
        refine ⟨h1, by simp [upd, h2], ?_⟩
        simp [upd, Chain]
      | cons y ys =>
        obtain ⟨k1, k2, k3⟩ := g3
        have hyz : y ≠ z := fun e => hzl2 (by simp [e])
        have hzy : z ≠ y := fun e => hyz e.symm
        have hyys : y ∉ ys := (List.nodup_cons.mp (List.nodup_cons.mp hd').2).1
        have hzys : z ∉ ys := fun e => hzl2 (by simp [e])
        simp only [removeNodes, g2, k1]
        refine ⟨h1, by simp [upd, hzy, h2], ?_⟩
        have e1 : (upd (upd node z { node z with next := some y }) y
            { upd node z { node z with next := some y } y with prev := .node z } z).next = some y := by
          simp [upd, hzy]
        rw [e1]
        refine ⟨rfl, by simp [upd], ?_⟩
        have e2 : (upd (upd node z { node z with next := some y }) y
            { upd node z { node z with next := some y } y with prev := .node z } y).next = (node y).next := by
          simp [upd, hyz]
        rw [e2]
        exact Chain.congr (fun w hw => by
          have hw1 : w ≠ y := fun e => hyys (e ▸ hw)
          have hw2 : w ≠ z := fun e => hzys (e ▸ hw)
          simp [upd, hw1, hw2]) k3
    | cons z' zs' =>
      have ih := Chain.remove (node := node) (n := n) (l2 := l2) (z' :: zs') (.node z) (node z).next h3 hd'
        (by intro q hq'; injection hq' with hq'; subst hq'; exact hzn) (by intro e; cases e)
      simp only [List.cons_ne_nil, if_false] at ih
      -- `z` itself is not written: it is neither the predecessor of `n` nor its successor
      have hzP : (node n).prev ≠ .node z := by
        intro e
        -- the predecessor of `n` in the chain is the last element of `z' :: zs'`
        have : ∀ (l : List Nat) (p : Ptr) (fst : Option Nat), Chain node p fst (l ++ n :: l2) → l ≠ [] →
            ∃ w ∈ l, (node n).prev = .node w := by
          intro l
          induction l with
          | nil => intro _ _ _ hne; exact absurd rfl hne
          | cons a as iha =>
            intro p fst hc _
            cases as with
            | nil => exact ⟨a, by simp, hc.2.2.2.1⟩
            | cons b bs =>
              obtain ⟨w, hw, hw'⟩ := iha (.node a) (node a).next hc.2.2 (by simp)
              exact ⟨w, by simp [hw], hw'⟩
        obtain ⟨w, hw, hw'⟩ := this (z' :: zs') (.node z) (node z).next h3 (by simp)
        rw [e] at hw'
        injection hw' with hw'
        subst hw'
        exact hzn (List.mem_append_left _ hw)
      have hzX : (node n).next ≠ some z := by
        intro e
        have hmem := NChain.next_mem (Chain.toN h3) n (by simp) z e
        exact hzn hmem
      have hz_same : removeNodes node n z = node z := by
        simp only [removeNodes]
        cases hP : (node n).prev with
        | null =>
          cases hX : (node n).next with
          | none => rfl
          | some y =>
            have : z ≠ y := fun e => hzX (by rw [hX, e])
            simp [upd, this]
        | head f =>
          cases hX : (node n).next with
          | none => rfl
          | some y =>
            have : z ≠ y := fun e => hzX (by rw [hX, e])
            simp [upd, this]
        | node p =>
          have hzp : z ≠ p := fun e => hzP (by rw [hP, e])
          cases hX : (node n).next with
          | none => simp [upd, hzp]
          | some y =>
            have : z ≠ y := fun e => hzX (by rw [hX, e])
            simp [upd, this, hzp]
      refine ⟨h1, by rw [hz_same]; exact h2, ?_⟩
      rw [hz_same]
      exact ih

/-- `*tail = node->next` of `wake_all` when `tail = &t->next` -/
theorem NChain.skip {node : Nat → Node} {c : Nat} {l2 : List Nat} :
    ∀ (l1 : List Nat) (first : Option Nat) (t : Nat),
      NChain node first (l1 ++ c :: l2) → (l1 ++ c :: l2).Nodup → l1.getLast? = some t →
      NChain (upd node t { node t with next := (node c).next }) first (l1 ++ l2)
  | [], _, _, _, _, ht => by simp at ht
  | [z], first, t, h, hd, ht => by
    simp only [List.getLast?_singleton, Option.some.injEq] at ht
    subst ht
    simp only [List.cons_append, List.nil_append] at h hd ⊢
    obtain ⟨h1, h2, h3⟩ := h
    have hz : z ∉ c :: l2 := (List.nodup_cons.mp hd).1
    have hzl2 : z ∉ l2 := fun e => hz (by simp [e])
    refine ⟨h1, ?_⟩
    have e : (upd node z { node z with next := (node c).next } z).next = (node c).next := by simp [upd]
    rw [e]
    exact NChain.upd_notin hzl2 h3
  | z :: z' :: zs, first, t, h, hd, ht => by
    have ht' : (z' :: zs).getLast? = some t := by simpa using ht
    obtain ⟨h1, h2⟩ := h
    have hd' := (List.nodup_cons.mp hd).2
    have hz : z ∉ (z' :: zs) ++ c :: l2 := (List.nodup_cons.mp hd).1
    have ih := NChain.skip (node := node) (c := c) (l2 := l2) (z' :: zs) (node z).next t h2 hd' ht'
    have hzt : z ≠ t := by
      intro e
      have : t ∈ z' :: zs := List.mem_of_getLast? ht'
      exact hz (by rw [e]; exact List.mem_append_left _ this)
    refine ⟨h1, ?_⟩
    have e : (upd node t { node t with next := (node c).next } z).next = (node z).next := by simp [upd, hzt]
    rw [e]
    exact ih

end Babylon.Coro
