/-
  Inductive invariant of the cancellable-wrapper model (Babylon/Coro/Cancel.lean) and the facts the
  property theorems need: the awaiter of an instance is resumed at most once, only while suspended;
  the resume comes from the unique winner of `take`; the result is empty iff a canceller won.
-/
import Babylon.Coro.Cancel
import Babylon.Core.Reach

namespace Babylon.Coro.Cancel
open Babylon.Core

@[simp] theorem upd_same {α : Type} (f : Nat → α) (i : Nat) (v : α) : upd f i v i = v := by simp [upd]
theorem upd_other {α : Type} (f : Nat → α) {i j : Nat} (v : α) (h : j ≠ i) : upd f i v j = f j := by
  simp [upd, h]

/-- the awaiter has been resumed (or is past it) -/
def After (a : ASt) : Prop := a = .resuming ∨ a = .running ∨ a = .done

structure Inv (s : State) : Prop where
  noBad : s.bad = false
  /-- a free slot is marked taken -/
  freeTaken : ∀ n, (s.box n).alloc = false → (s.box n).taken = true
  /-- an allocated, untaken slot belongs to the armed instance stored in it -/
  slotOk : ∀ n, (s.box n).alloc = true → (s.box n).taken = false →
    s.tok (s.box n).inst = some (n, (s.box n).ver) ∧ s.winner (s.box n).inst = none
  /-- tokens were issued by an emplace; the current one names its own instance -/
  tokOk : ∀ i n ver, s.tok i = some (n, ver) → (s.box n).used = true ∧ ver ≤ (s.box n).ver ∧
    ((s.box n).ver = ver → (s.box n).inst = i)
  /-- nobody won yet -/
  w0 : ∀ i, s.winner i = none → s.resumes i = 0 ∧ s.canceled i = false ∧ s.result i = none ∧
    (∀ n ver, s.tok i = some (n, ver) → (s.box n).ver = ver ∧ (s.box n).taken = false ∧ (s.box n).alloc = true ∧
      s.ast i = .suspended ∧ (s.ppc i = .inner ∨ s.ppc i = .take)) ∧
    (s.tok i = none → s.ppc i = .none ∧ (s.ast i = .fresh ∨ s.ast i = .running)) ∧
    (∀ c n, s.kpc c ≠ .doCancel n i)
  /-- completion won -/
  wC : ∀ i, s.winner i = some .completion → s.canceled i = false ∧ (∀ c n, s.kpc c ≠ .doCancel n i) ∧
    (((s.ppc i = .doResume ∨ s.ppc i = .finish ∨ s.ppc i = .final true) ∧ s.resumes i = 0 ∧ s.ast i = .suspended ∧ s.result i = none) ∨
     (s.ppc i = .done ∧ s.resumes i = 1 ∧ After (s.ast i)))
  /-- canceller `c` won -/
  wK : ∀ i c, s.winner i = some (.cancel c) →
    (s.ppc i = .inner ∨ s.ppc i = .take ∨ s.ppc i = .final false ∨ s.ppc i = .done) ∧
    (((∃ n, s.kpc c = .doCancel n i) ∧ (∀ c' n, c' ≠ c → s.kpc c' ≠ .doCancel n i) ∧ s.resumes i = 0 ∧
        s.ast i = .suspended ∧ s.canceled i = false ∧ s.result i = none) ∨
     ((∀ c' n, s.kpc c' ≠ .doCancel n i) ∧ s.resumes i = 1 ∧ s.canceled i = true ∧ After (s.ast i)))
  /-- what `await_resume` returned -/
  resOk : ∀ i r, s.result i = some r → r = (if s.canceled i then none else some (s.value i))
  /-- the proxy's `finish` step frees a slot it took -/
  finOk : ∀ i, s.ppc i = .finish → ∃ n ver, s.tok i = some (n, ver)
  /-- the proxy only ever has an awaiter when completion won -/
  finalOk : ∀ i, s.ppc i = .final true → s.winner i = some .completion
  armedOk : ∀ i, s.ppc i ≠ .none → ∃ n ver, s.tok i = some (n, ver)

theorem Inv.init : Inv State.init := by
  constructor <;> simp [State.init]

set_option maxHeartbeats 8000000 in
theorem Inv.step {s s' : State} (hI : Inv s) (h : Step s s') : Inv s' := by
  obtain ⟨noBad, freeTaken, slotOk, tokOk, w0, wC, wK, resOk, finOk, finalOk, armedOk⟩ := hI
  cases h with
  | spawn i v hf =>
    have hw : s.winner i = none := by
      cases hwi : s.winner i with
      | none => rfl
      | some w =>
        cases w with
        | completion => rcases (wC i hwi).2.2 with h' | h' <;> simp [hf, After] at h'
        | cancel c => rcases (wK i c hwi).2 with h' | h' <;> simp [hf, After] at h'
    have htk : s.tok i = none := by
      cases ht : s.tok i with
      | none => rfl
      | some p => have := ((w0 i hw).2.2.2.1 p.1 p.2 ht).2.2.2.1; rw [hf] at this; cases this
    constructor <;> (try simp only) <;> grind [upd, After]
  | arm i n ver s'' e ha =>
    unfold arm at ha
    split at ha
    · rename_i hc
      injection ha with ha; injection ha with ha _; subst ha
      obtain ⟨hc1, hc2, hc3, hc4⟩ := hc
      have hw : s.winner i = none := by
        cases hwi : s.winner i with
        | none => rfl
        | some w =>
          have hpn : s.ppc i ≠ .none := by
            cases w with
            | completion => rcases (wC i hwi).2.2 with h' | h' <;> grind
            | cancel c => have := (wK i c hwi).1; grind
          obtain ⟨n', ver', ht⟩ := armedOk i hpn
          rw [hc2] at ht; cases ht
      constructor <;> (try simp only) <;> grind [upd, After]
    · cases ha
  | proxy i s'' e hp =>
    unfold stepProxy at hp
    split at hp
    · injection hp with hp; injection hp with hp _; subst hp
      constructor <;> (try simp only) <;> grind [upd, After]
    · rename_i n ver hpc htk
      by_cases hc : (s.box n).ver = ver ∧ (s.box n).taken = false
      · have : s.take n ver = (true, { s with box := upd s.box n { s.box n with taken := true } }) := by
          simp [State.take, hc.1, hc.2]
        rw [this] at hp
        simp only [if_true] at hp
        injection hp with hp; injection hp with hp _; subst hp
        constructor <;> (try simp only) <;> grind [upd, After]
      · have : s.take n ver = (false, s) := by simp only [State.take]; rw [if_neg hc]
        rw [this] at hp
        simp only [Bool.false_eq_true, if_false] at hp
        injection hp with hp; injection hp with hp _; subst hp
        constructor <;> (try simp only) <;> grind [upd, After]
    · injection hp with hp; injection hp with hp _; subst hp
      constructor <;> (try simp only) <;> grind [upd, After]
    · injection hp with hp; injection hp with hp _; subst hp
      constructor <;> (try simp only [State.free]) <;> grind [upd, After]
    · rename_i aw hpc
      split at hp
      · injection hp with hp; injection hp with hp _; subst hp
        rename_i haw
        subst haw
        have hwin := finalOk i hpc
        have := wC i hwin
        have hsus : s.ast i = .suspended := by grind
        simp only [State.resume, hsus, if_true]
        constructor <;> (try simp only) <;> grind [upd, After]
      · injection hp with hp; injection hp with hp _; subst hp
        constructor <;> (try simp only) <;> grind [upd, After]
    · cases hp
  | cancel c n ver hk hu hv =>
    constructor <;> (try simp only) <;> grind [upd, After]
  | kstep c s'' e hk =>
    unfold stepCancel at hk
    split at hk
    · cases hk
    · rename_i n ver hpc
      by_cases hc : (s.box n).ver = ver ∧ (s.box n).taken = false
      · have : s.take n ver = (true, { s with box := upd s.box n { s.box n with taken := true } }) := by
          simp [State.take, hc.1, hc.2]
        rw [this] at hk
        simp only [if_true] at hk
        injection hk with hk; injection hk with hk _; subst hk
        have halloc : (s.box n).alloc = true := by
          cases ha : (s.box n).alloc
          · have := freeTaken n ha; rw [hc.2] at this; cases this
          · rfl
        have := slotOk n halloc hc.2
        constructor <;> (try simp only) <;> grind [upd, After]
      · have : s.take n ver = (false, s) := by simp only [State.take]; rw [if_neg hc]
        rw [this] at hk
        simp only [Bool.false_eq_true, if_false] at hk
        injection hk with hk; injection hk with hk _; subst hk
        constructor <;> (try simp only) <;> grind [upd, After]
    · rename_i n i hpc
      injection hk with hk; injection hk with hk _; subst hk
      have hwin : s.winner i = some (.cancel c) := by
        cases hwi : s.winner i with
        | none => exact absurd hpc ((w0 i hwi).2.2.2.2.2 c n)
        | some w =>
          cases w with
          | completion => exact absurd hpc ((wC i hwi).2.1 c n)
          | cancel c' =>
            by_cases hcc : c' = c
            · rw [hcc]
            · rcases (wK i c' hwi).2 with h' | h'
              · exact absurd hpc (h'.2.1 c n (fun e => hcc e.symm))
              · exact absurd hpc (h'.1 c n)
      have hk' := wK i c hwin
      have hsus : s.ast i = .suspended := by
        rcases hk'.2 with h' | h'
        · exact h'.2.2.2.1
        · exact absurd hpc (h'.1 c n)
      simp only [State.resume, hsus, if_true]
      constructor <;> (try simp only) <;> grind [upd, After]
    · injection hk with hk; injection hk with hk _; subst hk
      constructor <;> (try simp only [State.free]) <;> grind [upd, After]
  | run i s'' hr =>
    unfold run at hr
    split at hr
    · injection hr with hr; subst hr
      constructor <;> (try simp only) <;> grind [upd, After]
    · cases hr

def Reach (s : State) : Prop := Reachable (· = State.init) Step s

theorem Reach.inv {s : State} (h : Reach s) : Inv s :=
  Reachable.invariant Inv (fun x (h0 : x = State.init) => by rw [h0]; exact Inv.init) (fun _ _ hI hs => hI.step hs) s h

end Babylon.Coro.Cancel
