/-
  Inductive invariant of the cancellable-wrapper model (Babylon/Coro/Cancel.lean) and the facts the
  property theorems need: the awaiter of an instance is resumed at most once, only while suspended;
  the resume comes from the unique winner of `take`; the result is empty iff a canceller won.
-/
import Babylon.Coro.Cancel
import Babylon.Core.Reach

namespace Babylon.Coro.Cancel
open Babylon.Core

@[simp] theorem upd_same {α : Type} (f : Nat → α) (i : Nat) (v : α) : upd f i v i = v := by simp [upd]
theorem upd_other {α : Type} (f : Nat → α) {i j : Nat} (v : α) (h : j ≠ i) : upd f i v j = f j := by
  simp [upd, h]

/-- the awaiter has been resumed (or is past it) -/
def After (a : ASt) : Prop := a = .resuming ∨ a = .running ∨ a = .done

/-- slot `n` is the slot of instance `i`'s token, taken and not yet recycled -/
abbrev Held (tok : Nat → Option (Nat × Nat)) (box : Nat → CSlot) (n i : Nat) : Prop :=
  ∃ ver, tok i = some (n, ver) ∧ (box n).ver = ver ∧ (box n).alloc = true ∧ (box n).taken = true

structure Inv (s : State) : Prop where
  noBad : s.bad = false
  /-- a free slot is marked taken -/
  freeTaken : ∀ n, (s.box n).alloc = false → (s.box n).taken = true
  /-- an allocated, untaken slot belongs to the armed instance stored in it -/
  slotOk : ∀ n, (s.box n).alloc = true → (s.box n).taken = false →
    s.tok (s.box n).inst = some (n, (s.box n).ver) ∧ s.winner (s.box n).inst = none
  /-- tokens were issued by an emplace, each to one instance -/
  tokOk : ∀ i n ver, s.tok i = some (n, ver) → (s.box n).used = true ∧ ver ≤ (s.box n).ver
  tokUniq : ∀ i j n ver, s.tok i = some (n, ver) → s.tok j = some (n, ver) → i = j
  /-- nobody won yet -/
  w0 : ∀ i, s.winner i = none → s.resumes i = 0 ∧ s.canceled i = false ∧ s.result i = none ∧
    ((s.tok i = none ∧ s.ppc i = .none ∧ (s.ast i = .fresh ∨ s.ast i = .running)) ∨
     (∃ n ver, s.tok i = some (n, ver) ∧ (s.box n).ver = ver ∧ (s.box n).taken = false ∧ (s.box n).alloc = true ∧
        (s.box n).inst = i ∧ s.ast i = .suspended ∧ (s.ppc i = .inner ∨ s.ppc i = .take)))
  /-- completion won -/
  wC : ∀ i, s.winner i = some .completion → s.canceled i = false ∧ (∃ n ver, s.tok i = some (n, ver)) ∧
    (((s.ppc i = .doResume ∨ s.ppc i = .finish) ∧ (∃ n, Held s.tok s.box n i) ∧ s.resumes i = 0 ∧ s.ast i = .suspended ∧ s.result i = none) ∨
     (s.ppc i = .final true ∧ s.resumes i = 0 ∧ s.ast i = .suspended ∧ s.result i = none) ∨
     (s.ppc i = .done ∧ s.resumes i = 1 ∧ After (s.ast i)))
  /-- canceller `c` won -/
  wK : ∀ i c, s.winner i = some (.cancel c) →
    (s.ppc i = .inner ∨ s.ppc i = .take ∨ s.ppc i = .final false ∨ s.ppc i = .done) ∧
    (∃ n ver, s.tok i = some (n, ver)) ∧
    (((∀ n ver, s.tok i = some (n, ver) → s.kpc c = .doCancel n i) ∧ s.resumes i = 0 ∧ s.ast i = .suspended ∧ s.canceled i = false ∧ s.result i = none) ∨
     ((∀ n, s.kpc c ≠ .doCancel n i) ∧ s.resumes i = 1 ∧ s.canceled i = true ∧ After (s.ast i)))
  /-- cancellers past their take hold the slot and are the winner -/
  kOk : ∀ c n i, (s.kpc c = .doCancel n i ∨ s.kpc c = .finish n i) → s.winner i = some (.cancel c) ∧ Held s.tok s.box n i
  /-- what `await_resume` returned -/
  resOk : ∀ i r, s.result i = some r → r = (if s.canceled i then none else some (s.value i))
  /-- the proxy only ever has an awaiter when completion won -/
  finalOk : ∀ i, (s.ppc i = .final true ∨ s.ppc i = .doResume ∨ s.ppc i = .finish) → s.winner i = some .completion
  armedOk : ∀ i, s.ppc i ≠ .none → ∃ n ver, s.tok i = some (n, ver)
  runOk : ∀ i, s.ast i = .resuming → s.resumes i = 1

theorem Inv.init : Inv State.init := by
  constructor <;> simp [State.init]

theorem resume_susp (s : State) (i : Nat) (h : s.ast i = .suspended) :
    s.resume i = { s with ast := upd s.ast i .resuming, resumes := upd s.resumes i (s.resumes i + 1) } := by
  simp [State.resume, h]

macro "cn_grind" : tactic => `(tactic| grind (instances := 8000) (splits := 40) (gen := 12) [upd, After])

/-- an instance with a winner has been armed -/
theorem Inv.winner_none_of_tok {s : State} (hI : Inv s) {i : Nat} (h : s.tok i = none) : s.winner i = none := by
  cases hwi : s.winner i with
  | none => rfl
  | some w =>
    cases w with
    | completion =>
      obtain ⟨n, v, hv⟩ := (hI.wC i hwi).2.1
      rw [h] at hv; cases hv
    | cancel c =>
      obtain ⟨n, v, hv⟩ := (hI.wK i c hwi).2.1
      rw [h] at hv; cases hv

/-- the instance whose token is current and untaken has no winner and sits in the slot -/
theorem Inv.untaken_facts {s : State} (hI : Inv s) {i n ver : Nat} (ht : s.tok i = some (n, ver))
    (hv : (s.box n).ver = ver) (hnt : (s.box n).taken = false) :
    (s.box n).alloc = true ∧ (s.box n).inst = i ∧ s.winner i = none := by
  have halloc : (s.box n).alloc = true := by
    cases ha : (s.box n).alloc
    · have := hI.freeTaken n ha; rw [hnt] at this; cases this
    · rfl
  have hs := hI.slotOk n halloc hnt
  have hinst : (s.box n).inst = i := hI.tokUniq _ _ n ver (by rw [hs.1, hv]) ht
  exact ⟨halloc, hinst, hinst ▸ hs.2⟩

set_option maxHeartbeats 4000000 in
theorem Inv.spawnStep {s : State} (hI : Inv s) {i v : Nat} (hf : s.ast i = .fresh) :
    Inv { s with ast := upd s.ast i .running, value := upd s.value i v } := by
  have hw : s.winner i = none := by
    cases hwi : s.winner i with
    | none => rfl
    | some w =>
      cases w with
      | completion => rcases (hI.wC i hwi).2.2 with h' | h' | h' <;> simp [hf, After] at h'
      | cancel c => rcases (hI.wK i c hwi).2.2 with h' | h' <;> simp [hf, After] at h'
  have h0 := hI.w0 i hw
  obtain ⟨noBad, freeTaken, slotOk, tokOk, tokUniq, w0, wC, wK, kOk, resOk, finalOk, armedOk, runOk⟩ := hI
  constructor <;> (try simp only) <;> cn_grind

set_option maxHeartbeats 4000000 in
theorem Inv.armStep {s : State} (hI : Inv s) {i n ver : Nat} (h1 : s.ast i = .running) (h2 : s.tok i = none)
    (h3 : (s.box n).alloc = false) (h4 : (s.box n).used = false ∨ (s.box n).ver < ver) :
    Inv { s with ast := upd s.ast i .suspended, tok := upd s.tok i (some (n, ver)),
                 box := upd s.box n { ver := ver, taken := false, alloc := true, used := true, inst := i },
                 ppc := upd s.ppc i .inner } := by
  have hw := hI.winner_none_of_tok h2
  have h0 := hI.w0 i hw
  have hnk : ∀ c m j, (s.kpc c = .doCancel m j ∨ s.kpc c = .finish m j) → m ≠ n := by
    intro c m j hk e; subst e
    obtain ⟨_, v, _, _, ha, _⟩ := hI.kOk c m j hk
    rw [h3] at ha; cases ha
  obtain ⟨noBad, freeTaken, slotOk, tokOk, tokUniq, w0, wC, wK, kOk, resOk, finalOk, armedOk, runOk⟩ := hI
  constructor <;> (try simp only) <;> cn_grind

set_option maxHeartbeats 4000000 in
theorem Inv.pInner {s : State} (hI : Inv s) {i : Nat} (hp : s.ppc i = .inner) :
    Inv { s with ppc := upd s.ppc i .take } := by
  obtain ⟨noBad, freeTaken, slotOk, tokOk, tokUniq, w0, wC, wK, kOk, resOk, finalOk, armedOk, runOk⟩ := hI
  constructor <;> (try simp only) <;> cn_grind

set_option maxHeartbeats 4000000 in
theorem Inv.pTakeT {s : State} (hI : Inv s) {i n ver : Nat} (hp : s.ppc i = .take) (ht : s.tok i = some (n, ver))
    (hv : (s.box n).ver = ver) (hnt : (s.box n).taken = false) :
    Inv { s with box := upd s.box n { s.box n with taken := true }, ppc := upd s.ppc i .doResume,
                 winner := upd s.winner i (some .completion) } := by
  obtain ⟨halloc, hinst, hw⟩ := hI.untaken_facts ht hv hnt
  have h0 := hI.w0 i hw
  obtain ⟨noBad, freeTaken, slotOk, tokOk, tokUniq, w0, wC, wK, kOk, resOk, finalOk, armedOk, runOk⟩ := hI
  constructor <;> (try simp only) <;> cn_grind

set_option maxHeartbeats 4000000 in
theorem Inv.pTakeF {s : State} (hI : Inv s) {i n ver : Nat} (hp : s.ppc i = .take) (ht : s.tok i = some (n, ver))
    (hc : ¬ ((s.box n).ver = ver ∧ (s.box n).taken = false)) :
    Inv { s with ppc := upd s.ppc i (.final false) } := by
  have hw : s.winner i ≠ none := by
    intro hw
    have := (hI.w0 i hw).2.2.2
    rcases this with ⟨h', _⟩ | ⟨n', v', h1, h2, h3, _⟩
    · rw [ht] at h'; cases h'
    · rw [ht] at h1; injection h1 with h1; injection h1 with e1 e2; subst e1 e2; exact hc ⟨h2, h3⟩
  have hwc : s.winner i ≠ some .completion := by
    intro hwc
    rcases (hI.wC i hwc).2.2 with h' | h' | h' <;> (rw [hp] at h'; simp at h')
  obtain ⟨noBad, freeTaken, slotOk, tokOk, tokUniq, w0, wC, wK, kOk, resOk, finalOk, armedOk, runOk⟩ := hI
  constructor <;> (try simp only) <;> cn_grind

set_option maxHeartbeats 4000000 in
theorem Inv.pDoResume {s : State} (hI : Inv s) {i : Nat} (hp : s.ppc i = .doResume) :
    Inv { s with ppc := upd s.ppc i .finish } := by
  have hw := hI.finalOk i (Or.inr (Or.inl hp))
  obtain ⟨noBad, freeTaken, slotOk, tokOk, tokUniq, w0, wC, wK, kOk, resOk, finalOk, armedOk, runOk⟩ := hI
  constructor <;> (try simp only) <;> cn_grind

set_option maxHeartbeats 4000000 in
theorem Inv.pFinish {s : State} (hI : Inv s) {i n ver : Nat} (hp : s.ppc i = .finish) (ht : s.tok i = some (n, ver)) :
    Inv { s.free n with ppc := upd s.ppc i (.final true) } := by
  have hw := hI.finalOk i (Or.inr (Or.inr hp))
  have hc := hI.wC i hw
  have hheld : Held s.tok s.box n i := by
    rcases hc.2.2 with ⟨_, ⟨m, v, h1, h2⟩, _⟩ | h' | h'
    · rw [ht] at h1; injection h1 with h1; injection h1 with e1 e2; subst e1 e2; exact ⟨_, ht, h2⟩
    · rw [hp] at h'; simp at h'
    · rw [hp] at h'; simp at h'
  obtain ⟨v, hv1, hv2, hv3, hv4⟩ := hheld
  -- nobody else holds slot `n`
  have hnk : ∀ c m j, (s.kpc c = .doCancel m j ∨ s.kpc c = .finish m j) → m ≠ n := by
    intro c m j hk e; subst e
    obtain ⟨hwj, v', h1, h2, _, _⟩ := hI.kOk c m j hk
    have : j = i := hI.tokUniq j i m v' h1 (by rw [hv1, ← hv2, h2])
    subst this
    rw [hw] at hwj; cases hwj
  have hnp : ∀ j, j ≠ i → ∀ m, Held s.tok s.box m j → m ≠ n := by
    intro j hji m ⟨v', h1, h2, _, _⟩ e; subst e
    exact hji (hI.tokUniq j i m v' h1 (by rw [hv1, ← hv2, h2]))
  obtain ⟨noBad, freeTaken, slotOk, tokOk, tokUniq, w0, wC, wK, kOk, resOk, finalOk, armedOk, runOk⟩ := hI
  constructor <;> (try simp only [State.free]) <;> cn_grind

set_option maxHeartbeats 4000000 in
theorem Inv.pFinalT {s : State} (hI : Inv s) {i : Nat} (hp : s.ppc i = .final true) :
    Inv { s.resume i with ppc := upd s.ppc i .done } := by
  have hw := hI.finalOk i (Or.inl hp)
  have hc := hI.wC i hw
  have hsus : s.ast i = .suspended := by
    rcases hc.2.2 with h' | h' | h'
    · rw [hp] at h'; simp at h'
    · exact h'.2.2.1
    · rw [hp] at h'; simp at h'
  rw [resume_susp s i hsus]
  obtain ⟨noBad, freeTaken, slotOk, tokOk, tokUniq, w0, wC, wK, kOk, resOk, finalOk, armedOk, runOk⟩ := hI
  constructor <;> (try simp only) <;> cn_grind

set_option maxHeartbeats 4000000 in
theorem Inv.pFinalF {s : State} (hI : Inv s) {i : Nat} (hp : s.ppc i = .final false) :
    Inv { s with ppc := upd s.ppc i .done } := by
  obtain ⟨noBad, freeTaken, slotOk, tokOk, tokUniq, w0, wC, wK, kOk, resOk, finalOk, armedOk, runOk⟩ := hI
  constructor <;> (try simp only) <;> cn_grind

set_option maxHeartbeats 4000000 in
theorem Inv.kStart {s : State} (hI : Inv s) {c n ver : Nat} (hk : s.kpc c = .idle) :
    Inv { s with kpc := upd s.kpc c (.take n ver) } := by
  obtain ⟨noBad, freeTaken, slotOk, tokOk, tokUniq, w0, wC, wK, kOk, resOk, finalOk, armedOk, runOk⟩ := hI
  constructor <;> (try simp only) <;> cn_grind

set_option maxHeartbeats 4000000 in
theorem Inv.kTakeT {s : State} (hI : Inv s) {c n ver : Nat} (hk : s.kpc c = .take n ver)
    (hv : (s.box n).ver = ver) (hnt : (s.box n).taken = false) :
    Inv { s with box := upd s.box n { s.box n with taken := true }, kpc := upd s.kpc c (.doCancel n (s.box n).inst),
                 winner := upd s.winner (s.box n).inst (some (.cancel c)) } := by
  have halloc : (s.box n).alloc = true := by
    cases ha : (s.box n).alloc
    · have := hI.freeTaken n ha; rw [hnt] at this; cases this
    · rfl
  have hs := hI.slotOk n halloc hnt
  have h0 := hI.w0 _ hs.2
  have hnd : ∀ m j, s.kpc c ≠ .doCancel m j := by intro m j e; rw [hk] at e; cases e
  obtain ⟨noBad, freeTaken, slotOk, tokOk, tokUniq, w0, wC, wK, kOk, resOk, finalOk, armedOk, runOk⟩ := hI
  constructor <;> (try simp only) <;> cn_grind

set_option maxHeartbeats 4000000 in
theorem Inv.kTakeF {s : State} (hI : Inv s) {c n ver : Nat} (hk : s.kpc c = .take n ver) :
    Inv { s with kpc := upd s.kpc c .idle, kres := upd s.kres c false } := by
  obtain ⟨noBad, freeTaken, slotOk, tokOk, tokUniq, w0, wC, wK, kOk, resOk, finalOk, armedOk, runOk⟩ := hI
  constructor <;> (try simp only) <;> cn_grind

set_option maxHeartbeats 4000000 in
theorem Inv.kDoCancel {s : State} (hI : Inv s) {c n i : Nat} (hk : s.kpc c = .doCancel n i) :
    Inv { ({ s with canceled := upd s.canceled i true } : State).resume i with kpc := upd s.kpc c (.finish n i) } := by
  obtain ⟨hw, hheld⟩ := hI.kOk c n i (Or.inl hk)
  have hK := hI.wK i c hw
  have hsus : s.ast i = .suspended := by
    rcases hK.2.2 with h' | h'
    · exact h'.2.2.1
    · exact absurd hk (h'.1 n)
  have : ({ s with canceled := upd s.canceled i true } : State).ast i = .suspended := hsus
  rw [resume_susp _ i this]
  obtain ⟨noBad, freeTaken, slotOk, tokOk, tokUniq, w0, wC, wK, kOk, resOk, finalOk, armedOk, runOk⟩ := hI
  constructor <;> (try simp only) <;> cn_grind

set_option maxHeartbeats 4000000 in
theorem Inv.kFinish {s : State} (hI : Inv s) {c n i : Nat} (hk : s.kpc c = .finish n i) :
    Inv { s.free n with kpc := upd s.kpc c .idle, kres := upd s.kres c true } := by
  obtain ⟨hw, v, hv1, hv2, hv3, hv4⟩ := hI.kOk c n i (Or.inr hk)
  have hnk : ∀ c' m j, c' ≠ c → (s.kpc c' = .doCancel m j ∨ s.kpc c' = .finish m j) → m ≠ n := by
    intro c' m j hcc hk' e; subst e
    obtain ⟨hwj, v', h1, h2, _, _⟩ := hI.kOk c' m j hk'
    have : j = i := hI.tokUniq j i m v' h1 (by rw [hv1, ← hv2, h2])
    subst this
    rw [hw] at hwj; injection hwj with hwj; injection hwj with hwj; exact hcc hwj.symm
  have hnp : ∀ j m, s.winner j = some .completion → Held s.tok s.box m j → m ≠ n := by
    intro j m hwj ⟨v', h1, h2, _, _⟩ e; subst e
    have : j = i := hI.tokUniq j i m v' h1 (by rw [hv1, ← hv2, h2])
    subst this
    rw [hw] at hwj; cases hwj
  obtain ⟨noBad, freeTaken, slotOk, tokOk, tokUniq, w0, wC, wK, kOk, resOk, finalOk, armedOk, runOk⟩ := hI
  constructor <;> (try simp only [State.free]) <;> cn_grind

set_option maxHeartbeats 4000000 in
theorem Inv.runStep {s : State} (hI : Inv s) {i : Nat} (hr : s.ast i = .resuming) :
    Inv { s with ast := upd s.ast i .running,
                 result := upd s.result i (some (if s.canceled i then none else some (s.value i))) } := by
  have h1 := hI.runOk i hr
  have hw : s.winner i ≠ none := by
    intro hw; have := (hI.w0 i hw).1; omega
  obtain ⟨noBad, freeTaken, slotOk, tokOk, tokUniq, w0, wC, wK, kOk, resOk, finalOk, armedOk, runOk⟩ := hI
  constructor <;> (try simp only) <;> cn_grind

theorem Inv.step {s s' : State} (hI : Inv s) (h : Step s s') : Inv s' := by
  cases h with
  | spawn i v hf => exact hI.spawnStep hf
  | arm i n ver s'' e ha =>
    unfold arm at ha
    split at ha
    · rename_i hc
      injection ha with ha; injection ha with ha _; subst ha
      exact hI.armStep hc.1 hc.2.1 hc.2.2.1 hc.2.2.2
    · cases ha
  | proxy i s'' e hp =>
    unfold stepProxy at hp
    split at hp
    · rename_i hpc
      injection hp with hp; injection hp with hp _; subst hp
      exact hI.pInner hpc
    · rename_i n ver hpc htk
      by_cases hc : (s.box n).ver = ver ∧ (s.box n).taken = false
      · have : s.take n ver = (true, { s with box := upd s.box n { s.box n with taken := true } }) := by
          simp [State.take, hc.1, hc.2]
        rw [this] at hp
        simp only [if_true] at hp
        injection hp with hp; injection hp with hp _; subst hp
        exact hI.pTakeT hpc htk hc.1 hc.2
      · have : s.take n ver = (false, s) := by simp only [State.take]; rw [if_neg hc]
        rw [this] at hp
        simp only [Bool.false_eq_true, if_false] at hp
        injection hp with hp; injection hp with hp _; subst hp
        exact hI.pTakeF hpc htk hc
    · rename_i hpc
      injection hp with hp; injection hp with hp _; subst hp
      exact hI.pDoResume hpc
    · rename_i n ver hpc htk
      injection hp with hp; injection hp with hp _; subst hp
      exact hI.pFinish hpc htk
    · rename_i aw hpc
      cases aw with
      | true =>
        simp only [if_true] at hp
        injection hp with hp; injection hp with hp _; subst hp
        exact hI.pFinalT hpc
      | false =>
        simp only [Bool.false_eq_true, if_false] at hp
        injection hp with hp; injection hp with hp _; subst hp
        exact hI.pFinalF hpc
    · cases hp
  | cancel c n ver hk hu hv => exact hI.kStart hk
  | kstep c s'' e hk =>
    unfold stepCancel at hk
    split at hk
    · cases hk
    · rename_i n ver hpc
      by_cases hc : (s.box n).ver = ver ∧ (s.box n).taken = false
      · have : s.take n ver = (true, { s with box := upd s.box n { s.box n with taken := true } }) := by
          simp [State.take, hc.1, hc.2]
        rw [this] at hk
        simp only [if_true] at hk
        injection hk with hk; injection hk with hk _; subst hk
        exact hI.kTakeT hpc hc.1 hc.2
      · have : s.take n ver = (false, s) := by simp only [State.take]; rw [if_neg hc]
        rw [this] at hk
        simp only [Bool.false_eq_true, if_false] at hk
        injection hk with hk; injection hk with hk _; subst hk
        exact hI.kTakeF hpc
    · rename_i n i hpc
      injection hk with hk; injection hk with hk _; subst hk
      exact hI.kDoCancel hpc
    · rename_i n i hpc
      injection hk with hk; injection hk with hk _; subst hk
      exact hI.kFinish hpc
  | run i s'' hr =>
    unfold run at hr
    split at hr
    · rename_i hc
      injection hr with hr; subst hr
      exact hI.runStep hc
    · cases hr

def Reach (s : State) : Prop := Reachable (· = State.init) Step s

theorem Reach.inv {s : State} (h : Reach s) : Inv s :=
  Reachable.invariant Inv (fun x (h0 : x = State.init) => by rw [h0]; exact Inv.init) (fun _ _ hI hs => hI.step hs) s h

end Babylon.Coro.Cancel
