/-
  Preservation of `Inv` by `remove_awaiter` + unlock of the canceller (`cRemove`) when the node is
  still linked (`prev != nullptr`): pointer surgery through the node's own `prev` / `next`.
-/
import Babylon.Coro.Step.CRemoveFacts
import Babylon.Coro.ListLemmas2
namespace Babylon.Coro
open Babylon.Core

set_option hygiene false in
macro "cr_simp" : tactic => `(tactic|
  simp only [setPc_pc, setPc_box, setPc_node, setPc_lock, setPc_fr, setPc_glist, setPc_hnext, setPc_wslot, setPc_bad,
    hN, hH, hG, removeNode_box, removeNode_lock,
    removeNode_pc, removeNode_fr, removeNode_wslot, removeNode_bad])
macro "cr_auto" : tactic => `(tactic| (cr_simp; grind (instances := 4000) (splits := 20) [updA, upd, Pc.isWait, Pc.fresh, Pc.pre, Pc.post, Pc.locks, Pc.pend,
  MemOk, CancelPending, removeNodes_next, removeNodes_prev, removeNodes_rest, removeNodes_other]))

set_option maxHeartbeats 20000000 in
theorem Inv.cRemoveS {s : State} (hI : Inv s) {a : Actor} {n f : Nat} (hp : s.pc a = .cRemove n f)
    (hpv : (s.node n).prev ≠ .null) :
    Inv (({ s.removeNode f n with lock := upd (s.removeNode f n).lock f none }).setPc a (.cResume n)) := by
  have hI' := hI
  have hN := removeNode_node s f n hpv
  have hH := removeNode_hnext s f n hpv
  have hG := removeNode_glist s f n hpv
  have hpre := hI.preOk a n (by simp [hp, Pc.pre])
  have hla : s.lock f = some a := (hI.lockOk f a).2 (by simp [hp, Pc.locks])
  have hfut := hI.cRemoveOk a n f hp
  have hcl : ∀ h, a ≠ .fr h := by
    intro h e; subst e
    rcases hI.kindF h with h1 | h1 <;> simp [hp, Pc.isWait] at h1
  have hng : n ∈ s.glist f := by
    rcases hI.prevOk n hpre.1 hpre.2.2.2.1 hpv with h1 | ⟨b, h1, h2⟩ | ⟨c, h1, h2⟩
    · rw [hfut] at h1; exact h1
    · rw [hfut, hla] at h1; injection h1 with h1; subst h1
      rw [hp] at h2; simp [Pc.pend] at h2
    · rw [hpre.2.2.1] at h1; injection h1 with h1; subst h1
      rcases h2 with h2 | h2 <;> (rw [hp] at h2; cases h2)
  obtain ⟨l1, l2, hgl, hers, hn1, hn2⟩ := List.split_at_mem hng (hI.listOk f).2.1
  have hc1 := (hI.listOk f).1
  rw [hgl] at hc1
  have hprev_form : (s.node n).prev = .head f ∨ ∃ w ∈ l1, (s.node n).prev = .node w := by
    by_cases hl1 : l1 = []
    · subst hl1; left; exact Chain.prev_of_first (by simpa using hc1)
    · right; exact Chain.prev_of_mid l1 _ _ hc1 hl1
  have hpred_mem : ∀ m, (s.node n).prev = .node m → m ∈ s.glist f := by
    intro m e
    rcases hprev_form with e' | ⟨w, hw, e'⟩
    · rw [e] at e'; cases e'
    · rw [e] at e'; injection e' with e'; subst e'; rw [hgl]; exact List.mem_append_left _ hw
  have hsucc_mem : ∀ m, (s.node n).next = some m → m ∈ s.glist f := by
    intro m e
    have := Chain.next_of_mid l1 _ _ hc1
    rw [e] at this
    rw [hgl]
    cases l2 with
    | nil => cases this
    | cons z zs => simp at this; subst this; simp
  have hnext_same : ∀ m, (s.node n).prev ≠ .node m → (removeNodes s.node n m).next = (s.node m).next := by
    intro m hm; rw [removeNodes_next]; simp [hm]
  have hpred_notpre : ∀ b m, m ∈ (s.pc b).pre → (s.node n).prev = .node m → b = a → False := by
    intro b m hm e hb; subst hb
    rw [hp] at hm; simp [Pc.pre] at hm; subst hm
    -- a node is not its own predecessor
    rcases hprev_form with e' | ⟨w, hw, e'⟩
    · rw [e] at e'; cases e'
    · rw [e] at e'; injection e' with e'; subst e'; exact hn1 hw
  obtain ⟨kindC, kindF, lockOk, frWait, freshOk, freshUniq, freshVer, freshVerT, freshNode, wFreeTaken, preOk, postOk, ownOk, rsmTaken,
    freeTaken, pubNode, waiting, parked, listOk, scanOk, prevOk, placed, freshHolder, scanL0, unlockL0, oScanOk, oNoneOk, aUnlockOk, aNextOk, aResumeOk, aFreeOk,
    noRead, cTakeOk, cRemoveOk, allocUsed, noBad⟩ := hI
  have hpred_notpre' : ∀ b m, b ≠ a → m ∈ (s.pc b).pre → (s.node n).prev = .node m →
      s.pc b = .cLock m ∨ s.pc b = .cRemove m (s.node m).fut := by
    intro b m _ hm e
    have h1 := preOk b m hm
    obtain ⟨c, hc1', hc2⟩ := ((listOk f).2.2 m (hpred_mem m e)).2.2.2 h1.2.1
    rw [h1.2.2.1] at hc1'; injection hc1' with hc1'; subst hc1'; exact hc2
  have hmem : ∀ g m, MemOk s g m → m ≠ n → MemOk (({ s.removeNode f n with lock := upd (s.removeNode f n).lock f none }).setPc a (.cResume n)) g m := by
    intro g m hm hmn
    have hr := removeNodes_rest s.node n m
    unfold MemOk CancelPending at *
    refine ⟨by cr_simp; exact hm.1, by cr_simp; exact hm.2.1, by cr_simp; rw [hr.1]; exact hm.2.2.1, ?_⟩
    intro htk
    have htk' : (s.box m).taken = true := by revert htk; cr_simp; exact id
    obtain ⟨c, hc1', hc2⟩ := hm.2.2.2 htk'
    have hca : c ≠ a := by
      intro e; subst e
      rcases hc2 with h' | h'
      · rw [hp] at h'; cases h'
      · rw [hp] at h'; injection h' with h1 h2; exact hmn h1.symm
    exact ⟨c, by cr_simp; exact hc1', by cr_simp; rw [hr.1]; simp [updA, hca]; exact hc2⟩
  constructor
  case kindC => cr_auto
  case kindF => cr_auto
  case lockOk => cr_auto
  case frWait => cr_auto
  case freshOk => cr_auto
  case freshUniq => cr_auto
  case freshVer => cr_auto
  case freshVerT => cr_auto
  case freshNode =>
    intro h' f' v' n' ver' hh
    have hpc : s.pc (.fr h') = .wLock f' v' n' ver' ∨ ∃ m, s.pc (.fr h') = .wLink f' v' n' ver' m := by
      revert hh; cr_simp
      have : Actor.fr h' ≠ a := fun e => hcl h' e.symm
      simp [updA, this]
    have hold := freshNode h' f' v' n' ver' hpc
    have hfr : (s.pc (.fr h')).fresh = some n' := by rcases hpc with e | ⟨m, e⟩ <;> simp [e, Pc.fresh]
    have hnl := (freshOk h' n' hfr).2.2.1 f
    have h1 : (s.node n).prev ≠ .node n' := fun e => hnl (hpred_mem n' e)
    have h2 : (s.node n).next ≠ some n' := fun e => hnl (hsucc_mem n' e)
    cr_simp
    rw [removeNodes_other _ _ _ h1 h2]
    exact hold
  case wFreeTaken => cr_auto
  case preOk => cr_auto
  case postOk => cr_auto
  case ownOk => cr_auto
  case rsmTaken => cr_auto
  case freeTaken => cr_auto
  case pubNode => cr_auto
  case waiting => cr_auto
  case parked => cr_auto
  case listOk =>
    intro g
    obtain ⟨c1, c2, c3⟩ := listOk g
    by_cases hg : g = f
    · subst hg
      refine ⟨?_, ?_, ?_⟩
      · simp only [setPc_node, setPc_hnext, setPc_glist, hN, hG]
        simp only [upd_same, hers]
        rw [hgl] at c1 c2
        have hrem := Chain.remove (node := s.node) (n := n) (l2 := l2) l1 (.head g) (s.hnext g) c1 c2
          (by intro q hq; cases hq) (by intro _ q hq; cases hq)
        have hhn : (s.removeNode g n).hnext g = if l1 = [] then (s.node n).next else s.hnext g := by
          rw [hH]
          by_cases hl1 : l1 = []
          · subst hl1
            have := Chain.prev_of_first (by simpa using c1)
            rw [this]; simp
          · obtain ⟨w, _, hw⟩ := Chain.prev_of_mid l1 _ _ c1 hl1
            rw [hw]; simp [hl1]
        rw [hhn]
        exact hrem
      · cr_simp; simp only [upd_same, hers]
        rw [hgl] at c2
        have h' := List.nodup_append.mp c2
        refine List.nodup_append.mpr ⟨h'.1, (List.nodup_cons.mp h'.2.1).2, ?_⟩
        intro x hx y hy
        exact h'.2.2 x hx y (by simp [hy])
      · intro m hm
        have hm' : m ∈ l1 ++ l2 := by revert hm; cr_simp; simp only [upd_same, hers]; exact id
        have hmg : m ∈ s.glist g := by
          rw [hgl]; rcases List.mem_append.mp hm' with e | e <;> simp [e]
        have hmn : m ≠ n := by
          intro e; subst e
          rcases List.mem_append.mp hm' with e | e
          · exact hn1 e
          · exact hn2 e
        exact hmem g m (c3 m hmg) hmn
    · refine ⟨?_, ?_, ?_⟩
      · simp only [setPc_node, setPc_hnext, setPc_glist, hN, hG]
        simp only [upd_other _ _ hg]
        have hhn : (s.removeNode f n).hnext g = s.hnext g := by
          rw [hH]
          cases hP : (s.node n).prev with
          | null => rfl
          | node q => rfl
          | head g' =>
            have : g' = f := by
              rcases hprev_form with e | ⟨w, _, e⟩
              · rw [hP] at e; injection e
              · rw [hP] at e; cases e
            subst this
            simp [upd, hg]
        rw [hhn]
        refine Chain.congr ?_ c1
        intro m hm
        have hmf : m ∉ s.glist f := by
          intro e
          have h1 := ((listOk f).2.2 m e).2.2.1
          have h2 := (c3 m hm).2.2.1
          exact hg (h2.symm.trans h1)
        exact removeNodes_other _ _ _ (fun e => hmf (hpred_mem m e)) (fun e => hmf (hsucc_mem m e))
      · cr_simp; simp only [upd_other _ _ hg]; exact c2
      · intro m hm
        have hm' : m ∈ s.glist g := by revert hm; cr_simp; simp only [upd_other _ _ hg]; exact id
        refine hmem g m (c3 m hm') ?_
        intro e; subst e
        have := (c3 m hm').2.2.1
        exact hg (this.symm.trans hfut)
  case scanOk =>
    intro b g hd tail cur took pend skip l0 hb
    have hba : b ≠ a := by intro e; subst e; revert hb; cr_simp; simp [updA]
    have hb' : s.pc b = .aScan g hd tail cur took pend skip l0 := by revert hb; cr_simp; simp [updA, hba]
    obtain ⟨h1, h2, h3, h4, h5, h6, h7⟩ := scanOk b g hd tail cur took pend skip l0 hb'
    have hgf : g ≠ f := by
      intro e; subst e
      have := (lockOk g b).2 (by simp [hb', Pc.locks])
      rw [hla] at this; injection this with this; exact hba this.symm
    have hnotin : ∀ m, m ∈ s.glist f → m ∉ took ++ pend := by
      intro m hm e
      have hf1 := ((listOk f).2.2 m hm).2.2.1
      rcases List.mem_append.mp e with e | e
      · exact hgf ((h7 m e).1.symm.trans hf1)
      · exact hgf ((h6 m e).2.2.1.symm.trans hf1)
    refine ⟨?_, ?_, h3, h4, h5, ?_, ?_⟩
    · cr_simp; simp [upd, hgf, h1]
    · cr_simp
      exact NChain.congr (fun x hx => hnext_same x (fun e => hnotin x (hpred_mem x e) hx)) h2
    · intro m hm
      exact hmem g m (h6 m hm) (fun e => hnotin n hng (by simp [← e, hm]))
    · intro m hm
      have hmf : m ∉ s.glist f := fun e => hnotin m e (by simp [hm])
      cr_simp
      rw [removeNodes_other _ _ _ (fun e => hmf (hpred_mem m e)) (fun e => hmf (hsucc_mem m e))]
      exact h7 m hm
  case prevOk =>
    intro m
    have hold := prevOk m
    have hr := removeNodes_rest s.node n m
    have hpv' := removeNodes_prev s.node n m
    intro ha hpub hprev
    have ha' : (s.box m).alloc = true := by revert ha; cr_simp; exact id
    have hpub' : (s.box m).pub = true := by revert hpub; cr_simp; exact id
    by_cases hmn : m = n
    · subst hmn
      right; right
      exact ⟨a, by cr_simp; exact hpre.2.2.1, by cr_simp; simp [updA]⟩
    · have hfm : (({ s.removeNode f n with lock := upd (s.removeNode f n).lock f none }).setPc a (.cResume n)).node m = removeNodes s.node n m := by cr_simp
      rw [hfm, hr.1]
      by_cases hmy : (s.node n).next = some m
      · left
        have hmg := hsucc_mem m hmy
        have hmf := ((listOk f).2.2 m hmg).2.2.1
        rw [hmf]
        cr_simp
        simp only [upd_same, hers]
        rw [hgl] at hmg
        rcases List.mem_append.mp hmg with e | e
        · exact List.mem_append_left _ e
        · rcases List.mem_cons.mp e with e | e
          · exact absurd e hmn
          · exact List.mem_append_right _ e
      · rw [hfm, hpv'] at hprev
        simp only [hmy, if_false] at hprev
        rcases hold ha' hpub' hprev with h1 | ⟨b, h1, h2⟩ | ⟨c, h1, h2⟩
        · left
          by_cases hf : (s.node m).fut = f
          · rw [hf] at h1 ⊢
            cr_simp
            simp only [upd_same, hers]
            rw [hgl] at h1
            rcases List.mem_append.mp h1 with e | e
            · exact List.mem_append_left _ e
            · rcases List.mem_cons.mp e with e | e
              · exact absurd e hmn
              · exact List.mem_append_right _ e
          · cr_simp; simp [upd, hf, h1]
        · right; left
          have hbf : (s.node m).fut ≠ f := by
            intro e; rw [e, hla] at h1; injection h1 with h1; subst h1
            rw [hp] at h2; simp [Pc.pend] at h2
          have hba : b ≠ a := by
            intro e; subst e
            rw [hp] at h2; simp [Pc.pend] at h2
          exact ⟨b, by cr_simp; simp [upd, hbf, h1], by cr_simp; simp [updA, hba, h2]⟩
        · right; right
          have hca : c ≠ a := by
            intro e; subst e
            rcases h2 with h2 | h2 <;> (rw [hp] at h2; cases h2)
          exact ⟨c, by cr_simp; exact h1, by cr_simp; simp [updA, hca, h2]⟩
  case placed =>
    intro m
    have hold := placed m
    have hr := removeNodes_rest s.node n m
    intro ha hpub hnt
    have ha' : (s.box m).alloc = true := by revert ha; cr_simp; exact id
    have hpub' : (s.box m).pub = true := by revert hpub; cr_simp; exact id
    have hnt' : (s.box m).taken = false := by revert hnt; cr_simp; exact id
    have hmn : m ≠ n := by intro e; subst e; rw [hpre.2.1] at hnt'; cases hnt'
    have hfm : (({ s.removeNode f n with lock := upd (s.removeNode f n).lock f none }).setPc a (.cResume n)).node m = removeNodes s.node n m := by cr_simp
    rw [hfm, hr.1]
    rcases hold ha' hpub' hnt' with h1 | ⟨b, h1, h2⟩
    · left
      by_cases hf : (s.node m).fut = f
      · rw [hf] at h1 ⊢
        cr_simp
        simp only [upd_same, hers]
        rw [hgl] at h1
        rcases List.mem_append.mp h1 with e | e
        · exact List.mem_append_left _ e
        · rcases List.mem_cons.mp e with e | e
          · exact absurd e hmn
          · exact List.mem_append_right _ e
      · cr_simp; simp [upd, hf, h1]
    · right
      have hbf : (s.node m).fut ≠ f := by
        intro e; rw [e, hla] at h1; injection h1 with h1; subst h1
        rw [hp] at h2; simp [Pc.pend] at h2
      have hba : b ≠ a := by
        intro e; subst e
        rw [hp] at h2; simp [Pc.pend] at h2
      exact ⟨b, by cr_simp; simp [upd, hbf, h1], by cr_simp; simp [updA, hba, h2]⟩
  case freshHolder => cr_auto
  case scanL0 => unfold ScanL0 at *; cr_auto
  case unlockL0 => unfold ScanL0 UnlockL0 at *; cr_auto
  case oScanOk =>
    intro b g cur l0 seen hb
    have hba : b ≠ a := by intro e; subst e; revert hb; cr_simp; simp [updA]
    have hb' : s.pc b = .oScan g cur l0 seen := by revert hb; cr_simp; simp [updA, hba]
    obtain ⟨h1, h2⟩ := oScanOk b g cur l0 seen hb'
    have hgf : g ≠ f := by
      intro e; subst e
      have := (lockOk g b).2 (by simp [hb', Pc.locks])
      rw [hla] at this; injection this with this; exact hba this.symm
    have hhn : (s.removeNode f n).hnext g = s.hnext g := by
      rw [hH]
      cases hP : (s.node n).prev with
      | null => rfl
      | node q => rfl
      | head g' =>
        have : g' = f := by
          rcases hprev_form with e | ⟨w, _, e⟩
          · rw [hP] at e; injection e
          · rw [hP] at e; cases e
        subst this
        simp [upd, hgf]
    simp only [setPc_hnext, setPc_glist, hG, hhn, upd_other _ _ hgf]
    exact ⟨h1, h2⟩
  case oNoneOk =>
    intro b g l0 seen hb
    have hba : b ≠ a := by intro e; subst e; revert hb; cr_simp; simp [updA]
    have hb' : s.pc b = .oUnlock g none l0 seen := by revert hb; cr_simp; simp [updA, hba]
    obtain ⟨h1, h2, h3⟩ := oNoneOk b g l0 seen hb'
    have hgf : g ≠ f := by
      intro e; subst e
      have := (lockOk g b).2 (by simp [hb', Pc.locks])
      rw [hla] at this; injection this with this; exact hba this.symm
    have hhn : (s.removeNode f n).hnext g = s.hnext g := by
      rw [hH]
      cases hP : (s.node n).prev with
      | null => rfl
      | node q => rfl
      | head g' =>
        have : g' = f := by
          rcases hprev_form with e | ⟨w, _, e⟩
          · rw [hP] at e; injection e
          · rw [hP] at e; cases e
        subst this
        simp [upd, hgf]
    simp only [setPc_hnext, setPc_glist, hG, hhn, upd_other _ _ hgf]
    exact ⟨h1, h2, h3⟩
  case aUnlockOk =>
    intro b g hd took skip l0 hb
    have hba : b ≠ a := by intro e; subst e; revert hb; cr_simp; simp [updA]
    have hb' : s.pc b = .aUnlock g hd took skip l0 := by revert hb; cr_simp; simp [updA, hba]
    obtain ⟨h1, h2, h3⟩ := aUnlockOk b g hd took skip l0 hb'
    have hgf : g ≠ f := by
      intro e; subst e
      have := (lockOk g b).2 (by simp [hb', Pc.locks])
      rw [hla] at this; injection this with this; exact hba this.symm
    refine ⟨by cr_simp; simp [upd, hgf, h1], ?_, h3⟩
    cr_simp
    exact NChain.congr (fun x hx => hnext_same x (fun e => by
      rcases hpred_notpre' b x hba (by simp [hb', Pc.pre, hx]) e with h' | h' <;> (rw [hb'] at h'; cases h'))) h2
  case aNextOk =>
    intro b m k took rs hb
    have hba : b ≠ a := by intro e; subst e; revert hb; cr_simp; simp [updA]
    have hb' : s.pc b = .aNext m k took rs := by revert hb; cr_simp; simp [updA, hba]
    obtain ⟨h1, h2, h3, h4⟩ := aNextOk b m k took rs hb'
    refine ⟨h1, h2, ?_, h4⟩
    cr_simp
    exact NChain.congr (fun x hx => hnext_same x (fun e => by
      rcases hpred_notpre' b x hba (by simp [hb', Pc.pre, ← h1, hx]) e with h' | h' <;> (rw [hb'] at h'; cases h'))) h3
  case aResumeOk =>
    intro b m nx k took rs hb
    have hba : b ≠ a := by intro e; subst e; revert hb; cr_simp; simp [updA]
    have hb' : s.pc b = .aResume m nx k took rs := by revert hb; cr_simp; simp [updA, hba]
    obtain ⟨h1, h2, ⟨rest', h3, h3'⟩, h4⟩ := aResumeOk b m nx k took rs hb'
    refine ⟨h1, h2, ⟨rest', h3, ?_⟩, h4⟩
    cr_simp
    exact NChain.congr (fun x hx => hnext_same x (fun e => by
      rcases hpred_notpre' b x hba (by simp [hb', Pc.pre, ← h1, h3, hx]) e with h' | h' <;> (rw [hb'] at h'; cases h'))) h3'
  case aFreeOk =>
    intro b m nx k took rs hb
    have hba : b ≠ a := by intro e; subst e; revert hb; cr_simp; simp [updA]
    have hb' : s.pc b = .aFree m nx k took rs := by revert hb; cr_simp; simp [updA, hba]
    obtain ⟨h1, h2, h3, h4, h5⟩ := aFreeOk b m nx k took rs hb'
    refine ⟨h1, h2, ?_, h4, h5⟩
    cr_simp
    exact NChain.congr (fun x hx => hnext_same x (fun e => by
      rcases hpred_notpre' b x hba (by simp [hb', Pc.pre, h1, hx]) e with h' | h' <;> (rw [hb'] at h'; cases h'))) h3
  case noRead => cr_auto
  case cTakeOk => cr_auto
  case cRemoveOk => cr_auto
  case allocUsed => cr_auto
  case noBad => cr_auto

end Babylon.Coro
