/-
  Preservation of `Inv` by the acquisition of a futex mutex that leaves the list alone
  (`wLock`, `oLock`, `cLock`) and by the releases that leave the list alone
  (`wLink` on a mismatch, `oUnlock`, `aUnlock`).
-/
import Babylon.Coro.InvTac
namespace Babylon.Coro
open Babylon.Core

set_option maxHeartbeats 1600000 in
theorem Inv.lockStep {s : State} (hI : Inv s) {a : Actor} {f : Nat} {p : Pc} (hfree : s.lock f = none)
    (hw : p.isWait = (s.pc a).isWait) (hf : p.fresh = (s.pc a).fresh) (hpre : p.pre = (s.pc a).pre)
    (hpost : p.post = (s.pc a).post) (hl : (s.pc a).locks = none) (hpl : p.locks = some f)
    (hpd : p.pend = []) (hopd : (s.pc a).pend = [])
    (hidle : s.pc a ≠ .idle)
    (hq1 : ∀ x, p ≠ .cLock x) (hq2 : ∀ x g, p = .cRemove x g ↔ (s.pc a = .cLock x ∧ g = (s.node x).fut))
    (hq3 : ∀ x, p ≠ .cResume x) (hq4 : ∀ x, p ≠ .cFree x)
    (ho2 : ∀ x g, s.pc a ≠ .cRemove x g) (ho3 : ∀ x, s.pc a ≠ .cResume x) (ho4 : ∀ x, s.pc a ≠ .cFree x)
    (hs1 : ∀ g hd tail cur took pend skip l0, p ≠ .aScan g hd tail cur took pend skip l0)
    (hs2 : ∀ g cur l0 seen, p = .oScan g cur l0 seen → s.hnext g = some cur ∧ l0 = seen ++ s.glist g)
    (hs3 : ∀ g got l0 seen, p = .oUnlock g got l0 seen → got = none ∧ s.hnext g = none ∧ s.glist g = [] ∧ seen = l0)
    (hs4 : ∀ g hd took skip l0, p ≠ .aUnlock g hd took skip l0)
    (hs5 : ∀ m k took rs, p ≠ .aNext m k took rs)
    (hs6 : ∀ m nx k took rs, p ≠ .aResume m nx k took rs)
    (hs7 : ∀ m nx k took rs, p ≠ .aFree m nx k took rs)
    (hs8 : ∀ m k took rs, p ≠ .aRead m k took rs)
    (hs9 : ∀ m v, p ≠ .cTake m v)
    (hsw : ∀ g v n ver m, p = .wLink g v n ver m → s.pc a = .wLock g v n ver)
    (hsw1 : ∀ g v n ver, p ≠ .wCons g v n ver) (hsw2 : ∀ g v n ver, p ≠ .wLock g v n ver)
    (hsw3 : ∀ n ver, p ≠ .wTake n ver) (hsw4 : ∀ n, p ≠ .wFree n) (hfw : ∀ n, s.pc a ≠ .wFree n) :
    Inv (({ s with lock := upd s.lock f (some a) }).setPc a p) := by
  have hI' := hI
  obtain ⟨kindC, kindF, lockOk, frWait, freshOk, freshUniq, freshVer, freshVerT, freshNode, wFreeTaken, preOk, postOk, ownOk, rsmTaken,
    freeTaken, pubNode, waiting, parked, listOk, scanOk, prevOk, placed, freshHolder, scanL0, unlockL0, oScanOk, oNoneOk, aUnlockOk, aNextOk, aResumeOk, aFreeOk,
    noRead, cTakeOk, cRemoveOk, allocUsed, noBad⟩ := hI
  constructor
  case kindC => inv_auto
  case kindF => inv_auto
  case lockOk => inv_auto
  case frWait => inv_auto
  case freshOk => inv_auto
  case freshUniq => inv_auto
  case freshVer => inv_auto
  case freshVerT => inv_auto
  case freshNode => inv_auto
  case wFreeTaken => inv_auto
  case preOk => inv_auto
  case postOk => inv_auto
  case ownOk => inv_auto
  case rsmTaken => inv_auto
  case freeTaken => inv_auto
  case pubNode => inv_auto
  case waiting => inv_auto
  case parked => inv_auto
  case listOk =>
    refine ListOk.transfer (s := s) (s' := ({ s with lock := upd s.lock f (some a) }).setPc a p) rfl rfl rfl ?_ listOk
    intro g m _ h
    unfold MemOk CancelPending at *
    inv_simp
    grind [updA]
  case scanOk =>
    refine ScanOk.transfer (s := s) (s' := ({ s with lock := upd s.lock f (some a) }).setPc a p) rfl rfl ?_ ?_ scanOk
    · inv_simp; grind [updA]
    · intro b g hd tail cur took pend skip l0 m _ _ h
      unfold MemOk CancelPending at *
      inv_simp
      grind [updA]
  case prevOk =>
    refine PrevOk.transfer (s := s) (s' := ({ s with lock := upd s.lock f (some a) }).setPc a p) rfl rfl ?_ ?_ ?_ prevOk
    · inv_simp; grind
    · inv_simp; grind [updA, upd, Pc.pend, Pc.locks]
    · inv_simp; grind [updA]
  case placed => inv_auto
  case freshHolder => inv_auto
  case scanL0 => unfold ScanL0 at *; inv_auto
  case unlockL0 => unfold ScanL0 UnlockL0 at *; inv_auto
  case oScanOk => inv_auto
  case oNoneOk => inv_auto
  case aUnlockOk => inv_auto
  case aNextOk => inv_auto
  case aResumeOk => inv_auto
  case aFreeOk => inv_auto
  case noRead => inv_auto
  case cTakeOk => inv_auto
  case cRemoveOk => inv_auto
  case allocUsed => inv_auto
  case noBad => inv_auto

set_option maxHeartbeats 1600000 in
theorem Inv.unlockStep {s : State} (hI : Inv s) {a : Actor} {f : Nat} {p : Pc}
    (hw : p.isWait = (s.pc a).isWait) (hf : p.fresh = (s.pc a).fresh) (hpre : p.pre = (s.pc a).pre)
    (hpost : p.post = (s.pc a).post) (hl : (s.pc a).locks = some f) (hpl : p.locks = none)
    (hpd : p.pend = []) (hopd : (s.pc a).pend = [])
    (hidle : p = .idle → ∀ h, a ≠ .fr h)
    (hq1 : ∀ x, p ≠ .cLock x) (hq2 : ∀ x g, p ≠ .cRemove x g)
    (hq3 : ∀ x, p ≠ .cResume x) (hq4 : ∀ x, p ≠ .cFree x)
    (ho1 : ∀ x, s.pc a ≠ .cLock x) (ho2 : ∀ x g, s.pc a ≠ .cRemove x g) (ho3 : ∀ x, s.pc a ≠ .cResume x) (ho4 : ∀ x, s.pc a ≠ .cFree x)
    (hs1 : ∀ g hd tail cur took pend skip l0, p ≠ .aScan g hd tail cur took pend skip l0)
    (hs2 : ∀ g cur l0 seen, p ≠ .oScan g cur l0 seen)
    (hs3 : ∀ g got l0 seen, p ≠ .oUnlock g got l0 seen)
    (hs4 : ∀ g hd took skip l0, p ≠ .aUnlock g hd took skip l0)
    (hs5 : ∀ m k took rs, p = .aNext m k took rs →
      k = rs.length ∧ rs = took.take k ∧ NChain s.node (some m) (took.drop k) ∧ took.Nodup)
    (hs6 : ∀ m nx k took rs, p ≠ .aResume m nx k took rs)
    (hs7 : ∀ m nx k took rs, p ≠ .aFree m nx k took rs)
    (hs8 : ∀ m k took rs, p ≠ .aRead m k took rs)
    (hs9 : ∀ m v, p ≠ .cTake m v)
    (hsw : ∀ g v n ver m, p ≠ .wLink g v n ver m)
    (hsw1 : ∀ g v n ver, p ≠ .wCons g v n ver) (hsw2 : ∀ g v n ver, p ≠ .wLock g v n ver)
    (hsw3 : ∀ n ver, p = .wTake n ver → (s.box n).ver = ver) (hsw4 : ∀ n, p ≠ .wFree n) (hfw : ∀ n, s.pc a ≠ .wFree n) :
    Inv (({ s with lock := upd s.lock f none }).setPc a p) := by
  have hI' := hI
  have hla := (hI.lockOk f a).2 hl
  obtain ⟨kindC, kindF, lockOk, frWait, freshOk, freshUniq, freshVer, freshVerT, freshNode, wFreeTaken, preOk, postOk, ownOk, rsmTaken,
    freeTaken, pubNode, waiting, parked, listOk, scanOk, prevOk, placed, freshHolder, scanL0, unlockL0, oScanOk, oNoneOk, aUnlockOk, aNextOk, aResumeOk, aFreeOk,
    noRead, cTakeOk, cRemoveOk, allocUsed, noBad⟩ := hI
  constructor
  case kindC => inv_auto
  case kindF => inv_auto
  case lockOk => inv_auto
  case frWait => inv_auto
  case freshOk => inv_auto
  case freshUniq => inv_auto
  case freshVer => inv_auto
  case freshVerT => inv_auto
  case freshNode => inv_auto
  case wFreeTaken => inv_auto
  case preOk => inv_auto
  case postOk => inv_auto
  case ownOk => inv_auto
  case rsmTaken => inv_auto
  case freeTaken => inv_auto
  case pubNode => inv_auto
  case waiting => inv_auto
  case parked => inv_auto
  case listOk =>
    refine ListOk.transfer (s := s) (s' := ({ s with lock := upd s.lock f none }).setPc a p) rfl rfl rfl ?_ listOk
    intro g m _ h
    unfold MemOk CancelPending at *
    inv_simp
    grind [updA]
  case scanOk =>
    refine ScanOk.transfer (s := s) (s' := ({ s with lock := upd s.lock f none }).setPc a p) rfl rfl ?_ ?_ scanOk
    · inv_simp; grind [updA]
    · intro b g hd tail cur took pend skip l0 m _ _ h
      unfold MemOk CancelPending at *
      inv_simp
      grind [updA]
  case prevOk =>
    refine PrevOk.transfer (s := s) (s' := ({ s with lock := upd s.lock f none }).setPc a p) rfl rfl ?_ ?_ ?_ prevOk
    · inv_simp; grind
    · inv_simp; grind [updA, upd, Pc.pend, Pc.locks]
    · inv_simp; grind [updA]
  case placed => inv_auto
  case freshHolder => inv_auto
  case scanL0 => unfold ScanL0 at *; inv_auto
  case unlockL0 => unfold ScanL0 UnlockL0 at *; inv_auto
  case oScanOk => inv_auto
  case oNoneOk => inv_auto
  case aUnlockOk => inv_auto
  case aNextOk => inv_auto
  case aResumeOk => inv_auto
  case aFreeOk => inv_auto
  case noRead => inv_auto
  case cTakeOk => inv_auto
  case cRemoveOk => inv_auto
  case allocUsed => inv_auto
  case noBad => inv_auto

end Babylon.Coro
