/-
  Preservation of `Inv` by the successful `add_awaiter` (`wLink` with a matching value): front insert,
  publication of the slot, release of the mutex; the frame parks.
-/
import Babylon.Coro.InvTac
import Babylon.Coro.ListLemmas
namespace Babylon.Coro
open Babylon.Core

theorem linkNodes_next (node : Nat → Node) (f n : Nat) (first : Option Nat) (m : Nat) :
    (linkNodes node f n first m).next = if m = n then first else (node m).next := by
  unfold linkNodes
  cases first <;> grind [upd]

theorem linkNodes_prev (node : Nat → Node) (f n : Nat) (first : Option Nat) (m : Nat) (hf : first ≠ some n) :
    (linkNodes node f n first m).prev = if m = n then .head f else if first = some m then .node n else (node m).prev := by
  unfold linkNodes
  cases first <;> grind [upd]

theorem linkNodes_rest (node : Nat → Node) (f n : Nat) (first : Option Nat) (m : Nat) :
    (linkNodes node f n first m).fut = (node m).fut ∧ (linkNodes node f n first m).ver = (node m).ver ∧
    (linkNodes node f n first m).h = (node m).h := by
  unfold linkNodes
  cases first <;> grind [upd]

theorem linkNodes_other (node : Nat → Node) (f n : Nat) (first : Option Nat) (m : Nat) (h1 : m ≠ n) (h2 : first ≠ some m) :
    linkNodes node f n first m = node m := by
  unfold linkNodes
  cases first <;> grind [upd]

theorem linkFront_node (s : State) (f n : Nat) : (s.linkFront f n).node = linkNodes s.node f n (s.hnext f) := by
  unfold State.linkFront linkNodes
  cases h : s.hnext f <;> simp [State.setPrev]
theorem linkFront_hnext (s : State) (f n : Nat) : (s.linkFront f n).hnext = upd s.hnext f (some n) := by
  unfold State.linkFront; cases h : s.hnext f <;> rfl
theorem linkFront_glist (s : State) (f n : Nat) : (s.linkFront f n).glist = upd s.glist f (n :: s.glist f) := by
  unfold State.linkFront; cases h : s.hnext f <;> rfl
theorem linkFront_box (s : State) (f n : Nat) : (s.linkFront f n).box = upd s.box n { s.box n with pub := true } := by
  unfold State.linkFront; cases h : s.hnext f <;> rfl
theorem linkFront_lock (s : State) (f n : Nat) : (s.linkFront f n).lock = s.lock := by
  unfold State.linkFront; cases h : s.hnext f <;> rfl
theorem linkFront_pc (s : State) (f n : Nat) : (s.linkFront f n).pc = s.pc := by
  unfold State.linkFront; cases h : s.hnext f <;> rfl
theorem linkFront_fr (s : State) (f n : Nat) : (s.linkFront f n).fr = s.fr := by
  unfold State.linkFront; cases h : s.hnext f <;> rfl
theorem linkFront_bad (s : State) (f n : Nat) : (s.linkFront f n).bad = s.bad := by
  unfold State.linkFront; cases h : s.hnext f <;> rfl
theorem linkFront_wslot (s : State) (f n : Nat) : (s.linkFront f n).wslot = upd s.wslot (s.node n).h (some n) := by
  have := (linkNodes_rest s.node f n (s.hnext f) n).2.2
  unfold State.linkFront
  cases h : s.hnext f with
  | none => simp [upd]
  | some x =>
    by_cases hx : n = x
    · subst hx; simp [State.setPrev, upd]
    · simp [State.setPrev, upd, hx]

theorem NChain.linkNodes {node : Nat → Node} {f n : Nat} {first0 first : Option Nat} {l : List Nat}
    (hn : n ∉ l) (h : NChain node first l) : NChain (linkNodes node f n first0) first l :=
  NChain.congr (fun x hx => by
    rw [linkNodes_next]
    have : x ≠ n := fun e => hn (e ▸ hx)
    simp [this]) h

macro "lk_simp" : tactic => `(tactic|
  simp only [setPc_pc, setPc_box, setPc_node, setPc_lock, setPc_fr, setPc_glist, setPc_hnext, setPc_wslot, setPc_bad,
    linkFront_node, linkFront_hnext, linkFront_glist, linkFront_box, linkFront_lock, linkFront_pc, linkFront_fr,
    linkFront_bad, linkFront_wslot])
macro "lk_auto" : tactic => `(tactic| (lk_simp; grind [updA, upd, Pc.isWait, Pc.fresh, Pc.pre, Pc.post, Pc.locks, Pc.pend,
  linkNodes_next, linkNodes_prev, linkNodes_rest, linkNodes_other]))

set_option maxHeartbeats 4000000 in
theorem Inv.wLinkT {s : State} (hI : Inv s) {h f v n ver : Nat} (hp : s.pc (.fr h) = .wLink f v n ver true) :
    Inv (({ s.linkFront f n with lock := upd (s.linkFront f n).lock f none }).setPc (.fr h) .idle) := by
  have hI' := hI
  have hfn := hI.freshNode h f v n ver (Or.inr ⟨true, hp⟩)
  have hfo := hI.freshOk h n (by simp [hp, Pc.fresh])
  have hlk : s.lock f = some (.fr h) := (hI.lockOk f _).2 (by simp [hp, Pc.locks])
  have hver := hI.freshVer h f v n ver (Or.inr (Or.inr ⟨true, hp⟩))
  have hsusp := hI.frWait h (by simp [hp])
  have hnt : (s.box n).taken = false := by
    cases ht : (s.box n).taken
    · rfl
    · have := (hfo.2.2.2 ht).1; rw [hp] at this; cases this
  have hfirst : s.hnext f ≠ some n := by
    intro e
    have := (hI.listOk f).1.head
    rw [e] at this
    have hm : n ∈ s.glist f := by
      cases hg : s.glist f with
      | nil => rw [hg] at this; cases this
      | cons x xs => rw [hg] at this; simp at this; subst this; simp
    exact hfo.2.2.1 f hm
  have hx : ∀ x, s.hnext f = some x → x ∈ s.glist f := by
    intro x e
    have := (hI.listOk f).1.head
    rw [e] at this
    cases hg : s.glist f with
    | nil => rw [hg] at this; cases this
    | cons y ys => rw [hg] at this; simp at this; subst this; simp
  have hnpre : ∀ b, n ∉ (s.pc b).pre := by
    intro b hb
    have := (hI.preOk b n hb).2.2.2.1
    rw [hfo.2.1] at this; cases this
  have hnh : (s.node n).h = h := by rw [hfn]
  have hnf : (s.node n).fut = f := by rw [hfn]
  obtain ⟨kindC, kindF, lockOk, frWait, freshOk, freshUniq, freshVer, freshVerT, freshNode, wFreeTaken, preOk, postOk, ownOk, rsmTaken,
    freeTaken, pubNode, waiting, parked, listOk, scanOk, prevOk, placed, freshHolder, scanL0, unlockL0, oScanOk, oNoneOk, aUnlockOk, aNextOk, aResumeOk, aFreeOk,
    noRead, cTakeOk, cRemoveOk, allocUsed, noBad⟩ := hI
  have hmem : ∀ g m, MemOk s g m → m ≠ n →
      MemOk (({ s.linkFront f n with lock := upd (s.linkFront f n).lock f none }).setPc (.fr h) .idle) g m := by
    intro g m hm hne
    unfold MemOk CancelPending at *
    lk_simp
    have := linkNodes_rest s.node f n (s.hnext f) m
    grind [updA, upd]
  constructor
  case kindC => lk_auto
  case kindF => lk_auto
  case lockOk => lk_auto
  case frWait => lk_auto
  case freshOk => lk_auto
  case freshUniq => lk_auto
  case freshVer => lk_auto
  case freshVerT => lk_auto
  case freshNode =>
    intro h' f' v' n' ver' hh
    have hne : h' ≠ h := by
      intro e; subst e; revert hh; lk_simp; simp [updA]
    have hpc : s.pc (.fr h') = .wLock f' v' n' ver' ∨ ∃ m, s.pc (.fr h') = .wLink f' v' n' ver' m := by
      revert hh; lk_simp
      have : Actor.fr h' ≠ Actor.fr h := fun e => hne (by injection e)
      simp [updA, this]
    have hold := freshNode h' f' v' n' ver' hpc
    have hfr' := freshOk h' n' (by rcases hpc with e | ⟨m, e⟩ <;> simp [e, Pc.fresh])
    have hn'n : n' ≠ n := by
      intro e; subst e
      exact hne (freshUniq h' h n' (by rcases hpc with e | ⟨m, e⟩ <;> simp [e, Pc.fresh]) (by simp [hp, Pc.fresh]))
    have hn'x : s.hnext f ≠ some n' := fun e => hfr'.2.2.1 f (hx n' e)
    lk_simp
    rw [linkNodes_other _ _ _ _ _ hn'n hn'x]
    exact hold
  case wFreeTaken => lk_auto
  case preOk => lk_auto
  case postOk => lk_auto
  case ownOk => lk_auto
  case rsmTaken => lk_auto
  case freeTaken => lk_auto
  case pubNode => lk_auto
  case waiting => lk_auto
  case parked => lk_auto
  case listOk =>
    intro g
    obtain ⟨c1, c2, c3⟩ := listOk g
    by_cases hg : g = f
    · subst hg
      refine ⟨?_, ?_, ?_⟩
      · lk_simp; simp only [upd_same]; exact Chain.link c1 (hfo.2.2.1 g) c2
      · lk_simp; simp only [upd_same]; exact List.nodup_cons.mpr ⟨hfo.2.2.1 g, c2⟩
      · intro m hm
        have hm' : m = n ∨ m ∈ s.glist g := by
          revert hm; lk_simp; simp only [upd_same]; exact List.mem_cons.mp
        rcases hm' with rfl | hm'
        · unfold MemOk CancelPending
          lk_simp
          have := linkNodes_rest s.node g m (s.hnext g) m
          grind [updA, upd]
        · exact hmem g m (c3 m hm') (fun e => hfo.2.2.1 g (e ▸ hm'))
    · refine ⟨?_, ?_, ?_⟩
      · lk_simp; simp only [upd_other _ _ hg]
        refine Chain.congr ?_ c1
        intro m hm
        have hmn : m ≠ n := fun e => hfo.2.2.1 g (e ▸ hm)
        have hmx : s.hnext f ≠ some m := by
          intro e
          have h1 := ((listOk f).2.2 m (hx m e)).2.2.1
          have h2 := (c3 m hm).2.2.1
          exact hg (h2.symm.trans h1)
        exact linkNodes_other _ _ _ _ _ hmn hmx
      · lk_simp; simp only [upd_other _ _ hg]; exact c2
      · intro m hm
        have hm' : m ∈ s.glist g := by revert hm; lk_simp; simp only [upd_other _ _ hg]; exact id
        exact hmem g m (c3 m hm') (fun e => hfo.2.2.1 g (e ▸ hm'))
  case scanOk =>
    intro b g hd tail cur took pend skip l0 hb
    have hb' : s.pc b = .aScan g hd tail cur took pend skip l0 := by revert hb; lk_simp; grind [updA]
    obtain ⟨h1, h2, h3, h4, h5, h6, h7⟩ := scanOk b g hd tail cur took pend skip l0 hb'
    have hgf : g ≠ f := by
      intro e; subst e
      have := (lockOk g b).2 (by simp [hb', Pc.locks])
      rw [hlk] at this; injection this with this; subst this; rw [hp] at hb'; cases hb'
    have hnt' : n ∉ took ++ pend := by
      intro e
      rcases List.mem_append.mp e with e | e
      · exact hnpre b (by simp [hb', Pc.pre, e])
      · have := (h6 n e).2.1; rw [hfo.2.1] at this; cases this
    refine ⟨?_, ?_, h3, h4, h5, ?_, ?_⟩
    · lk_simp; simp [upd, hgf, h1]
    · lk_simp; exact NChain.linkNodes hnt' h2
    · intro m hm
      exact hmem g m (h6 m hm) (fun e => hnt' (by simp [← e, hm]))
    · intro m hm
      have hmn : m ≠ n := fun e => hnt' (by simp [← e, hm])
      have hmx : s.hnext f ≠ some m := by
        intro e
        have h1' := ((listOk f).2.2 m (hx m e)).2.2.1
        exact hgf ((h7 m hm).1.symm.trans h1')
      lk_simp
      rw [linkNodes_other _ _ _ _ _ hmn hmx]
      exact h7 m hm
  case prevOk =>
    intro m
    have hold := prevOk m
    have hr := linkNodes_rest s.node f n (s.hnext f) m
    have hpv := linkNodes_prev s.node f n (s.hnext f) m hfirst
    by_cases hmn : m = n
    · subst hmn
      intro _ _ _
      left
      lk_simp
      simp [hr.1, hnf]
    · by_cases hmx : s.hnext f = some m
      · have hmg := hx m hmx
        have hmf := ((listOk f).2.2 m hmg).2.2.1
        intro _ _ _
        left
        lk_simp
        simp [hr.1, hmf, hmg]
      · revert hold
        lk_simp
        simp only [hpv, hr.1, hmn, hmx, if_false]
        grind [updA, upd, Pc.pend, Pc.locks]
  case placed => lk_auto
  case freshHolder => lk_auto
  case scanL0 => unfold ScanL0 at *; lk_auto
  case unlockL0 => unfold ScanL0 UnlockL0 at *; lk_auto
  case oScanOk => lk_auto
  case oNoneOk => lk_auto
  case aUnlockOk =>
    intro b g hd took skip l0 hb
    have hb' : s.pc b = .aUnlock g hd took skip l0 := by revert hb; lk_simp; grind [updA]
    obtain ⟨h1, h2, h3⟩ := aUnlockOk b g hd took skip l0 hb'
    have hgf : g ≠ f := by
      intro e; subst e
      have := (lockOk g b).2 (by simp [hb', Pc.locks])
      rw [hlk] at this; injection this with this; subst this; rw [hp] at hb'; cases hb'
    have hnt' : n ∉ took := fun e => hnpre b (by simp [hb', Pc.pre, e])
    lk_simp
    refine ⟨by simp [upd, hgf, h1], NChain.linkNodes hnt' h2, h3⟩
  case aNextOk =>
    intro b m k took rs hb
    have hb' : s.pc b = .aNext m k took rs := by revert hb; lk_simp; grind [updA]
    obtain ⟨h1, h2, h3, h4⟩ := aNextOk b m k took rs hb'
    have hnt' : n ∉ took.drop k := fun e => hnpre b (by simp [hb', Pc.pre, ← h1, e])
    lk_simp
    exact ⟨h1, h2, NChain.linkNodes hnt' h3, h4⟩
  case aResumeOk =>
    intro b m nx k took rs hb
    have hb' : s.pc b = .aResume m nx k took rs := by revert hb; lk_simp; grind [updA]
    obtain ⟨h1, h2, ⟨rest, h3, h3'⟩, h4⟩ := aResumeOk b m nx k took rs hb'
    have hnt' : n ∉ rest := fun e => hnpre b (by simp [hb', Pc.pre, ← h1, h3, e])
    lk_simp
    exact ⟨h1, h2, ⟨rest, h3, NChain.linkNodes hnt' h3'⟩, h4⟩
  case aFreeOk =>
    intro b m nx k took rs hb
    have hb' : s.pc b = .aFree m nx k took rs := by revert hb; lk_simp; grind [updA]
    obtain ⟨h1, h2, h3, h4, h5⟩ := aFreeOk b m nx k took rs hb'
    have hnt' : n ∉ took.drop (k + 1) := fun e => hnpre b (by simp [hb', Pc.pre, h1, e])
    lk_simp
    exact ⟨h1, h2, NChain.linkNodes hnt' h3, h4, h5⟩
  case noRead => lk_auto
  case cTakeOk => lk_auto
  case cRemoveOk => lk_auto
  case allocUsed => lk_auto
  case noBad => lk_auto

end Babylon.Coro
