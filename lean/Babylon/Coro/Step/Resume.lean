/-
  Preservation of `Inv` by the resume call of a taker (`oResume`, `aResume`, `cResume`).
-/
import Babylon.Coro.InvTac
namespace Babylon.Coro
open Babylon.Core

@[simp] theorem resumeOf_node (s : State) (n : Nat) : (s.resumeOf n).node = s.node := by
  simp only [State.resumeOf, State.resume]; split <;> rfl
@[simp] theorem resumeOf_lock (s : State) (n : Nat) : (s.resumeOf n).lock = s.lock := by
  simp only [State.resumeOf, State.resume]; split <;> rfl
@[simp] theorem resumeOf_glist (s : State) (n : Nat) : (s.resumeOf n).glist = s.glist := by
  simp only [State.resumeOf, State.resume]; split <;> rfl
@[simp] theorem resumeOf_hnext (s : State) (n : Nat) : (s.resumeOf n).hnext = s.hnext := by
  simp only [State.resumeOf, State.resume]; split <;> rfl
@[simp] theorem resumeOf_pc (s : State) (n : Nat) : (s.resumeOf n).pc = s.pc := by
  simp only [State.resumeOf, State.resume]; split <;> rfl
@[simp] theorem resumeOf_box (s : State) (n : Nat) : (s.resumeOf n).box = upd s.box n { s.box n with rsm := true } := by
  simp only [State.resumeOf, State.resume]; split <;> rfl
theorem resumeOf_fr (s : State) (n : Nat) (h : s.fr (s.node n).h = .suspended) :
    (s.resumeOf n).fr = upd s.fr (s.node n).h .resuming := by
  simp [State.resumeOf, State.resume, h]
theorem resumeOf_wslot (s : State) (n : Nat) (h : s.fr (s.node n).h = .suspended) :
    (s.resumeOf n).wslot = upd s.wslot (s.node n).h none := by
  simp [State.resumeOf, State.resume, h]
theorem resumeOf_bad (s : State) (n : Nat) (h : s.fr (s.node n).h = .suspended) :
    (s.resumeOf n).bad = s.bad := by
  simp [State.resumeOf, State.resume, h]

theorem MemOk.resumeOf {s : State} {a : Actor} {n f m : Nat} {p : Pc}
    (hpre : n ∈ (s.pc a).pre) (hown : (s.box n).own = some a)
    (hq1 : ∀ x, p ≠ .cLock x) (hq2 : ∀ x g, p ≠ .cRemove x g)
    (hpa1 : ∀ x, s.pc a ≠ .cLock x) (hpa2 : ∀ x g, s.pc a ≠ .cRemove x g)
    (h : MemOk s f m) : MemOk ((s.resumeOf n).setPc a p) f m := by
  unfold MemOk CancelPending at *
  simp only [setPc_box, setPc_node, setPc_pc, resumeOf_box, resumeOf_node, resumeOf_pc]
  grind [updA, upd]

set_option maxHeartbeats 1600000 in
/-- the actor's pc holds `n` in `pre`; it moves to `p` with `p.post = some n`, `p.pre = pre.erase n` -/
theorem Inv.resumeOf {s : State} (hI : Inv s) {a : Actor} {n : Nat} {p : Pc} (hpre : n ∈ (s.pc a).pre)
    (hl : (s.pc a).locks = none) (hw : (s.pc a).isWait = false) (hpd : (s.pc a).pend = []) (hpo : (s.pc a).post = none)
    (hpa1 : ∀ x, s.pc a ≠ .cLock x) (hpa2 : ∀ x g, s.pc a ≠ .cRemove x g)
    (hpw : p.isWait = false) (hpf : p.fresh = none)
    (hppre : ∀ x, x ∈ p.pre ↔ (x ∈ (s.pc a).pre ∧ x ≠ n)) (hppost : p.post = some n)
    (hpl : p.locks = none) (hppd : p.pend = [])
    (hq1 : ∀ x, p ≠ .cLock x) (hq2 : ∀ x g, p ≠ .cRemove x g) (hq3 : ∀ x, p ≠ .cResume x)
    (hqf : ∀ x, p = .cFree x ↔ s.pc a = .cResume x)
    (hshape : (∀ f hd tail cur took pend skip l0, p ≠ .aScan f hd tail cur took pend skip l0) ∧
      (∀ f cur l0 seen, p ≠ .oScan f cur l0 seen) ∧ (∀ f g l0 seen, p ≠ .oUnlock f g l0 seen) ∧
      (∀ f hd took skip l0, p ≠ .aUnlock f hd took skip l0) ∧
      (∀ m k took rs, p ≠ .aNext m k took rs) ∧
      (∀ m nx k took rs, p ≠ .aResume m nx k took rs) ∧
      (∀ m nx k took rs, p = .aFree m nx k took rs →
        rs.length = k + 1 ∧ rs = took.take (k + 1) ∧ NChain s.node nx (took.drop (k + 1)) ∧ took.Nodup ∧ rs.getLast? = some m) ∧
      (∀ m k took rs, p ≠ .aRead m k took rs) ∧ (∀ m v, p ≠ .cTake m v)) :
    Inv ((s.resumeOf n).setPc a p) := by
  have hpre' := hI.preOk a n hpre
  have hwait := hI.waiting n hpre'.1 hpre'.2.2.2.1 hpre'.2.2.2.2
  have hfr := resumeOf_fr s n hwait.1
  have hws := resumeOf_wslot s n hwait.1
  have hbd := resumeOf_bad s n hwait.1
  have hI' := hI
  obtain ⟨kindC, kindF, lockOk, frWait, freshOk, freshUniq, freshVer, freshVerT, freshNode, wFreeTaken, preOk, postOk, ownOk, rsmTaken,
    freeTaken, pubNode, waiting, parked, listOk, scanOk, prevOk, placed, freshHolder, scanL0, unlockL0, oScanOk, oNoneOk, aUnlockOk, aNextOk, aResumeOk, aFreeOk,
    noRead, cTakeOk, cRemoveOk, allocUsed, noBad⟩ := hI
  obtain ⟨hs1, hs2, hs3, hs4, hs5, hs6, hs7, hs8, hs9⟩ := hshape
  constructor
  case kindC => simp only [setPc_pc, resumeOf_pc]; inv_grind
  case kindF => simp only [setPc_pc, resumeOf_pc]; inv_grind
  case lockOk => simp only [setPc_pc, resumeOf_pc, setPc_lock, resumeOf_lock]; inv_grind
  case frWait => simp only [setPc_pc, resumeOf_pc, setPc_fr, hfr]; inv_grind
  case freshOk => simp only [setPc_pc, resumeOf_pc, setPc_box, resumeOf_box, setPc_glist, resumeOf_glist]; inv_grind
  case freshUniq => simp only [setPc_pc, resumeOf_pc]; inv_grind
  case freshVer => simp only [setPc_pc, resumeOf_pc, setPc_box, resumeOf_box]; inv_grind
  case freshVerT => simp only [setPc_pc, resumeOf_pc, setPc_box, resumeOf_box]; inv_grind
  case freshNode => simp only [setPc_pc, resumeOf_pc, setPc_node, resumeOf_node]; inv_grind
  case wFreeTaken => simp only [setPc_pc, resumeOf_pc, setPc_box, resumeOf_box]; inv_grind
  case preOk => simp only [setPc_pc, resumeOf_pc, setPc_box, resumeOf_box]; inv_grind
  case postOk => simp only [setPc_pc, resumeOf_pc, setPc_box, resumeOf_box]; inv_grind
  case ownOk => simp only [setPc_pc, resumeOf_pc, setPc_box, resumeOf_box]; inv_grind
  case rsmTaken => simp only [setPc_box, resumeOf_box]; inv_grind
  case freeTaken => simp only [setPc_box, resumeOf_box]; inv_grind
  case pubNode => simp only [setPc_box, resumeOf_box, setPc_node, resumeOf_node]; inv_grind
  case waiting =>
    simp only [setPc_pc, resumeOf_pc, setPc_box, resumeOf_box, setPc_node, resumeOf_node, setPc_fr, hfr, setPc_wslot, hws]
    inv_grind
  case parked =>
    simp only [setPc_pc, resumeOf_pc, setPc_box, resumeOf_box, setPc_node, resumeOf_node, setPc_fr, hfr, setPc_wslot, hws]
    inv_grind
  case listOk =>
    exact ListOk.transfer (s := s) (s' := (s.resumeOf n).setPc a p) (by simp) (by simp) (by simp)
      (fun f m _ h => h.resumeOf hpre hpre'.2.2.1 hq1 hq2 hpa1 hpa2) listOk
  case scanOk =>
    refine ScanOk.transfer (s := s) (s' := (s.resumeOf n).setPc a p) (by simp) (by simp) ?_
      (fun b f hd tail cur took pend skip l0 m _ _ h => h.resumeOf hpre hpre'.2.2.1 hq1 hq2 hpa1 hpa2) scanOk
    intro b f hd tail cur took pend skip l0
    simp only [setPc_pc, resumeOf_pc]
    grind [updA]
  case prevOk =>
    refine PrevOk.transfer (s := s) (s' := (s.resumeOf n).setPc a p) (by simp) (by simp) ?_ ?_ ?_ prevOk
    · simp only [setPc_box, resumeOf_box]; grind [upd]
    · simp only [setPc_box, resumeOf_box, setPc_pc, resumeOf_pc, setPc_lock, resumeOf_lock]; grind [upd, updA, Pc.pend, Pc.locks]
    · simp only [setPc_box, resumeOf_box, setPc_pc, resumeOf_pc]; grind [upd, updA, Pc.post, Pc.pre]
  case placed => simp only [setPc_pc, resumeOf_pc, setPc_box, resumeOf_box, setPc_node, resumeOf_node, setPc_glist, resumeOf_glist, setPc_lock, resumeOf_lock]; inv_grind
  case freshHolder => simp only [setPc_pc, resumeOf_pc, setPc_box, resumeOf_box]; inv_grind
  case scanL0 => unfold ScanL0 at *; simp only [setPc_pc, resumeOf_pc]; inv_grind
  case unlockL0 => unfold ScanL0 UnlockL0 at *; simp only [setPc_pc, resumeOf_pc]; inv_grind
  case oScanOk => simp only [setPc_pc, resumeOf_pc, setPc_hnext, resumeOf_hnext, setPc_glist, resumeOf_glist]; inv_grind
  case oNoneOk => simp only [setPc_pc, resumeOf_pc, setPc_hnext, resumeOf_hnext, setPc_glist, resumeOf_glist]; inv_grind
  case aUnlockOk => simp only [setPc_pc, resumeOf_pc, setPc_node, resumeOf_node, setPc_glist, resumeOf_glist]; inv_grind
  case aNextOk => simp only [setPc_pc, resumeOf_pc, setPc_node, resumeOf_node]; inv_grind
  case aResumeOk => simp only [setPc_pc, resumeOf_pc, setPc_node, resumeOf_node]; inv_grind
  case aFreeOk => simp only [setPc_pc, resumeOf_pc, setPc_node, resumeOf_node]; inv_grind
  case noRead => simp only [setPc_pc, resumeOf_pc]; inv_grind
  case cTakeOk => simp only [setPc_pc, resumeOf_pc, setPc_box, resumeOf_box]; inv_grind
  case cRemoveOk => simp only [setPc_pc, resumeOf_pc, setPc_node, resumeOf_node]; inv_grind
  case allocUsed => simp only [setPc_box, resumeOf_box]; inv_grind
  case noBad => simp only [setPc_bad, hbd]; exact noBad

end Babylon.Coro
