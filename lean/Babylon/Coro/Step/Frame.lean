/-
  Preservation of `Inv` by the steps of the coroutine frames themselves: spawn, (re)start by the
  executor, `co_await` (entering `await_suspend`), `co_return`, the construction of the node
  (`wCons`) and the end of the failure path (`wFree`).
-/
import Babylon.Coro.InvTac
namespace Babylon.Coro
open Babylon.Core

set_option maxHeartbeats 1600000 in
/-- the status of a frame that is not suspended changes to another status that is not `suspended` -/
theorem Inv.frChange {s : State} (hI : Inv s) {h : Nat} {x : FrSt} {fx : Nat → Nat} (hs : s.fr h ≠ .suspended) (hx : x ≠ .suspended) :
    Inv { s with fr := upd s.fr h x, fex := fx } := by
  have hI' := hI
  obtain ⟨kindC, kindF, lockOk, frWait, freshOk, freshUniq, freshVer, freshVerT, freshNode, wFreeTaken, preOk, postOk, ownOk, rsmTaken,
    freeTaken, pubNode, waiting, parked, listOk, scanOk, prevOk, placed, freshHolder, scanL0, unlockL0, oScanOk, oNoneOk, aUnlockOk, aNextOk, aResumeOk, aFreeOk,
    noRead, cTakeOk, cRemoveOk, allocUsed, noBad⟩ := hI
  constructor
  case kindC => exact kindC
  case kindF => exact kindF
  case lockOk => exact lockOk
  case frWait => intro h'; have := frWait h'; grind [upd]
  case freshOk => exact freshOk
  case freshUniq => exact freshUniq
  case freshVer => exact freshVer
  case freshVerT => exact freshVerT
  case freshNode => exact freshNode
  case wFreeTaken => exact wFreeTaken
  case preOk => exact preOk
  case postOk => exact postOk
  case ownOk => exact ownOk
  case rsmTaken => exact rsmTaken
  case freeTaken => exact freeTaken
  case pubNode => exact pubNode
  case waiting => intro n; have := waiting n; grind [upd]
  case parked => intro h'; have := parked h'; grind [upd]
  case listOk => exact listOk
  case scanOk => exact scanOk
  case prevOk => exact prevOk
  case placed => exact placed
  case freshHolder => exact freshHolder
  case scanL0 => exact scanL0
  case unlockL0 => exact unlockL0
  case oScanOk => exact oScanOk
  case oNoneOk => exact oNoneOk
  case aUnlockOk => exact aUnlockOk
  case aNextOk => exact aNextOk
  case aResumeOk => exact aResumeOk
  case aFreeOk => exact aFreeOk
  case noRead => exact noRead
  case cTakeOk => exact cTakeOk
  case cRemoveOk => exact cRemoveOk
  case allocUsed => exact allocUsed
  case noBad => exact noBad

set_option maxHeartbeats 1600000 in
/-- a running coroutine evaluates `co_await futex.wait(v)` -/
theorem Inv.wait {s : State} (hI : Inv s) {h f v : Nat} (hr : s.fr h = .running) (hp : s.pc (.fr h) = .idle) :
    Inv (({ s with fr := upd s.fr h .suspended }).setPc (.fr h) (.wAlloc f v)) := by
  have hI' := hI
  obtain ⟨kindC, kindF, lockOk, frWait, freshOk, freshUniq, freshVer, freshVerT, freshNode, wFreeTaken, preOk, postOk, ownOk, rsmTaken,
    freeTaken, pubNode, waiting, parked, listOk, scanOk, prevOk, placed, freshHolder, scanL0, unlockL0, oScanOk, oNoneOk, aUnlockOk, aNextOk, aResumeOk, aFreeOk,
    noRead, cTakeOk, cRemoveOk, allocUsed, noBad⟩ := hI
  constructor
  case kindC => inv_auto
  case kindF => inv_auto
  case lockOk => inv_auto
  case frWait => inv_auto
  case freshOk => inv_auto
  case freshUniq => inv_auto
  case freshVer => inv_auto
  case freshVerT => inv_auto
  case freshNode => inv_auto
  case wFreeTaken => inv_auto
  case preOk => inv_auto
  case postOk => inv_auto
  case ownOk => inv_auto
  case rsmTaken => inv_auto
  case freeTaken => inv_auto
  case pubNode => inv_auto
  case waiting => inv_auto
  case parked => inv_auto
  case listOk =>
    refine ListOk.transfer (s := s) (s' := _) rfl rfl rfl ?_ listOk
    intro g m hm hmem
    unfold MemOk CancelPending at *
    inv_simp
    grind [updA, upd]
  case scanOk =>
    refine ScanOk.transfer (s := s) (s' := _) rfl rfl ?_ ?_ scanOk
    · inv_simp; grind [updA]
    · intro b g hd tail cur took pend skip l0 m hb hm hmem
      unfold MemOk CancelPending at *
      inv_simp
      grind [updA, upd]
  case prevOk =>
    refine PrevOk.transfer (s := s) (s' := _) rfl rfl ?_ ?_ ?_ prevOk
    · inv_simp; grind [upd]
    · inv_simp; grind [updA, upd, Pc.pend, Pc.locks]
    · inv_simp; grind [updA, upd]
  case placed => inv_auto
  case freshHolder => inv_auto
  case scanL0 => unfold ScanL0 at *; inv_auto
  case unlockL0 => unfold ScanL0 UnlockL0 at *; inv_auto
  case oScanOk => inv_auto
  case oNoneOk => inv_auto
  case aUnlockOk => inv_auto
  case aNextOk => inv_auto
  case aResumeOk => inv_auto
  case aFreeOk => inv_auto
  case noRead => inv_auto
  case cTakeOk => inv_auto
  case cRemoveOk => inv_auto
  case allocUsed => inv_auto
  case noBad => inv_auto

set_option maxHeartbeats 1600000 in
/-- end of the failure path: `finish_released(id)` by the waiter itself, the coroutine continues -/
theorem Inv.wFree {s : State} (hI : Inv s) {h n : Nat} (hp : s.pc (.fr h) = .wFree n) :
    Inv (({ s.free n with fr := upd (s.free n).fr h .running }).setPc (.fr h) .idle) := by
  have hI' := hI
  have hfr := hI.freshOk h n (by simp [hp, Pc.fresh])
  have hpo := hI.postOk (.fr h) n (by simp [hp, Pc.post])
  have hsus := hI.frWait h (by simp [hp])
  obtain ⟨kindC, kindF, lockOk, frWait, freshOk, freshUniq, freshVer, freshVerT, freshNode, wFreeTaken, preOk, postOk, ownOk, rsmTaken,
    freeTaken, pubNode, waiting, parked, listOk, scanOk, prevOk, placed, freshHolder, scanL0, unlockL0, oScanOk, oNoneOk, aUnlockOk, aNextOk, aResumeOk, aFreeOk,
    noRead, cTakeOk, cRemoveOk, allocUsed, noBad⟩ := hI
  constructor
  case kindC => inv_auto
  case kindF => inv_auto
  case lockOk => inv_auto
  case frWait => inv_auto
  case freshOk => inv_auto
  case freshUniq => inv_auto
  case freshVer => inv_auto
  case freshVerT => inv_auto
  case freshNode => inv_auto
  case wFreeTaken => inv_auto
  case preOk => inv_auto
  case postOk => inv_auto
  case ownOk => inv_auto
  case rsmTaken => inv_auto
  case freeTaken => inv_auto
  case pubNode => inv_auto
  case waiting => inv_auto
  case parked => inv_auto
  case listOk =>
    refine ListOk.transfer (s := s) (s' := _) rfl rfl rfl ?_ listOk
    intro g m hm hmem
    have hne : m ≠ n := by rintro rfl; exact hfr.2.2.1 g hm
    unfold MemOk CancelPending at *
    inv_simp
    grind [updA, upd]
  case scanOk =>
    refine ScanOk.transfer (s := s) (s' := _) rfl rfl ?_ ?_ scanOk
    · inv_simp; grind [updA]
    · intro b g hd tail cur took pend skip l0 m hb hm hmem
      have hne : m ≠ n := by rintro rfl; have := hmem.2.1; rw [hfr.2.1] at this; cases this
      unfold MemOk CancelPending at *
      inv_simp
      grind [updA, upd]
  case prevOk =>
    refine PrevOk.transfer (s := s) (s' := _) rfl rfl ?_ ?_ ?_ prevOk
    · inv_simp; grind [upd]
    · inv_simp; grind [updA, upd, Pc.pend, Pc.locks]
    · inv_simp; grind [updA, upd]
  case placed => inv_auto
  case freshHolder => inv_auto
  case scanL0 => unfold ScanL0 at *; inv_auto
  case unlockL0 => unfold ScanL0 UnlockL0 at *; inv_auto
  case oScanOk => inv_auto
  case oNoneOk => inv_auto
  case aUnlockOk => inv_auto
  case aNextOk => inv_auto
  case aResumeOk => inv_auto
  case aFreeOk => inv_auto
  case noRead => inv_auto
  case cTakeOk => inv_auto
  case cRemoveOk => inv_auto
  case allocUsed => inv_auto
  case noBad => inv_auto

end Babylon.Coro
