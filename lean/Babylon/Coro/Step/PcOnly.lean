/-
  Preservation of `Inv` by steps that only move one actor to another program counter with the same
  holdings: starting a call, the plain read `aNext`, the store to the futex word; and independence of
  `Inv` from the fields it does not mention.
-/
import Babylon.Coro.InvTac
namespace Babylon.Coro
open Babylon.Core

/-- `Inv` only reads these fields -/
theorem Inv.congr {s s' : State} (hI : Inv s) (h1 : s'.pc = s.pc) (h2 : s'.lock = s.lock) (h3 : s'.node = s.node)
    (h4 : s'.box = s.box) (h5 : s'.fr = s.fr) (h6 : s'.glist = s.glist) (h7 : s'.hnext = s.hnext)
    (h8 : s'.wslot = s.wslot) (h9 : s'.bad = s.bad) : Inv s' := by
  obtain ⟨kindC, kindF, lockOk, frWait, freshOk, freshUniq, freshVer, freshVerT, freshNode, wFreeTaken, preOk, postOk, ownOk, rsmTaken,
    freeTaken, pubNode, waiting, parked, listOk, scanOk, prevOk, placed, freshHolder, scanL0, unlockL0, oScanOk, oNoneOk, aUnlockOk, aNextOk, aResumeOk, aFreeOk,
    noRead, cTakeOk, cRemoveOk, allocUsed, noBad⟩ := hI
  constructor <;> (try unfold ListOk ScanOk PrevOk ScanL0 UnlockL0 MemOk CancelPending at *) <;> (try simp only [h1, h2, h3, h4, h5, h6, h7, h8, h9]) <;> assumption

set_option maxHeartbeats 1600000 in
theorem Inv.pcOnly {s : State} (hI : Inv s) {a : Actor} {p : Pc}
    (hw : p.isWait = (s.pc a).isWait) (hf : p.fresh = (s.pc a).fresh) (hpre : p.pre = (s.pc a).pre)
    (hpost : p.post = (s.pc a).post) (hl : p.locks = (s.pc a).locks) (hpd : p.pend = (s.pc a).pend)
    (hcl : ∀ h, a ≠ .fr h)
    (hwait : (s.pc a).isWait = false)
    (hq1 : ∀ x, p ≠ .cLock x) (hq2 : ∀ x g, p ≠ .cRemove x g) (hq3 : ∀ x, p ≠ .cResume x) (hq4 : ∀ x, p ≠ .cFree x)
    (ho1 : ∀ x, s.pc a ≠ .cLock x) (ho2 : ∀ x g, s.pc a ≠ .cRemove x g) (ho3 : ∀ x, s.pc a ≠ .cResume x) (ho4 : ∀ x, s.pc a ≠ .cFree x)
    (hs1 : ∀ f hd tail cur took pend skip l0, p ≠ .aScan f hd tail cur took pend skip l0)
    (hs2 : ∀ f cur l0 seen, p ≠ .oScan f cur l0 seen) (hs3 : ∀ f g l0 seen, p ≠ .oUnlock f g l0 seen)
    (hs4 : ∀ f hd took skip l0, p ≠ .aUnlock f hd took skip l0)
    (hs5 : ∀ m k took rs, p ≠ .aNext m k took rs)
    (hs6 : ∀ m nx k took rs, p = .aResume m nx k took rs →
      k = rs.length ∧ rs = took.take k ∧ (∃ rest, took.drop k = m :: rest ∧ NChain s.node nx rest) ∧ took.Nodup)
    (hs7 : ∀ m nx k took rs, p ≠ .aFree m nx k took rs)
    (hs8 : ∀ m k took rs, p ≠ .aRead m k took rs)
    (hs9 : ∀ m v, p = .cTake m v → (s.box m).used = true ∧ v ≤ (s.box m).ver ∧
      ((s.box m).ver = v → (s.box m).taken = false → (s.box m).pub = true))
    (hos : ∀ f hd tail cur took pend skip l0, s.pc a ≠ .aScan f hd tail cur took pend skip l0) :
    Inv (s.setPc a p) := by
  have hI' := hI
  obtain ⟨kindC, kindF, lockOk, frWait, freshOk, freshUniq, freshVer, freshVerT, freshNode, wFreeTaken, preOk, postOk, ownOk, rsmTaken,
    freeTaken, pubNode, waiting, parked, listOk, scanOk, prevOk, placed, freshHolder, scanL0, unlockL0, oScanOk, oNoneOk, aUnlockOk, aNextOk, aResumeOk, aFreeOk,
    noRead, cTakeOk, cRemoveOk, allocUsed, noBad⟩ := hI
  constructor
  case kindC => inv_auto
  case kindF => inv_auto
  case lockOk => inv_auto
  case frWait => inv_auto
  case freshOk => inv_auto
  case freshUniq => inv_auto
  case freshVer => inv_auto
  case freshVerT => inv_auto
  case freshNode => inv_auto
  case wFreeTaken => inv_auto
  case preOk => inv_auto
  case postOk => inv_auto
  case ownOk => inv_auto
  case rsmTaken => inv_auto
  case freeTaken => inv_auto
  case pubNode => inv_auto
  case waiting => inv_auto
  case parked => inv_auto
  case listOk =>
    refine ListOk.transfer (s := s) (s' := s.setPc a p) rfl rfl rfl ?_ listOk
    intro f m _ h
    unfold MemOk CancelPending at *
    inv_simp
    grind [updA]
  case scanOk =>
    refine ScanOk.transfer (s := s) (s' := s.setPc a p) rfl rfl ?_ ?_ scanOk
    · inv_simp; grind [updA]
    · intro b f hd tail cur took pend skip l0 m _ _ h
      unfold MemOk CancelPending at *
      inv_simp
      grind [updA]
  case prevOk =>
    refine PrevOk.transfer (s := s) (s' := s.setPc a p) rfl rfl ?_ ?_ ?_ prevOk
    · inv_simp; grind
    · inv_simp; grind [updA, Pc.pend, Pc.locks]
    · inv_simp; grind [updA]
  case placed => inv_auto
  case freshHolder => inv_auto
  case scanL0 => unfold ScanL0 at *; inv_auto
  case unlockL0 => unfold ScanL0 UnlockL0 at *; inv_auto
  case oScanOk => inv_auto
  case oNoneOk => inv_auto
  case aUnlockOk => inv_auto
  case aNextOk => inv_auto
  case aResumeOk => inv_auto
  case aFreeOk => inv_auto
  case noRead => inv_auto
  case cTakeOk => inv_auto
  case cRemoveOk => inv_auto
  case allocUsed => inv_auto
  case noBad => inv_auto

end Babylon.Coro
