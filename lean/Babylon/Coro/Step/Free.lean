/-
  Preservation of `Inv` by `finish_released` followed by the return of the call
  (`oFree`, `cFree`, last `aFree`), and by `aFree` followed by the next iteration.
-/
import Babylon.Coro.InvTac
namespace Babylon.Coro
open Babylon.Core

theorem MemOk.free {s : State} {a : Actor} {n f m : Nat} {p : Pc} (hp : (s.pc a).post = some n)
    (hpost : (s.box n).own = some a) (hpost2 : (s.box n).taken = true)
    (_hq : ∀ x g, p ≠ .cLock x ∧ p ≠ .cRemove x g)
    (h : MemOk s f m) : MemOk ((s.free n).setPc a p) f m := by
  unfold MemOk CancelPending at *
  inv_simp
  grind [updA, upd, Pc.post]

set_option maxHeartbeats 1000000 in
/-- generic form: the actor's pc has `post = some n`, holds nothing else, and moves to a pc `p` that
holds the same `pre` slots and nothing else -/
theorem Inv.free {s : State} (hI : Inv s) {a : Actor} {n : Nat} {p : Pc} (hp : (s.pc a).post = some n)
    (hl : (s.pc a).locks = none) (hw : (s.pc a).isWait = false) (hpd : (s.pc a).pend = [])
    (hpw : p.isWait = false) (hpf : p.fresh = none) (hppre : p.pre = (s.pc a).pre) (hppost : p.post = none)
    (hpl : p.locks = none) (hppd : p.pend = [])
    (hq : ∀ x g, p ≠ .cLock x ∧ p ≠ .cRemove x g ∧ p ≠ .cResume x ∧ p ≠ .cFree x)
    (hshape : (∀ f hd tail cur took pend skip l0, p ≠ .aScan f hd tail cur took pend skip l0) ∧
      (∀ f cur l0 seen, p ≠ .oScan f cur l0 seen) ∧ (∀ f g l0 seen, p ≠ .oUnlock f g l0 seen) ∧
      (∀ f hd took skip l0, p ≠ .aUnlock f hd took skip l0) ∧
      (∀ m k took rs, p = .aNext m k took rs → k = rs.length ∧ rs = took.take k ∧ NChain s.node (some m) (took.drop k) ∧ took.Nodup) ∧
      (∀ m nx k took rs, p ≠ .aResume m nx k took rs) ∧ (∀ m nx k took rs, p ≠ .aFree m nx k took rs) ∧
      (∀ m k took rs, p ≠ .aRead m k took rs) ∧ (∀ m v, p ≠ .cTake m v)) :
    Inv ((s.free n).setPc a p) := by
  have hpost := hI.postOk a n hp
  have hI' := hI
  obtain ⟨kindC, kindF, lockOk, frWait, freshOk, freshUniq, freshVer, freshVerT, freshNode, wFreeTaken, preOk, postOk, ownOk, rsmTaken,
    freeTaken, pubNode, waiting, parked, listOk, scanOk, prevOk, placed, freshHolder, scanL0, unlockL0, oScanOk, oNoneOk, aUnlockOk, aNextOk, aResumeOk, aFreeOk,
    noRead, cTakeOk, cRemoveOk, allocUsed, noBad⟩ := hI
  obtain ⟨hs1, hs2, hs3, hs4, hs5, hs6, hs7, hs8, hs9⟩ := hshape
  constructor
  case kindC => inv_auto
  case kindF => inv_auto
  case lockOk => inv_auto
  case frWait => inv_auto
  case freshOk => inv_auto
  case freshUniq => inv_auto
  case freshVer => inv_auto
  case freshVerT => inv_auto
  case freshNode => inv_auto
  case wFreeTaken => inv_auto
  case preOk => inv_auto
  case postOk => inv_auto
  case ownOk => inv_auto
  case rsmTaken => inv_auto
  case freeTaken => inv_auto
  case pubNode => inv_auto
  case waiting => inv_auto
  case parked => inv_auto
  case listOk =>
    exact ListOk.transfer (s := s) (s' := (s.free n).setPc a p) rfl rfl rfl (fun f m _ h => h.free hp hpost.2.2.1 hpost.2.1 (fun x g => ⟨(hq x g).1, (hq x g).2.1⟩)) listOk
  case scanOk =>
    refine ScanOk.transfer (s := s) (s' := (s.free n).setPc a p) rfl rfl ?_ (fun b f hd tail cur took pend skip l0 m _ _ h => h.free hp hpost.2.2.1 hpost.2.1 (fun x g => ⟨(hq x g).1, (hq x g).2.1⟩)) scanOk
    intro b f hd tail cur took pend skip l0
    inv_simp
    grind [updA]
  case prevOk =>
    refine PrevOk.transfer (s := s) (s' := (s.free n).setPc a p) rfl rfl ?_ ?_ ?_ prevOk
    · inv_simp; grind [upd]
    · inv_simp; grind [upd, updA, Pc.pend, Pc.locks]
    · inv_simp; grind [upd, updA, Pc.post]
  case placed => inv_auto
  case freshHolder => inv_auto
  case scanL0 => unfold ScanL0 at *; inv_auto
  case unlockL0 => unfold ScanL0 UnlockL0 at *; inv_auto
  case oScanOk => inv_auto
  case oNoneOk => inv_auto
  case aUnlockOk => inv_auto
  case aNextOk => inv_auto
  case aResumeOk => inv_auto
  case aFreeOk => inv_auto
  case noRead => inv_auto
  case cTakeOk => inv_auto
  case cRemoveOk => inv_auto
  case allocUsed => inv_auto
  case noBad => inv_auto

end Babylon.Coro
