/-
  Preservation of `Inv` by the construction of the node in a freshly emplaced slot (`wCons`).
-/
import Babylon.Coro.InvTac
namespace Babylon.Coro
open Babylon.Core

set_option maxHeartbeats 4000000 in
theorem Inv.wCons {s : State} (hI : Inv s) {h f v n ver : Nat} (hp : s.pc (.fr h) = .wCons f v n ver) :
    Inv (({ s with node := upd s.node n { prev := .null, next := none, fut := f, ver := ver, h := h } }).setPc (.fr h) (.wLock f v n ver)) := by
  have hI' := hI
  have hfo := hI.freshOk h n (by simp [hp, Pc.fresh])
  have hnpre : ∀ b, n ∉ (s.pc b).pre := by
    intro b hb
    have := (hI.preOk b n hb).2.2.2.1
    rw [hfo.2.1] at this; cases this
  obtain ⟨kindC, kindF, lockOk, frWait, freshOk, freshUniq, freshVer, freshVerT, freshNode, wFreeTaken, preOk, postOk, ownOk, rsmTaken,
    freeTaken, pubNode, waiting, parked, listOk, scanOk, prevOk, placed, freshHolder, scanL0, unlockL0, oScanOk, oNoneOk, aUnlockOk, aNextOk, aResumeOk, aFreeOk,
    noRead, cTakeOk, cRemoveOk, allocUsed, noBad⟩ := hI
  have hmem : ∀ g m, MemOk s g m → m ≠ n →
      MemOk (({ s with node := upd s.node n { prev := .null, next := none, fut := f, ver := ver, h := h } }).setPc (.fr h) (.wLock f v n ver)) g m := by
    intro g m hm hne
    unfold MemOk CancelPending at *
    inv_simp
    grind [updA, upd]
  constructor
  case kindC => inv_auto
  case kindF => inv_auto
  case lockOk => inv_auto
  case frWait => inv_auto
  case freshOk => inv_auto
  case freshUniq => inv_auto
  case freshVer => inv_auto
  case freshVerT => inv_auto
  case freshNode => inv_auto
  case wFreeTaken => inv_auto
  case preOk => inv_auto
  case postOk => inv_auto
  case ownOk => inv_auto
  case rsmTaken => inv_auto
  case freeTaken => inv_auto
  case pubNode => inv_auto
  case waiting => inv_auto
  case parked => inv_auto
  case listOk =>
    intro g
    obtain ⟨c1, c2, c3⟩ := listOk g
    refine ⟨?_, c2, ?_⟩
    · exact Chain.upd_notin (hfo.2.2.1 g) c1
    · intro m hm
      exact hmem g m (c3 m hm) (fun e => hfo.2.2.1 g (e ▸ hm))
  case scanOk =>
    intro b g hd tail cur took pend skip l0 hb
    have hb' : s.pc b = .aScan g hd tail cur took pend skip l0 := by revert hb; inv_simp; grind [updA]
    obtain ⟨h1, h2, h3, h4, h5, h6, h7⟩ := scanOk b g hd tail cur took pend skip l0 hb'
    have hnt' : n ∉ took ++ pend := by
      intro e
      rcases List.mem_append.mp e with e | e
      · exact hnpre b (by simp [hb', Pc.pre, e])
      · have := (h6 n e).2.1; rw [hfo.2.1] at this; cases this
    refine ⟨h1, NChain.upd_notin hnt' h2, h3, h4, h5, ?_, ?_⟩
    · intro m hm
      exact hmem g m (h6 m hm) (fun e => hnt' (by simp [← e, hm]))
    · intro m hm
      have hmn : m ≠ n := fun e => hnt' (by simp [← e, hm])
      inv_simp
      rw [upd_other _ _ hmn]
      exact h7 m hm
  case prevOk =>
    intro m
    have hold := prevOk m
    by_cases hmn : m = n
    · subst hmn
      inv_simp
      intro _ hpub
      rw [hfo.2.1] at hpub; cases hpub
    · revert hold
      inv_simp
      simp only [upd_other _ _ hmn]
      grind [updA, upd, Pc.pend, Pc.locks]
  case placed => inv_auto
  case freshHolder => inv_auto
  case scanL0 => unfold ScanL0 at *; inv_auto
  case unlockL0 => unfold ScanL0 UnlockL0 at *; inv_auto
  case oScanOk => inv_auto
  case oNoneOk => inv_auto
  case aUnlockOk =>
    intro b g hd took skip l0 hb
    have hb' : s.pc b = .aUnlock g hd took skip l0 := by revert hb; inv_simp; grind [updA]
    obtain ⟨h1, h2, h3⟩ := aUnlockOk b g hd took skip l0 hb'
    have hnt' : n ∉ took := fun e => hnpre b (by simp [hb', Pc.pre, e])
    exact ⟨h1, NChain.upd_notin hnt' h2, h3⟩
  case aNextOk =>
    intro b m k took rs hb
    have hb' : s.pc b = .aNext m k took rs := by revert hb; inv_simp; grind [updA]
    obtain ⟨h1, h2, h3, h4⟩ := aNextOk b m k took rs hb'
    have hnt' : n ∉ took.drop k := fun e => hnpre b (by simp [hb', Pc.pre, ← h1, e])
    exact ⟨h1, h2, NChain.upd_notin hnt' h3, h4⟩
  case aResumeOk =>
    intro b m nx k took rs hb
    have hb' : s.pc b = .aResume m nx k took rs := by revert hb; inv_simp; grind [updA]
    obtain ⟨h1, h2, ⟨rest, h3, h3'⟩, h4⟩ := aResumeOk b m nx k took rs hb'
    have hnt' : n ∉ rest := fun e => hnpre b (by simp [hb', Pc.pre, ← h1, h3, e])
    exact ⟨h1, h2, ⟨rest, h3, NChain.upd_notin hnt' h3'⟩, h4⟩
  case aFreeOk =>
    intro b m nx k took rs hb
    have hb' : s.pc b = .aFree m nx k took rs := by revert hb; inv_simp; grind [updA]
    obtain ⟨h1, h2, h3, h4, h5⟩ := aFreeOk b m nx k took rs hb'
    have hnt' : n ∉ took.drop (k + 1) := fun e => hnpre b (by simp [hb', Pc.pre, h1, e])
    exact ⟨h1, h2, NChain.upd_notin hnt' h3, h4, h5⟩
  case noRead => inv_auto
  case cTakeOk => inv_auto
  case cRemoveOk => inv_auto
  case allocUsed => inv_auto
  case noBad => inv_auto

end Babylon.Coro
