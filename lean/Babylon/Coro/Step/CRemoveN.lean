/-
  Preservation of `Inv` by `remove_awaiter` + unlock of the canceller (`cRemove`) when the node is
  already unlinked (`prev == nullptr`).
-/
import Babylon.Coro.Step.CRemoveFacts
namespace Babylon.Coro
open Babylon.Core

set_option maxHeartbeats 20000000 in
theorem Inv.cRemoveN {s : State} (hI : Inv s) {a : Actor} {n f : Nat} (hp : s.pc a = .cRemove n f)
    (hnull : (s.node n).prev = .null) :
    Inv (({ s with lock := upd s.lock f none }).setPc a (.cResume n)) := by
  have hI' := hI
  have hpre := hI.preOk a n (by simp [hp, Pc.pre])
  have hla : s.lock f = some a := (hI.lockOk f a).2 (by simp [hp, Pc.locks])
  have hfut := hI.cRemoveOk a n f hp
  have hcl : ∀ h, a ≠ .fr h := by
    intro h e; subst e
    rcases hI.kindF h with h1 | h1 <;> simp [hp, Pc.isWait] at h1
  obtain ⟨kindC, kindF, lockOk, frWait, freshOk, freshUniq, freshVer, freshVerT, freshNode, wFreeTaken, preOk, postOk, ownOk, rsmTaken,
    freeTaken, pubNode, waiting, parked, listOk, scanOk, prevOk, placed, oScanOk, oNoneOk, aUnlockOk, aNextOk, aResumeOk, aFreeOk,
    noRead, cTakeOk, cRemoveOk, allocUsed, noBad⟩ := hI
  have hng : n ∉ s.glist f := by
    intro e
    exact Chain.prev_ne_null (listOk f).1 (by simp) n e hnull
  have hmem : ∀ g m, MemOk s g m → m ≠ n → MemOk (({ s with lock := upd s.lock f none }).setPc a (.cResume n)) g m := by
    intro g m hm hmn
    unfold MemOk CancelPending at *
    inv_simp
    grind [updA]
  constructor
  case kindC => first | (inv_auto; done) | (trace "FAIL kindC"; sorry)
  case kindF => first | (inv_auto; done) | (trace "FAIL kindF"; sorry)
  case lockOk => first | (inv_auto; done) | (trace "FAIL lockOk"; sorry)
  case frWait => first | (inv_auto; done) | (trace "FAIL frWait"; sorry)
  case freshOk => first | (inv_auto; done) | (trace "FAIL freshOk"; sorry)
  case freshUniq => first | (inv_auto; done) | (trace "FAIL freshUniq"; sorry)
  case freshVer => first | (inv_auto; done) | (trace "FAIL freshVer"; sorry)
  case freshVerT => first | (inv_auto; done) | (trace "FAIL freshVerT"; sorry)
  case freshNode => first | (inv_auto; done) | (trace "FAIL freshNode"; sorry)
  case wFreeTaken => first | (inv_auto; done) | (trace "FAIL wFreeTaken"; sorry)
  case preOk => first | (inv_auto; done) | (trace "FAIL preOk"; sorry)
  case postOk => first | (inv_auto; done) | (trace "FAIL postOk"; sorry)
  case ownOk => first | (inv_auto; done) | (trace "FAIL ownOk"; sorry)
  case rsmTaken => first | (inv_auto; done) | (trace "FAIL rsmTaken"; sorry)
  case freeTaken => first | (inv_auto; done) | (trace "FAIL freeTaken"; sorry)
  case pubNode => first | (inv_auto; done) | (trace "FAIL pubNode"; sorry)
  case waiting => first | (inv_auto; done) | (trace "FAIL waiting"; sorry)
  case parked => first | (inv_auto; done) | (trace "FAIL parked"; sorry)
  case listOk =>
    refine ListOk.transfer (s := s) (s' := (({ s with lock := upd s.lock f none }).setPc a (.cResume n))) rfl rfl rfl ?_ listOk
    intro g m hmg h
    refine hmem g m h ?_
    intro e; subst e
    have : g = f := h.2.2.1.symm.trans hfut
    subst this
    exact hng hmg
  case scanOk =>
    refine ScanOk.transfer (s := s) (s' := (({ s with lock := upd s.lock f none }).setPc a (.cResume n))) rfl rfl ?_ ?_ scanOk
    · inv_simp; grind [updA]
    · intro b g hd tail cur took pend skip l0 m hb _ h
      refine hmem g m h ?_
      intro e; subst e
      have : g = f := h.2.2.1.symm.trans hfut
      subst this
      have := (lockOk g b).2 (by simp [hb, Pc.locks])
      rw [hla] at this; injection this with this; subst this
      rw [hp] at hb; cases hb
  case prevOk =>
    refine PrevOk.transfer (s := s) (s' := (({ s with lock := upd s.lock f none }).setPc a (.cResume n))) rfl rfl ?_ ?_ ?_ prevOk
    · inv_simp; grind
    · inv_simp; grind [updA, upd, Pc.pend, Pc.locks]
    · inv_simp; grind [updA]
  case placed => first | (inv_auto; done) | (trace "FAIL placed"; sorry)
  case oScanOk => first | (inv_auto; done) | (trace "FAIL oScanOk"; sorry)
  case oNoneOk => first | (inv_auto; done) | (trace "FAIL oNoneOk"; sorry)
  case aUnlockOk => first | (inv_auto; done) | (trace "FAIL aUnlockOk"; sorry)
  case aNextOk => first | (inv_auto; done) | (trace "FAIL aNextOk"; sorry)
  case aResumeOk => first | (inv_auto; done) | (trace "FAIL aResumeOk"; sorry)
  case aFreeOk => first | (inv_auto; done) | (trace "FAIL aFreeOk"; sorry)
  case noRead => first | (inv_auto; done) | (trace "FAIL noRead"; sorry)
  case cTakeOk => first | (inv_auto; done) | (trace "FAIL cTakeOk"; sorry)
  case cRemoveOk => first | (inv_auto; done) | (trace "FAIL cRemoveOk"; sorry)
  case allocUsed => first | (inv_auto; done) | (trace "FAIL allocUsed"; sorry)
  case noBad => first | (inv_auto; done) | (trace "FAIL noBad"; sorry)

end Babylon.Coro
