/-
  Preservation of `Inv` by `remove_awaiter` + unlock of the canceller (`cRemove`) when the node is
  already unlinked (`prev == nullptr`).
-/
import Babylon.Coro.Step.CRemoveFacts
namespace Babylon.Coro
open Babylon.Core

set_option maxHeartbeats 20000000 in
theorem Inv.cRemoveN {s : State} (hI : Inv s) {a : Actor} {n f : Nat} (hp : s.pc a = .cRemove n f)
    (hnull : (s.node n).prev = .null) :
    Inv (({ s with lock := upd s.lock f none }).setPc a (.cResume n)) := by
  have hI' := hI
  have hpre := hI.preOk a n (by simp [hp, Pc.pre])
  have hla : s.lock f = some a := (hI.lockOk f a).2 (by simp [hp, Pc.locks])
  have hfut := hI.cRemoveOk a n f hp
  have hcl : ∀ h, a ≠ .fr h := by
    intro h e; subst e
    rcases hI.kindF h with h1 | h1 <;> simp [hp, Pc.isWait] at h1
  obtain ⟨kindC, kindF, lockOk, frWait, freshOk, freshUniq, freshVer, freshVerT, freshNode, wFreeTaken, preOk, postOk, ownOk, rsmTaken,
    freeTaken, pubNode, waiting, parked, listOk, scanOk, prevOk, placed, freshHolder, scanL0, unlockL0, oScanOk, oNoneOk, aUnlockOk, aNextOk, aResumeOk, aFreeOk,
    noRead, cTakeOk, cRemoveOk, allocUsed, noBad⟩ := hI
  have hng : n ∉ s.glist f := by
    intro e
    exact Chain.prev_ne_null (listOk f).1 (by simp) n e hnull
  have hmem : ∀ g m, MemOk s g m → m ≠ n → MemOk (({ s with lock := upd s.lock f none }).setPc a (.cResume n)) g m := by
    intro g m hm hmn
    unfold MemOk CancelPending at *
    inv_simp
    grind [updA]
  constructor
  case kindC => inv_auto
  case kindF => inv_auto
  case lockOk => inv_auto
  case frWait => inv_auto
  case freshOk => inv_auto
  case freshUniq => inv_auto
  case freshVer => inv_auto
  case freshVerT => inv_auto
  case freshNode => inv_auto
  case wFreeTaken => inv_auto
  case preOk => inv_auto
  case postOk => inv_auto
  case ownOk => inv_auto
  case rsmTaken => inv_auto
  case freeTaken => inv_auto
  case pubNode => inv_auto
  case waiting => inv_auto
  case parked => inv_auto
  case listOk =>
    refine ListOk.transfer (s := s) (s' := (({ s with lock := upd s.lock f none }).setPc a (.cResume n))) rfl rfl rfl ?_ listOk
    intro g m hmg h
    refine hmem g m h ?_
    intro e; subst e
    have : g = f := h.2.2.1.symm.trans hfut
    subst this
    exact hng hmg
  case scanOk =>
    refine ScanOk.transfer (s := s) (s' := (({ s with lock := upd s.lock f none }).setPc a (.cResume n))) rfl rfl ?_ ?_ scanOk
    · inv_simp; grind [updA]
    · intro b g hd tail cur took pend skip l0 m hb _ h
      refine hmem g m h ?_
      intro e; subst e
      have : g = f := h.2.2.1.symm.trans hfut
      subst this
      have := (lockOk g b).2 (by simp [hb, Pc.locks])
      rw [hla] at this; injection this with this; subst this
      rw [hp] at hb; cases hb
  case prevOk =>
    refine PrevOk.transfer (s := s) (s' := (({ s with lock := upd s.lock f none }).setPc a (.cResume n))) rfl rfl ?_ ?_ ?_ prevOk
    · inv_simp; grind
    · inv_simp; grind [updA, upd, Pc.pend, Pc.locks]
    · inv_simp; grind [updA]
  case placed => inv_auto
  case freshHolder => inv_auto
  case scanL0 => unfold ScanL0 at *; inv_auto
  case unlockL0 => unfold ScanL0 UnlockL0 at *; inv_auto
  case oScanOk => inv_auto
  case oNoneOk => inv_auto
  case aUnlockOk => inv_auto
  case aNextOk => inv_auto
  case aResumeOk => inv_auto
  case aFreeOk => inv_auto
  case noRead => inv_auto
  case cTakeOk => inv_auto
  case cRemoveOk => inv_auto
  case allocUsed => inv_auto
  case noBad => inv_auto

end Babylon.Coro
