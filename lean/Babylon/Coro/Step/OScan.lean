/-
  Preservation of `Inv` by one iteration of the scan of `wake_one`: unlink the first node, try to
  take it.
-/
import Babylon.Coro.InvTac
import Babylon.Coro.ListLemmas
namespace Babylon.Coro
open Babylon.Core

theorem unlinkNodes_next (node : Nat → Node) (f cur m : Nat) :
    (unlinkNodes node f cur m).next = if m = cur then none else (node m).next := by
  unfold unlinkNodes
  cases h : (node cur).next <;> grind [upd]

theorem unlinkNodes_prev (node : Nat → Node) (f cur m : Nat) :
    (unlinkNodes node f cur m).prev = if m = cur then .null else if (node cur).next = some m then .head f else (node m).prev := by
  unfold unlinkNodes
  cases h : (node cur).next <;> grind [upd]

theorem unlinkNodes_rest (node : Nat → Node) (f cur m : Nat) :
    (unlinkNodes node f cur m).fut = (node m).fut ∧ (unlinkNodes node f cur m).ver = (node m).ver ∧
    (unlinkNodes node f cur m).h = (node m).h := by
  unfold unlinkNodes
  cases h : (node cur).next <;> grind [upd]

theorem unlinkNodes_other (node : Nat → Node) (f cur m : Nat) (h1 : m ≠ cur) (h2 : (node cur).next ≠ some m) :
    unlinkNodes node f cur m = node m := by
  unfold unlinkNodes
  cases h : (node cur).next <;> grind [upd]

theorem unlinkFirst_node (s : State) (f cur : Nat) : (s.unlinkFirst f cur).node = unlinkNodes s.node f cur := by
  unfold State.unlinkFirst unlinkNodes
  cases h : (s.node cur).next <;> simp [State.setPrev]
theorem unlinkFirst_hnext (s : State) (f cur : Nat) : (s.unlinkFirst f cur).hnext = upd s.hnext f (s.node cur).next := by
  unfold State.unlinkFirst; cases h : (s.node cur).next <;> rfl
theorem unlinkFirst_glist (s : State) (f cur : Nat) : (s.unlinkFirst f cur).glist = upd s.glist f ((s.glist f).erase cur) := by
  unfold State.unlinkFirst; cases h : (s.node cur).next <;> rfl
theorem unlinkFirst_box (s : State) (f cur : Nat) : (s.unlinkFirst f cur).box = s.box := by
  unfold State.unlinkFirst; cases h : (s.node cur).next <;> rfl
theorem unlinkFirst_lock (s : State) (f cur : Nat) : (s.unlinkFirst f cur).lock = s.lock := by
  unfold State.unlinkFirst; cases h : (s.node cur).next <;> rfl
theorem unlinkFirst_pc (s : State) (f cur : Nat) : (s.unlinkFirst f cur).pc = s.pc := by
  unfold State.unlinkFirst; cases h : (s.node cur).next <;> rfl
theorem unlinkFirst_fr (s : State) (f cur : Nat) : (s.unlinkFirst f cur).fr = s.fr := by
  unfold State.unlinkFirst; cases h : (s.node cur).next <;> rfl
theorem unlinkFirst_bad (s : State) (f cur : Nat) : (s.unlinkFirst f cur).bad = s.bad := by
  unfold State.unlinkFirst; cases h : (s.node cur).next <;> rfl
theorem unlinkFirst_wslot (s : State) (f cur : Nat) : (s.unlinkFirst f cur).wslot = s.wslot := by
  unfold State.unlinkFirst; cases h : (s.node cur).next <;> rfl

theorem NChain.unlinkNodes {node : Nat → Node} {f cur : Nat} {first : Option Nat} {l : List Nat}
    (hn : cur ∉ l) (h : NChain node first l) : NChain (unlinkNodes node f cur) first l :=
  NChain.congr (fun x hx => by
    rw [unlinkNodes_next]
    have : x ≠ cur := fun e => hn (e ▸ hx)
    simp [this]) h

macro "ul_simp" : tactic => `(tactic|
  simp only [setPc_pc, setPc_box, setPc_node, setPc_lock, setPc_fr, setPc_glist, setPc_hnext, setPc_wslot, setPc_bad,
    unlinkFirst_node, unlinkFirst_hnext, unlinkFirst_glist, unlinkFirst_box, unlinkFirst_lock, unlinkFirst_pc, unlinkFirst_fr,
    unlinkFirst_bad, unlinkFirst_wslot])
macro "ul_auto" : tactic => `(tactic| (ul_simp; grind (instances := 4000) (splits := 20) [updA, upd, Pc.isWait, Pc.fresh, Pc.pre, Pc.post, Pc.locks, Pc.pend,
  unlinkNodes_next, unlinkNodes_prev, unlinkNodes_rest, unlinkNodes_other, MemOk, CancelPending]))

/-- facts about the scan position of `wake_one` -/
theorem Inv.oScan_facts {s : State} (hI : Inv s) {a : Actor} {f cur : Nat} {l0 seen : List Nat}
    (hp : s.pc a = .oScan f cur l0 seen) :
    s.lock f = some a ∧ (∃ rest, s.glist f = cur :: rest ∧ cur ∉ rest ∧ rest.Nodup ∧ (s.glist f).erase cur = rest) ∧
    MemOk s f cur ∧ (∀ g, g ≠ f → cur ∉ s.glist g) ∧ (∀ y, (s.node cur).next = some y → y ∈ s.glist f ∧ y ≠ cur) := by
  have hlk : s.lock f = some a := (hI.lockOk f a).2 (by simp [hp, Pc.locks])
  obtain ⟨hhn, _⟩ := hI.oScanOk a f cur l0 seen hp
  obtain ⟨c1, c2, c3⟩ := hI.listOk f
  have hh := c1.head
  rw [hhn] at hh
  cases hg : s.glist f with
  | nil => rw [hg] at hh; cases hh
  | cons x rest =>
    rw [hg] at hh c1 c2 c3
    have hx : x = cur := by simpa using hh.symm
    subst hx
    have hnd := List.nodup_cons.mp c2
    refine ⟨hlk, ⟨rest, rfl, hnd.1, hnd.2, by simp⟩, c3 x (by simp), ?_, ?_⟩
    · intro g hgf hm
      have h1 := ((hI.listOk g).2.2 x hm).2.2.1
      have h2 := (c3 x (by simp)).2.2.1
      exact hgf (h1.symm.trans h2)
    · intro y hy
      have := NChain.next_mem c1.toN x (by simp) y hy
      refine ⟨this, ?_⟩
      intro e; subst e
      -- `cur.next = cur` contradicts the chain: the successor of the head is in `rest`
      have h3 := c1.2.2
      rw [hy] at h3
      cases rest with
      | nil => cases h3
      | cons z zs => have := h3.1; injection this with this; subst this; exact hnd.1 (by simp)

set_option maxHeartbeats 20000000 in
/-- the take succeeds -/
theorem Inv.oScanT {s : State} (hI : Inv s) {a : Actor} {f cur : Nat} {l0 seen : List Nat}
    (hp : s.pc a = .oScan f cur l0 seen) (hnt : (s.box cur).taken = false) :
    Inv (({ s.unlinkFirst f cur with box := upd (s.unlinkFirst f cur).box cur { (s.unlinkFirst f cur).box cur with taken := true, own := some a } }).setPc a
      (.oUnlock f (some cur) l0 seen)) := by
  have hI' := hI
  obtain ⟨hlk, ⟨rest, hgl, hcr, hrnd, hers⟩, hcur, hcg, hnx⟩ := hI.oScan_facts hp
  obtain ⟨hhn, hl0⟩ := hI.oScanOk a f cur l0 seen hp
  have hcl : ∀ h, a ≠ .fr h := by
    intro h e; subst e
    rcases hI.kindF h with h1 | h1 <;> simp [hp, Pc.isWait] at h1
  have hcfresh : ∀ h, (s.pc (.fr h)).fresh ≠ some cur := by
    intro h e
    have := (hI.freshOk h cur e).2.1
    rw [hcur.2.1] at this; cases this
  have hyfresh : ∀ h y, (s.node cur).next = some y → (s.pc (.fr h)).fresh ≠ some y := by
    intro h y hy e
    exact (hI.freshOk h y e).2.2.1 f (hnx y hy).1
  have hrsm : (s.box cur).taken = false → (s.box cur).rsm = false := by
    intro hnt
    cases hr : (s.box cur).rsm
    · rfl
    · have := hI.rsmTaken cur hcur.1 hr; rw [hnt] at this; cases this
  have hpn := hI.pubNode cur hcur.1 hcur.2.1
  have hcur1 := hcur.1
  have hcur2 := hcur.2.1
  have hcur3 := hcur.2.2.1
  -- chains of takers never contain a linked node of `f` other than through a canceller
  have hpre_glist : ∀ b m, m ∈ (s.pc b).pre → m ∈ s.glist f → s.pc b = .cLock m ∨ s.pc b = .cRemove m (s.node m).fut := by
    intro b m hm hg
    have h1 := hI.preOk b m hm
    obtain ⟨c, hc1, hc2⟩ := ((hI.listOk f).2.2 m hg).2.2.2 h1.2.1
    rw [h1.2.2.1] at hc1; injection hc1 with hc1; subst hc1; exact hc2
  obtain ⟨kindC, kindF, lockOk, frWait, freshOk, freshUniq, freshVer, freshVerT, freshNode, wFreeTaken, preOk, postOk, ownOk, rsmTaken,
    freeTaken, pubNode, waiting, parked, listOk, scanOk, prevOk, placed, freshHolder, scanL0, unlockL0, oScanOk, oNoneOk, aUnlockOk, aNextOk, aResumeOk, aFreeOk,
    noRead, cTakeOk, cRemoveOk, allocUsed, noBad⟩ := hI
  have hmem : ∀ g m, MemOk s g m → m ≠ cur →
      MemOk (({ s.unlinkFirst f cur with box := upd (s.unlinkFirst f cur).box cur { (s.unlinkFirst f cur).box cur with taken := true, own := some a } }).setPc a
        (.oUnlock f (some cur) l0 seen)) g m := by
    intro g m hm hne
    unfold MemOk CancelPending at *
    ul_simp
    have := unlinkNodes_rest s.node f cur m
    grind [updA, upd]
  constructor
  case kindC => ul_auto
  case kindF => ul_auto
  case lockOk => ul_auto
  case frWait => ul_auto
  case freshOk => ul_auto
  case freshUniq => ul_auto
  case freshVer => ul_auto
  case freshVerT => ul_auto
  case freshNode =>
    intro h' f' v' n' ver' hh
    have hpc : s.pc (.fr h') = .wLock f' v' n' ver' ∨ ∃ m, s.pc (.fr h') = .wLink f' v' n' ver' m := by
      revert hh; ul_simp
      have : Actor.fr h' ≠ a := fun e => hcl h' e.symm
      simp [updA, this]
    have hold := freshNode h' f' v' n' ver' hpc
    have hfr : (s.pc (.fr h')).fresh = some n' := by rcases hpc with e | ⟨m, e⟩ <;> simp [e, Pc.fresh]
    have h1 : n' ≠ cur := fun e => hcfresh h' (e ▸ hfr)
    have h2 : (s.node cur).next ≠ some n' := fun e => hyfresh h' n' e hfr
    ul_simp
    rw [unlinkNodes_other _ _ _ _ h1 h2]
    exact hold
  case wFreeTaken => ul_auto
  case preOk =>
    have hr := hrsm hnt
    have hc1 := hcur.1
    have hc2 := hcur.2.1
    ul_auto
  case postOk => ul_auto
  case ownOk => ul_auto
  case rsmTaken => ul_auto
  case freeTaken => ul_auto
  case pubNode => ul_auto
  case waiting => ul_auto
  case parked => ul_auto
  case listOk =>
    intro g
    obtain ⟨c1, c2, c3⟩ := listOk g
    by_cases hg : g = f
    · subst hg
      rw [hgl] at c1 c2 c3
      refine ⟨?_, ?_, ?_⟩
      · ul_simp; simp only [upd_same, hers]; exact Chain.unlinkFirst c1 c2
      · ul_simp; simp only [upd_same, hers]; exact hrnd
      · intro m hm
        have hm' : m ∈ rest := by revert hm; ul_simp; simp only [upd_same, hers]; exact id
        exact hmem g m (c3 m (by simp [hm'])) (fun e => hcr (e ▸ hm'))
    · refine ⟨?_, ?_, ?_⟩
      · ul_simp; simp only [upd_other _ _ hg]
        refine Chain.congr ?_ c1
        intro m hm
        have h1 : m ≠ cur := fun e => hcg g hg (e ▸ hm)
        have h2 : (s.node cur).next ≠ some m := by
          intro e
          have hf1 := ((listOk f).2.2 m (hnx m e).1).2.2.1
          have hf2 := (c3 m hm).2.2.1
          exact hg (hf2.symm.trans hf1)
        exact unlinkNodes_other _ _ _ _ h1 h2
      · ul_simp; simp only [upd_other _ _ hg]; exact c2
      · intro m hm
        have hm' : m ∈ s.glist g := by revert hm; ul_simp; simp only [upd_other _ _ hg]; exact id
        exact hmem g m (c3 m hm') (fun e => hcg g hg (e ▸ hm'))
  case scanOk =>
    intro b g hd tail cur' took pend skip l0' hb
    have hba : b ≠ a := by intro e; subst e; revert hb; ul_simp; simp [updA]
    have hb' : s.pc b = .aScan g hd tail cur' took pend skip l0' := by revert hb; ul_simp; simp [updA, hba]
    obtain ⟨h1, h2, h3, h4, h5, h6, h7⟩ := scanOk b g hd tail cur' took pend skip l0' hb'
    have hgf : g ≠ f := by
      intro e; subst e
      have := (lockOk g b).2 (by simp [hb', Pc.locks])
      rw [hlk] at this; injection this with this; exact hba this.symm
    have hnotin : ∀ m, m ∈ s.glist f → m ∉ took ++ pend := by
      intro m hm e
      rcases List.mem_append.mp e with e | e
      · rcases hpre_glist b m (by simp [hb', Pc.pre, e]) hm with h' | h' <;> (rw [hb'] at h'; cases h')
      · have hf1 := ((listOk f).2.2 m hm).2.2.1
        exact hgf ((h6 m e).2.2.1.symm.trans hf1)
    have hcn : cur ∉ took ++ pend := hnotin cur (by simp [hgl])
    refine ⟨?_, ?_, h3, h4, h5, ?_, ?_⟩
    · ul_simp; simp [upd, hgf, h1]
    · ul_simp; exact NChain.unlinkNodes hcn h2
    · intro m hm
      exact hmem g m (h6 m hm) (fun e => hcn (by simp [← e, hm]))
    · intro m hm
      have h1' : m ≠ cur := fun e => hcn (by simp [← e, hm])
      have h2' : (s.node cur).next ≠ some m := fun e => hnotin m (hnx m e).1 (by simp [hm])
      ul_simp
      rw [unlinkNodes_other _ _ _ _ h1' h2']
      exact h7 m hm
  case prevOk =>
    intro m
    have hold := prevOk m
    have hr := unlinkNodes_rest s.node f cur m
    have hpv := unlinkNodes_prev s.node f cur m
    by_cases hmc : m = cur
    · subst hmc
      ul_simp
      intro _ _ hprev
      rw [hpv] at hprev
      simp at hprev
    · by_cases hmy : (s.node cur).next = some m
      · have hmg := (hnx m hmy).1
        have hmf := ((listOk f).2.2 m hmg).2.2.1
        intro _ _ _
        left
        ul_simp
        rw [hr.1, hmf]
        simp only [upd_same, hers]
        rw [hgl] at hmg
        rcases List.mem_cons.mp hmg with e | e
        · exact absurd e hmc
        · exact e
      · revert hold
        ul_simp
        simp only [hpv, hr.1, hmc, hmy, if_false]
        intro hold ha hpub hprev
        have ha' : (s.box m).alloc = true := by revert ha; simp [upd, hmc]
        have hpub' : (s.box m).pub = true := by revert hpub; simp [upd, hmc]
        rcases hold ha' hpub' hprev with h1 | ⟨b, h1, h2⟩ | ⟨c, h1, h2⟩
        · left
          by_cases hf : (s.node m).fut = f
          · rw [hf] at h1 ⊢
            simp only [upd_same, hers]
            rw [hgl] at h1
            rcases List.mem_cons.mp h1 with e | e
            · exact absurd e hmc
            · exact e
          · simp [upd, hf, h1]
        · right; left
          have hba : b ≠ a := by
            intro e; subst e
            rw [hp] at h2; simp [Pc.pend] at h2
          exact ⟨b, h1, by simp [updA, hba, h2]⟩
        · right; right
          have hca : c ≠ a := by
            intro e; subst e
            rcases h2 with h2 | h2 <;> (rw [hp] at h2; cases h2)
          exact ⟨c, by simp [upd, hmc, h1], by simp [updA, hca, h2]⟩
  case placed => ul_auto
  case freshHolder => ul_auto
  case scanL0 => unfold ScanL0 at *; ul_auto
  case unlockL0 => unfold ScanL0 UnlockL0 at *; ul_auto
  case oScanOk => ul_auto
  case oNoneOk => ul_auto
  case aUnlockOk =>
    intro b g hd took skip l0' hb
    have hba : b ≠ a := by intro e; subst e; revert hb; ul_simp; simp [updA]
    have hb' : s.pc b = .aUnlock g hd took skip l0' := by revert hb; ul_simp; simp [updA, hba]
    obtain ⟨h1, h2, h3⟩ := aUnlockOk b g hd took skip l0' hb'
    have hgf : g ≠ f := by
      intro e; subst e
      have := (lockOk g b).2 (by simp [hb', Pc.locks])
      rw [hlk] at this; injection this with this; exact hba this.symm
    have hcn : cur ∉ took := by
      intro e
      rcases hpre_glist b cur (by simp [hb', Pc.pre, e]) (by simp [hgl]) with h' | h' <;> (rw [hb'] at h'; cases h')
    ul_simp
    exact ⟨by simp [upd, hgf, h1], NChain.unlinkNodes hcn h2, h3⟩
  case aNextOk =>
    intro b m k took rs hb
    have hba : b ≠ a := by intro e; subst e; revert hb; ul_simp; simp [updA]
    have hb' : s.pc b = .aNext m k took rs := by revert hb; ul_simp; simp [updA, hba]
    obtain ⟨h1, h2, h3, h4⟩ := aNextOk b m k took rs hb'
    have hcn : cur ∉ took.drop k := by
      intro e
      rcases hpre_glist b cur (by simp [hb', Pc.pre, ← h1, e]) (by simp [hgl]) with h' | h' <;> (rw [hb'] at h'; cases h')
    ul_simp
    exact ⟨h1, h2, NChain.unlinkNodes hcn h3, h4⟩
  case aResumeOk =>
    intro b m nx k took rs hb
    have hba : b ≠ a := by intro e; subst e; revert hb; ul_simp; simp [updA]
    have hb' : s.pc b = .aResume m nx k took rs := by revert hb; ul_simp; simp [updA, hba]
    obtain ⟨h1, h2, ⟨rest', h3, h3'⟩, h4⟩ := aResumeOk b m nx k took rs hb'
    have hcn : cur ∉ rest' := by
      intro e
      rcases hpre_glist b cur (by simp [hb', Pc.pre, ← h1, h3, e]) (by simp [hgl]) with h' | h' <;> (rw [hb'] at h'; cases h')
    ul_simp
    exact ⟨h1, h2, ⟨rest', h3, NChain.unlinkNodes hcn h3'⟩, h4⟩
  case aFreeOk =>
    intro b m nx k took rs hb
    have hba : b ≠ a := by intro e; subst e; revert hb; ul_simp; simp [updA]
    have hb' : s.pc b = .aFree m nx k took rs := by revert hb; ul_simp; simp [updA, hba]
    obtain ⟨h1, h2, h3, h4, h5⟩ := aFreeOk b m nx k took rs hb'
    have hcn : cur ∉ took.drop (k + 1) := by
      intro e
      rcases hpre_glist b cur (by simp [hb', Pc.pre, h1, e]) (by simp [hgl]) with h' | h' <;> (rw [hb'] at h'; cases h')
    ul_simp
    exact ⟨h1, h2, NChain.unlinkNodes hcn h3, h4, h5⟩
  case noRead => ul_auto
  case cTakeOk => ul_auto
  case cRemoveOk => ul_auto
  case allocUsed => ul_auto
  case noBad => ul_auto

set_option maxHeartbeats 20000000 in
/-- the take fails on the last node: the scan ends empty-handed -/
theorem Inv.oScanFN {s : State} (hI : Inv s) {a : Actor} {f cur : Nat} {l0 seen : List Nat}
    (hp : s.pc a = .oScan f cur l0 seen) (ht : (s.box cur).taken = true)
    (hnone : (s.node cur).next = none) :
    Inv ((s.unlinkFirst f cur).setPc a (.oUnlock f none l0 (seen ++ [cur]))) := by
  have hI' := hI
  obtain ⟨hlk, ⟨rest, hgl, hcr, hrnd, hers⟩, hcur, hcg, hnx⟩ := hI.oScan_facts hp
  obtain ⟨hhn, hl0⟩ := hI.oScanOk a f cur l0 seen hp
  have hcl : ∀ h, a ≠ .fr h := by
    intro h e; subst e
    rcases hI.kindF h with h1 | h1 <;> simp [hp, Pc.isWait] at h1
  have hcfresh : ∀ h, (s.pc (.fr h)).fresh ≠ some cur := by
    intro h e
    have := (hI.freshOk h cur e).2.1
    rw [hcur.2.1] at this; cases this
  have hyfresh : ∀ h y, (s.node cur).next = some y → (s.pc (.fr h)).fresh ≠ some y := by
    intro h y hy e
    exact (hI.freshOk h y e).2.2.1 f (hnx y hy).1
  have hrsm : (s.box cur).taken = false → (s.box cur).rsm = false := by
    intro hnt
    cases hr : (s.box cur).rsm
    · rfl
    · have := hI.rsmTaken cur hcur.1 hr; rw [hnt] at this; cases this
  have hpn := hI.pubNode cur hcur.1 hcur.2.1
  have hrest : rest = [] := by
    have c1 := (hI.listOk f).1
    rw [hgl] at c1
    have := c1.2.2.head
    rw [hnone] at this
    cases rest with
    | nil => rfl
    | cons z zs => cases this
  have hcur1 := hcur.1
  have hcur2 := hcur.2.1
  have hcur3 := hcur.2.2.1
  -- chains of takers never contain a linked node of `f` other than through a canceller
  have hpre_glist : ∀ b m, m ∈ (s.pc b).pre → m ∈ s.glist f → s.pc b = .cLock m ∨ s.pc b = .cRemove m (s.node m).fut := by
    intro b m hm hg
    have h1 := hI.preOk b m hm
    obtain ⟨c, hc1, hc2⟩ := ((hI.listOk f).2.2 m hg).2.2.2 h1.2.1
    rw [h1.2.2.1] at hc1; injection hc1 with hc1; subst hc1; exact hc2
  obtain ⟨kindC, kindF, lockOk, frWait, freshOk, freshUniq, freshVer, freshVerT, freshNode, wFreeTaken, preOk, postOk, ownOk, rsmTaken,
    freeTaken, pubNode, waiting, parked, listOk, scanOk, prevOk, placed, freshHolder, scanL0, unlockL0, oScanOk, oNoneOk, aUnlockOk, aNextOk, aResumeOk, aFreeOk,
    noRead, cTakeOk, cRemoveOk, allocUsed, noBad⟩ := hI
  obtain ⟨cc, hcc1, hcc2⟩ := hcur.2.2.2 ht
  have hcca : cc ≠ a := by
    intro e; subst e
    rcases hcc2 with h' | h' <;> (rw [hp] at h'; cases h')
  have hmem : ∀ g m, MemOk s g m → m ≠ cur →
      MemOk ((s.unlinkFirst f cur).setPc a (.oUnlock f none l0 (seen ++ [cur]))) g m := by
    intro g m hm hne
    unfold MemOk CancelPending at *
    ul_simp
    have := unlinkNodes_rest s.node f cur m
    grind [updA, upd]
  constructor
  case kindC => ul_auto
  case kindF => ul_auto
  case lockOk => ul_auto
  case frWait => ul_auto
  case freshOk => ul_auto
  case freshUniq => ul_auto
  case freshVer => ul_auto
  case freshVerT => ul_auto
  case freshNode =>
    intro h' f' v' n' ver' hh
    have hpc : s.pc (.fr h') = .wLock f' v' n' ver' ∨ ∃ m, s.pc (.fr h') = .wLink f' v' n' ver' m := by
      revert hh; ul_simp
      have : Actor.fr h' ≠ a := fun e => hcl h' e.symm
      simp [updA, this]
    have hold := freshNode h' f' v' n' ver' hpc
    have hfr : (s.pc (.fr h')).fresh = some n' := by rcases hpc with e | ⟨m, e⟩ <;> simp [e, Pc.fresh]
    have h1 : n' ≠ cur := fun e => hcfresh h' (e ▸ hfr)
    have h2 : (s.node cur).next ≠ some n' := fun e => hyfresh h' n' e hfr
    ul_simp
    rw [unlinkNodes_other _ _ _ _ h1 h2]
    exact hold
  case wFreeTaken => ul_auto
  case preOk => ul_auto
  case postOk => ul_auto
  case ownOk => ul_auto
  case rsmTaken => ul_auto
  case freeTaken => ul_auto
  case pubNode => ul_auto
  case waiting => ul_auto
  case parked => ul_auto
  case listOk =>
    intro g
    obtain ⟨c1, c2, c3⟩ := listOk g
    by_cases hg : g = f
    · subst hg
      rw [hgl] at c1 c2 c3
      refine ⟨?_, ?_, ?_⟩
      · ul_simp; simp only [upd_same, hers]; exact Chain.unlinkFirst c1 c2
      · ul_simp; simp only [upd_same, hers]; exact hrnd
      · intro m hm
        have hm' : m ∈ rest := by revert hm; ul_simp; simp only [upd_same, hers]; exact id
        exact hmem g m (c3 m (by simp [hm'])) (fun e => hcr (e ▸ hm'))
    · refine ⟨?_, ?_, ?_⟩
      · ul_simp; simp only [upd_other _ _ hg]
        refine Chain.congr ?_ c1
        intro m hm
        have h1 : m ≠ cur := fun e => hcg g hg (e ▸ hm)
        have h2 : (s.node cur).next ≠ some m := by
          intro e
          have hf1 := ((listOk f).2.2 m (hnx m e).1).2.2.1
          have hf2 := (c3 m hm).2.2.1
          exact hg (hf2.symm.trans hf1)
        exact unlinkNodes_other _ _ _ _ h1 h2
      · ul_simp; simp only [upd_other _ _ hg]; exact c2
      · intro m hm
        have hm' : m ∈ s.glist g := by revert hm; ul_simp; simp only [upd_other _ _ hg]; exact id
        exact hmem g m (c3 m hm') (fun e => hcg g hg (e ▸ hm'))
  case scanOk =>
    intro b g hd tail cur' took pend skip l0' hb
    have hba : b ≠ a := by intro e; subst e; revert hb; ul_simp; simp [updA]
    have hb' : s.pc b = .aScan g hd tail cur' took pend skip l0' := by revert hb; ul_simp; simp [updA, hba]
    obtain ⟨h1, h2, h3, h4, h5, h6, h7⟩ := scanOk b g hd tail cur' took pend skip l0' hb'
    have hgf : g ≠ f := by
      intro e; subst e
      have := (lockOk g b).2 (by simp [hb', Pc.locks])
      rw [hlk] at this; injection this with this; exact hba this.symm
    have hnotin : ∀ m, m ∈ s.glist f → m ∉ took ++ pend := by
      intro m hm e
      rcases List.mem_append.mp e with e | e
      · rcases hpre_glist b m (by simp [hb', Pc.pre, e]) hm with h' | h' <;> (rw [hb'] at h'; cases h')
      · have hf1 := ((listOk f).2.2 m hm).2.2.1
        exact hgf ((h6 m e).2.2.1.symm.trans hf1)
    have hcn : cur ∉ took ++ pend := hnotin cur (by simp [hgl])
    refine ⟨?_, ?_, h3, h4, h5, ?_, ?_⟩
    · ul_simp; simp [upd, hgf, h1]
    · ul_simp; exact NChain.unlinkNodes hcn h2
    · intro m hm
      exact hmem g m (h6 m hm) (fun e => hcn (by simp [← e, hm]))
    · intro m hm
      have h1' : m ≠ cur := fun e => hcn (by simp [← e, hm])
      have h2' : (s.node cur).next ≠ some m := fun e => hnotin m (hnx m e).1 (by simp [hm])
      ul_simp
      rw [unlinkNodes_other _ _ _ _ h1' h2']
      exact h7 m hm
  case prevOk =>
    intro m
    have hold := prevOk m
    have hr := unlinkNodes_rest s.node f cur m
    have hpv := unlinkNodes_prev s.node f cur m
    by_cases hmc : m = cur
    · subst hmc
      ul_simp
      intro _ _ hprev
      rw [hpv] at hprev
      simp at hprev
    · by_cases hmy : (s.node cur).next = some m
      · have hmg := (hnx m hmy).1
        have hmf := ((listOk f).2.2 m hmg).2.2.1
        intro _ _ _
        left
        ul_simp
        rw [hr.1, hmf]
        simp only [upd_same, hers]
        rw [hgl] at hmg
        rcases List.mem_cons.mp hmg with e | e
        · exact absurd e hmc
        · exact e
      · revert hold
        ul_simp
        simp only [hpv, hr.1, hmc, hmy, if_false]
        intro hold ha hpub hprev
        have ha' : (s.box m).alloc = true := by revert ha; simp [upd, hmc]
        have hpub' : (s.box m).pub = true := by revert hpub; simp [upd, hmc]
        rcases hold ha' hpub' hprev with h1 | ⟨b, h1, h2⟩ | ⟨c, h1, h2⟩
        · left
          by_cases hf : (s.node m).fut = f
          · rw [hf] at h1 ⊢
            simp only [upd_same, hers]
            rw [hgl] at h1
            rcases List.mem_cons.mp h1 with e | e
            · exact absurd e hmc
            · exact e
          · simp [upd, hf, h1]
        · right; left
          have hba : b ≠ a := by
            intro e; subst e
            rw [hp] at h2; simp [Pc.pend] at h2
          exact ⟨b, h1, by simp [updA, hba, h2]⟩
        · right; right
          have hca : c ≠ a := by
            intro e; subst e
            rcases h2 with h2 | h2 <;> (rw [hp] at h2; cases h2)
          exact ⟨c, by simp [upd, hmc, h1], by simp [updA, hca, h2]⟩
  case placed => ul_auto
  case freshHolder => ul_auto
  case scanL0 => unfold ScanL0 at *; ul_auto
  case unlockL0 => unfold ScanL0 UnlockL0 at *; ul_auto
  case oScanOk => ul_auto
  case oNoneOk =>
    intro b g l0' seen' hb
    by_cases hba : b = a
    · subst hba
      have hb' : Pc.oUnlock f none l0 (seen ++ [cur]) = .oUnlock g none l0' seen' := by
        revert hb; ul_simp; simp [updA]
      injection hb' with e1 e2 e3 e4
      subst e1 e3 e4
      ul_simp
      simp only [upd_same, hers, hrest, hnone]
      refine ⟨trivial, trivial, ?_⟩
      rw [hl0, hgl, hrest]
    · have hb' : s.pc b = .oUnlock g none l0' seen' := by revert hb; ul_simp; simp [updA, hba]
      obtain ⟨h1, h2, h3⟩ := oNoneOk b g l0' seen' hb'
      have hgf : g ≠ f := by
        intro e; subst e
        have := (lockOk g b).2 (by simp [hb', Pc.locks])
        rw [hlk] at this; injection this with this; exact hba this.symm
      ul_simp
      simp only [upd_other _ _ hgf]
      exact ⟨h1, h2, h3⟩
  case aUnlockOk =>
    intro b g hd took skip l0' hb
    have hba : b ≠ a := by intro e; subst e; revert hb; ul_simp; simp [updA]
    have hb' : s.pc b = .aUnlock g hd took skip l0' := by revert hb; ul_simp; simp [updA, hba]
    obtain ⟨h1, h2, h3⟩ := aUnlockOk b g hd took skip l0' hb'
    have hgf : g ≠ f := by
      intro e; subst e
      have := (lockOk g b).2 (by simp [hb', Pc.locks])
      rw [hlk] at this; injection this with this; exact hba this.symm
    have hcn : cur ∉ took := by
      intro e
      rcases hpre_glist b cur (by simp [hb', Pc.pre, e]) (by simp [hgl]) with h' | h' <;> (rw [hb'] at h'; cases h')
    ul_simp
    exact ⟨by simp [upd, hgf, h1], NChain.unlinkNodes hcn h2, h3⟩
  case aNextOk =>
    intro b m k took rs hb
    have hba : b ≠ a := by intro e; subst e; revert hb; ul_simp; simp [updA]
    have hb' : s.pc b = .aNext m k took rs := by revert hb; ul_simp; simp [updA, hba]
    obtain ⟨h1, h2, h3, h4⟩ := aNextOk b m k took rs hb'
    have hcn : cur ∉ took.drop k := by
      intro e
      rcases hpre_glist b cur (by simp [hb', Pc.pre, ← h1, e]) (by simp [hgl]) with h' | h' <;> (rw [hb'] at h'; cases h')
    ul_simp
    exact ⟨h1, h2, NChain.unlinkNodes hcn h3, h4⟩
  case aResumeOk =>
    intro b m nx k took rs hb
    have hba : b ≠ a := by intro e; subst e; revert hb; ul_simp; simp [updA]
    have hb' : s.pc b = .aResume m nx k took rs := by revert hb; ul_simp; simp [updA, hba]
    obtain ⟨h1, h2, ⟨rest', h3, h3'⟩, h4⟩ := aResumeOk b m nx k took rs hb'
    have hcn : cur ∉ rest' := by
      intro e
      rcases hpre_glist b cur (by simp [hb', Pc.pre, ← h1, h3, e]) (by simp [hgl]) with h' | h' <;> (rw [hb'] at h'; cases h')
    ul_simp
    exact ⟨h1, h2, ⟨rest', h3, NChain.unlinkNodes hcn h3'⟩, h4⟩
  case aFreeOk =>
    intro b m nx k took rs hb
    have hba : b ≠ a := by intro e; subst e; revert hb; ul_simp; simp [updA]
    have hb' : s.pc b = .aFree m nx k took rs := by revert hb; ul_simp; simp [updA, hba]
    obtain ⟨h1, h2, h3, h4, h5⟩ := aFreeOk b m nx k took rs hb'
    have hcn : cur ∉ took.drop (k + 1) := by
      intro e
      rcases hpre_glist b cur (by simp [hb', Pc.pre, h1, e]) (by simp [hgl]) with h' | h' <;> (rw [hb'] at h'; cases h')
    ul_simp
    exact ⟨h1, h2, NChain.unlinkNodes hcn h3, h4, h5⟩
  case noRead => ul_auto
  case cTakeOk => ul_auto
  case cRemoveOk => ul_auto
  case allocUsed => ul_auto
  case noBad => ul_auto

set_option maxHeartbeats 20000000 in
/-- the take fails, the scan goes on with the saved `next` -/
theorem Inv.oScanFS {s : State} (hI : Inv s) {a : Actor} {f cur : Nat} {l0 seen : List Nat}
    (hp : s.pc a = .oScan f cur l0 seen) (ht : (s.box cur).taken = true)
    {y : Nat} {seen' : List Nat} (hsome : (s.node cur).next = some y) (hseen : seen' = seen ++ [cur]) :
    Inv ((s.unlinkFirst f cur).setPc a (.oScan f y l0 seen')) := by
  have hI' := hI
  obtain ⟨hlk, ⟨rest, hgl, hcr, hrnd, hers⟩, hcur, hcg, hnx⟩ := hI.oScan_facts hp
  obtain ⟨hhn, hl0⟩ := hI.oScanOk a f cur l0 seen hp
  have hcl : ∀ h, a ≠ .fr h := by
    intro h e; subst e
    rcases hI.kindF h with h1 | h1 <;> simp [hp, Pc.isWait] at h1
  have hcfresh : ∀ h, (s.pc (.fr h)).fresh ≠ some cur := by
    intro h e
    have := (hI.freshOk h cur e).2.1
    rw [hcur.2.1] at this; cases this
  have hyfresh : ∀ h y, (s.node cur).next = some y → (s.pc (.fr h)).fresh ≠ some y := by
    intro h y hy e
    exact (hI.freshOk h y e).2.2.1 f (hnx y hy).1
  have hrsm : (s.box cur).taken = false → (s.box cur).rsm = false := by
    intro hnt
    cases hr : (s.box cur).rsm
    · rfl
    · have := hI.rsmTaken cur hcur.1 hr; rw [hnt] at this; cases this
  have hpn := hI.pubNode cur hcur.1 hcur.2.1
  have hyg := (hnx y hsome).1
  have hyc := (hnx y hsome).2
  have hyf : (s.node y).fut = f := ((hI.listOk f).2.2 y hyg).2.2.1
  have hyr : y ∈ rest := by rw [hgl] at hyg; rcases List.mem_cons.mp hyg with e | e; exact absurd e hyc; exact e
  have hcur1 := hcur.1
  have hcur2 := hcur.2.1
  have hcur3 := hcur.2.2.1
  -- chains of takers never contain a linked node of `f` other than through a canceller
  have hpre_glist : ∀ b m, m ∈ (s.pc b).pre → m ∈ s.glist f → s.pc b = .cLock m ∨ s.pc b = .cRemove m (s.node m).fut := by
    intro b m hm hg
    have h1 := hI.preOk b m hm
    obtain ⟨c, hc1, hc2⟩ := ((hI.listOk f).2.2 m hg).2.2.2 h1.2.1
    rw [h1.2.2.1] at hc1; injection hc1 with hc1; subst hc1; exact hc2
  obtain ⟨kindC, kindF, lockOk, frWait, freshOk, freshUniq, freshVer, freshVerT, freshNode, wFreeTaken, preOk, postOk, ownOk, rsmTaken,
    freeTaken, pubNode, waiting, parked, listOk, scanOk, prevOk, placed, freshHolder, scanL0, unlockL0, oScanOk, oNoneOk, aUnlockOk, aNextOk, aResumeOk, aFreeOk,
    noRead, cTakeOk, cRemoveOk, allocUsed, noBad⟩ := hI
  obtain ⟨cc, hcc1, hcc2⟩ := hcur.2.2.2 ht
  have hcca : cc ≠ a := by
    intro e; subst e
    rcases hcc2 with h' | h' <;> (rw [hp] at h'; cases h')
  have hmem : ∀ g m, MemOk s g m → m ≠ cur →
      MemOk ((s.unlinkFirst f cur).setPc a (.oScan f y l0 seen')) g m := by
    intro g m hm hne
    unfold MemOk CancelPending at *
    ul_simp
    have := unlinkNodes_rest s.node f cur m
    grind [updA, upd]
  constructor
  case kindC => ul_auto
  case kindF => ul_auto
  case lockOk => ul_auto
  case frWait => ul_auto
  case freshOk => ul_auto
  case freshUniq => ul_auto
  case freshVer => ul_auto
  case freshVerT => ul_auto
  case freshNode =>
    intro h' f' v' n' ver' hh
    have hpc : s.pc (.fr h') = .wLock f' v' n' ver' ∨ ∃ m, s.pc (.fr h') = .wLink f' v' n' ver' m := by
      revert hh; ul_simp
      have : Actor.fr h' ≠ a := fun e => hcl h' e.symm
      simp [updA, this]
    have hold := freshNode h' f' v' n' ver' hpc
    have hfr : (s.pc (.fr h')).fresh = some n' := by rcases hpc with e | ⟨m, e⟩ <;> simp [e, Pc.fresh]
    have h1 : n' ≠ cur := fun e => hcfresh h' (e ▸ hfr)
    have h2 : (s.node cur).next ≠ some n' := fun e => hyfresh h' n' e hfr
    ul_simp
    rw [unlinkNodes_other _ _ _ _ h1 h2]
    exact hold
  case wFreeTaken => ul_auto
  case preOk => ul_auto
  case postOk => ul_auto
  case ownOk => ul_auto
  case rsmTaken => ul_auto
  case freeTaken => ul_auto
  case pubNode => ul_auto
  case waiting => ul_auto
  case parked => ul_auto
  case listOk =>
    intro g
    obtain ⟨c1, c2, c3⟩ := listOk g
    by_cases hg : g = f
    · subst hg
      rw [hgl] at c1 c2 c3
      refine ⟨?_, ?_, ?_⟩
      · ul_simp; simp only [upd_same, hers]; exact Chain.unlinkFirst c1 c2
      · ul_simp; simp only [upd_same, hers]; exact hrnd
      · intro m hm
        have hm' : m ∈ rest := by revert hm; ul_simp; simp only [upd_same, hers]; exact id
        exact hmem g m (c3 m (by simp [hm'])) (fun e => hcr (e ▸ hm'))
    · refine ⟨?_, ?_, ?_⟩
      · ul_simp; simp only [upd_other _ _ hg]
        refine Chain.congr ?_ c1
        intro m hm
        have h1 : m ≠ cur := fun e => hcg g hg (e ▸ hm)
        have h2 : (s.node cur).next ≠ some m := by
          intro e
          have hf1 := ((listOk f).2.2 m (hnx m e).1).2.2.1
          have hf2 := (c3 m hm).2.2.1
          exact hg (hf2.symm.trans hf1)
        exact unlinkNodes_other _ _ _ _ h1 h2
      · ul_simp; simp only [upd_other _ _ hg]; exact c2
      · intro m hm
        have hm' : m ∈ s.glist g := by revert hm; ul_simp; simp only [upd_other _ _ hg]; exact id
        exact hmem g m (c3 m hm') (fun e => hcg g hg (e ▸ hm'))
  case scanOk =>
    intro b g hd tail cur' took pend skip l0' hb
    have hba : b ≠ a := by intro e; subst e; revert hb; ul_simp; simp [updA]
    have hb' : s.pc b = .aScan g hd tail cur' took pend skip l0' := by revert hb; ul_simp; simp [updA, hba]
    obtain ⟨h1, h2, h3, h4, h5, h6, h7⟩ := scanOk b g hd tail cur' took pend skip l0' hb'
    have hgf : g ≠ f := by
      intro e; subst e
      have := (lockOk g b).2 (by simp [hb', Pc.locks])
      rw [hlk] at this; injection this with this; exact hba this.symm
    have hnotin : ∀ m, m ∈ s.glist f → m ∉ took ++ pend := by
      intro m hm e
      rcases List.mem_append.mp e with e | e
      · rcases hpre_glist b m (by simp [hb', Pc.pre, e]) hm with h' | h' <;> (rw [hb'] at h'; cases h')
      · have hf1 := ((listOk f).2.2 m hm).2.2.1
        exact hgf ((h6 m e).2.2.1.symm.trans hf1)
    have hcn : cur ∉ took ++ pend := hnotin cur (by simp [hgl])
    refine ⟨?_, ?_, h3, h4, h5, ?_, ?_⟩
    · ul_simp; simp [upd, hgf, h1]
    · ul_simp; exact NChain.unlinkNodes hcn h2
    · intro m hm
      exact hmem g m (h6 m hm) (fun e => hcn (by simp [← e, hm]))
    · intro m hm
      have h1' : m ≠ cur := fun e => hcn (by simp [← e, hm])
      have h2' : (s.node cur).next ≠ some m := fun e => hnotin m (hnx m e).1 (by simp [hm])
      ul_simp
      rw [unlinkNodes_other _ _ _ _ h1' h2']
      exact h7 m hm
  case prevOk =>
    intro m
    have hold := prevOk m
    have hr := unlinkNodes_rest s.node f cur m
    have hpv := unlinkNodes_prev s.node f cur m
    by_cases hmc : m = cur
    · subst hmc
      ul_simp
      intro _ _ hprev
      rw [hpv] at hprev
      simp at hprev
    · by_cases hmy : (s.node cur).next = some m
      · have hmg := (hnx m hmy).1
        have hmf := ((listOk f).2.2 m hmg).2.2.1
        intro _ _ _
        left
        ul_simp
        rw [hr.1, hmf]
        simp only [upd_same, hers]
        rw [hgl] at hmg
        rcases List.mem_cons.mp hmg with e | e
        · exact absurd e hmc
        · exact e
      · revert hold
        ul_simp
        simp only [hpv, hr.1, hmc, hmy, if_false]
        intro hold ha hpub hprev
        have ha' : (s.box m).alloc = true := by revert ha; simp [upd, hmc]
        have hpub' : (s.box m).pub = true := by revert hpub; simp [upd, hmc]
        rcases hold ha' hpub' hprev with h1 | ⟨b, h1, h2⟩ | ⟨c, h1, h2⟩
        · left
          by_cases hf : (s.node m).fut = f
          · rw [hf] at h1 ⊢
            simp only [upd_same, hers]
            rw [hgl] at h1
            rcases List.mem_cons.mp h1 with e | e
            · exact absurd e hmc
            · exact e
          · simp [upd, hf, h1]
        · right; left
          have hba : b ≠ a := by
            intro e; subst e
            rw [hp] at h2; simp [Pc.pend] at h2
          exact ⟨b, h1, by simp [updA, hba, h2]⟩
        · right; right
          have hca : c ≠ a := by
            intro e; subst e
            rcases h2 with h2 | h2 <;> (rw [hp] at h2; cases h2)
          exact ⟨c, by simp [upd, hmc, h1], by simp [updA, hca, h2]⟩
  case placed => ul_auto
  case freshHolder => ul_auto
  case scanL0 => unfold ScanL0 at *; ul_auto
  case unlockL0 => unfold ScanL0 UnlockL0 at *; ul_auto
  case oScanOk => ul_auto
  case oNoneOk => ul_auto
  case aUnlockOk =>
    intro b g hd took skip l0' hb
    have hba : b ≠ a := by intro e; subst e; revert hb; ul_simp; simp [updA]
    have hb' : s.pc b = .aUnlock g hd took skip l0' := by revert hb; ul_simp; simp [updA, hba]
    obtain ⟨h1, h2, h3⟩ := aUnlockOk b g hd took skip l0' hb'
    have hgf : g ≠ f := by
      intro e; subst e
      have := (lockOk g b).2 (by simp [hb', Pc.locks])
      rw [hlk] at this; injection this with this; exact hba this.symm
    have hcn : cur ∉ took := by
      intro e
      rcases hpre_glist b cur (by simp [hb', Pc.pre, e]) (by simp [hgl]) with h' | h' <;> (rw [hb'] at h'; cases h')
    ul_simp
    exact ⟨by simp [upd, hgf, h1], NChain.unlinkNodes hcn h2, h3⟩
  case aNextOk =>
    intro b m k took rs hb
    have hba : b ≠ a := by intro e; subst e; revert hb; ul_simp; simp [updA]
    have hb' : s.pc b = .aNext m k took rs := by revert hb; ul_simp; simp [updA, hba]
    obtain ⟨h1, h2, h3, h4⟩ := aNextOk b m k took rs hb'
    have hcn : cur ∉ took.drop k := by
      intro e
      rcases hpre_glist b cur (by simp [hb', Pc.pre, ← h1, e]) (by simp [hgl]) with h' | h' <;> (rw [hb'] at h'; cases h')
    ul_simp
    exact ⟨h1, h2, NChain.unlinkNodes hcn h3, h4⟩
  case aResumeOk =>
    intro b m nx k took rs hb
    have hba : b ≠ a := by intro e; subst e; revert hb; ul_simp; simp [updA]
    have hb' : s.pc b = .aResume m nx k took rs := by revert hb; ul_simp; simp [updA, hba]
    obtain ⟨h1, h2, ⟨rest', h3, h3'⟩, h4⟩ := aResumeOk b m nx k took rs hb'
    have hcn : cur ∉ rest' := by
      intro e
      rcases hpre_glist b cur (by simp [hb', Pc.pre, ← h1, h3, e]) (by simp [hgl]) with h' | h' <;> (rw [hb'] at h'; cases h')
    ul_simp
    exact ⟨h1, h2, ⟨rest', h3, NChain.unlinkNodes hcn h3'⟩, h4⟩
  case aFreeOk =>
    intro b m nx k took rs hb
    have hba : b ≠ a := by intro e; subst e; revert hb; ul_simp; simp [updA]
    have hb' : s.pc b = .aFree m nx k took rs := by revert hb; ul_simp; simp [updA, hba]
    obtain ⟨h1, h2, h3, h4, h5⟩ := aFreeOk b m nx k took rs hb'
    have hcn : cur ∉ took.drop (k + 1) := by
      intro e
      rcases hpre_glist b cur (by simp [hb', Pc.pre, h1, e]) (by simp [hgl]) with h' | h' <;> (rw [hb'] at h'; cases h')
    ul_simp
    exact ⟨h1, h2, NChain.unlinkNodes hcn h3, h4, h5⟩
  case noRead => ul_auto
  case cTakeOk => ul_auto
  case cRemoveOk => ul_auto
  case allocUsed => ul_auto
  case noBad => ul_auto

end Babylon.Coro
