/-
  Preservation of `Inv` by `emplace` (`wAlloc`) and by the construction of the node (`wCons`).
-/
import Babylon.Coro.InvTac
namespace Babylon.Coro
open Babylon.Core

set_option maxHeartbeats 1600000 in
theorem Inv.wAlloc {s : State} (hI : Inv s) {h f v n ver : Nat} (hp : s.pc (.fr h) = .wAlloc f v)
    (hfree : (s.box n).alloc = false) (hver : (s.box n).used = false ∨ (s.box n).ver < ver) :
    Inv (({ s with box := upd s.box n { ver := ver, taken := false, alloc := true, used := true, own := none, pub := false, rsm := false },
                   allocs := s.allocs + 1 }).setPc (.fr h) (.wCons f v n ver)) := by
  have hI' := hI
  have hno : ∀ c, s.pc c ≠ .cResume n ∧ s.pc c ≠ .cFree n := by
    intro c
    constructor
    · intro hc
      have := (hI.preOk c n (by simp [hc, Pc.pre])).1
      rw [hfree] at this; cases this
    · intro hc
      have := (hI.postOk c n (by simp [hc, Pc.post])).1
      rw [hfree] at this; cases this
  obtain ⟨kindC, kindF, lockOk, frWait, freshOk, freshUniq, freshVer, freshVerT, freshNode, wFreeTaken, preOk, postOk, ownOk, rsmTaken,
    freeTaken, pubNode, waiting, parked, listOk, scanOk, prevOk, placed, freshHolder, scanL0, unlockL0, oScanOk, oNoneOk, aUnlockOk, aNextOk, aResumeOk, aFreeOk,
    noRead, cTakeOk, cRemoveOk, allocUsed, noBad⟩ := hI
  have hnl : ∀ g, n ∉ s.glist g := by
    intro g hm
    have := ((listOk g).2.2 n hm).1
    rw [hfree] at this; cases this
  constructor
  case kindC => inv_auto
  case kindF => inv_auto
  case lockOk => inv_auto
  case frWait => inv_auto
  case freshOk => inv_auto
  case freshUniq => inv_auto
  case freshVer => inv_auto
  case freshVerT => inv_auto
  case freshNode => inv_auto
  case wFreeTaken => inv_auto
  case preOk => inv_auto
  case postOk => inv_auto
  case ownOk => inv_auto
  case rsmTaken => inv_auto
  case freeTaken => inv_auto
  case pubNode => inv_auto
  case waiting => inv_auto
  case parked => inv_auto
  case listOk =>
    refine ListOk.transfer (s := s) (s' := _) rfl rfl rfl ?_ listOk
    intro g m hm hmem
    have hne : m ≠ n := by rintro rfl; exact hnl g hm
    unfold MemOk CancelPending at *
    inv_simp
    grind [updA, upd]
  case scanOk =>
    refine ScanOk.transfer (s := s) (s' := _) rfl rfl ?_ ?_ scanOk
    · inv_simp; grind [updA]
    · intro b g hd tail cur took pend skip l0 m hb hm hmem
      have hne : m ≠ n := by rintro rfl; have := hmem.1; rw [hfree] at this; cases this
      unfold MemOk CancelPending at *
      inv_simp
      grind [updA, upd]
  case prevOk =>
    refine PrevOk.transfer (s := s) (s' := _) rfl rfl ?_ ?_ ?_ prevOk
    · inv_simp; grind [upd]
    · inv_simp; grind [updA, upd, Pc.pend, Pc.locks]
    · inv_simp; grind [updA, upd]
  case placed => inv_auto
  case freshHolder => inv_auto
  case scanL0 => unfold ScanL0 at *; inv_auto
  case unlockL0 => unfold ScanL0 UnlockL0 at *; inv_auto
  case oScanOk => inv_auto
  case oNoneOk => inv_auto
  case aUnlockOk => inv_auto
  case aNextOk => inv_auto
  case aResumeOk => inv_auto
  case aFreeOk => inv_auto
  case noRead => inv_auto
  case cTakeOk => inv_auto
  case cRemoveOk => inv_auto
  case allocUsed => inv_auto
  case noBad => inv_auto

end Babylon.Coro
