/-
  `remove_awaiter` on the state: projections of `State.removeNode` and of `removeNodes`.
-/
import Babylon.Coro.InvTac
import Babylon.Coro.ListLemmas
namespace Babylon.Coro
open Babylon.Core

theorem removeNodes_next (node : Nat → Node) (n m : Nat) :
    (removeNodes node n m).next = if (node n).prev = .node m then (node n).next else (node m).next := by
  unfold removeNodes
  cases hP : (node n).prev <;> cases hX : (node n).next <;> grind [upd]

theorem removeNodes_prev (node : Nat → Node) (n m : Nat) :
    (removeNodes node n m).prev = if (node n).next = some m then (node n).prev else (node m).prev := by
  unfold removeNodes
  cases hP : (node n).prev <;> cases hX : (node n).next <;> grind [upd]

theorem removeNodes_rest (node : Nat → Node) (n m : Nat) :
    (removeNodes node n m).fut = (node m).fut ∧ (removeNodes node n m).ver = (node m).ver ∧
    (removeNodes node n m).h = (node m).h := by
  unfold removeNodes
  cases hP : (node n).prev <;> cases hX : (node n).next <;> grind [upd]

theorem removeNodes_other (node : Nat → Node) (n m : Nat) (h1 : (node n).prev ≠ .node m) (h2 : (node n).next ≠ some m) :
    removeNodes node n m = node m := by
  unfold removeNodes
  cases hP : (node n).prev <;> cases hX : (node n).next <;> grind [upd]

section
variable (s : State) (f n : Nat)

theorem removeNode_null (h : (s.node n).prev = .null) : s.removeNode f n = s := by
  simp [State.removeNode, h]

theorem removeNode_node (h : (s.node n).prev ≠ .null) : (s.removeNode f n).node = removeNodes s.node n := by
  unfold State.removeNode removeNodes
  simp only [h, if_false]
  cases hP : (s.node n).prev <;> cases hX : (s.node n).next <;>
    simp [State.setNextOf, State.setPrev, State.setNext, hP] <;> (try (exact absurd hP h))
theorem removeNode_hnext (h : (s.node n).prev ≠ .null) :
    (s.removeNode f n).hnext = match (s.node n).prev with
      | .head g => upd s.hnext g (s.node n).next
      | _ => s.hnext := by
  unfold State.removeNode
  simp only [h, if_false]
  cases hP : (s.node n).prev <;> cases hX : (s.node n).next <;>
    simp [State.setNextOf, State.setPrev, State.setNext]
theorem removeNode_glist (h : (s.node n).prev ≠ .null) :
    (s.removeNode f n).glist = upd s.glist f ((s.glist f).erase n) := by
  unfold State.removeNode
  simp only [h, if_false]
  cases hP : (s.node n).prev <;> cases hX : (s.node n).next <;>
    simp [State.setNextOf, State.setPrev, State.setNext]
theorem removeNode_box : (s.removeNode f n).box = s.box := by
  unfold State.removeNode
  split
  · rfl
  · cases hP : (s.node n).prev <;> cases hX : (s.node n).next <;>
      simp [State.setNextOf, State.setPrev, State.setNext]
theorem removeNode_lock : (s.removeNode f n).lock = s.lock := by
  unfold State.removeNode
  split
  · rfl
  · cases hP : (s.node n).prev <;> cases hX : (s.node n).next <;>
      simp [State.setNextOf, State.setPrev, State.setNext]
theorem removeNode_pc : (s.removeNode f n).pc = s.pc := by
  unfold State.removeNode
  split
  · rfl
  · cases hP : (s.node n).prev <;> cases hX : (s.node n).next <;>
      simp [State.setNextOf, State.setPrev, State.setNext]
theorem removeNode_fr : (s.removeNode f n).fr = s.fr := by
  unfold State.removeNode
  split
  · rfl
  · cases hP : (s.node n).prev <;> cases hX : (s.node n).next <;>
      simp [State.setNextOf, State.setPrev, State.setNext]
theorem removeNode_wslot : (s.removeNode f n).wslot = s.wslot := by
  unfold State.removeNode
  split
  · rfl
  · cases hP : (s.node n).prev <;> cases hX : (s.node n).next <;>
      simp [State.setNextOf, State.setPrev, State.setNext]
theorem removeNode_bad : (s.removeNode f n).bad = s.bad := by
  unfold State.removeNode
  split
  · rfl
  · cases hP : (s.node n).prev <;> cases hX : (s.node n).next <;>
      simp [State.setNextOf, State.setPrev, State.setNext]
end

/-- splitting a duplicate-free list at a member -/
theorem List.split_at_mem {l : List Nat} {n : Nat} (h : n ∈ l) (hd : l.Nodup) :
    ∃ l1 l2, l = l1 ++ n :: l2 ∧ l.erase n = l1 ++ l2 ∧ n ∉ l1 ∧ n ∉ l2 := by
  obtain ⟨l1, l2, rfl⟩ := List.append_of_mem h
  have h1 : n ∉ l1 := by
    intro e
    have := List.nodup_append.mp hd
    exact this.2.2 n e n (by simp) rfl
  have h2 : n ∉ l2 := by
    have := (List.nodup_append.mp hd).2.1
    exact (List.nodup_cons.mp this).1
  refine ⟨l1, l2, rfl, ?_, h1, h2⟩
  rw [List.erase_append_right _ h1]
  simp

end Babylon.Coro
