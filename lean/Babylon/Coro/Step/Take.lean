/-
  Preservation of `Inv` by the two `take_released` steps that do not touch a list:
  the waiter's own take on the failure path (`wTake`) and the canceller's take (`cTake`).
-/
import Babylon.Coro.InvTac
namespace Babylon.Coro
open Babylon.Core

set_option maxHeartbeats 1600000 in
theorem Inv.wTake {s : State} (hI : Inv s) {h n ver : Nat} (hp : s.pc (.fr h) = .wTake n ver) :
    Inv (({ s with box := upd s.box n { s.box n with taken := true, own := some (.fr h) } }).setPc (.fr h) (.wFree n)) := by
  have hI' := hI
  have hfr := hI.freshOk h n (by simp [hp, Pc.fresh])
  have hnt : (s.box n).taken = false := by
    cases ht : (s.box n).taken
    · rfl
    · have := (hfr.2.2.2 ht).1; rw [hp] at this; cases this
  have hno : ∀ c, s.pc c ≠ .cResume n ∧ s.pc c ≠ .cFree n := by
    intro c
    constructor
    · intro hc
      have := (hI.preOk c n (by simp [hc, Pc.pre])).2.1
      rw [hnt] at this; cases this
    · intro hc
      have := (hI.postOk c n (by simp [hc, Pc.post])).2.1
      rw [hnt] at this; cases this
  obtain ⟨kindC, kindF, lockOk, frWait, freshOk, freshUniq, freshVer, freshVerT, freshNode, wFreeTaken, preOk, postOk, ownOk, rsmTaken,
    freeTaken, pubNode, waiting, parked, listOk, scanOk, prevOk, placed, freshHolder, scanL0, unlockL0, oScanOk, oNoneOk, aUnlockOk, aNextOk, aResumeOk, aFreeOk,
    noRead, cTakeOk, cRemoveOk, allocUsed, noBad⟩ := hI
  constructor
  case kindC => inv_auto
  case kindF => inv_auto
  case lockOk => inv_auto
  case frWait => inv_auto
  case freshOk => inv_auto
  case freshUniq => inv_auto
  case freshVer => inv_auto
  case freshVerT => inv_auto
  case freshNode => inv_auto
  case wFreeTaken => inv_auto
  case preOk => inv_auto
  case postOk => inv_auto
  case ownOk => inv_auto
  case rsmTaken => inv_auto
  case freeTaken => inv_auto
  case pubNode => inv_auto
  case waiting => inv_auto
  case parked => inv_auto
  case listOk =>
    refine ListOk.transfer (s := s) (s' := ({ s with box := upd s.box n { s.box n with taken := true, own := some (.fr h) } }).setPc (.fr h) (.wFree n)) rfl rfl rfl ?_ listOk
    intro g m hm hmem
    have hne : m ≠ n := by rintro rfl; exact hfr.2.2.1 g hm
    unfold MemOk CancelPending at *
    inv_simp
    grind [updA, upd]
  case scanOk =>
    refine ScanOk.transfer (s := s) (s' := ({ s with box := upd s.box n { s.box n with taken := true, own := some (.fr h) } }).setPc (.fr h) (.wFree n)) rfl rfl ?_ ?_ scanOk
    · inv_simp; grind [updA]
    · intro b g hd tail cur took pend skip l0 m hb hm hmem
      have hne : m ≠ n := by rintro rfl; have := hmem.2.1; rw [hfr.2.1] at this; cases this
      unfold MemOk CancelPending at *
      inv_simp
      grind [updA, upd]
  case prevOk =>
    refine PrevOk.transfer (s := s) (s' := ({ s with box := upd s.box n { s.box n with taken := true, own := some (.fr h) } }).setPc (.fr h) (.wFree n)) rfl rfl ?_ ?_ ?_ prevOk
    · inv_simp; grind [upd]
    · inv_simp; grind [updA, upd, Pc.pend, Pc.locks]
    · inv_simp; grind [updA, upd]
  case placed => inv_auto
  case freshHolder => inv_auto
  case scanL0 => unfold ScanL0 at *; inv_auto
  case unlockL0 => unfold ScanL0 UnlockL0 at *; inv_auto
  case oScanOk => inv_auto
  case oNoneOk => inv_auto
  case aUnlockOk => inv_auto
  case aNextOk => inv_auto
  case aResumeOk => inv_auto
  case aFreeOk => inv_auto
  case noRead => inv_auto
  case cTakeOk => inv_auto
  case cRemoveOk => inv_auto
  case allocUsed => inv_auto
  case noBad => inv_auto

set_option maxHeartbeats 1600000 in
theorem Inv.cTakeOk' {s : State} (hI : Inv s) {a : Actor} {n ver : Nat} (hp : s.pc a = .cTake n ver)
    (hv : (s.box n).ver = ver) (hnt : (s.box n).taken = false) :
    Inv (({ s with box := upd s.box n { s.box n with taken := true, own := some a } }).setPc a (.cLock n)) := by
  have hI' := hI
  have hct := hI.cTakeOk a n ver hp
  have hpub := hct.2.2 hv hnt
  have halloc : (s.box n).alloc = true := by
    cases ha : (s.box n).alloc
    · have := hI.freeTaken n ha; rw [hnt] at this; cases this
    · rfl
  have hrsm : (s.box n).rsm = false := by
    cases hr : (s.box n).rsm
    · rfl
    · have := hI.rsmTaken n halloc hr; rw [hnt] at this; cases this
  have hcl : ∀ h, a ≠ .fr h := by
    intro h e; subst e
    rcases hI.kindF h with h1 | h1 <;> simp [hp, Pc.isWait] at h1
  have hno : ∀ c, s.pc c ≠ .cResume n ∧ s.pc c ≠ .cFree n := by
    intro c
    constructor
    · intro hc
      have := (hI.preOk c n (by simp [hc, Pc.pre])).2.1
      rw [hnt] at this; cases this
    · intro hc
      have := (hI.postOk c n (by simp [hc, Pc.post])).2.1
      rw [hnt] at this; cases this
  obtain ⟨kindC, kindF, lockOk, frWait, freshOk, freshUniq, freshVer, freshVerT, freshNode, wFreeTaken, preOk, postOk, ownOk, rsmTaken,
    freeTaken, pubNode, waiting, parked, listOk, scanOk, prevOk, placed, freshHolder, scanL0, unlockL0, oScanOk, oNoneOk, aUnlockOk, aNextOk, aResumeOk, aFreeOk,
    noRead, cTakeOk, cRemoveOk, allocUsed, noBad⟩ := hI
  constructor
  case kindC => inv_auto
  case kindF => inv_auto
  case lockOk => inv_auto
  case frWait => inv_auto
  case freshOk => inv_auto
  case freshUniq => inv_auto
  case freshVer => inv_auto
  case freshVerT => inv_auto
  case freshNode => inv_auto
  case wFreeTaken => inv_auto
  case preOk => inv_auto
  case postOk => inv_auto
  case ownOk => inv_auto
  case rsmTaken => inv_auto
  case freeTaken => inv_auto
  case pubNode => inv_auto
  case waiting => inv_auto
  case parked => inv_auto
  case listOk =>
    refine ListOk.transfer (s := s) (s' := ({ s with box := upd s.box n { s.box n with taken := true, own := some a } }).setPc a (.cLock n)) rfl rfl rfl ?_ listOk
    intro g m hm hmem
    unfold MemOk CancelPending at *
    inv_simp
    grind [updA, upd]
  case scanOk =>
    refine ScanOk.transfer (s := s) (s' := ({ s with box := upd s.box n { s.box n with taken := true, own := some a } }).setPc a (.cLock n)) rfl rfl ?_ ?_ scanOk
    · inv_simp; grind [updA]
    · intro b g hd tail cur took pend skip l0 m hb hm hmem
      unfold MemOk CancelPending at *
      inv_simp
      grind [updA, upd]
  case prevOk =>
    refine PrevOk.transfer (s := s) (s' := ({ s with box := upd s.box n { s.box n with taken := true, own := some a } }).setPc a (.cLock n)) rfl rfl ?_ ?_ ?_ prevOk
    · inv_simp; grind [upd]
    · inv_simp; grind [updA, upd, Pc.pend, Pc.locks]
    · inv_simp; grind [updA, upd]
  case placed => inv_auto
  case freshHolder => inv_auto
  case scanL0 => unfold ScanL0 at *; inv_auto
  case unlockL0 => unfold ScanL0 UnlockL0 at *; inv_auto
  case oScanOk => inv_auto
  case oNoneOk => inv_auto
  case aUnlockOk => inv_auto
  case aNextOk => inv_auto
  case aResumeOk => inv_auto
  case aFreeOk => inv_auto
  case noRead => inv_auto
  case cTakeOk => inv_auto
  case cRemoveOk => inv_auto
  case allocUsed => inv_auto
  case noBad => inv_auto

end Babylon.Coro
