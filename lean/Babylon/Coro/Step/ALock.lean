/-
  Preservation of `Inv` by the first step of `wake_all`: lock, move the entire list to the private chain.
-/
import Babylon.Coro.InvTac
namespace Babylon.Coro
open Babylon.Core

set_option maxHeartbeats 4000000 in
theorem Inv.aLockS {s : State} (hI : Inv s) {a : Actor} {f x : Nat} (hp : s.pc a = .aLock f) (hfree : s.lock f = none)
    (hx : s.hnext f = some x) :
    Inv (({ s with lock := upd s.lock f (some a), hnext := upd s.hnext f none, glist := upd s.glist f [] }).setPc a
      (.aScan f (some x) .hd x [] (s.glist f) [] (s.glist f))) := by
  have hI' := hI
  have hcl : ∀ h, a ≠ .fr h := by
    intro h e; subst e
    rcases hI.kindF h with h1 | h1 <;> simp [hp, Pc.isWait] at h1
  obtain ⟨kindC, kindF, lockOk, frWait, freshOk, freshUniq, freshVer, freshVerT, freshNode, wFreeTaken, preOk, postOk, ownOk, rsmTaken,
    freeTaken, pubNode, waiting, parked, listOk, scanOk, prevOk, placed, freshHolder, scanL0, unlockL0, oScanOk, oNoneOk, aUnlockOk, aNextOk, aResumeOk, aFreeOk,
    noRead, cTakeOk, cRemoveOk, allocUsed, noBad⟩ := hI
  have hmem : ∀ g m, MemOk s g m →
      MemOk (({ s with lock := upd s.lock f (some a), hnext := upd s.hnext f none, glist := upd s.glist f [] }).setPc a
        (.aScan f (some x) .hd x [] (s.glist f) [] (s.glist f))) g m := by
    intro g m hm
    unfold MemOk CancelPending at *
    inv_simp
    grind [updA, upd]
  constructor
  case kindC => inv_auto
  case kindF => inv_auto
  case lockOk => inv_auto
  case frWait => inv_auto
  case freshOk => inv_auto
  case freshUniq => inv_auto
  case freshVer => inv_auto
  case freshVerT => inv_auto
  case freshNode => inv_auto
  case wFreeTaken => inv_auto
  case preOk => inv_auto
  case postOk => inv_auto
  case ownOk => inv_auto
  case rsmTaken => inv_auto
  case freeTaken => inv_auto
  case pubNode => inv_auto
  case waiting => inv_auto
  case parked => inv_auto
  case listOk =>
    intro g
    obtain ⟨c1, c2, c3⟩ := listOk g
    by_cases hg : g = f
    · subst hg
      inv_simp
      simp only [upd_same]
      exact ⟨rfl, List.nodup_nil, by simp⟩
    · inv_simp
      simp only [upd_other _ _ hg]
      exact ⟨c1, c2, fun m hm => hmem g m (c3 m hm)⟩
  case scanOk =>
    intro b g hd tail cur took pend skip l0 hb
    by_cases hba : b = a
    · subst hba
      have hb' : Pc.aScan f (some x) .hd x [] (s.glist f) [] (s.glist f) = .aScan g hd tail cur took pend skip l0 := by
        revert hb; inv_simp; simp [updA]
      injection hb' with e1 e2 e3 e4 e5 e6 e7 e8
      subst e1 e2 e3 e4 e5 e6 e7 e8
      obtain ⟨c1, c2, c3⟩ := listOk f
      inv_simp
      refine ⟨by simp, by have := c1.toN; rw [hx] at this; simpa using this, by rw [← hx]; exact c1.head.symm, by simpa using c2, rfl, ?_, by simp⟩
      intro m hm
      exact hmem f m (c3 m hm)
    · have hb' : s.pc b = .aScan g hd tail cur took pend skip l0 := by revert hb; inv_simp; simp [updA, hba]
      obtain ⟨h1, h2, h3, h4, h5, h6, h7⟩ := scanOk b g hd tail cur took pend skip l0 hb'
      have hgf : g ≠ f := by
        intro e; subst e
        have := (lockOk g b).2 (by simp [hb', Pc.locks])
        rw [hfree] at this; cases this
      inv_simp
      simp only [upd_other _ _ hgf]
      exact ⟨h1, h2, h3, h4, h5, fun m hm => hmem g m (h6 m hm), h7⟩
  case prevOk =>
    intro m
    have hold := prevOk m
    revert hold
    inv_simp
    intro hold ha hpub hprev
    rcases hold ha hpub hprev with h1 | ⟨b, h1, h2⟩ | ⟨c, h1, h2⟩
    · by_cases hf : (s.node m).fut = f
      · right; left
        refine ⟨a, by simp [hf], ?_⟩
        simp [updA, Pc.pend, ← hf, h1]
      · left; simp [upd, hf, h1]
    · right; left
      have hbf : (s.node m).fut ≠ f := by intro e; rw [e, hfree] at h1; cases h1
      have hba : b ≠ a := by
        intro e; subst e
        have := (lockOk _ _).1 h1
        rw [hp] at this; simp [Pc.locks] at this
      exact ⟨b, by simp [upd, hbf, h1], by simp [updA, hba, h2]⟩
    · right; right
      have hca : c ≠ a := by
        intro e; subst e
        rcases h2 with h2 | h2 <;> (rw [hp] at h2; cases h2)
      exact ⟨c, h1, by simp [updA, hca, h2]⟩
  case placed =>
    intro m
    have hold := placed m
    revert hold
    inv_simp
    intro hold ha hpub hnt
    rcases hold ha hpub hnt with h1 | ⟨b, h1, h2⟩
    · by_cases hf : (s.node m).fut = f
      · right
        refine ⟨a, by simp [hf], ?_⟩
        simp [updA, Pc.pend, ← hf, h1]
      · left; simp [upd, hf, h1]
    · right
      have hbf : (s.node m).fut ≠ f := by intro e; rw [e, hfree] at h1; cases h1
      have hba : b ≠ a := by
        intro e; subst e
        have := (lockOk _ _).1 h1
        rw [hp] at this; simp [Pc.locks] at this
      exact ⟨b, by simp [upd, hbf, h1], by simp [updA, hba, h2]⟩
  case freshHolder => inv_auto
  case scanL0 => unfold ScanL0 at *; inv_auto
  case unlockL0 => unfold ScanL0 UnlockL0 at *; inv_auto
  case oScanOk => inv_auto
  case oNoneOk => inv_auto
  case aUnlockOk => inv_auto
  case aNextOk => inv_auto
  case aResumeOk => inv_auto
  case aFreeOk => inv_auto
  case noRead => inv_auto
  case cTakeOk => inv_auto
  case cRemoveOk => inv_auto
  case allocUsed => inv_auto
  case noBad => inv_auto

set_option maxHeartbeats 4000000 in
theorem Inv.aLockN {s : State} (hI : Inv s) {a : Actor} {f : Nat} (hp : s.pc a = .aLock f) (hfree : s.lock f = none)
    (hx : s.hnext f = none) :
    Inv (({ s with lock := upd s.lock f (some a), hnext := upd s.hnext f none, glist := upd s.glist f [] }).setPc a
      (.aUnlock f none [] [] (s.glist f))) := by
  have hI' := hI
  have hcl : ∀ h, a ≠ .fr h := by
    intro h e; subst e
    rcases hI.kindF h with h1 | h1 <;> simp [hp, Pc.isWait] at h1
  obtain ⟨kindC, kindF, lockOk, frWait, freshOk, freshUniq, freshVer, freshVerT, freshNode, wFreeTaken, preOk, postOk, ownOk, rsmTaken,
    freeTaken, pubNode, waiting, parked, listOk, scanOk, prevOk, placed, freshHolder, scanL0, unlockL0, oScanOk, oNoneOk, aUnlockOk, aNextOk, aResumeOk, aFreeOk,
    noRead, cTakeOk, cRemoveOk, allocUsed, noBad⟩ := hI
  have hgl : s.glist f = [] := by
    have := (listOk f).1.head
    rw [hx] at this
    cases hg : s.glist f with
    | nil => rfl
    | cons y ys => rw [hg] at this; cases this
  have hmem : ∀ g m, MemOk s g m →
      MemOk (({ s with lock := upd s.lock f (some a), hnext := upd s.hnext f none, glist := upd s.glist f [] }).setPc a
        (.aUnlock f none [] [] (s.glist f))) g m := by
    intro g m hm
    unfold MemOk CancelPending at *
    inv_simp
    grind [updA, upd]
  constructor
  case kindC => inv_auto
  case kindF => inv_auto
  case lockOk => inv_auto
  case frWait => inv_auto
  case freshOk => inv_auto
  case freshUniq => inv_auto
  case freshVer => inv_auto
  case freshVerT => inv_auto
  case freshNode => inv_auto
  case wFreeTaken => inv_auto
  case preOk => inv_auto
  case postOk => inv_auto
  case ownOk => inv_auto
  case rsmTaken => inv_auto
  case freeTaken => inv_auto
  case pubNode => inv_auto
  case waiting => inv_auto
  case parked => inv_auto
  case listOk =>
    intro g
    obtain ⟨c1, c2, c3⟩ := listOk g
    by_cases hg : g = f
    · subst hg
      inv_simp
      simp only [upd_same]
      exact ⟨rfl, List.nodup_nil, by simp⟩
    · inv_simp
      simp only [upd_other _ _ hg]
      exact ⟨c1, c2, fun m hm => hmem g m (c3 m hm)⟩
  case scanOk =>
    intro b g hd tail cur took pend skip l0 hb
    have hba : b ≠ a := by
      intro e; subst e; revert hb; inv_simp; simp [updA]
    have hb' : s.pc b = .aScan g hd tail cur took pend skip l0 := by revert hb; inv_simp; simp [updA, hba]
    obtain ⟨h1, h2, h3, h4, h5, h6, h7⟩ := scanOk b g hd tail cur took pend skip l0 hb'
    have hgf : g ≠ f := by
      intro e; subst e
      have := (lockOk g b).2 (by simp [hb', Pc.locks])
      rw [hfree] at this; cases this
    inv_simp
    simp only [upd_other _ _ hgf]
    exact ⟨h1, h2, h3, h4, h5, fun m hm => hmem g m (h6 m hm), h7⟩
  case prevOk =>
    intro m
    have hold := prevOk m
    revert hold
    inv_simp
    intro hold ha hpub hprev
    rcases hold ha hpub hprev with h1 | ⟨b, h1, h2⟩ | ⟨c, h1, h2⟩
    · by_cases hf : (s.node m).fut = f
      · right; left
        refine ⟨a, by simp [hf], ?_⟩
        exfalso; rw [hf, hgl] at h1; cases h1
      · left; simp [upd, hf, h1]
    · right; left
      have hbf : (s.node m).fut ≠ f := by intro e; rw [e, hfree] at h1; cases h1
      have hba : b ≠ a := by
        intro e; subst e
        have := (lockOk _ _).1 h1
        rw [hp] at this; simp [Pc.locks] at this
      exact ⟨b, by simp [upd, hbf, h1], by simp [updA, hba, h2]⟩
    · right; right
      have hca : c ≠ a := by
        intro e; subst e
        rcases h2 with h2 | h2 <;> (rw [hp] at h2; cases h2)
      exact ⟨c, h1, by simp [updA, hca, h2]⟩
  case placed =>
    intro m
    have hold := placed m
    revert hold
    inv_simp
    intro hold ha hpub hnt
    rcases hold ha hpub hnt with h1 | ⟨b, h1, h2⟩
    · by_cases hf : (s.node m).fut = f
      · right
        refine ⟨a, by simp [hf], ?_⟩
        exfalso; rw [hf, hgl] at h1; cases h1
      · left; simp [upd, hf, h1]
    · right
      have hbf : (s.node m).fut ≠ f := by intro e; rw [e, hfree] at h1; cases h1
      have hba : b ≠ a := by
        intro e; subst e
        have := (lockOk _ _).1 h1
        rw [hp] at this; simp [Pc.locks] at this
      exact ⟨b, by simp [upd, hbf, h1], by simp [updA, hba, h2]⟩
  case freshHolder => inv_auto
  case scanL0 => unfold ScanL0 at *; inv_auto
  case unlockL0 => unfold ScanL0 UnlockL0 at *; inv_auto
  case oScanOk => inv_auto
  case oNoneOk => inv_auto
  case aUnlockOk =>
    intro b g hd took skip l0 hb
    by_cases hba : b = a
    · subst hba
      have hb' : Pc.aUnlock f none [] [] (s.glist f) = .aUnlock g hd took skip l0 := by
        revert hb; inv_simp; simp [updA]
      injection hb' with e1 e2 e3 e4 e5
      subst e1 e2 e3 e4 e5
      inv_simp
      exact ⟨by simp, rfl, List.nodup_nil⟩
    · have hb' : s.pc b = .aUnlock g hd took skip l0 := by revert hb; inv_simp; simp [updA, hba]
      obtain ⟨h1, h2, h3⟩ := aUnlockOk b g hd took skip l0 hb'
      have hgf : g ≠ f := by
        intro e; subst e
        have := (lockOk g b).2 (by simp [hb', Pc.locks])
        rw [hfree] at this; cases this
      inv_simp
      simp only [upd_other _ _ hgf]
      exact ⟨h1, h2, h3⟩
  case aNextOk => inv_auto
  case aResumeOk => inv_auto
  case aFreeOk => inv_auto
  case noRead => inv_auto
  case cTakeOk => inv_auto
  case cRemoveOk => inv_auto
  case allocUsed => inv_auto
  case noBad => inv_auto

end Babylon.Coro
