/-
  Facts about the scan position of `wake_all` (first phase), shared by the per-case files.
-/
import Babylon.Coro.InvTac
import Babylon.Coro.ListLemmas
namespace Babylon.Coro
open Babylon.Core

theorem tailOf_append_single (took : List Nat) (c : Nat) : tailOf (took ++ [c]) = .nx c := by
  simp [tailOf]

theorem Inv.aScan_facts {s : State} (hI : Inv s) {a : Actor} {f cur : Nat} {hd : Option Nat} {tail : TailP}
    {took pend skip l0 : List Nat} (hp : s.pc a = .aScan f hd tail cur took pend skip l0) :
    s.lock f = some a ∧ s.glist f = [] ∧ s.hnext f = none ∧
    (∃ prest, pend = cur :: prest ∧ (s.node cur).next = prest.head? ∧ NChain s.node (s.node cur).next prest ∧
      cur ∉ took ∧ cur ∉ prest ∧ (took ++ prest).Nodup ∧ (∀ m ∈ prest, MemOk s f m)) ∧
    NChain s.node hd (took ++ pend) ∧ (took ++ pend).Nodup ∧ tail = tailOf took ∧ MemOk s f cur ∧
    (∀ m ∈ took, (s.node m).fut = f ∧ (s.node m).prev = .null ∧ (s.box m).own = some a ∧ (s.box m).taken = true ∧
      (s.box m).alloc = true ∧ (s.box m).pub = true) ∧
    (∀ g m, m ∈ took ++ pend → m ∉ s.glist g) := by
  have hlk : s.lock f = some a := (hI.lockOk f a).2 (by simp [hp, Pc.locks])
  obtain ⟨h1, h2, h3, h4, h5, h6, h7⟩ := hI.scanOk a f hd tail cur took pend skip l0 hp
  have hhn : s.hnext f = none := by
    have := (hI.listOk f).1.head
    rw [h1] at this; simpa using this
  cases hpd : pend with
  | nil => rw [hpd] at h3; cases h3
  | cons c prest =>
    rw [hpd] at h3 h2 h4 h6
    have hc : c = cur := by simpa using h3
    subst hc
    obtain ⟨mid, hm1, _, _⟩ := NChain.append (l1 := took) h2
    have hnx := hm1.2.head
    have hnd1 : c ∉ took := by
      intro e
      have := List.nodup_append.mp h4
      exact this.2.2 c e c (by simp) rfl
    have hnd2 : c ∉ prest := by
      have := (List.nodup_append.mp h4).2.1
      exact (List.nodup_cons.mp this).1
    have hnd3 : (took ++ prest).Nodup := by
      have h' := List.nodup_append.mp h4
      refine List.nodup_append.mpr ⟨h'.1, (List.nodup_cons.mp h'.2.1).2, ?_⟩
      intro x hx y hy
      exact h'.2.2 x hx y (by simp [hy])
    refine ⟨hlk, h1, hhn, ⟨prest, rfl, hnx, hm1.2, hnd1, hnd2, hnd3, fun m hm => h6 m (by simp [hm])⟩,
      h2, h4, h5, h6 c (by simp), ?_, ?_⟩
    · intro m hm
      have hpre := hI.preOk a m (by simp [hp, Pc.pre, hm])
      exact ⟨(h7 m hm).1, (h7 m hm).2, hpre.2.2.1, hpre.2.1, hpre.1, hpre.2.2.2.1⟩
    · intro g m hm hmg
      have hfut : (s.node m).fut = f := by
        rcases List.mem_append.mp hm with e | e
        · exact (h7 m e).1
        · exact (h6 m e).2.2.1
      have hg := ((hI.listOk g).2.2 m hmg).2.2.1
      have : g = f := hg.symm.trans hfut
      subst this
      rw [h1] at hmg; cases hmg

macro "as_simp" : tactic => `(tactic|
  simp only [setPc_pc, setPc_box, setPc_node, setPc_lock, setPc_fr, setPc_glist, setPc_hnext, setPc_wslot, setPc_bad,
    setPrev_pc, setPrev_box, setPrev_node, setPrev_lock, setPrev_fr, setPrev_glist, setPrev_hnext, setPrev_wslot, setPrev_bad,
    setNext_pc, setNext_box, setNext_node, setNext_lock, setNext_fr, setNext_glist, setNext_hnext, setNext_wslot, setNext_bad])
macro "as_auto" : tactic => `(tactic| (as_simp; grind (instances := 4000) (splits := 20) [updA, upd, Pc.isWait, Pc.fresh, Pc.pre, Pc.post, Pc.locks, Pc.pend,
  MemOk, CancelPending, tailOf_append_single]))

end Babylon.Coro
