/-
  Executable runs of the coroutine futex model, used for non-vacuity examples and for the witness
  of the old `wake_all` shape (`next` read after `finish_released`, DESIGN 7 #4).
-/
import Babylon.Coro.Futex
import Babylon.Core.Reach

namespace Babylon.Coro
open Babylon.Core

inductive Move
  | act (a : Actor) (inp : Nat × Nat)
  | spawn (h e : Nat)
  | run (h : Nat)
  | wait (h f v : Nat)
  | finish (h : Nat)
  | wakeOne (t f : Nat)
  | wakeAll (t f : Nat)
  | setVal (t f v : Nat)
  | cancel (t n ver : Nat)

def applyMove (c : Cfg) (s : State) : Move → Option State
  | .act a inp => (step c s a inp).map (·.1)
  | .spawn h e => if s.fr h = .fresh then some { s with fr := upd s.fr h .resuming, fex := upd s.fex h e } else none
  | .run h => if s.fr h = .resuming then some (s.run h) else none
  | .wait h f v => if s.fr h = .running ∧ s.fpc h = .idle then some ({ s with fr := upd s.fr h .suspended }.setPc (.fr h) (.wAlloc f v)) else none
  | .finish h => if s.fr h = .running ∧ s.fpc h = .idle then some { s with fr := upd s.fr h .done } else none
  | .wakeOne t f => if s.cpc t = .idle then some (s.setPc (.cl t) (.oLock f)) else none
  | .wakeAll t f => if s.cpc t = .idle then some (s.setPc (.cl t) (.aLock f)) else none
  | .setVal t f v => if s.cpc t = .idle then some (s.setPc (.cl t) (.sSet f v)) else none
  | .cancel t n ver =>
    if s.cpc t = .idle ∧ (s.box n).used = true ∧ ver ≤ (s.box n).ver ∧
        ((s.box n).ver = ver → (s.box n).taken = false → (s.box n).pub = true) then
      some (s.setPc (.cl t) (.cTake n ver)) else none

theorem applyMove_step {c : Cfg} {s s' : State} {m : Move} (h : applyMove c s m = some s') : Step c s s' := by
  cases m with
  | act a inp =>
    simp only [applyMove, Option.map_eq_some_iff] at h
    obtain ⟨⟨s1, e⟩, h1, h2⟩ := h
    subst h2
    exact Step.act s a inp s1 e h1
  | spawn h' e =>
    simp only [applyMove] at h; split at h
    · injection h with h; subst h; exact Step.spawn s h' e ‹_›
    · cases h
  | run h' =>
    simp only [applyMove] at h; split at h
    · injection h with h; subst h; exact Step.run s h' ‹_›
    · cases h
  | wait h' f v =>
    simp only [applyMove] at h; split at h
    · rename_i hc; injection h with h; subst h; exact Step.wait s h' f v hc.1 hc.2
    · cases h
  | finish h' =>
    simp only [applyMove] at h; split at h
    · rename_i hc; injection h with h; subst h; exact Step.finish s h' hc.1 hc.2
    · cases h
  | wakeOne t f =>
    simp only [applyMove] at h; split at h
    · injection h with h; subst h; exact Step.wakeOne s t f ‹_›
    · cases h
  | wakeAll t f =>
    simp only [applyMove] at h; split at h
    · injection h with h; subst h; exact Step.wakeAll s t f ‹_›
    · cases h
  | setVal t f v =>
    simp only [applyMove] at h; split at h
    · injection h with h; subst h; exact Step.setVal s t f v ‹_›
    · cases h
  | cancel t n ver =>
    simp only [applyMove] at h; split at h
    · rename_i hc; injection h with h; subst h; exact Step.cancel s t n ver hc.1 hc.2.1 hc.2.2.1 hc.2.2.2
    · cases h

def runMoves (c : Cfg) : State → List Move → Option State
  | s, [] => some s
  | s, m :: ms => (applyMove c s m).bind (fun s' => runMoves c s' ms)

theorem runMoves_reachable {c : Cfg} : ∀ {ms : List Move} {s s' : State},
    Reachable (· = State.init) (Step c) s → runMoves c s ms = some s' → Reachable (· = State.init) (Step c) s'
  | [], s, s', hr, h => by simp [runMoves] at h; subst h; exact hr
  | m :: ms, s, s', hr, h => by
    simp only [runMoves, Option.bind_eq_some_iff] at h
    obtain ⟨s1, h1, h2⟩ := h
    exact runMoves_reachable (Reachable.tail hr (applyMove_step h1)) h2

/-- frame `h` on executor 0 does one complete matched wait on futex 0: emplace slot `n` version `v`, construct,
lock, link, unlock -/
def waitMoves (h n v : Nat) : List Move :=
  [.wait h 0 0, .act (.fr h) (n, v), .act (.fr h) (0, 0), .act (.fr h) (0, 0), .act (.fr h) (0, 0)]

/-- witness for the old shape: frames 1 and 2 wait in slots 1 and 2 (list = 2 -> 1); client 9 calls
wake_all: takes 2 and 1, resumes frame 2, finishes slot 2; frame 2 runs and waits again, its emplace
reuses slot 2 and re-constructs the node (`next := null`); wake_all now reads `next` of node 2: null;
it returns 1.  Frame 1 stays suspended for ever: its slot is taken by a wake_all that has returned. -/
def witnessMoves : List Move :=
  [.spawn 1 0, .run 1, .spawn 2 0, .run 2] ++ waitMoves 1 1 7 ++ waitMoves 2 2 7 ++
  [.wakeAll 9 0,
   .act (.cl 9) (0, 0),     -- lock, detach
   .act (.cl 9) (0, 0),     -- take node 2
   .act (.cl 9) (0, 0),     -- take node 1
   .act (.cl 9) (0, 0),     -- unlock
   .act (.cl 9) (0, 0),     -- resume frame 2
   .act (.cl 9) (0, 0),     -- finish slot 2
   .run 2,
   .wait 2 0 0,
   .act (.fr 2) (2, 8),     -- emplace: slot 2 again
   .act (.fr 2) (0, 0),     -- construct: next := null
   .act (.cl 9) (0, 0)]     -- wake_all reads node 2 -> next = null, returns

def cfgOld : Cfg := { nextFirst := false }

end Babylon.Coro
