/-
  More facts about `Chain`: predecessor / successor pointers of a node in the middle.
-/
import Babylon.Coro.ListLemmas

namespace Babylon.Coro

/-- the predecessor pointer of a node in the middle of a chain designates a member of the prefix -/
theorem Chain.prev_of_mid {node : Nat → Node} {n : Nat} {l2 : List Nat} :
    ∀ (l1 : List Nat) (p : Ptr) (first : Option Nat), Chain node p first (l1 ++ n :: l2) → l1 ≠ [] →
      ∃ w ∈ l1, (node n).prev = .node w
  | [], _, _, _, hne => absurd rfl hne
  | [a], _, _, hc, _ => ⟨a, by simp, hc.2.2.2.1⟩
  | a :: b :: bs, _, _, hc, _ => by
    obtain ⟨w, hw, hw'⟩ := Chain.prev_of_mid (b :: bs) (.node a) (node a).next hc.2.2 (by simp)
    exact ⟨w, List.mem_cons_of_mem _ hw, hw'⟩

/-- the first node's predecessor pointer is the start pointer -/
theorem Chain.prev_of_first {node : Nat → Node} {n : Nat} {l2 : List Nat} {p : Ptr} {first : Option Nat}
    (h : Chain node p first (n :: l2)) : (node n).prev = p := h.2.1

/-- the successor of a node in a chain is the head of what follows it -/
theorem Chain.next_of_mid {node : Nat → Node} {n : Nat} {l2 : List Nat} :
    ∀ (l1 : List Nat) (p : Ptr) (first : Option Nat), Chain node p first (l1 ++ n :: l2) →
      (node n).next = l2.head?
  | [], _, _, hc => (Chain.head hc.2.2)
  | a :: as, _, _, hc => Chain.next_of_mid as (.node a) (node a).next hc.2.2

end Babylon.Coro
