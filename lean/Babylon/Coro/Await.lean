/-
  Model of awaiter registration vs. completion and of the executor a coroutine continues on, for
  `co_await task` and `co_await future` (src/babylon/coroutine/task.h, promise.h,
  future_awaitable.h).

  Frames `h` carry the executor their promise is bound to (`fex h : Option Nat`, `none` = not bound)
  and, while running, the executor context they run in (`running c`, `c : Option Nat` = the executor
  whose `RunnerScope` is active on the thread, `BasicExecutor::current()`).

    `resume_in_executor(e, h)`: `e->invoke([h]{h.resume();})` - the frame later runs in context `e`
        (an inplace executor runs it at once, still under its own RunnerScope); when `invoke` returns
        a code != 0 the closure was not taken and the frame is resumed in place (`reject`).
    `co_await task` (Transformer + Task::await_suspend): an unbound task inherits the awaiter's
        executor; `set_awaiter(awaiter, awaiter's executor)` happens BEFORE the task is started, so
        `final_suspend` always sees it; the task starts inline iff it is unbound or already runs in
        its executor (`inplace_resumable`), otherwise through `resume_in_executor`.
    `final_suspend` of a task: the registered awaiter continues inline iff it has no executor or we
        are running in it (`awaiter_inplace_resumable`), otherwise through `resume_in_executor`.
    `co_await future`: `await_ready` = `future.ready()`; otherwise `on_finish(cb)` with
        `cb = promise.resume(handle)` = `resume_in_executor(own executor, handle)`.
        Future specification assumed (property C08): a callback registered with `on_finish` runs
        exactly once - at registration if the value is already set, otherwise when it is set.

  Theorem target: a frame bound to executor `e` only ever runs in context `e`, and every suspended
  frame is resumed at most once.   Core Lean only.
-/
import Babylon.Core.Trace
import Babylon.Gen.Coro

namespace Babylon.Coro.Await
open Babylon.Core

inductive FSt
  | fresh
  | created                         -- coroutine object exists, initial_suspend
  | running (ctx : Option Nat)
  | suspended
  | resuming (via : Option Nat)     -- `invoke` on executor `via` pending
  | done
  deriving DecidableEq, Repr, Inhabited

structure Fut where
  ready : Bool := false
  value : Nat := 0
  waiters : List Nat := []          -- frames whose callback is registered
  pend : List Nat := []             -- callbacks `set_value` still has to run
  deriving DecidableEq, Repr, Inhabited

/-- what a running frame is about to do next inside an await (between two atomic points) -/
inductive APc
  | idle
  | fReg (q : Nat)                  -- `await_ready` returned false; `on_finish` not yet executed
  deriving DecidableEq, Repr, Inhabited

structure State where
  fr : Nat → FSt := fun _ => .fresh
  fex : Nat → Option Nat := fun _ => none
  awaiter : Nat → Option Nat := fun _ => none          -- `_awaiter`
  awaiterEx : Nat → Option Nat := fun _ => none        -- `_awaiter_executor`
  pc : Nat → APc := fun _ => .idle
  fut : Nat → Fut := fun _ => {}
  got : Nat → Option Nat := fun _ => none              -- value the last await produced
  ret : Nat → Nat := fun _ => 0                        -- co_return value of a finished task
  waitsOn : Nat → Option Nat := fun _ => none          -- ghost: task a suspended frame awaits
  -- ghost
  resumes : Nat → Nat := fun _ => 0
  suspends : Nat → Nat := fun _ => 0
  bad : Bool := false
  wrongCtx : Bool := false          -- a bound frame ran in a foreign context
  fb : Nat → Bool := fun _ => false -- ghost: the frame runs in place because its executor rejected the resumption

def upd {α : Type} (f : Nat → α) (i : Nat) (v : α) : Nat → α := fun j => if j = i then v else f j

/-- frame `h` (re)starts running in context `c` -/
def State.enter (s : State) (h : Nat) (c : Option Nat) : State :=
  let w := match s.fex h with
    | some e => c ≠ some e
    | none => false
  { s with fr := upd s.fr h (.running c), wrongCtx := s.wrongCtx || w, fb := upd s.fb h false }

/-- `resume_in_executor(s.fex h, h)` on a suspended frame -/
def State.resumeVia (s : State) (h : Nat) : State :=
  if s.fr h = .suspended then
    { s with fr := upd s.fr h (.resuming (s.fex h)), resumes := upd s.resumes h (s.resumes h + 1) }
  else { s with bad := true, resumes := upd s.resumes h (s.resumes h + 1) }

/-- symmetric transfer: a suspended frame continues inline in the current context -/
def State.resumeInline (s : State) (h : Nat) (c : Option Nat) : State :=
  if s.fr h = .suspended then
    ({ s with resumes := upd s.resumes h (s.resumes h + 1) }).enter h c
  else { s with bad := true, resumes := upd s.resumes h (s.resumes h + 1) }

/-- `resume_in_executor` when `executor->invoke(...)` returns a code != 0 (the executor neither moved nor
called the closure): `handle.resume()` in place, in the context `c` of the calling thread.  The
executor's answer is a fault input of the model: every pending resumption is either run by the
executor (`run`) or rejected (`reject`) - in both cases the frame runs. -/
def reject (s : State) (h : Nat) (c : Option Nat) : Option State :=
  match s.fr h with
  | .resuming _ => some { s with fr := upd s.fr h (.running c), fb := upd s.fb h true }
  | _ => none

/-- `executor.submit(task)`: bind and start through the executor -/
def submit (s : State) (h e : Nat) : Option State :=
  if s.fr h = .fresh then some { s with fr := upd s.fr h (.resuming (some e)), fex := upd s.fex h (some e) } else none

/-- a coroutine object is created (not started); `x` = executor given with `set_executor`, if any -/
def create (s : State) (h : Nat) (x : Option Nat) : Option State :=
  if s.fr h = .fresh then some { s with fr := upd s.fr h .created, fex := upd s.fex h x } else none

/-- the executor runs a pending resumption -/
def run (s : State) (h : Nat) : Option State :=
  match s.fr h with
  | .resuming via => some (s.enter h via)
  | _ => none

/-- running frame `a` evaluates `co_await b` for a created task `b` -/
def awaitTask (s : State) (a b : Nat) : Option State :=
  match s.fr a, s.fr b with
  | .running c, .created =>
    -- Transformer<Task<T>>: inherit the executor; Task::await_suspend: set_awaiter, then start
    let bex := match s.fex b with
      | some e => some e
      | none => s.fex a
    let s1 := { s with fex := upd s.fex b bex, fr := upd s.fr a .suspended, suspends := upd s.suspends a (s.suspends a + 1),
                       awaiter := upd s.awaiter b (some a), awaiterEx := upd s.awaiterEx b (s.fex a),
                       waitsOn := upd s.waitsOn a (some b) }
    if bex = none ∨ bex = c then some (s1.enter b c)
    else some { s1 with fr := upd s1.fr b (.resuming bex) }
  | _, _ => none

/-- running frame `b` reaches `co_return v` / final_suspend -/
def finish (s : State) (b v : Nat) : Option State :=
  match s.fr b with
  | .running c =>
    if s.pc b ≠ .idle then none else
    let s1 := { s with fr := upd s.fr b .done, ret := upd s.ret b v }
    match s.awaiter b with
    | none => some s1
    | some a =>
      let s2 := { s1 with got := upd s1.got a (some v) }
      if s.awaiterEx b = none ∨ s.awaiterEx b = c then some (s2.resumeInline a c)
      else some (s2.resumeVia a)
  | _ => none

/-- running frame `a` evaluates `co_await future q`: `await_ready` -/
def awaitFuture (s : State) (a q : Nat) : Option State :=
  match s.fr a with
  | .running _ =>
    if s.pc a ≠ .idle then none
    else if (s.fut q).ready then some { s with got := upd s.got a (some (s.fut q).value) }   -- no suspension
    else some { s with fr := upd s.fr a .suspended, suspends := upd s.suspends a (s.suspends a + 1), pc := upd s.pc a (.fReg q),
                       waitsOn := upd s.waitsOn a none }
  | _ => none

/-- `await_suspend`: `_future.on_finish(cb)` -/
def registerCb (s : State) (a : Nat) : Option State :=
  match s.pc a with
  | .fReg q =>
    let s1 := { s with pc := upd s.pc a .idle }
    if (s.fut q).ready then
      some ({ s1 with got := upd s1.got a (some (s.fut q).value) }.resumeVia a)    -- sealed: callback runs at once
    else some { s1 with fut := upd s1.fut q { s1.fut q with waiters := a :: (s1.fut q).waiters } }
  | _ => none

/-- `promise.set_value(v)`: publish and seal; the registered callbacks are then run one by one -/
def setFuture (s : State) (q v : Nat) : Option State :=
  if (s.fut q).ready then none else
  some { s with fut := upd s.fut q { ready := true, value := v, waiters := [], pend := (s.fut q).waiters } }

/-- `set_value` runs the next registered callback: `promise.resume(handle)` -/
def runCb (s : State) (q : Nat) : Option State :=
  match (s.fut q).pend with
  | [] => none
  | a :: rest =>
    some ({ s with fut := upd s.fut q { s.fut q with pend := rest },
                   got := upd s.got a (some (s.fut q).value) }.resumeVia a)

inductive Step : State → State → Prop
  | submit (s : State) (h e : Nat) (s' : State) : submit s h e = some s' → Step s s'
  | create (s : State) (h : Nat) (x : Option Nat) (s' : State) : create s h x = some s' → Step s s'
  | run (s : State) (h : Nat) (s' : State) : run s h = some s' → Step s s'
  | awaitTask (s : State) (a b : Nat) (s' : State) : awaitTask s a b = some s' → Step s s'
  | finish (s : State) (b v : Nat) (s' : State) : finish s b v = some s' → Step s s'
  | awaitFuture (s : State) (a q : Nat) (s' : State) : awaitFuture s a q = some s' → Step s s'
  | registerCb (s : State) (a : Nat) (s' : State) : registerCb s a = some s' → Step s s'
  | setFuture (s : State) (q v : Nat) (s' : State) : setFuture s q v = some s' → Step s s'
  | runCb (s : State) (q : Nat) (s' : State) : runCb s q = some s' → Step s s'
  | reject (s : State) (h : Nat) (c : Option Nat) (s' : State) : reject s h c = some s' → Step s s'

def State.init : State := {}

-- statement lists this model was written against
def Stmts.final_await_suspend : List String := [
  "autoawaiter=_promise->awaiter()", "if(awaiter)", "if(_promise->awaiter_inplace_resumable())", "returnawaiter",
  "_promise->resume_awaiter()", "else", "handle.destroy()", "returnnoop_coroutine()"]
def Stmts.awaiter_inplace_resumable : List String := ["return_awaiter_executor==nullptr||_awaiter_executor->is_running_in()"]
def Stmts.inplace_resumable : List String := ["return_executor==nullptr||_executor->is_running_in()"]
def Stmts.resume_awaiter : List String := ["resume_in_executor(_awaiter_executor,_awaiter)"]
def Stmts.promise_resume : List String := ["resume_in_executor(_executor,handle)"]
def Stmts.task_await_suspend : List String := [
  "auto&promise=_handle.promise()", "promise.set_awaiter(awaiter,awaiter_executor)", "if(promise.inplace_resumable())",
  "return_handle", "promise.resume(_handle)", "returnnoop_coroutine()"]
def Stmts.task_await_suspend_p : List String := ["returnawait_suspend(awaiter,awaiter.promise().executor())"]
def Stmts.future_await_ready : List String := ["return_future.ready()"]
def Stmts.future_await_suspend : List String := ["_future.on_finish([handle]{handle.promise().resume(handle);})"]
def Stmts.resume_in_executor : List String := [
  "autoret=executor->invoke([handle]{handle.resume();})", "if((__builtin_expect(false||(ret!=0),false)))", "handle.resume()"]
def Stmts.set_awaiter : List String := ["_awaiter=awaiter", "_awaiter_executor=awaiter_executor"]

-- ---------------------------------------------------------------------------------------------
-- L2 replay of the harness traces (mode=await).  Awaiter `i` is frame `2 i`, its inner task frame
-- `2 i + 1`, the future of instance `i` is future `i`.
structure RState where
  s : State := {}
  kind : List (Nat × Nat) := []
  rej : List Nat := []              -- OS threads on which an executor has just rejected a resumption
  pset : List (Nat × Nat × Nat) := []     -- OS thread ↦ (future, value) of the `set_value` it is inside
  pawait : List (Nat × Nat × Nat) := []   -- OS thread ↦ (frame, future) of the `co_await future` it evaluates

def RState.init : RState := {}

def nameNum (pre : String) (s : String) : Option Nat :=
  if s.startsWith pre then (s.drop pre.length).toNat? else none
def lookup (l : List (Nat × Nat)) (k : Nat) : Option Nat := (l.find? (·.1 == k)).map (·.2)

/-- context of a thread in the trace: `e<k>` = inside executor k, `e-1` = no executor -/
def parseCtx (s : String) : Option (Option Nat) :=
  if s == "e-1" then some none else (nameNum "e" s).map some

/-- executor index of the trace (`e0`, `e1`, … ; `x-1` = none) -/
def parseX (s : String) : Option (Option Nat) :=
  if s == "x-1" then some none else (nameNum "x" s).map some

/-- `SEALED_HEAD_VALUE` of the future's callback head as the trace prints it -/
def sealed : String := "18446744073709551615"

/-- `set_value` runs all callbacks before it returns -/
def drainCb (s : State) (q : Nat) : Nat → State
  | 0 => s
  | k + 1 =>
    match runCb s q with
    | some s' => drainCb s' q k
    | none => s

def stepObs (r : RState) (o : Obs) : Except String RState :=
  match o.kind, o.args with
  | "ev", ["aspawn", i, e, k, x] =>
    match i.toNat?, nameNum "e" e, nameNum "k" k, parseX x with
    | some i, some e, some k, some x =>
      match submit r.s (2 * i) e with
      | some s' =>
        let s' := if k = 1 then s' else (create s' (2 * i + 1) x).getD s'
        .ok { r with s := s', kind := (i, k) :: r.kind }
      | none => .error "bad spawn"
    | _, _, _, _ => .error "bad aspawn"
  | "ev", ["astart", i, e] =>
    match i.toNat?, nameNum "e" e with
    | some i, some e =>
      match r.s.fr (2 * i), run r.s (2 * i) with
      | .resuming via, some s' => if via = some e then .ok { r with s := s' } else .error s!"awaiter {i} starts in context {e}, model {reprStr via}"
      | _, _ => .error "astart of a frame that is not pending"
    | _, _ => .error "bad astart"
  | "ev", ["await", i, what] =>
    match i.toNat? with
    | some i =>
      if what == "task" then
        match awaitTask r.s (2 * i) (2 * i + 1) with
        | some s' => .ok { r with s := s' }
        | none => .error s!"await by awaiter {i} is not possible in the model ({reprStr (r.s.fr (2 * i))})"
      else
        -- `await_ready` / `on_finish` are linearized at their accesses to the future's callback head
        .ok { r with pawait := (o.tid, 2 * i, i) :: r.pawait.filter (·.1 ≠ o.tid) }
    | none => .error "bad await"
  | "ev", ["iawait", i, _] =>
    match i.toNat? with
    | some i => .ok { r with pawait := (o.tid, 2 * i + 1, i) :: r.pawait.filter (·.1 ≠ o.tid) }
    | none => .error "bad iawait"
  | "ev", ["istart", i, e] =>
    match i.toNat?, parseCtx e with
    | some i, some e =>
      let b := 2 * i + 1
      match r.s.fr b with
      | .running c => if c = e then .ok r else .error s!"inner task {i} starts inline in context {reprStr e}, model {reprStr c}"
      | .resuming via =>
        if r.rej.contains o.tid then
          -- the executor refused the closure that starts the task: started in place by the calling thread
          match reject r.s b e with
          | some s' => .ok { r with s := s', rej := r.rej.erase o.tid }
          | none => .error "cannot reject"
        else
        match run r.s b with
        | some s' => if via = e then .ok { r with s := s' } else .error s!"inner task {i} starts in context {reprStr e}, model {reprStr via}"
        | none => .error "cannot run"
      | st => .error s!"inner task {i} starts but the model has it {reprStr st}"
    | _, _ => .error "bad istart"
  | "ev", ["ifinish", i] =>
    match i.toNat? with
    | some i =>
      let b := 2 * i + 1
      let v := 1000 + i + (if lookup r.kind i = some 2 then 7 + i else 0)
      match finish r.s b v with
      | some s' => .ok { r with s := s' }
      | none => .error s!"inner task {i} finishes but the model has it {reprStr (r.s.fr b)}"
    | none => .error "bad ifinish"
  | "ev", ["call", "fset", q, v] =>
    match q.toNat?, v.toNat? with
    | some q, some v => .ok { r with pset := (o.tid, q, v) :: r.pset.filter (·.1 ≠ o.tid) }
    | _, _ => .error "bad fset"
  | "xchg", [l, _, _, new] =>
    -- `seal()`: the linearization point of `set_value`; the registered callbacks run before it returns
    match nameNum "qh" l, r.pset.find? (·.1 == o.tid) with
    | some q, some (_, q', v) =>
      if q ≠ q' ∨ new ≠ sealed then .error "unexpected exchange on a callback head"
      else match setFuture r.s q v with
        | some s' => .ok { r with s := drainCb s' q 16, pset := r.pset.filter (·.1 ≠ o.tid) }
        | none => .error "future set twice"
    | _, _ => .error "exchange on a callback head outside set_value"
  | "ld", [l, _, val] =>
    match nameNum "qh" l, r.pawait.find? (·.1 == o.tid) with
    | some q, some (_, a, q') =>
      if q ≠ q' then .ok r
      else if r.s.pc a = .idle then
        -- await_ready
        match awaitFuture r.s a q with
        | some s' =>
          if (r.s.fut q).ready ≠ (val == sealed) then .error s!"await_ready of frame {a} read {val}, model ready = {(r.s.fut q).ready}"
          else .ok { r with s := s', pawait := if (r.s.fut q).ready then r.pawait.filter (·.1 ≠ o.tid) else r.pawait }
        | none => .error s!"await by frame {a} is not possible in the model ({reprStr (r.s.fr a)})"
      else if val == sealed then
        -- on_finish on a sealed future: the callback runs at once
        match registerCb r.s a with
        | some s' => if (r.s.fut q).ready then .ok { r with s := s', pawait := r.pawait.filter (·.1 ≠ o.tid) } else .error "sealed head, model not ready"
        | none => .error "no registration pending"
      else .ok r
    | _, _ => .ok r
  | "casw", [l, _, _, _, _, ok, obs] =>
    match nameNum "qh" l, r.pawait.find? (·.1 == o.tid) with
    | some q, some (_, a, q') =>
      if q ≠ q' then .error "registration on another future"
      else if ok == "1" ∨ obs == sealed then
        match registerCb r.s a with
        | some s' =>
          if (r.s.fut q).ready ≠ (ok != "1") then .error s!"on_finish of frame {a}: cas ok={ok}, model ready = {(r.s.fut q).ready}"
          else .ok { r with s := s', pawait := r.pawait.filter (·.1 ≠ o.tid) }
        | none => .error "no registration pending"
      else .ok r
    | _, _ => .error "cas on a callback head outside on_finish"
  | "ev", [k, i, e, v] =>
    if k == "aresumed" || k == "iresumed" then
      match i.toNat?, parseCtx e, v.toNat? with
      | some i, some e, some v =>
        let h := if k == "aresumed" then 2 * i else 2 * i + 1
        let s := r.s
        match s.fr h with
        | .running c =>
          -- continued inline (ready future, or symmetric transfer from the finished inner task)
          if c ≠ e then .error s!"frame {h} continues inline in context {reprStr e}, model {reprStr c}"
          else if s.got h ≠ some v then .error s!"frame {h} received {v}, model {reprStr (s.got h)}"
          else .ok { r with s := s }
        | .resuming via =>
          if r.rej.contains o.tid then
            -- the executor refused the closure: resumed in place by the calling thread
            match reject s h e with
            | some s' =>
              if s'.got h ≠ some v then .error s!"frame {h} received {v}, model {reprStr (s'.got h)}"
              else .ok { r with s := s', rej := r.rej.erase o.tid }
            | none => .error "cannot reject"
          else
          match run s h with
          | some s' =>
            if via ≠ e then .error s!"frame {h} resumed in context {reprStr e}, model {reprStr via}"
            else if s'.got h ≠ some v then .error s!"frame {h} received {v}, model {reprStr (s'.got h)}"
            else .ok { r with s := s' }
          | none => .error "cannot run"
        | st => .error s!"frame {h} continues but the model has it {reprStr st}"
      | _, _, _ => .error "bad resumed"
    else .ok r
  | "ev", ["xreject", _, _] => .ok { r with rej := o.tid :: r.rej }
  | "ev", ["adone", i] =>
    match i.toNat? with
    | some i =>
      match finish r.s (2 * i) 0 with
      | some s' => .ok { r with s := s' }
      | none => .error s!"awaiter {i} finishes but the model has it {reprStr (r.s.fr (2 * i))}"
    | none => .error "bad adone"
  | "ev", _ => .ok r
  | "spawn", _ | "join", _ | "exit", _ | "race", _ | "VERDICT", _ => .ok r
  | k, _ => .error s!"unknown trace line kind {k}"

def finalR (r : RState) : Except String Unit :=
  if r.s.bad then .error "model: a frame that was not suspended was resumed"
  else if r.s.wrongCtx then .error "model: a bound frame ran in a foreign executor context"
  else .ok ()

end Babylon.Coro.Await
