/-
  Invariant of the monotonic buffer resource model (property C06) and its component lemmas.
  Layers: arithmetic of `alignUp`; component predicates (`PagesOK`, `OvOK`, `DtOK`, `Geo`);
  the invariant `Inv`; one lemma per allocation path; allocate / register / release / move.
-/
import Babylon.Arena.Model
import Babylon.Arena.Geo
import Babylon.Core.Reach

namespace Babylon.Arena
open Babylon.Gen.Arena Babylon.Core

/-! ### constants -/
theorem c_pageArrayCap : pageArrayCap = 15 := rfl
theorem c_destroyArrayCap : destroyArrayCap = 15 := rfl
theorem c_sizeofPageArray : sizeofPageArray = 128 := rfl
theorem c_alignofPageArray : alignofPageArray = 8 := rfl
theorem c_offsetPages : offsetPages = 8 := rfl
theorem c_ptrSize : ptrSize = 8 := rfl
theorem c_sizeofOvArray : sizeofOvArray = 368 := rfl
theorem c_alignofOvArray : alignofOvArray = 8 := rfl
theorem c_offsetOvPages : offsetOvPages = 8 := rfl
theorem c_sizeofOvPage : sizeofOvPage = 24 := rfl
theorem c_sizeofDtArray : sizeofDtArray = 248 := rfl
theorem c_alignofDtArray : alignofDtArray = 8 := rfl
theorem c_offsetTasks : offsetTasks = 8 := rfl
theorem c_sizeofDestroyTask : sizeofDestroyTask = 16 := rfl
theorem c_moveSwapsUpstream : moveSwapsUpstream = true := rfl

/-- rewrite every generated constant to its numeral -/
macro "consts" : tactic =>
  `(tactic| simp only [c_pageArrayCap, c_destroyArrayCap, c_sizeofPageArray, c_alignofPageArray, c_offsetPages,
      c_ptrSize, c_sizeofOvArray, c_alignofOvArray, c_offsetOvPages, c_sizeofOvPage, c_sizeofDtArray,
      c_alignofDtArray, c_offsetTasks, c_sizeofDestroyTask] at *)

/-! ### `alignUp` -/

theorem alignUp_spec (x : Nat) {a : Nat} (ha : 0 < a) :
    x ≤ alignUp x a ∧ alignUp x a < x + a ∧ a ∣ alignUp x a := by
  unfold alignUp
  have h1 := Nat.div_add_mod (x + a - 1) a
  have h2 := Nat.mod_lt (x + a - 1) ha
  have h3 : (x + a - 1) / a * a = a * ((x + a - 1) / a) := Nat.mul_comm _ _
  refine ⟨by omega, by omega, ?_⟩
  exact ⟨(x + a - 1) / a, h3⟩

theorem le_alignUp (x : Nat) {a : Nat} (ha : 0 < a) : x ≤ alignUp x a := (alignUp_spec x ha).1
theorem alignUp_lt (x : Nat) {a : Nat} (ha : 0 < a) : alignUp x a < x + a := (alignUp_spec x ha).2.1
theorem alignUp_dvd (x : Nat) {a : Nat} (ha : 0 < a) : a ∣ alignUp x a := (alignUp_spec x ha).2.2

theorem alignUp_zero {a : Nat} (ha : 0 < a) : alignUp 0 a = 0 := by
  have := alignUp_spec 0 ha
  rcases this with ⟨_, h2, ⟨k, hk⟩⟩
  rcases k with _ | k
  · simpa using hk
  · rw [hk, Nat.mul_succ] at h2; omega

/-- `y & -2^k` in 64-bit arithmetic clears the low `k` bits -/
theorem and_neg_pow2 (y k : Nat) (hk : k ≤ 64) (hy : y < 2 ^ 64) :
    y &&& (2 ^ 64 - 2 ^ k) = y / 2 ^ k * 2 ^ k := by
  have hm : 2 ^ 64 - 2 ^ k = (2 ^ (64 - k) - 1) <<< k := by
    rw [Nat.shiftLeft_eq, Nat.sub_mul, Nat.one_mul, ← Nat.pow_add, Nat.sub_add_cancel hk]
  have hr : y / 2 ^ k * 2 ^ k = (y >>> k) <<< k := by
    rw [Nat.shiftLeft_eq, Nat.shiftRight_eq_div_pow]
  rw [hm, hr]
  apply Nat.eq_of_testBit_eq
  intro i
  rw [Nat.testBit_and, Nat.testBit_shiftLeft, Nat.testBit_shiftLeft, Nat.testBit_two_pow_sub_one, Nat.testBit_shiftRight]
  by_cases hik : k ≤ i
  · have : k + (i - k) = i := by omega
    rw [this]
    by_cases hi : i < 64
    · have : i - k < 64 - k := by omega
      simp [hik, this]
    · have hlt : y < 2 ^ i := Nat.lt_of_lt_of_le hy (Nat.pow_le_pow_right (by decide) (by omega))
      simp [Nat.testBit_lt_two_pow hlt]
  · simp [hik]

/-- the source's `(x + a - 1) & static_cast<uintptr_t>(-a)` is the model's `alignUp x a` for every
power of two `a` as long as `x + a - 1` does not overflow 64 bits -/
theorem alignUp_eq_mask (x a k : Nat) (ha : a = 2 ^ k) (hk : k ≤ 64) (hx : x + a - 1 < 2 ^ 64) :
    (x + a - 1) &&& (2 ^ 64 - a) = alignUp x a := by
  subst ha
  exact and_neg_pow2 _ k hk hx

theorem alignUp_8 (x : Nat) : alignUp x 8 = (x + 7) / 8 * 8 := rfl

theorem pow2_pos {a : Nat} (h : ∃ k, a = 2 ^ k) : 0 < a := by
  rcases h with ⟨k, rfl⟩; exact Nat.pow_pos (by decide)

theorem pow2_dvd_of_le {a b : Nat} (ha : ∃ k, a = 2 ^ k) (hb : ∃ k, b = 2 ^ k) (h : a ≤ b) : a ∣ b := by
  rcases ha with ⟨i, rfl⟩; rcases hb with ⟨j, rfl⟩
  exact Nat.pow_dvd_pow 2 ((Nat.pow_le_pow_iff_right (by decide)).mp h)

theorem pow2_max8 {a : Nat} (ha : ∃ k, a = 2 ^ k) : a ∣ max a 8 ∧ 8 ∣ max a 8 ∧ 0 < max a 8 := by
  rcases Nat.le_total a 8 with h | h
  · rw [Nat.max_eq_right h]
    exact ⟨pow2_dvd_of_le ha ⟨3, rfl⟩ h, Nat.dvd_refl _, by decide⟩
  · rw [Nat.max_eq_left h]
    exact ⟨Nat.dvd_refl _, pow2_dvd_of_le ⟨3, rfl⟩ ha h, pow2_pos ha⟩

/-! ### segments of the state -/

def Block.seg (b : Block) : Seg := ⟨b.addr, b.bytes⟩
def PageArr.seg (a : PageArr) : Seg := ⟨a.addr, sizeofPageArray⟩
def OvArr.seg (a : OvArr) : Seg := ⟨a.addr, sizeofOvArray⟩

def pageRegs (ps : Nat) (held : List (Nat × Nat)) : List Seg := held.map (fun p => ⟨p.2, ps⟩)
def ovRegs (held : List (Nat × OvEntry)) : List Seg := held.map (fun e => ⟨e.2.page, e.2.bytes⟩)

/-- memory the resource holds: pages and upstream blocks -/
def regions (s : Arena) : List Seg := pageRegs s.pageSize s.pagesHeld ++ ovRegs s.ovHeld

/-- everything placed in that memory: blocks handed out (including destroy-task arrays), page
arrays, oversize arrays -/
def items (s : Arena) : List Seg :=
  s.blocks.map Block.seg ++ (s.pageArrs.map PageArr.seg ++ s.ovArrs.map OvArr.seg)

def freeSeg (s : Arena) : Seg := ⟨s.freeBegin, s.freeEnd - s.freeBegin⟩

/-! ### component predicates -/

/-- every page array lives in a page held by itself or by an older array of the chain -/
def ArrsHome (ps : Nat) : List PageArr → Prop
  | [] => True
  | a :: rest => (∃ p ∈ a.pages ++ rest.flatMap (·.pages), Inside a.seg ⟨p, ps⟩) ∧ ArrsHome ps rest

structure PagesOK (pa ps : Nat) (arrs : List PageArr) (held : List (Nat × Nat)) (fb fe : Nat) : Prop where
  heldEq : held = (arrs.flatMap (·.pages)).map (fun p => (pa, p))
  aligned : ∀ p ∈ arrs.flatMap (·.pages), ps ∣ p
  shape : ∀ a ∈ arrs, 0 < a.pages.length ∧ a.pages.length ≤ pageArrayCap ∧ 8 ∣ a.addr
  tailFull : ∀ a ∈ arrs.tail, a.pages.length = pageArrayCap
  home : ArrsHome ps arrs
  free : (arrs = [] ∧ fb = 0 ∧ fe = 0) ∨
         (∃ a rest p l, arrs = a :: rest ∧ a.pages = p :: l ∧ fe = p + ps ∧ p ≤ fb)

/-- an oversize array sits at the end of the upstream block recorded in its own last entry -/
def OvArrOK (a : OvArr) : Prop :=
  0 < a.ents.length ∧ a.ents.length ≤ pageArrayCap ∧ 8 ∣ a.addr ∧
  ∃ last, a.ents.getLast? = some last ∧ last.page ≤ a.addr ∧ a.addr + sizeofOvArray = last.page + last.bytes

structure OvOK (up : Nat) (arrs : List OvArr) (held : List (Nat × OvEntry)) : Prop where
  heldEq : held = (arrs.flatMap (·.ents)).map (fun e => (up, e))
  aligned : ∀ e ∈ arrs.flatMap (·.ents), e.align ∣ e.page
  shape : ∀ a ∈ arrs, OvArrOK a
  tailFull : ∀ a ∈ arrs.tail, a.ents.length = pageArrayCap

structure DtOK (arrs : List DtArr) (dtors : List Nat) (blocks : List Block) : Prop where
  dtorsEq : dtors = arrs.flatMap (·.tasks)
  shape : ∀ a ∈ arrs, 0 < a.tasks.length ∧ a.tasks.length ≤ destroyArrayCap ∧
            (⟨a.addr, sizeofDtArray, .dtArray⟩ : Block) ∈ blocks
  tailFull : ∀ a ∈ arrs.tail, a.tasks.length = destroyArrayCap

/-- Everything in the invariant except the `_space_used` account (which runs ahead inside
`allocate`: the code adds `bytes` before it decides where the block goes). -/
structure Core (s : Arena) : Prop where
  psPow2 : ∃ k, s.pageSize = 2 ^ k
  psGe : sizeofPageArray ≤ s.pageSize
  pg : PagesOK s.pa s.pageSize s.pageArrs s.pagesHeld s.freeBegin s.freeEnd
  ov : OvOK s.up s.ovArrs s.ovHeld
  dt : DtOK s.dtArrs s.dtors s.blocks
  geo : Geo (regions s) (items s) (freeSeg s)
  acctAlloc : s.spaceAllocated = s.pageSize * s.pagesHeld.length + (s.ovHeld.map (·.2.bytes)).sum

/-- The invariant of one resource. -/
structure Inv (s : Arena) : Prop where
  core : Core s
  acctUsed : s.spaceUsed = (s.blocks.map (·.bytes)).sum

theorem Core.ps8 {s : Arena} (h : Core s) : 8 ∣ s.pageSize :=
  pow2_dvd_of_le ⟨3, rfl⟩ h.psPow2 (Nat.le_trans (by decide) h.psGe)

theorem Core.psPos {s : Arena} (h : Core s) : 0 < s.pageSize := pow2_pos h.psPow2

theorem inv_fresh (pa ps up : Nat) (hp : ∃ k, ps = 2 ^ k) (hg : sizeofPageArray ≤ ps) :
    Inv (Arena.fresh pa ps up) where
  core :=
  { psPow2 := hp
    psGe := hg
    pg := ⟨rfl, by simp [Arena.fresh], by simp [Arena.fresh], by simp [Arena.fresh], trivial, Or.inl ⟨rfl, rfl, rfl⟩⟩
    ov := ⟨rfl, by simp [Arena.fresh], by simp [Arena.fresh], by simp [Arena.fresh]⟩
    dt := ⟨rfl, by simp [Arena.fresh], by simp [Arena.fresh]⟩
    geo := Geo.empty _ rfl
    acctAlloc := by simp [Arena.fresh] }
  acctUsed := by simp [Arena.fresh]

/-- unfold segment predicates on concrete segments and finish by linear arithmetic -/
macro "seg_omega" : tactic =>
  `(tactic| (simp only [Sub, Inside, Disj, freeSeg, Block.seg, PageArr.seg, OvArr.seg, c_pageArrayCap,
      c_destroyArrayCap, c_sizeofPageArray, c_alignofPageArray, c_offsetPages, c_ptrSize, c_sizeofOvArray,
      c_alignofOvArray, c_offsetOvPages, c_sizeofOvPage, c_sizeofDtArray, c_alignofDtArray, c_offsetTasks,
      c_sizeofDestroyTask] at *; omega))

/-! ### component lemmas: page arrays -/

theorem PagesOK.setFree {pa ps arrs held fb fe fb'} (h : PagesOK pa ps arrs held fb fe)
    (hle : fb ≤ fb') (h0 : arrs = [] → fb' = 0) : PagesOK pa ps arrs held fb' fe := by
  refine ⟨h.heldEq, h.aligned, h.shape, h.tailFull, h.home, ?_⟩
  rcases h.free with ⟨he, _, hfe⟩ | ⟨a, rest, p, l, he, hp, hfe, hpf⟩
  · exact Or.inl ⟨he, h0 he, hfe⟩
  · exact Or.inr ⟨a, rest, p, l, he, hp, hfe, Nat.le_trans hpf hle⟩

/-- `*--_last_page_pointer = page` -/
theorem PagesOK.pushPage {pa ps a rest held fb fe page fb'}
    (h : PagesOK pa ps (a :: rest) held fb fe) (hroom : a.pages.length < pageArrayCap)
    (hal : ps ∣ page) (hfb : page ≤ fb') :
    PagesOK pa ps ({ a with pages := page :: a.pages } :: rest) ((pa, page) :: held) fb' (page + ps) := by
  refine ⟨?_, ?_, ?_, ?_, ?_, ?_⟩
  · rw [h.heldEq]; simp
  · intro p hp
    simp only [List.flatMap_cons, List.cons_append, List.mem_cons] at hp
    rcases hp with rfl | hp
    · exact hal
    · exact h.aligned p (by simpa using hp)
  · intro x hx
    rcases List.mem_cons.mp hx with rfl | hx
    · have := h.shape a List.mem_cons_self
      simp only [List.length_cons]
      omega
    · exact h.shape x (List.mem_cons_of_mem _ hx)
  · exact h.tailFull
  · refine ⟨?_, h.home.2⟩
    obtain ⟨p, hp, hin⟩ := h.home.1
    exact ⟨p, by simp only [List.cons_append, List.mem_cons]; exact Or.inr hp, hin⟩
  · exact Or.inr ⟨_, rest, page, a.pages, rfl, rfl, rfl, hfb⟩

theorem headFull_all {arrs : List PageArr} (hhead : ∀ a ∈ arrs.head?, a.pages.length = pageArrayCap)
    (htail : ∀ a ∈ arrs.tail, a.pages.length = pageArrayCap) : ∀ a ∈ arrs, a.pages.length = pageArrayCap := by
  intro a ha
  cases arrs with
  | nil => cases ha
  | cons x xs =>
    rcases List.mem_cons.mp ha with rfl | h
    · exact hhead _ (by simp)
    · exact htail a h

/-- a new page array holding `page`, placed at `addr` -/
theorem PagesOK.newArr {pa ps arrs held fb fe page addr fb'}
    (h : PagesOK pa ps arrs held fb fe) (hfull : ∀ a ∈ arrs.head?, a.pages.length = pageArrayCap)
    (hal : ps ∣ page) (h8 : 8 ∣ addr)
    (hhome : ∃ p ∈ page :: arrs.flatMap (·.pages), Inside ⟨addr, sizeofPageArray⟩ ⟨p, ps⟩)
    (hfb : page ≤ fb') :
    PagesOK pa ps (⟨addr, [page]⟩ :: arrs) ((pa, page) :: held) fb' (page + ps) := by
  refine ⟨?_, ?_, ?_, ?_, ?_, ?_⟩
  · rw [h.heldEq]; simp
  · intro p hp
    simp only [List.flatMap_cons, List.cons_append, List.nil_append, List.mem_cons] at hp
    rcases hp with rfl | hp
    · exact hal
    · exact h.aligned p hp
  · intro x hx
    rcases List.mem_cons.mp hx with rfl | hx
    · exact ⟨by simp, by simp [c_pageArrayCap], h8⟩
    · exact h.shape x hx
  · exact headFull_all hfull h.tailFull
  · exact ⟨by simpa [PageArr.seg] using hhome, h.home⟩
  · exact Or.inr ⟨_, arrs, page, [], rfl, rfl, rfl, hfb⟩

/-- a new page array in an additional page `add`, holding `add` and `page` -/
theorem PagesOK.newArrExtra {pa ps arrs held fb fe page add fb'}
    (h : PagesOK pa ps arrs held fb fe) (hfull : ∀ a ∈ arrs.head?, a.pages.length = pageArrayCap)
    (hal : ps ∣ page) (hal2 : ps ∣ add) (hps : sizeofPageArray ≤ ps) (hps8 : 8 ∣ ps)
    (hfb : add ≤ fb') :
    PagesOK pa ps (⟨add, [add, page]⟩ :: arrs) ((pa, add) :: (pa, page) :: held) fb' (add + ps) := by
  refine ⟨?_, ?_, ?_, ?_, ?_, ?_⟩
  · rw [h.heldEq]; simp
  · intro p hp
    simp only [List.flatMap_cons, List.cons_append, List.nil_append, List.mem_cons] at hp
    rcases hp with rfl | rfl | hp
    · exact hal2
    · exact hal
    · exact h.aligned p hp
  · intro x hx
    rcases List.mem_cons.mp hx with rfl | hx
    · exact ⟨by simp, by simp [c_pageArrayCap], Nat.dvd_trans hps8 hal2⟩
    · exact h.shape x hx
  · exact headFull_all hfull h.tailFull
  · refine ⟨⟨add, by simp, ?_⟩, h.home⟩
    simp only [PageArr.seg, Inside]; omega
  · exact Or.inr ⟨_, arrs, add, [page], rfl, rfl, rfl, hfb⟩

/-! ### component lemmas: oversize arrays -/

theorem ovHeadFull_all {arrs : List OvArr} (hhead : ∀ a ∈ arrs.head?, a.ents.length = pageArrayCap)
    (htail : ∀ a ∈ arrs.tail, a.ents.length = pageArrayCap) : ∀ a ∈ arrs, a.ents.length = pageArrayCap := by
  intro a ha
  cases arrs with
  | nil => cases ha
  | cons x xs =>
    rcases List.mem_cons.mp ha with rfl | h
    · exact hhead _ (by simp)
    · exact htail a h

theorem OvOK.push {up a rest held} {ent : OvEntry}
    (h : OvOK up (a :: rest) held) (hroom : a.ents.length < pageArrayCap) (hal : ent.align ∣ ent.page) :
    OvOK up ({ a with ents := ent :: a.ents } :: rest) ((up, ent) :: held) := by
  refine ⟨?_, ?_, ?_, h.tailFull⟩
  · rw [h.heldEq]; simp
  · intro e he
    simp only [List.flatMap_cons, List.cons_append, List.mem_cons] at he
    rcases he with rfl | he
    · exact hal
    · exact h.aligned e (by simpa using he)
  · intro x hx
    rcases List.mem_cons.mp hx with rfl | hx
    · obtain ⟨h1, h2, h3, last, hl, h4, h5⟩ := h.shape a List.mem_cons_self
      refine ⟨by simp, by simp only [List.length_cons]; omega, h3, last, ?_, h4, h5⟩
      cases hents : a.ents with
      | nil => rw [hents] at h1; simp at h1
      | cons y ys => rw [hents] at hl; simpa [List.getLast?_cons_cons] using hl
    · exact h.shape x (List.mem_cons_of_mem _ hx)

theorem OvOK.newArr {up arrs held} {page b al : Nat}
    (h : OvOK up arrs held) (hfull : ∀ a ∈ arrs.head?, a.ents.length = pageArrayCap)
    (hal : al ∣ page) (h8 : 8 ∣ page + b) :
    OvOK up (⟨page + b, [⟨page, b + sizeofOvArray, al⟩]⟩ :: arrs) ((up, ⟨page, b + sizeofOvArray, al⟩) :: held) := by
  refine ⟨?_, ?_, ?_, ovHeadFull_all hfull h.tailFull⟩
  · rw [h.heldEq]; simp
  · intro e he
    simp only [List.flatMap_cons, List.cons_append, List.nil_append, List.mem_cons] at he
    rcases he with rfl | he
    · exact hal
    · exact h.aligned e he
  · intro x hx
    rcases List.mem_cons.mp hx with rfl | hx
    · exact ⟨by simp, by simp [c_pageArrayCap], h8, _, rfl, by simp, by simp; omega⟩
    · exact h.shape x hx

/-! ### component lemmas: destroy-task arrays -/

theorem DtOK.mono {arrs dtors blocks} (h : DtOK arrs dtors blocks) (b : Block) : DtOK arrs dtors (b :: blocks) :=
  ⟨h.dtorsEq, fun a ha => ⟨(h.shape a ha).1, (h.shape a ha).2.1, List.mem_cons_of_mem _ (h.shape a ha).2.2⟩, h.tailFull⟩

theorem DtOK.push {a rest dtors blocks} (h : DtOK (a :: rest) dtors blocks) (hroom : a.tasks.length < destroyArrayCap)
    (tag : Nat) : DtOK ({ a with tasks := tag :: a.tasks } :: rest) (tag :: dtors) blocks := by
  refine ⟨?_, ?_, h.tailFull⟩
  · rw [h.dtorsEq]; simp
  · intro x hx
    rcases List.mem_cons.mp hx with rfl | hx
    · have := h.shape a List.mem_cons_self
      exact ⟨by simp, by simp only [List.length_cons]; omega, this.2.2⟩
    · exact h.shape x (List.mem_cons_of_mem _ hx)

theorem DtOK.newArr {arrs dtors blocks} (h : DtOK arrs dtors blocks)
    (hfull : ∀ a ∈ arrs.head?, a.tasks.length = destroyArrayCap) (p tag : Nat)
    (hb : (⟨p, sizeofDtArray, .dtArray⟩ : Block) ∈ blocks) : DtOK (⟨p, [tag]⟩ :: arrs) (tag :: dtors) blocks := by
  refine ⟨?_, ?_, ?_⟩
  · rw [h.dtorsEq]; simp
  · intro x hx
    rcases List.mem_cons.mp hx with rfl | hx
    · exact ⟨by simp, by simp [c_destroyArrayCap], hb⟩
    · exact h.shape x hx
  · intro a ha
    simp only [List.tail_cons] at ha
    cases arrs with
    | nil => cases ha
    | cons x xs =>
      rcases List.mem_cons.mp ha with rfl | h'
      · exact hfull _ (by simp)
      · exact h.tailFull a h'

/-! ### what one `allocate` call establishes -/

/-- assumption on the page allocator: the page is `pageSize`-aligned and shares no byte with any
region currently held (by anybody) -/
def PageOKenv (held : List Seg) (ps p : Nat) : Prop := ps ∣ p ∧ ∀ r ∈ held, Disj r ⟨p, ps⟩

/-- assumption on the upstream resource: the block is aligned as requested and shares no byte with
any region currently held -/
def UpOKenv (held : List Seg) (u bytes align : Nat) : Prop := align ∣ u ∧ ∀ r ∈ held, Disj r ⟨u, bytes⟩

/-- the bookkeeping arrays that are not themselves blocks -/
def arrSegs (s : Arena) : List Seg := s.pageArrs.map PageArr.seg ++ s.ovArrs.map OvArr.seg

def Ev.isAllocOrWrite : Ev → Prop
  | .pageAlloc _ _ | .upAlloc _ _ _ _ | .write _ _ => True
  | _ => False

structure AllocPost (held : List Seg) (t t' : Arena) (ret bytes : Nat) (kind : Kind) (evs : List Ev) : Prop where
  core : Core t'
  blocks : t'.blocks = ⟨ret, bytes, kind⟩ :: t.blocks
  regs : ∀ r ∈ regions t', r ∈ regions t ∨ ∀ h ∈ held, Disj h r
  regsMono : ∀ r ∈ regions t, r ∈ regions t'
  frame : t'.pa = t.pa ∧ t'.up = t.up ∧ t'.pageSize = t.pageSize ∧ t'.dtArrs = t.dtArrs ∧
          t'.dtors = t.dtors ∧ t'.spaceUsed = t.spaceUsed
  evWrites : ∀ a n, Ev.write a n ∈ evs → ∃ i ∈ arrSegs t', Inside ⟨a, n⟩ i
  evKinds : ∀ ev ∈ evs, ev.isAllocOrWrite

theorem items_cons_block (t : Arena) (b : Block) (bl : List Block) (h : t.blocks = bl) :
    items { t with blocks := b :: bl } = b.seg :: items t := by
  subst h; rfl

/-- fast path: the block is cut from the front of the (already aligned) free range -/
theorem post_fast (held : List Seg) {t : Arena} (hc : Core t) (bytes : Nat) (kind : Kind)
    (hfit : t.freeBegin + bytes ≤ t.freeEnd) :
    AllocPost held t
      { t with freeBegin := t.freeBegin + bytes, blocks := ⟨t.freeBegin, bytes, kind⟩ :: t.blocks }
      t.freeBegin bytes kind [] := by
  refine ⟨⟨hc.psPow2, hc.psGe, ?_, hc.ov, hc.dt.mono _, ?_, hc.acctAlloc⟩, rfl, fun r hr => Or.inl hr,
    fun r hr => hr, ⟨rfl, rfl, rfl, rfl, rfl, rfl⟩, by simp, by simp⟩
  · refine hc.pg.setFree (Nat.le_add_right _ _) ?_
    intro he
    rcases hc.pg.free with ⟨_, h1, h2⟩ | ⟨a, rest, p, l, he', _⟩
    · show t.freeBegin + bytes = 0; omega
    · rw [he] at he'; cases he'
  · show Geo (regions t) (Block.seg ⟨t.freeBegin, bytes, kind⟩ :: items t) ⟨t.freeBegin + bytes, t.freeEnd - (t.freeBegin + bytes)⟩
    refine hc.geo.carve ?_ ?_ ?_ <;> seg_omega

end Babylon.Arena
