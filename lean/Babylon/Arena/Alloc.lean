/-
  `allocate` preserves the invariant (property C06): one lemma per allocation path, then the
  dispatchers that follow the code's own case analysis.
-/
import Babylon.Arena.Inv

namespace Babylon.Arena
open Babylon.Gen.Arena Babylon.Core

theorem perm_items_pg (x y : Seg) (A B : List Seg) : (x :: (A ++ y :: B)).Perm (y :: x :: (A ++ B)) :=
  ((List.perm_middle (a := y) (l₁ := A) (l₂ := B)).cons x).trans (List.Perm.swap y x _)

theorem perm_items_ov (x y : Seg) (A B C : List Seg) :
    (x :: (A ++ (B ++ y :: C))).Perm (y :: x :: (A ++ (B ++ C))) := by
  have h : (A ++ (B ++ y :: C)).Perm (y :: (A ++ (B ++ C))) := by
    rw [← List.append_assoc, ← List.append_assoc]
    exact List.perm_middle
  exact (h.cons x).trans (List.Perm.swap y x _)

theorem fresh_of_env {held : List Seg} {t : Arena} (hsub : ∀ r ∈ regions t, r ∈ held) {q : Seg}
    (h : ∀ r ∈ held, Disj r q) : ∀ r ∈ regions t, Disj r q := fun r hr => h r (hsub r hr)

/-! ### upstream paths -/

theorem regs_cons_ov {held : List Seg} {ps : Nat} {pagesHeld : List (Nat × Nat)} {ovHeld : List (Nat × OvEntry)}
    {x : Nat × OvEntry} (hx : ∀ h ∈ held, Disj h ⟨x.2.page, x.2.bytes⟩) :
    ∀ r ∈ pageRegs ps pagesHeld ++ ovRegs (x :: ovHeld),
      r ∈ pageRegs ps pagesHeld ++ ovRegs ovHeld ∨ ∀ h ∈ held, Disj h r := by
  intro r hr
  simp only [ovRegs, List.map_cons, List.mem_append, List.mem_cons] at hr ⊢
  rcases hr with hr | rfl | hr
  · exact Or.inl (Or.inl hr)
  · exact Or.inr hx
  · exact Or.inl (Or.inr hr)

theorem regs_mono_ov {ps : Nat} {pagesHeld : List (Nat × Nat)} {ovHeld : List (Nat × OvEntry)} {x : Nat × OvEntry} :
    ∀ r ∈ pageRegs ps pagesHeld ++ ovRegs ovHeld, r ∈ pageRegs ps pagesHeld ++ ovRegs (x :: ovHeld) := by
  intro r hr
  simp only [ovRegs, List.map_cons, List.mem_append, List.mem_cons] at hr ⊢
  rcases hr with hr | hr
  · exact Or.inl hr
  · exact Or.inr (Or.inr hr)

theorem post_ovRoom (held : List Seg) {t : Arena} (hc : Core t) (hsub : ∀ r ∈ regions t, r ∈ held)
    (bytes align : Nat) (kind : Kind) (e : Env) {a : OvArr} {rest : List OvArr}
    (hov : t.ovArrs = a :: rest) (hroom : a.ents.length < pageArrayCap)
    (henv : UpOKenv held e.up bytes align) :
    AllocPost held t
      { t with spaceAllocated := t.spaceAllocated + bytes,
               ovArrs := { a with ents := ⟨e.up, bytes, align⟩ :: a.ents } :: rest,
               ovHeld := (t.up, ⟨e.up, bytes, align⟩) :: t.ovHeld,
               blocks := ⟨e.up, bytes, kind⟩ :: t.blocks }
      e.up bytes kind
      [.upAlloc t.up e.up bytes align, .write (t.lastOvPointer - sizeofOvPage) sizeofOvPage] := by
  have hfr := fresh_of_env hsub henv.2
  have hg := hc.geo.placeFresh hfr (x := ⟨e.up, bytes⟩) (by seg_omega)
  obtain ⟨pageSize, pa, up, pageArrs, fb, fe, su, sa, ovArrs, dtArrs, blocks, pagesHeld, ovHeld, dtors⟩ := t
  simp only at hov
  subst hov
  refine ⟨⟨hc.psPow2, hc.psGe, hc.pg, hc.ov.push hroom henv.1, hc.dt.mono _, hg.permR List.perm_middle, ?_⟩,
    rfl, regs_cons_ov henv.2, regs_mono_ov, ⟨rfl, rfl, rfl, rfl, rfl, rfl⟩, ?_, ?_⟩
  · have := hc.acctAlloc
    simp only [List.map_cons, List.sum_cons] at this ⊢; omega
  · intro x n hx
    simp only [List.mem_cons, Ev.write.injEq, List.mem_nil_iff, or_false, reduceCtorEq, false_or] at hx
    obtain ⟨rfl, rfl⟩ := hx
    refine ⟨OvArr.seg a, by simp [arrSegs, OvArr.seg], ?_⟩
    simp only [Arena.lastOvPointer]
    seg_omega
  · intro ev hev
    simp only [List.mem_cons, List.mem_nil_iff, or_false] at hev
    rcases hev with rfl | rfl <;> trivial

theorem post_ovNew (held : List Seg) {t : Arena} (hc : Core t) (hsub : ∀ r ∈ regions t, r ∈ held)
    (bytes align : Nat) (kind : Kind) (e : Env) (hal : ∃ k, align = 2 ^ k)
    (hfull : ∀ a ∈ t.ovArrs.head?, a.ents.length = pageArrayCap)
    (henv : UpOKenv held e.up (alignUp bytes (max align alignofOvArray) + sizeofOvArray) (max align alignofOvArray)) :
    AllocPost held t (t.allocOversizeNew bytes align kind e).1 e.up bytes kind
      (t.allocOversizeNew bytes align kind e).2.2 := by
  have hm := pow2_max8 hal
  simp only [Arena.allocOversizeNew]
  rw [c_alignofOvArray] at henv ⊢
  generalize max align 8 = al at henv hm ⊢
  have hb := alignUp_spec bytes hm.2.2
  generalize alignUp bytes al = b at henv hb ⊢
  have hfr := fresh_of_env hsub henv.2
  have hg := (hc.geo.placeFresh hfr (x := ⟨e.up, bytes⟩) (by seg_omega)).placeNewest
    (y := ⟨e.up + b, sizeofOvArray⟩) (hc.geo.fresh_items hfr) (Or.inl (hc.geo.fresh_free hfr))
    (by seg_omega) (by seg_omega)
  obtain ⟨pageSize, pa, up, pageArrs, fb, fe, su, sa, ovArrs, dtArrs, blocks, pagesHeld, ovHeld, dtors⟩ := t
  refine ⟨⟨hc.psPow2, hc.psGe, hc.pg, ?_, hc.dt.mono _, ?_, ?_⟩, rfl, regs_cons_ov henv.2, regs_mono_ov,
    ⟨rfl, rfl, rfl, rfl, rfl, rfl⟩, ?_, ?_⟩
  · refine hc.ov.newArr hfull henv.1 ?_
    exact (Nat.dvd_add_right (Nat.dvd_trans hm.2.1 henv.1)).mpr (Nat.dvd_trans hm.2.1 hb.2.2)
  · exact (hg.permR List.perm_middle).perm (perm_items_ov _ _ _ _ _)
  · have := hc.acctAlloc
    simp only [List.map_cons, List.sum_cons] at this ⊢; omega
  · intro x n hx
    refine ⟨⟨e.up + b, sizeofOvArray⟩, by simp [arrSegs, OvArr.seg], ?_⟩
    simp only [List.mem_cons, Ev.write.injEq, List.mem_nil_iff, or_false, reduceCtorEq, false_or] at hx
    rcases hx with ⟨rfl, rfl⟩ | ⟨rfl, rfl⟩ <;> seg_omega
  · intro ev hev
    simp only [List.mem_cons, List.mem_nil_iff, or_false] at hev
    rcases hev with rfl | rfl | rfl <;> trivial

/-! ### page paths -/

theorem regs_cons_pg {held : List Seg} {ps : Nat} {pagesHeld : List (Nat × Nat)} {ovHeld : List (Nat × OvEntry)}
    {x : Nat × Nat} (hx : ∀ h ∈ held, Disj h ⟨x.2, ps⟩) :
    ∀ r ∈ pageRegs ps (x :: pagesHeld) ++ ovRegs ovHeld,
      r ∈ pageRegs ps pagesHeld ++ ovRegs ovHeld ∨ ∀ h ∈ held, Disj h r := by
  intro r hr
  simp only [pageRegs, List.map_cons, List.cons_append, List.mem_append, List.mem_cons] at hr ⊢
  rcases hr with rfl | hr | hr
  · exact Or.inr hx
  · exact Or.inl (Or.inl hr)
  · exact Or.inl (Or.inr hr)

theorem regs_mono_pg {ps : Nat} {pagesHeld : List (Nat × Nat)} {ovHeld : List (Nat × OvEntry)} {x : Nat × Nat} :
    ∀ r ∈ pageRegs ps pagesHeld ++ ovRegs ovHeld, r ∈ pageRegs ps (x :: pagesHeld) ++ ovRegs ovHeld := by
  intro r hr
  simp only [pageRegs, List.map_cons, List.cons_append, List.mem_append, List.mem_cons] at hr ⊢
  exact Or.inr hr

/-- new page, room in the current page array -/
theorem post_pageRoom (held : List Seg) {t : Arena} (hc : Core t) (hsub : ∀ r ∈ regions t, r ∈ held)
    (bytes : Nat) (kind : Kind) (e : Env) {a : PageArr} {rest : List PageArr}
    (hpa : t.pageArrs = a :: rest) (hroom : a.pages.length < pageArrayCap)
    (hb : bytes ≤ t.pageSize) (henv : PageOKenv held t.pageSize e.pg1) :
    AllocPost held t
      { t with spaceAllocated := t.spaceAllocated + t.pageSize,
               pagesHeld := (t.pa, e.pg1) :: t.pagesHeld,
               pageArrs := { a with pages := e.pg1 :: a.pages } :: rest,
               freeBegin := e.pg1 + bytes, freeEnd := e.pg1 + t.pageSize,
               blocks := ⟨e.pg1, bytes, kind⟩ :: t.blocks }
      e.pg1 bytes kind
      [.pageAlloc t.pa e.pg1, .write (t.lastPagePointer - ptrSize) ptrSize] := by
  have hfr := fresh_of_env hsub henv.2
  have hg := hc.geo.newPage hfr (x := ⟨e.pg1, bytes⟩)
    (F' := ⟨e.pg1 + bytes, e.pg1 + t.pageSize - (e.pg1 + bytes)⟩) (by seg_omega) (by seg_omega) (by seg_omega)
  obtain ⟨pageSize, pa, up, pageArrs, fb, fe, su, sa, ovArrs, dtArrs, blocks, pagesHeld, ovHeld, dtors⟩ := t
  simp only at hpa
  subst hpa
  refine ⟨⟨hc.psPow2, hc.psGe, hc.pg.pushPage hroom henv.1 (Nat.le_add_right _ _), hc.ov, hc.dt.mono _, hg, ?_⟩,
    rfl, regs_cons_pg henv.2, regs_mono_pg, ⟨rfl, rfl, rfl, rfl, rfl, rfl⟩, ?_, ?_⟩
  · have := hc.acctAlloc
    simp only [List.length_cons, Nat.mul_succ] at this ⊢; omega
  · intro x n hx
    simp only [List.mem_cons, Ev.write.injEq, List.mem_nil_iff, or_false, reduceCtorEq, false_or] at hx
    obtain ⟨rfl, rfl⟩ := hx
    refine ⟨PageArr.seg a, by simp [arrSegs, PageArr.seg], ?_⟩
    simp only [Arena.lastPagePointer]
    seg_omega
  · intro ev hev
    simp only [List.mem_cons, List.mem_nil_iff, or_false] at hev
    rcases hev with rfl | rfl <;> trivial

/-- the state in which `do_allocate_with_page_in_new_page_array` starts: `page` obtained, accounted,
not yet recorded in any array -/
abbrev withPage (t : Arena) (page : Nat) : Arena :=
  { t with spaceAllocated := t.spaceAllocated + t.pageSize, pagesHeld := (t.pa, page) :: t.pagesHeld }

theorem writes_in_newArr {addr x n : Nat} {evs : List Ev}
    (h : evs = [.write addr ptrSize, .write (addr + offsetPages + ptrSize * (pageArrayCap - 1)) ptrSize])
    (hx : Ev.write x n ∈ evs) : Inside ⟨x, n⟩ ⟨addr, sizeofPageArray⟩ := by
  subst h
  simp only [List.mem_cons, Ev.write.injEq, List.mem_nil_iff, or_false] at hx
  rcases hx with ⟨rfl, rfl⟩ | ⟨rfl, rfl⟩ <;> seg_omega

/-- new page; the new page array goes into the old free range -/
theorem post_arrInOld (held : List Seg) {t : Arena} (hc : Core t) (hsub : ∀ r ∈ regions t, r ∈ held)
    (bytes : Nat) (kind : Kind) (e : Env)
    (hfull : ∀ a ∈ t.pageArrs.head?, a.pages.length = pageArrayCap)
    (hb : bytes ≤ t.pageSize) (henv : PageOKenv held t.pageSize e.pg1)
    (hfit : alignUp t.freeBegin alignofPageArray + sizeofPageArray ≤ t.freeEnd) :
    AllocPost held t ((withPage t e.pg1).allocWithPageInNewArr bytes kind e.pg1 e).1 e.pg1 bytes kind
      (.pageAlloc t.pa e.pg1 :: ((withPage t e.pg1).allocWithPageInNewArr bytes kind e.pg1 e).2.2) := by
  simp only [Arena.allocWithPageInNewArr, if_pos hfit]
  rw [c_alignofPageArray] at hfit ⊢
  have hfb := alignUp_spec t.freeBegin (a := 8) (by decide)
  generalize alignUp t.freeBegin 8 = fb8 at hfit hfb ⊢
  have hfr := fresh_of_env hsub henv.2
  have hg := (hc.geo.carve (x := ⟨fb8, sizeofPageArray⟩)
      (F' := ⟨fb8 + sizeofPageArray, t.freeEnd - (fb8 + sizeofPageArray)⟩) (by seg_omega) (by seg_omega) (by seg_omega)).newPage
    hfr (x := ⟨e.pg1, bytes⟩) (F' := ⟨e.pg1 + bytes, e.pg1 + t.pageSize - (e.pg1 + bytes)⟩)
    (by seg_omega) (by seg_omega) (by seg_omega)
  have hhome : ∃ p ∈ e.pg1 :: t.pageArrs.flatMap (·.pages), Inside ⟨fb8, sizeofPageArray⟩ ⟨p, t.pageSize⟩ := by
    rcases hc.pg.free with ⟨_, _, h2⟩ | ⟨a, rest, p, l, he, hp, hfe, hpf⟩
    · rw [c_sizeofPageArray] at hfit; omega
    · refine ⟨p, ?_, ?_⟩
      · rw [he]; simp [hp]
      · seg_omega
  obtain ⟨pageSize, pa, up, pageArrs, fb, fe, su, sa, ovArrs, dtArrs, blocks, pagesHeld, ovHeld, dtors⟩ := t
  refine ⟨⟨hc.psPow2, hc.psGe, hc.pg.newArr hfull henv.1 hfb.2.2 hhome (Nat.le_add_right _ _), hc.ov, hc.dt.mono _,
      hg.perm ((List.perm_middle).cons _), ?_⟩,
    rfl, regs_cons_pg henv.2, regs_mono_pg, ⟨rfl, rfl, rfl, rfl, rfl, rfl⟩, ?_, ?_⟩
  · have := hc.acctAlloc
    simp only [List.length_cons, Nat.mul_succ] at this ⊢; omega
  · intro x n hx
    simp only [List.mem_cons, reduceCtorEq, false_or] at hx
    exact ⟨⟨fb8, sizeofPageArray⟩, by simp [arrSegs, PageArr.seg], writes_in_newArr rfl (by simpa using hx)⟩
  · intro ev hev
    simp only [List.mem_cons, List.mem_nil_iff, or_false] at hev
    rcases hev with rfl | rfl | rfl <;> trivial

/-- new page; the new page array goes behind the block in the new page -/
theorem post_arrInNew (held : List Seg) {t : Arena} (hc : Core t) (hsub : ∀ r ∈ regions t, r ∈ held)
    (bytes : Nat) (kind : Kind) (e : Env)
    (hfull : ∀ a ∈ t.pageArrs.head?, a.pages.length = pageArrayCap)
    (henv : PageOKenv held t.pageSize e.pg1)
    (hnfit : ¬ alignUp t.freeBegin alignofPageArray + sizeofPageArray ≤ t.freeEnd)
    (hfit : bytes + sizeofPageArray ≤ t.pageSize) :
    AllocPost held t ((withPage t e.pg1).allocWithPageInNewArr bytes kind e.pg1 e).1 e.pg1 bytes kind
      (.pageAlloc t.pa e.pg1 :: ((withPage t e.pg1).allocWithPageInNewArr bytes kind e.pg1 e).2.2) := by
  simp only [Arena.allocWithPageInNewArr, if_neg hnfit, if_pos hfit]
  rw [c_alignofPageArray]
  have hb := alignUp_spec bytes (a := 8) (by decide)
  have h8 := hc.ps8
  have hb2 : alignUp bytes 8 + sizeofPageArray ≤ t.pageSize := by
    rw [alignUp_8]; rw [c_sizeofPageArray] at hfit ⊢; omega
  generalize alignUp bytes 8 = b at hb hb2 ⊢
  have hfr := fresh_of_env hsub henv.2
  have hg := (hc.geo.newPage hfr (x := ⟨e.pg1, bytes⟩)
      (F' := ⟨e.pg1 + b + sizeofPageArray, e.pg1 + t.pageSize - (e.pg1 + b + sizeofPageArray)⟩)
      (by seg_omega) (by seg_omega) (by seg_omega)).placeNewest
    (y := ⟨e.pg1 + b, sizeofPageArray⟩) (hc.geo.fresh_items hfr) (Or.inr (by seg_omega)) (by seg_omega) (by seg_omega)
  have hhome : ∃ p ∈ e.pg1 :: t.pageArrs.flatMap (·.pages), Inside ⟨e.pg1 + b, sizeofPageArray⟩ ⟨p, t.pageSize⟩ :=
    ⟨e.pg1, List.mem_cons_self, by seg_omega⟩
  have h8' : 8 ∣ e.pg1 + b := (Nat.dvd_add_right (Nat.dvd_trans h8 henv.1)).mpr hb.2.2
  obtain ⟨pageSize, pa, up, pageArrs, fb, fe, su, sa, ovArrs, dtArrs, blocks, pagesHeld, ovHeld, dtors⟩ := t
  refine ⟨⟨hc.psPow2, hc.psGe, hc.pg.newArr hfull henv.1 h8' hhome (Nat.le_trans (Nat.le_add_right _ b) (Nat.le_add_right _ _)), hc.ov, hc.dt.mono _,
      hg.perm (perm_items_pg _ _ _ _), ?_⟩,
    rfl, regs_cons_pg henv.2, regs_mono_pg, ⟨rfl, rfl, rfl, rfl, rfl, rfl⟩, ?_, ?_⟩
  · have := hc.acctAlloc
    simp only [List.length_cons, Nat.mul_succ] at this ⊢; omega
  · intro x n hx
    simp only [List.mem_cons, reduceCtorEq, false_or] at hx
    exact ⟨⟨e.pg1 + b, sizeofPageArray⟩, by simp [arrSegs, PageArr.seg], writes_in_newArr rfl (by simpa using hx)⟩
  · intro ev hev
    simp only [List.mem_cons, List.mem_nil_iff, or_false] at hev
    rcases hev with rfl | rfl | rfl <;> trivial

/-- new page; an additional page carries the new page array -/
theorem post_arrInExtra (held : List Seg) {t : Arena} (hc : Core t) (hsub : ∀ r ∈ regions t, r ∈ held)
    (bytes : Nat) (kind : Kind) (e : Env)
    (hfull : ∀ a ∈ t.pageArrs.head?, a.pages.length = pageArrayCap)
    (hb : bytes ≤ t.pageSize) (henv : PageOKenv held t.pageSize e.pg1) (henv2 : PageOKenv held t.pageSize e.pg2)
    (hd : Disj ⟨e.pg1, t.pageSize⟩ ⟨e.pg2, t.pageSize⟩)
    (hnfit : ¬ alignUp t.freeBegin alignofPageArray + sizeofPageArray ≤ t.freeEnd)
    (hnfit2 : ¬ bytes + sizeofPageArray ≤ t.pageSize) :
    AllocPost held t ((withPage t e.pg1).allocWithPageInNewArr bytes kind e.pg1 e).1 e.pg1 bytes kind
      (.pageAlloc t.pa e.pg1 :: ((withPage t e.pg1).allocWithPageInNewArr bytes kind e.pg1 e).2.2) := by
  simp only [Arena.allocWithPageInNewArr, if_neg hnfit, if_neg hnfit2]
  have h8 := hc.ps8
  have hge := hc.psGe
  have hfr := fresh_of_env hsub henv.2
  have hfr2 : ∀ r ∈ (⟨e.pg1, t.pageSize⟩ : Seg) :: regions t, Disj r ⟨e.pg2, t.pageSize⟩ := by
    intro r hr
    rcases List.mem_cons.mp hr with rfl | hr
    · exact hd
    · exact henv2.2 r (hsub r hr)
  have hg := (hc.geo.placeFresh hfr (x := ⟨e.pg1, bytes⟩) (by seg_omega)).newPage hfr2
    (x := ⟨e.pg2, sizeofPageArray⟩)
    (F' := ⟨e.pg2 + sizeofPageArray, e.pg2 + t.pageSize - (e.pg2 + sizeofPageArray)⟩)
    (by seg_omega) (by seg_omega) (by seg_omega)
  obtain ⟨pageSize, pa, up, pageArrs, fb, fe, su, sa, ovArrs, dtArrs, blocks, pagesHeld, ovHeld, dtors⟩ := t
  refine ⟨⟨hc.psPow2, hc.psGe, hc.pg.newArrExtra hfull henv.1 henv2.1 hge h8 (Nat.le_add_right _ _), hc.ov,
      hc.dt.mono _, hg.perm (perm_items_pg _ _ _ _), ?_⟩,
    rfl, ?_, ?_, ⟨rfl, rfl, rfl, rfl, rfl, rfl⟩, ?_, ?_⟩
  · have := hc.acctAlloc
    simp only [List.length_cons, Nat.mul_succ] at this ⊢; omega
  · intro r hr
    rcases regs_cons_pg (held := held) henv2.2 r hr with h | h
    · exact regs_cons_pg henv.2 r h
    · exact Or.inr h
  · intro r hr
    exact regs_mono_pg r (regs_mono_pg r hr)
  · intro x n hx
    refine ⟨⟨e.pg2, sizeofPageArray⟩, by simp [arrSegs, PageArr.seg], ?_⟩
    simp only [List.mem_cons, Ev.write.injEq, List.mem_nil_iff, or_false, reduceCtorEq, false_or] at hx
    rcases hx with ⟨rfl, rfl⟩ | ⟨rfl, rfl⟩ | ⟨rfl, rfl⟩ <;> seg_omega
  · intro ev hev
    simp only [List.mem_cons, List.mem_nil_iff, or_false] at hev
    rcases hev with rfl | rfl | rfl | rfl | rfl <;> trivial

/-! ### dispatchers (the code's own case analysis) -/

theorem allocWithPage_ret (t : Arena) (bytes : Nat) (kind : Kind) (page : Nat) (e : Env) :
    (t.allocWithPageInNewArr bytes kind page e).2.1 = page := by
  simp only [Arena.allocWithPageInNewArr]
  split
  · rfl
  · split <;> rfl

theorem post_allocWithPage (held : List Seg) {t : Arena} (hc : Core t) (hsub : ∀ r ∈ regions t, r ∈ held)
    (bytes : Nat) (kind : Kind) (e : Env)
    (hfull : ∀ a ∈ t.pageArrs.head?, a.pages.length = pageArrayCap)
    (hb : bytes ≤ t.pageSize) (henv : PageOKenv held t.pageSize e.pg1)
    (henv2 : ¬ alignUp t.freeBegin alignofPageArray + sizeofPageArray ≤ t.freeEnd →
             ¬ bytes + sizeofPageArray ≤ t.pageSize →
             PageOKenv held t.pageSize e.pg2 ∧ Disj ⟨e.pg1, t.pageSize⟩ ⟨e.pg2, t.pageSize⟩) :
    AllocPost held t ((withPage t e.pg1).allocWithPageInNewArr bytes kind e.pg1 e).1 e.pg1 bytes kind
      (.pageAlloc t.pa e.pg1 :: ((withPage t e.pg1).allocWithPageInNewArr bytes kind e.pg1 e).2.2) := by
  by_cases h1 : alignUp t.freeBegin alignofPageArray + sizeofPageArray ≤ t.freeEnd
  · exact post_arrInOld held hc hsub bytes kind e hfull hb henv h1
  · by_cases h2 : bytes + sizeofPageArray ≤ t.pageSize
    · exact post_arrInNew held hc hsub bytes kind e hfull henv h1 h2
    · exact post_arrInExtra held hc hsub bytes kind e hfull hb henv (henv2 h1 h2).1 (henv2 h1 h2).2 h1 h2

theorem post_allocOversize (held : List Seg) {t : Arena} (hc : Core t) (hsub : ∀ r ∈ regions t, r ∈ held)
    (bytes align : Nat) (kind : Kind) (e : Env) (hal : ∃ k, align = 2 ^ k)
    (hup1 : t.ovRoom = true → UpOKenv held e.up bytes align)
    (hup2 : t.ovRoom = false →
      UpOKenv held e.up (alignUp bytes (max align alignofOvArray) + sizeofOvArray) (max align alignofOvArray)) :
    AllocPost held t (t.allocOversize bytes align kind e).1 (t.allocOversize bytes align kind e).2.1 bytes kind
      (t.allocOversize bytes align kind e).2.2 ∧ align ∣ (t.allocOversize bytes align kind e).2.1 := by
  have hnew : t.ovRoom = false → (∀ a ∈ t.ovArrs.head?, a.ents.length = pageArrayCap) →
      AllocPost held t (t.allocOversizeNew bytes align kind e).1 (t.allocOversizeNew bytes align kind e).2.1 bytes kind
        (t.allocOversizeNew bytes align kind e).2.2 ∧ align ∣ (t.allocOversizeNew bytes align kind e).2.1 := by
    intro hr hfull
    refine ⟨post_ovNew held hc hsub bytes align kind e hal hfull (hup2 hr), ?_⟩
    exact Nat.dvd_trans (by rw [c_alignofOvArray]; exact (pow2_max8 hal).1) (hup2 hr).1
  unfold Arena.allocOversize
  split
  · rename_i a rest hov
    split
    · rename_i hroom
      have hr : t.ovRoom = true := by simp [Arena.ovRoom, hov, hroom]
      exact ⟨post_ovRoom held hc hsub bytes align kind e hov hroom (hup1 hr), (hup1 hr).1⟩
    · rename_i hroom
      have hr : t.ovRoom = false := by simp [Arena.ovRoom, hov, hroom]
      refine hnew hr ?_
      intro x hx
      rw [hov] at hx
      simp only [List.head?_cons, Option.mem_def, Option.some.injEq] at hx
      have := (hc.ov.shape a (by rw [hov]; exact List.mem_cons_self)).2.1
      rw [← hx]; omega
  · rename_i hov
    have hr : t.ovRoom = false := by simp [Arena.ovRoom, hov]
    exact hnew hr (by rw [hov]; simp)

theorem pageRoom_false_full {t : Arena} (hc : Core t) (h : t.pageRoom = false) :
    ∀ a ∈ t.pageArrs.head?, a.pages.length = pageArrayCap := by
  intro a ha
  cases hpa : t.pageArrs with
  | nil => rw [hpa] at ha; simp at ha
  | cons x rest =>
    rw [hpa] at ha
    simp only [List.head?_cons, Option.mem_def, Option.some.injEq] at ha
    subst ha
    have h1 := (hc.pg.shape x (by rw [hpa]; exact List.mem_cons_self)).2.1
    simp only [Arena.pageRoom, hpa, decide_eq_false_iff_not] at h
    omega

theorem post_allocInNewPage (held : List Seg) {t : Arena} (hc : Core t) (hsub : ∀ r ∈ regions t, r ∈ held)
    (bytes align : Nat) (kind : Kind) (e : Env) (hal : ∃ k, align = 2 ^ k)
    (hpg1 : bytes ≤ t.pageSize ∧ align ≤ t.pageSize → PageOKenv held t.pageSize e.pg1)
    (hpg2 : bytes ≤ t.pageSize ∧ align ≤ t.pageSize → t.pageRoom = false →
             ¬ alignUp t.freeBegin alignofPageArray + sizeofPageArray ≤ t.freeEnd →
             ¬ bytes + sizeofPageArray ≤ t.pageSize →
             PageOKenv held t.pageSize e.pg2 ∧ Disj ⟨e.pg1, t.pageSize⟩ ⟨e.pg2, t.pageSize⟩)
    (hup1 : ¬ (bytes ≤ t.pageSize ∧ align ≤ t.pageSize) → t.ovRoom = true → UpOKenv held e.up bytes align)
    (hup2 : ¬ (bytes ≤ t.pageSize ∧ align ≤ t.pageSize) → t.ovRoom = false →
      UpOKenv held e.up (alignUp bytes (max align alignofOvArray) + sizeofOvArray) (max align alignofOvArray)) :
    AllocPost held t (t.allocInNewPage bytes align kind e).1 (t.allocInNewPage bytes align kind e).2.1 bytes kind
      (t.allocInNewPage bytes align kind e).2.2 ∧ align ∣ (t.allocInNewPage bytes align kind e).2.1 := by
  by_cases hcond : bytes ≤ t.pageSize ∧ align ≤ t.pageSize
  · have henv := hpg1 hcond
    have hdvd : align ∣ e.pg1 := Nat.dvd_trans (pow2_dvd_of_le hal hc.psPow2 hcond.2) henv.1
    have hnew : t.pageRoom = false →
        AllocPost held t ((withPage t e.pg1).allocWithPageInNewArr bytes kind e.pg1 e).1
          ((withPage t e.pg1).allocWithPageInNewArr bytes kind e.pg1 e).2.1 bytes kind
          (.pageAlloc t.pa e.pg1 :: ((withPage t e.pg1).allocWithPageInNewArr bytes kind e.pg1 e).2.2) ∧
        align ∣ ((withPage t e.pg1).allocWithPageInNewArr bytes kind e.pg1 e).2.1 := by
      intro hr
      rw [allocWithPage_ret]
      exact ⟨post_allocWithPage held hc hsub bytes kind e (pageRoom_false_full hc hr) hcond.1 henv (hpg2 hcond hr), hdvd⟩
    unfold Arena.allocInNewPage
    simp only [if_pos hcond]
    split
    · rename_i a rest hpa
      split
      · rename_i hroom
        exact ⟨post_pageRoom held hc hsub bytes kind e hpa hroom hcond.1 henv, hdvd⟩
      · rename_i hroom
        exact hnew (by simp [Arena.pageRoom, hpa, hroom])
    · rename_i hpa
      exact hnew (by simp [Arena.pageRoom, hpa])
  · unfold Arena.allocInNewPage
    simp only [if_neg hcond]
    exact post_allocOversize held hc hsub bytes align kind e hal
      (fun h => hup1 hcond h) (fun h => hup2 hcond h)

/-! ### `allocate` -/

/-- the state after `do_align` and `_space_used += bytes` -/
abbrev alignedState (s : Arena) (bytes align : Nat) : Arena :=
  { s with freeBegin := alignUp s.freeBegin align, spaceUsed := s.spaceUsed + bytes }

theorem core_aligned {s : Arena} (hc : Core s) (bytes : Nat) {align : Nat} (ha : 0 < align) :
    Core (alignedState s bytes align) := by
  have hfb := alignUp_spec s.freeBegin ha
  refine ⟨hc.psPow2, hc.psGe, ?_, hc.ov, hc.dt, ?_, hc.acctAlloc⟩
  · refine hc.pg.setFree hfb.1 ?_
    intro he
    rcases hc.pg.free with ⟨_, h1, _⟩ | ⟨a, rest, p, l, he', _⟩
    · show alignUp s.freeBegin align = 0
      rw [h1]; exact alignUp_zero ha
    · rw [he] at he'; cases he'
  · show Geo (regions s) (items s) ⟨alignUp s.freeBegin align, s.freeEnd - alignUp s.freeBegin align⟩
    refine hc.geo.shrink ?_
    generalize alignUp s.freeBegin align = fb at hfb
    seg_omega

/-- Assumptions on what the allocators answer to one `allocate(bytes, align)` call of resource `s`,
`held` being every region currently held by anybody: only the answers the call actually consumes
are constrained. -/
def AllocEnvOK (held : List Seg) (s : Arena) (bytes align : Nat) (e : Env) : Prop :=
  (1 ≤ s.pagesNeeded bytes align → PageOKenv held s.pageSize e.pg1) ∧
  (s.pagesNeeded bytes align = 2 →
      PageOKenv held s.pageSize e.pg2 ∧ Disj ⟨e.pg1, s.pageSize⟩ ⟨e.pg2, s.pageSize⟩) ∧
  (∀ q ∈ s.upRequest bytes align, UpOKenv held e.up q.1 q.2)

instance (held : List Seg) (ps p : Nat) : Decidable (PageOKenv held ps p) := by unfold PageOKenv; infer_instance
instance (held : List Seg) (u b a : Nat) : Decidable (UpOKenv held u b a) := by unfold UpOKenv; infer_instance
instance (held : List Seg) (s : Arena) (bytes align : Nat) (e : Env) : Decidable (AllocEnvOK held s bytes align e) := by
  unfold AllocEnvOK; infer_instance

theorem allocate_post (held : List Seg) {s : Arena} (hc : Core s) (hsub : ∀ r ∈ regions s, r ∈ held)
    (bytes align : Nat) (kind : Kind) (e : Env) (hal : ∃ k, align = 2 ^ k)
    (henv : AllocEnvOK held s bytes align e) :
    AllocPost held (alignedState s bytes align) (s.allocate bytes align kind e).1 (s.allocate bytes align kind e).2.1
      bytes kind (s.allocate bytes align kind e).2.2 ∧ align ∣ (s.allocate bytes align kind e).2.1 := by
  have ha := pow2_pos hal
  have hc1 := core_aligned hc bytes ha
  by_cases hfast : alignUp s.freeBegin align + bytes ≤ s.freeEnd
  · unfold Arena.allocate
    simp only [if_pos hfast]
    exact ⟨post_fast held hc1 bytes kind hfast, alignUp_dvd _ ha⟩
  · unfold Arena.allocate
    simp only [if_neg hfast]
    refine post_allocInNewPage held hc1 hsub bytes align kind e hal ?_ ?_ ?_ ?_
    · intro hcond
      refine henv.1 ?_
      have hcond' : bytes ≤ s.pageSize ∧ align ≤ s.pageSize := hcond
      simp only [Arena.pagesNeeded, Arena.allocPath, if_neg hfast, if_pos hcond']
      by_cases h1 : s.pageRoom = true
      · simp [h1]
      · by_cases h2 : alignUp (alignUp s.freeBegin align) alignofPageArray + sizeofPageArray ≤ s.freeEnd
        · simp [h1, h2]
        · by_cases h3 : bytes + sizeofPageArray ≤ s.pageSize <;> simp [h1, h2, h3]
    · intro hcond hroom h1 h2
      refine henv.2.1 ?_
      have hroom' : s.pageRoom = false := hroom
      have hcond' : bytes ≤ s.pageSize ∧ align ≤ s.pageSize := hcond
      have h1' : ¬ alignUp (alignUp s.freeBegin align) alignofPageArray + sizeofPageArray ≤ s.freeEnd := h1
      have h2' : ¬ bytes + sizeofPageArray ≤ s.pageSize := h2
      simp only [Arena.pagesNeeded, Arena.allocPath, if_neg hfast, if_pos hcond', hroom', if_neg h1', if_neg h2']
      simp
    · intro hcond hroom
      refine henv.2.2 (_, _) ?_
      rw [Option.mem_def]
      have hroom' : s.ovRoom = true := hroom
      have hcond' : ¬ (bytes ≤ s.pageSize ∧ align ≤ s.pageSize) := hcond
      simp only [Arena.upRequest, Arena.allocPath, if_neg hfast, if_neg hcond', hroom']
      simp
    · intro hcond hroom
      refine henv.2.2 (_, _) ?_
      rw [Option.mem_def]
      have hroom' : s.ovRoom = false := hroom
      have hcond' : ¬ (bytes ≤ s.pageSize ∧ align ≤ s.pageSize) := hcond
      simp only [Arena.upRequest, Arena.allocPath, if_neg hfast, if_neg hcond', hroom']
      simp

/-- `allocate` preserves the invariant, under the allocator assumptions. -/
theorem allocate_inv (held : List Seg) {s : Arena} (hI : Inv s) (hsub : ∀ r ∈ regions s, r ∈ held)
    (bytes align : Nat) (kind : Kind) (e : Env) (hal : ∃ k, align = 2 ^ k)
    (henv : AllocEnvOK held s bytes align e) : Inv (s.allocate bytes align kind e).1 := by
  have hp := (allocate_post held hI.core hsub bytes align kind e hal henv).1
  refine ⟨hp.core, ?_⟩
  rw [hp.frame.2.2.2.2.2, hp.blocks]
  show s.spaceUsed + bytes = _
  simp only [List.map_cons, List.sum_cons]
  have := hI.acctUsed
  omega

end Babylon.Arena
