/-
  Executable model of `babylon::ExclusiveMonotonicBufferResource`
  (src/babylon/reusable/memory_resource.{h,cpp}), property C06.  Core Lean only.

  Addresses are `Nat`; `0` is `nullptr`.  The page allocator and the upstream memory resource are
  the *environment*: every operation that may call them carries the addresses they answer with
  (`Env`), the theorems quantify over all answers that satisfy the stated assumptions.

  ASSUMPTION ABOUT THE PAGE ALLOCATOR (not a property of this class): every page is
  `page_size()`-aligned, `page_size()` is a power of two, and a page is not handed out again while
  it is out (`PageOKenv`).  `do_allocate_in_new_page` returns the start of a fresh page for any
  request with alignment <= page size without aligning it, so "aligned as requested" holds only on
  such an allocator.  The `PageAllocator` interface does not document this; for the library's own
  allocators it is pinned by `gen_page_allocator_alignment` (NewDeletePageAllocator asks
  `operator new` for `align_val_t(_page_size)` with `_page_size = bit_ceil(..)`, everything else
  forwards pages from it) and checked on the real allocators for page sizes 128 … 65536 by the
  harness's spy (`page_misaligned`, `page_twice`).

  State = the C++ fields.  The three intrusive singly linked lists (`_last_page_array`,
  `_last_oversize_page_array`, `_last_destroy_task_array`, each linked through `next`) are Lean
  lists, newest array first; every array records its own address and the entries that are filled
  (arrays are filled from the top, so the head of `pages` is `*_last_page_pointer`).  The three
  `_last_*_pointer` fields are functions of that (`lastPagePointer` …) — for a `nullptr` array they
  evaluate to `offsetof(pages)`, exactly what the default member initialisers produce.
  Ghost fields (`blocks pagesHeld ovHeld dtors`) record what the environment handed out and what the
  callers were given; nothing in the executable part reads them.

  Every operation returns the list of externally visible events in program order: allocator calls,
  destructor calls, and the bookkeeping reads/writes the resource performs on memory it manages.
-/
import Babylon.Gen.Arena

namespace Babylon.Arena
open Babylon.Gen.Arena

/-- `(x + a - 1) & -a` for a power of two `a` (no 64-bit overflow): round `x` up to a multiple of `a`. -/
def alignUp (x a : Nat) : Nat := (x + a - 1) / a * a

structure PageArr where
  addr : Nat
  pages : List Nat
  deriving Repr, DecidableEq, Inhabited

structure OvEntry where
  page : Nat
  bytes : Nat
  align : Nat
  deriving Repr, DecidableEq, Inhabited

structure OvArr where
  addr : Nat
  ents : List OvEntry
  deriving Repr, DecidableEq, Inhabited

structure DtArr where
  addr : Nat
  tasks : List Nat          -- a task `(ptr, destructor)` is abstracted to a tag
  deriving Repr, DecidableEq, Inhabited

/-- who asked for a block: a caller of `allocate`, or the resource itself for a `DestroyTaskArray` -/
inductive Kind | user | dtArray
  deriving Repr, DecidableEq, Inhabited

structure Block where
  addr : Nat
  bytes : Nat
  kind : Kind
  deriving Repr, DecidableEq, Inhabited

structure Arena where
  pageSize : Nat            -- `_page_allocator->page_size()`
  pa : Nat                  -- identity of `_page_allocator`
  up : Nat                  -- identity of `_upstream`
  pageArrs : List PageArr   -- `_last_page_array` chain (+ `_last_page_pointer`)
  freeBegin : Nat           -- `_free_begin`
  freeEnd : Nat             -- `_free_end`
  spaceUsed : Nat           -- `_space_used`
  spaceAllocated : Nat      -- `_space_allocated`
  ovArrs : List OvArr       -- `_last_oversize_page_array` chain (+ pointer)
  dtArrs : List DtArr       -- `_last_destroy_task_array` chain (+ pointer)
  -- ghost
  blocks : List Block               -- blocks handed out since the last release, newest first
  pagesHeld : List (Nat × Nat)      -- (page allocator, page) obtained and not yet returned, newest first
  ovHeld : List (Nat × OvEntry)     -- (upstream, block, bytes, alignment) obtained and not yet returned
  dtors : List Nat                  -- registered destructors not yet run, newest first
  deriving Repr, DecidableEq, Inhabited

/-- A default-constructed resource after `set_page_allocator` / `set_upstream`. -/
def Arena.fresh (pa pageSize up : Nat) : Arena :=
  { pageSize := pageSize, pa := pa, up := up, pageArrs := [], freeBegin := 0, freeEnd := 0,
    spaceUsed := 0, spaceAllocated := 0, ovArrs := [], dtArrs := [],
    blocks := [], pagesHeld := [], ovHeld := [], dtors := [] }

inductive Ev
  | pageAlloc (pa addr : Nat)
  | upAlloc (up addr bytes align : Nat)
  | write (addr len : Nat)          -- bookkeeping store into managed memory
  | read (addr len : Nat)           -- bookkeeping load from managed memory
  | dtor (tag : Nat)
  | pageFree (pa addr : Nat)
  | upFree (up addr bytes align : Nat)
  deriving Repr, DecidableEq, Inhabited

/-- What the environment answers during one operation: the page allocator's first and second
`allocate()` results and the upstream's `allocate(..)` result (unused ones are ignored). -/
structure Env where
  pg1 : Nat
  pg2 : Nat
  up : Nat
  deriving Repr, DecidableEq, Inhabited

/-! ### derived pointer fields -/

/-- `_last_page_pointer` -/
def Arena.lastPagePointer (s : Arena) : Nat :=
  match s.pageArrs with
  | [] => offsetPages
  | a :: _ => a.addr + offsetPages + ptrSize * (pageArrayCap - a.pages.length)

/-- `_last_page_pointer > _last_page_array->pages` -/
def Arena.pageRoom (s : Arena) : Bool :=
  match s.pageArrs with
  | [] => false
  | a :: _ => a.pages.length < pageArrayCap

def Arena.lastOvPointer (s : Arena) : Nat :=
  match s.ovArrs with
  | [] => offsetOvPages
  | a :: _ => a.addr + offsetOvPages + sizeofOvPage * (pageArrayCap - a.ents.length)

/-- `_last_oversize_page_pointer > _last_oversize_page_array->pages` -/
def Arena.ovRoom (s : Arena) : Bool :=
  match s.ovArrs with
  | [] => false
  | a :: _ => a.ents.length < pageArrayCap

def Arena.lastDtPointer (s : Arena) : Nat :=
  match s.dtArrs with
  | [] => offsetTasks
  | a :: _ => a.addr + offsetTasks + sizeofDestroyTask * (destroyArrayCap - a.tasks.length)

/-- `_last_destroy_task_pointer != _last_destroy_task_array->tasks` -/
def Arena.dtRoom (s : Arena) : Bool :=
  match s.dtArrs with
  | [] => false
  | a :: _ => a.tasks.length < destroyArrayCap

/-! ### allocate -/

/-- Which way `allocate(bytes, alignment)` goes. -/
inductive Path
  | fast        -- fits `[_free_begin, _free_end)` after aligning
  | pageRoom    -- new page, room in the current page array
  | arrInOld    -- new page + new page array placed in the old free range
  | arrInNew    -- new page + new page array placed behind the block in the new page
  | arrInExtra  -- new page + additional page carrying the new page array
  | ovRoom      -- upstream block, room in the current oversize array
  | ovNew       -- upstream block carrying a new oversize array behind the payload
  deriving Repr, DecidableEq, Inhabited

def Arena.allocPath (s : Arena) (bytes align : Nat) : Path :=
  let fb := alignUp s.freeBegin align
  if fb + bytes ≤ s.freeEnd then .fast
  else if bytes ≤ s.pageSize ∧ align ≤ s.pageSize then
    if s.pageRoom then .pageRoom
    else if alignUp fb alignofPageArray + sizeofPageArray ≤ s.freeEnd then .arrInOld
    else if bytes + sizeofPageArray ≤ s.pageSize then .arrInNew
    else .arrInExtra
  else if s.ovRoom then .ovRoom else .ovNew

/-- number of `_page_allocator->allocate()` calls the operation makes -/
def Arena.pagesNeeded (s : Arena) (bytes align : Nat) : Nat :=
  match s.allocPath bytes align with
  | .fast | .ovRoom | .ovNew => 0
  | .pageRoom | .arrInOld | .arrInNew => 1
  | .arrInExtra => 2

/-- `(bytes, alignment)` of the `_upstream->allocate` call the operation makes, if any -/
def Arena.upRequest (s : Arena) (bytes align : Nat) : Option (Nat × Nat) :=
  match s.allocPath bytes align with
  | .ovRoom => some (bytes, align)
  | .ovNew =>
    let al := max align alignofOvArray
    some (alignUp bytes al + sizeofOvArray, al)
  | _ => none

/-- `do_allocate_in_oversize_page`, second half: no room in the current oversize array -/
def Arena.allocOversizeNew (s : Arena) (bytes align : Nat) (kind : Kind) (e : Env) : Arena × Nat × List Ev :=
  let al := max align alignofOvArray
  let b := alignUp bytes al
  let page := e.up
  let ent : OvEntry := ⟨page, b + sizeofOvArray, al⟩
  let arr : OvArr := ⟨page + b, [ent]⟩
  ({ s with spaceAllocated := s.spaceAllocated + (b + sizeofOvArray),
            ovArrs := arr :: s.ovArrs,
            ovHeld := (s.up, ent) :: s.ovHeld,
            blocks := ⟨page, bytes, kind⟩ :: s.blocks },
   page,
   [.upAlloc s.up page (b + sizeofOvArray) al, .write (page + b) ptrSize,
    .write (page + b + offsetOvPages + sizeofOvPage * (destroyArrayCap - 1)) sizeofOvPage])

/-- `do_allocate_in_oversize_page` -/
def Arena.allocOversize (s : Arena) (bytes align : Nat) (kind : Kind) (e : Env) : Arena × Nat × List Ev :=
  match s.ovArrs with
  | a :: rest =>
    if a.ents.length < pageArrayCap then
      let page := e.up
      let ent : OvEntry := ⟨page, bytes, align⟩
      ({ s with spaceAllocated := s.spaceAllocated + bytes,
                ovArrs := { a with ents := ent :: a.ents } :: rest,
                ovHeld := (s.up, ent) :: s.ovHeld,
                blocks := ⟨page, bytes, kind⟩ :: s.blocks },
       page,
       [.upAlloc s.up page bytes align, .write (s.lastOvPointer - sizeofOvPage) sizeofOvPage])
    else s.allocOversizeNew bytes align kind e
  | [] => s.allocOversizeNew bytes align kind e

/-- `do_allocate_with_page_in_new_page_array` (the caller has already obtained `page`) -/
def Arena.allocWithPageInNewArr (s : Arena) (bytes : Nat) (kind : Kind) (page : Nat) (e : Env) :
    Arena × Nat × List Ev :=
  let ps := s.pageSize
  let fb := alignUp s.freeBegin alignofPageArray
  let blk : Block := ⟨page, bytes, kind⟩
  let lastEntry (arr : Nat) := arr + offsetPages + ptrSize * (pageArrayCap - 1)
  if fb + sizeofPageArray ≤ s.freeEnd then
    ({ s with pageArrs := ⟨fb, [page]⟩ :: s.pageArrs, freeBegin := page + bytes, freeEnd := page + ps,
              blocks := blk :: s.blocks },
     page, [.write fb ptrSize, .write (lastEntry fb) ptrSize])
  else if bytes + sizeofPageArray ≤ ps then
    let b := alignUp bytes alignofPageArray
    ({ s with pageArrs := ⟨page + b, [page]⟩ :: s.pageArrs, freeBegin := page + b + sizeofPageArray,
              freeEnd := page + ps, blocks := blk :: s.blocks },
     page, [.write (page + b) ptrSize, .write (lastEntry (page + b)) ptrSize])
  else
    let add := e.pg2
    ({ s with spaceAllocated := s.spaceAllocated + ps,
              pagesHeld := (s.pa, add) :: s.pagesHeld,
              pageArrs := ⟨add, [add, page]⟩ :: s.pageArrs,
              freeBegin := add + sizeofPageArray, freeEnd := add + ps,
              blocks := blk :: s.blocks },
     page, [.pageAlloc s.pa add, .write add ptrSize, .write (lastEntry add) ptrSize,
            .write (lastEntry add - ptrSize) ptrSize])

/-- `do_allocate_in_new_page` -/
def Arena.allocInNewPage (s : Arena) (bytes align : Nat) (kind : Kind) (e : Env) : Arena × Nat × List Ev :=
  let ps := s.pageSize
  if bytes ≤ ps ∧ align ≤ ps then
    let page := e.pg1
    let s1 := { s with spaceAllocated := s.spaceAllocated + ps, pagesHeld := (s.pa, page) :: s.pagesHeld }
    match s.pageArrs with
    | a :: rest =>
      if a.pages.length < pageArrayCap then
        ({ s1 with pageArrs := { a with pages := page :: a.pages } :: rest,
                   freeBegin := page + bytes, freeEnd := page + ps,
                   blocks := ⟨page, bytes, kind⟩ :: s.blocks },
         page, [.pageAlloc s.pa page, .write (s.lastPagePointer - ptrSize) ptrSize])
      else
        let (s2, p, evs) := s1.allocWithPageInNewArr bytes kind page e
        (s2, p, .pageAlloc s.pa page :: evs)
    | [] =>
      let (s2, p, evs) := s1.allocWithPageInNewArr bytes kind page e
      (s2, p, .pageAlloc s.pa page :: evs)
  else s.allocOversize bytes align kind e

/-- `allocate(bytes, alignment)` = `do_align` ; `do_allocate_already_aligned` -/
def Arena.allocate (s : Arena) (bytes align : Nat) (kind : Kind) (e : Env) : Arena × Nat × List Ev :=
  let fb := alignUp s.freeBegin align
  let s1 := { s with freeBegin := fb, spaceUsed := s.spaceUsed + bytes }
  if fb + bytes ≤ s.freeEnd then
    ({ s1 with freeBegin := fb + bytes, blocks := ⟨fb, bytes, kind⟩ :: s.blocks }, fb, [])
  else s1.allocInNewPage bytes align kind e

/-! ### register_destructor -/

/-- `do_get_destroy_task_in_new_array` + the two stores of `register_destructor` -/
def Arena.registerNewArr (s : Arena) (tag : Nat) (e : Env) : Arena × List Ev :=
  let (s1, p, evs) := s.allocate sizeofDtArray alignofDtArray .dtArray e
  ({ s1 with dtArrs := ⟨p, [tag]⟩ :: s1.dtArrs, dtors := tag :: s1.dtors },
   evs ++ [.write p ptrSize,
           .write (p + offsetTasks + sizeofDestroyTask * (destroyArrayCap - 1)) sizeofDestroyTask])

def Arena.register (s : Arena) (tag : Nat) (e : Env) : Arena × List Ev :=
  match s.dtArrs with
  | a :: rest =>
    if a.tasks.length < destroyArrayCap then
      ({ s with dtArrs := { a with tasks := tag :: a.tasks } :: rest, dtors := tag :: s.dtors },
       [.write (s.lastDtPointer - sizeofDestroyTask) sizeofDestroyTask])
    else s.registerNewArr tag e
  | [] => s.registerNewArr tag e

/-! ### release -/

/-- addresses of the filled entries of an array at `addr` with `k` of `cap` entries filled -/
def entryAddrs (addr off sz cap k : Nat) : List Nat :=
  (List.range k).map (fun i => addr + off + sz * (cap - k + i))

/-- `destruct_all`: newest array first, inside an array from `_last_destroy_task_pointer` upwards;
the `next` field is read after the array's tasks have run. -/
def destructAll : List DtArr → List Ev
  | [] => []
  | a :: rest =>
    ((entryAddrs a.addr offsetTasks sizeofDestroyTask destroyArrayCap a.tasks.length).zip a.tasks).flatMap
        (fun (p, t) => [Ev.read p sizeofDestroyTask, Ev.dtor t])
      ++ [.read a.addr ptrSize] ++ destructAll rest

/-- page loop of `release`: read `next`, copy the filled entries to the stack, return them. -/
def releasePages (pa : Nat) : List PageArr → List Ev
  | [] => []
  | a :: rest =>
    [.read a.addr ptrSize]
      ++ (entryAddrs a.addr offsetPages ptrSize pageArrayCap a.pages.length).map (fun p => Ev.read p ptrSize)
      ++ a.pages.map (fun p => Ev.pageFree pa p)
      ++ releasePages pa rest

/-- oversize loop of `release`: read `next`, then entry by entry read it and return the block. -/
def releaseOv (up : Nat) : List OvArr → List Ev
  | [] => []
  | a :: rest =>
    [.read a.addr ptrSize]
      ++ ((entryAddrs a.addr offsetOvPages sizeofOvPage pageArrayCap a.ents.length).zip a.ents).flatMap
          (fun (p, en) => [Ev.read p sizeofOvPage, Ev.upFree up en.page en.bytes en.align])
      ++ releaseOv up rest

def Arena.release (s : Arena) : Arena × List Ev :=
  ({ s with pageArrs := [], ovArrs := [], dtArrs := [],
            freeBegin := if s.pageArrs.isEmpty then s.freeBegin else 0,
            freeEnd := if s.pageArrs.isEmpty then s.freeEnd else 0,
            spaceUsed := 0, spaceAllocated := 0,
            blocks := [], pagesHeld := [], ovHeld := [], dtors := [] },
   destructAll s.dtArrs ++ releasePages s.pa s.pageArrs ++ releaseOv s.up s.ovArrs)

/-! ### contains -/

/-- `page_size - static_cast<size_t>(_free_end - _free_begin)` in 64-bit arithmetic -/
def Arena.lastPageUsed (s : Arena) : Nat :=
  if s.freeBegin ≤ s.freeEnd then (s.pageSize + 2 ^ 64 - (s.freeEnd - s.freeBegin) % 2 ^ 64) % 2 ^ 64
  else (s.pageSize + (s.freeBegin - s.freeEnd)) % 2 ^ 64

def Arena.contains (s : Arena) (ptr : Nat) : Bool :=
  let pages := s.pageArrs.flatMap (·.pages)
  (match pages with
   | [] => false
   | p :: rest => (p ≤ ptr && ptr < p + s.lastPageUsed) || rest.any (fun q => q ≤ ptr && ptr < q + s.pageSize))
  || (s.ovArrs.flatMap (·.ents)).any (fun en => en.page ≤ ptr && ptr < en.page + en.bytes)

/-! ### operations on one resource -/

inductive Op
  | alloc (bytes align : Nat) (e : Env)
  | reg (tag : Nat) (e : Env)
  | contains (ptr : Nat)
  | release
  deriving Repr, DecidableEq, Inhabited

def Arena.step (s : Arena) : Op → Arena × List Ev
  | .alloc bytes align e => let (s', _, evs) := s.allocate bytes align .user e; (s', evs)
  | .reg tag e => s.register tag e
  | .contains _ => (s, [])
  | .release => s.release

/-! ### two resources, move -/

structure Sys where
  a : Arena
  b : Arena
  deriving Repr, DecidableEq, Inhabited

def Sys.get (s : Sys) (r : Bool) : Arena := if r then s.b else s.a
def Sys.set (s : Sys) (r : Bool) (x : Arena) : Sys := if r then { s with b := x } else { s with a := x }

/-- `dst = std::move(src)`: the members named in `Gen.moveSwaps` are exchanged.  All state fields
are always in that list (`gen_move_swaps`); whether `_upstream` is comes from the source. -/
def moveAssign (dst src : Arena) : Arena × Arena :=
  if moveSwapsUpstream then (src, dst)
  else ({ src with up := dst.up }, { dst with up := src.up })

inductive SOp
  | on (r : Bool) (op : Op)
  | move (src dst : Bool)                 -- `dst = std::move(src)`
  | renew (r : Bool) (pa pageSize up : Nat) -- destroy (= release), default-construct, set allocators
  deriving Repr, DecidableEq, Inhabited

def Sys.step (s : Sys) : SOp → Sys × List Ev
  | .on r op => let (x, evs) := (s.get r).step op; (s.set r x, evs)
  | .move src dst =>
    if src = dst then (s, [])
    else
      let (d, sr) := moveAssign (s.get dst) (s.get src)
      ((s.set dst d).set src sr, [])
  | .renew r pa ps up => let (_, evs) := (s.get r).release; (s.set r (Arena.fresh pa ps up), evs)

def Sys.next (s : Sys) (op : SOp) : Sys := (s.step op).1

/-! ### shared / swiss variants: one exclusive resource per thread -/

/-- `destruct_all()` called on its own (first pass of the shared `release`) -/
def Arena.destructAllSt (s : Arena) : Arena × List Ev :=
  ({ s with dtArrs := [], dtors := [] }, destructAll s.dtArrs)

/-- `SharedMonotonicBufferResource::release()` (and `SwissMemoryResource::release()`, which only
clears its arena pointer first) over the per-thread resources in `for_each` order: first pass
`destruct_all()` on every one, second pass `release()` on every one.  Called quiescently (no thread
is allocating), so this is sequential. -/
def sharedRelease (subs : List Arena) : List Arena × List Ev :=
  let p1 := subs.map Arena.destructAllSt
  (p1.map (fun x => x.1.release.1), p1.flatMap (·.2) ++ p1.flatMap (fun x => x.1.release.2))

/-! ### the source text the model was transcribed from (compared with `Gen` by `gen_stmts_*`) -/
namespace Skel
def fieldInits : List String := [
  "_last_page_array{nullptr}",
  "_last_page_pointer{_last_page_array->pages}",
  "_free_begin{nullptr}",
  "_free_end{nullptr}",
  "_space_used{0}",
  "_space_allocated{0}",
  "_last_oversize_page_array{nullptr}",
  "_last_oversize_page_pointer{_last_oversize_page_array->pages}",
  "_last_destroy_task_array{nullptr}",
  "_last_destroy_task_pointer{_last_destroy_task_array->tasks}"
]
/-- every state field of the model is exchanged by the move assignment -/
def stateFields : List String := [
  "_page_allocator",
  "_last_page_array",
  "_last_page_pointer",
  "_free_begin",
  "_free_end",
  "_space_used",
  "_space_allocated",
  "_last_oversize_page_array",
  "_last_oversize_page_pointer",
  "_last_destroy_task_array",
  "_last_destroy_task_pointer"
]
def stmts_do_allocate_in_new_page : List String := [
  "auto page_size=_page_allocator->page_size()",
  "if(bytes<=page_size&&alignment<=page_size){",
  "auto page=reinterpret_cast<char*>(_page_allocator->allocate())",
  "_space_allocated +=page_size",
  "if(_last_page_pointer>_last_page_array->pages){",
  "*--_last_page_pointer=page",
  "_free_begin=page + bytes",
  "_free_end=page + page_size",
  "return page",
  "}",
  "else{",
  "return do_allocate_with_page_in_new_page_array(bytes,page)",
  "}",
  "}",
  "return do_allocate_in_oversize_page(bytes,alignment)"
]
def stmts_do_allocate_with_page_in_new_page_array : List String := [
  "auto page_size=_page_allocator->page_size()",
  "do_align<alignof(PageArray)>()",
  "if(_free_begin + sizeof(PageArray)<=_free_end){",
  "auto new_page_array=reinterpret_cast<PageArray*>(_free_begin)",
  "new_page_array->next=_last_page_array",
  "_last_page_array=new_page_array",
  "_last_page_pointer=&new_page_array->pages[PAGE_ARRAY_CAPACITY - 1]",
  "*_last_page_pointer=page",
  "_free_begin=page + bytes",
  "_free_end=page + page_size",
  "}",
  "else if(bytes + sizeof(PageArray)<=page_size){",
  "bytes=(bytes + alignof(PageArray)- 1)&static_cast<size_t>(-alignof(PageArray))",
  "auto new_page_array=reinterpret_cast<PageArray*>(page + bytes)",
  "new_page_array->next=_last_page_array",
  "_last_page_array=new_page_array",
  "_last_page_pointer=&new_page_array->pages[PAGE_ARRAY_CAPACITY - 1]",
  "*_last_page_pointer=page",
  "_free_begin=page + bytes + sizeof(PageArray)",
  "_free_end=page + page_size",
  "}",
  "else{",
  "auto additional_page=reinterpret_cast<char*>(_page_allocator->allocate())",
  "_space_allocated +=page_size",
  "auto new_page_array=reinterpret_cast<PageArray*>(additional_page)",
  "new_page_array->next=_last_page_array",
  "_last_page_array=new_page_array",
  "new_page_array->pages[PAGE_ARRAY_CAPACITY - 1]=page",
  "_last_page_pointer=&new_page_array->pages[PAGE_ARRAY_CAPACITY - 2]",
  "*_last_page_pointer=additional_page",
  "_free_begin=additional_page + sizeof(PageArray)",
  "_free_end=additional_page + page_size",
  "}",
  "return page"
]
def stmts_do_allocate_in_oversize_page : List String := [
  "oversize_page_concurrent_adder()<<1",
  "if(_last_oversize_page_pointer>_last_oversize_page_array->pages){",
  "auto page=reinterpret_cast<char*>(_upstream->allocate(bytes,alignment))",
  "_space_allocated +=bytes",
  "--_last_oversize_page_pointer",
  "_last_oversize_page_pointer->page=page",
  "_last_oversize_page_pointer->bytes=bytes",
  "_last_oversize_page_pointer->alignment=alignment",
  "return page",
  "}",
  "alignment=::std::max(alignment,alignof(OversizePageArray))",
  "bytes=(bytes + alignment - 1)&static_cast<size_t>(-alignment)",
  "auto page=reinterpret_cast<char*>(_upstream->allocate(bytes + sizeof(OversizePageArray),alignment))",
  "_space_allocated +=bytes + sizeof(OversizePageArray)",
  "auto new_page_array=reinterpret_cast<OversizePageArray*>(page + bytes)",
  "new_page_array->next=_last_oversize_page_array",
  "_last_oversize_page_array=new_page_array",
  "_last_oversize_page_pointer=&new_page_array->pages[DESTROY_TASK_ARRAY_CAPACITY - 1]",
  "_last_oversize_page_pointer->page=page",
  "_last_oversize_page_pointer->bytes=bytes + sizeof(OversizePageArray)",
  "_last_oversize_page_pointer->alignment=alignment",
  "return page"
]
def stmts_do_get_destroy_task_in_new_array : List String := [
  "auto array=reinterpret_cast<DestroyTaskArray*>(allocate<alignof(DestroyTaskArray)>(sizeof(DestroyTaskArray)))",
  "array->next=_last_destroy_task_array",
  "_last_destroy_task_array=array",
  "_last_destroy_task_pointer=&array->tasks[DESTROY_TASK_ARRAY_CAPACITY - 1]",
  "return _last_destroy_task_pointer"
]
def stmts_release : List String := [
  "destruct_all()",
  "char*tmp_pages[PAGE_ARRAY_CAPACITY]",
  "while(_last_page_array!=nullptr){",
  "auto size=static_cast<size_t>(_last_page_array->pages + PAGE_ARRAY_CAPACITY - _last_page_pointer)",
  "_last_page_array=_last_page_array->next",
  "for(size_t i=0;i<size;++i){",
  "tmp_pages[i]=_last_page_pointer[i]",
  "}",
  "_page_allocator->deallocate(reinterpret_cast<void**>(tmp_pages),size)",
  "_last_page_pointer=_last_page_array->pages",
  "_free_begin=nullptr",
  "_free_end=nullptr",
  "}",
  "while(_last_oversize_page_array!=nullptr){",
  "auto iter=_last_oversize_page_pointer",
  "auto end=_last_oversize_page_array->pages + PAGE_ARRAY_CAPACITY",
  "_last_oversize_page_array=_last_oversize_page_array->next",
  "while(iter!=end){",
  "_upstream->deallocate(iter->page,iter->bytes,iter->alignment)",
  "++iter",
  "}",
  "_last_oversize_page_pointer=_last_oversize_page_array->pages",
  "}",
  "_space_used=0",
  "_space_allocated=0"
]
def stmts_destruct_all : List String := [
  "while(_last_destroy_task_array!=nullptr){",
  "auto array=_last_destroy_task_array",
  "auto end=&array->tasks[DESTROY_TASK_ARRAY_CAPACITY]",
  "for(auto task=_last_destroy_task_pointer;task!=end;++task){",
  "task->destructor(task->ptr)",
  "}",
  "_last_destroy_task_array=array->next",
  "_last_destroy_task_pointer=_last_destroy_task_array->tasks",
  "}"
]
def stmts_contains : List String := [
  "auto page_size=_page_allocator->page_size()",
  "auto page_array=_last_page_array",
  "auto iter=_last_page_pointer",
  "auto size=page_size - static_cast<size_t>(_free_end - _free_begin)",
  "while(page_array!=nullptr){",
  "auto end=&page_array->pages[PAGE_ARRAY_CAPACITY]",
  "for(;iter<end;++iter){",
  "if(ptr>=*iter&&ptr<*iter + size){",
  "return true",
  "}",
  "size=page_size",
  "}",
  "page_array=page_array->next",
  "iter=page_array->pages",
  "}",
  "}",
  "auto page_array=_last_oversize_page_array",
  "auto iter=_last_oversize_page_pointer",
  "while(page_array!=nullptr){",
  "auto end=&page_array->pages[PAGE_ARRAY_CAPACITY]",
  "for(;iter<end;++iter){",
  "if(ptr>=iter->page&&ptr<iter->page + iter->bytes){",
  "return true",
  "}",
  "}",
  "page_array=page_array->next",
  "iter=page_array->pages",
  "}",
  "}",
  "return false"
]
def stmts_allocate : List String := [
  "do_align(alignment)",
  "return do_allocate_already_aligned(bytes,alignment)"
]
def stmts_allocate_tpl : List String := [
  "do_align<alignment>()",
  "return do_allocate_already_aligned(bytes,alignment)"
]
def stmts_do_align : List String := [
  "auto free_begin=reinterpret_cast<uintptr_t>(_free_begin)",
  "free_begin=(free_begin + alignment - 1)&static_cast<uintptr_t>(-alignment)",
  "_free_begin=reinterpret_cast<char*>(free_begin)"
]
def stmts_do_allocate_already_aligned : List String := [
  "_space_used +=bytes",
  "auto result=_free_begin",
  "auto next=result + bytes",
  "if((__builtin_expect(false ||(next<=_free_end),true))){",
  "_free_begin=next",
  "return result",
  "}",
  "return do_allocate_in_new_page(bytes,alignment)"
]
def stmts_get_destroy_task : List String := [
  "if(_last_destroy_task_pointer!=_last_destroy_task_array->tasks){",
  "return --_last_destroy_task_pointer",
  "}",
  "return do_get_destroy_task_in_new_array()"
]
def stmts_register_destructor : List String := [
  "auto task=get_destroy_task()",
  "task->destructor=destructor",
  "task->ptr=ptr"
]
def stmts_shared_release : List String := [
  "_resources.for_each([](ExclusiveMonotonicBufferResource*iter,ExclusiveMonotonicBufferResource*end){while(iter!=end){iter++->destruct_all();}})",
  "_resources.for_each([](ExclusiveMonotonicBufferResource*iter,ExclusiveMonotonicBufferResource*end){while(iter!=end){iter++->release();}})"
]
def stmts_swiss_release : List String := [
  "_arena.store(nullptr,::std::memory_order_relaxed)",
  "SharedMonotonicBufferResource::release()"
]
def stmts_shared_do_allocate : List String := [
  "return _resources.local().allocate(bytes,alignment)"
]
def stmts_newdelete_set_page_size : List String := [
  "_page_size=::absl::bit_ceil(page_size)"
]
def stmts_newdelete_allocate : List String := [
  "for(size_t i=0;i<num;++i){",
  "pages[i]=::operator new(_page_size,::std::align_val_t(_page_size))",
  "}"
]
def stmts_newdelete_deallocate : List String := [
  "for(size_t i=0;i<num;++i){",
  "::operator delete(pages[i],_page_size,::std::align_val_t(_page_size))",
  "}"
]
def stmts_system_allocate : List String := [
  "_allocator.allocate(pages,num)"
]
end Skel

end Babylon.Arena
