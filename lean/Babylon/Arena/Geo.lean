/-
  Geometry layer for the monotonic buffer resource proofs (property C06): address segments,
  disjointness / containment, and the abstract "regions – items – free range" configuration with
  the few ways the resource changes it.  Core Lean only.
-/
namespace Babylon.Arena

/-- `[lo, lo + len)` -/
structure Seg where
  lo : Nat
  len : Nat
  deriving Repr, DecidableEq

/-- no common byte (an empty segment has no bytes) -/
def Disj (a b : Seg) : Prop := a.len = 0 ∨ b.len = 0 ∨ a.lo + a.len ≤ b.lo ∨ b.lo + b.len ≤ a.lo

def Inside (a r : Seg) : Prop := r.lo ≤ a.lo ∧ a.lo + a.len ≤ r.lo + r.len

/-- empty, or inside -/
def Sub (a r : Seg) : Prop := a.len = 0 ∨ Inside a r

instance (a b : Seg) : Decidable (Disj a b) := by unfold Disj; infer_instance
instance (a b : Seg) : Decidable (Inside a b) := by unfold Inside; infer_instance
instance (a b : Seg) : Decidable (Sub a b) := by unfold Sub; infer_instance

theorem Disj.symm {a b : Seg} (h : Disj a b) : Disj b a := by
  unfold Disj at *; omega

theorem Inside.sub {a r : Seg} (h : Inside a r) : Sub a r := Or.inr h

theorem Inside.trans {a b c : Seg} (h1 : Inside a b) (h2 : Inside b c) : Inside a c := by
  unfold Inside at *; omega

theorem Sub.trans {a b c : Seg} (h1 : Sub a b) (h2 : Sub b c) : Sub a c := by
  unfold Sub Inside at *; omega

theorem Disj.of_sub {i r x : Seg} (h : Disj i r) (hx : Sub x r) : Disj i x := by
  unfold Disj Sub Inside at *; omega

theorem Disj.of_sub_left {i r x : Seg} (h : Disj r i) (hx : Sub x r) : Disj x i :=
  (Disj.of_sub h.symm hx).symm

theorem Disj.of_sub_sub {r q x y : Seg} (h : Disj r q) (hx : Sub x r) (hy : Sub y q) : Disj x y := by
  unfold Disj Sub Inside at *; omega

theorem Disj.of_len_zero {a b : Seg} (h : a.len = 0) : Disj a b := Or.inl h

/-- two list members at different positions of a pairwise-`R` list are related (symmetric `R`) -/
theorem pairwise_cons_mem {α : Type} {R : α → α → Prop} {x : α} {l : List α}
    (h : (x :: l).Pairwise R) {y : α} (hy : y ∈ l) : R x y :=
  (List.pairwise_cons.mp h).1 y hy

/-- The abstract configuration: `R` regions obtained from the allocators, `I` everything placed in
them (blocks and bookkeeping arrays), `F` the current free range. -/
structure Geo (R I : List Seg) (F : Seg) : Prop where
  rDisj : R.Pairwise Disj
  iDisj : I.Pairwise Disj
  iIn : ∀ i ∈ I, i.len = 0 ∨ ∃ r ∈ R, Inside i r
  fIn : F.len = 0 ∨ ∃ r ∈ R, Inside F r
  fDisj : ∀ i ∈ I, Disj i F

namespace Geo
variable {R I : List Seg} {F : Seg}

theorem empty (F : Seg) (h : F.len = 0) : Geo [] [] F :=
  ⟨List.Pairwise.nil, List.Pairwise.nil, by simp, Or.inl h, by simp⟩

/-- a region disjoint from every held region is untouched by every item and by the free range -/
theorem fresh_items (g : Geo R I F) {r : Seg} (hr : ∀ h ∈ R, Disj h r) : ∀ i ∈ I, Disj i r := by
  intro i hi
  rcases g.iIn i hi with h0 | ⟨q, hq, hin⟩
  · exact Or.inl h0
  · exact Disj.of_sub_left (hr q hq) hin.sub

theorem fresh_free (g : Geo R I F) {r : Seg} (hr : ∀ h ∈ R, Disj h r) : Disj F r := by
  rcases g.fIn with h0 | ⟨q, hq, hin⟩
  · exact Or.inl h0
  · exact Disj.of_sub_left (hr q hq) hin.sub

theorem perm (g : Geo R I F) {I' : List Seg} (hp : I'.Perm I) : Geo R I' F :=
  ⟨g.rDisj, (hp.pairwise_iff (fun h => Disj.symm h)).mpr g.iDisj,
   fun i hi => g.iIn i (hp.mem_iff.mp hi), g.fIn, fun i hi => g.fDisj i (hp.mem_iff.mp hi)⟩

theorem permR (g : Geo R I F) {R' : List Seg} (hp : R'.Perm R) : Geo R' I F :=
  ⟨(hp.pairwise_iff (fun h => Disj.symm h)).mpr g.rDisj, g.iDisj,
   fun i hi => (g.iIn i hi).imp id (fun ⟨r, hr, h⟩ => ⟨r, hp.mem_iff.mpr hr, h⟩),
   g.fIn.imp id (fun ⟨r, hr, h⟩ => ⟨r, hp.mem_iff.mpr hr, h⟩), g.fDisj⟩

/-- the free range shrinks (or becomes empty) -/
theorem shrink (g : Geo R I F) {F' : Seg} (hF : Sub F' F) : Geo R I F' := by
  refine ⟨g.rDisj, g.iDisj, g.iIn, ?_, fun i hi => Disj.of_sub (g.fDisj i hi) hF⟩
  rcases hF with h0 | hin
  · exact Or.inl h0
  · rcases g.fIn with h0 | ⟨q, hq, hq2⟩
    · left; unfold Inside at hin; omega
    · exact Or.inr ⟨q, hq, hin.trans hq2⟩

/-- an item is carved out of the free range; what stays free is a part of the old range that does
not meet the new item -/
theorem carve (g : Geo R I F) {x F' : Seg} (hx : Sub x F) (hF : Sub F' F) (hd : Disj x F') :
    Geo R (x :: I) F' := by
  have g' := g.shrink hF
  refine ⟨g.rDisj, ?_, ?_, g'.fIn, ?_⟩
  · exact List.pairwise_cons.mpr ⟨fun i hi => (Disj.of_sub (g.fDisj i hi) hx).symm, g.iDisj⟩
  · intro i hi
    rcases List.mem_cons.mp hi with rfl | hi
    · rcases hx with h0 | hin
      · exact Or.inl h0
      · rcases g.fIn with h0 | ⟨q, hq, hq2⟩
        · left; unfold Inside at hin; omega
        · exact Or.inr ⟨q, hq, hin.trans hq2⟩
    · exact g.iIn i hi
  · intro i hi
    rcases List.mem_cons.mp hi with rfl | hi
    · exact hd
    · exact g'.fDisj i hi

/-- a new region is obtained; nothing is placed in it yet -/
theorem addRegion (g : Geo R I F) {r : Seg} (hr : ∀ h ∈ R, Disj h r) : Geo (r :: R) I F := by
  refine ⟨List.pairwise_cons.mpr ⟨fun h hh => (hr h hh).symm, g.rDisj⟩, g.iDisj, ?_, ?_, g.fDisj⟩
  · intro i hi
    rcases g.iIn i hi with h0 | ⟨q, hq, hin⟩
    · exact Or.inl h0
    · exact Or.inr ⟨q, List.mem_cons_of_mem _ hq, hin⟩
  · rcases g.fIn with h0 | ⟨q, hq, hin⟩
    · exact Or.inl h0
    · exact Or.inr ⟨q, List.mem_cons_of_mem _ hq, hin⟩

/-- an item is placed in a new region, the free range stays where it is (upstream blocks) -/
theorem placeFresh (g : Geo R I F) {r x : Seg} (hr : ∀ h ∈ R, Disj h r) (hx : Inside x r) :
    Geo (r :: R) (x :: I) F := by
  have g' := g.addRegion hr
  refine ⟨g'.rDisj, ?_, ?_, g'.fIn, ?_⟩
  · exact List.pairwise_cons.mpr ⟨fun i hi => (Disj.of_sub (g.fresh_items hr i hi) hx.sub).symm, g.iDisj⟩
  · intro i hi
    rcases List.mem_cons.mp hi with rfl | hi
    · exact Or.inr ⟨r, List.mem_cons_self, hx⟩
    · exact g'.iIn i hi
  · intro i hi
    rcases List.mem_cons.mp hi with rfl | hi
    · exact Disj.of_sub_left (g.fresh_free hr).symm hx.sub
    · exact g.fDisj i hi

/-- a second item in the newest region (the oversize array behind its payload, the page array
behind the block in a new page, …) -/
theorem placeNewest (g : Geo (r :: R) (x :: I) F) {y : Seg}
    (hfresh : ∀ i ∈ I, Disj i r) (hfree : Disj F r ∨ Disj y F) (hy : Inside y r) (hxy : Disj x y) :
    Geo (r :: R) (y :: x :: I) F := by
  refine ⟨g.rDisj, ?_, ?_, g.fIn, ?_⟩
  · refine List.pairwise_cons.mpr ⟨?_, g.iDisj⟩
    intro i hi
    rcases List.mem_cons.mp hi with rfl | hi
    · exact hxy.symm
    · exact (Disj.of_sub (hfresh i hi) hy.sub).symm
  · intro i hi
    rcases List.mem_cons.mp hi with rfl | hi
    · exact Or.inr ⟨r, List.mem_cons_self, hy⟩
    · exact g.iIn i hi
  · intro i hi
    rcases List.mem_cons.mp hi with rfl | hi
    · rcases hfree with h | h
      · exact Disj.of_sub_left h.symm hy.sub
      · exact h
    · exact g.fDisj i hi

/-- a new page is obtained, the block is placed in it and the free range moves into it -/
theorem newPage (g : Geo R I F) {r x F' : Seg} (hr : ∀ h ∈ R, Disj h r) (hx : Inside x r)
    (hF : Sub F' r) (hd : Disj x F') : Geo (r :: R) (x :: I) F' := by
  have g' := g.placeFresh hr hx
  refine ⟨g'.rDisj, g'.iDisj, g'.iIn, ?_, ?_⟩
  · rcases hF with h0 | hin
    · exact Or.inl h0
    · exact Or.inr ⟨r, List.mem_cons_self, hin⟩
  · intro i hi
    rcases List.mem_cons.mp hi with rfl | hi
    · exact hd
    · exact Disj.of_sub (g.fresh_items hr i hi) hF

/-- the free range moves into the newest region, in which only `x` (and possibly `y`) live -/
theorem moveFree (g : Geo (r :: R) I F) {F' : Seg} (hF : Sub F' r) (hd : ∀ i ∈ I, Disj i r ∨ Disj i F') :
    Geo (r :: R) I F' := by
  refine ⟨g.rDisj, g.iDisj, g.iIn, ?_, ?_⟩
  · rcases hF with h0 | hin
    · exact Or.inl h0
    · exact Or.inr ⟨r, List.mem_cons_self, hin⟩
  · intro i hi
    rcases hd i hi with h | h
    · exact Disj.of_sub h hF
    · exact h

end Geo

end Babylon.Arena
