/-
  register_destructor, release (state part), one step of one resource, two resources with move:
  the invariant is preserved by every operation (property C06).
-/
import Babylon.Arena.Alloc

namespace Babylon.Arena
open Babylon.Gen.Arena Babylon.Core

/-! ### register_destructor -/

theorem dtRoom_false_full {s : Arena} (hc : Core s) (h : s.dtRoom = false) :
    ∀ a ∈ s.dtArrs.head?, a.tasks.length = destroyArrayCap := by
  intro a ha
  cases hd : s.dtArrs with
  | nil => rw [hd] at ha; simp at ha
  | cons x rest =>
    rw [hd] at ha
    simp only [List.head?_cons, Option.mem_def, Option.some.injEq] at ha
    subst ha
    have h1 := (hc.dt.shape x (by rw [hd]; exact List.mem_cons_self)).2.1
    simp only [Arena.dtRoom, hd, decide_eq_false_iff_not] at h
    omega

/-- what a step of one resource establishes, `held` being every region held by anybody before it -/
structure StepPost (held : List Seg) (s s' : Arena) : Prop where
  inv : Inv s'
  regs : ∀ r ∈ regions s', r ∈ regions s ∨ ∀ h ∈ held, Disj h r
  frame : s'.pa = s.pa ∧ s'.up = s.up ∧ s'.pageSize = s.pageSize

theorem registerNewArr_post (held : List Seg) {s : Arena} (hI : Inv s) (hsub : ∀ r ∈ regions s, r ∈ held)
    (tag : Nat) (e : Env) (hfull : s.dtRoom = false)
    (henv : AllocEnvOK held s sizeofDtArray alignofDtArray e) :
    StepPost held s (s.registerNewArr tag e).1 ∧
      (s.registerNewArr tag e).1.blocks =
        ⟨(s.allocate sizeofDtArray alignofDtArray .dtArray e).2.1, sizeofDtArray, .dtArray⟩ :: s.blocks ∧
      (∀ r ∈ regions s, r ∈ regions (s.registerNewArr tag e).1) := by
  have hal : ∃ k, alignofDtArray = 2 ^ k := ⟨3, rfl⟩
  have hp := (allocate_post held hI.core hsub sizeofDtArray alignofDtArray .dtArray e hal henv).1
  have hI' := allocate_inv held hI hsub sizeofDtArray alignofDtArray .dtArray e hal henv
  unfold Arena.registerNewArr
  generalize s.allocate sizeofDtArray alignofDtArray .dtArray e = res at hp hI'
  obtain ⟨s1, p, evs⟩ := res
  simp only at hp hI' ⊢
  have hc := hp.core
  refine ⟨⟨⟨⟨hc.psPow2, hc.psGe, hc.pg, hc.ov, ?_, hc.geo, hc.acctAlloc⟩, hI'.acctUsed⟩, hp.regs,
    ⟨hp.frame.1, hp.frame.2.1, hp.frame.2.2.1⟩⟩, hp.blocks, hp.regsMono⟩
  have hdt := hc.dt
  rw [hp.frame.2.2.2.1, hp.frame.2.2.2.2.1] at hdt ⊢
  have hf : ∀ a ∈ s.dtArrs.head?, a.tasks.length = destroyArrayCap := dtRoom_false_full hI.core hfull
  refine hdt.newArr hf p tag ?_
  rw [hp.blocks]; exact List.mem_cons_self

theorem register_post (held : List Seg) {s : Arena} (hI : Inv s) (hsub : ∀ r ∈ regions s, r ∈ held)
    (tag : Nat) (e : Env) (henv : s.dtRoom = false → AllocEnvOK held s sizeofDtArray alignofDtArray e) :
    StepPost held s (s.register tag e).1 := by
  unfold Arena.register
  split
  · rename_i a rest hd
    split
    · rename_i hroom
      have hc := hI.core
      have hdt := hc.dt
      rw [hd] at hdt
      exact ⟨⟨⟨hc.psPow2, hc.psGe, hc.pg, hc.ov, hdt.push hroom tag, hc.geo, hc.acctAlloc⟩, hI.acctUsed⟩,
        fun r hr => Or.inl hr, ⟨rfl, rfl, rfl⟩⟩
    · rename_i hroom
      have hr : s.dtRoom = false := by simp [Arena.dtRoom, hd, hroom]
      exact (registerNewArr_post held hI hsub tag e hr (henv hr)).1
  · rename_i hd
    have hr : s.dtRoom = false := by simp [Arena.dtRoom, hd]
    exact (registerNewArr_post held hI hsub tag e hr (henv hr)).1

/-! ### release: resulting state -/

/-- `release()` leaves the resource exactly as a freshly configured one: every pointer null,
accounts zero, nothing held. -/
theorem release_eq_fresh {s : Arena} (hI : Inv s) : s.release.1 = Arena.fresh s.pa s.pageSize s.up := by
  unfold Arena.release Arena.fresh
  rcases hI.core.pg.free with ⟨he, h1, h2⟩ | ⟨a, rest, p, l, he, _⟩
  · simp [he, h1, h2]
  · simp [he]

theorem release_post (held : List Seg) {s : Arena} (hI : Inv s) : StepPost held s s.release.1 := by
  rw [release_eq_fresh hI]
  exact ⟨inv_fresh _ _ _ hI.core.psPow2 hI.core.psGe, by simp [regions, pageRegs, ovRegs, Arena.fresh], ⟨rfl, rfl, rfl⟩⟩

/-! ### one operation of one resource -/

/-- Assumptions on the environment for one operation. -/
def OpEnvOK (held : List Seg) (s : Arena) : Op → Prop
  | .alloc bytes align e => (∃ k, align = 2 ^ k) ∧ AllocEnvOK held s bytes align e
  | .reg _ e => s.dtRoom = false → AllocEnvOK held s sizeofDtArray alignofDtArray e
  | .contains _ => True
  | .release => True

theorem step_post (held : List Seg) {s : Arena} (hI : Inv s) (hsub : ∀ r ∈ regions s, r ∈ held)
    (op : Op) (henv : OpEnvOK held s op) : StepPost held s (s.step op).1 := by
  cases op with
  | alloc bytes align e =>
    have hp := (allocate_post held hI.core hsub bytes align .user e henv.1 henv.2).1
    exact ⟨allocate_inv held hI hsub bytes align .user e henv.1 henv.2, hp.regs,
      ⟨hp.frame.1, hp.frame.2.1, hp.frame.2.2.1⟩⟩
  | reg tag e => exact register_post held hI hsub tag e henv
  | contains ptr => exact ⟨hI, fun r hr => Or.inl hr, ⟨rfl, rfl, rfl⟩⟩
  | release => exact release_post held hI

/-! ### two resources -/

/-- every region held by either resource -/
def Sys.held (s : Sys) : List Seg := regions s.a ++ regions s.b

structure SysInv (s : Sys) : Prop where
  a : Inv s.a
  b : Inv s.b
  cross : ∀ r ∈ regions s.a, ∀ q ∈ regions s.b, Disj r q

/-- Assumptions for one system operation: allocator answers are aligned and disjoint from every
region held by either resource; a resource is (re)constructed on a page allocator whose page size
is a power of two that fits a `PageArray`. -/
def SOpOK (s : Sys) : SOp → Prop
  | .on r op => OpEnvOK s.held (s.get r) op
  | .move _ _ => True
  | .renew _ _ ps _ => (∃ k, ps = 2 ^ k) ∧ sizeofPageArray ≤ ps

theorem sys_step_inv {s : Sys} (hI : SysInv s) (op : SOp) (hok : SOpOK s op) : SysInv (s.next op) := by
  cases op with
  | on r op =>
    cases r with
    | false =>
      have hp := step_post s.held hI.a (fun r hr => List.mem_append_left _ hr) op hok
      refine ⟨hp.inv, hI.b, ?_⟩
      intro r hr q hq
      rcases hp.regs r hr with h | h
      · exact hI.cross r h q hq
      · exact (h q (List.mem_append_right _ hq)).symm
    | true =>
      have hp := step_post s.held hI.b (fun r hr => List.mem_append_right _ hr) op hok
      refine ⟨hI.a, hp.inv, ?_⟩
      intro r hr q hq
      rcases hp.regs q hq with h | h
      · exact hI.cross r hr q h
      · exact h r (List.mem_append_left _ hr)
  | move src dst =>
    have hsw : ∀ x y : Arena, moveAssign x y = (y, x) := by
      intro x y; simp [moveAssign, c_moveSwapsUpstream]
    cases src <;> cases dst <;>
      simp only [Sys.next, Sys.step, Sys.get, Sys.set, hsw, if_true, Bool.false_eq_true, if_false, reduceCtorEq] <;>
      first
        | exact hI
        | exact ⟨hI.b, hI.a, fun r hr q hq => (hI.cross q hq r hr).symm⟩
  | renew r pa ps up =>
    have hf := inv_fresh pa ps up hok.1 hok.2
    cases r with
    | false => exact ⟨hf, hI.b, by simp [regions, pageRegs, ovRegs, Arena.fresh, Sys.next, Sys.step, Sys.set]⟩
    | true => exact ⟨hI.a, hf, by simp [regions, pageRegs, ovRegs, Arena.fresh, Sys.next, Sys.step, Sys.set]⟩

/-- every allocator answer along the run satisfies the assumptions -/
def ValidRun : Sys → List SOp → Prop
  | _, [] => True
  | s, op :: ops => SOpOK s op ∧ ValidRun (s.next op) ops

/-- The invariant holds after every operation list whose allocator answers satisfy the assumptions
(an instance of `runOps_invariant` on the run instrumented with "all answers so far were valid"). -/
theorem run_inv (s : Sys) (hI : SysInv s) (ops : List SOp) (hv : ValidRun s ops) :
    SysInv (runOps Sys.next s ops) := by
  induction ops generalizing s with
  | nil => exact hI
  | cons op ops ih => exact ih _ (sys_step_inv hI op hv.1) hv.2

/-- the run, instrumented with "every allocator answer so far satisfied the assumptions" -/
def istep (p : Sys × Prop) (op : SOp) : Sys × Prop := (p.1.next op, p.2 ∧ SOpOK p.1 op)

theorem istep_run (s : Sys) (P : Prop) (ops : List SOp) :
    (runOps istep (s, P) ops).1 = runOps Sys.next s ops ∧ ((runOps istep (s, P) ops).2 ↔ (P ∧ ValidRun s ops)) := by
  induction ops generalizing s P with
  | nil => simp [runOps, ValidRun]
  | cons op ops ih =>
    obtain ⟨h1, h2⟩ := ih (s.next op) (P ∧ SOpOK s op)
    refine ⟨h1, ?_⟩
    simp only [runOps, istep, ValidRun] at h2 ⊢
    rw [h2]; exact and_assoc

/-! ### a decidable (stronger) form of the assumptions, for concrete non-vacuity witnesses -/

def SOpOKd (s : Sys) : SOp → Prop
  | .on r (.alloc bytes align e) => (∃ k ∈ List.range 64, align = 2 ^ k) ∧ AllocEnvOK s.held (s.get r) bytes align e
  | .on r (.reg _ e) => (s.get r).dtRoom = false → AllocEnvOK s.held (s.get r) sizeofDtArray alignofDtArray e
  | .on _ _ => True
  | .move _ _ => True
  | .renew _ _ ps _ => (∃ k ∈ List.range 64, ps = 2 ^ k) ∧ sizeofPageArray ≤ ps

instance (s : Sys) (op : SOp) : Decidable (SOpOKd s op) := by
  cases op with
  | on r op => cases op <;> (simp only [SOpOKd]; infer_instance)
  | move a b => simp only [SOpOKd]; infer_instance
  | renew r pa ps up => simp only [SOpOKd]; infer_instance

theorem SOpOKd.sound {s : Sys} {op : SOp} (h : SOpOKd s op) : SOpOK s op := by
  cases op with
  | on r op =>
    cases op with
    | alloc bytes align e => obtain ⟨⟨k, _, hk⟩, h2⟩ := h; exact ⟨⟨k, hk⟩, h2⟩
    | reg tag e => exact h
    | contains p => trivial
    | release => trivial
  | move a b => trivial
  | renew r pa ps up => obtain ⟨⟨k, _, hk⟩, h2⟩ := h; exact ⟨⟨k, hk⟩, h2⟩

def ValidRunD : Sys → List SOp → Prop
  | _, [] => True
  | s, op :: ops => SOpOKd s op ∧ ValidRunD (s.next op) ops

instance : (s : Sys) → (ops : List SOp) → Decidable (ValidRunD s ops)
  | _, [] => by unfold ValidRunD; infer_instance
  | s, op :: ops => by
    unfold ValidRunD
    have := instDecidableValidRunD (s.next op) ops
    infer_instance

theorem ValidRunD.sound : ∀ {s : Sys} {ops : List SOp}, ValidRunD s ops → ValidRun s ops
  | _, [], _ => trivial
  | _, _ :: _, h => ⟨h.1.sound, ValidRunD.sound h.2⟩

end Babylon.Arena
