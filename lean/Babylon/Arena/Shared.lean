/-
  The shared / swiss variants' `release()` (property C06): over all per-thread resources, every
  destructor runs before anything is returned, everything is returned exactly once, and no
  bookkeeping is read from returned memory.
-/
import Babylon.Arena.Release

namespace Babylon.Arena
open Babylon.Gen.Arena Babylon.Core

theorem destructAllSt_inv {s : Arena} (hI : Inv s) : Inv s.destructAllSt.1 := by
  have hc := hI.core
  exact ⟨⟨hc.psPow2, hc.psGe, hc.pg, hc.ov, ⟨rfl, by simp [Arena.destructAllSt], by simp [Arena.destructAllSt]⟩,
    hc.geo, hc.acctAlloc⟩, hI.acctUsed⟩

/-- second-pass trace of one sub-resource: its destroy-task chain is already empty -/
theorem release_after_destruct (s : Arena) :
    s.destructAllSt.1.release.2 = releasePages s.pa s.pageArrs ++ releaseOv s.up s.ovArrs := by
  simp [Arena.destructAllSt, Arena.release, destructAll]

theorem dtorRuns_flatMap {α : Type} (l : List α) (f : α → List Ev) :
    dtorRuns (l.flatMap f) = l.flatMap (fun a => dtorRuns (f a)) := List.filterMap_flatMap
theorem pageFrees_flatMap {α : Type} (l : List α) (f : α → List Ev) :
    pageFrees (l.flatMap f) = l.flatMap (fun a => pageFrees (f a)) := List.filterMap_flatMap
theorem upFrees_flatMap {α : Type} (l : List α) (f : α → List Ev) :
    upFrees (l.flatMap f) = l.flatMap (fun a => upFrees (f a)) := List.filterMap_flatMap

theorem flatMap_congr_mem {α β : Type} {l : List α} {f g : α → List β} (h : ∀ a ∈ l, f a = g a) :
    l.flatMap f = l.flatMap g := by
  induction l with
  | nil => rfl
  | cons x xs ih =>
    simp only [List.flatMap_cons]
    rw [h x List.mem_cons_self, ih (fun a ha => h a (List.mem_cons_of_mem _ ha))]

/-- release of the shared variant: all destructors of all per-thread resources (each once, per
resource newest first), during which nothing is returned; then every page and upstream block of
every per-thread resource, each once, as obtained; all per-thread resources end up fresh. -/
theorem sharedRelease_spec (subs : List Arena) (hI : ∀ s ∈ subs, Inv s) :
    ∃ pre post, (sharedRelease subs).2 = pre ++ post ∧
      dtorRuns pre = subs.flatMap (·.dtors) ∧ (∀ ev ∈ pre, ev.isFree = false) ∧
      dtorRuns post = [] ∧ pageFrees post = subs.flatMap (·.pagesHeld) ∧ upFrees post = subs.flatMap (·.ovHeld) ∧
      (sharedRelease subs).1 = subs.map (fun s => Arena.fresh s.pa s.pageSize s.up) := by
  refine ⟨subs.flatMap (fun s => destructAll s.dtArrs),
    subs.flatMap (fun s => releasePages s.pa s.pageArrs ++ releaseOv s.up s.ovArrs), ?_, ?_, ?_, ?_, ?_, ?_, ?_⟩
  · simp only [sharedRelease, List.flatMap_map, release_after_destruct]
    rfl
  · rw [dtorRuns_flatMap]
    exact flatMap_congr_mem (fun s hs => by rw [(destructAll_proj s.dtArrs).1, (hI s hs).core.dt.dtorsEq])
  · intro ev hev
    obtain ⟨s, _, hs⟩ := List.mem_flatMap.mp hev
    exact (destructAll_proj s.dtArrs).2.2.2 ev hs
  · rw [dtorRuns_flatMap]
    have : ∀ s ∈ subs, dtorRuns (releasePages s.pa s.pageArrs ++ releaseOv s.up s.ovArrs) = [] := by
      intro s _
      simp only [dtorRuns, List.filterMap_append]
      have h2 := (releasePages_proj s.pa s.pageArrs).2.2
      have h3 := (releaseOv_proj s.up s.ovArrs).2.2
      simp only [dtorRuns] at h2 h3
      rw [h2, h3]; rfl
    rw [flatMap_congr_mem this]; simp
  · rw [pageFrees_flatMap]
    refine flatMap_congr_mem (fun s hs => ?_)
    simp only [pageFrees, List.filterMap_append]
    have h2 := (releasePages_proj s.pa s.pageArrs).1
    have h3 := (releaseOv_proj s.up s.ovArrs).2.1
    simp only [pageFrees] at h2 h3
    rw [h2, h3, (hI s hs).core.pg.heldEq]; simp
  · rw [upFrees_flatMap]
    refine flatMap_congr_mem (fun s hs => ?_)
    simp only [upFrees, List.filterMap_append]
    have h2 := (releasePages_proj s.pa s.pageArrs).2.1
    have h3 := (releaseOv_proj s.up s.ovArrs).1
    simp only [upFrees] at h2 h3
    rw [h2, h3, (hI s hs).core.ov.heldEq]; simp
  · simp only [sharedRelease, List.map_map]
    apply List.map_congr_left
    intro s hs
    exact release_eq_fresh (destructAllSt_inv (hI s hs))

end Babylon.Arena
