/-
  The shared / swiss variants' `release()` (property C06): over all per-thread resources, every
  destructor runs before anything is returned, everything is returned exactly once, and no
  bookkeeping is read from returned memory.
-/
import Babylon.Arena.Release

namespace Babylon.Arena
open Babylon.Gen.Arena Babylon.Core

theorem destructAllSt_inv {s : Arena} (hI : Inv s) : Inv s.destructAllSt.1 := by
  have hc := hI.core
  exact ⟨⟨hc.psPow2, hc.psGe, hc.pg, hc.ov, ⟨rfl, by simp [Arena.destructAllSt], by simp [Arena.destructAllSt]⟩,
    hc.geo, hc.acctAlloc⟩, hI.acctUsed⟩

/-- second-pass trace of one sub-resource: its destroy-task chain is already empty -/
theorem release_after_destruct (s : Arena) :
    s.destructAllSt.1.release.2 = releasePages s.pa s.pageArrs ++ releaseOv s.up s.ovArrs := by
  simp [Arena.destructAllSt, Arena.release, destructAll]

theorem dtorRuns_flatMap {α : Type} (l : List α) (f : α → List Ev) :
    dtorRuns (l.flatMap f) = l.flatMap (fun a => dtorRuns (f a)) := List.filterMap_flatMap
theorem pageFrees_flatMap {α : Type} (l : List α) (f : α → List Ev) :
    pageFrees (l.flatMap f) = l.flatMap (fun a => pageFrees (f a)) := List.filterMap_flatMap
theorem upFrees_flatMap {α : Type} (l : List α) (f : α → List Ev) :
    upFrees (l.flatMap f) = l.flatMap (fun a => upFrees (f a)) := List.filterMap_flatMap

theorem flatMap_congr_mem {α β : Type} {l : List α} {f g : α → List β} (h : ∀ a ∈ l, f a = g a) :
    l.flatMap f = l.flatMap g := by
  induction l with
  | nil => rfl
  | cons x xs ih =>
    simp only [List.flatMap_cons]
    rw [h x List.mem_cons_self, ih (fun a ha => h a (List.mem_cons_of_mem _ ha))]

/-- release of the shared variant: all destructors of all per-thread resources (each once, per
resource newest first), during which nothing is returned; then every page and upstream block of
every per-thread resource, each once, as obtained; all per-thread resources end up fresh. -/
theorem sharedRelease_spec (subs : List Arena) (hI : ∀ s ∈ subs, Inv s) :
    ∃ pre post, (sharedRelease subs).2 = pre ++ post ∧
      dtorRuns pre = subs.flatMap (·.dtors) ∧ (∀ ev ∈ pre, ev.isFree = false) ∧
      dtorRuns post = [] ∧ pageFrees post = subs.flatMap (·.pagesHeld) ∧ upFrees post = subs.flatMap (·.ovHeld) ∧
      (sharedRelease subs).1 = subs.map (fun s => Arena.fresh s.pa s.pageSize s.up) := by
  refine ⟨subs.flatMap (fun s => destructAll s.dtArrs),
    subs.flatMap (fun s => releasePages s.pa s.pageArrs ++ releaseOv s.up s.ovArrs), ?_, ?_, ?_, ?_, ?_, ?_, ?_⟩
  · simp only [sharedRelease, List.flatMap_map, release_after_destruct]
    rfl
  · rw [dtorRuns_flatMap]
    exact flatMap_congr_mem (fun s hs => by rw [(destructAll_proj s.dtArrs).1, (hI s hs).core.dt.dtorsEq])
  · intro ev hev
    obtain ⟨s, _, hs⟩ := List.mem_flatMap.mp hev
    exact (destructAll_proj s.dtArrs).2.2.2 ev hs
  · rw [dtorRuns_flatMap]
    have : ∀ s ∈ subs, dtorRuns (releasePages s.pa s.pageArrs ++ releaseOv s.up s.ovArrs) = [] := by
      intro s _
      simp only [dtorRuns, List.filterMap_append]
      have h2 := (releasePages_proj s.pa s.pageArrs).2.2
      have h3 := (releaseOv_proj s.up s.ovArrs).2.2
      simp only [dtorRuns] at h2 h3
      rw [h2, h3]; rfl
    rw [flatMap_congr_mem this]; simp
  · rw [pageFrees_flatMap]
    refine flatMap_congr_mem (fun s hs => ?_)
    simp only [pageFrees, List.filterMap_append]
    have h2 := (releasePages_proj s.pa s.pageArrs).1
    have h3 := (releaseOv_proj s.up s.ovArrs).2.1
    simp only [pageFrees] at h2 h3
    rw [h2, h3, (hI s hs).core.pg.heldEq]; simp
  · rw [upFrees_flatMap]
    refine flatMap_congr_mem (fun s hs => ?_)
    simp only [upFrees, List.filterMap_append]
    have h2 := (releasePages_proj s.pa s.pageArrs).2.1
    have h3 := (releaseOv_proj s.up s.ovArrs).1
    simp only [upFrees] at h2 h3
    rw [h2, h3, (hI s hs).core.ov.heldEq]; simp
  · simp only [sharedRelease, List.map_map]
    apply List.map_congr_left
    intro s hs
    exact release_eq_fresh (destructAllSt_inv (hI s hs))

/-! ### no read after free across the per-thread resources -/

/-- the second-pass trace of one resource -/
abbrev pass2 (s : Arena) : List Ev := releasePages s.pa s.pageArrs ++ releaseOv s.up s.ovArrs

theorem pass2_frees_regions {s : Arena} (hI : Inv s) {x : Ev} (hx : x ∈ pass2 s) {f : Seg}
    (hf : x.freedSeg s.pageSize = some f) : f ∈ regions s := by
  have hc := hI.core
  simp only [regions, pageRegs, ovRegs, hc.pg.heldEq, hc.ov.heldEq, List.map_map, List.mem_append, List.mem_map]
  rcases List.mem_append.mp hx with hx | hx
  · obtain ⟨p, hp, rfl⟩ := (releasePages_events s.pageSize s.pa s.pageArrs (fun a ha => (hc.pg.shape a ha).2.1)).2 x hx f hf
    exact Or.inl ⟨p, hp, rfl⟩
  · obtain ⟨e, he, rfl⟩ := (releaseOv_events s.pageSize s.up s.ovArrs hc.ov.shape).2 x hx f hf
    exact Or.inr ⟨e, he, rfl⟩

theorem pass2_reads_regions {s : Arena} (hI : Inv s) {y : Ev} (hy : y ∈ pass2 s) {r : Seg}
    (hr : y.readSeg = some r) : ∃ q ∈ regions s, Inside r q := by
  have hc := hI.core
  rcases List.mem_append.mp hy with hy | hy
  · obtain ⟨a, ha, hin⟩ := (releasePages_events s.pageSize s.pa s.pageArrs (fun a ha => (hc.pg.shape a ha).2.1)).1 y hy r hr
    obtain ⟨q, hq, hin2⟩ := arrsHome_mem hc.pg.home ha
    refine ⟨⟨q, s.pageSize⟩, ?_, hin.trans hin2⟩
    simp only [regions, pageRegs, hc.pg.heldEq, List.map_map, List.mem_append, List.mem_map]
    exact Or.inl ⟨q, hq, rfl⟩
  · obtain ⟨a, ha, hin⟩ := (releaseOv_events s.pageSize s.up s.ovArrs hc.ov.shape).1 y hy r hr
    obtain ⟨last, hl, hhome⟩ := ovArr_home (hc.ov.shape a ha)
    refine ⟨last.seg, ?_, hin.trans hhome⟩
    simp only [regions, ovRegs, hc.ov.heldEq, List.map_map, List.mem_append, List.mem_map]
    exact Or.inr ⟨last, List.mem_flatMap.mpr ⟨a, ha, List.mem_of_getLast? hl⟩, rfl⟩

theorem pass2_noRAF {s : Arena} (hI : Inv s) : NoReadAfterFree s.pageSize (pass2 s) := by
  have h := release_noRAF (destructAllSt_inv hI)
  rw [release_after_destruct] at h
  exact h

/-- Across all per-thread resources (same page allocator, hence same page size; regions of
different resources disjoint — `SysInv.cross`), the shared `release()` never reads bookkeeping from
memory that was returned earlier, neither its own nor another thread's. -/
theorem sharedRelease_noRAF (ps : Nat) (subs : List Arena) (hI : ∀ s ∈ subs, Inv s)
    (hps : ∀ s ∈ subs, s.pageSize = ps)
    (hcross : subs.Pairwise (fun a b => ∀ r ∈ regions a, ∀ q ∈ regions b, Disj r q)) :
    NoReadAfterFree ps (sharedRelease subs).2 := by
  have hpost : NoReadAfterFree ps (subs.flatMap pass2) := by
    induction subs with
    | nil => exact List.Pairwise.nil
    | cons s rest ih =>
      obtain ⟨hc1, hc2⟩ := List.pairwise_cons.mp hcross
      have hs := hI s List.mem_cons_self
      have hpss := hps s List.mem_cons_self
      have ihr := ih (fun x hx => hI x (List.mem_cons_of_mem _ hx)) (fun x hx => hps x (List.mem_cons_of_mem _ hx)) hc2
      unfold NoReadAfterFree at *
      simp only [List.flatMap_cons]
      refine List.pairwise_append.mpr ⟨?_, ihr, ?_⟩
      · have := pass2_noRAF hs
        rw [hpss] at this; exact this
      · intro x hx y hy f r hf hr
        obtain ⟨s', hs', hy'⟩ := List.mem_flatMap.mp hy
        rw [← hpss] at hf
        have hf' := pass2_frees_regions hs hx hf
        obtain ⟨q, hq, hin⟩ := pass2_reads_regions (hI s' (List.mem_cons_of_mem _ hs')) hy' hr
        exact Disj.of_sub_left (hc1 s' hs' f hf' q hq).symm hin.sub
  have hpre : ∀ x ∈ subs.flatMap (fun s => destructAll s.dtArrs), x.freedSeg ps = none := by
    intro x hx
    obtain ⟨s, _, hs⟩ := List.mem_flatMap.mp hx
    have := (destructAll_proj s.dtArrs).2.2.2 x hs
    cases x <;> simp_all [Ev.isFree, Ev.freedSeg]
  have heq : (sharedRelease subs).2 = subs.flatMap (fun s => destructAll s.dtArrs) ++ subs.flatMap pass2 := by
    simp only [sharedRelease, List.flatMap_map, release_after_destruct]
    rfl
  rw [heq]
  unfold NoReadAfterFree at *
  exact List.pairwise_append.mpr ⟨pairwise_of_no_free hpre, hpost, fun x hx y _ => rafok_of_not_free (hpre x hx) y⟩

end Babylon.Arena
