/-
  What the invariant says about the block an `allocate` call has just returned, and what the other
  operations do to blocks that are already live (property C06).
-/
import Babylon.Arena.Step

namespace Babylon.Arena
open Babylon.Gen.Arena Babylon.Core

/-- the newest block is clear of every older block, of every page / oversize array, and lies in
memory the resource holds -/
theorem newest_block {s : Arena} (hI : Inv s) {b : Block} {bl : List Block} (hb : s.blocks = b :: bl) :
    (∀ x ∈ bl, Disj b.seg x.seg) ∧ (∀ a ∈ arrSegs s, Disj b.seg a) ∧
    (b.bytes = 0 ∨ ∃ r ∈ regions s, Inside b.seg r) := by
  have hd := hI.core.geo.iDisj
  have hin := hI.core.geo.iIn
  simp only [items, hb, List.map_cons, List.cons_append] at hd hin
  obtain ⟨h1, _⟩ := List.pairwise_cons.mp hd
  refine ⟨?_, ?_, ?_⟩
  · intro x hx
    exact h1 _ (List.mem_append_left _ (List.mem_map.mpr ⟨x, hx, rfl⟩))
  · intro a ha
    exact h1 _ (List.mem_append_right _ ha)
  · exact hin b.seg List.mem_cons_self

/-- two different members of the block list do not overlap -/
theorem blocks_disj {s : Arena} (hI : Inv s) {x y : Block} (hx : x ∈ s.blocks) (hy : y ∈ s.blocks) (hne : x ≠ y) :
    Disj x.seg y.seg := by
  have hd := hI.core.geo.iDisj
  simp only [items] at hd
  have hb := List.pairwise_map.mp (List.pairwise_append.mp hd).1
  have key : ∀ (l : List Block), l.Pairwise (fun a b => Disj a.seg b.seg) → x ∈ l → y ∈ l → Disj x.seg y.seg := by
    intro l hl
    induction l with
    | nil => intro h; cases h
    | cons z zs ih =>
      obtain ⟨h1, h2⟩ := List.pairwise_cons.mp hl
      intro hx hy
      rcases List.mem_cons.mp hx with hxz | hx'
      · rcases List.mem_cons.mp hy with hyz | hy'
        · exact absurd (hxz.trans hyz.symm) hne
        · rw [hxz]; exact h1 y hy'
      · rcases List.mem_cons.mp hy with hyz | hy'
        · rw [hyz]; exact (h1 x hx').symm
        · exact ih h2 hx' hy'
  exact key _ hb hx hy

/-- every block is clear of every page / oversize array -/
theorem block_arr_disj {s : Arena} (hI : Inv s) {x : Block} (hx : x ∈ s.blocks) {a : Seg} (ha : a ∈ arrSegs s) :
    Disj x.seg a := by
  have hd := hI.core.geo.iDisj
  simp only [items] at hd
  exact (List.pairwise_append.mp hd).2.2 _ (List.mem_map.mpr ⟨x, hx, rfl⟩) _ ha

/-- blocks of two resources whose regions are disjoint do not overlap -/
theorem cross_blocks_disj {s t : Arena} (hs : Inv s) (ht : Inv t)
    (hcross : ∀ r ∈ regions s, ∀ q ∈ regions t, Disj r q) {x y : Block} (hx : x ∈ s.blocks) (hy : y ∈ t.blocks) :
    Disj x.seg y.seg := by
  have h1 := hs.core.geo.iIn x.seg (by simp only [items]; exact List.mem_append_left _ (List.mem_map.mpr ⟨x, hx, rfl⟩))
  have h2 := ht.core.geo.iIn y.seg (by simp only [items]; exact List.mem_append_left _ (List.mem_map.mpr ⟨y, hy, rfl⟩))
  rcases h1 with h1 | ⟨r, hr, hin1⟩
  · exact Or.inl h1
  · rcases h2 with h2 | ⟨q, hq, hin2⟩
    · exact Or.inr (Or.inl h2)
    · exact Disj.of_sub_sub (hcross r hr q hq) hin1.sub hin2.sub

/-! ### stability: what an operation other than `release` does to blocks that are already live -/

structure Stable (s s' : Arena) (evs : List Ev) : Prop where
  blocksKept : ∀ b ∈ s.blocks, b ∈ s'.blocks
  regionsKept : ∀ r ∈ regions s, r ∈ regions s'
  nothingReturned : ∀ ev ∈ evs, (∃ pa p, ev = .pageAlloc pa p) ∨ (∃ u p b a, ev = .upAlloc u p b a) ∨ (∃ a n, ev = .write a n)
  writesClear : ∀ a n, Ev.write a n ∈ evs → ∀ b ∈ s.blocks, b.kind = .user → Disj ⟨a, n⟩ b.seg

theorem allocate_stable (held : List Seg) {s : Arena} (hI : Inv s) (hsub : ∀ r ∈ regions s, r ∈ held)
    (bytes align : Nat) (kind : Kind) (e : Env) (hal : ∃ k, align = 2 ^ k)
    (henv : AllocEnvOK held s bytes align e) :
    Stable s (s.allocate bytes align kind e).1 (s.allocate bytes align kind e).2.2 := by
  have hp := (allocate_post held hI.core hsub bytes align kind e hal henv).1
  have hI' := allocate_inv held hI hsub bytes align kind e hal henv
  refine ⟨?_, hp.regsMono, ?_, ?_⟩
  · intro b hb; rw [hp.blocks]; exact List.mem_cons_of_mem _ hb
  · intro ev hev
    have := hp.evKinds ev hev
    cases ev <;> simp_all [Ev.isAllocOrWrite]
  · intro a n hw b hb _
    obtain ⟨i, hi, hin⟩ := hp.evWrites a n hw
    have hb' : b ∈ (s.allocate bytes align kind e).1.blocks := by rw [hp.blocks]; exact List.mem_cons_of_mem _ hb
    exact Disj.of_sub_left (block_arr_disj hI' hb' hi).symm hin.sub

theorem register_stable (held : List Seg) {s : Arena} (hI : Inv s) (hsub : ∀ r ∈ regions s, r ∈ held)
    (tag : Nat) (e : Env) (henv : s.dtRoom = false → AllocEnvOK held s sizeofDtArray alignofDtArray e) :
    Stable s (s.register tag e).1 (s.register tag e).2 := by
  have hnew : s.dtRoom = false → Stable s (s.registerNewArr tag e).1 (s.registerNewArr tag e).2 := by
    intro hr
    have hal : ∃ k, alignofDtArray = 2 ^ k := ⟨3, rfl⟩
    have hst := allocate_stable held hI hsub sizeofDtArray alignofDtArray .dtArray e hal (henv hr)
    have hp := (allocate_post held hI.core hsub sizeofDtArray alignofDtArray .dtArray e hal (henv hr)).1
    have hI' := allocate_inv held hI hsub sizeofDtArray alignofDtArray .dtArray e hal (henv hr)
    unfold Arena.registerNewArr
    generalize s.allocate sizeofDtArray alignofDtArray .dtArray e = res at hst hp hI'
    obtain ⟨s1, p, evs⟩ := res
    simp only at hst hp hI' ⊢
    refine ⟨hst.blocksKept, hst.regionsKept, ?_, ?_⟩
    · intro ev hev
      rcases List.mem_append.mp hev with h | h
      · exact hst.nothingReturned ev h
      · simp only [List.mem_cons, List.mem_nil_iff, or_false] at h
        rcases h with rfl | rfl <;> exact Or.inr (Or.inr ⟨_, _, rfl⟩)
    · intro a n hw b hb hk
      rcases List.mem_append.mp hw with h | h
      · exact hst.writesClear a n h b hb hk
      · have hd : Disj (Block.seg ⟨p, sizeofDtArray, .dtArray⟩) b.seg :=
          (newest_block hI' hp.blocks).1 b hb
        simp only [List.mem_cons, Ev.write.injEq, List.mem_nil_iff, or_false] at h
        refine Disj.of_sub_left hd (Inside.sub ?_)
        rcases h with ⟨rfl, rfl⟩ | ⟨rfl, rfl⟩ <;> seg_omega
  unfold Arena.register
  split
  · rename_i a rest hd
    split
    · rename_i hroom
      refine ⟨fun b hb => hb, fun r hr => hr, ?_, ?_⟩
      · intro ev hev
        simp only [List.mem_cons, List.mem_nil_iff, or_false] at hev
        exact Or.inr (Or.inr ⟨_, _, hev⟩)
      · intro x n hw b hb hk
        simp only [List.mem_cons, Ev.write.injEq, List.mem_nil_iff, or_false] at hw
        obtain ⟨rfl, rfl⟩ := hw
        have hsh := hI.core.dt.shape a (by rw [hd]; exact List.mem_cons_self)
        have hne : (⟨a.addr, sizeofDtArray, .dtArray⟩ : Block) ≠ b := by
          intro h; rw [← h] at hk; cases hk
        have hdj := blocks_disj hI hsh.2.2 hb hne
        refine Disj.of_sub_left hdj (Inside.sub ?_)
        simp only [Arena.lastDtPointer, hd]
        have := hsh.2.1
        seg_omega
    · rename_i hroom
      exact hnew (by simp [Arena.dtRoom, hd, hroom])
  · rename_i hd
    exact hnew (by simp [Arena.dtRoom, hd])

end Babylon.Arena
