/-
  The event trace of `release()` (property C06): what is returned, in which order, and that no
  bookkeeping is read from memory that has already been returned.
-/
import Babylon.Arena.Step

namespace Babylon.Arena
open Babylon.Gen.Arena Babylon.Core

/-! ### projections of a trace -/

def Ev.pageFree? : Ev → Option (Nat × Nat)
  | .pageFree pa p => some (pa, p)
  | _ => none
def Ev.upFree? : Ev → Option (Nat × OvEntry)
  | .upFree up p b al => some (up, ⟨p, b, al⟩)
  | _ => none
def Ev.dtor? : Ev → Option Nat
  | .dtor t => some t
  | _ => none
def Ev.isFree : Ev → Bool
  | .pageFree _ _ | .upFree _ _ _ _ => true
  | _ => false

/-- pages returned to page allocators, in order -/
def pageFrees (evs : List Ev) : List (Nat × Nat) := evs.filterMap Ev.pageFree?
/-- blocks returned to upstream resources with the size and alignment passed, in order -/
def upFrees (evs : List Ev) : List (Nat × OvEntry) := evs.filterMap Ev.upFree?
/-- destructors run, in order -/
def dtorRuns (evs : List Ev) : List Nat := evs.filterMap Ev.dtor?

theorem length_entryAddrs (addr off sz cap k : Nat) : (entryAddrs addr off sz cap k).length = k := by
  simp [entryAddrs]

/-! ### the three parts of the trace, projected -/

theorem destructAll_proj (arrs : List DtArr) :
    dtorRuns (destructAll arrs) = arrs.flatMap (·.tasks) ∧ pageFrees (destructAll arrs) = [] ∧
    upFrees (destructAll arrs) = [] ∧ ∀ ev ∈ destructAll arrs, ev.isFree = false := by
  induction arrs with
  | nil => simp [destructAll, dtorRuns, pageFrees, upFrees]
  | cons a rest ih =>
    obtain ⟨ih1, ih2, ih3, ih4⟩ := ih
    have hz : ∀ (z : List (Nat × Nat)),
        (z.flatMap (fun (p, t) => [Ev.read p sizeofDestroyTask, Ev.dtor t])).filterMap Ev.dtor? = z.map Prod.snd ∧
        (z.flatMap (fun (p, t) => [Ev.read p sizeofDestroyTask, Ev.dtor t])).filterMap Ev.pageFree? = [] ∧
        (z.flatMap (fun (p, t) => [Ev.read p sizeofDestroyTask, Ev.dtor t])).filterMap Ev.upFree? = [] ∧
        ∀ ev ∈ z.flatMap (fun (p, t) => [Ev.read p sizeofDestroyTask, Ev.dtor t]), ev.isFree = false := by
      intro z
      induction z with
      | nil => simp
      | cons x xs ihz =>
        obtain ⟨h1, h2, h3, h4⟩ := ihz
        refine ⟨?_, ?_, ?_, ?_⟩
        · simp only [List.flatMap_cons, List.filterMap_append, h1]; simp [List.filterMap_cons, Ev.dtor?]
        · simp only [List.flatMap_cons, List.filterMap_append, h2]; simp [Ev.pageFree?]
        · simp only [List.flatMap_cons, List.filterMap_append, h3]; simp [Ev.upFree?]
        · intro ev hev
          simp only [List.flatMap_cons, List.mem_append, List.mem_cons, List.mem_nil_iff, or_false] at hev
          rcases hev with (rfl | rfl) | hev
          · rfl
          · rfl
          · exact h4 ev hev
    obtain ⟨h1, h2, h3, h4⟩ := hz ((entryAddrs a.addr offsetTasks sizeofDestroyTask destroyArrayCap a.tasks.length).zip a.tasks)
    have hsnd := List.map_snd_zip (l₁ := entryAddrs a.addr offsetTasks sizeofDestroyTask destroyArrayCap a.tasks.length)
      (l₂ := a.tasks) (by rw [length_entryAddrs]; exact Nat.le_refl _)
    refine ⟨?_, ?_, ?_, ?_⟩
    · simp only [destructAll, dtorRuns, List.filterMap_append] at ih1 ⊢
      rw [h1, hsnd, ih1]; simp [Ev.dtor?]
    · simp only [destructAll, pageFrees, List.filterMap_append] at ih2 ⊢
      rw [h2, ih2]; simp [Ev.pageFree?]
    · simp only [destructAll, upFrees, List.filterMap_append] at ih3 ⊢
      rw [h3, ih3]; simp [Ev.upFree?]
    · intro ev hev
      simp only [destructAll, List.mem_append, List.mem_cons, List.mem_nil_iff, or_false] at hev
      rcases hev with (hev | rfl) | hev
      · exact h4 ev hev
      · rfl
      · exact ih4 ev hev

theorem releasePages_proj (pa : Nat) (arrs : List PageArr) :
    pageFrees (releasePages pa arrs) = (arrs.flatMap (·.pages)).map (fun p => (pa, p)) ∧
    upFrees (releasePages pa arrs) = [] ∧ dtorRuns (releasePages pa arrs) = [] := by
  induction arrs with
  | nil => simp [releasePages, dtorRuns, pageFrees, upFrees]
  | cons a rest ih =>
    obtain ⟨ih1, ih2, ih3⟩ := ih
    have hr : ∀ (l : List Nat) (f : Ev → Option (Nat × Nat)), (∀ p, f (Ev.read p ptrSize) = none) →
        (l.map (fun p => Ev.read p ptrSize)).filterMap f = [] := by
      intro l f hf; induction l <;> simp [*]
    have hr2 : ∀ (l : List Nat) (f : Ev → Option (Nat × OvEntry)), (∀ p, f (Ev.read p ptrSize) = none) →
        (l.map (fun p => Ev.read p ptrSize)).filterMap f = [] := by
      intro l f hf; induction l <;> simp [*]
    have hr3 : ∀ (l : List Nat) (f : Ev → Option Nat), (∀ p, f (Ev.read p ptrSize) = none) →
        (l.map (fun p => Ev.read p ptrSize)).filterMap f = [] := by
      intro l f hf; induction l <;> simp [*]
    have hf1 : ∀ l : List Nat, (l.map (fun p => Ev.pageFree pa p)).filterMap Ev.pageFree? = l.map (fun p => (pa, p)) := by
      intro l; induction l <;> simp [Ev.pageFree?, *]
    have hf2 : ∀ l : List Nat, (l.map (fun p => Ev.pageFree pa p)).filterMap Ev.upFree? = [] := by
      intro l; induction l <;> simp [Ev.upFree?, *]
    have hf3 : ∀ l : List Nat, (l.map (fun p => Ev.pageFree pa p)).filterMap Ev.dtor? = [] := by
      intro l; induction l <;> simp [Ev.dtor?, *]
    refine ⟨?_, ?_, ?_⟩
    · simp only [releasePages, pageFrees, List.filterMap_append] at ih1 ⊢
      rw [hr _ _ (fun _ => rfl), hf1, ih1]; simp [Ev.pageFree?]
    · simp only [releasePages, upFrees, List.filterMap_append] at ih2 ⊢
      rw [hr2 _ _ (fun _ => rfl), hf2, ih2]; simp [Ev.upFree?]
    · simp only [releasePages, dtorRuns, List.filterMap_append] at ih3 ⊢
      rw [hr3 _ _ (fun _ => rfl), hf3, ih3]; simp [Ev.dtor?]

theorem releaseOv_proj (up : Nat) (arrs : List OvArr) :
    upFrees (releaseOv up arrs) = (arrs.flatMap (·.ents)).map (fun e => (up, e)) ∧
    pageFrees (releaseOv up arrs) = [] ∧ dtorRuns (releaseOv up arrs) = [] := by
  induction arrs with
  | nil => simp [releaseOv, dtorRuns, pageFrees, upFrees]
  | cons a rest ih =>
    obtain ⟨ih1, ih2, ih3⟩ := ih
    have hz : ∀ (z : List (Nat × OvEntry)),
        (z.flatMap (fun (p, en) => [Ev.read p sizeofOvPage, Ev.upFree up en.page en.bytes en.align])).filterMap Ev.upFree?
          = z.map (fun x => (up, x.2)) ∧
        (z.flatMap (fun (p, en) => [Ev.read p sizeofOvPage, Ev.upFree up en.page en.bytes en.align])).filterMap Ev.pageFree? = [] ∧
        (z.flatMap (fun (p, en) => [Ev.read p sizeofOvPage, Ev.upFree up en.page en.bytes en.align])).filterMap Ev.dtor? = [] := by
      intro z
      induction z with
      | nil => simp
      | cons x xs ihz =>
        obtain ⟨h1, h2, h3⟩ := ihz
        refine ⟨?_, ?_, ?_⟩
        · simp only [List.flatMap_cons, List.filterMap_append, h1]; simp [List.filterMap_cons, Ev.upFree?]
        · simp only [List.flatMap_cons, List.filterMap_append, h2]; simp [Ev.pageFree?]
        · simp only [List.flatMap_cons, List.filterMap_append, h3]; simp [Ev.dtor?]
    obtain ⟨h1, h2, h3⟩ := hz ((entryAddrs a.addr offsetOvPages sizeofOvPage pageArrayCap a.ents.length).zip a.ents)
    have hsnd := List.map_snd_zip (l₁ := entryAddrs a.addr offsetOvPages sizeofOvPage pageArrayCap a.ents.length)
      (l₂ := a.ents) (by rw [length_entryAddrs]; exact Nat.le_refl _)
    refine ⟨?_, ?_, ?_⟩
    · simp only [releaseOv, upFrees, List.filterMap_append] at ih1 ⊢
      rw [h1, ih1]
      have : (List.map (fun x => (up, x.2)) ((entryAddrs a.addr offsetOvPages sizeofOvPage pageArrayCap a.ents.length).zip a.ents))
          = a.ents.map (fun e => (up, e)) := by
        rw [← hsnd, List.map_map]; rw [hsnd]; rfl
      rw [this]; simp [Ev.upFree?]
    · simp only [releaseOv, pageFrees, List.filterMap_append] at ih2 ⊢
      rw [h2, ih2]; simp [Ev.pageFree?]
    · simp only [releaseOv, dtorRuns, List.filterMap_append] at ih3 ⊢
      rw [h3, ih3]; simp [Ev.dtor?]

/-! ### release returns exactly what was obtained, destructors first -/

theorem release_pageFrees {s : Arena} (hI : Inv s) : pageFrees s.release.2 = s.pagesHeld := by
  simp only [Arena.release, pageFrees, List.filterMap_append]
  have h1 := (destructAll_proj s.dtArrs).2.1
  have h2 := (releasePages_proj s.pa s.pageArrs).1
  have h3 := (releaseOv_proj s.up s.ovArrs).2.1
  simp only [pageFrees] at h1 h2 h3
  rw [h1, h2, h3, hI.core.pg.heldEq]; simp

theorem release_upFrees {s : Arena} (hI : Inv s) : upFrees s.release.2 = s.ovHeld := by
  simp only [Arena.release, upFrees, List.filterMap_append]
  have h1 := (destructAll_proj s.dtArrs).2.2.1
  have h2 := (releasePages_proj s.pa s.pageArrs).2.1
  have h3 := (releaseOv_proj s.up s.ovArrs).1
  simp only [upFrees] at h1 h2 h3
  rw [h1, h2, h3, hI.core.ov.heldEq]; simp

theorem release_dtors {s : Arena} (hI : Inv s) :
    ∃ pre post, s.release.2 = pre ++ post ∧ dtorRuns pre = s.dtors ∧ (∀ ev ∈ pre, ev.isFree = false) ∧
      dtorRuns post = [] := by
  refine ⟨destructAll s.dtArrs, releasePages s.pa s.pageArrs ++ releaseOv s.up s.ovArrs, ?_, ?_, ?_, ?_⟩
  · simp [Arena.release]
  · rw [(destructAll_proj s.dtArrs).1, hI.core.dt.dtorsEq]
  · exact (destructAll_proj s.dtArrs).2.2.2
  · simp only [dtorRuns, List.filterMap_append]
    have h2 := (releasePages_proj s.pa s.pageArrs).2.2
    have h3 := (releaseOv_proj s.up s.ovArrs).2.2
    simp only [dtorRuns] at h2 h3
    rw [h2, h3]; rfl

end Babylon.Arena
