/-
  The event trace of `release()` (property C06): what is returned, in which order, and that no
  bookkeeping is read from memory that has already been returned.
-/
import Babylon.Arena.Step

namespace Babylon.Arena
open Babylon.Gen.Arena Babylon.Core

/-! ### projections of a trace -/

def Ev.pageFree? : Ev → Option (Nat × Nat)
  | .pageFree pa p => some (pa, p)
  | _ => none
def Ev.upFree? : Ev → Option (Nat × OvEntry)
  | .upFree up p b al => some (up, ⟨p, b, al⟩)
  | _ => none
def Ev.dtor? : Ev → Option Nat
  | .dtor t => some t
  | _ => none
def Ev.isFree : Ev → Bool
  | .pageFree _ _ | .upFree _ _ _ _ => true
  | _ => false

/-- pages returned to page allocators, in order -/
def pageFrees (evs : List Ev) : List (Nat × Nat) := evs.filterMap Ev.pageFree?
/-- blocks returned to upstream resources with the size and alignment passed, in order -/
def upFrees (evs : List Ev) : List (Nat × OvEntry) := evs.filterMap Ev.upFree?
/-- destructors run, in order -/
def dtorRuns (evs : List Ev) : List Nat := evs.filterMap Ev.dtor?

theorem length_entryAddrs (addr off sz cap k : Nat) : (entryAddrs addr off sz cap k).length = k := by
  simp [entryAddrs]

/-! ### the three parts of the trace, projected -/

theorem destructAll_proj (arrs : List DtArr) :
    dtorRuns (destructAll arrs) = arrs.flatMap (·.tasks) ∧ pageFrees (destructAll arrs) = [] ∧
    upFrees (destructAll arrs) = [] ∧ ∀ ev ∈ destructAll arrs, ev.isFree = false := by
  induction arrs with
  | nil => simp [destructAll, dtorRuns, pageFrees, upFrees]
  | cons a rest ih =>
    obtain ⟨ih1, ih2, ih3, ih4⟩ := ih
    have hz : ∀ (z : List (Nat × Nat)),
        (z.flatMap (fun (p, t) => [Ev.read p sizeofDestroyTask, Ev.dtor t])).filterMap Ev.dtor? = z.map Prod.snd ∧
        (z.flatMap (fun (p, t) => [Ev.read p sizeofDestroyTask, Ev.dtor t])).filterMap Ev.pageFree? = [] ∧
        (z.flatMap (fun (p, t) => [Ev.read p sizeofDestroyTask, Ev.dtor t])).filterMap Ev.upFree? = [] ∧
        ∀ ev ∈ z.flatMap (fun (p, t) => [Ev.read p sizeofDestroyTask, Ev.dtor t]), ev.isFree = false := by
      intro z
      induction z with
      | nil => simp
      | cons x xs ihz =>
        obtain ⟨h1, h2, h3, h4⟩ := ihz
        refine ⟨?_, ?_, ?_, ?_⟩
        · simp only [List.flatMap_cons, List.filterMap_append, h1]; simp [List.filterMap_cons, Ev.dtor?]
        · simp only [List.flatMap_cons, List.filterMap_append, h2]; simp [Ev.pageFree?]
        · simp only [List.flatMap_cons, List.filterMap_append, h3]; simp [Ev.upFree?]
        · intro ev hev
          simp only [List.flatMap_cons, List.mem_append, List.mem_cons, List.mem_nil_iff, or_false] at hev
          rcases hev with (rfl | rfl) | hev
          · rfl
          · rfl
          · exact h4 ev hev
    obtain ⟨h1, h2, h3, h4⟩ := hz ((entryAddrs a.addr offsetTasks sizeofDestroyTask destroyArrayCap a.tasks.length).zip a.tasks)
    have hsnd := List.map_snd_zip (l₁ := entryAddrs a.addr offsetTasks sizeofDestroyTask destroyArrayCap a.tasks.length)
      (l₂ := a.tasks) (by rw [length_entryAddrs]; exact Nat.le_refl _)
    refine ⟨?_, ?_, ?_, ?_⟩
    · simp only [destructAll, dtorRuns, List.filterMap_append] at ih1 ⊢
      rw [h1, hsnd, ih1]; simp [Ev.dtor?]
    · simp only [destructAll, pageFrees, List.filterMap_append] at ih2 ⊢
      rw [h2, ih2]; simp [Ev.pageFree?]
    · simp only [destructAll, upFrees, List.filterMap_append] at ih3 ⊢
      rw [h3, ih3]; simp [Ev.upFree?]
    · intro ev hev
      simp only [destructAll, List.mem_append, List.mem_cons, List.mem_nil_iff, or_false] at hev
      rcases hev with (hev | rfl) | hev
      · exact h4 ev hev
      · rfl
      · exact ih4 ev hev

theorem releasePages_proj (pa : Nat) (arrs : List PageArr) :
    pageFrees (releasePages pa arrs) = (arrs.flatMap (·.pages)).map (fun p => (pa, p)) ∧
    upFrees (releasePages pa arrs) = [] ∧ dtorRuns (releasePages pa arrs) = [] := by
  induction arrs with
  | nil => simp [releasePages, dtorRuns, pageFrees, upFrees]
  | cons a rest ih =>
    obtain ⟨ih1, ih2, ih3⟩ := ih
    have hr : ∀ (l : List Nat) (f : Ev → Option (Nat × Nat)), (∀ p, f (Ev.read p ptrSize) = none) →
        (l.map (fun p => Ev.read p ptrSize)).filterMap f = [] := by
      intro l f hf; induction l <;> simp [*]
    have hr2 : ∀ (l : List Nat) (f : Ev → Option (Nat × OvEntry)), (∀ p, f (Ev.read p ptrSize) = none) →
        (l.map (fun p => Ev.read p ptrSize)).filterMap f = [] := by
      intro l f hf; induction l <;> simp [*]
    have hr3 : ∀ (l : List Nat) (f : Ev → Option Nat), (∀ p, f (Ev.read p ptrSize) = none) →
        (l.map (fun p => Ev.read p ptrSize)).filterMap f = [] := by
      intro l f hf; induction l <;> simp [*]
    have hf1 : ∀ l : List Nat, (l.map (fun p => Ev.pageFree pa p)).filterMap Ev.pageFree? = l.map (fun p => (pa, p)) := by
      intro l; induction l <;> simp [Ev.pageFree?, *]
    have hf2 : ∀ l : List Nat, (l.map (fun p => Ev.pageFree pa p)).filterMap Ev.upFree? = [] := by
      intro l; induction l <;> simp [Ev.upFree?, *]
    have hf3 : ∀ l : List Nat, (l.map (fun p => Ev.pageFree pa p)).filterMap Ev.dtor? = [] := by
      intro l; induction l <;> simp [Ev.dtor?, *]
    refine ⟨?_, ?_, ?_⟩
    · simp only [releasePages, pageFrees, List.filterMap_append] at ih1 ⊢
      rw [hr _ _ (fun _ => rfl), hf1, ih1]; simp [Ev.pageFree?]
    · simp only [releasePages, upFrees, List.filterMap_append] at ih2 ⊢
      rw [hr2 _ _ (fun _ => rfl), hf2, ih2]; simp [Ev.upFree?]
    · simp only [releasePages, dtorRuns, List.filterMap_append] at ih3 ⊢
      rw [hr3 _ _ (fun _ => rfl), hf3, ih3]; simp [Ev.dtor?]

theorem releaseOv_proj (up : Nat) (arrs : List OvArr) :
    upFrees (releaseOv up arrs) = (arrs.flatMap (·.ents)).map (fun e => (up, e)) ∧
    pageFrees (releaseOv up arrs) = [] ∧ dtorRuns (releaseOv up arrs) = [] := by
  induction arrs with
  | nil => simp [releaseOv, dtorRuns, pageFrees, upFrees]
  | cons a rest ih =>
    obtain ⟨ih1, ih2, ih3⟩ := ih
    have hz : ∀ (z : List (Nat × OvEntry)),
        (z.flatMap (fun (p, en) => [Ev.read p sizeofOvPage, Ev.upFree up en.page en.bytes en.align])).filterMap Ev.upFree?
          = z.map (fun x => (up, x.2)) ∧
        (z.flatMap (fun (p, en) => [Ev.read p sizeofOvPage, Ev.upFree up en.page en.bytes en.align])).filterMap Ev.pageFree? = [] ∧
        (z.flatMap (fun (p, en) => [Ev.read p sizeofOvPage, Ev.upFree up en.page en.bytes en.align])).filterMap Ev.dtor? = [] := by
      intro z
      induction z with
      | nil => simp
      | cons x xs ihz =>
        obtain ⟨h1, h2, h3⟩ := ihz
        refine ⟨?_, ?_, ?_⟩
        · simp only [List.flatMap_cons, List.filterMap_append, h1]; simp [List.filterMap_cons, Ev.upFree?]
        · simp only [List.flatMap_cons, List.filterMap_append, h2]; simp [Ev.pageFree?]
        · simp only [List.flatMap_cons, List.filterMap_append, h3]; simp [Ev.dtor?]
    obtain ⟨h1, h2, h3⟩ := hz ((entryAddrs a.addr offsetOvPages sizeofOvPage pageArrayCap a.ents.length).zip a.ents)
    have hsnd := List.map_snd_zip (l₁ := entryAddrs a.addr offsetOvPages sizeofOvPage pageArrayCap a.ents.length)
      (l₂ := a.ents) (by rw [length_entryAddrs]; exact Nat.le_refl _)
    refine ⟨?_, ?_, ?_⟩
    · simp only [releaseOv, upFrees, List.filterMap_append] at ih1 ⊢
      rw [h1, ih1]
      have : (List.map (fun x => (up, x.2)) ((entryAddrs a.addr offsetOvPages sizeofOvPage pageArrayCap a.ents.length).zip a.ents))
          = a.ents.map (fun e => (up, e)) := by
        rw [← hsnd, List.map_map]; rw [hsnd]; rfl
      rw [this]; simp [Ev.upFree?]
    · simp only [releaseOv, pageFrees, List.filterMap_append] at ih2 ⊢
      rw [h2, ih2]; simp [Ev.pageFree?]
    · simp only [releaseOv, dtorRuns, List.filterMap_append] at ih3 ⊢
      rw [h3, ih3]; simp [Ev.dtor?]

/-! ### release returns exactly what was obtained, destructors first -/

theorem release_pageFrees {s : Arena} (hI : Inv s) : pageFrees s.release.2 = s.pagesHeld := by
  simp only [Arena.release, pageFrees, List.filterMap_append]
  have h1 := (destructAll_proj s.dtArrs).2.1
  have h2 := (releasePages_proj s.pa s.pageArrs).1
  have h3 := (releaseOv_proj s.up s.ovArrs).2.1
  simp only [pageFrees] at h1 h2 h3
  rw [h1, h2, h3, hI.core.pg.heldEq]; simp

theorem release_upFrees {s : Arena} (hI : Inv s) : upFrees s.release.2 = s.ovHeld := by
  simp only [Arena.release, upFrees, List.filterMap_append]
  have h1 := (destructAll_proj s.dtArrs).2.2.1
  have h2 := (releasePages_proj s.pa s.pageArrs).2.1
  have h3 := (releaseOv_proj s.up s.ovArrs).1
  simp only [upFrees] at h1 h2 h3
  rw [h1, h2, h3, hI.core.ov.heldEq]; simp

theorem release_dtors {s : Arena} (hI : Inv s) :
    ∃ pre post, s.release.2 = pre ++ post ∧ dtorRuns pre = s.dtors ∧ (∀ ev ∈ pre, ev.isFree = false) ∧
      dtorRuns post = [] := by
  refine ⟨destructAll s.dtArrs, releasePages s.pa s.pageArrs ++ releaseOv s.up s.ovArrs, ?_, ?_, ?_, ?_⟩
  · simp [Arena.release]
  · rw [(destructAll_proj s.dtArrs).1, hI.core.dt.dtorsEq]
  · exact (destructAll_proj s.dtArrs).2.2.2
  · simp only [dtorRuns, List.filterMap_append]
    have h2 := (releasePages_proj s.pa s.pageArrs).2.2
    have h3 := (releaseOv_proj s.up s.ovArrs).2.2
    simp only [dtorRuns] at h2 h3
    rw [h2, h3]; rfl

/-! ### no bookkeeping read after the memory holding it was returned -/

def Ev.freedSeg (ps : Nat) : Ev → Option Seg
  | .pageFree _ p => some ⟨p, ps⟩
  | .upFree _ p b _ => some ⟨p, b⟩
  | _ => none

def Ev.readSeg : Ev → Option Seg
  | .read a n => some ⟨a, n⟩
  | _ => none

/-- `x` happens before `y`: if `x` returns memory and `y` is a bookkeeping read, they do not meet -/
def RAFok (ps : Nat) (x y : Ev) : Prop := ∀ f r, x.freedSeg ps = some f → y.readSeg = some r → Disj r f

/-- every bookkeeping read in the trace avoids all memory returned before it -/
def NoReadAfterFree (ps : Nat) (evs : List Ev) : Prop := evs.Pairwise (RAFok ps)

theorem rafok_of_not_free {ps : Nat} {x : Ev} (h : x.freedSeg ps = none) (y : Ev) : RAFok ps x y := by
  intro f r hf; rw [h] at hf; cases hf

theorem rafok_of_not_read {ps : Nat} {y : Ev} (h : y.readSeg = none) (x : Ev) : RAFok ps x y := by
  intro f r _ hr; rw [h] at hr; cases hr

theorem pairwise_of_no_free {ps : Nat} {l : List Ev} (h : ∀ x ∈ l, x.freedSeg ps = none) : l.Pairwise (RAFok ps) := by
  induction l with
  | nil => exact List.Pairwise.nil
  | cons x xs ih =>
    exact List.pairwise_cons.mpr ⟨fun y _ => rafok_of_not_free (h x List.mem_cons_self) y,
      ih (fun y hy => h y (List.mem_cons_of_mem _ hy))⟩

theorem pairwise_of_no_read {ps : Nat} {l : List Ev} (h : ∀ x ∈ l, x.readSeg = none) : l.Pairwise (RAFok ps) := by
  induction l with
  | nil => exact List.Pairwise.nil
  | cons x xs ih =>
    exact List.pairwise_cons.mpr ⟨fun y hy => rafok_of_not_read (h y (List.mem_cons_of_mem _ hy)) x,
      ih (fun y hy => h y (List.mem_cons_of_mem _ hy))⟩

theorem mem_entryAddrs_pages {addr k p : Nat} (hk : k ≤ pageArrayCap)
    (hp : p ∈ entryAddrs addr offsetPages ptrSize pageArrayCap k) :
    Inside ⟨p, ptrSize⟩ ⟨addr, sizeofPageArray⟩ := by
  simp only [entryAddrs, List.mem_map, List.mem_range] at hp
  obtain ⟨i, hi, rfl⟩ := hp
  seg_omega

theorem mem_entryAddrs_ov {addr k p : Nat} (hk : k ≤ pageArrayCap)
    (hp : p ∈ entryAddrs addr offsetOvPages sizeofOvPage pageArrayCap k) :
    Inside ⟨p, sizeofOvPage⟩ ⟨addr, sizeofOvArray⟩ := by
  simp only [entryAddrs, List.mem_map, List.mem_range] at hp
  obtain ⟨i, hi, rfl⟩ := hp
  seg_omega

/-- reads and frees of the page loop -/
theorem releasePages_events (ps pa : Nat) (arrs : List PageArr) (hshape : ∀ a ∈ arrs, a.pages.length ≤ pageArrayCap) :
    (∀ y ∈ releasePages pa arrs, ∀ r, y.readSeg = some r → ∃ a ∈ arrs, Inside r a.seg) ∧
    (∀ x ∈ releasePages pa arrs, ∀ f, x.freedSeg ps = some f → ∃ p ∈ arrs.flatMap (·.pages), f = ⟨p, ps⟩) := by
  induction arrs with
  | nil => simp [releasePages]
  | cons a rest ih =>
    obtain ⟨ih1, ih2⟩ := ih (fun x hx => hshape x (List.mem_cons_of_mem _ hx))
    have hk := hshape a List.mem_cons_self
    refine ⟨?_, ?_⟩
    · intro y hy r hr
      simp only [releasePages, List.mem_append, List.mem_cons, List.mem_nil_iff, or_false, List.mem_map] at hy
      rcases hy with ((rfl | ⟨p, hp, rfl⟩) | ⟨p, _, rfl⟩) | hy
      · simp only [Ev.readSeg, Option.some.injEq] at hr; subst hr
        exact ⟨a, List.mem_cons_self, by seg_omega⟩
      · simp only [Ev.readSeg, Option.some.injEq] at hr; subst hr
        exact ⟨a, List.mem_cons_self, mem_entryAddrs_pages hk hp⟩
      · cases hr
      · obtain ⟨a', ha', hin⟩ := ih1 y hy r hr
        exact ⟨a', List.mem_cons_of_mem _ ha', hin⟩
    · intro x hx f hf
      simp only [releasePages, List.mem_append, List.mem_cons, List.mem_nil_iff, or_false, List.mem_map] at hx
      rcases hx with ((rfl | ⟨p, hp, rfl⟩) | ⟨p, hp, rfl⟩) | hx
      · cases hf
      · cases hf
      · simp only [Ev.freedSeg, Option.some.injEq] at hf; subst hf
        exact ⟨p, by simp [hp], rfl⟩
      · obtain ⟨p, hp, rfl⟩ := ih2 x hx f hf
        exact ⟨p, by simp only [List.flatMap_cons, List.mem_append]; exact Or.inr hp, rfl⟩

theorem arrsHome_mem {ps : Nat} {arrs : List PageArr} (h : ArrsHome ps arrs) {a : PageArr} (ha : a ∈ arrs) :
    ∃ q ∈ arrs.flatMap (·.pages), Inside a.seg ⟨q, ps⟩ := by
  induction arrs with
  | nil => cases ha
  | cons x rest ih =>
    rcases List.mem_cons.mp ha with rfl | ha
    · obtain ⟨q, hq, hin⟩ := h.1
      exact ⟨q, by simpa using hq, hin⟩
    · obtain ⟨q, hq, hin⟩ := ih h.2 ha
      exact ⟨q, by simp only [List.flatMap_cons, List.mem_append]; exact Or.inr hq, hin⟩

theorem releasePages_noRAF (ps pa : Nat) (arrs : List PageArr)
    (hshape : ∀ a ∈ arrs, a.pages.length ≤ pageArrayCap) (hhome : ArrsHome ps arrs)
    (hpw : (arrs.flatMap (·.pages)).Pairwise (fun p q => Disj ⟨p, ps⟩ ⟨q, ps⟩)) :
    NoReadAfterFree ps (releasePages pa arrs) := by
  induction arrs with
  | nil => exact List.Pairwise.nil
  | cons a rest ih =>
    have hshape' : ∀ x ∈ rest, x.pages.length ≤ pageArrayCap := fun x hx => hshape x (List.mem_cons_of_mem _ hx)
    simp only [List.flatMap_cons] at hpw
    obtain ⟨_, hpw2, hcross⟩ := List.pairwise_append.mp hpw
    have ihr := ih hshape' hhome.2 hpw2
    obtain ⟨hreads, _⟩ := releasePages_events ps pa rest hshape'
    unfold NoReadAfterFree at *
    simp only [releasePages]
    refine List.pairwise_append.mpr ⟨?_, ihr, ?_⟩
    · refine List.pairwise_append.mpr ⟨?_, ?_, ?_⟩
      · apply pairwise_of_no_free
        intro x hx
        simp only [List.mem_append, List.mem_cons, List.mem_nil_iff, or_false, List.mem_map] at hx
        rcases hx with rfl | ⟨p, _, rfl⟩ <;> rfl
      · apply pairwise_of_no_read
        intro x hx
        simp only [List.mem_map] at hx
        obtain ⟨p, _, rfl⟩ := hx; rfl
      · intro x hx y _
        apply rafok_of_not_free
        simp only [List.mem_append, List.mem_cons, List.mem_nil_iff, or_false, List.mem_map] at hx
        rcases hx with rfl | ⟨p, _, rfl⟩ <;> rfl
    · intro x hx y hy f r hf hr
      simp only [List.mem_append, List.mem_cons, List.mem_nil_iff, or_false, List.mem_map] at hx
      rcases hx with (rfl | ⟨p, _, rfl⟩) | ⟨p, hp, rfl⟩
      · cases hf
      · cases hf
      · simp only [Ev.freedSeg, Option.some.injEq] at hf; subst hf
        obtain ⟨a', ha', hin⟩ := hreads y hy r hr
        obtain ⟨q, hq, hin2⟩ := arrsHome_mem hhome.2 ha'
        exact Disj.of_sub_left (hcross p hp q hq).symm (hin.trans hin2).sub

def OvEntry.seg (e : OvEntry) : Seg := ⟨e.page, e.bytes⟩

/-- events of one oversize array's loop body -/
abbrev ovBody (up : Nat) (z : List (Nat × OvEntry)) : List Ev :=
  z.flatMap (fun (p, en) => [Ev.read p sizeofOvPage, Ev.upFree up en.page en.bytes en.align])

theorem ovBody_events (ps up : Nat) (z : List (Nat × OvEntry)) :
    (∀ y ∈ ovBody up z, ∀ r, y.readSeg = some r → ∃ x ∈ z, r = ⟨x.1, sizeofOvPage⟩) ∧
    (∀ x ∈ ovBody up z, ∀ f, x.freedSeg ps = some f → ∃ e ∈ z.map Prod.snd, f = e.seg) := by
  induction z with
  | nil => simp [ovBody]
  | cons x xs ih =>
    obtain ⟨ih1, ih2⟩ := ih
    refine ⟨?_, ?_⟩
    · intro y hy r hr
      simp only [ovBody, List.flatMap_cons, List.mem_append, List.mem_cons, List.mem_nil_iff, or_false] at hy
      rcases hy with (rfl | rfl) | hy
      · simp only [Ev.readSeg, Option.some.injEq] at hr
        exact ⟨x, List.mem_cons_self, hr.symm⟩
      · cases hr
      · obtain ⟨x', hx', h⟩ := ih1 y hy r hr
        exact ⟨x', List.mem_cons_of_mem _ hx', h⟩
    · intro y hy f hf
      simp only [ovBody, List.flatMap_cons, List.mem_append, List.mem_cons, List.mem_nil_iff, or_false] at hy
      rcases hy with (rfl | rfl) | hy
      · cases hf
      · simp only [Ev.freedSeg, Option.some.injEq] at hf
        exact ⟨x.2, by simp, hf.symm⟩
      · obtain ⟨e, he, h⟩ := ih2 y hy f hf
        exact ⟨e, by simp only [List.map_cons, List.mem_cons]; exact Or.inr he, h⟩

/-- inside one array: entry `i` is read before block `i` is returned, and the array itself lives in
the block of its last entry, which is returned last -/
theorem ovBody_noRAF (ps up : Nat) (A : Seg) (z : List (Nat × OvEntry))
    (hin : ∀ x ∈ z, Inside ⟨x.1, sizeofOvPage⟩ A)
    (hpw : (z.map Prod.snd).Pairwise (fun e f => Disj e.seg f.seg))
    (hlast : ∀ last, (z.map Prod.snd).getLast? = some last → Inside A last.seg) :
    (ovBody up z).Pairwise (RAFok ps) := by
  induction z with
  | nil => exact List.Pairwise.nil
  | cons x xs ih =>
    simp only [List.map_cons] at hpw hlast
    obtain ⟨hx, hpw'⟩ := List.pairwise_cons.mp hpw
    have hin' : ∀ y ∈ xs, Inside ⟨y.1, sizeofOvPage⟩ A := fun y hy => hin y (List.mem_cons_of_mem _ hy)
    have hlast' : ∀ last, (xs.map Prod.snd).getLast? = some last → Inside A last.seg := by
      intro last hl
      apply hlast
      cases hxs : xs.map Prod.snd with
      | nil => rw [hxs] at hl; cases hl
      | cons y ys => rw [hxs] at hl; rw [List.getLast?_cons_cons]; exact hl
    have ihr := ih hin' hpw' hlast'
    obtain ⟨hreads, _⟩ := ovBody_events ps up xs
    simp only [ovBody, List.flatMap_cons]
    refine List.pairwise_append.mpr ⟨?_, ihr, ?_⟩
    · exact List.pairwise_cons.mpr ⟨fun y _ => rafok_of_not_free rfl y, List.pairwise_singleton _ _⟩
    · intro e he y hy f r hf hr
      simp only [List.mem_cons, List.mem_nil_iff, or_false] at he
      rcases he with rfl | rfl
      · cases hf
      · simp only [Ev.freedSeg, Option.some.injEq] at hf; subst hf
        obtain ⟨x', hx', rfl⟩ := hreads y hy r hr
        -- xs is not empty, so there is a last entry, different from x
        have hne : xs.map Prod.snd ≠ [] := by
          intro h0
          have : xs = [] := by simpa using h0
          rw [this] at hx'; cases hx'
        obtain ⟨last, hl⟩ : ∃ last, (xs.map Prod.snd).getLast? = some last := by
          cases hxs : xs.map Prod.snd with
          | nil => exact absurd hxs hne
          | cons y ys => exact ⟨_, List.getLast?_eq_some_getLast (by simp)⟩
        have hmem : last ∈ xs.map Prod.snd := List.mem_of_getLast? hl
        have hd : Disj x.2.seg last.seg := hx last hmem
        have hA := hlast' last hl
        exact Disj.of_sub_left hd.symm ((hin' x' hx').trans hA).sub

theorem ovArr_home {a : OvArr} (h : OvArrOK a) : ∃ last, a.ents.getLast? = some last ∧ Inside a.seg last.seg := by
  obtain ⟨_, _, _, last, hl, h1, h2⟩ := h
  exact ⟨last, hl, by simp only [OvArr.seg, OvEntry.seg, Inside]; omega⟩

theorem zip_entries_snd (a : OvArr) :
    ((entryAddrs a.addr offsetOvPages sizeofOvPage pageArrayCap a.ents.length).zip a.ents).map Prod.snd = a.ents :=
  List.map_snd_zip (by rw [length_entryAddrs]; exact Nat.le_refl _)

theorem releaseOv_events (ps up : Nat) (arrs : List OvArr) (hshape : ∀ a ∈ arrs, OvArrOK a) :
    (∀ y ∈ releaseOv up arrs, ∀ r, y.readSeg = some r → ∃ a ∈ arrs, Inside r a.seg) ∧
    (∀ x ∈ releaseOv up arrs, ∀ f, x.freedSeg ps = some f → ∃ e ∈ arrs.flatMap (·.ents), f = e.seg) := by
  induction arrs with
  | nil => simp [releaseOv]
  | cons a rest ih =>
    obtain ⟨ih1, ih2⟩ := ih (fun x hx => hshape x (List.mem_cons_of_mem _ hx))
    have hk := (hshape a List.mem_cons_self).2.1
    obtain ⟨hb1, hb2⟩ := ovBody_events ps up
      ((entryAddrs a.addr offsetOvPages sizeofOvPage pageArrayCap a.ents.length).zip a.ents)
    refine ⟨?_, ?_⟩
    · intro y hy r hr
      simp only [releaseOv, List.mem_append, List.mem_cons, List.mem_nil_iff, or_false] at hy
      rcases hy with (rfl | hy) | hy
      · simp only [Ev.readSeg, Option.some.injEq] at hr; subst hr
        exact ⟨a, List.mem_cons_self, by seg_omega⟩
      · obtain ⟨x, hx, rfl⟩ := hb1 y hy r hr
        exact ⟨a, List.mem_cons_self, mem_entryAddrs_ov hk (List.of_mem_zip (a := x.1) (b := x.2) hx).1⟩
      · obtain ⟨a', ha', hin⟩ := ih1 y hy r hr
        exact ⟨a', List.mem_cons_of_mem _ ha', hin⟩
    · intro x hx f hf
      simp only [releaseOv, List.mem_append, List.mem_cons, List.mem_nil_iff, or_false] at hx
      rcases hx with (rfl | hx) | hx
      · cases hf
      · obtain ⟨e, he, rfl⟩ := hb2 x hx f hf
        rw [zip_entries_snd] at he
        exact ⟨e, by simp [he], rfl⟩
      · obtain ⟨e, he, rfl⟩ := ih2 x hx f hf
        exact ⟨e, by simp only [List.flatMap_cons, List.mem_append]; exact Or.inr he, rfl⟩

theorem releaseOv_noRAF (ps up : Nat) (arrs : List OvArr) (hshape : ∀ a ∈ arrs, OvArrOK a)
    (hpw : (arrs.flatMap (·.ents)).Pairwise (fun e f => Disj e.seg f.seg)) :
    NoReadAfterFree ps (releaseOv up arrs) := by
  induction arrs with
  | nil => exact List.Pairwise.nil
  | cons a rest ih =>
    have hshape' : ∀ x ∈ rest, OvArrOK x := fun x hx => hshape x (List.mem_cons_of_mem _ hx)
    simp only [List.flatMap_cons] at hpw
    obtain ⟨hpw1, hpw2, hcross⟩ := List.pairwise_append.mp hpw
    have ihr := ih hshape' hpw2
    obtain ⟨hreads, _⟩ := releaseOv_events ps up rest hshape'
    have hk := (hshape a List.mem_cons_self).2.1
    obtain ⟨last, hl, hhome⟩ := ovArr_home (hshape a List.mem_cons_self)
    have hbody := ovBody_noRAF ps up a.seg
      ((entryAddrs a.addr offsetOvPages sizeofOvPage pageArrayCap a.ents.length).zip a.ents)
      (fun x hx => mem_entryAddrs_ov hk (List.of_mem_zip (a := x.1) (b := x.2) hx).1)
      (by rw [zip_entries_snd]; exact hpw1)
      (by rw [zip_entries_snd]; intro l hl'; rw [hl] at hl'; cases hl'; exact hhome)
    obtain ⟨_, hfrees⟩ := ovBody_events ps up
      ((entryAddrs a.addr offsetOvPages sizeofOvPage pageArrayCap a.ents.length).zip a.ents)
    unfold NoReadAfterFree at *
    simp only [releaseOv]
    refine List.pairwise_append.mpr ⟨?_, ihr, ?_⟩
    · exact List.pairwise_append.mpr ⟨List.pairwise_singleton _ _, hbody, by
        intro x hx y _
        simp only [List.mem_cons, List.mem_nil_iff, or_false] at hx
        subst hx
        exact rafok_of_not_free rfl y⟩
    · intro x hx y hy f r hf hr
      simp only [List.mem_append, List.mem_cons, List.mem_nil_iff, or_false] at hx
      rcases hx with rfl | hx
      · cases hf
      · obtain ⟨e, he, rfl⟩ := hfrees x hx f hf
        rw [zip_entries_snd] at he
        obtain ⟨a', ha', hin⟩ := hreads y hy r hr
        obtain ⟨last', hl', hhome'⟩ := ovArr_home (hshape' a' ha')
        have hmem : last' ∈ rest.flatMap (·.ents) :=
          List.mem_flatMap.mpr ⟨a', ha', List.mem_of_getLast? hl'⟩
        exact Disj.of_sub_left (hcross e he last' hmem).symm (hin.trans hhome').sub

/-- pages and upstream blocks held are pairwise disjoint (from the region part of the invariant) -/
theorem held_pairwise {s : Arena} (hI : Inv s) :
    (s.pageArrs.flatMap (·.pages)).Pairwise (fun p q => Disj ⟨p, s.pageSize⟩ ⟨q, s.pageSize⟩) ∧
    (s.ovArrs.flatMap (·.ents)).Pairwise (fun e f => Disj e.seg f.seg) ∧
    (∀ p ∈ s.pageArrs.flatMap (·.pages), ∀ e ∈ s.ovArrs.flatMap (·.ents), Disj ⟨p, s.pageSize⟩ e.seg) := by
  have h := hI.core.geo.rDisj
  simp only [regions, pageRegs, ovRegs, hI.core.pg.heldEq, hI.core.ov.heldEq, List.map_map] at h
  obtain ⟨h1, h2, h3⟩ := List.pairwise_append.mp h
  refine ⟨?_, ?_, ?_⟩
  · exact (List.pairwise_map.mp h1)
  · exact (List.pairwise_map.mp h2)
  · intro p hp e he
    exact h3 _ (List.mem_map.mpr ⟨p, hp, rfl⟩) _ (List.mem_map.mpr ⟨e, he, rfl⟩)

/-- `release()` never reads a bookkeeping field from memory it has already returned. -/
theorem release_noRAF {s : Arena} (hI : Inv s) : NoReadAfterFree s.pageSize s.release.2 := by
  obtain ⟨hp1, hp2, hp3⟩ := held_pairwise hI
  have hc := hI.core
  have hshapeP : ∀ a ∈ s.pageArrs, a.pages.length ≤ pageArrayCap := fun a ha => (hc.pg.shape a ha).2.1
  have hP := releasePages_noRAF s.pageSize s.pa s.pageArrs hshapeP hc.pg.home hp1
  have hO := releaseOv_noRAF s.pageSize s.up s.ovArrs hc.ov.shape hp2
  obtain ⟨_, hPfrees⟩ := releasePages_events s.pageSize s.pa s.pageArrs hshapeP
  obtain ⟨hOreads, _⟩ := releaseOv_events s.pageSize s.up s.ovArrs hc.ov.shape
  have hD : ∀ x ∈ destructAll s.dtArrs, x.freedSeg s.pageSize = none := by
    intro x hx
    have := (destructAll_proj s.dtArrs).2.2.2 x hx
    cases x <;> simp_all [Ev.isFree, Ev.freedSeg]
  unfold NoReadAfterFree at *
  simp only [Arena.release]
  refine List.pairwise_append.mpr ⟨?_, hO, ?_⟩
  · exact List.pairwise_append.mpr ⟨pairwise_of_no_free hD, hP, fun x hx y _ => rafok_of_not_free (hD x hx) y⟩
  · intro x hx y hy f r hf hr
    rcases List.mem_append.mp hx with hx | hx
    · rw [hD x hx] at hf; cases hf
    · obtain ⟨p, hp, rfl⟩ := hPfrees x hx f hf
      obtain ⟨a', ha', hin⟩ := hOreads y hy r hr
      obtain ⟨last', hl', hhome'⟩ := ovArr_home (hc.ov.shape a' ha')
      have hmem : last' ∈ s.ovArrs.flatMap (·.ents) := List.mem_flatMap.mpr ⟨a', ha', List.mem_of_getLast? hl'⟩
      exact Disj.of_sub_left (hp3 p hp last' hmem).symm (hin.trans hhome').sub

end Babylon.Arena
