/-
  Invariant + helper lemmas for the monotonic buffer resource model (property C06).
  Geo.lean   segments, disjointness, the abstract regions/items/free-range configuration
  Inv.lean   component predicates, the invariant, the fast path
  (this file) aggregates them
-/
import Babylon.Arena.Inv
