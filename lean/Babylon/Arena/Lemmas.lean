/-
  Invariant and helper lemmas for the monotonic buffer resource model (property C06).
-/
import Babylon.Arena.Model
import Babylon.Core.Reach

namespace Babylon.Arena
open Babylon.Gen.Arena Babylon.Core

end Babylon.Arena
