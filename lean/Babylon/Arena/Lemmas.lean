/-
  Invariant + helper lemmas for the monotonic buffer resource model (property C06).
  Geo.lean      segments, disjointness, the abstract regions / items / free-range configuration
  Inv.lean      component predicates, the invariant, the fast path
  Alloc.lean    one lemma per allocation path, `allocate` preserves the invariant
  Step.lean     register_destructor, release (state), one resource step, two resources + move
  Release.lean  the event trace of release()
  Shared.lean   release() of the shared / swiss variants over all per-thread resources
  Blocks.lean   what the invariant says about a block just handed out; stability
  (this file)   aggregates them
-/
import Babylon.Arena.Release
import Babylon.Arena.Blocks
import Babylon.Arena.Shared
