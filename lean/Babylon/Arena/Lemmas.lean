/-
  Invariant and helper lemmas for the monotonic buffer resource model (property C06).
  Layers: arithmetic of `alignUp`; component predicates (`PagesOK`, `OvOK`, `DtOK`, `Geo`);
  the invariant `Inv`; one lemma per allocation path; allocate / register / release / move.
-/
import Babylon.Arena.Model
import Babylon.Arena.Geo
import Babylon.Core.Reach

namespace Babylon.Arena
open Babylon.Gen.Arena Babylon.Core

/-! ### constants -/
theorem c_pageArrayCap : pageArrayCap = 15 := rfl
theorem c_destroyArrayCap : destroyArrayCap = 15 := rfl
theorem c_sizeofPageArray : sizeofPageArray = 128 := rfl
theorem c_alignofPageArray : alignofPageArray = 8 := rfl
theorem c_offsetPages : offsetPages = 8 := rfl
theorem c_ptrSize : ptrSize = 8 := rfl
theorem c_sizeofOvArray : sizeofOvArray = 368 := rfl
theorem c_alignofOvArray : alignofOvArray = 8 := rfl
theorem c_offsetOvPages : offsetOvPages = 8 := rfl
theorem c_sizeofOvPage : sizeofOvPage = 24 := rfl
theorem c_sizeofDtArray : sizeofDtArray = 248 := rfl
theorem c_alignofDtArray : alignofDtArray = 8 := rfl
theorem c_offsetTasks : offsetTasks = 8 := rfl
theorem c_sizeofDestroyTask : sizeofDestroyTask = 16 := rfl
theorem c_moveSwapsUpstream : moveSwapsUpstream = true := rfl

/-- rewrite every generated constant to its numeral -/
macro "consts" : tactic =>
  `(tactic| simp only [c_pageArrayCap, c_destroyArrayCap, c_sizeofPageArray, c_alignofPageArray, c_offsetPages,
      c_ptrSize, c_sizeofOvArray, c_alignofOvArray, c_offsetOvPages, c_sizeofOvPage, c_sizeofDtArray,
      c_alignofDtArray, c_offsetTasks, c_sizeofDestroyTask] at *)

/-! ### `alignUp` -/

theorem alignUp_spec (x : Nat) {a : Nat} (ha : 0 < a) :
    x ≤ alignUp x a ∧ alignUp x a < x + a ∧ a ∣ alignUp x a := by
  unfold alignUp
  have h1 := Nat.div_add_mod (x + a - 1) a
  have h2 := Nat.mod_lt (x + a - 1) ha
  have h3 : (x + a - 1) / a * a = a * ((x + a - 1) / a) := Nat.mul_comm _ _
  refine ⟨by omega, by omega, ?_⟩
  exact ⟨(x + a - 1) / a, h3⟩

theorem le_alignUp (x : Nat) {a : Nat} (ha : 0 < a) : x ≤ alignUp x a := (alignUp_spec x ha).1
theorem alignUp_lt (x : Nat) {a : Nat} (ha : 0 < a) : alignUp x a < x + a := (alignUp_spec x ha).2.1
theorem alignUp_dvd (x : Nat) {a : Nat} (ha : 0 < a) : a ∣ alignUp x a := (alignUp_spec x ha).2.2

theorem alignUp_zero {a : Nat} (ha : 0 < a) : alignUp 0 a = 0 := by
  have := alignUp_spec 0 ha
  rcases this with ⟨_, h2, ⟨k, hk⟩⟩
  rcases k with _ | k
  · simpa using hk
  · rw [hk, Nat.mul_succ] at h2; omega

theorem alignUp_8 (x : Nat) : alignUp x 8 = (x + 7) / 8 * 8 := rfl

theorem pow2_pos {a : Nat} (h : ∃ k, a = 2 ^ k) : 0 < a := by
  rcases h with ⟨k, rfl⟩; exact Nat.pow_pos (by decide)

theorem pow2_dvd_of_le {a b : Nat} (ha : ∃ k, a = 2 ^ k) (hb : ∃ k, b = 2 ^ k) (h : a ≤ b) : a ∣ b := by
  rcases ha with ⟨i, rfl⟩; rcases hb with ⟨j, rfl⟩
  exact Nat.pow_dvd_pow 2 ((Nat.pow_le_pow_iff_right (by decide)).mp h)

theorem pow2_max8 {a : Nat} (ha : ∃ k, a = 2 ^ k) : a ∣ max a 8 ∧ 8 ∣ max a 8 ∧ 0 < max a 8 := by
  rcases Nat.le_total a 8 with h | h
  · rw [Nat.max_eq_right h]
    exact ⟨pow2_dvd_of_le ha ⟨3, rfl⟩ h, Nat.dvd_refl _, by decide⟩
  · rw [Nat.max_eq_left h]
    exact ⟨Nat.dvd_refl _, pow2_dvd_of_le ⟨3, rfl⟩ ha h, pow2_pos ha⟩

/-! ### segments of the state -/

def Block.seg (b : Block) : Seg := ⟨b.addr, b.bytes⟩
def PageArr.seg (a : PageArr) : Seg := ⟨a.addr, sizeofPageArray⟩
def OvArr.seg (a : OvArr) : Seg := ⟨a.addr, sizeofOvArray⟩

def pageRegs (ps : Nat) (held : List (Nat × Nat)) : List Seg := held.map (fun p => ⟨p.2, ps⟩)
def ovRegs (held : List (Nat × OvEntry)) : List Seg := held.map (fun e => ⟨e.2.page, e.2.bytes⟩)

/-- memory the resource holds: pages and upstream blocks -/
def regions (s : Arena) : List Seg := pageRegs s.pageSize s.pagesHeld ++ ovRegs s.ovHeld

/-- everything placed in that memory: blocks handed out (including destroy-task arrays), page
arrays, oversize arrays -/
def items (s : Arena) : List Seg :=
  s.blocks.map Block.seg ++ (s.pageArrs.map PageArr.seg ++ s.ovArrs.map OvArr.seg)

def freeSeg (s : Arena) : Seg := ⟨s.freeBegin, s.freeEnd - s.freeBegin⟩

/-! ### component predicates -/

/-- every page array lives in a page held by itself or by an older array of the chain -/
def ArrsHome (ps : Nat) : List PageArr → Prop
  | [] => True
  | a :: rest => (∃ p ∈ a.pages ++ rest.flatMap (·.pages), Inside a.seg ⟨p, ps⟩) ∧ ArrsHome ps rest

structure PagesOK (pa ps : Nat) (arrs : List PageArr) (held : List (Nat × Nat)) (fb fe : Nat) : Prop where
  heldEq : held = (arrs.flatMap (·.pages)).map (fun p => (pa, p))
  aligned : ∀ p ∈ arrs.flatMap (·.pages), ps ∣ p
  shape : ∀ a ∈ arrs, 0 < a.pages.length ∧ a.pages.length ≤ pageArrayCap ∧ 8 ∣ a.addr
  tailFull : ∀ a ∈ arrs.tail, a.pages.length = pageArrayCap
  home : ArrsHome ps arrs
  free : (arrs = [] ∧ fb = 0 ∧ fe = 0) ∨
         (∃ a rest p l, arrs = a :: rest ∧ a.pages = p :: l ∧ fe = p + ps ∧ p ≤ fb)

/-- an oversize array sits at the end of the upstream block recorded in its own last entry -/
def OvArrOK (a : OvArr) : Prop :=
  0 < a.ents.length ∧ a.ents.length ≤ pageArrayCap ∧ 8 ∣ a.addr ∧
  ∃ last, a.ents.getLast? = some last ∧ last.page ≤ a.addr ∧ a.addr + sizeofOvArray = last.page + last.bytes

structure OvOK (up : Nat) (arrs : List OvArr) (held : List (Nat × OvEntry)) : Prop where
  heldEq : held = (arrs.flatMap (·.ents)).map (fun e => (up, e))
  aligned : ∀ e ∈ arrs.flatMap (·.ents), e.align ∣ e.page
  shape : ∀ a ∈ arrs, OvArrOK a
  tailFull : ∀ a ∈ arrs.tail, a.ents.length = pageArrayCap

structure DtOK (arrs : List DtArr) (dtors : List Nat) (blocks : List Block) : Prop where
  dtorsEq : dtors = arrs.flatMap (·.tasks)
  shape : ∀ a ∈ arrs, 0 < a.tasks.length ∧ a.tasks.length ≤ destroyArrayCap ∧
            (⟨a.addr, sizeofDtArray, .dtArray⟩ : Block) ∈ blocks
  tailFull : ∀ a ∈ arrs.tail, a.tasks.length = destroyArrayCap

/-- The invariant of one resource. -/
structure Inv (s : Arena) : Prop where
  psPow2 : ∃ k, s.pageSize = 2 ^ k
  psGe : sizeofPageArray ≤ s.pageSize
  pg : PagesOK s.pa s.pageSize s.pageArrs s.pagesHeld s.freeBegin s.freeEnd
  ov : OvOK s.up s.ovArrs s.ovHeld
  dt : DtOK s.dtArrs s.dtors s.blocks
  geo : Geo (regions s) (items s) (freeSeg s)
  acctAlloc : s.spaceAllocated = s.pageSize * s.pagesHeld.length + (s.ovHeld.map (·.2.bytes)).sum
  acctUsed : s.spaceUsed = (s.blocks.map (·.bytes)).sum

theorem Inv.ps8 {s : Arena} (h : Inv s) : 8 ∣ s.pageSize :=
  pow2_dvd_of_le ⟨3, rfl⟩ h.psPow2 (Nat.le_trans (by decide) h.psGe)

theorem Inv.psPos {s : Arena} (h : Inv s) : 0 < s.pageSize := pow2_pos h.psPow2

theorem inv_fresh (pa ps up : Nat) (hp : ∃ k, ps = 2 ^ k) (hg : sizeofPageArray ≤ ps) :
    Inv (Arena.fresh pa ps up) where
  psPow2 := hp
  psGe := hg
  pg := ⟨rfl, by simp [Arena.fresh], by simp [Arena.fresh], by simp [Arena.fresh], trivial, Or.inl ⟨rfl, rfl, rfl⟩⟩
  ov := ⟨rfl, by simp [Arena.fresh], by simp [Arena.fresh], by simp [Arena.fresh]⟩
  dt := ⟨rfl, by simp [Arena.fresh], by simp [Arena.fresh]⟩
  geo := Geo.empty _ rfl
  acctAlloc := by simp [Arena.fresh]
  acctUsed := by simp [Arena.fresh]

end Babylon.Arena
