/-
  Publication of anyflow data over the release/acquire VIEW memory model (Babylon/Core/MemView.lean):
  a processor sees all its inputs fully published although different inputs were published by different
  threads, and the thread returning from `get()` / `wait()` sees all target data — in EVERY execution of the
  view model, stale reads included.

  Locations: `word w` — the atomic words of a run that are modified by read-modify-writes ONLY
  (`GraphDependency::_waiting_num`, `GraphVertex::_waiting_num`, `GraphData::_closure` (bind / seal CAS),
  `GraphData::_acquired`, `ClosureContext::_waiting_data_num`, `_waiting_vertex_num`, `_callback`) and
  `val d` — the value of data `d`, a plain location (a read may return ANY message the reader's view admits).
  `VStep` is one action of any thread, any order (it over-approximates the code: no program order is
  imposed, which is all happens-before claims need):
      rmw / cas     on a word, any order          load   of a word, any order
      valW / valR   of a data value               handoff a b   thread `b` starts a task submitted by `a`, or
                                                  returns from a future / promise set by `a` (executor and
                                                  future contracts, C07 / C08: `b` absorbs `a`'s view)
  Every write of a word is an RMW, so the messages of each word form ONE release sequence (`Chain`): a
  releasing RMW publishes its thread's view into its message and into every later message of that word; an
  acquiring RMW (which reads the last message) or an acquiring load absorbs it.  The orders of the real code
  are the generated constants (`gen_view_orders` in Properties/C05.lean).  Core Lean only.
-/
import Babylon.Core.MemView
import Babylon.Core.Reach
import Babylon.Gen.Anyflow

namespace Babylon.Anyflow.View
open Babylon.Core Babylon.Core.MemView

inductive Loc
  | word (w : Nat)
  | val (d : Nat)
  deriving DecidableEq, Repr

/-- executor / future hand-off: thread `b` continues with everything thread `a` had seen -/
def handoffMem (m : Mem Loc) (a b : Nat) : Mem Loc :=
  let T : TView Loc := ⟨(m.tv b).cur.join (m.tv a).cur, (m.tv b).acq.join (m.tv a).cur, (m.tv b).rel⟩
  { m with tv := MemView.upd m.tv b T }

inductive VStep : Mem Loc → Mem Loc → Prop
  | rmw (m m' : Mem Loc) (t w : Nat) (ord : Core.Ord) (f : Nat → Nat) (old : Nat) :
      m.rmw t (.word w) ord f = some (m', old) → VStep m m'
  | cas (m m' : Mem Loc) (t w : Nat) (so fo : Core.Ord) (e d ts : Nat) (ok : Bool) (obs : Nat) :
      m.cas t (.word w) so fo e d ts = some (m', ok, obs) → VStep m m'
  | load (m m' : Mem Loc) (t w : Nat) (ord : Core.Ord) (ts v : Nat) : m.read t (.word w) ord ts = some (m', v) → VStep m m'
  | valW (m : Mem Loc) (t d : Nat) (ord : Core.Ord) (v : Nat) : VStep m (m.write t (.val d) ord v)
  | valR (m m' : Mem Loc) (t d : Nat) (ord : Core.Ord) (ts v : Nat) : m.read t (.val d) ord ts = some (m', v) → VStep m m'
  | handoff (m : Mem Loc) (a b : Nat) : VStep m (handoffMem m a b)

abbrev Path (m1 m2 : Mem Loc) : Prop := Reachable (· = m1) VStep m2

/-- the messages of every word form one release sequence: views grow along the history -/
def Chain (m : Mem Loc) : Prop :=
  ∀ (w i j : Nat) (mi mj : Msg Loc), i ≤ j → (m.hist (.word w))[i]? = some mi → (m.hist (.word w))[j]? = some mj →
    mi.view ≤ mj.view

theorem chain_init (iv : Loc → Nat) : Chain (Mem.init iv) := by
  unfold Chain
  intro w i j mi mj _ hi hj
  simp only [Mem.init] at hi hj
  have e1 : i = 0 := by
    rcases i with _ | i
    · rfl
    · simp at hi
  have e2 : j = 0 := by
    rcases j with _ | j
    · rfl
    · simp at hj
  subst e1; subst e2
  rw [hi] at hj; cases hj
  exact View.le_refl _

theorem chain_of_hist {m m' : Mem Loc} (h : ∀ w, m'.hist (.word w) = m.hist (.word w)) (hc : Chain m) : Chain m' := by
  unfold Chain at *
  intro w i j mi mj hij hi hj
  rw [h] at hi hj
  exact hc w i j mi mj hij hi hj

theorem getElem?_snoc {α : Type} (xs : List α) (a b : α) (i : Nat) (h : (xs ++ [a])[i]? = some b) :
    (i < xs.length ∧ xs[i]? = some b) ∨ (i = xs.length ∧ b = a) := by
  rcases Nat.lt_trichotomy i xs.length with hlt | heq | hgt
  · left; rw [List.getElem?_append_left hlt] at h; exact ⟨hlt, h⟩
  · right; subst heq; simp at h; exact ⟨rfl, h.symm⟩
  · rw [List.getElem?_eq_none (by simp; omega)] at h; cases h

theorem chain_rmw {m m' : Mem Loc} {t w0 : Nat} {ord : Core.Ord} {f : Nat → Nat} {old : Nat}
    (h : m.rmw t (.word w0) ord f = some (m', old)) (hc : Chain m) : Chain m' := by
  obtain ⟨msg, W, hlast, _, hh, hho, _, hmW, _⟩ := Mem.rmw_facts h
  have hl := getLast?_getElem? _ _ hlast
  unfold Chain at *
  intro w i j mi mj hij hi hj
  by_cases hw : w = w0
  · subst hw
    rw [hh] at hi hj
    rcases getElem?_snoc _ _ _ _ hj with ⟨hjl, hj'⟩ | ⟨hje, rfl⟩
    · rcases getElem?_snoc _ _ _ _ hi with ⟨_, hi'⟩ | ⟨hie, _⟩
      · exact hc w i j mi mj hij hi' hj'
      · omega
    · rcases getElem?_snoc _ _ _ _ hi with ⟨hil, hi'⟩ | ⟨_, rfl⟩
      · exact View.le_trans (hc w i _ mi msg (by omega) hi' hl) hmW
      · exact View.le_refl _
  · have hne : Loc.word w ≠ Loc.word w0 := fun h => hw (by cases h; rfl)
    rw [hho _ hne] at hi hj
    exact hc w i j mi mj hij hi hj

theorem chain_cas {m m' : Mem Loc} {t w0 : Nat} {so fo : Core.Ord} {e d ts : Nat} {ok : Bool} {obs : Nat}
    (h : m.cas t (.word w0) so fo e d ts = some (m', ok, obs)) (hc : Chain m) : Chain m' := by
  rcases Mem.cas_spec h with ⟨_, _, h1⟩ | ⟨_, _, h1⟩
  · exact chain_rmw h1 hc
  · exact chain_of_hist (fun w => by rw [Mem.read_hist h1]) hc

theorem handoff_ext (m : Mem Loc) (a b : Nat) : m.Ext (handoffMem m a b) := by
  refine ⟨fun l => ⟨[], by simp [handoffMem]⟩, fun t => ?_, fun t => ?_, View.le_refl _⟩
  · simp only [handoffMem, MemView.upd_apply]
    split
    · next h => subst h; exact View.le_join_left _ _
    · exact View.le_refl _
  · simp only [handoffMem, MemView.upd_apply]
    split
    · next h => subst h; exact View.le_join_left _ _
    · exact View.le_refl _

theorem vstep_ext {m m' : Mem Loc} (h : VStep m m') : m.Ext m' := by
  cases h with
  | rmw _ t w ord f old h => exact Mem.rmw_ext h
  | cas _ t w so fo e d ts ok obs h => exact Mem.cas_ext h
  | load _ t w ord ts v h => exact Mem.read_ext h
  | valW t d ord v => exact Mem.write_ext _ _ _ _ _
  | valR _ t d ord ts v h => exact Mem.read_ext h
  | handoff a b => exact handoff_ext m a b

theorem vstep_chain {m m' : Mem Loc} (h : VStep m m') (hc : Chain m) : Chain m' := by
  cases h with
  | rmw _ t w ord f old h => exact chain_rmw h hc
  | cas _ t w so fo e d ts ok obs h => exact chain_cas h hc
  | load _ t w ord ts v h => exact chain_of_hist (fun w => by rw [Mem.read_hist h]) hc
  | valW t d ord v => exact chain_of_hist (fun w => Mem.write_hist_other _ _ _ _ _ _ (by simp)) hc
  | valR _ t d ord ts v h => exact chain_of_hist (fun w => by rw [Mem.read_hist h]) hc
  | handoff a b => exact chain_of_hist (fun _ => rfl) hc

theorem path_ext {m1 m2 : Mem Loc} (h : Path m1 m2) : m1.Ext m2 := by
  induction h with
  | base hi => subst hi; exact Mem.Ext.refl _
  | tail _ hst ih => exact ih.trans (vstep_ext hst)

theorem path_chain {m1 m2 : Mem Loc} (h : Path m1 m2) (hc : Chain m1) : Chain m2 := by
  induction h with
  | base hi => subst hi; exact hc
  | tail _ hst ih => exact vstep_chain hst ih

theorem reach_chain (iv : Loc → Nat) {m : Mem Loc} (h : Path (Mem.init iv) m) : Chain m :=
  path_chain h (chain_init iv)

/-- a thread's view never shrinks -/
theorem path_cur_mono {m1 m2 : Mem Loc} (h : Path m1 m2) (t : Nat) : (m1.tv t).cur ≤ (m2.tv t).cur :=
  fun l => (path_ext h).cur t l

/-- **Publication on a word.**  A releasing RMW on word `w` by thread `c` at `m0` creates message number
`m0.len w`; in every later memory that message and every later message of `w` carry `c`'s view. -/
theorem release_published {m0 m1 m2 : Mem Loc} {c w : Nat} {ord : Core.Ord} {f : Nat → Nat} {old : Nat}
    (hc : Chain m0) (hx : m0.rmw c (.word w) ord f = some (m1, old)) (hrel : ord.releases = true) (hp : Path m1 m2) :
    Chain m2 ∧ m0.len (.word w) < m2.len (.word w) ∧
    ∀ j mj, m0.len (.word w) ≤ j → (m2.hist (.word w))[j]? = some mj → (m0.tv c).cur ≤ mj.view := by
  have hc2 := path_chain hp (chain_rmw hx hc)
  refine ⟨hc2, ?_, ?_⟩
  · have h1 := (path_ext hp).len_le (.word w)
    obtain ⟨_, _, _, _, hh, _⟩ := Mem.rmw_facts hx
    have : m1.len (.word w) = m0.len (.word w) + 1 := by simp [Mem.len, hh]
    omega
  obtain ⟨msg, W, _, _, hh, _, _, _, hrelW, _⟩ := Mem.rmw_facts hx
  have hn : (m1.hist (.word w))[m0.len (.word w)]? = some ⟨f msg.val, W⟩ := by
    rw [hh]; simp [Mem.len]
  have hn2 := (path_ext hp).get? _ _ _ hn
  intro j mj hj hmj
  exact View.le_trans (hrelW hrel) (hc2 w _ j _ mj hj hn2 hmj)

/-- **one hop, RMW reader**: `c` releases on word `w` (RMW), later `p` does an acquiring RMW on `w`
(it reads the last message, i.e. from the release sequence of all earlier RMWs): `c`'s view is in `p`'s -/
theorem hop_rmw {m0 m1 m2 m3 : Mem Loc} {c p w : Nat} {oR oA : Core.Ord} {f g : Nat → Nat} {old old' : Nat}
    (hc : Chain m0) (hx : m0.rmw c (.word w) oR f = some (m1, old)) (hrel : oR.releases = true)
    (hp : Path m1 m2) (hs : m2.rmw p (.word w) oA g = some (m3, old')) (hacq : oA.acquires = true) :
    (m0.tv c).cur ≤ (m3.tv p).cur := by
  obtain ⟨_, hn, hpub⟩ := release_published hc hx hrel hp
  obtain ⟨msg, W, hlast, _, _, _, _, _, _, _, _, _, _, hcur, _⟩ := Mem.rmw_facts hs
  have hl := getLast?_getElem? _ _ hlast
  exact View.le_trans (hpub _ msg (by simp only [Mem.len] at hn ⊢; omega) hl) (hcur hacq)

/-- **one hop, load reader**: the same for an acquiring load that reads `c`'s message or a later one
(`GraphData::ready()` reading SEALED written by the emitter's seal CAS) -/
theorem hop_load {m0 m1 m2 m3 : Mem Loc} {c j w : Nat} {oR oA : Core.Ord} {f : Nat → Nat} {old ts v : Nat}
    (hc : Chain m0) (hx : m0.rmw c (.word w) oR f = some (m1, old)) (hrel : oR.releases = true)
    (hp : Path m1 m2) (hs : m2.read j (.word w) oA ts = some (m3, v)) (hacq : oA.acquires = true)
    (hts : m0.len (.word w) ≤ ts) : (m0.tv c).cur ≤ (m3.tv j).cur := by
  obtain ⟨_, _, hpub⟩ := release_published hc hx hrel hp
  obtain ⟨msg, hm, _, _, rfl⟩ := Mem.read_spec hs
  simp only [MemView.upd_same]
  exact View.le_trans (hpub ts msg hts hm) (TView.read_acquires _ _ _ _ _ hacq)

/-- after a hand-off `b` has everything `a` had -/
theorem handoff_cur (m : Mem Loc) (a b : Nat) : (m.tv a).cur ≤ ((handoffMem m a b).tv b).cur := by
  simp only [handoffMem, MemView.upd_same]
  exact View.le_join_right _ _

/-- a thread's own store is in its view afterwards: message number `m.len l` -/
theorem write_in_view (m : Mem Loc) (t : Nat) (l : Loc) (ord : Core.Ord) (v : Nat) :
    m.len l ≤ ((m.write t l ord v).tv t).cur.get l := by
  have h2 := (Mem.Ext.refl (m.write t l ord v)).cur t l
  simp [TView.wrote] at h2 ⊢
  omega

/-- a read by a thread whose view contains message `n` of `l` returns message `n` or a later one -/
theorem read_not_older {m m' : Mem Loc} {t : Nat} {l : Loc} {ord : Core.Ord} {ts v n : Nat}
    (h : m.read t l ord ts = some (m', v)) (hn : n ≤ (m.tv t).cur.get l) : n ≤ ts := by
  obtain ⟨_, _, _, hle, _⟩ := Mem.read_spec h
  omega

/-- **data_publication_view.**  An emitter `c` writes the value of data `d` (plain store, message number
`ma.len (val d)`), goes on (seal CAS on `_closure`, `fetch_sub` on the dependency counter, …) and decrements
the waiting counter `V` of a dependent vertex with a releasing RMW.  Later — after any actions of any
threads — thread `p` decrements `V` with an acquiring RMW (the decrement that reaches the trigger value: it
reads the last message of `V`, i.e. from the release sequence of all earlier decrements) and then, possibly
on the same thread much later, the processor reads the value of `d`: the read returns the emitter's
message or a later one, never an older (stale) one.  The statement holds for every emitter / data pair with
the same trigger RMW, i.e. for EVERY dependency of the vertex, whichever threads published them. -/
theorem data_publication_view {ma m0 m1 m2 m3 m4 m5 : Mem Loc} {c p d V x : Nat} {ow oR oA orr : Core.Ord}
    {f g : Nat → Nat} {old old' ts v : Nat}
    (hc : Chain ma)
    (hw : Path (ma.write c (.val d) ow x) m0)                                 -- the emitter wrote the value, then …
    (hx : m0.rmw c (.word V) oR f = some (m1, old)) (hrel : oR.releases = true)   -- … decrements the vertex counter
    (hp : Path m1 m2)
    (hs : m2.rmw p (.word V) oA g = some (m3, old')) (hacq : oA.acquires = true)  -- the decrement that triggers
    (hq : Path m3 m4)
    (hr : m4.read p (.val d) orr ts = some (m5, v)) :                          -- the processor reads the input
    ma.len (.val d) ≤ ts := by
  have hc0 : Chain m0 := path_chain hw (chain_of_hist (fun w => Mem.write_hist_other _ _ _ _ _ _ (by simp)) hc)
  have h1 : ma.len (.val d) ≤ (m0.tv c).cur.get (.val d) :=
    Nat.le_trans (write_in_view ma c (.val d) ow x) (path_cur_mono hw c _)
  have h2 := hop_rmw hc0 hx hrel hp hs hacq
  have h3 := path_cur_mono hq p
  exact read_not_older hr (Nat.le_trans h1 (Nat.le_trans (h2 _) (h3 _)))

/-- **data_publication_view, dependency already ready at activation.**  The emitter releases on the word
`S` (its seal CAS on `GraphData::_closure`, or its `fetch_sub` on the dependency counter); the ACTIVATING
thread `a` sees that with an acquiring load of `S` (`GraphData::ready()`) — or an acquiring RMW, see
`data_publication_view_activation_rmw` — counts the dependency as finished and later publishes that with
its own releasing RMW on the vertex counter `V` (the batch `fetch_sub(finished)`); the triggering thread
`p` acquires `V`: two hops, same conclusion. -/
theorem data_publication_view_activation {ma m0 m1 m2 m3 m4 m5 m6 m7 m8 m9 : Mem Loc} {c a p d S V x : Nat}
    {ow oR oL oR2 oA orr : Core.Ord} {f f2 g : Nat → Nat} {old old2 old' tsS vS ts v : Nat}
    (hc : Chain ma)
    (hw : Path (ma.write c (.val d) ow x) m0)
    (hx : m0.rmw c (.word S) oR f = some (m1, old)) (hrel : oR.releases = true)
    (hp1 : Path m1 m2)
    (hl : m2.read a (.word S) oL tsS = some (m3, vS)) (hacqL : oL.acquires = true) (hts : m0.len (.word S) ≤ tsS)
    (hp2 : Path m3 m4)
    (hx2 : m4.rmw a (.word V) oR2 f2 = some (m5, old2)) (hrel2 : oR2.releases = true)
    (hp3 : Path m5 m6)
    (hs : m6.rmw p (.word V) oA g = some (m7, old')) (hacq : oA.acquires = true)
    (hq : Path m7 m8)
    (hr : m8.read p (.val d) orr ts = some (m9, v)) :
    ma.len (.val d) ≤ ts := by
  have hc0 : Chain m0 := path_chain hw (chain_of_hist (fun w => Mem.write_hist_other _ _ _ _ _ _ (by simp)) hc)
  have h1 : ma.len (.val d) ≤ (m0.tv c).cur.get (.val d) :=
    Nat.le_trans (write_in_view ma c (.val d) ow x) (path_cur_mono hw c _)
  have h2 := hop_load hc0 hx hrel hp1 hl hacqL hts
  have hc3 : Chain m3 := chain_of_hist (fun w => by rw [Mem.read_hist hl]) (path_chain hp1 (chain_rmw hx hc0))
  have hc4 : Chain m4 := path_chain hp2 hc3
  have h3 := path_cur_mono hp2 a
  have h4 := hop_rmw hc4 hx2 hrel2 hp3 hs hacq
  have h5 := path_cur_mono hq p
  exact read_not_older hr (Nat.le_trans h1 (Nat.le_trans (h2 _) (Nat.le_trans (h3 _) (Nat.le_trans (h4 _) (h5 _)))))

/-- the same when the activating thread learns it from its acquiring RMW on the dependency counter
(`fetch_add` of `GraphDependency::activate` reading the emitter's `fetch_sub`) -/
theorem data_publication_view_activation_rmw {ma m0 m1 m2 m3 m4 m5 m6 m7 m8 m9 : Mem Loc} {c a p d S V x : Nat}
    {ow oR oA1 oR2 oA orr : Core.Ord} {f f1 f2 g : Nat → Nat} {old old1 old2 old' ts v : Nat}
    (hc : Chain ma)
    (hw : Path (ma.write c (.val d) ow x) m0)
    (hx : m0.rmw c (.word S) oR f = some (m1, old)) (hrel : oR.releases = true)
    (hp1 : Path m1 m2)
    (hl : m2.rmw a (.word S) oA1 f1 = some (m3, old1)) (hacq1 : oA1.acquires = true)
    (hp2 : Path m3 m4)
    (hx2 : m4.rmw a (.word V) oR2 f2 = some (m5, old2)) (hrel2 : oR2.releases = true)
    (hp3 : Path m5 m6)
    (hs : m6.rmw p (.word V) oA g = some (m7, old')) (hacq : oA.acquires = true)
    (hq : Path m7 m8)
    (hr : m8.read p (.val d) orr ts = some (m9, v)) :
    ma.len (.val d) ≤ ts := by
  have hc0 : Chain m0 := path_chain hw (chain_of_hist (fun w => Mem.write_hist_other _ _ _ _ _ _ (by simp)) hc)
  have h1 : ma.len (.val d) ≤ (m0.tv c).cur.get (.val d) :=
    Nat.le_trans (write_in_view ma c (.val d) ow x) (path_cur_mono hw c _)
  have h2 := hop_rmw hc0 hx hrel hp1 hl hacq1
  have hc3 : Chain m3 := chain_rmw hl (path_chain hp1 (chain_rmw hx hc0))
  have hc4 : Chain m4 := path_chain hp2 hc3
  have h3 := path_cur_mono hp2 a
  have h4 := hop_rmw hc4 hx2 hrel2 hp3 hs hacq
  have h5 := path_cur_mono hq p
  exact read_not_older hr (Nat.le_trans h1 (Nat.le_trans (h2 _) (Nat.le_trans (h3 _) (Nat.le_trans (h4 _) (h5 _)))))

/-- **closure_finish_view.**  The thread that seals target `t` wrote its value before and then decrements
the closure's data counter `D` (releasing RMW, `depend_data_sub`); the thread `q` whose decrement reaches 0
(acquiring RMW on `D`: it reads from the release sequence of all earlier decrements) marks the closure
finished and sets the finish future; the thread `g` returning from `get()` / `wait()` continues from `q`
through that future (C08's contract, `handoff q g`).  Whatever `g` then reads of the target's value is the
sealer's message or a later one — for every target. -/
theorem closure_finish_view {ma m0 m1 m2 m3 m4 m5 m6 : Mem Loc} {c q g t D x : Nat} {ow oR oA orr : Core.Ord}
    {f f' : Nat → Nat} {old old' ts v : Nat}
    (hc : Chain ma)
    (hw : Path (ma.write c (.val t) ow x) m0)
    (hx : m0.rmw c (.word D) oR f = some (m1, old)) (hrel : oR.releases = true)
    (hp : Path m1 m2)
    (hs : m2.rmw q (.word D) oA f' = some (m3, old')) (hacq : oA.acquires = true)
    (hq : Path m3 m4)
    (hq2 : Path (handoffMem m4 q g) m5)
    (hr : m5.read g (.val t) orr ts = some (m6, v)) :
    ma.len (.val t) ≤ ts := by
  have hc0 : Chain m0 := path_chain hw (chain_of_hist (fun w => Mem.write_hist_other _ _ _ _ _ _ (by simp)) hc)
  have h1 : ma.len (.val t) ≤ (m0.tv c).cur.get (.val t) :=
    Nat.le_trans (write_in_view ma c (.val t) ow x) (path_cur_mono hw c _)
  have h2 := hop_rmw hc0 hx hrel hp hs hacq
  have h3 := path_cur_mono hq q
  have h4 := handoff_cur m4 q g
  have h5 := path_cur_mono hq2 g
  exact read_not_older hr (Nat.le_trans h1 (Nat.le_trans (h2 _) (Nat.le_trans (h3 _) (Nat.le_trans (h4 _) (h5 _)))))

/-! ### Negative controls: concrete executions of the view model -/

/-- emitter (thread 1) writes data 0 := 7 and decrements word 0 with order `oE`; thread 2 decrements word 0
with order `oT` (the triggering decrement) and reads data 0 at timestamp `stale` (0 = the initial message,
1 = the emitter's write).  `none` = that read is not admissible. -/
def pubRun (oE oT : Core.Ord) (stale : Nat) : Option Nat := do
  let m0 : Mem Loc := Mem.init (fun l => match l with | .word _ => 2 | .val _ => 0)
  let m1 := m0.write 1 (.val 0) .rlx 7
  let (m2, _) ← m1.rmw 1 (.word 0) oE (· - 1)
  let (m3, _) ← m2.rmw 2 (.word 0) oT (· - 1)
  let (_, v) ← m3.read 2 (.val 0) .rlx stale
  pure v

end Babylon.Anyflow.View
