/-
  The closure's data count: `wdn = 1 (until fire) + seals of bound data still to be subtracted +
  bound targets not yet sealed`, so `wdn = 0` means: fired, and every target is sealed.
-/
import Babylon.Anyflow.GraphInv2

namespace Babylon.Anyflow.Graph
open Babylon.Core

variable {p : Params} {s s' : State}

theorem countP_congr' {f g : Nat → Bool} : ∀ {l : List Nat}, (∀ e ∈ l, g e = f e) → l.countP g = l.countP f
  | [], _ => rfl
  | x :: xs, h => by
    simp only [List.countP_cons]
    rw [h x (by simp), countP_congr' (fun e he => h e (by simp [he]))]

/-- flipping the predicate from false to true at one element of a duplicate-free list adds one -/
theorem countP_flip {f g : Nat → Bool} {d : Nat} : ∀ {l : List Nat}, l.Nodup → d ∈ l → f d = false → g d = true →
    (∀ e, e ≠ d → g e = f e) → l.countP g = l.countP f + 1
  | [], _, hd, _, _, _ => by cases hd
  | x :: xs, hn, hd, hf, hg, ho => by
    simp only [List.countP_cons]
    have hn' := List.nodup_cons.mp hn
    by_cases hx : x = d
    · subst hx
      have : xs.countP g = xs.countP f :=
        countP_congr' (fun e he => ho e (fun h => hn'.1 (h ▸ he)))
      simp [hf, hg, this]
    · have hd' : d ∈ xs := by
        rcases List.mem_cons.mp hd with h | h
        · exact absurd h.symm hx
        · exact h
      rw [countP_flip hn'.2 hd' hf hg ho, ho x hx]
      omega

def unsealedBound (p : Params) (s : State) : Nat := p.targets.countP (fun d => s.bound d && !s.sealed d)

structure InvW (p : Params) (s : State) : Prop where
  wdn_eq : s.wdn = (if s.firedD = true then 0 else 1) + s.pendingD + unsealedBound p s
  bound_mem : ∀ d, s.bound d = true → d ∈ p.targets.take s.bindPc
  bind_done : ∀ d ∈ p.targets.take s.bindPc, s.sealed d = true ∨ s.bound d = true
  fired_pc : s.firedD = true → s.bindPc = p.targets.length ∨ s.fin.isSome = true
  idle : s.running = false → (∀ d, s.bound d = false) ∧ s.bindPc = 0 ∧ s.firedD = false
  pc_le : s.bindPc ≤ p.targets.length

theorem invW_init : InvW p State.init := by
  constructor <;> simp [State.init, unsealedBound, Babylon.Gen.Anyflow.closureInitDataNum]

theorem unsealedBound_sealData (hwf : WF p) {d : Nat} {x : Option Val} (hi : InvW p s) (h : s.sealed d = false) :
    unsealedBound p s = unsealedBound p (sealData s d x) + (if s.bound d = true then 1 else 0) := by
  unfold unsealedBound
  by_cases hb : s.bound d = true
  · simp only [hb, if_true]
    apply countP_flip hwf.targets_nodup (List.mem_of_mem_take (hi.bound_mem d hb))
    · simp [sealData, upd_same]
    · simp [hb, h]
    · intro e he; simp [sealData, upd_other _ _ he]
  · simp only [hb, if_false, Nat.add_zero]
    apply countP_congr'
    intro e _
    by_cases he : e = d
    · subst he; simp [sealData, upd_same, hb]
    · simp [sealData, upd_other _ _ he]

theorem invW_sealData (hwf : WF p) {d : Nat} {x : Option Val} (hi : InvW p s) (h : s.sealed d = false) :
    InvW p (sealData s d x) := by
  have hu := unsealedBound_sealData (x := x) hwf hi h
  obtain ⟨i1, i2, i3, i4, i5, i6⟩ := hi
  constructor
  · show s.wdn = (if s.firedD = true then 0 else 1) + (if s.bound d = true then s.pendingD + 1 else s.pendingD)
      + unsealedBound p (sealData s d x)
    cases hb : s.bound d
    · simp only [hb, Bool.false_eq_true, if_false, Nat.add_zero] at hu ⊢
      rw [i1, hu]
    · simp only [hb, if_true] at hu ⊢
      rw [i1, hu]; omega
  · exact i2
  · intro e he
    rcases i3 e he with h' | h'
    · left
      by_cases hed : e = d
      · subst hed; simp [sealData, upd_same]
      · simp only [sealData, upd_other _ _ hed]; exact h'
    · right; exact h'
  · exact i4
  · exact i5
  · exact i6

theorem mem_take_succ_of_getElem? {l : List Nat} {n d : Nat} (h : l[n]? = some d) : d ∈ l.take (n + 1) := by
  rw [List.take_add_one, h]; simp

theorem invW_step (hwf : WF p) {e : Ev} (hi : InvW p s) (h : stepEvent p s e = some s') : InvW p s' := by
  cases e with
  | envSeal d x =>
    obtain ⟨h1, _, _, h4 | h4⟩ := step_envSeal h
    · rw [h4.2]; exact invW_sealData hwf hi h1
    · rw [h4.2.2]
      have := invW_sealData (x := x) hwf hi h1
      exact ⟨this.wdn_eq, this.bound_mem, this.bind_done, this.fired_pc, this.idle, this.pc_le⟩
  | run =>
    obtain ⟨i1, i2, i3, i4, i5, i6⟩ := hi
    rw [(step_run h).2.2]
    exact ⟨i1, i2, i3, i4, fun hr => by simp at hr, i6⟩
  | bind =>
    obtain ⟨i1, i2, i3, i4, i5, i6⟩ := hi
    obtain ⟨hr, hf, d, hd, h4 | h4⟩ := step_bind h
    · rw [h4.2]
      have hlt : s.bindPc < p.targets.length := (List.getElem?_eq_some_iff.mp hd).1
      refine ⟨i1, fun e he => ?_, fun e he => ?_, fun hfd => ?_, fun hr' => ?_, hlt⟩
      · simp only at he ⊢
        rw [List.take_add_one]; exact List.mem_append.mpr (Or.inl (i2 e he))
      · simp only at he
        rw [List.take_add_one] at he
        rcases List.mem_append.mp he with he | he
        · exact i3 e he
        · rw [hd] at he; simp at he; subst he
          rcases h4.1 with h' | h'
          · left; exact h'
          · right; exact h'
      · simp only at hfd; rw [hf] at hfd; cases hfd
      · simp only at hr'; rw [hr] at hr'; cases hr'
    · rw [h4.2.2]
      have hlt : s.bindPc < p.targets.length := (List.getElem?_eq_some_iff.mp hd).1
      refine ⟨?_, fun e he => ?_, fun e he => ?_, fun hfd => ?_, fun hr' => ?_, hlt⟩
      · show s.wdn + 1 = (if s.firedD = true then 0 else 1) + s.pendingD + _
        have hcp : p.targets.countP (fun e => upd s.bound d true e && !s.sealed e) = unsealedBound p s + 1 := by
          unfold unsealedBound
          apply countP_flip hwf.targets_nodup (List.mem_of_getElem? hd)
          · simp [h4.2.1]
          · simp [upd_same, h4.1]
          · intro e he; simp [upd_other _ _ he]
        show s.wdn + 1 = (if s.firedD = true then 0 else 1) + s.pendingD + p.targets.countP (fun e => upd s.bound d true e && !s.sealed e)
        rw [hcp, i1]; omega
      · simp only at he ⊢
        by_cases hed : e = d
        · subst hed; exact mem_take_succ_of_getElem? hd
        · simp only [upd_other _ _ hed] at he
          have := i2 e he
          rw [List.take_add_one]; exact List.mem_append.mpr (Or.inl this)
      · simp only at he ⊢
        rw [List.take_add_one] at he
        rcases List.mem_append.mp he with he | he
        · rcases i3 e he with h' | h'
          · left; exact h'
          · right
            by_cases hed : e = d
            · subst hed; simp [upd_same]
            · simp only [upd_other _ _ hed]; exact h'
        · rw [hd] at he; simp at he; subst he; right; simp [upd_same]
      · simp only at hfd; rw [hf] at hfd; cases hfd
      · simp only at hr'; rw [hr] at hr'; cases hr'
  | fireD =>
    obtain ⟨i1, i2, i3, i4, i5, i6⟩ := hi
    obtain ⟨hr, hf, hw, hb, hs⟩ := step_fireD h
    rw [hs]
    refine ⟨?_, i2, i3, fun _ => hb, fun hr' => ?_, i6⟩
    · show s.wdn - 1 = (if true = true then 0 else 1) + s.pendingD + unsealedBound p s
      rw [i1]; simp [hf]; omega
    · simp only at hr'; rw [hr] at hr'; cases hr'
  | fireV =>
    rw [(step_fireV h).2.2.2]
    obtain ⟨i1, i2, i3, i4, i5, i6⟩ := hi
    simp only [vsubCore]
    split <;> exact ⟨i1, i2, i3, i4, i5, i6⟩
  | activate v => rw [(step_activate h).2.2.2.2]; exact ⟨hi.wdn_eq, hi.bound_mem, hi.bind_done, hi.fired_pc, hi.idle, hi.pc_le⟩
  | dactivate v => rw [(step_dactivate h).2.2]; exact ⟨hi.wdn_eq, hi.bound_mem, hi.bind_done, hi.fired_pc, hi.idle, hi.pc_le⟩
  | vdec v cnt => rw [(step_vdec h).2.2.2]; exact ⟨hi.wdn_eq, hi.bound_mem, hi.bind_done, hi.fired_pc, hi.idle, hi.pc_le⟩
  | vadd => rw [(step_vadd h).2.2]; exact ⟨hi.wdn_eq, hi.bound_mem, hi.bind_done, hi.fired_pc, hi.idle, hi.pc_le⟩
  | vsub =>
    rw [(step_vsub h).2.2]
    obtain ⟨i1, i2, i3, i4, i5, i6⟩ := hi
    simp only [vsubCore]
    split <;> exact ⟨i1, i2, i3, i4, i5, i6⟩
  | procStart v ins => rw [(step_procStart h).2.2.2.2.2]; exact ⟨hi.wdn_eq, hi.bound_mem, hi.bind_done, hi.fired_pc, hi.idle, hi.pc_le⟩
  | procEnd v => rw [(step_procEnd h).2.2.2]; exact ⟨hi.wdn_eq, hi.bound_mem, hi.bind_done, hi.fired_pc, hi.idle, hi.pc_le⟩
  | sealBy v k x =>
    obtain ⟨d, _, h2, _, _, _, h6⟩ := step_seal h
    rw [h6]; exact invW_sealData hwf hi h2
  | dsub =>
    obtain ⟨i1, i2, i3, i4, i5, i6⟩ := hi
    obtain ⟨h1, h2, h3⟩ := step_dsub h
    rw [h3]
    refine ⟨?_, i2, i3, i4, i5, i6⟩
    show s.wdn - 1 = (if s.firedD = true then 0 else 1) + (s.pendingD - 1) + unsealedBound p s
    rw [i1]; omega
  | finish c =>
    obtain ⟨i1, i2, i3, i4, i5, i6⟩ := hi
    rw [(step_finish h).2.2.2]
    exact ⟨i1, i2, i3, fun hf => by rcases i4 hf with h' | h'; exact Or.inl h'; exact Or.inr rfl, i5, i6⟩
  | reset => rw [(step_reset h).2.2.2]; exact invW_init

theorem reach_invW (hwf : WF p) (h : Reachable (· = State.init) (Step p) s) : InvW p s := by
  induction h with
  | base hi => rw [hi]; exact invW_init
  | tail _ hst ih => obtain ⟨e, he⟩ := hst; exact invW_step hwf ih he

/-- `wdn = 0` (what `finish 0` needs) means: fired, and every target is sealed -/
theorem targets_sealed_of_wdn_zero (hi : InvW p s) (hw : s.wdn = 0) (hf : s.fin = none) :
    ∀ t ∈ p.targets, s.sealed t = true := by
  obtain ⟨i1, i2, i3, i4, i5, i6⟩ := hi
  have hfd : s.firedD = true := by
    by_cases h : s.firedD = true
    · exact h
    · simp [h] at i1; omega
  have hub : unsealedBound p s = 0 := by simp [hfd] at i1; omega
  have hpc : s.bindPc = p.targets.length := by
    rcases i4 hfd with h | h
    · exact h
    · rw [hf] at h; cases h
  intro t ht
  have ht' : t ∈ p.targets.take s.bindPc := by rw [hpc, List.take_length]; exact ht
  rcases i3 t ht' with h | h
  · exact h
  · by_cases hs : s.sealed t = true
    · exact hs
    · exfalso
      have : 0 < unsealedBound p s := by
        unfold unsealedBound
        exact List.countP_pos_iff.mpr ⟨t, ht, by simp [h, hs]⟩
      omega

end Babylon.Anyflow.Graph
