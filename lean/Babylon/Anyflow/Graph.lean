/-
  L2 — a whole anyflow graph (src/babylon/anyflow/{vertex,data,closure,graph,executor,builder}).

  Arbitrary finite graph: vertices with dependency lists `(target, condition?, establishValue,
  essential)` and emit lists, data with at most one producer, data `0 .. nIn-1` without producer
  (inputs).  The lower layer — one `GraphDependency` — is replaced by its proven specification
  (`Babylon.Anyflow.Dep`, theorem `dep_protocol_exhaustive`): an activated dependency tells its
  source vertex exactly once, and only when it is *resolvable* (condition ready ∧ (¬established ∨
  target ready)).  What stays concrete here is the mechanism of the upper layers:

    GraphVertex     `_activated` CAS (`activate v` succeeds once), `_waiting_num` (`wn`): stored with the
                    dependency count at activation, decremented by `vdec` (one `GraphVertex::ready`, or
                    the batch `fetch_sub(finished)` of `activate`); the decrement that reaches 0 makes the
                    vertex runnable
    GraphData       `_closure` sealed once (`seal` / `envSeal`), value immutable afterwards
    ClosureContext  `_waiting_data_num` (`wdn`: 1 + bound unsealed targets), `_waiting_vertex_num`
                    (`wvn`: 1 + open vertex closures), `_callback` sealed by the first `finish`,
                    flush when `wvn` returns to 0
    executor        abstracted: a runnable vertex is run by some thread at some later time (inplace =
                    same thread at once, pool = any thread, any order); processors are pure functions
                    `proc v inputs k` of their ready inputs

  One run = `run`, then any interleaving of the events below; `reset` returns to the initial state.
  `stepEvent` is executable: the driver (`Drivers/C05.lean`) feeds it the events of real executions
  (VRT traces of the named atomics + harness events) — the implementation trace must be a path of
  this transition system.  Reference semantics: `evalSeq` (sequential evaluation in topological
  order).  Core Lean only.
-/
import Babylon.Gen.Anyflow

namespace Babylon.Anyflow.Graph
open Babylon.Gen.Anyflow

abbrev Val := Nat
/-- a valuation of the data nodes: `none` = empty (or not there) -/
abbrev Valn := Nat → Option Val

structure DepSpec where
  target : Nat
  cond : Option (Nat × Bool)        -- (condition data, `_establish_value`)
  essential : Bool
  deriving DecidableEq, Repr, Inhabited

structure VertexSpec where
  deps : List DepSpec
  emits : List Nat
  deriving DecidableEq, Repr, Inhabited

structure Graph where
  nIn : Nat                          -- data `0 .. nIn-1` have no producer
  nData : Nat
  verts : List VertexSpec
  deriving Repr, Inhabited

def Graph.vert (g : Graph) (v : Nat) : VertexSpec :=
  match g.verts[v]? with
  | some x => x
  | none => ⟨[], []⟩

def Graph.nDeps (g : Graph) (v : Nat) : Nat := (g.vert v).deps.length

/-- vertex `v` emits data `d` as its `k`-th output -/
def Graph.Produces (g : Graph) (v k d : Nat) : Prop := (g.vert v).emits[k]? = some d

/-- `GraphData::as<bool>()`: empty ⇒ false, number ⇒ `≠ 0` -/
def asBool : Option Val → Bool
  | some v => v != 0
  | none => false

/-- the dependency is established under valuation `val` (`check_established`) -/
def DepSpec.est (val : Valn) (d : DepSpec) : Bool :=
  match d.cond with
  | none => true
  | some (c, ev) => asBool (val c) == ev

/-- what the processor sees through the dependency: the target's value if `ready()` (= established)
and not empty -/
def DepSpec.input (val : Valn) (d : DepSpec) : Option Val :=
  if d.est val then val d.target else none

/-- `GraphVertex::invoke`: an essential dependency that is not ready or empty ⇒ the processor is
skipped and every emit is published empty -/
def VertexSpec.essFail (val : Valn) (v : VertexSpec) : Bool :=
  v.deps.any (fun d => d.essential && (d.input val).isNone)

def VertexSpec.inputs (val : Valn) (v : VertexSpec) : List (Option Val) := v.deps.map (·.input val)

abbrev Proc := Nat → List (Option Val) → Nat → Option Val

/-- value of the `k`-th emit of vertex `vid` -/
def vertexOut (proc : Proc) (val : Valn) (vid : Nat) (v : VertexSpec) (k : Nat) : Option Val :=
  if v.essFail val then none else proc vid (v.inputs val) k

structure Params where
  g : Graph
  proc : Proc
  inp : Nat → Option (Option Val)    -- what the environment provides (presets and injected inputs)
  targets : List Nat

/-- position of `d` in a list -/
def idxIn (d : Nat) : List Nat → Option Nat
  | [] => none
  | x :: xs => if x = d then some 0 else (idxIn d xs).map (· + 1)

/-- first `(v, k)` with `emits[k] = d` among the vertices `v ≥ from` -/
def producerFrom (d : Nat) : Nat → List VertexSpec → Option (Nat × Nat)
  | _, [] => none
  | i, x :: xs =>
    match idxIn d x.emits with
    | some k => some (i, k)
    | none => producerFrom d (i + 1) xs

def Graph.producer (g : Graph) (d : Nat) : Option (Nat × Nat) := producerFrom d 0 g.verts

/-- Reference semantics: sequential evaluation in topological order.  `refUpTo n` holds the values
of the data `< n`; data `n` is the environment's value, or its producer's output computed from the
values of smaller data, or empty. -/
def refUpTo (p : Params) : Nat → Valn
  | 0 => fun _ => none
  | n + 1 =>
    let r := refUpTo p n
    fun d =>
      if d = n then
        match p.inp n with
        | some x => x
        | none =>
          match p.g.producer n with
          | some (v, k) => vertexOut p.proc r v (p.g.vert v) k
          | none => none
      else r d

def evalSeq (p : Params) : Valn := refUpTo p p.g.nData

def upd {α : Type} (f : Nat → α) (i : Nat) (x : α) : Nat → α := fun j => if j = i then x else f j

structure State where
  running : Bool                 -- `Graph::run` has been called
  sealed : Nat → Bool            -- `GraphData::_closure == SEALED`
  val : Valn
  seals : Nat → Nat              -- ghost: successful seal CASes per data
  bound : Nat → Bool             -- target bound to the closure
  bindPc : Nat                   -- number of targets `Graph::run` has bound
  firedD : Bool
  firedV : Bool
  vact : Nat → Bool              -- `GraphVertex::_activated`
  dactN : Nat → Nat              -- dependencies of `v` activated so far (in order)
  counted : Nat → Nat            -- decrements applied to `v._waiting_num`
  wn : Nat → Int                 -- `GraphVertex::_waiting_num`
  runnable : Nat → Nat           -- times `v` was put on a runnable stack
  started : Nat → Nat            -- times `v`'s processor was entered
  ended : Nat → Nat
  wdn : Nat                      -- `_waiting_data_num`
  pendingD : Nat                 -- bound data sealed whose `depend_data_sub` is still to come
  wvn : Nat                      -- `_waiting_vertex_num`
  opened : Nat                   -- ghost: open `GraphVertexClosure`s
  procs : Nat                    -- ghost: processors entered and not yet left
  fin : Option Int               -- `_callback` sealed with this code
  flushed : Nat
  lateEnv : Bool                 -- ghost: the environment sealed an input after `run`

def State.init : State :=
  { running := false, sealed := fun _ => false, val := fun _ => none, seals := fun _ => 0, bound := fun _ => false,
    bindPc := 0, firedD := false, firedV := false, vact := fun _ => false, dactN := fun _ => 0, counted := fun _ => 0,
    wn := fun _ => 0, runnable := fun _ => 0, started := fun _ => 0, ended := fun _ => 0,
    wdn := closureInitDataNum, pendingD := 0, wvn := closureInitVertexNum, opened := 0, procs := 0, fin := none,
    flushed := 0, lateEnv := false }

inductive Ev
  | envSeal (d : Nat) (x : Option Val)       -- the environment emits data `d`
  | run                                       -- `Graph::run` entered
  | bind                                      -- `GraphData::bind` of the next target
  | fireD | fireV                             -- `ClosureContext::fire`
  | activate (v : Nat)                        -- successful `_activated` CAS (+ store of the count)
  | dactivate (v : Nat)                       -- `GraphDependency::activate` of the next dependency of `v`
  | vdec (v cnt : Nat)                        -- `v._waiting_num.fetch_sub(cnt)`
  | vadd | vsub                               -- `GraphVertexClosure` created / done
  | procStart (v : Nat) (ins : List (Option Val))
  | procEnd (v : Nat)
  | sealBy (v k : Nat) (x : Option Val)       -- the `k`-th emit of `v` is sealed with value `x`
  | dsub                                      -- `depend_data_sub` after the seal of a bound data
  | finish (code : Int)                       -- successful `mark_finished`
  | reset
  deriving Repr

/-- the dependency is established *now* (condition sealed with the matching value, or none) -/
def estNow (s : State) (d : DepSpec) : Bool :=
  match d.cond with
  | none => true
  | some (c, ev) => s.sealed c && (asBool (s.val c) == ev)

/-- the dependency can tell its source: condition ready ∧ (¬established ∨ target ready) -/
def resolvable (s : State) (d : DepSpec) : Bool :=
  match d.cond with
  | none => s.sealed d.target
  | some (c, ev) => s.sealed c && (!(asBool (s.val c) == ev) || s.sealed d.target)

/-- activated dependencies of `v` that are resolvable now -/
def resolvedCount (p : Params) (s : State) (v : Nat) : Nat :=
  (((p.g.vert v).deps.take (s.dactN v)).countP (resolvable s))

/-- an activated dependency of an activated vertex demands `d`: as its condition, or as the target
of an established dependency -/
def demandedBy (s : State) (d : Nat) (vs : VertexSpec) (n : Nat) : Bool :=
  (vs.deps.take n).any (fun dep =>
    (match dep.cond with | some (c, _) => c == d | none => false) || (dep.target == d && estNow s dep))

def demandable (p : Params) (s : State) (d : Nat) : Bool :=
  s.bound d ||
  (List.range p.g.verts.length).any (fun u => s.vact u && demandedBy s d (p.g.vert u) (s.dactN u))

def sealData (s : State) (d : Nat) (x : Option Val) : State :=
  { s with sealed := upd s.sealed d true, val := upd s.val d x, seals := upd s.seals d (s.seals d + 1),
           pendingD := if s.bound d then s.pendingD + 1 else s.pendingD }

/-- the vertex count goes down by one; when it returns to 0 the closure is flushed (`notify_flush`;
`mark_finished(-1)` is the separate event `finish`) -/
def vsubCore (s : State) : State :=
  let s := { s with wvn := s.wvn - 1 }
  if s.wvn = 0 then { s with flushed := s.flushed + 1 } else s

def stepEvent (p : Params) (s : State) : Ev → Option State
  | .envSeal d x =>
    -- the value is the one the environment provides; once the closure has finished, a data the environment was going
    -- to emit may instead be flushed empty (its parked producer is skipped like every other vertex)
    if s.sealed d || !(p.inp d == some x || (x.isNone && s.fin.isSome && s.running)) || !(d < p.g.nData) then none
    else if !s.running then some (sealData s d x)
    -- after `run`: only data without a producer (an emitter the closure does not know about, or one that holds a
    -- vertex closure open elsewhere — the model cannot tell, hence the ghost flag)
    else if (p.g.producer d).isNone then some { sealData s d x with lateEnv := true }
    else none
  | .run =>
    if s.running then none
    -- every preset of a produced data has been delivered before the run
    else if (List.range p.g.nData).all (fun d => (p.g.producer d).isNone || (p.inp d).isNone || s.sealed d) then
      some { s with running := true }
    else none
  | .bind =>
    if !s.running || s.firedD then none else
    match p.targets[s.bindPc]? with
    | none => none
    | some d =>
      if s.sealed d || s.bound d then some { s with bindPc := s.bindPc + 1 }
      else some { s with bindPc := s.bindPc + 1, bound := upd s.bound d true, wdn := s.wdn + 1 }
  | .fireD =>
    if !s.running || s.firedD || s.wdn = 0 then none
    else if s.bindPc = p.targets.length || s.fin.isSome then some { s with firedD := true, wdn := s.wdn - 1 }
    else none
  | .fireV =>
    if !s.firedD || s.firedV || s.wvn = 0 then none
    else some (vsubCore { s with firedV := true })
  | .activate v =>
    if !s.running || s.vact v || !(v < p.g.verts.length) then none
    else if (p.g.vert v).emits.any (fun e => demandable p s e && !s.sealed e) then
      let n := p.g.nDeps v
      some { s with vact := upd s.vact v true, wn := upd s.wn v (n : Int),
                    runnable := if n = 0 then upd s.runnable v (s.runnable v + 1) else s.runnable }
    else none
  | .dactivate v =>
    if s.vact v && s.dactN v < p.g.nDeps v then some { s with dactN := upd s.dactN v (s.dactN v + 1) }
    else none
  | .vdec v cnt =>
    if s.vact v && cnt ≥ 1 && s.counted v + cnt ≤ resolvedCount p s v then
      let w := s.wn v - (cnt : Int)
      some { s with counted := upd s.counted v (s.counted v + cnt), wn := upd s.wn v w,
                    runnable := if w = 0 then upd s.runnable v (s.runnable v + 1) else s.runnable }
    else none
  | .vadd =>
    if s.running && (s.wvn > 0 || s.lateEnv) then some { s with wvn := s.wvn + 1, opened := s.opened + 1 }
    else none
  | .vsub =>
    if s.opened > s.procs && s.wvn > 0 then some (vsubCore { s with opened := s.opened - 1 })
    else none
  | .procStart v ins =>
    if s.runnable v ≥ 1 && s.started v = 0 && !(p.g.vert v).essFail s.val && ins == (p.g.vert v).inputs s.val
        && s.procs < s.opened then
      some { s with started := upd s.started v 1, procs := s.procs + 1 }
    else none
  | .procEnd v =>
    if s.started v = 1 && s.ended v = 0 && s.procs > 0 then
      some { s with ended := upd s.ended v 1, procs := s.procs - 1 }
    else none
  | .sealBy v k x =>
    match (p.g.vert v).emits[k]? with
    | none => none
    | some d =>
      if s.sealed d || !(s.runnable v ≥ 1) || !s.running then none
      else if x == vertexOut p.proc s.val v (p.g.vert v) k || (s.fin.isSome && x.isNone) then some (sealData s d x)
      else none
  | .dsub =>
    if s.pendingD > 0 && s.wdn > 0 then some { s with pendingD := s.pendingD - 1, wdn := s.wdn - 1 } else none
  | .finish c =>
    if !s.running || s.fin.isSome then none
    else if c = 0 && s.wdn != 0 then none
    else some { s with fin := some c }
  | .reset =>
    if s.running && s.firedV && s.wvn = 0 then some State.init else none

/-- the transition relation of one graph instance: any enabled event, any order -/
def Step (p : Params) (s s' : State) : Prop := ∃ e, stepEvent p s e = some s'

/-- Well-formed graph: inputs have no producer, every data has at most one producer, and the data
are numbered topologically (acyclicity certificate: a vertex's dependencies refer to data smaller
than each of its emits); targets are distinct. -/
structure WF (p : Params) : Prop where
  emit_ge : ∀ v k d, p.g.Produces v k d → p.g.nIn ≤ d ∧ d < p.g.nData
  unique : ∀ v k v' k' d, p.g.Produces v k d → p.g.Produces v' k' d → v = v' ∧ k = k'
  topo : ∀ v k d dep, p.g.Produces v k d → dep ∈ (p.g.vert v).deps →
    dep.target < d ∧ ∀ c ev, dep.cond = some (c, ev) → c < d
  targets_nodup : p.targets.Nodup
  /-- a dependency's condition is not its own target: only then is the dependency layer's
  specification (L1: condition and target are two actors, each telling the dependency once) the
  behaviour of the code — see the finding `oracle:samedata:code`.  Not used by the proofs below (the
  L2 model is sound for such dependencies too); it delimits what the L1/L2 layering covers. -/
  cond_ne_target : ∀ v dep c ev, dep ∈ (p.g.vert v).deps → dep.cond = some (c, ev) → c ≠ dep.target

/-- executable check of `WF` used by the driver on every generated graph -/
def noSameDataB (p : Params) : Bool :=
  p.g.verts.all (fun vs => vs.deps.all (fun dep => match dep.cond with | some (c, _) => c != dep.target | none => true))

def wfB (p : Params) : Bool :=
  let allEmits := (p.g.verts.map (·.emits)).flatten
  allEmits.all (fun d => p.g.nIn ≤ d && d < p.g.nData) &&
  allEmits.eraseDups.length == allEmits.length &&
  p.g.verts.all (fun vs => vs.emits.all (fun d => vs.deps.all (fun dep =>
    dep.target < d && (match dep.cond with | some (c, _) => c < d | none => true)))) &&
  p.targets.eraseDups.length == p.targets.length

/-- Demand by the *reference* semantics: `d` is a target, or the condition of a dependency of a
needed vertex, or the target of a dependency of a needed vertex that `evalSeq` establishes; a
vertex is needed when one of its emits is needed and not provided by the environment. -/
inductive Needed (p : Params) : Nat → Prop
  | target {d : Nat} : d ∈ p.targets → Needed p d
  | cond {u e d : Nat} {ev : Bool} {dep : DepSpec} : u < p.g.verts.length → e ∈ (p.g.vert u).emits → Needed p e →
      p.inp e = none → dep ∈ (p.g.vert u).deps → dep.cond = some (d, ev) → Needed p d
  | tgt {u e : Nat} {dep : DepSpec} : u < p.g.verts.length → e ∈ (p.g.vert u).emits → Needed p e →
      p.inp e = none → dep ∈ (p.g.vert u).deps → dep.est (evalSeq p) = true → Needed p dep.target

def VNeeded (p : Params) (u : Nat) : Prop :=
  u < p.g.verts.length ∧ ∃ e ∈ (p.g.vert u).emits, Needed p e ∧ p.inp e = none

open Babylon.Core in
/-- skeletons (atomic operations with memory orders, notable calls) of the functions this model follows -/
def Skel.vertexActivate : List Site := [
  .cas "_activated" true .rlx .rlx, .call "runnable_vertexes.emplace_back", .store "_waiting_num" .rlx,
  .call "on_activate", .call "dependency.activate", .rmw "fetch_sub" "_waiting_num" .acqrel,
  .call "runnable_vertexes.emplace_back"]
open Babylon.Core in
def Skel.vertexReady : List Site := [.rmw "fetch_sub" "_waiting_num" .acqrel]
open Babylon.Core in
def Skel.vertexReset : List Site := [
  .store "_activated" .rlx, .store "_waiting_num" .rlx, .call "denpendency.reset", .call "_processor->reset"]
open Babylon.Core in
def Skel.vertexInvoke : List Site := [.call "is_essential", .call "run", .call "executor().run", .call "flush_emits"]
open Babylon.Core in
def Skel.flushEmits : List Site := [.call "data->ready", .call "data->emit"]
open Babylon.Core in
def Skel.closureDone : List Site := [.call "_closure->finish", .call "flush_emits", .call "depend_vertex_sub"]
open Babylon.Core in
def Skel.vertexRun : List Site := [.call "closure.finished", .call "closure.done", .call "_processor->process"]
open Babylon.Core in
def Skel.dataReady : List Site := [.load "_closure" .acq]
open Babylon.Core in
def Skel.dataReset : List Site := [
  .store "_acquired" .rlx, .store "_closure" .rlx, .store "_depend_state" .rlx, .store "_producer_done_num" .rlx,
  .call "_on_reset"]
open Babylon.Core in
def Skel.dataBind : List Site := [.call "depend_data_add", .cas "_closure" true .acqrel .acq, .call "depend_data_sub"]
open Babylon.Core in
def Skel.dataAcquire : List Site := [.cas "_acquired" true .acqrel .acq]
open Babylon.Core in
def Skel.dataTrigger : List Site := [.call "mark_active", .call "ready", .call "activating_data.emplace_back"]
open Babylon.Core in
def Skel.recursiveActivate : List Site := [.call "trigger", .call "one_data->activate"]
open Babylon.Core in
def Skel.markFinished : List Site := [.load "_callback" .rlx, .cas "_callback" false .acqrel .acq, .call "notify_finish"]
open Babylon.Core in
def Skel.vertexAdd : List Site := [.rmw "fetch_add" "_waiting_vertex_num" .acqrel]
open Babylon.Core in
def Skel.vertexSub : List Site := [
  .rmw "fetch_sub" "_waiting_vertex_num" .acqrel, .call "mark_finished", .call "notify_flush", .call "notify_flush"]
open Babylon.Core in
def Skel.dataAdd : List Site := [.rmw "fetch_add" "_waiting_data_num" .acqrel]
open Babylon.Core in
def Skel.dataSub : List Site := [.rmw "fetch_sub" "_waiting_data_num" .acqrel, .call "mark_finished"]
open Babylon.Core in
def Skel.fire : List Site := [.call "depend_data_sub", .call "depend_vertex_sub"]
open Babylon.Core in
def Skel.finish : List Site := [.call "mark_finished"]
open Babylon.Core in
def Skel.graphRun : List Site := [
  .call "bind", .call "recursive_activate", .call "context->finish", .call "context->fire", .call "vertex->invoke",
  .call "context->fire"]
open Babylon.Core in
def Skel.graphReset : List Site := [.call "one_data.reset", .call "vertex.reset"]
open Babylon.Core in
def Skel.inplaceRun : List Site := [.call "vertex->run"]
open Babylon.Core in
def Skel.poolRun : List Site := [.call "_executor.submit", .call "vertex->run"]

/-- `reset()` of dependency / vertex / data / graph, whitespace-free: every field the model's `reset` event
re-initialises (`State.init`) is re-initialised by the code — `_waiting_num`, `_established`, `_ready`;
`_activated`, `_waiting_num`, `_closure`; `_acquired`, `_empty`, `_active`, `_closure`, `_depend_state`, the value -/
def Skel.resetDependency : String :=
  "{_waiting_num.store(0,::std::memory_order_relaxed);_established=false;_ready=false;}"
def Skel.resetVertex : String :=
  "{_activated.store(false,::std::memory_order_relaxed);_waiting_num.store(0,::std::memory_order_relaxed);_closure=nullptr;for(auto&denpendency:_dependencies){denpendency.reset();}_runnable_vertexes=nullptr;_processor->reset(*this);}"
def Skel.resetData : String :=
  "{_acquired.store(false,::std::memory_order_relaxed);_empty=true;_has_preset_value=false;_active=false;_closure.store(nullptr,::std::memory_order_relaxed);_depend_state.store(0,::std::memory_order_relaxed);_producer_done_num.store(0,::std::memory_order_relaxed);_on_reset(_data);}"
def Skel.resetGraph : String :=
  "{for(auto&one_data:_data){one_data.reset();}for(auto&vertex:_vertexes){vertex.reset();}_memory_resource.release();_reusable_manager.clear();}"

/-- the processors of the harness (harness/c05.cpp `mix`) -/
def mix (vid : Nat) (ins : List (Option Val)) (k : Nat) : Option Val :=
  let h := ins.foldl (fun h i => (h * 1000003 + (match i with | some v => v + 1 | none => 0)) % 1000000007) (vid * 31 + k * 7 + 1)
  if h % 7 = 0 then none else if h % 3 = 0 then some 0 else some (h % 1000)

end Babylon.Anyflow.Graph
