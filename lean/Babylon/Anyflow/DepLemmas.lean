/-
  `dep_protocol_exhaustive`: every reachable state of the one-dependency protocol
  (`Babylon.Anyflow.Dep`, all interleavings of the atomic sub-steps of A, C b, T, every subset of
  actors, spurious weak-CAS failures) satisfies `good`.  The per-dependency state space is finite,
  so this is a certified closed set: the table `R` (694 states) contains the initial states, is
  closed under `succs` and all its members are `good` — both facts are evaluated by the kernel.
-/
import Babylon.Anyflow.DepTable
import Babylon.Anyflow.Closed

namespace Babylon.Anyflow.Dep
open Babylon.Core Babylon.Anyflow

set_option maxRecDepth 100000 in
theorem R_closed : closedIdx inits succs R initIdx succIdx = true := by decide +kernel

set_option maxRecDepth 100000 in
theorem R_good : R.all good = true := by decide +kernel

theorem succs_reachable_good :
    ∀ s, Reachable (· ∈ inits) (fun a b => b ∈ succs a) s → good s = true :=
  closedIdx_sound inits succs R initIdx succIdx good R_closed R_good

/-- a spurious CAS failure is a stutter step; every other step is a `succs` step -/
theorem step_spurious (s : State) (x : Actor) (s' : State) (l : Act)
    (h : step s x true = some (s', l)) : s' = s ∨ ∃ l', step s x false = some (s', l') := by
  cases x
  · right; exact ⟨l, by simpa [step] using h⟩
  · by_cases hc : s.cfg.hasCond
    · cases hpc : s.c <;> simp [step, hc, hpc] at h ⊢
      all_goals first | exact Or.inl h.1.symm | (right; try simp [h])
    · simp [step, hc] at h
  · cases hpc : s.t <;> simp [step, hpc] at h ⊢
    all_goals first | exact Or.inl h.1.symm | (right; try simp [h])

theorem mem_succs_of_step (s : State) (x : Actor) (s' : State) (l : Act)
    (h : step s x false = some (s', l)) : s' ∈ succs s := by
  simp only [succs, List.mem_filterMap]
  refine ⟨x, ?_, by simp [h]⟩
  cases x <;> simp

/-- all interleavings: `Step` allows any actor, any time, with or without a spurious CAS failure -/
theorem reachable_good (s : State) (h : Reachable (· ∈ inits) Step s) : good s = true := by
  suffices Reachable (· ∈ inits) (fun a b => b ∈ succs a) s from succs_reachable_good s this
  induction h with
  | base hi => exact .base hi
  | tail _ hst ih =>
    cases hst
    rename_i x sp l hstep
    cases sp
    · exact .tail ih (mem_succs_of_step _ _ _ _ hstep)
    · rcases step_spurious _ _ _ _ hstep with rfl | ⟨l', h'⟩
      · exact ih
      · exact .tail ih (mem_succs_of_step _ _ _ _ h')

/-- `good` spelled out (the statement of `dep_protocol_exhaustive`) -/
theorem good_spec (s : State) (h : good s = true) :
    (-3 ≤ s.cntI ∧ s.cntI ≤ 2) ∧ s.bad = false ∧ 0 ≤ s.vwnI ∧ s.vwnI = 1 - (s.notified + s.finA : Nat) ∧
    s.notified + s.finA ≤ 1 ∧
    (s.notified + s.finA = 1 → s.a ≠ .idle ∧ s.condOK = true ∧ (s.estTrue = false ∨ s.tgtSealed = true)) ∧
    (s.a = .idle → s.notified = 0 ∧ s.finA = 0) ∧
    (s.notified + s.finA = 1 → s.rdy = s.estTrue) ∧ (s.rdy = true → s.est = true ∧ s.tgtSealed = true) ∧
    s.trigT + s.actT ≤ 1 ∧ (s.trigT + s.actT = 1 → s.a ≠ .idle ∧ s.estTrue = true ∧ s.condOK = true) ∧
    s.trigC ≤ 1 ∧ (s.trigC = 1 → s.a ≠ .idle ∧ s.cfg.hasCond = true) ∧
    s.runnable ≤ 1 ∧ s.invoked ≤ s.runnable ∧ s.runnable ≤ s.notified + s.finA ∧
    (s.a = .done → (s.c = .idle ∨ s.c = .done) → (s.t = .idle ∨ s.t = .done) →
      (s.cfg.hasCond = true → s.c = .idle → s.trigC = 1) ∧
      ((s.cfg.hasCond = false ∨ s.c = .done) → s.estTrue = true → s.t = .idle → s.trigT + s.actT = 1) ∧
      ((s.cfg.hasCond = false ∨ s.c = .done) → (s.estTrue = false ∨ s.t = .done) →
         s.notified + s.finA = 1 ∧ s.invoked = 1)) := by
  simp only [good, Bool.and_eq_true, Bool.or_eq_true, decide_eq_true_eq, beq_iff_eq,
    bne_iff_ne, ne_eq, Bool.not_eq_eq_eq_not, Bool.not_true, and_assoc] at h
  obtain ⟨h1, h2, h3, h4, h5, h6, h7, h8, h9, h10, h11, h12, h13, h14, h15, h16, h17⟩ := h
  refine ⟨⟨by simp only [State.cntI]; omega, by simp only [State.cntI]; omega⟩, h2,
    by simp only [State.vwnI]; omega, by simp only [State.vwnI]; omega, h5, ?_, ?_, ?_, ?_, h10, ?_, h12, ?_, h14, h15, h16, ?_⟩
  · intro h; rcases h6 with h' | h'
    · omega
    · exact h'
  · intro h; rcases h6 with h' | h'
    · omega
    · exact absurd h h'.1
  · intro h; rcases h7 with h' | h'
    · omega
    · exact h'
  · intro h; rcases h8 with h' | h'
    · rw [h] at h'; cases h'
    · exact h'
  · intro h; rcases h11 with h' | h'
    · omega
    · exact h'
  · intro h; rcases h13 with h' | h'
    · omega
    · exact h'
  · intro ha hc ht
    have hpre : (s.a == APc.done && (s.c == CPc.idle || s.c == CPc.done) && (s.t == TPc.idle || s.t == TPc.done)) = true := by
      rcases hc with hc | hc <;> rcases ht with ht | ht <;> simp [ha, hc, ht]
    rcases h17 with h' | ⟨a1, a2, a3⟩
    · rw [hpre] at h'; cases h'
    · refine ⟨?_, ?_, ?_⟩
      · intro hh hci
        rcases a1 with a1 | a1
        · simp [hh, hci] at a1
        · exact a1
      · intro hh he hti
        rcases a2 with a2 | a2
        · rcases hh with hh | hh <;> simp [hh, he, hti] at a2
        · exact a2
      · intro hh he
        rcases a3 with a3 | a3
        · rcases hh with hh | hh <;> rcases he with he | he <;> simp [hh, he] at a3
        · exact a3

/-! Concrete schedules (non-vacuity of `dep_protocol_exhaustive`). -/
def runSched (s : State) : List Actor → Option State
  | [] => some s
  | x :: xs =>
    match step s x false with
    | some (s', _) => runSched s' xs
    | none => none

theorem runSched_reachable {s s' : State} {xs : List Actor} (h0 : Reachable (· ∈ inits) Step s)
    (h : runSched s xs = some s') : Reachable (· ∈ inits) Step s' := by
  induction xs generalizing s with
  | nil => simp [runSched] at h; exact h ▸ h0
  | cons x xs ih =>
    simp only [runSched] at h
    cases hst : step s x false with
    | none => simp [hst] at h
    | some r =>
      obtain ⟨s1, l⟩ := r
      simp only [hst] at h
      exact ih (.tail h0 (.act s x false s1 l hst)) h

/-- T, then C with a false condition (two decrements), then A: counter 0 → -1 → -2 → -3 → -1 -/
def witnessSched : List Actor := [.T, .T, .T, .C, .C, .C, .C, .C, .C, .A, .A, .A, .A]
def witness : State :=
  match runSched (State.init ⟨true, false⟩) witnessSched with
  | some s => s
  | none => State.init ⟨true, false⟩
theorem witness_reachable : Reachable (· ∈ inits) Step witness :=
  runSched_reachable (s := State.init ⟨true, false⟩) (xs := witnessSched) (.base (by decide)) (by decide)

/-- A, then C with a true condition (activates the target), then T (tells the source) -/
def witness2Sched : List Actor := [.A, .A, .A, .C, .C, .C, .C, .C, .T, .T, .T, .T, .T, .T]
def witness2 : State :=
  match runSched (State.init ⟨true, true⟩) witness2Sched with
  | some s => s
  | none => State.init ⟨true, true⟩
theorem witness2_reachable : Reachable (· ∈ inits) Step witness2 :=
  runSched_reachable (s := State.init ⟨true, true⟩) (xs := witness2Sched) (.base (by decide)) (by decide)

/-! ### the finding `oracle:samedata:code`: a dependency whose condition IS its target

`GraphDependencyBuilder::build` registers such a dependency twice in the data's `_successors`, so
`GraphDependency::ready(data)` runs twice and both calls take the `data == _condition` branch.
With the condition not established each call decrements twice.  The arithmetic of that branch: -/
def readyCondNotEst (w : Int) : Int :=
  let w1 := w - (Babylon.Gen.Anyflow.readyDec : Int)
  if w1 ≠ Babylon.Gen.Anyflow.readySecondSubUnless then w1 - (Babylon.Gen.Anyflow.readyDec2 : Int) else w1

/-- the counter after the data became ready (two calls) before the activation, and the value the
activation's `switch` then sees -/
def sameDataBeforeActivate : Int := readyCondNotEst (readyCondNotEst 0)
def sameDataSwitchValue : Int := sameDataBeforeActivate + (Babylon.Gen.Anyflow.incCond : Int)

end Babylon.Anyflow.Dep
