/-
  `dep_protocol_exhaustive`: every reachable state of the one-dependency protocol
  (`Babylon.Anyflow.Dep`, all interleavings of the atomic sub-steps of A, C b, T, every subset of
  actors, spurious weak-CAS failures) satisfies `good`.  The per-dependency state space is finite,
  so this is a certified closed set: the table `R` (283 states) contains the initial states, is
  closed under `succs` and all its members are `good` — both facts are evaluated by the kernel.
-/
import Babylon.Anyflow.DepTable
import Babylon.Anyflow.Closed

namespace Babylon.Anyflow.Dep
open Babylon.Core Babylon.Anyflow

set_option maxRecDepth 100000 in
theorem R_closed : closedIdx inits succs R initIdx succIdx = true := by decide +kernel

set_option maxRecDepth 100000 in
theorem R_good : R.all good = true := by decide +kernel

theorem succs_reachable_good :
    ∀ s, Reachable (· ∈ inits) (fun a b => b ∈ succs a) s → good s = true :=
  closedIdx_sound inits succs R initIdx succIdx good R_closed R_good

/-- a spurious CAS failure is a stutter step; every other step is a `succs` step -/
theorem step_spurious (s : State) (x : Actor) (s' : State) (l : Act)
    (h : step s x true = some (s', l)) : s' = s ∨ ∃ l', step s x false = some (s', l') := by
  cases x
  · right; exact ⟨l, by simpa [step] using h⟩
  · by_cases hc : s.cfg.hasCond
    · cases hpc : s.c <;> simp [step, hc, hpc] at h ⊢
      all_goals first | exact Or.inl h.1.symm | (right; try simp [h])
    · simp [step, hc] at h
  · cases hpc : s.t <;> simp [step, hpc] at h ⊢
    all_goals first | exact Or.inl h.1.symm | (right; try simp [h])

theorem mem_succs_of_step (s : State) (x : Actor) (s' : State) (l : Act)
    (h : step s x false = some (s', l)) : s' ∈ succs s := by
  simp only [succs, List.mem_filterMap]
  refine ⟨x, ?_, by simp [h]⟩
  cases x <;> simp

/-- all interleavings: `Step` allows any actor, any time, with or without a spurious CAS failure -/
theorem reachable_good (s : State) (h : Reachable (· ∈ inits) Step s) : good s = true := by
  suffices Reachable (· ∈ inits) (fun a b => b ∈ succs a) s from succs_reachable_good s this
  induction h with
  | base hi => exact .base hi
  | tail _ hst ih =>
    cases hst
    rename_i x sp l hstep
    cases sp
    · exact .tail ih (mem_succs_of_step _ _ _ _ hstep)
    · rcases step_spurious _ _ _ _ hstep with rfl | ⟨l', h'⟩
      · exact ih
      · exact .tail ih (mem_succs_of_step _ _ _ _ h')

end Babylon.Anyflow.Dep
