/-
  Certified closed set with an *index certificate* — a variant of `Babylon.Core.closedB` whose
  kernel evaluation is linear instead of quadratic: next to the list `R` of states the certificate
  names, for every state, the positions in `R` of its successors, so each computed successor is
  compared with exactly one table entry (a lazily computed successor is expensive to compare, a
  table entry is a literal).  Soundness is the same statement as `closedB_sound`.
-/
import Babylon.Core.Reach

namespace Babylon.Anyflow
open Babylon.Core

def closedIdx {σ : Type} [DecidableEq σ] (inits : List σ) (succs : σ → List σ) (R : List σ)
    (initIdx : List Nat) (succIdx : List (List Nat)) : Bool :=
  inits.length == initIdx.length && (inits.zip initIdx).all (fun p => R[p.2]? == some p.1) &&
  R.length == succIdx.length &&
  (R.zip succIdx).all (fun p =>
    let ts := succs p.1
    ts.length == p.2.length && (ts.zip p.2).all (fun q => R[q.2]? == some q.1))

theorem exists_zip_of_mem {α β : Type} : ∀ {l₁ : List α} {l₂ : List β} {a : α},
    l₁.length = l₂.length → a ∈ l₁ → ∃ b, (a, b) ∈ l₁.zip l₂
  | [], _, _, _, h => by cases h
  | x :: xs, [], _, hl, _ => by simp at hl
  | x :: xs, y :: ys, a, hl, h => by
    rcases List.mem_cons.mp h with rfl | h
    · exact ⟨y, by simp⟩
    · have hl' : xs.length = ys.length := by simpa using hl
      obtain ⟨b, hb⟩ := exists_zip_of_mem hl' h
      exact ⟨b, by simp [hb]⟩

theorem mem_of_lookup {σ : Type} [DecidableEq σ] {R : List σ} {i : Nat} {t : σ}
    (h : (R[i]? == some t) = true) : t ∈ R := by
  have : R[i]? = some t := by simpa using h
  exact List.mem_of_getElem? this

theorem closedIdx_sound {σ : Type} [DecidableEq σ]
    (inits : List σ) (succs : σ → List σ) (R : List σ) (initIdx : List Nat) (succIdx : List (List Nat))
    (good : σ → Bool)
    (hc : closedIdx inits succs R initIdx succIdx = true) (hg : R.all good = true) :
    ∀ s, Reachable (· ∈ inits) (fun a b => b ∈ succs a) s → good s = true := by
  simp only [closedIdx, Bool.and_eq_true, List.all_eq_true, beq_iff_eq] at hc
  obtain ⟨⟨⟨hl1, h1⟩, hl2⟩, h2⟩ := hc
  intro s hs
  have hin : s ∈ R := by
    apply closed_contains_reachable inits succs R _ _ s hs
    · intro a ha
      obtain ⟨i, hi⟩ := exists_zip_of_mem hl1 ha
      exact List.mem_of_getElem? (h1 _ hi)
    · intro a ha t ht
      obtain ⟨is, his⟩ := exists_zip_of_mem hl2 ha
      obtain ⟨hl3, h3⟩ := h2 _ his
      obtain ⟨i, hi⟩ := exists_zip_of_mem hl3 ht
      exact List.mem_of_getElem? (h3 _ hi)
  exact (List.all_eq_true.mp hg) s hin

end Babylon.Anyflow
