/-
  Semantic invariants of the L2 model: until the closure finishes, every sealed data holds its
  `evalSeq` value and only vertices the targets need are activated; a successful finish leaves
  every target sealed with its `evalSeq` value.
-/
import Babylon.Anyflow.GraphInv3
import Babylon.Anyflow.GraphRef

namespace Babylon.Anyflow.Graph
open Babylon.Core

variable {p : Params} {s s' : State}

structure InvA (p : Params) (s : State) : Prop where
  presets : s.running = true → ∀ v k d, p.g.Produces v k d → p.inp d ≠ none → s.sealed d = true
  sealed_lt : ∀ d, s.sealed d = true → d < p.g.nData
  idle_inact : s.running = false → ∀ v, s.vact v = false

theorem invA_init : InvA p State.init := by
  constructor <;> simp [State.init]

theorem invA_sealData {d : Nat} {x : Option Val} (hi : InvA p s) (hd : d < p.g.nData) : InvA p (sealData s d x) := by
  obtain ⟨i1, i2, i3⟩ := hi
  refine ⟨fun hr v k e he hne => ?_, fun e he => ?_, i3⟩
  · by_cases hed : e = d
    · subst hed; simp [sealData, upd_same]
    · simp only [sealData, upd_other _ _ hed]; exact i1 hr v k e he hne
  · by_cases hed : e = d
    · subst hed; exact hd
    · simp only [sealData, upd_other _ _ hed] at he; exact i2 e he

theorem invA_step (hwf : WF p) {e : Ev} (hi : InvA p s) (h : stepEvent p s e = some s') : InvA p s' := by
  cases e with
  | envSeal d x =>
    obtain ⟨h1, _, h3, h4 | h4⟩ := step_envSeal h
    · rw [h4.2]; exact invA_sealData hi h3
    · rw [h4.2.2]
      have := invA_sealData (x := x) hi h3
      exact ⟨this.presets, this.sealed_lt, this.idle_inact⟩
  | run =>
    obtain ⟨h1, h2, h3⟩ := step_run h
    rw [h3]
    exact ⟨fun _ v k d hp hne => h2 d (hwf.emit_ge v k d hp).2 (by rw [producer_eq hwf hp]; simp) hne,
      hi.sealed_lt, fun hr => by simp at hr⟩
  | bind =>
    obtain ⟨_, _, d, _, h4 | h4⟩ := step_bind h
    · rw [h4.2]; exact ⟨hi.presets, hi.sealed_lt, hi.idle_inact⟩
    · rw [h4.2.2]; exact ⟨hi.presets, hi.sealed_lt, hi.idle_inact⟩
  | fireD => rw [(step_fireD h).2.2.2.2]; exact ⟨hi.presets, hi.sealed_lt, hi.idle_inact⟩
  | fireV =>
    rw [(step_fireV h).2.2.2]; simp only [vsubCore]
    split <;> exact ⟨hi.presets, hi.sealed_lt, hi.idle_inact⟩
  | activate v =>
    obtain ⟨hr, _, _, _, h5⟩ := step_activate h
    rw [h5]; exact ⟨hi.presets, hi.sealed_lt, fun hr' => by simp only at hr'; rw [hr] at hr'; cases hr'⟩
  | dactivate v => rw [(step_dactivate h).2.2]; exact ⟨hi.presets, hi.sealed_lt, hi.idle_inact⟩
  | vdec v cnt => rw [(step_vdec h).2.2.2]; exact ⟨hi.presets, hi.sealed_lt, hi.idle_inact⟩
  | vadd => rw [(step_vadd h).2.2]; exact ⟨hi.presets, hi.sealed_lt, hi.idle_inact⟩
  | vsub =>
    rw [(step_vsub h).2.2]; simp only [vsubCore]
    split <;> exact ⟨hi.presets, hi.sealed_lt, hi.idle_inact⟩
  | procStart v ins => rw [(step_procStart h).2.2.2.2.2]; exact ⟨hi.presets, hi.sealed_lt, hi.idle_inact⟩
  | procEnd v => rw [(step_procEnd h).2.2.2]; exact ⟨hi.presets, hi.sealed_lt, hi.idle_inact⟩
  | sealBy v k x =>
    obtain ⟨d, hp, h2, _, _, _, h6⟩ := step_seal h
    rw [h6]; exact invA_sealData hi (hwf.emit_ge v k d hp).2
  | dsub => rw [(step_dsub h).2.2]; exact ⟨hi.presets, hi.sealed_lt, hi.idle_inact⟩
  | finish c => rw [(step_finish h).2.2.2]; exact ⟨hi.presets, hi.sealed_lt, hi.idle_inact⟩
  | reset => rw [(step_reset h).2.2.2]; exact invA_init

/-- sealed values equal the reference ⇒ a resolvable dependency shows the processor the reference input -/
theorem input_agree (hv : ∀ d, s.sealed d = true → s.val d = evalSeq p d) {dep : DepSpec}
    (hr : resolvable s dep = true) :
    dep.est s.val = dep.est (evalSeq p) ∧ dep.input s.val = dep.input (evalSeq p) := by
  unfold resolvable at hr
  cases hc : dep.cond with
  | none =>
    simp only [hc] at hr
    have he : ∀ val : Valn, dep.est val = true := fun val => by simp [DepSpec.est, hc]
    refine ⟨by rw [he, he], ?_⟩
    simp only [DepSpec.input, he, if_true]
    exact hv _ hr
  | some ce =>
    obtain ⟨c, ev⟩ := ce
    simp only [hc, Bool.and_eq_true, Bool.or_eq_true, Bool.not_eq_true'] at hr
    obtain ⟨h1, h2⟩ := hr
    have he : ∀ val : Valn, dep.est val = (asBool (val c) == ev) := fun val => by simp [DepSpec.est, hc]
    have hest : dep.est s.val = dep.est (evalSeq p) := by rw [he, he, hv c h1]
    refine ⟨hest, ?_⟩
    simp only [DepSpec.input, ← hest]
    by_cases ht : dep.est s.val = true
    · simp only [ht, if_true]
      rw [he] at ht
      rcases h2 with h2 | h2
      · rw [ht] at h2; cases h2
      · exact hv _ h2
    · simp [ht]

/-- a vertex that has been made runnable has all its dependencies resolvable -/
theorem runnable_resolved (hi : InvV p s) {v : Nat} (hr : 1 ≤ s.runnable v) :
    s.vact v = true ∧ s.counted v = p.g.nDeps v ∧ ∀ dep ∈ (p.g.vert v).deps, resolvable s dep = true := by
  have h1 := hi.runnable_eq v
  by_cases hc : s.vact v = true ∧ s.counted v = p.g.nDeps v
  · refine ⟨hc.1, hc.2, ?_⟩
    have h2 := hi.counted_le v
    have h3 := resolvedCount_le_dactN (p := p) (s := s) v
    have h4 := hi.dact_le v
    have h5 : s.dactN v = p.g.nDeps v := by omega
    have h6 : resolvedCount p s v = (p.g.vert v).deps.length := by unfold Graph.nDeps at *; omega
    unfold resolvedCount at h6
    rw [h5] at h6
    unfold Graph.nDeps at h6
    rw [List.take_length] at h6
    exact List.countP_eq_length.mp h6
  · rw [if_neg hc] at h1; omega

theorem estNow_est (hv : ∀ d, s.sealed d = true → s.val d = evalSeq p d) {dep : DepSpec}
    (h : estNow s dep = true) : dep.est (evalSeq p) = true := by
  unfold estNow at h
  unfold DepSpec.est
  cases hc : dep.cond with
  | none => rfl
  | some ce =>
    obtain ⟨c, ev⟩ := ce
    simp only [hc, Bool.and_eq_true] at h ⊢
    rw [← hv c h.1]; exact h.2

/-- until the closure finishes: values are the reference values, activated vertices are needed -/
def InvI (p : Params) (s : State) : Prop :=
  s.fin = none → (∀ d, s.sealed d = true → s.val d = evalSeq p d) ∧ (∀ v, s.vact v = true → VNeeded p v)

theorem invI_init : InvI p State.init := by
  intro _; constructor <;> simp [State.init]

theorem invI_sealData {d : Nat} {x : Option Val} (hi : InvI p s) (hf : s.fin = none) (hx : x = evalSeq p d) :
    (∀ e, (sealData s d x).sealed e = true → (sealData s d x).val e = evalSeq p e) ∧
    (∀ v, (sealData s d x).vact v = true → VNeeded p v) := by
  obtain ⟨i1, i2⟩ := hi hf
  refine ⟨fun e he => ?_, i2⟩
  by_cases hed : e = d
  · subst hed; simp [sealData, upd_same, hx]
  · simp only [sealData, upd_other _ _ hed] at he ⊢; exact i1 e he

theorem demandable_needed (hwf : WF p) (hw : InvW p s) (hi : InvI p s) (hf : s.fin = none) {e : Nat}
    (h : demandable p s e = true) : Needed p e := by
  obtain ⟨i1, i2⟩ := hi hf
  unfold demandable at h
  simp only [Bool.or_eq_true, List.any_eq_true, List.mem_range, Bool.and_eq_true] at h
  rcases h with h | ⟨u, hu, hva, hd⟩
  · exact .target (List.mem_of_mem_take (hw.bound_mem e h))
  · obtain ⟨_, e', he', hn, hin⟩ := i2 u hva
    unfold demandedBy at hd
    simp only [List.any_eq_true, Bool.or_eq_true, Bool.and_eq_true, beq_iff_eq] at hd
    obtain ⟨dep, hdep, hc | ht⟩ := hd
    · cases hcond : dep.cond with
      | none => simp [hcond] at hc
      | some ce =>
        obtain ⟨c, ev⟩ := ce
        simp only [hcond, beq_iff_eq] at hc
        subst hc
        exact .cond hu he' hn hin (List.mem_of_mem_take hdep) hcond
    · rw [← ht.1]
      exact .tgt hu he' hn hin (List.mem_of_mem_take hdep) (estNow_est i1 ht.2)

theorem invI_step (hwf : WF p) {e : Ev} (hv : InvV p s) (hw : InvW p s) (ha : InvA p s) (hi : InvI p s)
    (h : stepEvent p s e = some s') : InvI p s' := by
  cases e with
  | envSeal d x =>
    obtain ⟨h1, h2, h3, h4 | h4⟩ := step_envSeal h
    · rw [h4.2]; intro hf
      have hf' : s.fin = none := hf
      rcases h2 with h2 | h2
      · exact invI_sealData hi hf (evalSeq_inp p h3 h2).symm
      · rw [hf'] at h2; cases h2.2.1
    · rw [h4.2.2]; intro hf
      have hf' : s.fin = none := hf
      rcases h2 with h2 | h2
      · exact invI_sealData (x := x) hi hf (evalSeq_inp p h3 h2).symm
      · rw [hf'] at h2; cases h2.2.1
  | run => rw [(step_run h).2.2]; exact hi
  | bind =>
    obtain ⟨_, _, d, _, h4 | h4⟩ := step_bind h
    · rw [h4.2]; exact hi
    · rw [h4.2.2]; exact hi
  | fireD => rw [(step_fireD h).2.2.2.2]; exact hi
  | fireV => rw [(step_fireV h).2.2.2]; simp only [vsubCore]; split <;> exact hi
  | activate v =>
    obtain ⟨hr, h2, h3, ⟨e, he, hde, hse⟩, h5⟩ := step_activate h
    rw [h5]
    intro hf
    obtain ⟨i1, i2⟩ := hi hf
    refine ⟨i1, fun u hu => ?_⟩
    by_cases huv : u = v
    · subst huv
      refine ⟨h3, e, he, demandable_needed hwf hw hi hf hde, ?_⟩
      obtain ⟨k, hk⟩ := List.mem_iff_getElem?.mp he
      by_cases hin : p.inp e = none
      · exact hin
      · have := ha.presets hr u k e hk hin
        rw [hse] at this; cases this
    · simp only [upd_other _ _ huv] at hu; exact i2 u hu
  | dactivate v => rw [(step_dactivate h).2.2]; exact hi
  | vdec v cnt => rw [(step_vdec h).2.2.2]; exact hi
  | vadd => rw [(step_vadd h).2.2]; exact hi
  | vsub => rw [(step_vsub h).2.2]; simp only [vsubCore]; split <;> exact hi
  | procStart v ins => rw [(step_procStart h).2.2.2.2.2]; exact hi
  | procEnd v => rw [(step_procEnd h).2.2.2]; exact hi
  | sealBy v k x =>
    obtain ⟨d, hp, h2, h3, hr, h5, h6⟩ := step_seal h
    rw [h6]
    intro hf
    have hf' : s.fin = none := hf
    apply invI_sealData hi hf'
    rcases h5 with h5 | h5
    · obtain ⟨i1, _⟩ := hi hf'
      have hin : p.inp d = none := by
        by_cases hin : p.inp d = none
        · exact hin
        · have := ha.presets hr v k d hp hin
          rw [h2] at this; cases this
      rw [h5, evalSeq_produced p hwf hp hin]
      apply vertexOut_congr
      intro dep hdep
      exact (input_agree i1 ((runnable_resolved hv h3).2.2 dep hdep)).2
    · rw [hf'] at h5; cases h5.1
  | dsub => rw [(step_dsub h).2.2]; exact hi
  | finish c => rw [(step_finish h).2.2.2]; intro hf; cases hf
  | reset => rw [(step_reset h).2.2.2]; exact invI_init

/-- a successful finish leaves every target sealed with its reference value -/
def InvJ (p : Params) (s : State) : Prop :=
  s.fin = some 0 → ∀ t ∈ p.targets, s.sealed t = true ∧ s.val t = evalSeq p t

theorem invJ_init : InvJ p State.init := by intro h; simp [State.init] at h

theorem invJ_step {e : Ev} (hw : InvW p s) (hi : InvI p s) (hj : InvJ p s)
    (h : stepEvent p s e = some s') : InvJ p s' := by
  intro hf t ht
  by_cases hfs : s.fin = some 0
  · -- already finished: values are stable
    rcases step_mono h with h0 | hm
    · rw [h0] at hf; simp [State.init] at hf
    · obtain ⟨h1, h2⟩ := hj hfs t ht
      obtain ⟨h3, h4⟩ := hm.sealed t h1
      exact ⟨h3, by rw [h4, h2]⟩
  · -- this very step finishes with 0
    cases e with
    | finish c =>
      obtain ⟨_, h2, h3, h4⟩ := step_finish h
      rw [h4] at hf ⊢
      simp only [Option.some.injEq] at hf
      have hts := targets_sealed_of_wdn_zero hw (h3 hf) h2 t ht
      exact ⟨hts, (hi h2).1 t hts⟩
    | envSeal d x =>
      obtain ⟨h1, _, _, h4 | h4⟩ := step_envSeal h
      · rw [h4.2] at hf; exact absurd hf hfs
      · rw [h4.2.2] at hf; exact absurd hf hfs
    | run => rw [(step_run h).2.2] at hf; exact absurd hf hfs
    | bind =>
      obtain ⟨_, _, d, _, h4 | h4⟩ := step_bind h
      · rw [h4.2] at hf; exact absurd hf hfs
      · rw [h4.2.2] at hf; exact absurd hf hfs
    | fireD => rw [(step_fireD h).2.2.2.2] at hf; exact absurd hf hfs
    | fireV =>
      rw [(step_fireV h).2.2.2] at hf; simp only [vsubCore] at hf
      split at hf <;> exact absurd hf hfs
    | activate v => rw [(step_activate h).2.2.2.2] at hf; exact absurd hf hfs
    | dactivate v => rw [(step_dactivate h).2.2] at hf; exact absurd hf hfs
    | vdec v cnt => rw [(step_vdec h).2.2.2] at hf; exact absurd hf hfs
    | vadd => rw [(step_vadd h).2.2] at hf; exact absurd hf hfs
    | vsub =>
      rw [(step_vsub h).2.2] at hf; simp only [vsubCore] at hf
      split at hf <;> exact absurd hf hfs
    | procStart v ins => rw [(step_procStart h).2.2.2.2.2] at hf; exact absurd hf hfs
    | procEnd v => rw [(step_procEnd h).2.2.2] at hf; exact absurd hf hfs
    | sealBy v k x =>
      obtain ⟨d, _, _, _, _, _, h6⟩ := step_seal h
      rw [h6] at hf; exact absurd hf hfs
    | dsub => rw [(step_dsub h).2.2] at hf; exact absurd hf hfs
    | reset => rw [(step_reset h).2.2.2] at hf; simp [State.init] at hf

structure InvAll (p : Params) (s : State) : Prop where
  v : InvV p s
  d : InvD s
  c : InvC s
  w : InvW p s
  a : InvA p s
  i : InvI p s
  j : InvJ p s

theorem reach_invAll (hwf : WF p) (h : Reachable (· = State.init) (Step p) s) : InvAll p s := by
  induction h with
  | base hi => rw [hi]; exact ⟨invV_init, invD_init, invC_init, invW_init, invA_init, invI_init, invJ_init⟩
  | tail _ hst ih =>
    obtain ⟨e, he⟩ := hst
    exact ⟨invV_step ih.v he, invD_step ih.d he, invC_step ih.c he, invW_step hwf ih.w he, invA_step hwf ih.a he,
      invI_step hwf ih.v ih.w ih.a ih.i he, invJ_step ih.w ih.i ih.j he⟩

end Babylon.Anyflow.Graph
