/-
  Mechanism invariants of the L2 model (vertex counter, data seal, closure counters), for every
  graph, every schedule.
-/
import Babylon.Anyflow.GraphStep
import Babylon.Core.Reach

namespace Babylon.Anyflow.Graph
open Babylon.Core

variable {p : Params} {s s' : State}

/-- what never goes back during a run: sealed data keep their value, activated dependencies stay activated -/
structure Mono (s s' : State) : Prop where
  sealed : ∀ d, s.sealed d = true → s'.sealed d = true ∧ s'.val d = s.val d
  dact : ∀ v, s.dactN v ≤ s'.dactN v

theorem Mono.refl (s : State) : Mono s s := ⟨fun _ h => ⟨h, rfl⟩, fun _ => Nat.le_refl _⟩

theorem mono_of_eq (h1 : s'.sealed = s.sealed) (h2 : s'.val = s.val) (h3 : s'.dactN = s.dactN) : Mono s s' :=
  ⟨fun d h => ⟨by rw [h1]; exact h, by rw [h2]⟩, fun v => by rw [h3]; exact Nat.le_refl _⟩

theorem upd_same {α : Type} (f : Nat → α) (i : Nat) (x : α) : upd f i x i = x := by simp [upd]
theorem upd_other {α : Type} (f : Nat → α) {i j : Nat} (x : α) (h : j ≠ i) : upd f i x j = f j := by simp [upd, h]

theorem mono_sealData {d : Nat} {x : Option Val} (h : s.sealed d = false) : Mono s (sealData s d x) := by
  refine ⟨fun e he => ?_, fun _ => Nat.le_refl _⟩
  have hne : e ≠ d := by intro h'; subst h'; rw [h] at he; cases he
  simp [sealData, upd_other _ _ hne, he]

/-- every event except `reset` is monotone -/
theorem step_mono {e : Ev} (h : stepEvent p s e = some s') : s' = State.init ∨ Mono s s' := by
  cases e with
  | envSeal d x =>
    obtain ⟨h1, _, _, h4 | h4⟩ := step_envSeal h
    · right; rw [h4.2]; exact mono_sealData h1
    · right; rw [h4.2.2]; exact ⟨(mono_sealData (x := x) h1).sealed, (mono_sealData (x := x) h1).dact⟩
  | run => right; rw [(step_run h).2.2]; exact mono_of_eq rfl rfl rfl
  | bind =>
    obtain ⟨_, _, d, _, h4 | h4⟩ := step_bind h
    · right; rw [h4.2]; exact mono_of_eq rfl rfl rfl
    · right; rw [h4.2.2]; exact mono_of_eq rfl rfl rfl
  | fireD => right; rw [(step_fireD h).2.2.2.2]; exact mono_of_eq rfl rfl rfl
  | fireV =>
    right; rw [(step_fireV h).2.2.2]
    refine ⟨fun d hd => ?_, fun v => ?_⟩ <;> (simp only [vsubCore]; split <;> simp_all)
  | activate v => right; rw [(step_activate h).2.2.2.2]; exact mono_of_eq rfl rfl rfl
  | dactivate v =>
    right; rw [(step_dactivate h).2.2]
    refine ⟨fun _ h => ⟨h, rfl⟩, fun u => ?_⟩
    by_cases hu : u = v
    · subst hu; simp [upd_same]
    · simp [upd_other _ _ hu]
  | vdec v cnt => right; rw [(step_vdec h).2.2.2]; exact mono_of_eq rfl rfl rfl
  | vadd => right; rw [(step_vadd h).2.2]; exact mono_of_eq rfl rfl rfl
  | vsub =>
    right; rw [(step_vsub h).2.2]
    refine ⟨fun d hd => ?_, fun v => ?_⟩ <;> (simp only [vsubCore]; split <;> simp_all)
  | procStart v ins => right; rw [(step_procStart h).2.2.2.2.2]; exact mono_of_eq rfl rfl rfl
  | procEnd v => right; rw [(step_procEnd h).2.2.2]; exact mono_of_eq rfl rfl rfl
  | sealBy v k x =>
    obtain ⟨d, _, h2, _, _, _, h6⟩ := step_seal h
    right; rw [h6]; exact mono_sealData h2
  | dsub => right; rw [(step_dsub h).2.2]; exact mono_of_eq rfl rfl rfl
  | finish c => right; rw [(step_finish h).2.2.2]; exact mono_of_eq rfl rfl rfl
  | reset => left; exact (step_reset h).2.2.2

theorem resolvable_mono (hm : Mono s s') {dep : DepSpec} (h : resolvable s dep = true) : resolvable s' dep = true := by
  unfold resolvable at *
  cases hc : dep.cond with
  | none => simp only [hc] at h ⊢; exact (hm.sealed _ h).1
  | some ce =>
    obtain ⟨c, ev⟩ := ce
    simp only [hc, Bool.and_eq_true, Bool.or_eq_true, Bool.not_eq_true'] at h ⊢
    obtain ⟨h1, h2⟩ := h
    refine ⟨(hm.sealed _ h1).1, ?_⟩
    rw [(hm.sealed _ h1).2]
    rcases h2 with h2 | h2
    · left; exact h2
    · right; exact (hm.sealed _ h2).1

theorem countP_take_le {α : Type} (f : α → Bool) (l : List α) {m n : Nat} (h : m ≤ n) :
    (l.take m).countP f ≤ (l.take n).countP f := by
  have : l.take m = (l.take n).take m := by rw [List.take_take]; congr 1; omega
  rw [this]
  exact (List.take_sublist m (l.take n)).countP_le

theorem resolvedCount_mono (hm : Mono s s') (v : Nat) : resolvedCount p s v ≤ resolvedCount p s' v := by
  unfold resolvedCount
  calc ((p.g.vert v).deps.take (s.dactN v)).countP (resolvable s)
      ≤ ((p.g.vert v).deps.take (s.dactN v)).countP (resolvable s') :=
        List.countP_mono_left (fun d _ hd => resolvable_mono hm hd)
    _ ≤ ((p.g.vert v).deps.take (s'.dactN v)).countP (resolvable s') := countP_take_le _ _ (hm.dact v)

theorem resolvedCount_le_dactN (v : Nat) : resolvedCount p s v ≤ s.dactN v := by
  unfold resolvedCount
  exact Nat.le_trans (List.countP_le_length) (by simp [List.length_take]; omega)

/-! ### vertex counter -/
structure InvV (p : Params) (s : State) : Prop where
  dact_le : ∀ v, s.dactN v ≤ p.g.nDeps v
  counted_le : ∀ v, s.counted v ≤ resolvedCount p s v
  inact : ∀ v, s.vact v = false → s.counted v = 0 ∧ s.dactN v = 0 ∧ s.runnable v = 0
  wn_eq : ∀ v, s.vact v = true → s.wn v = (p.g.nDeps v : Int) - (s.counted v : Int)
  runnable_eq : ∀ v, s.runnable v = if s.vact v = true ∧ s.counted v = p.g.nDeps v then 1 else 0
  started_le : ∀ v, s.started v ≤ s.runnable v

theorem invV_init : InvV p State.init := by
  constructor <;> intro v <;> simp [State.init, resolvedCount]

/-- an invariant that only looks at the vertex fields survives events that leave them alone -/
theorem InvV.frame (hi : InvV p s) (hm : Mono s s')
    (h1 : s'.dactN = s.dactN) (h2 : s'.counted = s.counted) (h3 : s'.vact = s.vact) (h4 : s'.wn = s.wn)
    (h5 : s'.runnable = s.runnable) (h6 : s'.started = s.started) : InvV p s' := by
  constructor
  · intro v; rw [h1]; exact hi.dact_le v
  · intro v; rw [h2]; exact Nat.le_trans (hi.counted_le v) (resolvedCount_mono hm v)
  · intro v; rw [h3, h2, h1, h5]; exact hi.inact v
  · intro v; rw [h3, h4, h2]; exact hi.wn_eq v
  · intro v; rw [h5, h3, h2]; exact hi.runnable_eq v
  · intro v; rw [h6, h5]; exact hi.started_le v

theorem invV_step {e : Ev} (hi : InvV p s) (h : stepEvent p s e = some s') : InvV p s' := by
  have hmono := step_mono h
  cases e with
  | reset => rw [(step_reset h).2.2.2]; exact invV_init
  | envSeal d x =>
    rcases hmono with h0 | hm
    · rw [h0]; exact invV_init
    · obtain ⟨_, _, _, h4 | h4⟩ := step_envSeal h
      · exact hi.frame hm (by rw [h4.2]; rfl) (by rw [h4.2]; rfl) (by rw [h4.2]; rfl) (by rw [h4.2]; rfl) (by rw [h4.2]; rfl) (by rw [h4.2]; rfl)
      · exact hi.frame hm (by rw [h4.2.2]; rfl) (by rw [h4.2.2]; rfl) (by rw [h4.2.2]; rfl) (by rw [h4.2.2]; rfl) (by rw [h4.2.2]; rfl) (by rw [h4.2.2]; rfl)
  | run =>
    have := (step_run h).2.2
    exact hi.frame (by rw [this]; exact mono_of_eq rfl rfl rfl) (by rw [this]) (by rw [this]) (by rw [this]) (by rw [this]) (by rw [this]) (by rw [this])
  | bind =>
    obtain ⟨_, _, d, _, h4 | h4⟩ := step_bind h
    · have := h4.2
      exact hi.frame (by rw [this]; exact mono_of_eq rfl rfl rfl) (by rw [this]) (by rw [this]) (by rw [this]) (by rw [this]) (by rw [this]) (by rw [this])
    · have := h4.2.2
      exact hi.frame (by rw [this]; exact mono_of_eq rfl rfl rfl) (by rw [this]) (by rw [this]) (by rw [this]) (by rw [this]) (by rw [this]) (by rw [this])
  | fireD =>
    have := (step_fireD h).2.2.2.2
    exact hi.frame (by rw [this]; exact mono_of_eq rfl rfl rfl) (by rw [this]) (by rw [this]) (by rw [this]) (by rw [this]) (by rw [this]) (by rw [this])
  | fireV =>
    rcases hmono with h0 | hm
    · rw [h0]; exact invV_init
    · have := (step_fireV h).2.2.2
      refine hi.frame hm ?_ ?_ ?_ ?_ ?_ ?_ <;> (rw [this]; simp only [vsubCore]; split <;> rfl)
  | vadd =>
    have := (step_vadd h).2.2
    exact hi.frame (by rw [this]; exact mono_of_eq rfl rfl rfl) (by rw [this]) (by rw [this]) (by rw [this]) (by rw [this]) (by rw [this]) (by rw [this])
  | vsub =>
    rcases hmono with h0 | hm
    · rw [h0]; exact invV_init
    · have := (step_vsub h).2.2
      refine hi.frame hm ?_ ?_ ?_ ?_ ?_ ?_ <;> (rw [this]; simp only [vsubCore]; split <;> rfl)
  | procEnd v =>
    have := (step_procEnd h).2.2.2
    exact hi.frame (by rw [this]; exact mono_of_eq rfl rfl rfl) (by rw [this]) (by rw [this]) (by rw [this]) (by rw [this]) (by rw [this]) (by rw [this])
  | sealBy v k x =>
    rcases hmono with h0 | hm
    · rw [h0]; exact invV_init
    · obtain ⟨d, _, _, _, _, _, h6⟩ := step_seal h
      exact hi.frame hm (by rw [h6]; rfl) (by rw [h6]; rfl) (by rw [h6]; rfl) (by rw [h6]; rfl) (by rw [h6]; rfl) (by rw [h6]; rfl)
  | dsub =>
    have := (step_dsub h).2.2
    exact hi.frame (by rw [this]; exact mono_of_eq rfl rfl rfl) (by rw [this]) (by rw [this]) (by rw [this]) (by rw [this]) (by rw [this]) (by rw [this])
  | finish c =>
    have := (step_finish h).2.2.2
    exact hi.frame (by rw [this]; exact mono_of_eq rfl rfl rfl) (by rw [this]) (by rw [this]) (by rw [this]) (by rw [this]) (by rw [this]) (by rw [this])
  | procStart v ins =>
    obtain ⟨h1, h2, _, _, _, h6⟩ := step_procStart h
    rcases hmono with h0 | hm
    · rw [h0]; exact invV_init
    · constructor
      · intro u; rw [h6]; exact hi.dact_le u
      · intro u; rw [h6]; exact hi.counted_le u
      · intro u; rw [h6]; exact hi.inact u
      · intro u; rw [h6]; exact hi.wn_eq u
      · intro u; rw [h6]; exact hi.runnable_eq u
      · intro u; rw [h6]
        by_cases hu : u = v
        · subst hu; simp only [upd_same]; exact h1
        · simp only [upd_other _ _ hu]; exact hi.started_le u
  | dactivate v =>
    obtain ⟨h1, h2, h3⟩ := step_dactivate h
    rcases hmono with h0 | hm
    · rw [h0]; exact invV_init
    · constructor
      · intro u; rw [h3]
        by_cases hu : u = v
        · subst hu; simp only [upd_same]; omega
        · simp only [upd_other _ _ hu]; exact hi.dact_le u
      · intro u
        have := Nat.le_trans (hi.counted_le u) (resolvedCount_mono hm u)
        rw [h3] at this ⊢; exact this
      · intro u hu
        have hne : u ≠ v := by intro h'; subst h'; rw [h3] at hu; simp at hu; rw [h1] at hu; cases hu
        rw [h3] at hu ⊢; simp only [upd_other _ _ hne]; exact hi.inact u hu
      · intro u; rw [h3]; exact hi.wn_eq u
      · intro u; rw [h3]; exact hi.runnable_eq u
      · intro u; rw [h3]; exact hi.started_le u
  | activate v =>
    obtain ⟨_, h2, _, _, h5⟩ := step_activate h
    obtain ⟨i1, i2, i3⟩ := hi.inact v h2
    rcases hmono with h0 | hm
    · rw [h0]; exact invV_init
    · constructor
      · intro u; rw [h5]; exact hi.dact_le u
      · intro u
        have := Nat.le_trans (hi.counted_le u) (resolvedCount_mono hm u)
        rw [h5] at this ⊢; exact this
      · intro u hu
        rw [h5] at hu ⊢
        have hne : u ≠ v := by intro h'; subst h'; simp [upd_same] at hu
        simp only [upd_other _ _ hne] at hu
        have := hi.inact u hu
        refine ⟨this.1, this.2.1, ?_⟩
        show (if p.g.nDeps v = 0 then upd s.runnable v (s.runnable v + 1) else s.runnable) u = 0
        split
        · simp only [upd_other _ _ hne]; exact this.2.2
        · exact this.2.2
      · intro u hu
        rw [h5] at hu ⊢
        by_cases hne : u = v
        · subst hne; simp only [upd_same]; rw [i1]; simp
        · simp only [upd_other _ _ hne] at hu ⊢; exact hi.wn_eq u hu
      · intro u
        rw [h5]
        show (if p.g.nDeps v = 0 then upd s.runnable v (s.runnable v + 1) else s.runnable) u =
          if upd s.vact v true u = true ∧ s.counted u = p.g.nDeps u then 1 else 0
        by_cases hne : u = v
        · subst hne
          simp only [upd_same, true_and, i1]
          by_cases hn : p.g.nDeps u = 0
          · simp [hn, upd_same, i3]
          · have : ¬ (0 = p.g.nDeps u) := fun h => hn h.symm
            simp [hn, this, i3]
        · simp only [upd_other _ _ hne]
          have := hi.runnable_eq u
          split
          · simp only [upd_other _ _ hne]; exact this
          · exact this
      · intro u
        rw [h5]
        show s.started u ≤ (if p.g.nDeps v = 0 then upd s.runnable v (s.runnable v + 1) else s.runnable) u
        have := hi.started_le u
        split
        · by_cases hne : u = v
          · subst hne; simp only [upd_same]; omega
          · simp only [upd_other _ _ hne]; exact this
        · exact this
  | vdec v cnt =>
    obtain ⟨h1, h2, h3, h4⟩ := step_vdec h
    have hw := hi.wn_eq v h1
    have hrc := resolvedCount_le_dactN (p := p) (s := s) v
    have hdl := hi.dact_le v
    rcases hmono with h0 | hm
    · rw [h0]; exact invV_init
    · constructor
      · intro u; rw [h4]; exact hi.dact_le u
      · intro u
        rw [h4]
        show upd s.counted v (s.counted v + cnt) u ≤ resolvedCount p s u
        by_cases hne : u = v
        · subst hne; simp only [upd_same]; exact h3
        · simp only [upd_other _ _ hne]; exact hi.counted_le u
      · intro u hu
        rw [h4] at hu ⊢
        have hne : u ≠ v := by intro h'; subst h'; simp at hu; rw [h1] at hu; cases hu
        have := hi.inact u hu
        refine ⟨by simp only [upd_other _ _ hne]; exact this.1, this.2.1, ?_⟩
        show (if s.wn v - (cnt : Int) = 0 then upd s.runnable v (s.runnable v + 1) else s.runnable) u = 0
        split
        · simp only [upd_other _ _ hne]; exact this.2.2
        · exact this.2.2
      · intro u hu
        rw [h4] at hu ⊢
        by_cases hne : u = v
        · subst hne; simp only [upd_same]; rw [hw]; push_cast; omega
        · simp only [upd_other _ _ hne]; exact hi.wn_eq u hu
      · intro u
        rw [h4]
        show (if s.wn v - (cnt : Int) = 0 then upd s.runnable v (s.runnable v + 1) else s.runnable) u =
          if s.vact u = true ∧ upd s.counted v (s.counted v + cnt) u = p.g.nDeps u then 1 else 0
        have hr := hi.runnable_eq u
        by_cases hne : u = v
        · subst hne
          simp only [upd_same, h1, true_and]
          have hr0 : s.runnable u = 0 := by
            rw [hr]; simp only [h1, true_and]
            have : s.counted u ≠ p.g.nDeps u := by omega
            simp [this]
          by_cases hz : s.wn u - (cnt : Int) = 0
          · have : s.counted u + cnt = p.g.nDeps u := by omega
            simp [hz, this, upd_same, hr0]
          · have : s.counted u + cnt ≠ p.g.nDeps u := by omega
            simp [hz, this, hr0]
        · simp only [upd_other _ _ hne]
          split
          · simp only [upd_other _ _ hne]; exact hr
          · exact hr
      · intro u
        rw [h4]
        show s.started u ≤ (if s.wn v - (cnt : Int) = 0 then upd s.runnable v (s.runnable v + 1) else s.runnable) u
        have := hi.started_le u
        split
        · by_cases hne : u = v
          · subst hne; simp only [upd_same]; omega
          · simp only [upd_other _ _ hne]; exact this
        · exact this

theorem reach_invV (h : Reachable (· = State.init) (Step p) s) : InvV p s := by
  induction h with
  | base hi => rw [hi]; exact invV_init
  | tail _ hst ih => obtain ⟨e, he⟩ := hst; exact invV_step ih he

end Babylon.Anyflow.Graph
