/-
  Data-seal and closure invariants of the L2 model.
-/
import Babylon.Anyflow.GraphInv

namespace Babylon.Anyflow.Graph
open Babylon.Core

variable {p : Params} {s s' : State}

/-! ### data: sealed at most once -/
def InvD (s : State) : Prop := ∀ d, s.seals d = if s.sealed d = true then 1 else 0

theorem invD_init : InvD State.init := by intro d; simp [State.init]

theorem invD_sealData {d : Nat} {x : Option Val} (hi : InvD s) (h : s.sealed d = false) : InvD (sealData s d x) := by
  intro e
  by_cases he : e = d
  · subst he
    have := hi e
    simp [sealData, upd_same, h] at this ⊢
    exact this
  · simp only [sealData, upd_other _ _ he]; exact hi e

theorem invD_step {e : Ev} (hi : InvD s) (h : stepEvent p s e = some s') : InvD s' := by
  cases e with
  | envSeal d x =>
    obtain ⟨h1, _, _, h4 | h4⟩ := step_envSeal h
    · rw [h4.2]; exact invD_sealData hi h1
    · rw [h4.2.2]; exact invD_sealData (x := x) hi h1
  | run => rw [(step_run h).2.2]; exact hi
  | bind =>
    obtain ⟨_, _, d, _, h4 | h4⟩ := step_bind h
    · rw [h4.2]; exact hi
    · rw [h4.2.2]; exact hi
  | fireD => rw [(step_fireD h).2.2.2.2]; exact hi
  | fireV => rw [(step_fireV h).2.2.2]; intro d; simp only [vsubCore]; split <;> exact hi d
  | activate v => rw [(step_activate h).2.2.2.2]; exact hi
  | dactivate v => rw [(step_dactivate h).2.2]; exact hi
  | vdec v cnt => rw [(step_vdec h).2.2.2]; exact hi
  | vadd => rw [(step_vadd h).2.2]; exact hi
  | vsub => rw [(step_vsub h).2.2]; intro d; simp only [vsubCore]; split <;> exact hi d
  | procStart v ins => rw [(step_procStart h).2.2.2.2.2]; exact hi
  | procEnd v => rw [(step_procEnd h).2.2.2]; exact hi
  | sealBy v k x =>
    obtain ⟨d, _, h2, _, _, _, h6⟩ := step_seal h
    rw [h6]; exact invD_sealData hi h2
  | dsub => rw [(step_dsub h).2.2]; exact hi
  | finish c => rw [(step_finish h).2.2.2]; exact hi
  | reset => rw [(step_reset h).2.2.2]; exact invD_init

theorem reach_invD (h : Reachable (· = State.init) (Step p) s) : InvD s := by
  induction h with
  | base hi => rw [hi]; exact invD_init
  | tail _ hst ih => obtain ⟨e, he⟩ := hst; exact invD_step ih he

/-! ### closure: vertex count, flush, finish -/
structure InvC (s : State) : Prop where
  wvn_eq : s.wvn = (if s.firedV = true then 0 else 1) + s.opened
  procs_le : s.procs ≤ s.opened
  flushed_eq : s.lateEnv = false → s.flushed = if s.wvn = 0 then 1 else 0

theorem invC_init : InvC State.init := by
  constructor <;> simp [State.init, Babylon.Gen.Anyflow.closureInitVertexNum]

theorem invC_step {e : Ev} (hi : InvC s) (h : stepEvent p s e = some s') : InvC s' := by
  obtain ⟨i1, i2, i3⟩ := hi
  cases e with
  | envSeal d x =>
    obtain ⟨h1, _, _, h4 | h4⟩ := step_envSeal h
    · rw [h4.2]; exact ⟨i1, i2, i3⟩
    · rw [h4.2.2]; exact ⟨i1, i2, fun hl => by simp at hl⟩
  | run => rw [(step_run h).2.2]; exact ⟨i1, i2, i3⟩
  | bind =>
    obtain ⟨_, _, d, _, h4 | h4⟩ := step_bind h
    · rw [h4.2]; exact ⟨i1, i2, i3⟩
    · rw [h4.2.2]; exact ⟨i1, i2, i3⟩
  | fireD => rw [(step_fireD h).2.2.2.2]; exact ⟨i1, i2, i3⟩
  | fireV =>
    obtain ⟨_, h2, h3, h4⟩ := step_fireV h
    rw [h4]
    simp only [h2, Bool.false_eq_true, if_false] at i1
    constructor
    · simp only [vsubCore]; split <;> simp <;> omega
    · simp only [vsubCore]; split <;> exact i2
    · intro hl
      simp only [vsubCore] at hl ⊢
      split
      · rename_i hz
        have hl' : s.lateEnv = false := by split at hl <;> simpa using hl
        have := i3 hl'
        simp only [h3, if_false] at this
        simp at hz ⊢; omega
      · rename_i hz
        have hl' : s.lateEnv = false := by split at hl <;> simpa using hl
        have := i3 hl'
        simp only [h3, if_false] at this
        simp at hz ⊢
        simp [hz, this]
  | activate v => rw [(step_activate h).2.2.2.2]; exact ⟨i1, i2, i3⟩
  | dactivate v => rw [(step_dactivate h).2.2]; exact ⟨i1, i2, i3⟩
  | vdec v cnt => rw [(step_vdec h).2.2.2]; exact ⟨i1, i2, i3⟩
  | vadd =>
    obtain ⟨_, h2, h3⟩ := step_vadd h
    rw [h3]
    refine ⟨by simp; omega, by simp; omega, fun hl => ?_⟩
    simp at hl ⊢
    have := i3 hl
    rcases h2 with h2 | h2
    · have hne : s.wvn ≠ 0 := by omega
      simpa [hne] using this
    · rw [hl] at h2; cases h2
  | vsub =>
    obtain ⟨h1, h2, h3⟩ := step_vsub h
    rw [h3]
    constructor
    · simp only [vsubCore]; split <;> simp <;> omega
    · simp only [vsubCore]; split <;> simp <;> omega
    · intro hl
      simp only [vsubCore] at hl ⊢
      have hne : s.wvn ≠ 0 := by omega
      split
      · rename_i hz
        have hl' : s.lateEnv = false := by split at hl <;> simpa using hl
        have := i3 hl'
        simp only [hne, if_false] at this
        simp at hz ⊢; omega
      · rename_i hz
        have hl' : s.lateEnv = false := by split at hl <;> simpa using hl
        have := i3 hl'
        simp only [hne, if_false] at this
        simp at hz ⊢
        simp [hz, this]
  | procStart v ins =>
    obtain ⟨_, _, _, _, h5, h6⟩ := step_procStart h
    rw [h6]; exact ⟨i1, by simp; omega, i3⟩
  | procEnd v =>
    obtain ⟨_, _, h3, h4⟩ := step_procEnd h
    rw [h4]; exact ⟨i1, by simp; omega, i3⟩
  | sealBy v k x =>
    obtain ⟨d, _, h2, _, _, _, h6⟩ := step_seal h
    rw [h6]; exact ⟨i1, i2, i3⟩
  | dsub => rw [(step_dsub h).2.2]; exact ⟨i1, i2, i3⟩
  | finish c => rw [(step_finish h).2.2.2]; exact ⟨i1, i2, i3⟩
  | reset => rw [(step_reset h).2.2.2]; exact invC_init

theorem reach_invC (h : Reachable (· = State.init) (Step p) s) : InvC s := by
  induction h with
  | base hi => rw [hi]; exact invC_init
  | tail _ hst ih => obtain ⟨e, he⟩ := hst; exact invC_step ih he

/-- the finish code never changes -/
theorem fin_stable {e : Ev} {c : Int} (h : stepEvent p s e = some s') (hf : s.fin = some c) :
    s' = State.init ∨ s'.fin = some c := by
  cases e with
  | envSeal d x =>
    obtain ⟨h1, _, _, h4 | h4⟩ := step_envSeal h
    · right; rw [h4.2]; exact hf
    · right; rw [h4.2.2]; exact hf
  | run => right; rw [(step_run h).2.2]; exact hf
  | bind =>
    obtain ⟨_, _, d, _, h4 | h4⟩ := step_bind h
    · right; rw [h4.2]; exact hf
    · right; rw [h4.2.2]; exact hf
  | fireD => right; rw [(step_fireD h).2.2.2.2]; exact hf
  | fireV => right; rw [(step_fireV h).2.2.2]; simp only [vsubCore]; split <;> exact hf
  | activate v => right; rw [(step_activate h).2.2.2.2]; exact hf
  | dactivate v => right; rw [(step_dactivate h).2.2]; exact hf
  | vdec v cnt => right; rw [(step_vdec h).2.2.2]; exact hf
  | vadd => right; rw [(step_vadd h).2.2]; exact hf
  | vsub => right; rw [(step_vsub h).2.2]; simp only [vsubCore]; split <;> exact hf
  | procStart v ins => right; rw [(step_procStart h).2.2.2.2.2]; exact hf
  | procEnd v => right; rw [(step_procEnd h).2.2.2]; exact hf
  | sealBy v k x =>
    obtain ⟨d, _, h2, _, _, _, h6⟩ := step_seal h
    right; rw [h6]; exact hf
  | dsub => right; rw [(step_dsub h).2.2]; exact hf
  | finish c' => have := (step_finish h).2.1; rw [hf] at this; cases this
  | reset => left; exact (step_reset h).2.2.2

end Babylon.Anyflow.Graph
