/-
  The statements of Properties/C05.lean about the L2 model, assembled from the invariants, and the
  two model counterexamples that go with the known findings.
-/
import Babylon.Anyflow.GraphSem

namespace Babylon.Anyflow.Graph
open Babylon.Core

variable {p : Params} {s s' : State}

theorem vertex_invoke_once (p : Params) (s : State) (h : Reachable (· = State.init) (Step p) s) (v : Nat) :
    s.runnable v ≤ 1 ∧ s.started v ≤ s.runnable v ∧
    (s.vact v = true → s.wn v = (p.g.nDeps v : Int) - (s.counted v : Int)) ∧
    (s.runnable v = 1 → s.vact v = true ∧ s.counted v = p.g.nDeps v ∧
       ∀ d ∈ (p.g.vert v).deps, resolvable s d = true) ∧
    (∀ s', stepEvent p s (.activate v) = some s' → s.vact v = false ∧ s'.vact v = true) := by
  have hi := reach_invV h
  refine ⟨?_, hi.started_le v, hi.wn_eq v, fun hr => runnable_resolved hi (by omega), fun s' hs => ?_⟩
  · rw [hi.runnable_eq v]; split <;> omega
  · obtain ⟨_, h2, _, _, h5⟩ := step_activate hs
    exact ⟨h2, by rw [h5]; simp [upd_same]⟩

theorem data_publish_once (p : Params) (s : State) (h : Reachable (· = State.init) (Step p) s) (d : Nat) :
    s.seals d ≤ 1 ∧ (s.sealed d = true ↔ s.seals d = 1) ∧
    (∀ e s', stepEvent p s e = some s' → s.sealed d = true →
       s' = State.init ∨ (s'.sealed d = true ∧ s'.val d = s.val d)) := by
  have hi := reach_invD h d
  refine ⟨by rw [hi]; split <;> omega, ?_, fun e s' hs hd => ?_⟩
  · rw [hi]; constructor
    · intro hs; simp [hs]
    · intro hs; by_cases hd : s.sealed d = true
      · exact hd
      · simp [hd] at hs
  · rcases step_mono hs with h0 | hm
    · exact Or.inl h0
    · exact Or.inr (hm.sealed d hd)

theorem closure_finish_flush (p : Params) (s : State) (h : Reachable (· = State.init) (Step p) s) :
    (∀ e s' c, stepEvent p s e = some s' → s.fin = some c → s' = State.init ∨ s'.fin = some c) ∧
    (s.lateEnv = false →
      s.wvn = (if s.firedV then 0 else 1) + s.opened ∧ s.procs ≤ s.opened ∧ s.flushed ≤ 1 ∧
      (s.flushed = 1 → s.firedV = true ∧ s.wvn = 0 ∧ s.opened = 0 ∧ s.procs = 0) ∧
      (s.flushed = 1 → ∀ v ins, stepEvent p s (.procStart v ins) = none)) := by
  obtain ⟨i1, i2, i3⟩ := reach_invC h
  refine ⟨fun e s' c hs hf => fin_stable hs hf, fun hl => ?_⟩
  have i3' := i3 hl
  have hfl : s.flushed = 1 → s.firedV = true ∧ s.wvn = 0 ∧ s.opened = 0 ∧ s.procs = 0 := by
    intro hf
    have hw : s.wvn = 0 := by
      by_cases hw : s.wvn = 0
      · exact hw
      · rw [if_neg hw] at i3'; omega
    rw [hw] at i1
    by_cases hfv : s.firedV = true
    · simp only [hfv, if_true] at i1
      exact ⟨hfv, hw, by omega, by omega⟩
    · simp only [hfv] at i1; simp at i1; omega
  refine ⟨i1, i2, by rw [i3']; split <;> omega, hfl, fun hf v ins => ?_⟩
  obtain ⟨_, _, h3, h4⟩ := hfl hf
  cases hs : stepEvent p s (.procStart v ins) with
  | none => rfl
  | some s' =>
    have := (step_procStart hs).2.2.2.2.1
    omega

theorem graph_safety (p : Params) (hwf : WF p) (s : State) (h : Reachable (· = State.init) (Step p) s)
    (hfin : s.fin = none) (v : Nat) :
    (s.vact v = true → VNeeded p v) ∧ (s.started v ≥ 1 → VNeeded p v) := by
  have hi := reach_invAll hwf h
  have hact := (hi.i hfin).2 v
  refine ⟨hact, fun hs => hact ?_⟩
  have h1 := hi.v.started_le v
  exact (runnable_resolved hi.v (by omega)).1

theorem graph_eq_sequential (p : Params) (hwf : WF p) (s : State) (h : Reachable (· = State.init) (Step p) s) :
    (s.fin = none → ∀ d, s.sealed d = true → s.val d = evalSeq p d) ∧
    (s.fin = some 0 → ∀ t ∈ p.targets, s.sealed t = true ∧ s.val t = evalSeq p t) := by
  have hi := reach_invAll hwf h
  exact ⟨fun hf => (hi.i hf).1, hi.j⟩

theorem reset_reinit (p : Params) (s s' : State) (h : stepEvent p s .reset = some s') :
    s' = State.init ∧ s.running = true ∧ s.firedV = true ∧ s.wvn = 0 := by
  obtain ⟨h1, h2, h3, h4⟩ := step_reset h
  exact ⟨h4, h1, h2, h3⟩

/-- the closure machinery never waits on itself: as long as the run is not flushed and no processor is
inside `process` (and no unknown emitter interferes), one of `bind`, `fire`, `vsub` is enabled; once
the vertex count is 0 the closure can be marked finished if nothing finished it before -/
theorem closure_progress (p : Params) (hwf : WF p) (s : State) (h : Reachable (· = State.init) (Step p) s)
    (hr : s.running = true) (hl : s.lateEnv = false) (hp : s.procs = 0) :
    (s.flushed = 0 → ∃ e, (e = .bind ∨ e = .fireD ∨ e = .fireV ∨ e = .vsub) ∧ (stepEvent p s e).isSome = true) ∧
    (s.flushed = 1 → s.fin = none → (stepEvent p s (.finish (-1))).isSome = true) := by
  have hi := reach_invAll hwf h
  obtain ⟨c1, c2, c3⟩ := hi.c
  have c3' := c3 hl
  constructor
  · intro hf
    by_cases hfd : s.firedD = true
    · by_cases hfv : s.firedV = true
      · -- fired: the count is not 0 (not flushed), so a vertex closure is open and nobody is inside a processor
        have hw : s.wvn ≠ 0 := by intro hw; rw [if_pos hw] at c3'; omega
        simp only [hfv, if_true] at c1
        refine ⟨.vsub, Or.inr (Or.inr (Or.inr rfl)), ?_⟩
        have h1 : s.opened > s.procs := by omega
        have h2 : s.wvn > 0 := by omega
        simp [stepEvent, h1, h2]
      · have hw : s.wvn ≠ 0 := by simp [hfv] at c1; omega
        refine ⟨.fireV, Or.inr (Or.inr (Or.inl rfl)), ?_⟩
        simp [stepEvent, hfd, hfv, hw]
    · cases ht : p.targets[s.bindPc]? with
      | some d =>
        refine ⟨.bind, Or.inl rfl, ?_⟩
        by_cases hsb : (s.sealed d || s.bound d) = true
        · simp [stepEvent, hr, hfd, ht, hsb]
        · simp [stepEvent, hr, hfd, ht, hsb]
      | none =>
        have hpc : s.bindPc = p.targets.length := by
          have := hi.w.pc_le
          have := List.getElem?_eq_none_iff.mp ht
          omega
        have hw : s.wdn ≠ 0 := by have := hi.w.wdn_eq; simp [hfd] at this; omega
        exact ⟨.fireD, Or.inr (Or.inl rfl), by simp [stepEvent, hr, hfd, hw, hpc]⟩
  · intro _ hfin
    simp [stepEvent, hr, hfin]

/-! ### model counterexample for the finding `oracle:inject:dup-flush`

One vertex `v0` with one dependency on the input `d0`, target `d1`.  The environment seals `d0`
*after* `run` (an emitter the closure does not know about): activation sees it sealed and waits for
nothing, `fire` brings the vertex count to 0 (first flush, the closure finishes with -1), then the
emitter's notification makes `v0` runnable, a vertex closure is created on the flushed closure
(count 0 → 1) and its completion flushes a second time. -/
def cexParams : Params :=
  { g := { nIn := 1, nData := 2, verts := [⟨[⟨0, none, false⟩], [1]⟩] }, proc := mix,
    inp := fun d => if d = 0 then some (some 5) else none, targets := [1] }

def cexSchedule : List Ev :=
  [.run, .bind, .activate 0, .dactivate 0, .envSeal 0 (some 5), .fireD, .fireV, .finish (-1),
   .vdec 0 1, .vadd, .vsub]

def runEvents (p : Params) : State → List Ev → Option State
  | s, [] => some s
  | s, e :: es => match stepEvent p s e with | some s' => runEvents p s' es | none => none

theorem runEvents_reachable {p : Params} {s s' : State} {es : List Ev}
    (h0 : Reachable (· = State.init) (Step p) s) (h : runEvents p s es = some s') :
    Reachable (· = State.init) (Step p) s' := by
  induction es generalizing s with
  | nil => simp [runEvents] at h; exact h ▸ h0
  | cons e es ih =>
    simp only [runEvents] at h
    cases hst : stepEvent p s e with
    | none => simp [hst] at h
    | some s1 => simp only [hst] at h; exact ih (.tail h0 ⟨e, hst⟩) h

theorem cex_produces {v k d : Nat} (h : cexParams.g.Produces v k d) : v = 0 ∧ k = 0 ∧ d = 1 := by
  unfold Graph.Produces Graph.vert cexParams at h
  match v, k with
  | 0, 0 => simp at h; exact ⟨rfl, rfl, h.symm⟩
  | 0, k + 1 => simp at h
  | v + 1, k => simp at h

theorem cex_wf : WF cexParams := by
  constructor
  · intro v k d h; obtain ⟨rfl, rfl, rfl⟩ := cex_produces h; simp [cexParams]
  · intro v k v' k' d h h'
    obtain ⟨rfl, rfl, rfl⟩ := cex_produces h
    obtain ⟨rfl, rfl, _⟩ := cex_produces h'
    exact ⟨rfl, rfl⟩
  · intro v k d dep h hd
    obtain ⟨rfl, rfl, rfl⟩ := cex_produces h
    simp [Graph.vert, cexParams] at hd
    subst hd; simp
  · simp [cexParams]
  · intro v dep c ev hd hc
    match v with
    | 0 => simp [Graph.vert, cexParams] at hd; subst hd; simp at hc
    | v + 1 => simp [Graph.vert, cexParams] at hd

/-- a successful run of the same graph with the input preset before `run` -/
def okSchedule : List Ev :=
  [.envSeal 0 (some 5), .run, .bind, .activate 0, .dactivate 0, .vdec 0 1, .vadd, .procStart 0 [some 5],
   .sealBy 0 0 (mix 0 [some 5] 0), .dsub, .procEnd 0, .vsub, .fireD, .finish 0, .fireV]


end Babylon.Anyflow.Graph
