/-
  Termination of one run of the L2 model (`Babylon.Anyflow.Graph`).

  `TStep` = a step of the model other than `reset`, with the executor hypothesis made explicit on the
  one event the model leaves unconstrained: a vertex closure (`vadd`) is created only for a vertex
  that has been made runnable, one per vertex (the ghost component counts the closures created so
  far) — which is what `GraphVertex::invoke` does.  A measure `M` (unsealed data, unbound targets,
  inactive vertices, not yet activated / not yet counted dependencies, closures still to be created
  and open, processors still to start and running, the phase flags) strictly decreases on every
  `TStep`, so every execution of one run has at most `M init` steps; and a state in which no event
  other than `reset` is enabled is a flushed, finished closure (`GraphStuck`).
-/
import Babylon.Anyflow.GraphLemmas

namespace Babylon.Anyflow.Graph
open Babylon.Core

variable {p : Params} {s s' : State}

def sumR (n : Nat) (f : Nat → Nat) : Nat := ((List.range n).map f).sum

theorem sumR_succ (n : Nat) (f : Nat → Nat) : sumR (n + 1) f = sumR n f + f n := by
  simp [sumR, List.range_succ]

theorem sumR_congr {n : Nat} {f g : Nat → Nat} (h : ∀ u, u < n → g u = f u) : sumR n g = sumR n f := by
  induction n with
  | zero => rfl
  | succ n ih => rw [sumR_succ, sumR_succ, ih (fun u hu => h u (by omega)), h n (by omega)]

/-- lowering one summand by at least `c` (the others unchanged) lowers the sum by at least `c` -/
theorem sumR_upd_dec {n v c : Nat} {f g : Nat → Nat} (hv : v < n) (ho : ∀ u, u < n → u ≠ v → g u = f u)
    (hd : g v + c ≤ f v) : sumR n g + c ≤ sumR n f := by
  induction n with
  | zero => omega
  | succ n ih =>
    rw [sumR_succ, sumR_succ]
    by_cases hvn : v = n
    · subst hvn
      have : sumR v g = sumR v f := sumR_congr (fun u hu => ho u (by omega) (by omega))
      omega
    · have := ih (by omega) (fun u hu hne => ho u (by omega) hne)
      have := ho n (by omega) (fun h => hvn h.symm)
      omega

theorem sumR_pos_exists {n : Nat} {f g : Nat → Nat} (h : sumR n g < sumR n f) : ∃ v, v < n ∧ g v < f v := by
  induction n with
  | zero => simp [sumR] at h
  | succ n ih =>
    rw [sumR_succ, sumR_succ] at h
    by_cases hn : g n < f n
    · exact ⟨n, by omega, hn⟩
    · obtain ⟨v, hv, hlt⟩ := ih (by omega)
      exact ⟨v, by omega, hlt⟩

def b2n (b : Bool) : Nat := if b then 1 else 0

theorem nDeps_eq_zero_of_ge {g : Graph} {v : Nat} (h : ¬ v < g.verts.length) : g.nDeps v = 0 := by
  have : g.verts[v]? = none := List.getElem?_eq_none_iff.mpr (by omega)
  simp [Graph.nDeps, Graph.vert, this]

theorem resolvedCount_le_nDeps (v : Nat) : resolvedCount p s v ≤ p.g.nDeps v := by
  unfold resolvedCount Graph.nDeps
  exact Nat.le_trans List.countP_le_length (by simp [List.length_take]; omega)

/-- the measure; `k` = vertex closures created so far in this run -/
def M (p : Params) (x : State × Nat) : Nat :=
  let s := x.1
  let nV := p.g.verts.length
  2 * sumR p.g.nData (fun d => b2n (!s.sealed d)) + s.pendingD
  + (p.targets.length - s.bindPc)
  + b2n (!s.running) + b2n (!s.firedD) + b2n (!s.firedV) + b2n s.fin.isNone
  + sumR nV (fun v => b2n (!s.vact v))
  + sumR nV (fun v => p.g.nDeps v - s.dactN v)
  + sumR nV (fun v => p.g.nDeps v - s.counted v)
  + 2 * (nV - x.2) + s.opened
  + 2 * sumR nV (fun v => b2n (s.started v == 0)) + s.procs

/-- vertices that have been put on a runnable stack -/
def runnableCount (p : Params) (s : State) : Nat :=
  (List.range p.g.verts.length).countP (fun v => decide (1 ≤ s.runnable v))

theorem runnableCount_le (p : Params) (s : State) : runnableCount p s ≤ p.g.verts.length := by
  unfold runnableCount
  exact Nat.le_trans List.countP_le_length (by simp)

/-- one step of one run: any event but `reset`; a vertex closure is created only for a runnable
vertex that has none yet (executor / `invoke` hypothesis) -/
def TStep (p : Params) (x y : State × Nat) : Prop :=
  ∃ e, stepEvent p x.1 e = some y.1 ∧ e ≠ .reset ∧
    ((e = .vadd ∧ x.2 < runnableCount p x.1 ∧ y.2 = x.2 + 1) ∨ (e ≠ .vadd ∧ y.2 = x.2))

/-- activated vertices exist -/
def InvB (p : Params) (s : State) : Prop := ∀ v, s.vact v = true → v < p.g.verts.length

theorem invB_init : InvB p State.init := by intro v h; simp [State.init] at h

theorem invB_step {e : Ev} (hi : InvB p s) (h : stepEvent p s e = some s') : InvB p s' := by
  cases e with
  | envSeal d x =>
    obtain ⟨_, _, _, h4 | h4⟩ := step_envSeal h
    · rw [h4.2]; exact hi
    · rw [h4.2.2]; exact hi
  | run => rw [(step_run h).2.2]; exact hi
  | bind =>
    obtain ⟨_, _, d, _, h4 | h4⟩ := step_bind h
    · rw [h4.2]; exact hi
    · rw [h4.2.2]; exact hi
  | fireD => rw [(step_fireD h).2.2.2.2]; exact hi
  | fireV => rw [(step_fireV h).2.2.2]; intro v; simp only [vsubCore]; split <;> exact hi v
  | activate v =>
    obtain ⟨_, _, h3, _, h5⟩ := step_activate h
    rw [h5]; intro u hu
    by_cases huv : u = v
    · subst huv; exact h3
    · simp only [upd_other _ _ huv] at hu; exact hi u hu
  | dactivate v => rw [(step_dactivate h).2.2]; exact hi
  | vdec v cnt => rw [(step_vdec h).2.2.2]; exact hi
  | vadd => rw [(step_vadd h).2.2]; exact hi
  | vsub => rw [(step_vsub h).2.2]; intro v; simp only [vsubCore]; split <;> exact hi v
  | procStart v ins => rw [(step_procStart h).2.2.2.2.2]; exact hi
  | procEnd v => rw [(step_procEnd h).2.2.2]; exact hi
  | sealBy v k x =>
    obtain ⟨d, _, _, _, _, _, h6⟩ := step_seal h
    rw [h6]; exact hi
  | dsub => rw [(step_dsub h).2.2]; exact hi
  | finish c => rw [(step_finish h).2.2.2]; exact hi
  | reset => rw [(step_reset h).2.2.2]; exact invB_init

theorem reach_invB (h : Reachable (· = State.init) (Step p) s) : InvB p s := by
  induction h with
  | base hi => rw [hi]; exact invB_init
  | tail _ hst ih => obtain ⟨e, he⟩ := hst; exact invB_step ih he

/-- sealing an unsealed data `d < nData` lowers the measure's data part -/
theorem seal_term {d : Nat} (x : Option Val) (hd : d < p.g.nData) (hs : s.sealed d = false) :
    sumR p.g.nData (fun e => b2n (!(sealData s d x).sealed e)) + 1 ≤ sumR p.g.nData (fun e => b2n (!s.sealed e)) := by
  apply sumR_upd_dec hd
  · intro u _ hne; simp [sealData, upd_other _ _ hne]
  · simp [sealData, upd_same, hs, b2n]

theorem sealData_pending {d : Nat} (x : Option Val) : (sealData s d x).pendingD ≤ s.pendingD + 1 := by
  simp only [sealData]; split <;> omega

/-- **every step of a run strictly decreases the measure** -/
theorem step_decreases (hwf : WF p) (hr : Reachable (· = State.init) (Step p) s) {k k' : Nat}
    (h : TStep p (s, k) (s', k')) : M p (s', k') < M p (s, k) := by
  obtain ⟨e, he, hne, hk⟩ := h
  simp only at he hk
  have hv := reach_invV hr
  have hb := reach_invB hr
  cases e with
  | reset => exact absurd rfl hne
  | vadd =>
    rcases hk with ⟨_, hk1, hk2⟩ | ⟨h1, _⟩
    · obtain ⟨_, _, h3⟩ := step_vadd he
      have := runnableCount_le p s
      subst h3 hk2
      simp only [M]
      omega
    · exact absurd rfl h1
  | run =>
    rcases hk with ⟨h1, _⟩ | ⟨_, hk2⟩
    · cases h1
    · obtain ⟨h1, _, h3⟩ := step_run he
      subst h3 hk2
      simp only [M, h1, b2n]
      simp
  | envSeal d x =>
    rcases hk with ⟨h1, _⟩ | ⟨_, hk2⟩
    · cases h1
    · obtain ⟨h1, _, h3, h4 | h4⟩ := step_envSeal he
      · have t1 := seal_term (p := p) x h3 h1
        have t2 := sealData_pending (s := s) (d := d) x
        rw [h4.2]; subst hk2
        simp only [M] at *
        simp only [sealData] at t1 t2 ⊢
        omega
      · have t1 := seal_term (p := p) x h3 h1
        have t2 := sealData_pending (s := s) (d := d) x
        rw [h4.2.2]; subst hk2
        simp only [M] at *
        simp only [sealData] at t1 t2 ⊢
        omega
  | sealBy v j x =>
    rcases hk with ⟨h1, _⟩ | ⟨_, hk2⟩
    · cases h1
    · obtain ⟨d, hp, h2, _, _, _, h6⟩ := step_seal he
      have t1 := seal_term (p := p) x (hwf.emit_ge v j d hp).2 h2
      have t2 := sealData_pending (s := s) (d := d) x
      rw [h6]; subst hk2
      simp only [M] at *
      simp only [sealData] at t1 t2 ⊢
      omega
  | bind =>
    rcases hk with ⟨h1, _⟩ | ⟨_, hk2⟩
    · cases h1
    · obtain ⟨_, _, d, hd, h4 | h4⟩ := step_bind he
      · have hlt : s.bindPc < p.targets.length := (List.getElem?_eq_some_iff.mp hd).1
        rw [h4.2]; subst hk2; simp only [M]; omega
      · have hlt : s.bindPc < p.targets.length := (List.getElem?_eq_some_iff.mp hd).1
        rw [h4.2.2]; subst hk2; simp only [M]; omega
  | fireD =>
    rcases hk with ⟨h1, _⟩ | ⟨_, hk2⟩
    · cases h1
    · obtain ⟨_, h2, _, _, h5⟩ := step_fireD he
      subst h5 hk2; simp only [M, h2, b2n]; simp
  | fireV =>
    rcases hk with ⟨h1, _⟩ | ⟨_, hk2⟩
    · cases h1
    · obtain ⟨_, h2, _, h4⟩ := step_fireV he
      subst h4 hk2; simp only [M, vsubCore, h2, b2n]
      split <;> simp
  | activate v =>
    rcases hk with ⟨h1, _⟩ | ⟨_, hk2⟩
    · cases h1
    · obtain ⟨_, h2, h3, _, h5⟩ := step_activate he
      have t : sumR p.g.verts.length (fun u => b2n (!upd s.vact v true u)) + 1 ≤ sumR p.g.verts.length (fun u => b2n (!s.vact u)) := by
        apply sumR_upd_dec h3
        · intro u _ hne; simp [upd_other _ _ hne]
        · simp [upd_same, h2, b2n]
      subst h5 hk2; simp only [M] at *; omega
  | dactivate v =>
    rcases hk with ⟨h1, _⟩ | ⟨_, hk2⟩
    · cases h1
    · obtain ⟨_, h2, h3⟩ := step_dactivate he
      have hlt : v < p.g.verts.length := by
        by_cases hlt : v < p.g.verts.length
        · exact hlt
        · rw [nDeps_eq_zero_of_ge hlt] at h2; omega
      have t : sumR p.g.verts.length (fun u => p.g.nDeps u - upd s.dactN v (s.dactN v + 1) u) + 1 ≤
          sumR p.g.verts.length (fun u => p.g.nDeps u - s.dactN u) := by
        apply sumR_upd_dec hlt
        · intro u _ hne; simp [upd_other _ _ hne]
        · simp only [upd_same]; omega
      subst h3 hk2; simp only [M] at *; omega
  | vdec v cnt =>
    rcases hk with ⟨h1, _⟩ | ⟨_, hk2⟩
    · cases h1
    · obtain ⟨_, h2, h3, h4⟩ := step_vdec he
      have hle := resolvedCount_le_nDeps (p := p) (s := s) v
      have hlt : v < p.g.verts.length := by
        by_cases hlt : v < p.g.verts.length
        · exact hlt
        · rw [nDeps_eq_zero_of_ge hlt] at hle; omega
      have t : sumR p.g.verts.length (fun u => p.g.nDeps u - upd s.counted v (s.counted v + cnt) u) + 1 ≤
          sumR p.g.verts.length (fun u => p.g.nDeps u - s.counted u) := by
        apply sumR_upd_dec hlt
        · intro u _ hne; simp [upd_other _ _ hne]
        · simp only [upd_same]; omega
      subst h4 hk2; simp only [M] at *; omega
  | vsub =>
    rcases hk with ⟨h1, _⟩ | ⟨_, hk2⟩
    · cases h1
    · obtain ⟨h1, _, h3⟩ := step_vsub he
      subst h3 hk2; simp only [M, vsubCore]
      split <;> (simp only []; omega)
  | procStart v ins =>
    rcases hk with ⟨h1, _⟩ | ⟨_, hk2⟩
    · cases h1
    · obtain ⟨h1, h2, _, _, _, h6⟩ := step_procStart he
      have hlt : v < p.g.verts.length := hb v (runnable_resolved hv h1).1
      have t : sumR p.g.verts.length (fun u => b2n (upd s.started v 1 u == 0)) + 1 ≤
          sumR p.g.verts.length (fun u => b2n (s.started u == 0)) := by
        apply sumR_upd_dec hlt
        · intro u _ hne; simp [upd_other _ _ hne]
        · simp [upd_same, h2, b2n]
      subst h6 hk2; simp only [M] at *; omega
  | procEnd v =>
    rcases hk with ⟨h1, _⟩ | ⟨_, hk2⟩
    · cases h1
    · obtain ⟨_, _, h3, h4⟩ := step_procEnd he
      subst h4 hk2; simp only [M]; omega
  | dsub =>
    rcases hk with ⟨h1, _⟩ | ⟨_, hk2⟩
    · cases h1
    · obtain ⟨h1, _, h3⟩ := step_dsub he
      subst h3 hk2; simp only [M]; omega
  | finish c =>
    rcases hk with ⟨h1, _⟩ | ⟨_, hk2⟩
    · cases h1
    · obtain ⟨_, h2, _, h4⟩ := step_finish he
      subst h4 hk2; simp only [M, h2, b2n]; simp

theorem TStep.step {x y : State × Nat} (h : TStep p x y) : Step p x.1 y.1 := by
  obtain ⟨e, he, _, _⟩ := h; exact ⟨e, he⟩

/-- executions of one run: `n` consecutive `TStep`s -/
inductive TChain (p : Params) : Nat → State × Nat → State × Nat → Prop
  | nil (x : State × Nat) : TChain p 0 x x
  | cons {n : Nat} {x y z : State × Nat} : TStep p x y → TChain p n y z → TChain p (n + 1) x z

/-- an execution of `n` steps uses up at least `n` units of the measure: no execution of a run is longer than `M` of its first state -/
theorem tchain_bound (hwf : WF p) {n : Nat} {x y : State × Nat} (hr : Reachable (· = State.init) (Step p) x.1)
    (hc : TChain p n x y) : n + M p y ≤ M p x := by
  induction hc with
  | nil x => omega
  | @cons n x y z hst _ ih =>
    have h1 : M p y < M p x := step_decreases (s := x.1) (s' := y.1) (k := x.2) (k' := y.2) hwf hr hst
    have h2 := ih (.tail hr hst.step)
    omega

/-! ### no stuck state -/

/-- processors inside `process` = started and not yet ended -/
def InvP (p : Params) (s : State) : Prop :=
  s.procs + sumR p.g.verts.length (fun v => s.ended v) = sumR p.g.verts.length (fun v => s.started v)

theorem sumR_upd_eq {n v c : Nat} {f g : Nat → Nat} (hv : v < n) (ho : ∀ u, u < n → u ≠ v → g u = f u)
    (hd : g v = f v + c) : sumR n g = sumR n f + c := by
  induction n with
  | zero => omega
  | succ n ih =>
    rw [sumR_succ, sumR_succ]
    by_cases hvn : v = n
    · subst hvn
      have : sumR v g = sumR v f := sumR_congr (fun u hu => ho u (by omega) (by omega))
      omega
    · have := ih (by omega) (fun u hu hne => ho u (by omega) hne)
      have := ho n (by omega) (fun h => hvn h.symm)
      omega

theorem invP_init : InvP p State.init := by
  have h0 : ∀ n, sumR n (fun _ => 0) = 0 := by
    intro n; induction n with
    | zero => rfl
    | succ n ih => rw [sumR_succ, ih]
  simp [InvP, State.init, h0]

theorem invP_step {e : Ev} (hv : InvV p s) (hb : InvB p s) (hi : InvP p s) (h : stepEvent p s e = some s') : InvP p s' := by
  cases e with
  | envSeal d x =>
    obtain ⟨_, _, _, h4 | h4⟩ := step_envSeal h
    · rw [h4.2]; exact hi
    · rw [h4.2.2]; exact hi
  | run => rw [(step_run h).2.2]; exact hi
  | bind =>
    obtain ⟨_, _, d, _, h4 | h4⟩ := step_bind h
    · rw [h4.2]; exact hi
    · rw [h4.2.2]; exact hi
  | fireD => rw [(step_fireD h).2.2.2.2]; exact hi
  | fireV => rw [(step_fireV h).2.2.2]; simp only [InvP, vsubCore]; split <;> exact hi
  | activate v => rw [(step_activate h).2.2.2.2]; exact hi
  | dactivate v => rw [(step_dactivate h).2.2]; exact hi
  | vdec v cnt => rw [(step_vdec h).2.2.2]; exact hi
  | vadd => rw [(step_vadd h).2.2]; exact hi
  | vsub => rw [(step_vsub h).2.2]; simp only [InvP, vsubCore]; split <;> exact hi
  | procStart v ins =>
    obtain ⟨h1, h2, _, _, _, h6⟩ := step_procStart h
    have hlt : v < p.g.verts.length := hb v (runnable_resolved hv h1).1
    have t : sumR p.g.verts.length (fun u => upd s.started v 1 u) = sumR p.g.verts.length (fun u => s.started u) + 1 := by
      apply sumR_upd_eq hlt
      · intro u _ hne; simp [upd_other _ _ hne]
      · simp [upd_same, h2]
    rw [h6]; simp only [InvP] at *; omega
  | procEnd v =>
    obtain ⟨h1, h2, h3, h4⟩ := step_procEnd h
    have hlt : v < p.g.verts.length := by
      have := hv.started_le v
      exact hb v (runnable_resolved hv (by omega)).1
    have t : sumR p.g.verts.length (fun u => upd s.ended v 1 u) = sumR p.g.verts.length (fun u => s.ended u) + 1 := by
      apply sumR_upd_eq hlt
      · intro u _ hne; simp [upd_other _ _ hne]
      · simp [upd_same, h2]
    rw [h4]; simp only [InvP] at *; omega
  | sealBy v k x =>
    obtain ⟨d, _, _, _, _, _, h6⟩ := step_seal h
    rw [h6]; exact hi
  | dsub => rw [(step_dsub h).2.2]; exact hi
  | finish c => rw [(step_finish h).2.2.2]; exact hi
  | reset => rw [(step_reset h).2.2.2]; exact invP_init

theorem reach_invP (h : Reachable (· = State.init) (Step p) s) : InvP p s := by
  induction h with
  | base hi => rw [hi]; exact invP_init
  | tail hprev hst ih => obtain ⟨e, he⟩ := hst; exact invP_step (reach_invV hprev) (reach_invB hprev) ih he

/-- **no stuck state**: if no event other than `reset` is enabled (and no emitter unknown to the closure
interfered), the run is over — fired, flushed, no vertex closure open, no processor running — and the
closure is finished; finished with 0 means every target is ready with its `evalSeq` value -/
theorem graph_stuck (hwf : WF p) (hr : Reachable (· = State.init) (Step p) s) (hl : s.lateEnv = false)
    (hstuck : ∀ e, e ≠ Ev.reset → stepEvent p s e = none) :
    s.running = true ∧ s.firedV = true ∧ s.flushed = 1 ∧ s.wvn = 0 ∧ s.opened = 0 ∧ s.procs = 0 ∧ s.fin ≠ none ∧
    (s.fin = some 0 → ∀ t ∈ p.targets, s.sealed t = true ∧ s.val t = evalSeq p t) := by
  have hrun : s.running = true := by
    by_cases hrun : s.running = true
    · exact hrun
    · exfalso
      have hrf : s.running = false := by simpa using hrun
      have h1 := hstuck .run (by intro h; cases h)
      simp only [stepEvent, hrf, Bool.false_eq_true, if_false] at h1
      split at h1
      · cases h1
      · rename_i hall
        simp only [List.all_eq_true, List.mem_range, Bool.or_eq_true, Option.isNone_iff_eq_none] at hall
        have hex : ∃ d, d < p.g.nData ∧ ¬ ((p.g.producer d = none ∨ p.inp d = none) ∨ s.sealed d = true) := by
          apply Classical.byContradiction
          intro hcon
          apply hall
          intro d hd
          apply Classical.byContradiction
          intro hx
          exact hcon ⟨d, hd, hx⟩
        obtain ⟨d, hd, hnot⟩ := hex
        simp only [not_or] at hnot
        obtain ⟨⟨_, hinp⟩, hsd⟩ := hnot
        cases hx : p.inp d with
        | none => exact hinp hx
        | some x =>
          have h2 := hstuck (.envSeal d x) (by intro h; cases h)
          have hsd' : s.sealed d = false := by simpa using hsd
          simp [stepEvent, hsd', hx, hd, hrf] at h2
  have hv := reach_invV hr
  have hb := reach_invB hr
  have hp : s.procs = 0 := by
    by_cases hp : s.procs = 0
    · exact hp
    · exfalso
      have hi := reach_invP hr
      have hlt : sumR p.g.verts.length (fun v => s.ended v) < sumR p.g.verts.length (fun v => s.started v) := by
        simp only [InvP] at hi; omega
      obtain ⟨v, hvl, hlt⟩ := sumR_pos_exists hlt
      have h1 := hv.started_le v
      have h2 : s.runnable v ≤ 1 := by rw [hv.runnable_eq v]; split <;> omega
      have h3 := hstuck (.procEnd v) (by intro h; cases h)
      have hs1 : s.started v = 1 := by omega
      have he0 : s.ended v = 0 := by omega
      have hp' : s.procs > 0 := by omega
      simp [stepEvent, hs1, he0, hp'] at h3
  obtain ⟨hprog1, hprog2⟩ := closure_progress p hwf s hr hrun hl hp
  obtain ⟨_, hcf⟩ := closure_finish_flush p s hr
  obtain ⟨_, _, hle, hfl, _⟩ := hcf hl
  have hf1 : s.flushed = 1 := by
    by_cases hf0 : s.flushed = 0
    · exfalso
      obtain ⟨e, he, hsome⟩ := hprog1 hf0
      have hne : e ≠ Ev.reset := by rcases he with rfl | rfl | rfl | rfl <;> (intro h; cases h)
      rw [hstuck e hne] at hsome; cases hsome
    · omega
  obtain ⟨h1, h2, h3, _⟩ := hfl hf1
  have hfin : s.fin ≠ none := by
    intro hfin
    have := hprog2 hf1 hfin
    rw [hstuck (.finish (-1)) (by intro h; cases h)] at this; cases this
  exact ⟨hrun, h1, hf1, h2, h3, hp, hfin, (graph_eq_sequential p hwf s hr).2⟩

/-! ### concrete executions (non-vacuity) -/

def Ev.isVadd : Ev → Bool | .vadd => true | _ => false
def Ev.isReset : Ev → Bool | .reset => true | _ => false

/-- run a list of events as `TStep`s (checks the executor hypothesis on `vadd`) -/
def runT (p : Params) : State × Nat → List Ev → Option (State × Nat)
  | x, [] => some x
  | x, e :: es =>
    if e.isReset then none else
    match stepEvent p x.1 e with
    | none => none
    | some s' =>
      if e.isVadd then (if x.2 < runnableCount p x.1 then runT p (s', x.2 + 1) es else none)
      else runT p (s', x.2) es

theorem runT_chain {x y : State × Nat} {es : List Ev} (h : runT p x es = some y) : TChain p es.length x y := by
  induction es generalizing x with
  | nil => simp [runT] at h; subst h; exact .nil _
  | cons e es ih =>
    simp only [runT] at h
    split at h
    · cases h
    · rename_i hres
      split at h
      · cases h
      · rename_i s1 hst
        have hne : e ≠ Ev.reset := by intro he; subst he; simp [Ev.isReset] at hres
        split at h
        · rename_i hva
          split at h
          · rename_i hk
            have hev : e = Ev.vadd := by cases e <;> simp [Ev.isVadd] at hva; rfl
            exact TChain.cons (y := (s1, x.2 + 1)) ⟨e, hst, hne, Or.inl ⟨hev, hk, rfl⟩⟩ (ih h)
          · cases h
        · rename_i hva
          have hev : e ≠ Ev.vadd := by intro he; subst he; simp [Ev.isVadd] at hva
          exact TChain.cons (y := (s1, x.2)) ⟨e, hst, hne, Or.inr ⟨hev, rfl⟩⟩ (ih h)

end Babylon.Anyflow.Graph
