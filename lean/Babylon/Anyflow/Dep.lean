/-
  L1 — ONE `GraphDependency` (src/babylon/anyflow/dependency.{h,hpp,cpp}) at atomic granularity.

  The counter `_waiting_num` of one dependency is driven by three actors whose atomic sub-steps
  interleave freely; each actor may or may not occur (an actor that never takes its first step):

    A    `GraphDependency::activate`: `fetch_add(+1 | +2)` then the `switch` on the new value
    C    the condition data becomes ready: `GraphData::release` seals `_closure` (relaxed load +
         weak CAS), then `GraphDependency::ready(condition)`: `fetch_sub`, `check_established`,
         `recursive_activate(target)` when the new value is 1, or the second `fetch_sub`
    T    the target data becomes ready: seal, then `GraphDependency::ready(target)`: `fetch_sub`

  One model step = one atomic operation on one of the locations `dep.wn` (`_waiting_num`),
  `C.closure`, `T.closure` (`GraphData::_closure` of condition / target) and `V.wn` (the source
  vertex's `_waiting_num`, i.e. `GraphVertex::ready` / the batch subtraction of
  `GraphVertex::activate`), followed by the thread-local code up to the next such operation.
  The plain (non-atomic) code that follows a counter RMW — `check_established()`, the stores to
  `_established` / `_ready`, the `switch` — is a SEPARATE step (`sw`, `est1`, `chk`, `aft`; label
  `ev plain`): other actors may run between the RMW and the flag store, exactly the window in
  which a thread that sees the counter at its terminal value can still see a stale `_established`.
  (The harness registers the two flags as `vrt_payload` with `vrt_payload_sched(1)`, so VRT
  deschedules threads there.)  Plain accesses that follow an atomic *load* (`_ready = _target->ready()`,
  `GraphData::_active` in `trigger`) stay folded into that load's step.  Reading the condition's
  value before the condition is sealed sets the ghost flag `bad`.

  The configuration is finite: `hasCond`, and `b` = "the condition's value (empty ⇒ false) equals
  `_establish_value`".  The same `step` function serves (a) the exhaustive proof
  `dep_protocol_exhaustive` (certified closed set, `Babylon/Anyflow/DepLemmas.lean`) and (b) the
  lock-step replay of the real code under VRT (`Drivers/C05.lean`, mode `dep`).
  The increments, decrements and terminal values come from `Babylon.Gen.Anyflow`.
  Core Lean only.
-/
import Babylon.Gen.Anyflow
import Babylon.Core.Trace

namespace Babylon.Anyflow.Dep
open Babylon.Core Babylon.Gen.Anyflow

structure Cfg where
  hasCond : Bool
  b : Bool
  deriving DecidableEq, Repr, Inhabited

inductive Actor | A | C | T
  deriving DecidableEq, Repr, Inhabited

/-- program counter of `A` (the thread running `GraphVertex::activate` → `GraphDependency::activate`) -/
inductive APc
  | idle        -- `_waiting_num.fetch_add(inc)` not done yet
  | sw (n : Nat) -- plain code after the `fetch_add` that produced `n - 3`: the `switch`, `check_established` / `_established = true`
  | ldT0        -- case 0, established: `_ready = _target->ready()`  (acquire load of T.closure)
  | fin         -- `activate` returned 1: the vertex's batch `fetch_sub(finished)`
  | ldC1        -- case 1 with a condition: `_condition->ready()`
  | est1        -- case 1, condition ready: `check_established()` (plain), then `_target->trigger`
  | trigC       -- `_condition->trigger`: `ready()` inside `trigger` (first activation of the data)
  | trigT       -- `_target->trigger`
  | inv         -- the vertex became runnable in this thread: `invoke` → processor
  | done
  deriving DecidableEq, Repr, Inhabited

inductive CPc
  | idle        -- `release`: `_closure.load(relaxed)`
  | cas         -- `_closure.compare_exchange_weak(closure, SEALED)`
  | sub1        -- `ready(condition)`: first `fetch_sub`
  | chk (n : Nat) -- plain code after the first `fetch_sub` that produced `n - 3`: `check_established()` and the branch
  | aft (n : Nat) -- plain code after the second `fetch_sub`: the terminal test reading `established()`
  | actT        -- established and new value 1: `recursive_activate(target)` → `trigger` → `ready()`
  | sub2        -- not established and new value ≠ 0: second `fetch_sub`
  | rdyLd       -- new value 0: `_ready = established() && _target->ready()`
  | notify      -- `_source->ready(this)`: `GraphVertex::_waiting_num.fetch_sub(1) == 1`
  | inv
  | done
  deriving DecidableEq, Repr, Inhabited

inductive TPc
  | idle | cas | sub
  | chk         -- plain code after a `fetch_sub` that produced 0: `_ready = check_established()`
  | notify | inv | done
  deriving DecidableEq, Repr, Inhabited

/-- `cnt` is `_waiting_num + 3` and `vwn` is the vertex's `_waiting_num + 2` (so that the model can
leave the intended ranges and the theorem has something to exclude). -/
structure State where
  cfg : Cfg
  cnt : Nat
  vwn : Nat
  condSealed : Bool
  tgtSealed : Bool
  cActive : Bool            -- `GraphData::_active` of the condition
  tActive : Bool
  est : Bool                -- `_established`
  rdy : Bool                -- `_ready`
  a : APc
  c : CPc
  t : TPc
  notified : Nat            -- `_source->ready(this)` calls (notifySource)
  finA : Nat                -- `activate` returned 1 (finishedAtActivate)
  trigC : Nat               -- `_condition->trigger` calls
  trigT : Nat               -- `_target->trigger` calls by `activate`
  actT : Nat                -- `_target->recursive_activate` calls by `ready(condition)`
  runnable : Nat            -- times the vertex was put on a runnable stack
  invoked : Nat
  bad : Bool                -- default branch of the switch, or the condition's value read before it is sealed
  deriving DecidableEq, Repr, Inhabited

def State.init (c : Cfg) : State :=
  { cfg := c, cnt := 3, vwn := 3, condSealed := false, tgtSealed := false, cActive := false, tActive := false,
    est := false, rdy := false, a := .idle, c := .idle, t := .idle, notified := 0, finA := 0, trigC := 0,
    trigT := 0, actT := 0, runnable := 0, invoked := 0, bad := false }

def State.cntI (s : State) : Int := (s.cnt : Int) - 3
def State.vwnI (s : State) : Int := (s.vwn : Int) - 2

def u64 (i : Int) : Nat := (i % 18446744073709551616).toNat
def closureVal (sealed : Bool) : Nat := if sealed then sealedClosure else 0

/-- `check_established()`: returns the new state (`_established` possibly set, `bad` if the
condition's value is read while unsealed) and the result. -/
def checkEst (s : State) : State × Bool :=
  if !s.cfg.hasCond then ({ s with est := true }, true)
  else
    let s := if s.condSealed then s else { s with bad := true }
    if s.cfg.b then ({ s with est := true }, true) else (s, s.est)

/-- `_target->trigger(stack)` by `activate`; `k` = continuation pc when no atomic load happens -/
def aTriggerT (s : State) : State :=
  let s := { s with trigT := s.trigT + 1 }
  if s.tActive then { s with a := .done } else { s with tActive := true, a := .trigT }

def aTriggerC (s : State) : State :=
  let s := { s with trigC := s.trigC + 1 }
  if s.cActive then { s with a := .done } else { s with cActive := true, a := .trigC }

/-- the `switch (waiting_num)` of `GraphDependency::activate`, up to its next atomic operation -/
def aSwitch (s : State) (new : Int) : State :=
  if new = -1 then { s with a := .fin }
  else if new = 0 then
    let (s, e) := checkEst s
    if e then { s with a := .ldT0 } else { s with a := .fin }
  else if new = 1 then
    if !s.cfg.hasCond then aTriggerT { s with est := true }
    else { s with a := .ldC1 }
  else if new = 2 then aTriggerC s
  else { s with bad := true, a := .done }

/-- `ready()` after the (last) `fetch_sub`: the terminal test `waiting_num == 0` for the condition actor -/
def cAfterSub (s : State) (new : Int) : State :=
  if new = readyNotifyAt then
    if s.est then { s with c := .rdyLd } else { s with rdy := false, c := .notify }
  else { s with c := .done }

/-- the vertex counter decrement shared by `finishedAtActivate` (batch of 1) and `notifySource` -/
def vSub (s : State) : State × Bool :=
  ({ s with vwn := s.vwn - 1 }, s.vwnI = (vertexReadyOldAt : Int))

/-- `_waiting_num.fetch_sub(k)`; leaving the representable range (below -3) raises `bad` -/
def decCnt (s : State) (k : Nat) : State :=
  if s.cnt < k then { s with bad := true } else { s with cnt := s.cnt - k }

def ordAR : Ord := .acqrel
/-- label of a step that performs only plain (non-atomic) accesses: nothing appears in the trace -/
def plainAct : Act := .ev ["plain"]

/-- One atomic action of actor `x`.  `sp`: a weak CAS that would succeed fails spuriously. -/
def step (s : State) (x : Actor) (sp : Bool) : Option (State × Act) :=
  match x with
  | .A =>
    match s.a with
    | .idle =>
      let inc := if s.cfg.hasCond then incCond else incNoCond
      some ({ s with cnt := s.cnt + inc, a := .sw (s.cnt + inc) }, .rmw "add" "dep.wn" 0 ordAR (u64 s.cntI) inc)
    | .sw n => some (aSwitch s ((n : Int) - 3), plainAct)
    | .ldT0 => some ({ s with rdy := s.tgtSealed, a := .fin }, .ld "T.closure" 0 .acq (closureVal s.tgtSealed))
    | .fin =>
      let (s', hit) := vSub s
      let s' := { s' with finA := s'.finA + 1 }
      some (if hit then { s' with runnable := s'.runnable + 1, a := .inv } else { s' with a := .done },
            .rmw "sub" "V.wn" 0 ordAR (u64 s.vwnI) 1)
    | .ldC1 =>
      let l := Act.ld "C.closure" 0 .acq (closureVal s.condSealed)
      if !s.condSealed then some (aTriggerC s, l) else some ({ s with a := .est1 }, l)
    | .est1 =>
      let (s', e) := checkEst s
      some (if e then aTriggerT s' else { s' with a := .done }, plainAct)
    | .trigC => some ({ s with a := .done }, .ld "C.closure" 0 .acq (closureVal s.condSealed))
    | .trigT => some ({ s with a := .done }, .ld "T.closure" 0 .acq (closureVal s.tgtSealed))
    | .inv => some ({ s with invoked := s.invoked + 1, a := .done }, .ev ["process", toString s.rdy.toNat])
    | .done => none
  | .C =>
    if !s.cfg.hasCond then none else
    match s.c with
    | .idle => some ({ s with c := .cas }, .ld "C.closure" 0 .rlx (closureVal s.condSealed))
    | .cas =>
      if sp then some (s, .cas "C.closure" 0 true .acqrel .acq 0 sealedClosure false 0)
      else some ({ s with condSealed := true, c := .sub1 }, .cas "C.closure" 0 true .acqrel .acq 0 sealedClosure true 0)
    | .sub1 =>
      let s' := decCnt s readyDec
      some ({ s' with c := .chk s'.cnt }, .rmw "sub" "dep.wn" 0 ordAR (u64 s.cntI) readyDec)
    | .chk n =>
      let new : Int := (n : Int) - 3
      let (s, e) := checkEst s
      if e then
        if new = readyActivateTargetAt then
          let s := { s with actT := s.actT + 1 }
          some (if s.tActive then { s with c := .done } else { s with tActive := true, c := .actT }, plainAct)
        else some (cAfterSub s new, plainAct)
      else if new ≠ readySecondSubUnless then some ({ s with c := .sub2 }, plainAct)
      else some (cAfterSub s new, plainAct)
    | .actT => some ({ s with c := .done }, .ld "T.closure" 0 .acq (closureVal s.tgtSealed))
    | .sub2 =>
      let s' := decCnt s readyDec2
      some ({ s' with c := .aft s'.cnt }, .rmw "sub" "dep.wn" 0 ordAR (u64 s.cntI) readyDec2)
    | .aft n => some (cAfterSub s ((n : Int) - 3), plainAct)
    | .rdyLd => some ({ s with rdy := s.tgtSealed, c := .notify }, .ld "T.closure" 0 .acq (closureVal s.tgtSealed))
    | .notify =>
      let (s', hit) := vSub s
      let s' := { s' with notified := s'.notified + 1 }
      some (if hit then { s' with runnable := s'.runnable + 1, c := .inv } else { s' with c := .done },
            .rmw "sub" "V.wn" 0 ordAR (u64 s.vwnI) 1)
    | .inv => some ({ s with invoked := s.invoked + 1, c := .done }, .ev ["process", toString s.rdy.toNat])
    | .done => none
  | .T =>
    match s.t with
    | .idle => some ({ s with t := .cas }, .ld "T.closure" 0 .rlx (closureVal s.tgtSealed))
    | .cas =>
      if sp then some (s, .cas "T.closure" 0 true .acqrel .acq 0 sealedClosure false 0)
      else some ({ s with tgtSealed := true, t := .sub }, .cas "T.closure" 0 true .acqrel .acq 0 sealedClosure true 0)
    | .sub =>
      let new := s.cntI - readyDec
      let l := Act.rmw "sub" "dep.wn" 0 ordAR (u64 s.cntI) readyDec
      let s := decCnt s readyDec
      if new = readyNotifyAt then some ({ s with t := .chk }, l) else some ({ s with t := .done }, l)
    | .chk =>
      let (s, e) := checkEst s
      some ({ s with rdy := e, t := .notify }, plainAct)
    | .notify =>
      let (s', hit) := vSub s
      let s' := { s' with notified := s'.notified + 1 }
      some (if hit then { s' with runnable := s'.runnable + 1, t := .inv } else { s' with t := .done },
            .rmw "sub" "V.wn" 0 ordAR (u64 s.vwnI) 1)
    | .inv => some ({ s with invoked := s.invoked + 1, t := .done }, .ev ["process", toString s.rdy.toNat])
    | .done => none

/-- all successor states (spurious CAS failures are self-loops and are omitted) -/
def succs (s : State) : List State :=
  [Actor.A, Actor.C, Actor.T].filterMap (fun x => (step s x false).map (·.1))

def inits : List State :=
  [State.init ⟨false, false⟩, State.init ⟨true, false⟩, State.init ⟨true, true⟩]

/-- the transition relation of the protocol: any actor performs its next atomic action -/
inductive Step : State → State → Prop
  | act (s : State) (x : Actor) (sp : Bool) (s' : State) (l : Act) : step s x sp = some (s', l) → Step s s'

/-- "the condition's value makes the dependency established" -/
def State.estTrue (s : State) : Bool := !s.cfg.hasCond || s.cfg.b
/-- the condition is resolved (absent, or sealed) -/
def State.condOK (s : State) : Bool := !s.cfg.hasCond || s.condSealed

/-- everything `dep_protocol_exhaustive` claims about a reachable state -/
def good (s : State) : Bool :=
  -- the counter stays in [-3, 2]; the vertex counter never goes below 0; no illegal read / branch
  s.cnt ≤ 5 && !s.bad && s.vwn ≥ 2 && s.vwn + s.notified + s.finA == 3 &&
  -- exactly-once: at most one of notifySource / finishedAtActivate, never both, never twice
  s.notified + s.finA ≤ 1 &&
  -- only after A's fetch_add, and only when condition ready ∧ (¬established ∨ target ready)
  (s.notified + s.finA == 0 || (s.a != .idle && s.condOK && (!s.estTrue || s.tgtSealed))) &&
  -- `_ready` is final and correct once the source has been told: ready ⇔ established (∧ target ready)
  (s.notified + s.finA == 0 || s.rdy == s.estTrue) &&
  (!s.rdy || (s.est && s.tgtSealed)) && (!s.est || (s.estTrue && s.condOK)) &&
  -- the target is demanded at most once, and only by an activated, established dependency
  s.trigT + s.actT ≤ 1 && (s.trigT + s.actT == 0 || (s.a != .idle && s.estTrue && s.condOK)) &&
  s.trigC ≤ 1 && (s.trigC == 0 || (s.a != .idle && s.cfg.hasCond)) &&
  -- the vertex is made runnable / invoked at most once, and only after the notification
  s.runnable ≤ 1 && s.invoked ≤ s.runnable && s.runnable ≤ s.notified + s.finA &&
  -- nothing is lost: when everybody who started has finished and the dependency is resolvable,
  -- the source has been told (and has run); an unresolved dependency has demanded what it waits for
  (!(s.a == .done && (s.c == .idle || s.c == .done) && (s.t == .idle || s.t == .done)) ||
     ((!(s.cfg.hasCond && s.c == .idle) || s.trigC == 1) &&
      (!((!s.cfg.hasCond || s.c == .done) && s.estTrue && s.t == .idle) || s.trigT + s.actT == 1) &&
      (!((!s.cfg.hasCond || s.c == .done) && (!s.estTrue || s.t == .done)) ||
         (s.notified + s.finA == 1 && s.invoked == 1))))

/-- breadth-first enumeration with fuel (used to *compute* the certificate; its result is then
checked by `closedB`, so the function itself is not trusted) -/
def bfs : Nat → List State → List State → List State
  | 0, seen, _ => seen
  | _ + 1, seen, [] => seen
  | n + 1, seen, s :: todo =>
    let new := (succs s).filter (fun t => !seen.contains t && !todo.contains t)
    let new := new.eraseDups
    bfs n (seen ++ new) (todo ++ new)

/-- skeletons this model was written against (compared with the generated ones in Properties/C05) -/
def Skel.activate : List Site := [.rmw "fetch_add" "_waiting_num" .acqrel]
def Skel.ready : List Site := [
  .rmw "fetch_sub" "_waiting_num" .acqrel,
  .call "check_established",
  .call "closure()->finish",
  .call "recursive_activate",
  .call "closure()->finish",
  .rmw "fetch_sub" "_waiting_num" .acqrel,
  .call "check_established",
  .call "_target->ready",
  .call "_source->ready"]
def Skel.case0 : List Site := [
  .call "check_established", .call "acquire_immutable_depend", .call "acquire_mutable_depend", .call "_target->ready"]
def Skel.case1 : List Site := [
  .call "acquire_immutable_depend", .call "acquire_mutable_depend", .call "_target->trigger",
  .call "_condition->ready", .call "_condition->trigger", .call "check_established",
  .call "acquire_immutable_depend", .call "acquire_mutable_depend", .call "_target->trigger"]
def Skel.case2 : List Site := [.call "_condition->trigger"]
def Skel.release : List Site := [
  .load "_closure" .rlx,
  .cas "_closure" false .acqrel .acq,
  .call "depend_data_sub",
  .call "successor->ready",
  .call "successor->ready",
  .call "vertex->invoke"]

end Babylon.Anyflow.Dep
