/-
  Facts about the reference semantics `evalSeq` (sequential evaluation in topological order):
  under `WF` it is the unique solution of the equations
      evalSeq d = x                                  if the environment provides `x` for `d`
      evalSeq d = vertexOut proc evalSeq v (vert v) k   if `v` emits `d` as its `k`-th output (and the
                                                     environment does not provide `d`).
-/
import Babylon.Anyflow.Graph

namespace Babylon.Anyflow.Graph

theorem idxIn_some {d : Nat} : ∀ {l : List Nat} {k : Nat}, idxIn d l = some k → l[k]? = some d
  | [], _, h => by simp [idxIn] at h
  | x :: xs, k, h => by
    simp only [idxIn] at h
    by_cases hx : x = d
    · simp [hx] at h; subst h; simp [hx]
    · simp only [hx, if_false, Option.map_eq_some_iff] at h
      obtain ⟨j, hj, rfl⟩ := h
      simpa using idxIn_some hj

theorem idxIn_none {d : Nat} : ∀ {l : List Nat}, idxIn d l = none → d ∉ l
  | [], _ => by simp
  | x :: xs, h => by
    simp only [idxIn] at h
    by_cases hx : x = d
    · simp [hx] at h
    · simp only [hx, if_false, Option.map_eq_none_iff] at h
      have := idxIn_none h
      simp [this, Ne.symm hx]

theorem producerFrom_some {d : Nat} : ∀ {vs : List VertexSpec} {i v k : Nat},
    producerFrom d i vs = some (v, k) → ∃ j, v = i + j ∧ ∃ x, vs[j]? = some x ∧ x.emits[k]? = some d
  | [], _, _, _, h => by simp [producerFrom] at h
  | x :: xs, i, v, k, h => by
    simp only [producerFrom] at h
    cases hx : idxIn d x.emits with
    | some k' =>
      simp only [hx, Option.some.injEq, Prod.mk.injEq] at h
      obtain ⟨rfl, rfl⟩ := h
      exact ⟨0, rfl, x, by simp, idxIn_some hx⟩
    | none =>
      simp only [hx] at h
      obtain ⟨j, hj, y, hy, hk⟩ := producerFrom_some h
      exact ⟨j + 1, by omega, y, by simpa using hy, hk⟩

theorem producerFrom_none {d : Nat} : ∀ {vs : List VertexSpec} {i : Nat},
    producerFrom d i vs = none → ∀ x ∈ vs, d ∉ x.emits
  | [], _, _ => by simp
  | x :: xs, i, h => by
    simp only [producerFrom] at h
    cases hx : idxIn d x.emits with
    | some k' => simp [hx] at h
    | none =>
      simp only [hx] at h
      intro y hy
      rcases List.mem_cons.mp hy with rfl | hy
      · exact idxIn_none hx
      · exact producerFrom_none h y hy

theorem vert_of_getElem? {g : Graph} {v : Nat} {x : VertexSpec} (h : g.verts[v]? = some x) : g.vert v = x := by
  simp [Graph.vert, h]

/-- under unique producers `producer` finds *the* producer -/
theorem producer_eq {p : Params} (hwf : WF p) {v k d : Nat} (h : p.g.Produces v k d) :
    p.g.producer d = some (v, k) := by
  cases hp : p.g.producer d with
  | none =>
    exfalso
    have hn := producerFrom_none hp
    unfold Graph.Produces at h
    cases hv : p.g.verts[v]? with
    | none => simp [Graph.vert, hv] at h
    | some x =>
      rw [vert_of_getElem? hv] at h
      exact hn x (List.mem_of_getElem? hv) (List.mem_of_getElem? h)
  | some r =>
    obtain ⟨v', k'⟩ := r
    obtain ⟨j, hj, x, hx, hk⟩ := producerFrom_some hp
    have hv' : v' = j := by omega
    subst hv'
    have : p.g.Produces v' k' d := by unfold Graph.Produces; rw [vert_of_getElem? hx]; exact hk
    obtain ⟨rfl, rfl⟩ := hwf.unique _ _ _ _ _ this h
    rfl

theorem refUpTo_succ_ne (p : Params) {n d : Nat} (h : d ≠ n) : refUpTo p (n + 1) d = refUpTo p n d := by
  simp only [refUpTo, h, if_false]

theorem refUpTo_ge (p : Params) : ∀ n d, n ≤ d → refUpTo p n d = none
  | 0, _, _ => rfl
  | n + 1, d, h => by
    rw [refUpTo_succ_ne p (by omega)]
    exact refUpTo_ge p n d (by omega)

theorem refUpTo_stable (p : Params) (d : Nat) : ∀ m, d + 1 ≤ m → refUpTo p m d = refUpTo p (d + 1) d
  | 0, h => by omega
  | m + 1, h => by
    by_cases hm : m = d
    · subst hm; rfl
    · rw [refUpTo_succ_ne p (fun h => hm h.symm)]
      exact refUpTo_stable p d m (by omega)

theorem evalSeq_eq (p : Params) {d : Nat} (hd : d < p.g.nData) : evalSeq p d = refUpTo p (d + 1) d :=
  refUpTo_stable p d _ hd

theorem refUpTo_lt_eq_evalSeq (p : Params) {n c : Nat} (hc : c < n) (hn : n ≤ p.g.nData) :
    refUpTo p n c = evalSeq p c := by
  rw [evalSeq_eq p (by omega), refUpTo_stable p c n (by omega)]

/-- the environment's value is the reference value -/
theorem evalSeq_inp (p : Params) {d : Nat} {x : Option Val} (hd : d < p.g.nData) (h : p.inp d = some x) :
    evalSeq p d = x := by
  rw [evalSeq_eq p hd]
  simp [refUpTo, h]

/-- two valuations that agree on everything a vertex looks at give the same output -/
theorem input_congr {val val' : Valn} {dep : DepSpec}
    (ht : val dep.target = val' dep.target) (hc : ∀ c ev, dep.cond = some (c, ev) → val c = val' c) :
    dep.est val = dep.est val' ∧ dep.input val = dep.input val' := by
  have he : dep.est val = dep.est val' := by
    unfold DepSpec.est
    cases hcond : dep.cond with
    | none => rfl
    | some ce => obtain ⟨c, ev⟩ := ce; simp [hc c ev hcond]
  exact ⟨he, by unfold DepSpec.input; rw [he, ht]⟩

theorem any_congr {α : Type} {f g : α → Bool} : ∀ {l : List α}, (∀ x ∈ l, f x = g x) → l.any f = l.any g
  | [], _ => rfl
  | x :: xs, h => by
    simp only [List.any_cons]
    rw [h x (by simp), any_congr (fun y hy => h y (by simp [hy]))]

theorem vertexOut_congr (proc : Proc) {val val' : Valn} (vid : Nat) (vs : VertexSpec) (k : Nat)
    (h : ∀ dep ∈ vs.deps, dep.input val = dep.input val') :
    vertexOut proc val vid vs k = vertexOut proc val' vid vs k := by
  have hi : vs.inputs val = vs.inputs val' := by
    unfold VertexSpec.inputs
    exact List.map_congr_left h
  have he : vs.essFail val = vs.essFail val' := by
    unfold VertexSpec.essFail
    exact any_congr (fun d hd => by rw [h d hd])
  unfold vertexOut
  rw [hi, he]

/-- the producer's output, computed from the reference values, is the reference value -/
theorem evalSeq_produced (p : Params) (hwf : WF p) {v k d : Nat} (h : p.g.Produces v k d) (hi : p.inp d = none) :
    evalSeq p d = vertexOut p.proc (evalSeq p) v (p.g.vert v) k := by
  have hd := (hwf.emit_ge v k d h).2
  rw [evalSeq_eq p hd]
  have : refUpTo p (d + 1) d = vertexOut p.proc (refUpTo p d) v (p.g.vert v) k := by
    simp [refUpTo, hi, producer_eq hwf h]
  rw [this]
  apply vertexOut_congr
  intro dep hdep
  obtain ⟨ht, hc⟩ := hwf.topo v k d dep h hdep
  exact (input_congr (refUpTo_lt_eq_evalSeq p ht (by omega))
    (fun c ev hce => refUpTo_lt_eq_evalSeq p (hc c ev hce) (by omega))).2

end Babylon.Anyflow.Graph
