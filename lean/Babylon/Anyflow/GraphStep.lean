/-
  Inversion lemmas for `stepEvent`: what an accepted event says about the pre-state and what the
  post-state is.  Everything else about the L2 model is proved from these.
-/
import Babylon.Anyflow.Graph

namespace Babylon.Anyflow.Graph

variable {p : Params} {s s' : State}

theorem step_envSeal {d : Nat} {x : Option Val} (h : stepEvent p s (.envSeal d x) = some s') :
    s.sealed d = false ∧ (p.inp d = some x ∨ (x = none ∧ s.fin.isSome = true ∧ s.running = true)) ∧ d < p.g.nData ∧
    ((s.running = false ∧ s' = sealData s d x) ∨
     (s.running = true ∧ p.g.producer d = none ∧ s' = { sealData s d x with lateEnv := true })) := by
  simp only [stepEvent] at h
  split at h
  · cases h
  · rename_i hc
    simp only [Bool.or_eq_true, Bool.not_eq_true', not_or, Bool.not_eq_true, decide_eq_false_iff_not,
      Decidable.not_not, Bool.not_eq_false, beq_iff_eq, Bool.and_eq_true, Option.isNone_iff_eq_none] at hc
    obtain ⟨⟨h1, h2⟩, h3⟩ := hc
    have h2 : p.inp d = some x ∨ (x = none ∧ s.fin.isSome = true ∧ s.running = true) := by
      rcases h2 with h2 | ⟨⟨a, b⟩, c⟩
      · exact Or.inl h2
      · exact Or.inr ⟨a, b, c⟩
    refine ⟨h1, h2, h3, ?_⟩
    split at h
    · rename_i hr
      left; exact ⟨by simpa using hr, by simpa using h.symm⟩
    · rename_i hr
      split at h
      · rename_i hn
        right; exact ⟨by simpa using hr, by simpa using hn, by simpa using h.symm⟩
      · cases h

theorem step_run (h : stepEvent p s .run = some s') :
    s.running = false ∧ (∀ d, d < p.g.nData → p.g.producer d ≠ none → p.inp d ≠ none → s.sealed d = true) ∧
    s' = { s with running := true } := by
  simp only [stepEvent] at h
  split at h
  · cases h
  · rename_i hr
    split at h
    · rename_i ha
      refine ⟨by simpa using hr, ?_, by simpa using h.symm⟩
      intro d hd hin hne
      have := (List.all_eq_true.mp ha) d (List.mem_range.mpr hd)
      simp only [Bool.or_eq_true, decide_eq_true_eq, Option.isNone_iff_eq_none] at this
      rcases this with (h1 | h1) | h1
      · exact absurd (by simpa using h1) hin
      · exact absurd h1 hne
      · exact h1
    · cases h

theorem step_bind (h : stepEvent p s .bind = some s') :
    s.running = true ∧ s.firedD = false ∧ ∃ d, p.targets[s.bindPc]? = some d ∧
    (((s.sealed d = true ∨ s.bound d = true) ∧ s' = { s with bindPc := s.bindPc + 1 }) ∨
     (s.sealed d = false ∧ s.bound d = false ∧
      s' = { s with bindPc := s.bindPc + 1, bound := upd s.bound d true, wdn := s.wdn + 1 })) := by
  simp only [stepEvent] at h
  split at h
  · cases h
  · rename_i hc
    simp only [Bool.or_eq_true, Bool.not_eq_true', not_or, Bool.not_eq_true, Bool.not_eq_false] at hc
    split at h
    · cases h
    · rename_i d hd
      refine ⟨hc.1, hc.2, d, hd, ?_⟩
      split at h
      · rename_i hsb
        left; exact ⟨by simpa using hsb, by simpa using h.symm⟩
      · rename_i hsb
        simp only [Bool.or_eq_true, not_or, Bool.not_eq_true] at hsb
        right; exact ⟨hsb.1, hsb.2, by simpa using h.symm⟩

theorem step_fireD (h : stepEvent p s .fireD = some s') :
    s.running = true ∧ s.firedD = false ∧ s.wdn ≠ 0 ∧ (s.bindPc = p.targets.length ∨ s.fin.isSome = true) ∧
    s' = { s with firedD := true, wdn := s.wdn - 1 } := by
  simp only [stepEvent] at h
  split at h
  · cases h
  · rename_i hc
    simp only [Bool.or_eq_true, Bool.not_eq_true', decide_eq_true_eq, not_or, Bool.not_eq_true, Bool.not_eq_false] at hc
    split at h
    · rename_i hb
      simp only [Bool.or_eq_true, decide_eq_true_eq] at hb
      exact ⟨hc.1.1, hc.1.2, hc.2, hb, by simpa using h.symm⟩
    · cases h

theorem step_fireV (h : stepEvent p s .fireV = some s') :
    s.firedD = true ∧ s.firedV = false ∧ s.wvn ≠ 0 ∧ s' = vsubCore { s with firedV := true } := by
  simp only [stepEvent] at h
  split at h
  · cases h
  · rename_i hc
    simp only [Bool.or_eq_true, Bool.not_eq_true', decide_eq_true_eq, not_or, Bool.not_eq_true, Bool.not_eq_false] at hc
    exact ⟨hc.1.1, hc.1.2, hc.2, by simpa using h.symm⟩

theorem step_activate {v : Nat} (h : stepEvent p s (.activate v) = some s') :
    s.running = true ∧ s.vact v = false ∧ v < p.g.verts.length ∧
    (∃ e ∈ (p.g.vert v).emits, demandable p s e = true ∧ s.sealed e = false) ∧
    s' = { s with vact := upd s.vact v true, wn := upd s.wn v (p.g.nDeps v : Int),
                  runnable := if p.g.nDeps v = 0 then upd s.runnable v (s.runnable v + 1) else s.runnable } := by
  simp only [stepEvent] at h
  split at h
  · cases h
  · rename_i hc
    simp only [Bool.or_eq_true, Bool.not_eq_true', decide_eq_true_eq, not_or, Bool.not_eq_true, Bool.not_eq_false,
      decide_eq_false_iff_not, Decidable.not_not] at hc
    split at h
    · rename_i ha
      obtain ⟨e, he, hde⟩ := List.any_eq_true.mp ha
      simp only [Bool.and_eq_true, Bool.not_eq_true'] at hde
      exact ⟨hc.1.1, hc.1.2, hc.2, ⟨e, he, hde.1, hde.2⟩, by simpa using h.symm⟩
    · cases h

theorem step_dactivate {v : Nat} (h : stepEvent p s (.dactivate v) = some s') :
    s.vact v = true ∧ s.dactN v < p.g.nDeps v ∧ s' = { s with dactN := upd s.dactN v (s.dactN v + 1) } := by
  simp only [stepEvent] at h
  split at h
  · rename_i hc
    simp only [Bool.and_eq_true, decide_eq_true_eq] at hc
    exact ⟨hc.1, hc.2, by simpa using h.symm⟩
  · cases h

theorem step_vdec {v cnt : Nat} (h : stepEvent p s (.vdec v cnt) = some s') :
    s.vact v = true ∧ 1 ≤ cnt ∧ s.counted v + cnt ≤ resolvedCount p s v ∧
    s' = { s with counted := upd s.counted v (s.counted v + cnt), wn := upd s.wn v (s.wn v - (cnt : Int)),
                  runnable := if s.wn v - (cnt : Int) = 0 then upd s.runnable v (s.runnable v + 1) else s.runnable } := by
  simp only [stepEvent] at h
  split at h
  · rename_i hc
    simp only [Bool.and_eq_true, decide_eq_true_eq, ge_iff_le] at hc
    exact ⟨hc.1.1, hc.1.2, hc.2, by simpa using h.symm⟩
  · cases h

theorem step_vadd (h : stepEvent p s .vadd = some s') :
    s.running = true ∧ (0 < s.wvn ∨ s.lateEnv = true) ∧ s' = { s with wvn := s.wvn + 1, opened := s.opened + 1 } := by
  simp only [stepEvent] at h
  split at h
  · rename_i hc
    simp only [Bool.and_eq_true, Bool.or_eq_true, decide_eq_true_eq, gt_iff_lt] at hc
    exact ⟨hc.1, hc.2, by simpa using h.symm⟩
  · cases h

theorem step_vsub (h : stepEvent p s .vsub = some s') :
    s.procs < s.opened ∧ 0 < s.wvn ∧ s' = vsubCore { s with opened := s.opened - 1 } := by
  simp only [stepEvent] at h
  split at h
  · rename_i hc
    simp only [Bool.and_eq_true, decide_eq_true_eq, gt_iff_lt] at hc
    exact ⟨hc.1, hc.2, by simpa using h.symm⟩
  · cases h

theorem step_procStart {v : Nat} {ins : List (Option Val)} (h : stepEvent p s (.procStart v ins) = some s') :
    1 ≤ s.runnable v ∧ s.started v = 0 ∧ (p.g.vert v).essFail s.val = false ∧ ins = (p.g.vert v).inputs s.val ∧
    s.procs < s.opened ∧ s' = { s with started := upd s.started v 1, procs := s.procs + 1 } := by
  simp only [stepEvent] at h
  split at h
  · rename_i hc
    simp only [Bool.and_eq_true, decide_eq_true_eq, ge_iff_le, Bool.not_eq_true', beq_iff_eq] at hc
    exact ⟨hc.1.1.1.1, hc.1.1.1.2, hc.1.1.2, hc.1.2, hc.2, by simpa using h.symm⟩
  · cases h

theorem step_procEnd {v : Nat} (h : stepEvent p s (.procEnd v) = some s') :
    s.started v = 1 ∧ s.ended v = 0 ∧ 0 < s.procs ∧ s' = { s with ended := upd s.ended v 1, procs := s.procs - 1 } := by
  simp only [stepEvent] at h
  split at h
  · rename_i hc
    simp only [Bool.and_eq_true, decide_eq_true_eq, gt_iff_lt] at hc
    exact ⟨hc.1.1, hc.1.2, hc.2, by simpa using h.symm⟩
  · cases h

theorem step_seal {v k : Nat} {x : Option Val} (h : stepEvent p s (.sealBy v k x) = some s') :
    ∃ d, p.g.Produces v k d ∧ s.sealed d = false ∧ 1 ≤ s.runnable v ∧ s.running = true ∧
    (x = vertexOut p.proc s.val v (p.g.vert v) k ∨ (s.fin.isSome = true ∧ x = none)) ∧ s' = sealData s d x := by
  simp only [stepEvent] at h
  split at h
  · cases h
  · rename_i d hd
    split at h
    · cases h
    · rename_i hc
      simp only [Bool.or_eq_true, Bool.not_eq_true', decide_eq_true_eq, not_or, Bool.not_eq_true, Bool.not_eq_false,
        decide_eq_false_iff_not, Decidable.not_not, ge_iff_le] at hc
      split at h
      · rename_i hx
        simp only [Bool.or_eq_true, beq_iff_eq, Bool.and_eq_true, Option.isNone_iff_eq_none] at hx
        exact ⟨d, hd, hc.1.1, hc.1.2, hc.2, hx, by simpa using h.symm⟩
      · cases h

theorem step_dsub (h : stepEvent p s .dsub = some s') :
    0 < s.pendingD ∧ 0 < s.wdn ∧ s' = { s with pendingD := s.pendingD - 1, wdn := s.wdn - 1 } := by
  simp only [stepEvent] at h
  split at h
  · rename_i hc
    simp only [Bool.and_eq_true, decide_eq_true_eq, gt_iff_lt] at hc
    exact ⟨hc.1, hc.2, by simpa using h.symm⟩
  · cases h

theorem step_finish {c : Int} (h : stepEvent p s (.finish c) = some s') :
    s.running = true ∧ s.fin = none ∧ (c = 0 → s.wdn = 0) ∧ s' = { s with fin := some c } := by
  simp only [stepEvent] at h
  split at h
  · cases h
  · rename_i hc
    simp only [Bool.or_eq_true, Bool.not_eq_true', not_or, Bool.not_eq_true, Bool.not_eq_false, Option.isSome_eq_false_iff,
      Option.isNone_iff_eq_none] at hc
    split at h
    · cases h
    · rename_i hz
      simp only [Bool.and_eq_true, decide_eq_true_eq, bne_iff_ne, ne_eq, not_and, Decidable.not_not] at hz
      exact ⟨hc.1, hc.2, hz, by simpa using h.symm⟩

theorem step_reset (h : stepEvent p s .reset = some s') :
    s.running = true ∧ s.firedV = true ∧ s.wvn = 0 ∧ s' = State.init := by
  simp only [stepEvent] at h
  split at h
  · rename_i hc
    simp only [Bool.and_eq_true, decide_eq_true_eq] at hc
    exact ⟨hc.1.1, hc.1.2, hc.2, by simpa using h.symm⟩
  · cases h

end Babylon.Anyflow.Graph
