/-
  Generator of the certificate `Babylon/Anyflow/DepTable.lean` (not imported by anything):
      cd lean && lake env lean --run Babylon/Anyflow/MkDepTable.lean > Babylon/Anyflow/DepTable.lean
  The certificate is *checked* by the kernel in `DepLemmas.lean` (`closedIdx … = true`), so this
  program is not trusted.
-/
import Babylon.Anyflow.Dep
open Babylon.Anyflow.Dep

def bs (b : Bool) : String := if b then "true" else "false"
def apc : APc → String
  | .idle => ".idle" | .sw n => s!"(.sw {n})" | .est1 => ".est1" | .ldT0 => ".ldT0" | .fin => ".fin" | .ldC1 => ".ldC1" | .trigC => ".trigC"
  | .trigT => ".trigT" | .inv => ".inv" | .done => ".done"
def cpc : CPc → String
  | .idle => ".idle" | .cas => ".cas" | .sub1 => ".sub1" | .chk n => s!"(.chk {n})" | .aft n => s!"(.aft {n})" | .actT => ".actT" | .sub2 => ".sub2"
  | .rdyLd => ".rdyLd" | .notify => ".notify" | .inv => ".inv" | .done => ".done"
def tpc : TPc → String
  | .idle => ".idle" | .cas => ".cas" | .sub => ".sub" | .chk => ".chk" | .notify => ".notify" | .inv => ".inv" | .done => ".done"
def lit (s : State) : String :=
  s!"⟨⟨{bs s.cfg.hasCond}, {bs s.cfg.b}⟩, {s.cnt}, {s.vwn}, {bs s.condSealed}, {bs s.tgtSealed}, {bs s.cActive}, {bs s.tActive}, {bs s.est}, {bs s.rdy}, {apc s.a}, {cpc s.c}, {tpc s.t}, {s.notified}, {s.finA}, {s.trigC}, {s.trigT}, {s.actT}, {s.runnable}, {s.invoked}, {bs s.bad}⟩"

def main : IO Unit := do
  let R := bfs 1000000 inits inits
  IO.println "/- GENERATED certificate (see MkDepTable.lean): the reachable states of the one-dependency protocol"
  IO.println "   `Babylon.Anyflow.Dep` in BFS order and, per state, the positions of its successors.  Checked by the"
  IO.println "   kernel in DepLemmas.lean; nothing here is trusted. -/"
  IO.println "import Babylon.Anyflow.Dep"
  IO.println "namespace Babylon.Anyflow.Dep"
  IO.println "def R : List State := ["
  IO.println (",\n".intercalate (R.map (fun s => "  " ++ lit s)))
  IO.println "]"
  IO.println "def initIdx : List Nat := [0, 1, 2]"
  IO.println "def succIdx : List (List Nat) := ["
  IO.println (",\n".intercalate (R.map (fun s => "  " ++ toString ((succs s).map (fun t => R.idxOf t)))))
  IO.println "]"
  IO.println "end Babylon.Anyflow.Dep"
