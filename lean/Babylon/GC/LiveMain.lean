/-
  Termination of `stop()` (property C10), part 5: in every situation after `stop()` was called some
  actor is helpful, so the measure keeps decreasing until `stop()` has returned.
-/
import Babylon.GC.LiveColl

namespace Babylon.GC
open Babylon.Core Babylon.Gen.GC

/-- the collector cannot have finished while the marker is still unpublished -/
theorem done_not_publishing {c : Cfg} {s : State} (h : Reach c s) (hd : s.cpc = .done) (k : Nat) :
    s.stop ≠ .publish k := by
  intro hk
  have hi := reach_inv h
  have hrun := (hi.k.fin hd).1
  have hmark : Item.marker ∈ s.popped.drop s.runBase := by
    apply Classical.byContradiction
    intro hn
    have := hi.k.run.mpr hn
    rw [hrun] at this; cases this
  obtain ⟨i, hi1⟩ := List.getElem?_of_mem hmark
  rw [List.getElem?_drop] at hi1
  have hil : s.runBase + i < s.popped.length := by
    rcases Nat.lt_or_ge (s.runBase + i) s.popped.length with h | h
    · exact h
    · rw [List.getElem?_eq_none h] at hi1; cases hi1
  have hi2 : s.allItems[s.runBase + i]? = some Item.marker := by
    simp only [State.allItems]; rw [List.getElem?_append_left hil]; exact hi1
  have ⟨hk1, hk2⟩ := marker_cell_in_allItems hi.q hk
  have hb := hi.k.base
  have hpl := hi.q.popLen
  have := hi.st.oneRun (s.runBase + i) k (Nat.le_add_right _ _) (by omega) hi2 hk2
  omega

/-- from any moment after `n0` at which `stop()` has not returned, the measure eventually decreases -/
theorem decrease {c : Cfg} (x : Exec c) (n0 : Nat) (hf : Fair x n0) :
    ∀ n, n0 ≤ n → (x.σ n).stop ≠ .returned → ∃ m, n < m ∧ mu (x.σ m) < mu (x.σ n) := by
  intro n hn hnr
  have g := hf.good n hn
  have hi := reach_inv g.reach
  have hm := reach_minv g.reach
  -- the collector has finished: join
  by_cases hd : (x.σ n).cpc = .done
  · cases hst : (x.σ n).stop with
    | idle => exact absurd hst g.called
    | reserve => exact scen_reserve x n0 hf n hn hst
    | publish k => exact absurd hst (done_not_publishing g.reach hd k)
    | join => exact scen_join x n0 hf n hn ⟨hst, hd⟩
    | returned => exact absurd hst hnr
  -- the marker has no ticket yet
  by_cases hres : (x.σ n).stop = .reserve
  · exact scen_reserve x n0 hf n hn hres
  -- a stop() is in progress, so the collector thread exists; it has not finished
  have hact : collActive (x.σ n).cpc = true := by
    have hoff : (x.σ n).cpc ≠ .off := by
      apply hi.st.offStop
      cases hst : (x.σ n).stop with
      | idle => exact absurd hst g.called
      | reserve => exact Or.inl rfl
      | publish k => exact Or.inr (Or.inl ⟨k, rfl⟩)
      | join => exact Or.inr (Or.inr rfl)
      | returned => exact absurd hst hnr
    cases hc : (x.σ n).cpc <;> first | rfl | exact absurd hc hd | exact absurd hc hoff
  -- consumed tasks are waiting
  by_cases hw : 0 < waiting (x.σ n)
  · exact scen_reclaim x n0 hf n hn ⟨hw, hact⟩
  have hw0 : waiting (x.σ n) = 0 := by omega
  -- marker seen, nothing left
  cases hrun : (x.σ n).running with
  | false => exact scen_exit x n0 hf n hn ⟨hw0, hrun, hact⟩
  | true =>
    -- the marker is still in the queue, so the queue is not empty
    have hnp : Item.marker ∉ (x.σ n).popped.drop (x.σ n).runBase := hi.k.run.mp hrun
    have hne : (x.σ n).cells ≠ [] := by
      intro hnil
      cases hst : (x.σ n).stop with
      | idle => exact absurd hst g.called
      | reserve => exact absurd hst hres
      | publish k =>
        have := (hi.q.spub k hst).2
        rw [hnil] at this; simp at this
      | join =>
        obtain ⟨k, hk1, hk2⟩ := hi.st.joinMark hst
        simp only [State.allItems, hnil, List.map_nil, List.append_nil] at hk2
        apply hnp
        have hb := hi.k.base
        have : (x.σ n).popped[k]? = ((x.σ n).popped.drop (x.σ n).runBase)[k - (x.σ n).runBase]? := by
          rw [List.getElem?_drop]; congr 1; omega
        rw [this] at hk2
        exact List.mem_of_getElem? hk2
      | returned => exact absurd hst hnr
    cases hcells : (x.σ n).cells with
    | nil => exact absurd hcells hne
    | cons hd0 rest =>
      obtain ⟨it, b⟩ := hd0
      cases b with
      | true =>
        exact scen_consume x n0 hf n hn ⟨hw0, hrun, ⟨it, by rw [hcells]; rfl⟩, hact⟩
      | false =>
        have h0 : (x.σ n).cells[0]? = some (it, false) := by rw [hcells]; rfl
        cases it with
        | task t =>
          have := hm.unpubTask 0 t.id t.e h0
          rcases g.quiet t.id with hq | ⟨e, k, hq⟩ <;> rw [hq] at this <;> cases this
        | marker =>
          have := hm.unpubMark 0 h0
          apply scen_publish x n0 hf n hn
          exact ⟨_, this, by have := g.cap; omega⟩

/-- **Termination of `stop()`**: in every execution that, from some moment on, satisfies the client
contract, schedules the collector and the stopping thread fairly and has no stale region left,
`stop()` returns. -/
theorem stop_terminates {c : Cfg} (x : Exec c) (n0 : Nat) (hf : Fair x n0) :
    ∃ n, (x.σ n).stop = .returned := by
  have key : ∀ k n, n0 ≤ n → mu (x.σ n) ≤ k → ∃ m, (x.σ m).stop = .returned := by
    intro k
    induction k using Nat.strongRecOn with
    | _ k ih =>
      intro n hn hk
      by_cases hr : (x.σ n).stop = .returned
      · exact ⟨n, hr⟩
      · obtain ⟨m, hm, hlt⟩ := decrease x n0 hf n hn hr
        exact ih (mu (x.σ m)) (by omega) m (by omega) (Nat.le_refl _)
  exact key _ n0 (Nat.le_refl _) (Nat.le_refl _)

end Babylon.GC
