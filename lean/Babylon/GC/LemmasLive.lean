/-
  Invariants of the GarbageCollector model (property C10), part 5: bookkeeping used by the
  termination argument — who owns an unpublished cell.
-/
import Babylon.GC.LemmasAll

namespace Babylon.GC
open Babylon.Core Babylon.Gen.GC

structure MInv (s : State) : Prop where
  unpubTask : ∀ i id e, s.cells[i]? = some (.task ⟨id, e⟩, false) → s.calls id = .publish e (s.popIdx + i)
  unpubMark : ∀ i, s.cells[i]? = some (.marker, false) → s.stop = .publish (s.popIdx + i)

theorem MInv.init : MInv State.init := by
  constructor <;> simp [State.init]

theorem MInv.popCells {s : State} (hm : MInv s) (n : Nat) (pc : CPc) : MInv { popCells s n with cpc := pc } := by
  refine ⟨?_, ?_⟩
  · intro i id e hi
    simp only [GC.popCells, List.getElem?_drop] at hi
    have := hm.unpubTask (n + i) id e hi
    simp only [GC.popCells]; rw [this]; congr 1; omega
  · intro i hi
    simp only [GC.popCells, List.getElem?_drop] at hi
    have := hm.unpubMark (n + i) hi
    simp only [GC.popCells]; rw [this]; congr 1; omega

theorem MInv.step {c : Cfg} {s s' : State} {l : Lbl} (hq : QInv c s) (hm : MInv s)
    (h : step c s l = some s') : MInv s' := by
  cases l with
  | callRetire id =>
    simp only [GC.step, stepWith] at h
    split at h <;> try contradiction
    rename_i hnone
    injection h with h; subst h
    refine ⟨?_, hm.unpubMark⟩
    intro i j e hi
    dsimp only at hi ⊢
    have := hm.unpubTask i j e hi
    by_cases hji : j = id
    · subst hji; rw [hnone] at this; cases this
    · rw [upd_other _ _ hji]; exact this
  | callRetireAt id e0 =>
    simp only [GC.step, stepWith] at h
    split at h <;> try contradiction
    rename_i hnone
    injection h with h; subst h
    refine ⟨?_, hm.unpubMark⟩
    intro i j e hi
    dsimp only at hi ⊢
    have := hm.unpubTask i j e hi
    by_cases hji : j = id
    · subst hji; rw [hnone.1] at this; cases this
    · rw [upd_other _ _ hji]; exact this
  | tick id =>
    simp only [GC.step, stepWith] at h
    split at h <;> try contradiction
    rename_i htick
    injection h with h; subst h
    refine ⟨?_, hm.unpubMark⟩
    intro i j e hi
    dsimp only at hi ⊢
    have := hm.unpubTask i j e hi
    by_cases hji : j = id
    · subst hji; rw [htick] at this; cases this
    · rw [upd_other _ _ hji]; exact this
  | reserve id =>
    simp only [GC.step, stepWith] at h
    split at h <;> try contradiction
    rename_i e0 hres
    injection h with h; subst h
    refine ⟨?_, ?_⟩
    · intro i j e hi
      dsimp only at hi ⊢
      rw [getElem?_append_singleton] at hi
      split at hi
      · have := hm.unpubTask i j e hi
        by_cases hji : j = id
        · subst hji; rw [hres] at this; cases this
        · rw [upd_other _ _ hji]; exact this
      · split at hi
        · rename_i hil
          injection hi with hi; injection hi with hi _; injection hi with hi
          injection hi with h1 h2; subst h1; subst h2
          have := hq.cellLen
          simp only [upd_same]; congr 1; omega
        · cases hi
    · intro i hi
      dsimp only at hi ⊢
      rw [getElem?_append_singleton] at hi
      split at hi
      · exact hm.unpubMark i hi
      · split at hi
        · injection hi with hi; injection hi with hi _; cases hi
        · cases hi
  | publish id =>
    simp only [GC.step, stepWith] at h
    split at h <;> try contradiction
    rename_i e0 k0 hpub
    split at h <;> try contradiction
    rename_i hroom
    injection h with h; subst h
    refine ⟨?_, ?_⟩
    · intro i j e' hi
      dsimp only at hi ⊢
      rw [getElem?_setPublished] at hi
      cases hc : s.cells[i]? with
      | none => rw [hc] at hi; cases hi
      | some cl =>
        rw [hc] at hi
        simp only [Option.map_some, Option.some.injEq] at hi
        split at hi
        · injection hi with _ h2; cases h2
        · subst hi
          have := hm.unpubTask i j e' hc
          by_cases hji : j = id
          · subst hji
            rw [hpub] at this
            injection this with h1 h2
            rename_i hne
            exact absurd (by omega) hne
          · rw [upd_other _ _ hji]; exact this
    · intro i hi
      dsimp only at hi ⊢
      rw [getElem?_setPublished] at hi
      cases hc : s.cells[i]? with
      | none => rw [hc] at hi; cases hi
      | some cl =>
        rw [hc] at hi
        simp only [Option.map_some, Option.some.injEq] at hi
        split at hi
        · injection hi with _ h2; cases h2
        · subst hi; exact hm.unpubMark i hc
  | callStop =>
    simp only [GC.step, stepWith] at h
    split at h <;> try contradiction
    rename_i hg
    injection h with h; subst h
    refine ⟨hm.unpubTask, ?_⟩
    intro i hi
    have := hm.unpubMark i hi
    rcases hg.1 with h | h <;> rw [h] at this <;> cases this
  | stopReserve =>
    simp only [GC.step, stepWith] at h
    split at h <;> try contradiction
    rename_i hres
    injection h with h; subst h
    refine ⟨?_, ?_⟩
    · intro i j e hi
      dsimp only at hi ⊢
      rw [getElem?_append_singleton] at hi
      split at hi
      · exact hm.unpubTask i j e hi
      · split at hi
        · injection hi with hi; injection hi with hi _; cases hi
        · cases hi
    · intro i hi
      dsimp only at hi ⊢
      rw [getElem?_append_singleton] at hi
      split at hi
      · have := hm.unpubMark i hi
        rw [hres] at this; cases this
      · split at hi
        · have := hq.cellLen
          congr 1; omega
        · cases hi
  | stopPublish =>
    simp only [GC.step, stepWith] at h
    split at h <;> try contradiction
    rename_i k0 hpub
    split at h <;> try contradiction
    rename_i hroom
    injection h with h; subst h
    refine ⟨?_, ?_⟩
    · intro i j e' hi
      dsimp only at hi ⊢
      rw [getElem?_setPublished] at hi
      cases hc : s.cells[i]? with
      | none => rw [hc] at hi; cases hi
      | some cl =>
        rw [hc] at hi
        simp only [Option.map_some, Option.some.injEq] at hi
        split at hi
        · injection hi with _ h2; cases h2
        · subst hi; exact hm.unpubTask i j e' hc
    · intro i hi
      dsimp only at hi ⊢
      rw [getElem?_setPublished] at hi
      cases hc : s.cells[i]? with
      | none => rw [hc] at hi; cases hi
      | some cl =>
        rw [hc] at hi
        simp only [Option.map_some, Option.some.injEq] at hi
        split at hi
        · injection hi with _ h2; cases h2
        · subst hi
          have := hm.unpubMark i hc
          rw [hpub] at this
          injection this with this
          rename_i hne
          exact absurd (by omega) hne
  | stopJoin =>
    simp only [GC.step, stepWith] at h
    split at h <;> try contradiction
    rename_i hg
    injection h with h; subst h
    refine ⟨hm.unpubTask, ?_⟩
    intro i hi
    have := hm.unpubMark i hi
    rw [hg.1] at this; cases this
  | pop n =>
    simp only [GC.step, stepWith] at h
    split at h <;> try contradiction
    · split at h <;> try contradiction
      injection h with h; subst h
      exact hm.popCells _ _
    · split at h <;> try contradiction
      injection h with h; subst h
      exact hm.popCells _ _
  | _ =>
    simp only [GC.step, stepWith] at h <;> (repeat' split at h) <;>
    first
    | contradiction
    | (injection h with h; subst h; exact ⟨hm.unpubTask, hm.unpubMark⟩)

theorem reach_minv {c : Cfg} {s : State} (h : Reach c s) : MInv s := by
  refine Reach.inv (c := c) MInv MInv.init ?_ s h
  intro s s' l hr hi hs
  exact hi.step (reach_inv hr).q hs

end Babylon.GC
