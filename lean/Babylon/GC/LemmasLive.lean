/-
  Invariants of the GarbageCollector model (property C10), part 5: bookkeeping used by the
  termination argument — who owns an unpublished cell, and that there is at most one stop marker.
-/
import Babylon.GC.LemmasAll

namespace Babylon.GC
open Babylon.Core Babylon.Gen.GC

structure MInv (s : State) : Prop where
  unpubTask : ∀ i id e, s.cells[i]? = some (.task ⟨id, e⟩, false) → s.calls id = .publish e (s.popIdx + i)
  unpubMark : ∀ i, s.cells[i]? = some (.marker, false) → s.stop = .publish (s.popIdx + i)
  noMark : (s.stop = .idle ∨ s.stop = .reserve) → Item.marker ∉ s.allItems
  markIn : (s.stop = .join ∨ s.stop = .returned) → Item.marker ∈ s.allItems
  oneMark : ∀ i j : Nat, s.allItems[i]? = some .marker → s.allItems[j]? = some .marker → i = j

theorem MInv.init : MInv State.init := by
  constructor <;> simp [State.init, State.allItems]

theorem getElem?_append_singleton {α : Type} (l : List α) (x : α) (k : Nat) :
    (l ++ [x])[k]? = if k < l.length then l[k]? else if k = l.length then some x else none := by
  split
  · rename_i h; exact List.getElem?_append_left h
  · rename_i h
    rw [List.getElem?_append_right (by omega)]
    split
    · rename_i h2; subst h2; simp
    · rename_i h2
      have : k - l.length ≠ 0 := by omega
      obtain ⟨m, hm⟩ := Nat.exists_eq_succ_of_ne_zero this
      rw [hm]; simp

theorem MInv.popCells {c : Cfg} {s : State} (hq : QInv c s) (hm : MInv s) {n lim : Nat}
    (hp : canPop s n lim = true) (pc : CPc) : MInv { popCells s n with cpc := pc } := by
  refine ⟨?_, ?_, ?_, ?_, ?_⟩
  · intro i id e hi
    simp only [GC.popCells, List.getElem?_drop] at hi
    have := hm.unpubTask (n + i) id e hi
    simp only [GC.popCells]; rw [this]; congr 1; omega
  · intro i hi
    simp only [GC.popCells, List.getElem?_drop] at hi
    have := hm.unpubMark (n + i) hi
    simp only [GC.popCells]; rw [this]; congr 1; omega
  · intro h; rw [popCells_allItems']; exact hm.noMark h
  · intro h; rw [popCells_allItems']; exact hm.markIn h
  · intro i j; rw [popCells_allItems']; exact hm.oneMark i j

theorem MInv.step {c : Cfg} {s s' : State} {l : Lbl} (hq : QInv c s) (hm : MInv s)
    (h : step c s l = some s') : MInv s' := by
  cases l with
  | callRetire id =>
    simp only [GC.step, stepWith] at h
    split at h <;> try contradiction
    rename_i hnone
    injection h with h; subst h
    refine ⟨?_, hm.unpubMark, hm.noMark, hm.markIn, hm.oneMark⟩
    intro i j e hi
    dsimp only at hi ⊢
    have := hm.unpubTask i j e hi
    by_cases hji : j = id
    · subst hji; rw [hnone] at this; cases this
    · rw [upd_other _ _ hji]; exact this
  | callRetireAt id e0 =>
    simp only [GC.step, stepWith] at h
    split at h <;> try contradiction
    rename_i hnone
    injection h with h; subst h
    refine ⟨?_, hm.unpubMark, hm.noMark, hm.markIn, hm.oneMark⟩
    intro i j e hi
    dsimp only at hi ⊢
    have := hm.unpubTask i j e hi
    by_cases hji : j = id
    · subst hji; rw [hnone.1] at this; cases this
    · rw [upd_other _ _ hji]; exact this
  | tick id =>
    simp only [GC.step, stepWith] at h
    split at h <;> try contradiction
    rename_i htick
    injection h with h; subst h
    refine ⟨?_, hm.unpubMark, hm.noMark, hm.markIn, hm.oneMark⟩
    intro i j e hi
    dsimp only at hi ⊢
    have := hm.unpubTask i j e hi
    by_cases hji : j = id
    · subst hji; rw [htick] at this; cases this
    · rw [upd_other _ _ hji]; exact this
  | reserve id =>
    simp only [GC.step, stepWith] at h
    split at h <;> try contradiction
    rename_i e0 hres
    injection h with h; subst h
    have hlen := allItems_length hq
    have hall : ∀ k : Nat, (s.popped ++ (s.cells ++ [(Item.task ⟨id, e0⟩, false)]).map (·.1))[k]? = some Item.marker →
        s.allItems[k]? = some Item.marker := by
      intro km hkm
      simp only [List.map_append, List.map_cons, List.map_nil, ← List.append_assoc] at hkm
      exact getElem?_append_singleton_ne (by simp) hkm
    refine ⟨?_, ?_, ?_, ?_, ?_⟩
    · intro i j e hi
      dsimp only at hi ⊢
      rw [getElem?_append_singleton] at hi
      split at hi
      · have := hm.unpubTask i j e hi
        by_cases hji : j = id
        · subst hji; rw [hres] at this; cases this
        · rw [upd_other _ _ hji]; exact this
      · split at hi
        · rename_i hil
          injection hi with hi; injection hi with hi _; injection hi with hi
          injection hi with h1 h2; subst h1; subst h2
          have := hq.cellLen
          simp only [upd_same]; congr 1; omega
        · cases hi
    · intro i hi
      dsimp only at hi ⊢
      rw [getElem?_append_singleton] at hi
      split at hi
      · exact hm.unpubMark i hi
      · split at hi
        · injection hi with hi; injection hi with hi _; cases hi
        · cases hi
    · intro hs hmem
      apply hm.noMark hs
      obtain ⟨k, hk⟩ := List.getElem?_of_mem hmem
      exact List.mem_of_getElem? (hall k hk)
    · intro hs
      have := hm.markIn hs
      show Item.marker ∈ s.popped ++ (s.cells ++ [(Item.task ⟨id, e0⟩, false)]).map (·.1)
      simp only [State.allItems, List.mem_append, List.map_append] at this ⊢
      rcases this with h | h
      · exact Or.inl h
      · exact Or.inr (Or.inl h)
    · intro i j hi hj
      exact hm.oneMark i j (hall i hi) (hall j hj)
  | publish id =>
    simp only [GC.step, stepWith] at h
    split at h <;> try contradiction
    rename_i e0 k0 hpub
    split at h <;> try contradiction
    rename_i hroom
    injection h with h; subst h
    have e : s.popped ++ (setPublished s.cells (k0 - s.popIdx)).map (·.1) = s.allItems := by
      simp [State.allItems, map_fst_setPublished]
    refine ⟨?_, ?_, ?_, ?_, ?_⟩
    · intro i j e' hi
      dsimp only at hi ⊢
      rw [getElem?_setPublished] at hi
      cases hc : s.cells[i]? with
      | none => rw [hc] at hi; cases hi
      | some cl =>
        rw [hc] at hi
        simp only [Option.map_some, Option.some.injEq] at hi
        split at hi
        · injection hi with _ h2; cases h2
        · subst hi
          have := hm.unpubTask i j e' hc
          by_cases hji : j = id
          · subst hji
            rw [hpub] at this
            injection this with h1 h2
            rename_i hne
            exact absurd (by omega) hne
          · rw [upd_other _ _ hji]; exact this
    · intro i hi
      dsimp only at hi ⊢
      rw [getElem?_setPublished] at hi
      cases hc : s.cells[i]? with
      | none => rw [hc] at hi; cases hi
      | some cl =>
        rw [hc] at hi
        simp only [Option.map_some, Option.some.injEq] at hi
        split at hi
        · injection hi with _ h2; cases h2
        · subst hi; exact hm.unpubMark i hc
    · intro hs
      show Item.marker ∉ s.popped ++ (setPublished s.cells (k0 - s.popIdx)).map (·.1)
      rw [e]; exact hm.noMark hs
    · intro hs
      show Item.marker ∈ s.popped ++ (setPublished s.cells (k0 - s.popIdx)).map (·.1)
      rw [e]; exact hm.markIn hs
    · intro i j
      show (s.popped ++ (setPublished s.cells (k0 - s.popIdx)).map (·.1))[i]? = _ →
        (s.popped ++ (setPublished s.cells (k0 - s.popIdx)).map (·.1))[j]? = _ → _
      rw [e]; exact hm.oneMark i j
  | callStop =>
    simp only [GC.step, stepWith] at h
    split at h <;> try contradiction
    rename_i hidle
    injection h with h; subst h
    refine ⟨hm.unpubTask, ?_, ?_, ?_, hm.oneMark⟩
    · intro i hi
      have := hm.unpubMark i hi
      rw [hidle] at this; cases this
    · intro _; exact hm.noMark (Or.inl hidle)
    · intro hs; rcases hs with hs | hs <;> cases hs
  | stopReserve =>
    simp only [GC.step, stepWith] at h
    split at h <;> try contradiction
    rename_i hres
    injection h with h; subst h
    have hlen := allItems_length hq
    have hno := hm.noMark (Or.inr hres)
    have hall : ∀ k : Nat, (s.popped ++ (s.cells ++ [(Item.marker, false)]).map (·.1))[k]? = some Item.marker →
        k = s.pushIdx := by
      intro km hkm
      simp only [List.map_append, List.map_cons, List.map_nil, ← List.append_assoc] at hkm
      change (s.allItems ++ [Item.marker])[km]? = _ at hkm
      rw [getElem?_append_singleton] at hkm
      split at hkm
      · exact absurd (List.mem_of_getElem? hkm) hno
      · split at hkm
        · omega
        · cases hkm
    refine ⟨?_, ?_, ?_, ?_, ?_⟩
    · intro i j e hi
      dsimp only at hi ⊢
      rw [getElem?_append_singleton] at hi
      split at hi
      · exact hm.unpubTask i j e hi
      · split at hi
        · injection hi with hi; injection hi with hi _; cases hi
        · cases hi
    · intro i hi
      dsimp only at hi ⊢
      rw [getElem?_append_singleton] at hi
      split at hi
      · have := hm.unpubMark i hi
        rw [hres] at this; cases this
      · split at hi
        · have := hq.cellLen
          congr 1; omega
        · cases hi
    · intro hs; rcases hs with hs | hs <;> cases hs
    · intro hs; rcases hs with hs | hs <;> cases hs
    · intro i j hi hj
      rw [hall i hi, hall j hj]
  | stopPublish =>
    simp only [GC.step, stepWith] at h
    split at h <;> try contradiction
    rename_i k0 hpub
    split at h <;> try contradiction
    rename_i hroom
    injection h with h; subst h
    have e : s.popped ++ (setPublished s.cells (k0 - s.popIdx)).map (·.1) = s.allItems := by
      simp [State.allItems, map_fst_setPublished]
    have ⟨hk1, hk2⟩ := hq.spub k0 hpub
    refine ⟨?_, ?_, ?_, ?_, ?_⟩
    · intro i j e' hi
      dsimp only at hi ⊢
      rw [getElem?_setPublished] at hi
      cases hc : s.cells[i]? with
      | none => rw [hc] at hi; cases hi
      | some cl =>
        rw [hc] at hi
        simp only [Option.map_some, Option.some.injEq] at hi
        split at hi
        · injection hi with _ h2; cases h2
        · subst hi; exact hm.unpubTask i j e' hc
    · intro i hi
      dsimp only at hi ⊢
      rw [getElem?_setPublished] at hi
      cases hc : s.cells[i]? with
      | none => rw [hc] at hi; cases hi
      | some cl =>
        rw [hc] at hi
        simp only [Option.map_some, Option.some.injEq] at hi
        split at hi
        · injection hi with _ h2; cases h2
        · subst hi
          have := hm.unpubMark i hc
          rw [hpub] at this
          injection this with this
          rename_i hne
          exact absurd (by omega) hne
    · intro hs; rcases hs with hs | hs <;> cases hs
    · intro _
      show Item.marker ∈ s.popped ++ (setPublished s.cells (k0 - s.popIdx)).map (·.1)
      rw [e]
      simp only [State.allItems, List.mem_append, List.mem_map]
      right
      exact ⟨_, List.mem_of_getElem? hk2, rfl⟩
    · intro i j
      show (s.popped ++ (setPublished s.cells (k0 - s.popIdx)).map (·.1))[i]? = _ →
        (s.popped ++ (setPublished s.cells (k0 - s.popIdx)).map (·.1))[j]? = _ → _
      rw [e]; exact hm.oneMark i j
  | stopJoin =>
    simp only [GC.step, stepWith] at h
    split at h <;> try contradiction
    rename_i hg
    injection h with h; subst h
    refine ⟨hm.unpubTask, ?_, ?_, ?_, hm.oneMark⟩
    · intro i hi
      have := hm.unpubMark i hi
      rw [hg.1] at this; cases this
    · intro hs; rcases hs with hs | hs <;> cases hs
    · intro _; exact hm.markIn (Or.inl hg.1)
  | pop n =>
    simp only [GC.step, stepWith] at h
    split at h <;> try contradiction
    · split at h <;> try contradiction
      rename_i hp
      injection h with h; subst h
      exact hm.popCells hq hp.1 _
    · split at h <;> try contradiction
      rename_i hp
      injection h with h; subst h
      exact hm.popCells hq hp _
  | _ =>
    simp only [GC.step, stepWith] at h <;> (repeat' split at h) <;>
    first
    | contradiction
    | (injection h with h; subst h; exact ⟨hm.unpubTask, hm.unpubMark, hm.noMark, hm.markIn, hm.oneMark⟩)

theorem reach_minv {c : Cfg} {s : State} (h : Reach c s) : MInv s := by
  refine Reach.inv (c := c) MInv MInv.init ?_ s h
  intro s s' l hr hi hs
  exact hi.step (reach_inv hr).q hs

end Babylon.GC
