/-
  Invariants of the GarbageCollector model (property C10), part 4: the stop marker's position,
  all invariants bundled over reachable states, and the list facts the property theorems use.
-/
import Babylon.GC.LemmasLoop
import Babylon.GC.LemmasEpoch

namespace Babylon.GC
open Babylon.Core Babylon.Gen.GC

theorem getElem?_append_singleton_ne {α : Type} {l : List α} {x y : α} {k : Nat} (hxy : x ≠ y)
    (h : (l ++ [x])[k]? = some y) : l[k]? = some y := by
  rcases Nat.lt_or_ge k l.length with hl | hl
  · rwa [List.getElem?_append_left hl] at h
  · rw [List.getElem?_append_right hl] at h
    rcases Nat.eq_zero_or_pos (k - l.length) with h0 | h0
    · rw [h0] at h; simp at h; exact absurd h hxy
    · obtain ⟨m, hm⟩ := Nat.exists_eq_succ_of_ne_zero (Nat.pos_iff_ne_zero.mp h0)
      rw [hm] at h; simp at h

theorem getElem?_append_singleton {α : Type} (l : List α) (x : α) (k : Nat) :
    (l ++ [x])[k]? = if k < l.length then l[k]? else if k = l.length then some x else none := by
  split
  · rename_i h; exact List.getElem?_append_left h
  · rename_i h
    rw [List.getElem?_append_right (by omega)]
    split
    · rename_i h2; subst h2; simp
    · rename_i h2
      have : k - l.length ≠ 0 := by omega
      obtain ⟨m, hm⟩ := Nat.exists_eq_succ_of_ne_zero this
      rw [hm]; simp

theorem marker_cell_in_allItems {c : Cfg} {s : State} (hq : QInv c s) {k : Nat} (hk : s.stop = .publish k) :
    s.popIdx ≤ k ∧ s.allItems[k]? = some Item.marker := by
  have ⟨h1, h2⟩ := hq.spub k hk
  refine ⟨h1, ?_⟩
  simp only [State.allItems]
  rw [List.getElem?_append_right (by rw [hq.popLen]; exact h1), hq.popLen, List.getElem?_map, h2]
  rfl

/-- a marker in a cell is a marker in the ticket sequence at or after the pop index -/
theorem cell_marker_index {c : Cfg} {s : State} (hq : QInv c s) {b : Bool} (h : (Item.marker, b) ∈ s.cells) :
    ∃ j : Nat, s.popIdx ≤ j ∧ s.allItems[j]? = some Item.marker := by
  obtain ⟨i, hi⟩ := List.getElem?_of_mem h
  refine ⟨s.popIdx + i, Nat.le_add_right _ _, ?_⟩
  simp only [State.allItems]
  rw [List.getElem?_append_right (by rw [hq.popLen]; omega), hq.popLen, List.getElem?_map]
  have : s.popIdx + i - s.popIdx = i := by omega
  rw [this, hi]; rfl

theorem allItems_marker_cell {c : Cfg} {s : State} (hq : QInv c s) {j : Nat} (hj : s.popIdx ≤ j)
    (h : s.allItems[j]? = some Item.marker) : ∃ b, (Item.marker, b) ∈ s.cells := by
  simp only [State.allItems] at h
  rw [List.getElem?_append_right (by rw [hq.popLen]; exact hj), List.getElem?_map] at h
  cases hc : s.cells[j - s.popped.length]? with
  | none => rw [hc] at h; cases h
  | some cl =>
    rw [hc] at h
    obtain ⟨x, b⟩ := cl
    simp at h; subst h
    exact ⟨b, List.mem_of_getElem? hc⟩

/-- where the stop marker of the current collector run can be, and in which phases of `stop()` -/
structure SInv (s : State) : Prop where
  atStop : s.stop ≠ .idle → ∃ p, s.pushAtStop = some p ∧ p ≤ s.pushIdx
  /-- while a `stop()` is in progress the collector thread is joinable -/
  offStop : (s.stop = .reserve ∨ (∃ k, s.stop = .publish k) ∨ s.stop = .join) → s.cpc ≠ .off
  /-- no marker since the current run began, unless a `stop()` has queued one -/
  nm : (s.stop = .idle ∨ s.stop = .reserve ∨ (s.stop = .returned ∧ s.cpc ≠ .off)) →
    ∀ j : Nat, s.runBase ≤ j → s.allItems[j]? ≠ some .marker
  markRun : ∀ j : Nat, s.runBase ≤ j → s.allItems[j]? = some .marker → ∃ p, s.pushAtStop = some p ∧ p ≤ j
  oneRun : ∀ i j : Nat, s.runBase ≤ i → s.runBase ≤ j →
    s.allItems[i]? = some .marker → s.allItems[j]? = some .marker → i = j
  cellMark : (∃ b, (Item.marker, b) ∈ s.cells) → (∃ k, s.stop = .publish k) ∨ s.stop = .join
  joinMark : s.stop = .join → ∃ k : Nat, s.runBase ≤ k ∧ s.allItems[k]? = some .marker

theorem SInv.init : SInv State.init := by
  constructor <;> simp [State.init, State.allItems]

/-- an action that touches neither `stop()`'s variables nor the ticket sequence nor whether a collector exists -/
theorem SInv.frame {s s' : State} (hs : SInv s) (h1 : s'.stop = s.stop) (h2 : s'.pushAtStop = s.pushAtStop)
    (h3 : s'.pushIdx = s.pushIdx) (h4 : s'.popped = s.popped) (h5 : s'.cells = s.cells)
    (h6 : s'.runBase = s.runBase) (h7 : s'.cpc = .off ↔ s.cpc = .off) : SInv s' := by
  have ha : s'.allItems = s.allItems := by simp [State.allItems, h4, h5]
  refine ⟨?_, ?_, ?_, ?_, ?_, ?_, ?_⟩
  · rw [h1, h2, h3]; exact hs.atStop
  · rw [h1]; intro h hoff; exact hs.offStop h (h7.mp hoff)
  · rw [h1, h6, ha]
    intro h
    apply hs.nm
    rcases h with h | h | ⟨h, hc⟩
    · exact Or.inl h
    · exact Or.inr (Or.inl h)
    · exact Or.inr (Or.inr ⟨h, fun ho => hc (h7.mpr ho)⟩)
  · rw [h2, h6, ha]; exact hs.markRun
  · rw [h6, ha]; exact hs.oneRun
  · rw [h1, h5]; exact hs.cellMark
  · rw [h1, h6, ha]; exact hs.joinMark

theorem SInv.popCells {c : Cfg} {s : State} (hq : QInv c s) (hs : SInv s) (n : Nat) (pc : CPc)
    (h1 : s.cpc ≠ .off) (h2 : pc ≠ .off) : SInv { popCells s n with cpc := pc } := by
  refine ⟨hs.atStop, fun _ => h2, ?_, ?_, ?_, ?_, ?_⟩
  · intro h
    rw [popCells_allItems']
    apply hs.nm
    rcases h with h | h | ⟨h, _⟩
    · exact Or.inl h
    · exact Or.inr (Or.inl h)
    · exact Or.inr (Or.inr ⟨h, h1⟩)
  · rw [popCells_allItems']; exact hs.markRun
  · rw [popCells_allItems']; exact hs.oneRun
  · rintro ⟨b, hb⟩
    exact hs.cellMark ⟨b, List.mem_of_mem_drop hb⟩
  · rw [popCells_allItems']; exact hs.joinMark

theorem SInv.step {c : Cfg} {s s' : State} {l : Lbl} (hq : QInv c s) (hk : KInv s) (hs : SInv s)
    (h : step c s l = some s') : SInv s' := by
  have hlen := allItems_length hq
  cases l with
  | reserve id =>
    simp only [GC.step, stepWith] at h
    split at h <;> try contradiction
    rename_i e0 hres
    injection h with h; subst h
    have hall : ∀ km : Nat, (s.popped ++ (s.cells ++ [(Item.task ⟨id, e0⟩, false)]).map (·.1))[km]? = some Item.marker →
        s.allItems[km]? = some Item.marker := by
      intro km hkm
      simp only [List.map_append, List.map_cons, List.map_nil, ← List.append_assoc] at hkm
      exact getElem?_append_singleton_ne (by simp) hkm
    refine ⟨?_, hs.offStop, ?_, ?_, ?_, ?_, ?_⟩
    · intro hi
      obtain ⟨p, hp1, hp2⟩ := hs.atStop hi
      exact ⟨p, hp1, by dsimp only; omega⟩
    · intro hst j hj hm
      exact hs.nm hst j hj (hall j hm)
    · intro j hj hm
      exact hs.markRun j hj (hall j hm)
    · intro i j hi hj hmi hmj
      exact hs.oneRun i j hi hj (hall i hmi) (hall j hmj)
    · rintro ⟨b, hb⟩
      dsimp only at hb
      rw [List.mem_append] at hb
      rcases hb with hb | hb
      · exact hs.cellMark ⟨b, hb⟩
      · simp at hb
    · intro hj
      obtain ⟨k, hk1, hk2⟩ := hs.joinMark hj
      refine ⟨k, hk1, ?_⟩
      have hlt : k < s.allItems.length := by
        rcases Nat.lt_or_ge k s.allItems.length with h | h
        · exact h
        · rw [List.getElem?_eq_none h] at hk2; cases hk2
      show (s.popped ++ (s.cells ++ [(Item.task ⟨id, e0⟩, false)]).map (·.1))[k]? = _
      simp only [List.map_append, List.map_cons, List.map_nil, ← List.append_assoc]
      show (s.allItems ++ _)[k]? = _
      rw [List.getElem?_append_left hlt]; exact hk2
  | stopReserve =>
    simp only [GC.step, stepWith] at h
    split at h <;> try contradiction
    rename_i hres
    injection h with h; subst h
    obtain ⟨p, hp1, hp2⟩ := hs.atStop (by rw [hres]; simp)
    have hnm := hs.nm (Or.inr (Or.inl hres))
    have hall : ∀ km : Nat, (s.popped ++ (s.cells ++ [(Item.marker, false)]).map (·.1))[km]? = some Item.marker →
        s.allItems[km]? = some Item.marker ∨ km = s.pushIdx := by
      intro km hkm
      simp only [List.map_append, List.map_cons, List.map_nil, ← List.append_assoc] at hkm
      change (s.allItems ++ [Item.marker])[km]? = _ at hkm
      rcases Nat.lt_or_ge km s.allItems.length with hl | hl
      · left; rwa [List.getElem?_append_left hl] at hkm
      · right
        rw [List.getElem?_append_right hl] at hkm
        rcases Nat.eq_zero_or_pos (km - s.allItems.length) with h0 | h0
        · omega
        · obtain ⟨m, hm⟩ := Nat.exists_eq_succ_of_ne_zero (Nat.pos_iff_ne_zero.mp h0)
          rw [hm] at hkm; simp at hkm
    refine ⟨?_, ?_, ?_, ?_, ?_, ?_, ?_⟩
    · intro _; exact ⟨p, hp1, by dsimp only; omega⟩
    · intro _; exact hs.offStop (Or.inl hres)
    · intro hst
      rcases hst with hst | hst | ⟨hst, _⟩ <;> cases hst
    · intro j hj hm
      rcases hall j hm with h | h
      · exact absurd h (hnm j hj)
      · exact ⟨p, hp1, by omega⟩
    · intro i j hi hj hmi hmj
      rcases hall i hmi with h1 | h1
      · exact absurd h1 (hnm i hi)
      · rcases hall j hmj with h2 | h2
        · exact absurd h2 (hnm j hj)
        · omega
    · intro _; exact Or.inl ⟨_, rfl⟩
    · intro hj; cases hj
  | stopPublish =>
    simp only [GC.step, stepWith] at h
    split at h <;> try contradiction
    rename_i k0 hpub
    split at h <;> try contradiction
    injection h with h; subst h
    have e : s.popped ++ (setPublished s.cells (k0 - s.popIdx)).map (·.1) = s.allItems := by
      simp [State.allItems, map_fst_setPublished]
    have ⟨hk1, hk2⟩ := marker_cell_in_allItems hq hpub
    refine ⟨?_, ?_, ?_, ?_, ?_, ?_, ?_⟩
    · intro _; exact hs.atStop (by rw [hpub]; simp)
    · intro _; exact hs.offStop (Or.inr (Or.inl ⟨_, hpub⟩))
    · intro hst
      rcases hst with hst | hst | ⟨hst, _⟩ <;> cases hst
    · intro j
      show _ → (s.popped ++ (setPublished s.cells (k0 - s.popIdx)).map (·.1))[j]? = _ → _
      rw [e]; exact hs.markRun j
    · intro i j
      show _ → _ → (s.popped ++ (setPublished s.cells (k0 - s.popIdx)).map (·.1))[i]? = _ →
        (s.popped ++ (setPublished s.cells (k0 - s.popIdx)).map (·.1))[j]? = _ → _
      rw [e]; exact hs.oneRun i j
    · intro _; exact Or.inr rfl
    · intro _
      refine ⟨k0, ?_, ?_⟩
      · have := hk.base; have := hq.popLen; dsimp only; omega
      · show (s.popped ++ (setPublished s.cells (k0 - s.popIdx)).map (·.1))[k0]? = _
        rw [e]; exact hk2
  | stopJoin =>
    simp only [GC.step, stepWith] at h
    split at h <;> try contradiction
    rename_i hg
    injection h with h; subst h
    refine ⟨?_, ?_, ?_, hs.markRun, hs.oneRun, ?_, ?_⟩
    · intro _; exact hs.atStop (by rw [hg.1]; simp)
    · intro hst
      rcases hst with hst | ⟨k, hst⟩ | hst <;> cases hst
    · intro hst
      rcases hst with hst | hst | ⟨_, hc⟩
      · cases hst
      · cases hst
      · exact absurd rfl hc
    · -- the run's marker has been popped and it is the only one: none is left in the cells
      rintro ⟨b, hb⟩
      exfalso
      obtain ⟨j, hj1, hj2⟩ := cell_marker_index hq hb
      have hrun := (hk.fin hg.2).1
      have hmark : Item.marker ∈ s.popped.drop s.runBase := by
        apply Classical.byContradiction
        intro hn
        have := hk.run.mpr hn
        rw [hrun] at this; cases this
      obtain ⟨i, hi⟩ := List.getElem?_of_mem hmark
      rw [List.getElem?_drop] at hi
      have hil : s.runBase + i < s.popped.length := by
        rcases Nat.lt_or_ge (s.runBase + i) s.popped.length with h | h
        · exact h
        · rw [List.getElem?_eq_none h] at hi; cases hi
      have hi2 : s.allItems[s.runBase + i]? = some Item.marker := by
        simp only [State.allItems]; rw [List.getElem?_append_left hil]; exact hi
      have := hs.oneRun (s.runBase + i) j (Nat.le_add_right _ _) (by have := hk.base; have := hq.popLen; omega) hi2 hj2
      have := hq.popLen
      omega
    · intro hj; cases hj
  | callStop =>
    simp only [GC.step, stepWith] at h
    split at h <;> try contradiction
    rename_i hg
    injection h with h; subst h
    have hnm : ∀ j : Nat, s.runBase ≤ j → s.allItems[j]? ≠ some Item.marker := by
      apply hs.nm
      rcases hg.1 with h | h
      · exact Or.inl h
      · exact Or.inr (Or.inr ⟨h, hg.2⟩)
    refine ⟨fun _ => ⟨s.pushIdx, rfl, Nat.le_refl _⟩, fun _ => hg.2, fun _ => hnm, ?_, hs.oneRun, ?_, ?_⟩
    · intro j hj hm; exact absurd hm (hnm j hj)
    · intro hb
      rcases hs.cellMark hb with ⟨k, hk'⟩ | hk' <;> rcases hg.1 with h | h <;> rw [h] at hk' <;> cases hk'
    · intro hj; cases hj
  | start =>
    simp only [GC.step, stepWith] at h
    split at h
    · rename_i hoff
      injection h with h; subst h
      -- with no collector thread there is no marker in the queue
      have hnone : ∀ j : Nat, s.popped.length ≤ j → s.allItems[j]? ≠ some Item.marker := by
        intro j hj hm
        obtain ⟨b, hb⟩ := allItems_marker_cell hq (by rw [← hq.popLen]; exact hj) hm
        exact hs.offStop (by
          rcases hs.cellMark ⟨b, hb⟩ with h | h
          · exact Or.inr (Or.inl h)
          · exact Or.inr (Or.inr h)) hoff
      refine ⟨hs.atStop, fun _ => by simp, fun _ => hnone, ?_, ?_, hs.cellMark, ?_⟩
      · intro j hj hm; exact absurd hm (hnone j hj)
      · intro i j hi _ hmi _; exact absurd hmi (hnone i hi)
      · intro hj; exact absurd hoff (hs.offStop (Or.inr (Or.inr hj)))
    · injection h with h; subst h; exact hs
  | publish id =>
    simp only [GC.step, stepWith] at h
    split at h <;> try contradiction
    rename_i e0 k0 hpub
    split at h <;> try contradiction
    injection h with h; subst h
    have e : s.popped ++ (setPublished s.cells (k0 - s.popIdx)).map (·.1) = s.allItems := by
      simp [State.allItems, map_fst_setPublished]
    refine ⟨hs.atStop, hs.offStop, ?_, ?_, ?_, ?_, ?_⟩
    · intro hst j
      show _ → (s.popped ++ (setPublished s.cells (k0 - s.popIdx)).map (·.1))[j]? ≠ _
      rw [e]; exact hs.nm hst j
    · intro j
      show _ → (s.popped ++ (setPublished s.cells (k0 - s.popIdx)).map (·.1))[j]? = _ → _
      rw [e]; exact hs.markRun j
    · intro i j
      show _ → _ → (s.popped ++ (setPublished s.cells (k0 - s.popIdx)).map (·.1))[i]? = _ →
        (s.popped ++ (setPublished s.cells (k0 - s.popIdx)).map (·.1))[j]? = _ → _
      rw [e]; exact hs.oneRun i j
    · rintro ⟨b, hb⟩
      obtain ⟨b', hb'⟩ := mem_setPublished hb
      exact hs.cellMark ⟨b', hb'⟩
    · intro hj
      show ∃ k : Nat, _ ∧ (s.popped ++ (setPublished s.cells (k0 - s.popIdx)).map (·.1))[k]? = _
      rw [e]; exact hs.joinMark hj
  | pop n =>
    simp only [GC.step, stepWith] at h
    split at h <;> try contradiction
    · rename_i hpc
      split at h <;> try contradiction
      injection h with h; subst h
      apply hs.popCells hq
      · rw [hpc]; simp
      · split <;> simp
    · rename_i lim hpc
      split at h <;> try contradiction
      injection h with h; subst h
      apply hs.popCells hq
      · rw [hpc]; simp
      · simp
  | consumeBegin =>
    simp only [GC.step, stepWith] at h
    split at h <;> try contradiction
    rename_i hg
    injection h with h; subst h
    exact hs.frame rfl rfl rfl rfl rfl rfl (by simp [hg.1])
  | scanBegin =>
    simp only [GC.step, stepWith] at h
    split at h <;> try contradiction
    rename_i hg
    injection h with h; subst h
    refine hs.frame rfl rfl rfl rfl rfl rfl ?_
    rcases hg with hg | hg
    · simp [hg]
    · simp [hg.1]
  | scanEnd m =>
    simp only [GC.step, stepWith] at h
    split at h <;> try contradiction
    rename_i hg
    injection h with h; subst h
    exact hs.frame rfl rfl rfl rfl rfl rfl (by simp [hg.1])
  | reclaim id =>
    simp only [GC.step, stepWith] at h
    split at h <;> try contradiction
    rename_i m cnt hpc
    split at h <;> try contradiction
    split at h <;> try contradiction
    injection h with h; subst h
    exact hs.frame rfl rfl rfl rfl rfl rfl (by simp [hpc])
  | passEnd =>
    simp only [GC.step, stepWith] at h
    split at h <;> try contradiction
    rename_i m cnt hpc
    split at h <;> try contradiction
    injection h with h; subst h
    exact hs.frame rfl rfl rfl rfl rfl rfl (by simp [hpc])
  | exit =>
    simp only [GC.step, stepWith] at h
    split at h <;> try contradiction
    rename_i hg
    injection h with h; subst h
    exact hs.frame rfl rfl rfl rfl rfl rfl (by simp [hg.1])
  | _ =>
    simp only [GC.step, stepWith] at h <;> (repeat' split at h) <;>
    first
    | contradiction
    | (injection h with h; subst h; exact hs.frame rfl rfl rfl rfl rfl rfl Iff.rfl)

/-- all invariants, for every reachable state -/
structure AllInv (c : Cfg) (s : State) : Prop where
  q : QInv c s
  cns : CInv s
  k : KInv s
  e : EInv s
  st : SInv s

theorem reach_inv {c : Cfg} {s : State} (h : Reach c s) : AllInv c s := by
  refine Reach.inv (c := c) (AllInv c) ⟨QInv.init c, CInv.init, KInv.init, EInv.init, SInv.init⟩ ?_ s h
  intro s s' l _ hi hs
  exact ⟨hi.q.step hs, hi.cns.step hs, hi.k.step hs, hi.e.step hs, hi.st.step hi.q hi.k hs⟩

/-! ### consequences used by the property theorems -/

/-- in a list that contains a marker, the element right after the marker-free prefix is a marker -/
theorem getElem?_firstMarker {l : List Item} (h : Item.marker ∈ l) :
    l[(l.takeWhile notMarker).length]? = some Item.marker := by
  induction l with
  | nil => simp at h
  | cons x xs ih =>
    cases x with
    | marker => simp
    | task t => simp [ih (by simpa using h)]

theorem getElem?_takeWhile_notMarker {l : List Item} {k : Nat} (hk : k < (l.takeWhile notMarker).length) :
    (l.takeWhile notMarker)[k]? = l[k]? := by
  induction l generalizing k with
  | nil => simp at hk
  | cons x xs ih =>
    cases x with
    | marker => simp at hk
    | task t =>
      cases k with
      | zero => simp
      | succ k => simp at hk ⊢; exact ih hk

theorem invoked_eq (s : State) : (s.log.map Inv.task).map (·.id) = s.invoked := by
  simp [State.invoked, Inv.task]

/-- every ticketed task is in exactly one of: invoked, waiting in `tasks[index..]`, skipped behind
a marker, still in the queue -/
def State.places (s : State) : List Nat :=
  s.invoked ++ (s.tasks.drop s.index).map (·.id) ++ s.dropped.map (·.id) ++ taskIds (s.cells.map (·.1))

theorem places_perm {c : Cfg} {s : State} (h : Reach c s) : s.places.Perm (taskIds s.allItems) := by
  have hi := reach_inv h
  have hp := hi.k.perm
  have hsplit := hi.k.split
  unfold State.places
  simp only [State.allItems, taskIds_append]
  apply List.Perm.append_right
  simp only [taskIds]
  have : ((tasksOf s.popped).map (·.id)).Perm ((s.consumed ++ s.dropped).map (·.id)) := hp.map _
  refine List.Perm.trans ?_ this.symm
  rw [← hsplit]
  simp only [List.map_append, invoked_eq, List.append_assoc]
  exact List.Perm.refl _

theorem invoked_nodup {c : Cfg} {s : State} (h : Reach c s) : s.invoked.Nodup := by
  have hp := places_perm h
  have hn := (reach_inv h).cns.nodup
  have : s.places.Nodup := hp.nodup_iff.mpr hn
  unfold State.places at this
  simp only [List.append_assoc] at this
  exact (List.nodup_append.mp this).1

/-! ### what a returned `stop()` guarantees, over any number of start / stop cycles -/

theorem absorb_dropped {t : Task} {l : List Item} (h : t ∈ (absorb l).2.1) :
    ∃ i j : Nat, i < j ∧ l[i]? = some Item.marker ∧ l[j]? = some (Item.task t) := by
  induction l with
  | nil => simp [absorb] at h
  | cons x xs ih =>
    cases x with
    | marker =>
      simp only [absorb] at h
      obtain ⟨j, hj⟩ := List.getElem?_of_mem (mem_tasksOf.mp h)
      exact ⟨0, j + 1, by omega, by simp, by simpa using hj⟩
    | task t' =>
      simp only [absorb] at h
      obtain ⟨i, j, hij, hi, hj⟩ := ih h
      exact ⟨i + 1, j + 1, by omega, by simpa using hi, by simpa using hj⟩

/-- tasks queued behind a marker, and tasks skipped behind a marker, took their ticket while a
`stop()` was in progress -/
structure LInv (s : State) : Prop where
  lateCells : ∀ (i j : Nat) t b b', i < j → s.cells[i]? = some (Item.marker, b) →
    s.cells[j]? = some (Item.task t, b') → t.id ∈ s.late
  dropLate : ∀ t ∈ s.dropped, t.id ∈ s.late

theorem LInv.init : LInv State.init := by
  constructor <;> simp [State.init]

theorem getElem?_setPublished_fst {cells : List (Item × Bool)} {i j : Nat} {x : Item} {b : Bool}
    (h : (setPublished cells i)[j]? = some (x, b)) : ∃ b0, cells[j]? = some (x, b0) := by
  rw [getElem?_setPublished] at h
  cases hc : cells[j]? with
  | none => rw [hc] at h; cases h
  | some cl =>
    rw [hc] at h
    simp only [Option.map_some, Option.some.injEq] at h
    obtain ⟨y, b1⟩ := cl
    split at h
    · injection h with h1 h2; subst h1; exact ⟨b1, rfl⟩
    · injection h with h1 h2; subst h1; exact ⟨b1, rfl⟩

theorem LInv.step {c : Cfg} {s s' : State} {l : Lbl} (hst : SInv s) (hl : LInv s)
    (h : step c s l = some s') : LInv s' := by
  cases l with
  | reserve id =>
    simp only [GC.step, stepWith] at h
    split at h <;> try contradiction
    rename_i e0 hres
    injection h with h; subst h
    have hsub : ∀ x, x ∈ s.late → x ∈ (match s.stop with
        | .publish _ => id :: s.late | .join => id :: s.late | _ => s.late) := by
      intro x hx; split <;> simp [hx]
    refine ⟨?_, fun t ht => hsub _ (hl.dropLate t ht)⟩
    intro i j t b b' hij hi hj
    dsimp only at hi hj ⊢
    rw [getElem?_append_singleton] at hi hj
    split at hi
    · rename_i hil
      split at hj
      · exact hsub _ (hl.lateCells i j t b b' hij hi hj)
      · split at hj
        · -- the new task sits behind a queued marker: a stop() is in progress
          injection hj with hj; injection hj with hj _; injection hj with hj; subst hj
          have := hst.cellMark ⟨b, List.mem_of_getElem? hi⟩
          rcases this with ⟨k, hk⟩ | hk <;> rw [hk] <;> simp
        · cases hj
    · split at hi
      · injection hi with hi; injection hi with hi _; cases hi
      · cases hi
  | stopReserve =>
    simp only [GC.step, stepWith] at h
    split at h <;> try contradiction
    injection h with h; subst h
    refine ⟨?_, hl.dropLate⟩
    intro i j t b b' hij hi hj
    dsimp only at hi hj ⊢
    rw [getElem?_append_singleton] at hi hj
    split at hj
    · rename_i hjl
      rw [if_pos (by omega)] at hi
      exact hl.lateCells i j t b b' hij hi hj
    · split at hj
      · injection hj with hj; injection hj with hj _; cases hj
      · cases hj
  | publish id =>
    simp only [GC.step, stepWith] at h
    split at h <;> try contradiction
    split at h <;> try contradiction
    injection h with h; subst h
    refine ⟨?_, hl.dropLate⟩
    intro i j t b b' hij hi hj
    obtain ⟨b0, hi0⟩ := getElem?_setPublished_fst hi
    obtain ⟨b1, hj0⟩ := getElem?_setPublished_fst hj
    exact hl.lateCells i j t b0 b1 hij hi0 hj0
  | stopPublish =>
    simp only [GC.step, stepWith] at h
    split at h <;> try contradiction
    split at h <;> try contradiction
    injection h with h; subst h
    refine ⟨?_, hl.dropLate⟩
    intro i j t b b' hij hi hj
    obtain ⟨b0, hi0⟩ := getElem?_setPublished_fst hi
    obtain ⟨b1, hj0⟩ := getElem?_setPublished_fst hj
    exact hl.lateCells i j t b0 b1 hij hi0 hj0
  | pop n =>
    have key : ∀ pc, LInv { popCells s n with cpc := pc } := by
      intro pc
      refine ⟨?_, ?_⟩
      · intro i j t b b' hij hi hj
        simp only [GC.popCells, List.getElem?_drop] at hi hj
        exact hl.lateCells (n + i) (n + j) t b b' (by omega) hi hj
      · intro t ht
        simp only [GC.popCells, List.mem_append] at ht
        rcases ht with ht | ht
        · exact hl.dropLate t ht
        · obtain ⟨i, j, hij, hi, hj⟩ := absorb_dropped ht
          rw [List.getElem?_map] at hi hj
          cases hci : (s.cells.take n)[i]? with
          | none => rw [hci] at hi; cases hi
          | some ci =>
            cases hcj : (s.cells.take n)[j]? with
            | none => rw [hcj] at hj; cases hj
            | some cj =>
              rw [hci] at hi; rw [hcj] at hj
              obtain ⟨xi, bi⟩ := ci
              obtain ⟨xj, bj⟩ := cj
              simp at hi hj; subst hi; subst hj
              rw [List.getElem?_take] at hci hcj
              split at hci <;> try contradiction
              split at hcj <;> try contradiction
              exact hl.lateCells i j t bi bj hij hci hcj
    simp only [GC.step, stepWith] at h
    split at h <;> try contradiction
    · split at h <;> try contradiction
      injection h with h; subst h; exact key _
    · split at h <;> try contradiction
      injection h with h; subst h; exact key _
  | _ =>
    simp only [GC.step, stepWith] at h <;> (repeat' split at h) <;>
    first
    | contradiction
    | (injection h with h; subst h; exact ⟨hl.lateCells, hl.dropLate⟩)

theorem reach_linv {c : Cfg} {s : State} (h : Reach c s) : LInv s := by
  refine Reach.inv (c := c) LInv LInv.init ?_ s h
  intro s s' l hr hi hs
  exact hi.step (reach_inv hr).st hs

/-- the invocation log and the skipped list only grow -/
theorem step_log_dropped_ext {c : Cfg} {s s' : State} {l : Lbl} (h : step c s l = some s') :
    (∃ e1, s'.log = s.log ++ e1) ∧ (∃ e2, s'.dropped = s.dropped ++ e2) := by
  cases l with
  | pop n =>
    simp only [GC.step, stepWith] at h
    split at h <;> try contradiction
    · split at h <;> try contradiction
      injection h with h; subst h; exact ⟨⟨[], by simp [popCells]⟩, ⟨_, rfl⟩⟩
    · split at h <;> try contradiction
      injection h with h; subst h; exact ⟨⟨[], by simp [popCells]⟩, ⟨_, rfl⟩⟩
  | reclaim id =>
    simp only [GC.step, stepWith] at h
    split at h <;> try contradiction
    split at h <;> try contradiction
    split at h <;> try contradiction
    injection h with h; subst h
    exact ⟨⟨_, rfl⟩, ⟨[], by simp⟩⟩
  | _ =>
    simp only [GC.step, stepWith] at h <;> (repeat' split at h) <;>
    first
    | contradiction
    | (injection h with h; subst h; exact ⟨⟨[], by simp⟩, ⟨[], by simp⟩⟩)

/-- `stop` becomes `returned` only by a join; otherwise it already was, with the same recorded push index -/
theorem step_returned {c : Cfg} {s s' : State} {l : Lbl} (h : step c s l = some s') (hr : s'.stop = .returned) :
    l = .stopJoin ∨ (s.stop = .returned ∧ s'.pushAtStop = s.pushAtStop) := by
  cases l with
  | stopJoin => exact Or.inl rfl
  | pop n =>
    simp only [GC.step, stepWith] at h
    split at h <;> try contradiction
    · split at h <;> try contradiction
      injection h with h; subst h; exact Or.inr ⟨hr, rfl⟩
    · split at h <;> try contradiction
      injection h with h; subst h; exact Or.inr ⟨hr, rfl⟩
  | _ =>
    simp only [GC.step, stepWith] at h <;> (repeat' split at h) <;>
    first
    | contradiction
    | (injection h with h; subst h; first | exact Or.inr ⟨hr, rfl⟩ | cases hr)

/-- **the guarantee of a returned `stop()`**, stable under everything that happens afterwards
(including the next `start()`): every task whose ticket is below the push index recorded when that
`stop()` was called has been invoked, or was skipped behind a marker -/
def RProp (s : State) : Prop :=
  s.stop = .returned → ∀ p, s.pushAtStop = some p → ∀ (k : Nat) (t : Task), k < p →
    s.allItems[k]? = some (Item.task t) → t.id ∈ s.invoked ∨ t ∈ s.dropped

theorem RProp.step {c : Cfg} {s s' : State} {l : Lbl} (hr : Reach c s) (hp : RProp s)
    (h : step c s l = some s') : RProp s' := by
  have hi := reach_inv hr
  intro hret p hpp k t hkp hkt
  rcases step_returned h hret with hl | ⟨hold, hpsame⟩
  · -- the join: everything below `p` has been popped, and everything popped was consumed or skipped
    subst hl
    simp only [GC.step, stepWith] at h
    split at h <;> try contradiction
    rename_i hg
    injection h with h; subst h
    have ⟨hrun, hdrop⟩ := hi.k.fin hg.2
    have hmark : Item.marker ∈ s.popped.drop s.runBase := by
      apply Classical.byContradiction
      intro hn
      have := hi.k.run.mpr hn
      rw [hrun] at this; cases this
    obtain ⟨i, hi1⟩ := List.getElem?_of_mem hmark
    rw [List.getElem?_drop] at hi1
    have hil : s.runBase + i < s.popped.length := by
      rcases Nat.lt_or_ge (s.runBase + i) s.popped.length with h | h
      · exact h
      · rw [List.getElem?_eq_none h] at hi1; cases hi1
    have hi2 : s.allItems[s.runBase + i]? = some Item.marker := by
      simp only [State.allItems]; rw [List.getElem?_append_left hil]; exact hi1
    obtain ⟨p', hp', hple⟩ := hi.st.markRun _ (Nat.le_add_right _ _) hi2
    have : p' = p := by
      have : s.pushAtStop = some p := hpp
      rw [this] at hp'; injection hp' with hp'; exact hp'.symm
    subst this
    have hkpop : s.popped[k]? = some (Item.task t) := by
      have hkt' : s.allItems[k]? = some (Item.task t) := hkt
      simp only [State.allItems] at hkt'
      rwa [List.getElem?_append_left (by omega)] at hkt'
    have hmem : t ∈ s.consumed ++ s.dropped :=
      hi.k.perm.subset (mem_tasksOf.mpr (List.mem_of_getElem? hkpop))
    rw [List.mem_append] at hmem
    rcases hmem with hc | hd
    · left
      have hcons : s.log.map Inv.task = s.consumed := by
        have := hi.k.split; rw [hdrop] at this; simpa using this
      rw [← hcons, List.mem_map] at hc
      obtain ⟨x, hx, hxe⟩ := hc
      show t.id ∈ s.invoked
      simp only [State.invoked, List.mem_map]
      exact ⟨x, hx, by rw [← hxe]; rfl⟩
    · exact Or.inr hd
  · -- nothing relevant changes: the ticket sequence, the log and the skipped list only grow
    rw [hpsame] at hpp
    obtain ⟨ext, hext⟩ := step_allItems h
    obtain ⟨⟨e1, he1⟩, ⟨e2, he2⟩⟩ := step_log_dropped_ext h
    obtain ⟨p0, hp0, hple⟩ := hi.st.atStop (by rw [hold]; simp)
    have : p0 = p := by rw [hpp] at hp0; injection hp0 with hp0; exact hp0.symm
    subst this
    have hlen := allItems_length hi.q
    have hkt0 : s.allItems[k]? = some (Item.task t) := by
      rw [hext, List.getElem?_append_left (by omega)] at hkt; exact hkt
    rcases hp hold p0 hpp k t hkp hkt0 with h1 | h1
    · left
      simp only [State.invoked, he1, List.map_append, List.mem_append]
      exact Or.inl h1
    · right; rw [he2]; exact List.mem_append_left _ h1

theorem reach_rprop {c : Cfg} {s : State} (h : Reach c s) : RProp s := by
  refine Reach.inv (c := c) RProp (by intro h; cases h) ?_ s h
  intro s s' l hr hi hs
  exact hi.step hr hs

/-- when `stop()` has returned, every reclaimer whose `retire` took its ticket before that `stop()`
was called — and not while an earlier `stop()` was in progress — has been invoked -/
theorem all_before_stop {c : Cfg} {s : State} (h : Reach c s) (hret : s.stop = .returned)
    {id e k p : Nat} (hcall : s.calls id = .publish e k ∨ s.calls id = .done e k)
    (hp : s.pushAtStop = some p) (hk : k < p) (hlate : id ∉ s.late) : id ∈ s.invoked := by
  have hi := reach_inv h
  have hkt := hi.q.tick id e k hcall
  rcases reach_rprop h hret p hp k ⟨id, e⟩ hk hkt with h1 | h1
  · exact h1
  · exact absurd ((reach_linv h).dropLate _ h1) hlate

end Babylon.GC
