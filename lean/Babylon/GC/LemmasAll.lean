/-
  Invariants of the GarbageCollector model (property C10), part 4: the stop marker's position,
  all invariants bundled over reachable states, and the list facts the property theorems use.
-/
import Babylon.GC.LemmasLoop
import Babylon.GC.LemmasEpoch

namespace Babylon.GC
open Babylon.Core Babylon.Gen.GC

/-- where stop markers can be in the ticket sequence -/
structure SInv (s : State) : Prop where
  noMark : s.stop = .idle → Item.marker ∉ s.allItems ∧ s.pushAtStop = none
  atStop : s.stop ≠ .idle → ∃ p, s.pushAtStop = some p ∧ p ≤ s.pushIdx
  mark : ∀ km, s.allItems[km]? = some .marker → ∃ p, s.pushAtStop = some p ∧ p ≤ km

theorem SInv.init : SInv State.init := by
  constructor <;> simp [State.init, State.allItems]

theorem getElem?_append_singleton_ne {α : Type} {l : List α} {x y : α} {k : Nat} (hxy : x ≠ y)
    (h : (l ++ [x])[k]? = some y) : l[k]? = some y := by
  rcases Nat.lt_or_ge k l.length with hl | hl
  · rwa [List.getElem?_append_left hl] at h
  · rw [List.getElem?_append_right hl] at h
    rcases Nat.eq_zero_or_pos (k - l.length) with h0 | h0
    · rw [h0] at h; simp at h; exact absurd h hxy
    · obtain ⟨m, hm⟩ := Nat.exists_eq_succ_of_ne_zero (Nat.pos_iff_ne_zero.mp h0)
      rw [hm] at h; simp at h

theorem SInv.step {c : Cfg} {s s' : State} {l : Lbl} (hq : QInv c s) (hs : SInv s) (h : step c s l = some s') : SInv s' := by
  cases l with
  | reserve id =>
    simp only [GC.step, stepWith] at h
    split at h <;> try contradiction
    rename_i e0 hres
    injection h with h; subst h
    have hall : ∀ km : Nat, (s.popped ++ (s.cells ++ [(Item.task ⟨id, e0⟩, false)]).map (·.1))[km]? = some Item.marker →
        s.allItems[km]? = some Item.marker := by
      intro km hkm
      simp only [List.map_append, List.map_cons, List.map_nil, ← List.append_assoc] at hkm
      exact getElem?_append_singleton_ne (by simp) hkm
    refine ⟨?_, ?_, ?_⟩
    · intro hi
      have ⟨h1, h2⟩ := hs.noMark hi
      refine ⟨?_, h2⟩
      show Item.marker ∉ s.popped ++ (s.cells ++ [(Item.task ⟨id, e0⟩, false)]).map (·.1)
      intro hm
      apply h1
      simp only [State.allItems, List.map_append, List.mem_append, List.map_cons, List.map_nil, List.mem_singleton] at hm ⊢
      rcases hm with hm | hm | hm
      · exact Or.inl hm
      · exact Or.inr hm
      · cases hm
    · intro hi
      obtain ⟨p, hp1, hp2⟩ := hs.atStop hi
      exact ⟨p, hp1, by dsimp only; omega⟩
    · intro km hkm
      exact hs.mark km (hall km hkm)
  | stopReserve =>
    simp only [GC.step, stepWith] at h
    split at h <;> try contradiction
    rename_i hres
    injection h with h; subst h
    have hlen := allItems_length hq
    obtain ⟨p, hp1, hp2⟩ := hs.atStop (by rw [hres]; simp)
    refine ⟨by simp, ?_, ?_⟩
    · intro _; exact ⟨p, hp1, by dsimp only; omega⟩
    · intro km hkm
      change (s.popped ++ (s.cells ++ [(Item.marker, false)]).map (·.1))[km]? = some Item.marker at hkm
      simp only [List.map_append, List.map_cons, List.map_nil, ← List.append_assoc] at hkm
      rcases Nat.lt_or_ge km s.allItems.length with hl | hl
      · have : s.allItems[km]? = some Item.marker := by
          rw [← hkm]; exact (List.getElem?_append_left hl).symm
        exact hs.mark km this
      · exact ⟨p, hp1, by omega⟩
  | callStop =>
    simp only [GC.step, stepWith] at h
    split at h <;> try contradiction
    rename_i hidle
    injection h with h; subst h
    have ⟨h1, h2⟩ := hs.noMark hidle
    refine ⟨by simp, fun _ => ⟨s.pushIdx, rfl, Nat.le_refl _⟩, ?_⟩
    intro km hkm
    exact absurd (List.mem_of_getElem? hkm) h1
  | publish id =>
    simp only [GC.step, stepWith] at h
    split at h <;> try contradiction
    rename_i e0 k0 hpub
    split at h <;> try contradiction
    injection h with h; subst h
    have e : s.popped ++ (setPublished s.cells (k0 - s.popIdx)).map (·.1) = s.allItems := by
      simp [State.allItems, map_fst_setPublished]
    refine ⟨?_, hs.atStop, ?_⟩
    · intro hi
      show Item.marker ∉ s.popped ++ (setPublished s.cells (k0 - s.popIdx)).map (·.1) ∧ _
      rw [e]; exact hs.noMark hi
    · intro km
      show (s.popped ++ (setPublished s.cells (k0 - s.popIdx)).map (·.1))[km]? = _ → _
      rw [e]; exact hs.mark km
  | stopPublish =>
    simp only [GC.step, stepWith] at h
    split at h <;> try contradiction
    rename_i k0 hpub
    split at h <;> try contradiction
    injection h with h; subst h
    have e : s.popped ++ (setPublished s.cells (k0 - s.popIdx)).map (·.1) = s.allItems := by
      simp [State.allItems, map_fst_setPublished]
    refine ⟨by simp, ?_, ?_⟩
    · intro _; exact hs.atStop (by rw [hpub]; simp)
    · intro km
      show (s.popped ++ (setPublished s.cells (k0 - s.popIdx)).map (·.1))[km]? = _ → _
      rw [e]; exact hs.mark km
  | stopJoin =>
    simp only [GC.step, stepWith] at h
    split at h <;> try contradiction
    rename_i hg
    injection h with h; subst h
    exact ⟨by simp, fun _ => hs.atStop (by rw [hg.1]; simp), hs.mark⟩
  | pop n =>
    simp only [GC.step, stepWith] at h
    split at h <;> try contradiction
    · split at h <;> try contradiction
      injection h with h; subst h
      refine ⟨?_, hs.atStop, ?_⟩
      · intro hi; rw [popCells_allItems']; exact hs.noMark hi
      · intro km; rw [popCells_allItems']; exact hs.mark km
    · split at h <;> try contradiction
      injection h with h; subst h
      refine ⟨?_, hs.atStop, ?_⟩
      · intro hi; rw [popCells_allItems']; exact hs.noMark hi
      · intro km; rw [popCells_allItems']; exact hs.mark km
  | _ =>
    simp only [GC.step, stepWith] at h <;> (repeat' split at h) <;>
    first
    | contradiction
    | (injection h with h; subst h; exact ⟨hs.noMark, hs.atStop, hs.mark⟩)

/-- all invariants, for every reachable state -/
structure AllInv (c : Cfg) (s : State) : Prop where
  q : QInv c s
  cns : CInv s
  k : KInv s
  e : EInv s
  st : SInv s

theorem reach_inv {c : Cfg} {s : State} (h : Reach c s) : AllInv c s := by
  refine Reach.inv (c := c) (AllInv c) ⟨QInv.init c, CInv.init, KInv.init, EInv.init, SInv.init⟩ ?_ s h
  intro s s' l _ hi hs
  exact ⟨hi.q.step hs, hi.cns.step hs, hi.k.step hs, hi.e.step hs, hi.st.step hi.q hs⟩

/-! ### consequences used by the property theorems -/

/-- in a list that contains a marker, the element right after the marker-free prefix is a marker -/
theorem getElem?_firstMarker {l : List Item} (h : Item.marker ∈ l) :
    l[(l.takeWhile notMarker).length]? = some Item.marker := by
  induction l with
  | nil => simp at h
  | cons x xs ih =>
    cases x with
    | marker => simp
    | task t => simp [ih (by simpa using h)]

theorem getElem?_takeWhile_notMarker {l : List Item} {k : Nat} (hk : k < (l.takeWhile notMarker).length) :
    (l.takeWhile notMarker)[k]? = l[k]? := by
  induction l generalizing k with
  | nil => simp at hk
  | cons x xs ih =>
    cases x with
    | marker => simp at hk
    | task t =>
      cases k with
      | zero => simp
      | succ k => simp at hk ⊢; exact ih hk

theorem invoked_eq (s : State) : (s.log.map Inv.task).map (·.id) = s.invoked := by
  simp [State.invoked, Inv.task]

/-- every ticketed task is in exactly one of: invoked, waiting in `tasks[index..]`, skipped behind
a marker, still in the queue -/
def State.places (s : State) : List Nat :=
  s.invoked ++ (s.tasks.drop s.index).map (·.id) ++ s.dropped.map (·.id) ++ taskIds (s.cells.map (·.1))

theorem places_perm {c : Cfg} {s : State} (h : Reach c s) : s.places.Perm (taskIds s.allItems) := by
  have hi := reach_inv h
  have hp := hi.k.perm
  have hsplit := hi.k.split
  unfold State.places
  simp only [State.allItems, taskIds_append]
  apply List.Perm.append_right
  simp only [taskIds]
  have : ((tasksOf s.popped).map (·.id)).Perm ((s.consumed ++ s.dropped).map (·.id)) := hp.map _
  refine List.Perm.trans ?_ this.symm
  rw [← hsplit]
  simp only [List.map_append, invoked_eq, List.append_assoc]
  exact List.Perm.refl _

theorem invoked_nodup {c : Cfg} {s : State} (h : Reach c s) : s.invoked.Nodup := by
  have hp := places_perm h
  have hn := (reach_inv h).cns.nodup
  have : s.places.Nodup := hp.nodup_iff.mpr hn
  unfold State.places at this
  simp only [List.append_assoc] at this
  exact (List.nodup_append.mp this).1

/-- when stop() has returned, every task whose ticket precedes every marker ticket was invoked -/
theorem all_before_marker {c : Cfg} {s : State} (h : Reach c s) (hret : s.stop = .returned)
    {id e k : Nat} (hcall : s.calls id = .publish e k ∨ s.calls id = .done e k)
    (hbefore : ∀ km : Nat, s.allItems[km]? = some Item.marker → k < km) : id ∈ s.invoked := by
  have hi := reach_inv h
  have hdone := hi.k.ret hret
  have ⟨hrun, hdrop⟩ := hi.k.fin hdone
  have hcons : s.log.map Inv.task = s.consumed := by
    have := hi.k.split; rw [hdrop] at this; simpa using this
  have hmark : Item.marker ∈ s.popped := by
    apply Classical.byContradiction
    intro hn
    have := hi.k.run.mpr hn
    rw [hrun] at this; cases this
  have hk := hi.q.tick id e k hcall
  -- position of the first marker
  have hj := getElem?_firstMarker hmark
  have hjlt : (s.popped.takeWhile notMarker).length < s.popped.length := by
    rcases Nat.lt_or_ge (s.popped.takeWhile notMarker).length s.popped.length with hl | hl
    · exact hl
    · rw [List.getElem?_eq_none hl] at hj; cases hj
  have hkj : k < (s.popped.takeWhile notMarker).length := by
    apply hbefore
    simp only [State.allItems]
    rw [List.getElem?_append_left hjlt]; exact hj
  have hkp : s.popped[k]? = some (Item.task ⟨id, e⟩) := by
    simp only [State.allItems] at hk
    rwa [List.getElem?_append_left (by omega)] at hk
  have hmem : Item.task ⟨id, e⟩ ∈ s.popped.takeWhile notMarker := by
    apply List.mem_of_getElem? (i := k)
    rw [getElem?_takeWhile_notMarker hkj]; exact hkp
  have hcm : (⟨id, e⟩ : Task) ∈ s.consumed := by
    have := mem_tasksOf.mpr hmem
    exact hi.k.pre.subset this
  rw [← hcons] at hcm
  rw [List.mem_map] at hcm
  obtain ⟨x, hx, hxe⟩ := hcm
  simp only [State.invoked, List.mem_map]
  refine ⟨x, hx, ?_⟩
  have : x.task.id = id := by rw [hxe]
  simpa [Inv.task] using this

end Babylon.GC
