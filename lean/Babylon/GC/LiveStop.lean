/-
  Termination of `stop()` (property C10), part 3: the situations in which the stopping thread is
  the helpful actor (take the marker's ticket, publish the marker, join the finished collector).
-/
import Babylon.GC.LiveSteps

namespace Babylon.GC
open Babylon.Core Babylon.Gen.GC

/-- `stop()` has been called and has not taken the marker's ticket yet -/
theorem scen_reserve {c : Cfg} (x : Exec c) (n0 : Nat) (hf : Fair x n0) :
    ∀ n, n0 ≤ n → (x.σ n).stop = .reserve → ∃ m, n < m ∧ mu (x.σ m) < mu (x.σ n) := by
  apply progress x n0 hf Lbl.isStop (fun s => s.stop = .reserve) (fun _ => 0)
  · intro n hn hc
    apply hf.stopFair n hn
    left; simp [step, stepWith, hc]
  · intro s s' l g g' hc hh hr hs
    left
    cases l <;> first | (cases hh; done) | skip
    · simp only [step, stepWith, hc, if_true] at hs
      injection hs with hs; subst hs
      simp [mu, stopRank, hc]; omega
    · simp [step, stepWith, hc] at hs
    · simp [step, stepWith, hc] at hs
  · intro s s' l g g' hc hh hr hs
    right
    exact ⟨by rw [frame_nonStop hh hr hs]; exact hc, Nat.le_refl _⟩

/-- the marker has its ticket and there is room for it -/
theorem scen_publish {c : Cfg} (x : Exec c) (n0 : Nat) (hf : Fair x n0) :
    ∀ n, n0 ≤ n → (∃ k, (x.σ n).stop = .publish k ∧ k < (x.σ n).popIdx + c.cap) →
      ∃ m, n < m ∧ mu (x.σ m) < mu (x.σ n) := by
  apply progress x n0 hf Lbl.isStop (fun s => ∃ k, s.stop = .publish k ∧ k < s.popIdx + c.cap) (fun _ => 0)
  · intro n hn ⟨k, hk, hroom⟩
    apply hf.stopFair n hn
    have hq := (reach_inv (hf.good n hn).reach).q
    have := (hq.spub k hk).1
    right; left
    simp [step, stepWith, hk, this, hroom]
  · intro s s' l g g' ⟨k, hk, hroom⟩ hh hr hs
    left
    cases l <;> first | (cases hh; done) | skip
    · simp [step, stepWith, hk] at hs
    · simp only [step, stepWith, hk] at hs
      split at hs <;> try contradiction
      injection hs with hs; subst hs
      simp [mu, stopRank, hk, setPublished]
    · simp [step, stepWith, hk] at hs
  · intro s s' l g g' ⟨k, hk, hroom⟩ hh hr hs
    right
    refine ⟨⟨k, by rw [frame_nonStop hh hr hs]; exact hk, ?_⟩, Nat.le_refl _⟩
    have := popIdx_mono hs
    omega

/-- the collector has finished and the stopping thread waits in `join` -/
theorem scen_join {c : Cfg} (x : Exec c) (n0 : Nat) (hf : Fair x n0) :
    ∀ n, n0 ≤ n → ((x.σ n).stop = .join ∧ (x.σ n).cpc = .done) →
      ∃ m, n < m ∧ mu (x.σ m) < mu (x.σ n) := by
  apply progress x n0 hf Lbl.isStop (fun s => s.stop = .join ∧ s.cpc = .done) (fun _ => 0)
  · intro n hn ⟨h1, h2⟩
    apply hf.stopFair n hn
    right; right
    simp [step, stepWith, h1, h2]
  · intro s s' l g g' ⟨h1, h2⟩ hh hr hs
    left
    cases l <;> first | (cases hh; done) | skip
    · simp [step, stepWith, h1] at hs
    · simp [step, stepWith, h1] at hs
    · simp only [step, stepWith, h1, h2] at hs
      simp at hs; subst hs
      simp [mu, stopRank, h1, h2, collActive]
  · intro s s' l g g' ⟨h1, h2⟩ hh hr hs
    right
    refine ⟨⟨by rw [frame_nonStop hh hr hs]; exact h1, ?_⟩, Nat.le_refl _⟩
    cases hc : l.isColl with
    | true => exact absurd h2 (coll_not_done hc hs)
    | false =>
      rw [(frame_nonColl hc (by intro h; subst h; cases hr) (by intro h; subst h; cases hh) hs).1]; exact h2

end Babylon.GC
