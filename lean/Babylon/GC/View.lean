/-
  View-level hand-off for the garbage collector (property C10) over the release/acquire VIEW memory
  model (Babylon/Core/MemView.lean): when the collector invokes a reclaimer,
    (a) everything the retiring thread had seen or done before `retire()` (e.g. the unlinking of the
        object), and
    (b) every access a reader made inside a critical region that the low-water-mark scan saw closed,
  are in the collector thread's view — in EVERY execution of the view model, stale reads included —
  so the reclaimer's destruction of the object cannot race with them.

  Locations: `qslot i` (the version word of queue slot `i`), `eslot j` (the version word of epoch slot
  `j`), `data k` (anything else: the object, the structure it was unlinked from; plain accesses are
  accesses of any order — a read may return ANY message the reader's view admits).
    retire   = writes, then the push: a store to `qslot i` with order `oPush` (releasing);
    pop      = the collector's load of `qslot i` with order `oPop` (acquiring) that reads that message;
    region   = accesses, then the region end: a store to `eslot j` with order `oEnd` (releasing;
               `Gen.Epoch.unlockStoreOrd` in the code);
    scan     = the collector's load of `eslot j` with order `oScan` (acquiring; `Gen.Epoch.scanSlotOrd`)
               that reads the region-end message — or a later message of that slot whose view contains
               the region-end message's view (`gc_scan_later_view`; a later *relaxed* store of the next
               `lock()` does not carry it by itself in this model: that case is C09's fence argument).
  Between these actions anything may happen (`Mem.Ext`: histories and thread views only grow).
  Core Lean only.
-/
import Babylon.Core.MemView
import Babylon.Gen.Epoch

namespace Babylon.GC.View
open Babylon.Core Babylon.Core.MemView

inductive Loc
  | qslot (i : Nat)
  | eslot (j : Nat)
  | data (k : Nat)
  deriving DecidableEq, Repr

/-- (a) retire → pop: the retiring thread's view at `retire()` is in the collector's view after the pop -/
theorem gc_retire_view (mR m2 m3 : Mem Loc) (r c i : Nat) (oPush oPop : Core.Ord) (v v' : Nat)
    (hrel : oPush.releases = true) (hacq : oPop.acquires = true)
    (hext : (mR.write r (.qslot i) oPush v).Ext m2)
    (hpop : m2.read c (.qslot i) oPop (mR.len (.qslot i)) = some (m3, v')) :
    v' = v ∧ (mR.tv r).cur ≤ (m3.tv c).cur :=
  mp_release_acquire mR r c (.qslot i) oPush oPop v hrel hacq hext hpop

/-- (b) region end → scan: the reader's view at the end of its region is in the collector's view after
the scan load that reads the region-end message -/
theorem gc_region_view (mD m4 m5 : Mem Loc) (d c j : Nat) (oEnd oScan : Core.Ord) (idle v' : Nat)
    (hrel : oEnd.releases = true) (hacq : oScan.acquires = true)
    (hext : (mD.write d (.eslot j) oEnd idle).Ext m4)
    (hscan : m4.read c (.eslot j) oScan (mD.len (.eslot j)) = some (m5, v')) :
    v' = idle ∧ (mD.tv d).cur ≤ (m5.tv c).cur :=
  mp_release_acquire mD d c (.eslot j) oEnd oScan idle hrel hacq hext hscan

/-- the scan may also read a later message of the slot, provided that message's view contains the
region-end message's view (e.g. it was written by a releasing store / RMW, or after a release fence) -/
theorem gc_scan_later_view (mD m4 m5 : Mem Loc) (d c j : Nat) (oEnd oScan : Core.Ord) (idle ts v' : Nat)
    (hrel : oEnd.releases = true) (hacq : oScan.acquires = true)
    (hscan : m4.read c (.eslot j) oScan ts = some (m5, v'))
    (hlater : ∀ msg, (m4.hist (.eslot j))[ts]? = some msg →
      ((mD.tv d).wrote (.eslot j) (mD.len (.eslot j))).relView (.eslot j) (mD.len (.eslot j)) oEnd ≤ msg.view) :
    (mD.tv d).cur ≤ (m5.tv c).cur := by
  obtain ⟨msg, hm, _, _, rfl⟩ := Mem.read_spec hscan
  simp only [upd_same]
  refine View.le_trans ?_ (TView.read_acquires _ _ _ _ _ hacq)
  refine View.le_trans ?_ (hlater msg hm)
  simp only [TView.relView, hrel, if_true, TView.wrote]
  exact View.le_bump _ _ _

/-- **`gc_reclaim_view`**: the retiring thread `r` pushes at `mR`, the collector `c` pops that message;
the reader `d` ends its region at `mD`, the collector's scan reads that message; whatever else happens
in between and afterwards, at the moment `mF` the collector invokes the reclaimer both the retirer's
view at `retire()` and the reader's view at its region end are contained in the collector's view. -/
theorem gc_reclaim_view (mR m2 m3 mD m4 m5 mF : Mem Loc) (r d c i j : Nat)
    (oPush oPop oEnd oScan : Core.Ord) (v v' idle w' : Nat)
    (hPush : oPush.releases = true) (hPop : oPop.acquires = true)
    (hEnd : oEnd.releases = true) (hScan : oScan.acquires = true)
    (hext1 : (mR.write r (.qslot i) oPush v).Ext m2)
    (hpop : m2.read c (.qslot i) oPop (mR.len (.qslot i)) = some (m3, v'))
    (hext2 : (mD.write d (.eslot j) oEnd idle).Ext m4)
    (hscan : m4.read c (.eslot j) oScan (mD.len (.eslot j)) = some (m5, w'))
    (hF1 : m3.Ext mF) (hF2 : m5.Ext mF) :
    (mR.tv r).cur ≤ (mF.tv c).cur ∧ (mD.tv d).cur ≤ (mF.tv c).cur :=
  ⟨View.le_trans (gc_retire_view mR m2 m3 r c i oPush oPop v v' hPush hPop hext1 hpop).2 (hF1.cur c),
   View.le_trans (gc_region_view mD m4 m5 d c j oEnd oScan idle w' hEnd hScan hext2 hscan).2 (hF2.cur c)⟩

/-- the orders the code uses for the region end and the scan are strong enough -/
theorem gc_epoch_orders_ok :
    Gen.Epoch.unlockStoreOrd.releases = true ∧ Gen.Epoch.releaseStoreOrd.releases = true ∧
    Gen.Epoch.scanSlotOrd.acquires = true := by decide

/-! ### negative controls: concrete executions of the view model -/

/-- reader (thread 1) writes `data 0 := 7` inside its region and ends the region with a store of order
`oEnd` to `eslot 0`; the collector (thread 2) loads `eslot 0` with order `oScan`, reads the region-end
message (timestamp 1), and then — the reclaimer — reads `data 0` at timestamp `stale` (0 = the initial
message, i.e. it does NOT see the reader's access; 1 = the reader's write).  `none` = inadmissible. -/
def regionRun (oEnd oScan : Core.Ord) (stale : Nat) : Option (Nat × Nat) := do
  let m0 : Mem Loc := Mem.init (fun _ => 0)
  let m1 := m0.write 1 (.data 0) .rlx 7
  let m2 := m1.write 1 (.eslot 0) oEnd 99
  let (m3, z) ← m2.read 2 (.eslot 0) oScan 1
  let (_, v) ← m3.read 2 (.data 0) .rlx stale
  pure (z, v)

/-- the same for retire → pop on `qslot 0` -/
def retireRun (oPush oPop : Core.Ord) (stale : Nat) : Option (Nat × Nat) := do
  let m0 : Mem Loc := Mem.init (fun _ => 0)
  let m1 := m0.write 1 (.data 0) .rlx 7
  let m2 := m1.write 1 (.qslot 0) oPush 1
  let (m3, z) ← m2.read 2 (.qslot 0) oPop 1
  let (_, v) ← m3.read 2 (.data 0) .rlx stale
  pure (z, v)

/-- with the code's orders the stale read is impossible, the fresh one is what the reclaimer sees -/
theorem gc_view_positive :
    regionRun Gen.Epoch.unlockStoreOrd Gen.Epoch.scanSlotOrd 0 = none ∧
    regionRun Gen.Epoch.unlockStoreOrd Gen.Epoch.scanSlotOrd 1 = some (99, 7) ∧
    retireRun .rel .acq 0 = none ∧ retireRun .rel .acq 1 = some (1, 7) := by decide

/-- region-end store relaxed: the collector can miss the reader's access -/
theorem gc_view_negative_relaxed_region_end : regionRun .rlx Gen.Epoch.scanSlotOrd 0 = some (99, 0) := by decide
/-- scan load relaxed: the same -/
theorem gc_view_negative_relaxed_scan : regionRun Gen.Epoch.unlockStoreOrd .rlx 0 = some (99, 0) := by decide
/-- push or pop relaxed: the collector can miss the retirer's unlinking write -/
theorem gc_view_negative_relaxed_push : retireRun .rlx .acq 0 = some (1, 0) := by decide
theorem gc_view_negative_relaxed_pop : retireRun .rel .rlx 0 = some (1, 0) := by decide

end Babylon.GC.View
