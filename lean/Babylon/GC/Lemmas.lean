/-
  Helper lemmas and inductive invariants for the GarbageCollector model (property C10), part 1:
  list facts (absorb / tasksOf / takeWhile), reachability, the queue-structure invariant and the
  conservation invariant.
-/
import Babylon.GC.Model
import Babylon.Core.Reach

namespace Babylon.GC
open Babylon.Core

/-- states reachable from the initial state by any interleaving of enabled actions -/
def Reach (c : Cfg) (s : State) : Prop := Reachable (· = State.init) (Step c) s

theorem Reach.init (c : Cfg) : Reach c State.init := Reachable.base rfl
theorem Reach.next {c : Cfg} {s s' : State} (l : Lbl) (h : Reach c s) (hs : step c s l = some s') : Reach c s' :=
  Reachable.tail h ⟨l, hs⟩

/-- invariants are proved label by label -/
theorem Reach.inv {c : Cfg} (P : State → Prop) (h0 : P State.init)
    (hs : ∀ s s' l, Reach c s → P s → step c s l = some s' → P s') : ∀ s, Reach c s → P s := by
  intro s h
  induction h with
  | base hi => subst hi; exact h0
  | tail hr hst ih => obtain ⟨l, hl⟩ := hst; exact hs _ _ l hr ih hl

/-! ### lists -/

def notMarker : Item → Bool
  | .marker => false
  | .task _ => true

@[simp] theorem notMarker_task (t : Task) : notMarker (.task t) = true := rfl
@[simp] theorem notMarker_marker : notMarker .marker = false := rfl
@[simp] theorem task?_task (t : Task) : Item.task? (.task t) = some t := rfl
@[simp] theorem task?_marker : Item.task? .marker = none := rfl

@[simp] theorem tasksOf_nil : tasksOf [] = [] := rfl
@[simp] theorem tasksOf_append (a b : List Item) : tasksOf (a ++ b) = tasksOf a ++ tasksOf b := by
  simp [tasksOf]
@[simp] theorem tasksOf_cons_task (t : Task) (l : List Item) : tasksOf (.task t :: l) = t :: tasksOf l := by
  simp [tasksOf]
@[simp] theorem tasksOf_cons_marker (l : List Item) : tasksOf (.marker :: l) = tasksOf l := by
  simp [tasksOf]

theorem mem_tasksOf {t : Task} {l : List Item} : t ∈ tasksOf l ↔ Item.task t ∈ l := by
  induction l with
  | nil => simp
  | cons x xs ih => cases x <;> simp [ih]

/-- what one callback invocation appends and what it skips is exactly the tasks of the range, in order -/
theorem absorb_split (l : List Item) : (absorb l).1 ++ (absorb l).2.1 = tasksOf l := by
  induction l with
  | nil => rfl
  | cons x xs ih => cases x <;> simp [absorb, ih]

/-- what it appends is the tasks in front of the first marker -/
theorem absorb_fst (l : List Item) : (absorb l).1 = tasksOf (l.takeWhile notMarker) := by
  induction l with
  | nil => rfl
  | cons x xs ih => cases x <;> simp [absorb, ih]

theorem absorb_saw (l : List Item) : (absorb l).2.2 = true ↔ Item.marker ∈ l := by
  induction l with
  | nil => simp [absorb]
  | cons x xs ih => cases x <;> simp [absorb, ih]

theorem absorb_nomarker {l : List Item} (h : Item.marker ∉ l) :
    (absorb l).1 = tasksOf l ∧ (absorb l).2.1 = [] ∧ (absorb l).2.2 = false := by
  induction l with
  | nil => simp [absorb]
  | cons x xs ih =>
    cases x with
    | marker => simp at h
    | task t =>
      have := ih (by simpa using h)
      simp [absorb, this]

theorem takeWhile_notMarker_eq_self {l : List Item} (h : Item.marker ∉ l) : l.takeWhile notMarker = l := by
  induction l with
  | nil => rfl
  | cons x xs ih =>
    cases x with
    | marker => simp at h
    | task t => simp [ih (by simpa using h)]

theorem takeWhile_notMarker_append_of_mem {l m : List Item} (h : Item.marker ∈ l) :
    (l ++ m).takeWhile notMarker = l.takeWhile notMarker := by
  induction l with
  | nil => simp at h
  | cons x xs ih =>
    cases x with
    | marker => simp
    | task t => simp [ih (by simpa using h)]

theorem takeWhile_notMarker_append_of_not_mem {l m : List Item} (h : Item.marker ∉ l) :
    (l ++ m).takeWhile notMarker = l ++ m.takeWhile notMarker := by
  apply List.takeWhile_append_of_pos
  intro a ha
  cases a with
  | marker => exact absurd ha h
  | task t => rfl

theorem map_fst_setPublished (cells : List (Item × Bool)) (i : Nat) :
    (setPublished cells i).map (·.1) = cells.map (·.1) := by
  unfold setPublished
  induction cells generalizing i with
  | nil => simp
  | cons x xs ih => cases i <;> simp [ih]

theorem take_drop_map_fst (cells : List (Item × Bool)) (n : Nat) :
    (cells.take n).map (·.1) ++ (cells.drop n).map (·.1) = cells.map (·.1) := by
  rw [← List.map_append, List.take_append_drop]

/-! ### frame facts about single steps -/

theorem popCells_allItems (s : State) (n : Nat) : (popCells s n).allItems = s.allItems := by
  simp [popCells, State.allItems, List.append_assoc, take_drop_map_fst]

/-- the sequence of tickets only grows at its end -/
theorem step_allItems {c : Cfg} {s s' : State} {l : Lbl} (h : step c s l = some s') :
    ∃ ext, s'.allItems = s.allItems ++ ext := by
  cases l <;> simp only [step] at h <;> (repeat' split at h) <;>
    first
    | contradiction
    | (injection h with h; subst h
       first
       | exact ⟨[], by simp [State.allItems, map_fst_setPublished, popCells_allItems]⟩
       | exact ⟨[], by simp [popCells_allItems]; simp [State.allItems, popCells]⟩
       | exact ⟨_, by simp [State.allItems]; rfl⟩)

end Babylon.GC
