/-
  Helper lemmas and inductive invariants for the GarbageCollector model (property C10), part 1:
  list facts (absorb / tasksOf / takeWhile), reachability, the queue-structure invariant and the
  conservation invariant.
-/
import Babylon.GC.Model
import Babylon.Core.Reach

namespace Babylon.GC
open Babylon.Core

/-- states reachable from the initial state by any interleaving of enabled actions -/
def Reach (c : Cfg) (s : State) : Prop := Reachable (· = State.init) (Step c) s

theorem Reach.init (c : Cfg) : Reach c State.init := Reachable.base rfl
theorem Reach.next {c : Cfg} {s s' : State} (l : Lbl) (h : Reach c s) (hs : step c s l = some s') : Reach c s' :=
  Reachable.tail h ⟨l, hs⟩

/-- invariants are proved label by label -/
theorem Reach.inv {c : Cfg} (P : State → Prop) (h0 : P State.init)
    (hs : ∀ s s' l, Reach c s → P s → step c s l = some s' → P s') : ∀ s, Reach c s → P s := by
  intro s h
  induction h with
  | base hi => subst hi; exact h0
  | tail hr hst ih => obtain ⟨l, hl⟩ := hst; exact hs _ _ l hr ih hl

/-! ### lists -/

def notMarker : Item → Bool
  | .marker => false
  | .task _ => true

@[simp] theorem notMarker_task (t : Task) : notMarker (.task t) = true := rfl
@[simp] theorem notMarker_marker : notMarker .marker = false := rfl
@[simp] theorem task?_task (t : Task) : Item.task? (.task t) = some t := rfl
@[simp] theorem task?_marker : Item.task? .marker = none := rfl

@[simp] theorem tasksOf_nil : tasksOf [] = [] := rfl
@[simp] theorem tasksOf_append (a b : List Item) : tasksOf (a ++ b) = tasksOf a ++ tasksOf b := by
  simp [tasksOf]
@[simp] theorem tasksOf_cons_task (t : Task) (l : List Item) : tasksOf (.task t :: l) = t :: tasksOf l := rfl
@[simp] theorem tasksOf_cons_marker (l : List Item) : tasksOf (.marker :: l) = tasksOf l := rfl
@[simp] theorem takeWhile_notMarker_cons_task (t : Task) (l : List Item) :
    (Item.task t :: l).takeWhile notMarker = .task t :: l.takeWhile notMarker := rfl
@[simp] theorem takeWhile_notMarker_cons_marker (l : List Item) :
    (Item.marker :: l).takeWhile notMarker = [] := rfl

theorem mem_tasksOf {t : Task} {l : List Item} : t ∈ tasksOf l ↔ Item.task t ∈ l := by
  induction l with
  | nil => simp
  | cons x xs ih => cases x <;> simp [ih]

/-- what one callback invocation appends and what it skips is exactly the tasks of the range, in order -/
theorem absorb_split (l : List Item) : (absorb l).1 ++ (absorb l).2.1 = tasksOf l := by
  induction l with
  | nil => rfl
  | cons x xs ih => cases x <;> simp [absorb, ih]

/-- what it appends is the tasks in front of the first marker -/
theorem absorb_fst (l : List Item) : (absorb l).1 = tasksOf (l.takeWhile notMarker) := by
  induction l with
  | nil => rfl
  | cons x xs ih => cases x <;> simp [absorb, ih]

theorem absorb_saw (l : List Item) : (absorb l).2.2 = true ↔ Item.marker ∈ l := by
  induction l with
  | nil => simp [absorb]
  | cons x xs ih => cases x <;> simp [absorb, ih]

theorem absorb_nomarker {l : List Item} (h : Item.marker ∉ l) :
    (absorb l).1 = tasksOf l ∧ (absorb l).2.1 = [] ∧ (absorb l).2.2 = false := by
  induction l with
  | nil => simp [absorb]
  | cons x xs ih =>
    cases x with
    | marker => simp at h
    | task t =>
      have := ih (by simpa using h)
      simp [absorb, this]

theorem takeWhile_notMarker_eq_self {l : List Item} (h : Item.marker ∉ l) : l.takeWhile notMarker = l := by
  induction l with
  | nil => rfl
  | cons x xs ih =>
    cases x with
    | marker => simp at h
    | task t => simp [ih (by simpa using h)]

theorem takeWhile_notMarker_append_of_mem {l m : List Item} (h : Item.marker ∈ l) :
    (l ++ m).takeWhile notMarker = l.takeWhile notMarker := by
  induction l with
  | nil => simp at h
  | cons x xs ih =>
    cases x with
    | marker => simp
    | task t => simp [ih (by simpa using h)]

theorem takeWhile_notMarker_append_of_not_mem {l m : List Item} (h : Item.marker ∉ l) :
    (l ++ m).takeWhile notMarker = l ++ m.takeWhile notMarker := by
  apply List.takeWhile_append_of_pos
  intro a ha
  cases a with
  | marker => exact absurd ha h
  | task t => rfl

theorem map_fst_setPublished (cells : List (Item × Bool)) (i : Nat) :
    (setPublished cells i).map (·.1) = cells.map (·.1) := by
  unfold setPublished
  induction cells generalizing i with
  | nil => simp
  | cons x xs ih => cases i <;> simp [ih]

theorem take_drop_map_fst (cells : List (Item × Bool)) (n : Nat) :
    (cells.take n).map (·.1) ++ (cells.drop n).map (·.1) = cells.map (·.1) := by
  rw [← List.map_append, List.take_append_drop]

/-! ### frame facts about single steps -/

theorem popCells_allItems (s : State) (n : Nat) : (popCells s n).allItems = s.allItems := by
  simp [popCells, State.allItems, List.append_assoc]

theorem popCells_allItems' (s : State) (n : Nat) (pc : CPc) :
    ({ popCells s n with cpc := pc } : State).allItems = s.allItems := popCells_allItems s n

/-- the sequence of tickets only grows at its end -/
theorem step_allItems {c : Cfg} {s s' : State} {l : Lbl} (h : step c s l = some s') :
    ∃ ext, s'.allItems = s.allItems ++ ext := by
  cases l with
  | reserve id =>
    simp only [step, stepWith] at h
    split at h <;> try contradiction
    injection h with h; subst h
    exact ⟨[_], by simp [State.allItems]; rfl⟩
  | stopReserve =>
    simp only [step, stepWith] at h
    split at h <;> try contradiction
    injection h with h; subst h
    exact ⟨[.marker], by simp [State.allItems]⟩
  | _ =>
    simp only [step, stepWith] at h <;> (repeat' split at h) <;>
    first
    | contradiction
    | (injection h with h; subst h
       first
       | (refine ⟨[], ?_⟩; simp [State.allItems, map_fst_setPublished]; done)
       | (refine ⟨[], ?_⟩; rw [List.append_nil]; first | exact popCells_allItems' _ _ _ | exact popCells_allItems _ _))

/-! ### the queue-structure invariant -/

@[simp] theorem upd_same {α : Type} (f : Nat → α) (i : Nat) (v : α) : upd f i v i = v := by simp [upd]
theorem upd_other {α : Type} (f : Nat → α) {i j : Nat} (v : α) (h : j ≠ i) : upd f i v j = f j := by simp [upd, h]

structure QInv (c : Cfg) (s : State) : Prop where
  popLen : s.popped.length = s.popIdx
  cellLen : s.popIdx + s.cells.length = s.pushIdx
  /-- a retire call waiting to publish owns an unpublished cell that has not been popped -/
  pub : ∀ id e k, s.calls id = .publish e k → s.popIdx ≤ k ∧ s.cells[k - s.popIdx]? = some (.task ⟨id, e⟩, false)
  spub : ∀ k, s.stop = .publish k → s.popIdx ≤ k ∧ s.cells[k - s.popIdx]? = some (.marker, false)
  /-- ticket `k` of a call is element `k` of the ticket sequence -/
  tick : ∀ id e k, (s.calls id = .publish e k ∨ s.calls id = .done e k) → s.allItems[k]? = some (.task ⟨id, e⟩)
  /-- published cells lie within one capacity of the pop index: at most `cap` published items -/
  room : ∀ i x, s.cells[i]? = some (x, true) → i < c.cap

theorem allItems_length {c : Cfg} {s : State} (h : QInv c s) : s.allItems.length = s.pushIdx := by
  simp [State.allItems, h.popLen, h.cellLen]

theorem QInv.init (c : Cfg) : QInv c State.init := by
  constructor <;> simp [State.init, State.allItems]

theorem getElem?_setPublished (cells : List (Item × Bool)) (i j : Nat) :
    (setPublished cells i)[j]? = (cells[j]?).map (fun c => if i = j then (c.1, true) else c) := by
  unfold setPublished
  rw [List.getElem?_modify]
  cases cells[j]? <;> simp

theorem QInv.popCells {c : Cfg} {s : State} (hq : QInv c s) {n lim : Nat} (hp : canPop s n lim = true) (pc : CPc) :
    QInv c { popCells s n with cpc := pc } := by
  simp only [canPop, Bool.and_eq_true, decide_eq_true_eq, List.all_eq_true] at hp
  obtain ⟨⟨_, hn⟩, hall⟩ := hp
  have hpubd : ∀ j x b, s.cells[j]? = some (x, b) → j < n → b = true := by
    intro j x b hj hjn
    have : (x, b) ∈ s.cells.take n := by
      rw [List.mem_take_iff_getElem]
      have hjl : j < s.cells.length := by
        rcases Nat.lt_or_ge j s.cells.length with h | h
        · exact h
        · rw [List.getElem?_eq_none h] at hj; cases hj
      refine ⟨j, by omega, ?_⟩
      rw [List.getElem?_eq_getElem hjl] at hj
      exact Option.some.inj hj
    exact hall _ this
  constructor
  · simp [GC.popCells, hq.popLen]; omega
  · simp [GC.popCells]; have := hq.cellLen; omega
  · intro id e k hk
    have ⟨h1, h2⟩ := hq.pub id e k hk
    have hge : n ≤ k - s.popIdx := by
      rcases Nat.lt_or_ge (k - s.popIdx) n with h | h
      · have := hpubd _ _ _ h2 h; cases this
      · exact h
    refine ⟨by simp [GC.popCells]; omega, ?_⟩
    simp only [GC.popCells, List.getElem?_drop]
    rw [← h2]; congr 1; omega
  · intro k hk
    have ⟨h1, h2⟩ := hq.spub k hk
    have hge : n ≤ k - s.popIdx := by
      rcases Nat.lt_or_ge (k - s.popIdx) n with h | h
      · have := hpubd _ _ _ h2 h; cases this
      · exact h
    refine ⟨by simp [GC.popCells]; omega, ?_⟩
    simp only [GC.popCells, List.getElem?_drop]
    rw [← h2]; congr 1; omega
  · intro id e k hk
    rw [popCells_allItems']
    exact hq.tick id e k hk
  · intro i x hi
    simp only [GC.popCells, List.getElem?_drop] at hi
    have := hq.room _ _ hi
    omega

theorem QInv.step {c : Cfg} {s s' : State} {l : Lbl} (hq : QInv c s) (h : step c s l = some s') : QInv c s' := by
  cases l with
  | callRetire id =>
    simp only [GC.step, stepWith] at h
    split at h <;> try contradiction
    rename_i hnone
    injection h with h; subst h
    refine ⟨hq.popLen, hq.cellLen, ?_, hq.spub, ?_, hq.room⟩
    · intro j e k hj
      dsimp only at hj ⊢
      by_cases hji : j = id
      · subst hji; simp at hj
      · rw [upd_other _ _ hji] at hj; exact hq.pub j e k hj
    · intro j e k hj
      dsimp only at hj ⊢
      by_cases hji : j = id
      · subst hji; simp at hj
      · rw [upd_other _ _ hji] at hj; exact hq.tick j e k hj
  | callRetireAt id e0 =>
    simp only [GC.step, stepWith] at h
    split at h <;> try contradiction
    injection h with h; subst h
    refine ⟨hq.popLen, hq.cellLen, ?_, hq.spub, ?_, hq.room⟩
    · intro j e k hj
      dsimp only at hj ⊢
      by_cases hji : j = id
      · subst hji; simp at hj
      · rw [upd_other _ _ hji] at hj; exact hq.pub j e k hj
    · intro j e k hj
      dsimp only at hj ⊢
      by_cases hji : j = id
      · subst hji; simp at hj
      · rw [upd_other _ _ hji] at hj; exact hq.tick j e k hj
  | tick id =>
    simp only [GC.step, stepWith] at h
    split at h <;> try contradiction
    injection h with h; subst h
    refine ⟨hq.popLen, hq.cellLen, ?_, hq.spub, ?_, hq.room⟩
    · intro j e k hj
      dsimp only at hj ⊢
      by_cases hji : j = id
      · subst hji; simp at hj
      · rw [upd_other _ _ hji] at hj; exact hq.pub j e k hj
    · intro j e k hj
      dsimp only at hj ⊢
      by_cases hji : j = id
      · subst hji; simp at hj
      · rw [upd_other _ _ hji] at hj; exact hq.tick j e k hj
  | reserve id =>
    simp only [GC.step, stepWith] at h
    split at h <;> try contradiction
    rename_i e0 hres
    injection h with h; subst h
    have hlen := allItems_length hq
    refine ⟨hq.popLen, by simp; have := hq.cellLen; omega, ?_, ?_, ?_, ?_⟩
    · intro j e k hj
      dsimp only at hj ⊢
      by_cases hji : j = id
      · subst hji
        simp at hj
        obtain ⟨rfl, rfl⟩ := hj
        have := hq.cellLen
        refine ⟨by omega, ?_⟩
        have : s.pushIdx - s.popIdx = s.cells.length := by omega
        simp [this]
      · rw [upd_other _ _ hji] at hj
        have ⟨h1, h2⟩ := hq.pub j e k hj
        refine ⟨h1, ?_⟩
        have hlt : k - s.popIdx < s.cells.length := by
          rcases Nat.lt_or_ge (k - s.popIdx) s.cells.length with h | h
          · exact h
          · rw [List.getElem?_eq_none h] at h2; cases h2
        rw [List.getElem?_append_left hlt]; exact h2
    · intro k hk
      dsimp only at hk ⊢
      have ⟨h1, h2⟩ := hq.spub k hk
      refine ⟨h1, ?_⟩
      have hlt : k - s.popIdx < s.cells.length := by
        rcases Nat.lt_or_ge (k - s.popIdx) s.cells.length with h | h
        · exact h
        · rw [List.getElem?_eq_none h] at h2; cases h2
      rw [List.getElem?_append_left hlt]; exact h2
    · intro j e k hj
      dsimp only at hj ⊢
      by_cases hji : j = id
      · subst hji
        simp at hj
        obtain ⟨rfl, rfl⟩ := hj
        simp only [State.allItems, List.map_append, List.map_cons, List.map_nil]
        rw [← List.append_assoc]
        have : (s.popped ++ List.map (fun x => x.fst) s.cells).length = s.pushIdx := hlen
        rw [List.getElem?_append_right (by omega)]
        simp [this]
      · rw [upd_other _ _ hji] at hj
        have := hq.tick j e k hj
        have hlt : k < s.allItems.length := by
          rcases Nat.lt_or_ge k s.allItems.length with h | h
          · exact h
          · rw [List.getElem?_eq_none h] at this; cases this
        simp only [State.allItems, List.map_append, List.map_cons, List.map_nil]
        rw [← List.append_assoc]
        show (s.allItems ++ _)[k]? = _
        rw [List.getElem?_append_left hlt]; exact this
    · intro i x hi
      dsimp only at hi
      rcases Nat.lt_or_ge i s.cells.length with hl | hl
      · rw [List.getElem?_append_left hl] at hi; exact hq.room i x hi
      · rw [List.getElem?_append_right hl] at hi
        rcases Nat.eq_zero_or_pos (i - s.cells.length) with h0 | h0
        · rw [h0] at hi; simp at hi
        · obtain ⟨m, hm⟩ := Nat.exists_eq_succ_of_ne_zero (Nat.pos_iff_ne_zero.mp h0)
          rw [hm] at hi; simp at hi
  | publish id =>
    simp only [GC.step, stepWith] at h
    split at h <;> try contradiction
    rename_i e0 k0 hpub
    split at h <;> try contradiction
    rename_i hroom
    injection h with h; subst h
    have ⟨hk1, hk2⟩ := hq.pub id e0 k0 hpub
    refine ⟨hq.popLen, by simp [setPublished]; exact hq.cellLen, ?_, ?_, ?_, ?_⟩
    · intro j e k hj
      dsimp only at hj ⊢
      by_cases hji : j = id
      · subst hji; simp at hj
      · rw [upd_other _ _ hji] at hj
        have ⟨h1, h2⟩ := hq.pub j e k hj
        refine ⟨h1, ?_⟩
        rw [getElem?_setPublished, h2]
        have : k0 - s.popIdx ≠ k - s.popIdx := by
          intro heq
          rw [heq, h2] at hk2
          injection hk2 with hk2; injection hk2 with hk2; injection hk2 with hk2
          injection hk2 with h3 h4; exact hji h3
        simp [this]
    · intro k hk
      dsimp only at hk ⊢
      have ⟨h1, h2⟩ := hq.spub k hk
      refine ⟨h1, ?_⟩
      rw [getElem?_setPublished, h2]
      have : k0 - s.popIdx ≠ k - s.popIdx := by
        intro heq
        rw [heq, h2] at hk2
        injection hk2 with hk2; injection hk2 with hk2; cases hk2
      simp [this]
    · intro j e k hj
      dsimp only at hj
      have hall : ({ s with cells := setPublished s.cells (k0 - s.popIdx), calls := upd s.calls id (Call.done e0 k0) } : State).allItems = s.allItems := by
        simp [State.allItems, map_fst_setPublished]
      rw [hall]
      by_cases hji : j = id
      · subst hji
        simp at hj
        obtain ⟨rfl, rfl⟩ := hj
        exact hq.tick j _ _ (Or.inl hpub)
      · rw [upd_other _ _ hji] at hj; exact hq.tick j e k hj
    · intro i x hi
      dsimp only at hi
      rw [getElem?_setPublished] at hi
      cases hc : s.cells[i]? with
      | none => rw [hc] at hi; cases hi
      | some cl =>
        rw [hc] at hi
        simp only [Option.map_some, Option.some.injEq] at hi
        split at hi
        · omega
        · subst hi; exact hq.room i x hc
  | stopReserve =>
    simp only [GC.step, stepWith] at h
    split at h <;> try contradiction
    rename_i hres
    injection h with h; subst h
    have hlen := allItems_length hq
    refine ⟨hq.popLen, by simp; have := hq.cellLen; omega, ?_, ?_, ?_, ?_⟩
    · intro j e k hj
      dsimp only at hj ⊢
      have ⟨h1, h2⟩ := hq.pub j e k hj
      refine ⟨h1, ?_⟩
      have hlt : k - s.popIdx < s.cells.length := by
        rcases Nat.lt_or_ge (k - s.popIdx) s.cells.length with h | h
        · exact h
        · rw [List.getElem?_eq_none h] at h2; cases h2
      rw [List.getElem?_append_left hlt]; exact h2
    · intro k hk
      dsimp only at hk ⊢
      injection hk with hk; subst hk
      have := hq.cellLen
      refine ⟨by omega, ?_⟩
      have : s.pushIdx - s.popIdx = s.cells.length := by omega
      simp [this]
    · intro j e k hj
      dsimp only at hj
      have := hq.tick j e k hj
      have hlt : k < s.allItems.length := by
        rcases Nat.lt_or_ge k s.allItems.length with h | h
        · exact h
        · rw [List.getElem?_eq_none h] at this; cases this
      simp only [State.allItems, List.map_append, List.map_cons, List.map_nil]
      rw [← List.append_assoc]
      show (s.allItems ++ _)[k]? = _
      rw [List.getElem?_append_left hlt]; exact this
    · intro i x hi
      dsimp only at hi
      rcases Nat.lt_or_ge i s.cells.length with hl | hl
      · rw [List.getElem?_append_left hl] at hi; exact hq.room i x hi
      · rw [List.getElem?_append_right hl] at hi
        rcases Nat.eq_zero_or_pos (i - s.cells.length) with h0 | h0
        · rw [h0] at hi; simp at hi
        · obtain ⟨m, hm⟩ := Nat.exists_eq_succ_of_ne_zero (Nat.pos_iff_ne_zero.mp h0)
          rw [hm] at hi; simp at hi
  | stopPublish =>
    simp only [GC.step, stepWith] at h
    split at h <;> try contradiction
    rename_i k0 hpub
    split at h <;> try contradiction
    rename_i hroom
    injection h with h; subst h
    have ⟨hk1, hk2⟩ := hq.spub k0 hpub
    refine ⟨hq.popLen, by simp [setPublished]; exact hq.cellLen, ?_, ?_, ?_, ?_⟩
    · intro j e k hj
      dsimp only at hj ⊢
      have ⟨h1, h2⟩ := hq.pub j e k hj
      refine ⟨h1, ?_⟩
      rw [getElem?_setPublished, h2]
      have : k0 - s.popIdx ≠ k - s.popIdx := by
        intro heq
        rw [heq, h2] at hk2
        injection hk2 with hk2; injection hk2 with hk2; cases hk2
      simp [this]
    · intro k hk
      cases hk
    · intro j e k hj
      dsimp only at hj
      have hall : ({ s with cells := setPublished s.cells (k0 - s.popIdx), stop := StopPc.join } : State).allItems = s.allItems := by
        simp [State.allItems, map_fst_setPublished]
      rw [hall]
      exact hq.tick j e k hj
    · intro i x hi
      dsimp only at hi
      rw [getElem?_setPublished] at hi
      cases hc : s.cells[i]? with
      | none => rw [hc] at hi; cases hi
      | some cl =>
        rw [hc] at hi
        simp only [Option.map_some, Option.some.injEq] at hi
        split at hi
        · omega
        · subst hi; exact hq.room i x hc
  | pop n =>
    simp only [GC.step, stepWith] at h
    split at h <;> try contradiction
    · split at h <;> try contradiction
      rename_i hp
      injection h with h; subst h
      exact hq.popCells hp.1 _
    · split at h <;> try contradiction
      rename_i hp
      injection h with h; subst h
      exact hq.popCells hp _
  | callStop =>
    simp only [GC.step, stepWith] at h
    split at h <;> try contradiction
    rename_i hidle
    injection h with h; subst h
    refine ⟨hq.popLen, hq.cellLen, hq.pub, ?_, hq.tick, hq.room⟩
    intro k hk; cases hk
  | stopJoin =>
    simp only [GC.step, stepWith] at h
    split at h <;> try contradiction
    injection h with h; subst h
    refine ⟨hq.popLen, hq.cellLen, hq.pub, ?_, hq.tick, hq.room⟩
    intro k hk; cases hk
  | _ =>
    simp only [GC.step, stepWith] at h <;> (repeat' split at h) <;>
    first
    | contradiction
    | (injection h with h; subst h; exact ⟨hq.popLen, hq.cellLen, hq.pub, hq.spub, hq.tick, hq.room⟩)

/-! ### conservation: every ticketed task is in exactly one place -/

def taskIds (l : List Item) : List Nat := (tasksOf l).map (·.id)

@[simp] theorem taskIds_append (a b : List Item) : taskIds (a ++ b) = taskIds a ++ taskIds b := by
  simp [taskIds]

def Call.ticketed : Call → Bool
  | .publish _ _ => true
  | .done _ _ => true
  | _ => false

structure CInv (s : State) : Prop where
  nodup : (taskIds s.allItems).Nodup
  has : ∀ id, id ∈ taskIds s.allItems ↔ (s.calls id).ticketed = true

theorem CInv.init : CInv State.init := by
  constructor <;> simp [State.init, State.allItems, taskIds, Call.ticketed]

theorem CInv.step {c : Cfg} {s s' : State} {l : Lbl} (hc : CInv s) (h : step c s l = some s') : CInv s' := by
  cases l with
  | callRetire id =>
    simp only [GC.step, stepWith] at h
    split at h <;> try contradiction
    rename_i hnone
    injection h with h; subst h
    refine ⟨hc.nodup, ?_⟩
    intro j
    show j ∈ taskIds s.allItems ↔ (upd s.calls id Call.tick j).ticketed = true
    by_cases hji : j = id
    · subst hji; rw [hc.has, hnone]; simp [Call.ticketed]
    · rw [upd_other _ _ hji]; exact hc.has j
  | callRetireAt id e0 =>
    simp only [GC.step, stepWith] at h
    split at h <;> try contradiction
    rename_i hnone
    injection h with h; subst h
    refine ⟨hc.nodup, ?_⟩
    intro j
    show j ∈ taskIds s.allItems ↔ (upd s.calls id (Call.reserve e0) j).ticketed = true
    by_cases hji : j = id
    · subst hji; rw [hc.has, hnone.1]; simp [Call.ticketed]
    · rw [upd_other _ _ hji]; exact hc.has j
  | tick id =>
    simp only [GC.step, stepWith] at h
    split at h <;> try contradiction
    rename_i htick
    injection h with h; subst h
    refine ⟨hc.nodup, ?_⟩
    intro j
    show j ∈ taskIds s.allItems ↔ (upd s.calls id _ j).ticketed = true
    by_cases hji : j = id
    · subst hji; rw [hc.has, htick]; simp [Call.ticketed]
    · rw [upd_other _ _ hji]; exact hc.has j
  | reserve id =>
    simp only [GC.step, stepWith] at h
    split at h <;> try contradiction
    rename_i e0 hres
    injection h with h; subst h
    have hnot : id ∉ taskIds s.allItems := by
      rw [hc.has, hres]; simp [Call.ticketed]
    have hall : s.popped ++ (s.cells ++ [(Item.task ⟨id, e0⟩, false)]).map (·.1)
                = s.allItems ++ [Item.task ⟨id, e0⟩] := by
      simp [State.allItems]
    constructor
    · show (taskIds (s.popped ++ (s.cells ++ [(Item.task ⟨id, e0⟩, false)]).map (·.1))).Nodup
      rw [hall]
      simp only [taskIds_append]
      rw [List.nodup_append]
      refine ⟨hc.nodup, by simp [taskIds], ?_⟩
      intro a ha b hb
      simp [taskIds] at hb
      subst hb
      intro hab; subst hab; exact hnot ha
    · intro j
      show j ∈ taskIds (s.popped ++ (s.cells ++ [(Item.task ⟨id, e0⟩, false)]).map (·.1)) ↔
        (upd s.calls id (Call.publish e0 s.pushIdx) j).ticketed = true
      rw [hall]
      by_cases hji : j = id
      · subst hji; simp [taskIds, Call.ticketed]
      · rw [upd_other _ _ hji, ← hc.has j]
        simp [taskIds, hji]
  | publish id =>
    simp only [GC.step, stepWith] at h
    split at h <;> try contradiction
    rename_i e0 k0 hpub
    split at h <;> try contradiction
    injection h with h; subst h
    have hall : ({ s with cells := setPublished s.cells (k0 - s.popIdx), calls := upd s.calls id (Call.done e0 k0) } : State).allItems = s.allItems := by
      simp [State.allItems, map_fst_setPublished]
    constructor
    · rw [hall]; exact hc.nodup
    · intro j
      rw [hall]
      show j ∈ taskIds s.allItems ↔ (upd s.calls id _ j).ticketed = true
      by_cases hji : j = id
      · subst hji; rw [hc.has, hpub]; simp [Call.ticketed]
      · rw [upd_other _ _ hji]; exact hc.has j
  | stopReserve =>
    simp only [GC.step, stepWith] at h
    split at h <;> try contradiction
    injection h with h; subst h
    have e : taskIds (s.popped ++ (s.cells ++ [(Item.marker, false)]).map (·.1)) = taskIds s.allItems := by
      simp [State.allItems, taskIds]
    refine ⟨?_, fun j => ?_⟩
    · show (taskIds (s.popped ++ (s.cells ++ [(Item.marker, false)]).map (·.1))).Nodup
      rw [e]; exact hc.nodup
    · show j ∈ taskIds (s.popped ++ (s.cells ++ [(Item.marker, false)]).map (·.1)) ↔ _
      rw [e]; exact hc.has j
  | stopPublish =>
    simp only [GC.step, stepWith] at h
    split at h <;> try contradiction
    rename_i k0 hpub
    split at h <;> try contradiction
    injection h with h; subst h
    have e : s.popped ++ (setPublished s.cells (k0 - s.popIdx)).map (·.1) = s.allItems := by
      simp [State.allItems, map_fst_setPublished]
    refine ⟨?_, fun j => ?_⟩
    · show (taskIds (s.popped ++ (setPublished s.cells (k0 - s.popIdx)).map (·.1))).Nodup
      rw [e]; exact hc.nodup
    · show j ∈ taskIds (s.popped ++ (setPublished s.cells (k0 - s.popIdx)).map (·.1)) ↔ _
      rw [e]; exact hc.has j
  | pop n =>
    simp only [GC.step, stepWith] at h
    split at h <;> try contradiction
    · split at h <;> try contradiction
      injection h with h; subst h
      exact ⟨by rw [popCells_allItems']; exact hc.nodup, fun j => by rw [popCells_allItems']; exact hc.has j⟩
    · split at h <;> try contradiction
      injection h with h; subst h
      exact ⟨by rw [popCells_allItems']; exact hc.nodup, fun j => by rw [popCells_allItems']; exact hc.has j⟩
  | _ =>
    simp only [GC.step, stepWith] at h <;> (repeat' split at h) <;>
    first
    | contradiction
    | (injection h with h; subst h; exact ⟨hc.nodup, hc.has⟩)

end Babylon.GC
