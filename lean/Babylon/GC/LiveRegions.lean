/-
  Termination of `stop()` (property C10), part 7: the environment hypothesis in its per-region form.
  "Every critical region that was entered before the last tick eventually takes its next step
  (stores its slot, then closes)" implies that, from some moment on, no stale region is left — the
  hypothesis `Fair.regions` of `stop_terminates`.
-/
import Babylon.GC.LiveMain

namespace Babylon.GC
open Babylon.Core Babylon.Gen.GC

/-- how far slot `i` is from not blocking anything: 2 = has read a version below the current one and
not stored it yet, 1 = holds an epoch below the current version, 0 = idle or entered after the last tick -/
def staleW (s : State) (i : Nat) : Nat :=
  match s.slots i with
  | .pinned p _ => if p < s.gver then 1 else 0
  | .entering g => if g < s.gver then 2 else 0
  | .idle => 0

theorem noStale_of_staleW {s : State} (h : ∀ i, staleW s i = 0) : NoStale s := by
  intro i
  have := h i
  unfold staleW at this
  split <;> rename_i hs <;> rw [hs] at this <;> simp at this <;> first | omega | trivial

/-- the contract and fairness part of `Fair` (everything but the regions) -/
structure Contract {c : Cfg} (x : Exec c) (n0 : Nat) : Prop where
  cap : 1 ≤ c.cap
  stopCalled : (x.σ n0).stop ≠ .idle
  quiet : Quiet (x.σ n0)
  contract : ∀ n, n0 ≤ n → ∀ l, x.ℓ n = some l → l.retiring = false
  collFair : ∀ n, n0 ≤ n → collActive (x.σ n).cpc = true → ∃ m, n ≤ m ∧ ∃ l, x.ℓ m = some l ∧ l.isColl = true
  stopFair : ∀ n, n0 ≤ n → stopEnabled c (x.σ n) → ∃ m, n ≤ m ∧ ∃ l, x.ℓ m = some l ∧ l.isStop = true

theorem Contract.keeps {c : Cfg} {x : Exec c} {n0 : Nat} (hc : Contract x n0) :
    ∀ n, n0 ≤ n → (x.σ n).stop ≠ .idle ∧ Quiet (x.σ n) := by
  intro n hn
  induction n with
  | zero =>
    have : n0 = 0 := by omega
    subst this; exact ⟨hc.stopCalled, hc.quiet⟩
  | succ n ih =>
    rcases Nat.lt_or_ge n n0 with hlt | hge
    · have : n0 = n + 1 := by omega
      subst this; exact ⟨hc.stopCalled, hc.quiet⟩
    · have ⟨g1, g2⟩ := ih hge
      have hnext := x.next n
      split at hnext
      · rw [hnext]; exact ⟨g1, g2⟩
      · rename_i l hl
        exact ⟨called_step g1 hnext, quiet_step g2 (hc.contract n hge l hl) hnext⟩

theorem Contract.shift {c : Cfg} {x : Exec c} {n0 n1 : Nat} (hc : Contract x n0) (h : n0 ≤ n1) : Contract x n1 :=
  ⟨hc.cap, (hc.keeps n1 h).1, (hc.keeps n1 h).2,
   fun n hn => hc.contract n (by omega), fun n hn => hc.collFair n (by omega), fun n hn => hc.stopFair n (by omega)⟩

theorem Contract.fair {c : Cfg} {x : Exec c} {n0 : Nat} (hc : Contract x n0) (hr : NoStale (x.σ n0)) : Fair x n0 :=
  ⟨hc.cap, hc.stopCalled, hc.quiet, hc.contract, hc.collFair, hc.stopFair, hr⟩

/-- without ticks no slot gets staler -/
theorem staleW_step {c : Cfg} {s s' : State} {l : Lbl} (hq : Quiet s) (hl : l.retiring = false)
    (h : step c s l = some s') (i : Nat) : staleW s' i ≤ staleW s i := by
  cases l with
  | callRetire id => cases hl
  | callRetireAt id e => cases hl
  | clientTick => cases hl
  | tick id =>
    simp only [GC.step, stepWith] at h
    split at h <;> try contradiction
    rename_i ht
    rcases hq id with h1 | ⟨e, k, h1⟩ <;> rw [h1] at ht <;> cases ht
  | enterRead i0 =>
    simp only [GC.step, stepWith] at h
    split at h <;> try contradiction
    rename_i hg
    injection h with h; subst h
    by_cases hi : i = i0
    · subst hi; simp [staleW, hg.2]
    · simp [staleW, upd_other _ _ hi]
  | enterPin i0 =>
    simp only [GC.step, stepWith] at h
    split at h <;> try contradiction
    rename_i g0 hent
    injection h with h; subst h
    by_cases hi : i = i0
    · subst hi; simp only [staleW, upd_same, hent]; split <;> simp
    · simp [staleW, upd_other _ _ hi]
  | leave i0 =>
    simp only [GC.step, stepWith] at h
    split at h <;> try contradiction
    injection h with h; subst h
    by_cases hi : i = i0
    · subst hi; simp [staleW]
    · simp [staleW, upd_other _ _ hi]
  | pop n =>
    simp only [GC.step, stepWith] at h
    split at h <;> try contradiction
    · split at h <;> try contradiction
      injection h with h; subst h; exact Nat.le_refl _
    · split at h <;> try contradiction
      injection h with h; subst h; exact Nat.le_refl _
  | _ =>
    simp only [GC.step, stepWith] at h <;> (repeat' split at h) <;>
    first
    | contradiction
    | (injection h with h; subst h; exact Nat.le_refl _)

/-- the slot's own next step makes it strictly less stale -/
theorem staleW_own_step {c : Cfg} {s s' : State} {i : Nat} (hpos : 0 < staleW s i)
    (h : step c s (.enterPin i) = some s' ∨ step c s (.leave i) = some s') : staleW s' i < staleW s i := by
  rcases h with h | h
  · simp only [GC.step, stepWith] at h
    split at h <;> try contradiction
    rename_i g0 hent
    injection h with h; subst h
    simp only [staleW, hent] at hpos ⊢
    simp only [upd_same]
    split at hpos
    · rename_i hlt; simp [hlt]
    · omega
  · simp only [GC.step, stepWith] at h
    split at h <;> try contradiction
    injection h with h; subst h
    simp only [staleW, upd_same] at hpos ⊢
    exact hpos

/-- The per-region environment hypothesis: a slot that has read, or holds, an epoch below the current
global version eventually takes its next step (store the slot / close the region). -/
def RegionsProceed {c : Cfg} (x : Exec c) (n0 : Nat) : Prop :=
  ∀ n, n0 ≤ n → ∀ i, 0 < staleW (x.σ n) i →
    ∃ m, n ≤ m ∧ (x.ℓ m = some (.enterPin i) ∨ x.ℓ m = some (.leave i))

theorem staleW_mono {c : Cfg} {x : Exec c} {n0 : Nat} (hc : Contract x n0) (i : Nat) :
    ∀ n m, n0 ≤ n → n ≤ m → staleW (x.σ m) i ≤ staleW (x.σ n) i := by
  intro n m hn hm
  induction m with
  | zero => have : n = 0 := by omega
            subst this; exact Nat.le_refl _
  | succ m ih =>
    rcases Nat.lt_or_ge m n with hlt | hge
    · have : n = m + 1 := by omega
      subst this; exact Nat.le_refl _
    · have h1 := ih hge
      have hnext := x.next m
      split at hnext
      · rw [hnext]; exact h1
      · rename_i l hl
        exact Nat.le_trans (staleW_step (hc.keeps m (by omega)).2 (hc.contract m (by omega) l hl) hnext i) h1

theorem slot_eventually_fresh {c : Cfg} {x : Exec c} {n0 : Nat} (hc : Contract x n0) (hr : RegionsProceed x n0)
    (i : Nat) : ∀ n, n0 ≤ n → ∃ m, n ≤ m ∧ staleW (x.σ m) i = 0 := by
  have key : ∀ w n, n0 ≤ n → staleW (x.σ n) i ≤ w → ∃ m, n ≤ m ∧ staleW (x.σ m) i = 0 := by
    intro w
    induction w using Nat.strongRecOn with
    | _ w ih =>
      intro n hn hw
      rcases Nat.eq_zero_or_pos (staleW (x.σ n) i) with h0 | hpos
      · exact ⟨n, Nat.le_refl _, h0⟩
      · obtain ⟨m, hm, hl⟩ := hr n hn i hpos
        have hmono := staleW_mono hc i n m hn hm
        rcases Nat.eq_zero_or_pos (staleW (x.σ m) i) with h0 | hpos'
        · exact ⟨m, hm, h0⟩
        · have hnext := x.next m
          have hlt : staleW (x.σ (m + 1)) i < staleW (x.σ m) i := by
            rcases hl with hl | hl <;> rw [hl] at hnext
            · exact staleW_own_step hpos' (Or.inl hnext)
            · exact staleW_own_step hpos' (Or.inr hnext)
          obtain ⟨m', hm', h0⟩ := ih (staleW (x.σ (m + 1)) i) (by omega) (m + 1) (by omega) (Nat.le_refl _)
          exact ⟨m', by omega, h0⟩
  intro n hn
  exact key _ n hn (Nat.le_refl _)

/-- from some moment on no stale region is left -/
theorem eventually_noStale {c : Cfg} {x : Exec c} {n0 : Nat} (hc : Contract x n0) (hr : RegionsProceed x n0) :
    ∃ n1, n0 ≤ n1 ∧ NoStale (x.σ n1) := by
  have he := (reach_inv (x.reach n0)).e
  -- slots at or above `nslots` at time n0 are idle and stay fresh
  have hhigh : ∀ i, (x.σ n0).nslots ≤ i → ∀ m, n0 ≤ m → staleW (x.σ m) i = 0 := by
    intro i hi m hm
    have h0 : staleW (x.σ n0) i = 0 := by
      have : (x.σ n0).slots i = .idle := by
        apply Classical.byContradiction
        intro hne
        have := he.bound i hne
        omega
      simp [staleW, this]
    have := staleW_mono hc i n0 m (Nat.le_refl _) hm
    omega
  -- the slots below, one after the other
  have hlow : ∀ k, ∃ n1, n0 ≤ n1 ∧ ∀ i, i < k → staleW (x.σ n1) i = 0 := by
    intro k
    induction k with
    | zero => exact ⟨n0, Nat.le_refl _, fun i hi => absurd hi (Nat.not_lt_zero _)⟩
    | succ k ih =>
      obtain ⟨n1, hn1, hall⟩ := ih
      obtain ⟨n2, hn2, hk⟩ := slot_eventually_fresh hc hr k n1 hn1
      refine ⟨n2, by omega, ?_⟩
      intro i hi
      rcases Nat.lt_or_ge i k with hlt | hge
      · have := staleW_mono hc i n1 n2 hn1 hn2
        have := hall i hlt
        omega
      · have : i = k := by omega
        subst this; exact hk
  obtain ⟨n1, hn1, hall⟩ := hlow (x.σ n0).nslots
  refine ⟨n1, hn1, noStale_of_staleW ?_⟩
  intro i
  rcases Nat.lt_or_ge i (x.σ n0).nslots with hlt | hge
  · exact hall i hlt
  · exact hhigh i hge n1 hn1

/-- termination of `stop()` with the environment hypothesis in its per-region form -/
theorem stop_terminates_regions {c : Cfg} (x : Exec c) (n0 : Nat) (hc : Contract x n0)
    (hr : RegionsProceed x n0) : ∃ n, (x.σ n).stop = .returned := by
  obtain ⟨n1, hn1, hns⟩ := eventually_noStale hc hr
  exact stop_terminates x n1 ((hc.shift hn1).fair hns)

end Babylon.GC
