/-
  Event-level (L2) model of `GarbageCollector<R>` (src/babylon/concurrent/garbage_collector.h).

  The collector thread is the exact loop of `keep_reclaim` (tasks vector, index, running flag,
  `consume_reclaim_task` with its one or two callback invocations per `try_pop_n`, the
  `reclaim_start_from` prefix walk, the back-off arithmetic).  The two lower layers are replaced
  by their specifications:

  * **queue** (`ConcurrentBoundedQueue`, property C01: `bq_exactly_once`, `bq_fifo`,
    `bq_exclusive`; C02 for the blocking side).  A ticket queue: `push` first takes a ticket with
    a `fetch_add` on the push index (`reserve`), then waits until the slot of that ticket has been
    released by the consumer of the previous round and publishes (`publish`, enabled iff
    `ticket < popIdx + capacity`); the non-blocking batch pop takes a prefix of *published*
    tickets in ticket order (`pop n`, at most up to the end of the ring per callback), and at
    least one if the head ticket was already published when the call began (`headSeen`).
  * **epoch** (`Epoch`, property C09).  `tick` increments the global version and returns the new
    value.  A critical region on slot `i` reads the global version `g` (`enterRead`), stores it in
    the slot (`enterPin`; from here on the region is *pinned* with epoch `g`) and closes with a
    store of the idle value (`leave`).  `low_water_mark()` is not atomic; the specification
    assumed of one call (`scanBegin` … `scanEnd m`) is exactly
        (upper)  `m ≤ p` for every slot that was pinned with epoch `p` when the scan began and has
                 not been closed when it ends          — C09 `epoch_safety_sc` / `epoch_safety_view`
                 (a region the scan can miss is one whose fence follows the tick's, which then
                 observes the new data: `epoch_new_slot_safe`, `epoch_stale_gver_conservative`);
        (lower)  `m ≥` the smallest epoch with which any slot was pinned at some moment of the
                 scan, `m = ∞` if there was none  — C09 `epoch_released_never_holds`.
    The scan may return *any* `m` between the two bounds.

  `since` (second component of `Slot.pinned`) is ghost: the global version at the moment the slot
  was pinned.  Since `tick` is the only writer of the global version and the task epoch `e` is the
  value a tick returned, `since < e` says precisely "pinned before the tick of that retirement".

  One `step` = one observable action (one trace line of the real code under VRT: an atomic
  operation on the epoch / queue indices, a harness event, or the collector's sleep), so the same
  function drives the theorems (all interleavings = all label sequences) and the replay of real
  executions (`Drivers/C10.lean`).  Ghost fields (`log`, `dropped`, `consumed`, `popped`,
  `pushAtStop`, `runBase`, `late`, `since`) never influence a non-ghost field or the enabledness of a step.
  (`headSeen`, `must`, `floor` are not ghost: they are the state of the two specifications above —
  what a running `try_pop_n` / `low_water_mark()` call is already committed to.)
  Client contract built into `step`: reclaimer ids are distinct (`callRetire` needs an unused id),
  `retire(r, e)` gets an `e` some tick returned (`1 ≤ e ≤ gver`), `stop()` is not called while another
  `stop()` is in progress.  Life cycle: initially there is no collector thread (`cpc = off`); `retire`
  works all the same (tasks wait in the queue, a full queue blocks); `start()` launches a fresh
  `keep_reclaim` on the queue as it is; `stop()` on a running collector pushes the marker and joins, after
  which the collector is off again and may be started again; `stop()` with no joinable thread returns at
  once and invokes nothing (so does the destructor: whoever retires must start the collector).  `retire` concurrent with or after
  `stop()` is *not* excluded: such a task is queued behind the marker and the model does what the
  code does with it (skipped if popped in the marker's callback invocation, appended otherwise).
  Core Lean only.
-/
import Babylon.Gen.GC

namespace Babylon.GC
open Babylon.Gen.GC

structure Cfg where
  cap : Nat            -- queue capacity (a power of two in the real code; not needed here)

/-- `batch = min(1024, capacity)` -/
def Cfg.batch (c : Cfg) : Nat := min batchMax c.cap

structure Task where
  id : Nat
  e : Nat              -- lowest_epoch
  deriving DecidableEq, Repr, Inhabited

/-- what a queue cell holds: a reclaim task or the stop marker (`lowest_epoch == UINT64_MAX`) -/
inductive Item
  | task (t : Task)
  | marker
  deriving DecidableEq, Repr, Inhabited

inductive Slot
  | idle
  | entering (g : Nat)          -- global version read, slot not yet written
  | pinned (p : Nat) (since : Nat) -- slot holds `p`; ghost `since` = global version when it was written
  deriving DecidableEq, Repr, Inhabited

/-- state of the `retire` call that hands over reclaimer `id` -/
inductive Call
  | none
  | tick                        -- `retire(r)`: about to `tick()`
  | reserve (e : Nat)           -- about to `fetch_add` the push index
  | publish (e k : Nat)         -- holds ticket `k`, waits for room, then publishes
  | done (e k : Nat)            -- about to return / returned
  deriving DecidableEq, Repr, Inhabited

inductive StopPc
  | idle
  | reserve
  | publish (k : Nat)
  | join
  | returned
  deriving DecidableEq, Repr, Inhabited

/-- a low water mark: `none` is `UINT64_MAX` (no slot pinned) -/
abbrev Lwm := Option Nat

def leLwm (e : Nat) : Lwm → Bool
  | none => true
  | some m => decide (e ≤ m)

def minLwm (a : Lwm) (p : Nat) : Lwm :=
  match a with
  | none => some p
  | some m => some (min m p)

/-- `a ≤ b` on low water marks -/
def Lwm.le : Lwm → Lwm → Bool
  | _, none => true
  | none, some _ => false
  | some a, some b => decide (a ≤ b)

/-- program counter of the collector thread inside `keep_reclaim` -/
inductive CPc
  | off                          -- no collector thread (never started, or joined by `stop()`)
  | top                          -- at the `while` condition
  | pop1                         -- inside `try_pop_n`: first `try_deal_n_continuously`
  | pop2 (lim : Nat)             -- second one (after the ring wrapped), at most `lim` elements
  | preScan                      -- consume done, about to call `reclaim_start_from`
  | scan                         -- inside `low_water_mark()`
  | reclaim (m : Lwm) (cnt : Nat) -- walking the prefix with low water mark `m`, `cnt` reclaimed so far
  | done                         -- `keep_reclaim` returned, thread not joined yet
  deriving DecidableEq, Repr, Inhabited

/-- one invocation log entry: reclaimer `id` with epoch `e` was invoked in a pass that read `m` -/
structure Inv where
  id : Nat
  e : Nat
  m : Lwm
  deriving DecidableEq, Repr

structure State where
  -- epoch
  gver : Nat
  nslots : Nat
  slots : Nat → Slot
  -- queue: `cells` are the tickets `popIdx, popIdx+1, …` (reserved; flag = published)
  pushIdx : Nat
  popIdx : Nat
  cells : List (Item × Bool)
  -- clients
  calls : Nat → Call
  stop : StopPc
  -- collector
  cpc : CPc
  tasks : List Task
  index : Nat
  running : Bool
  backoff : Nat
  headSeen : Bool               -- try_pop_n: the head cell was already published when the call began
  must : List Nat               -- scan: slots pinned since before the scan began
  floor : Lwm                   -- scan: smallest epoch pinned at some moment of the scan
  -- ghost
  log : List Inv                -- reclaimer invocations, in order
  consumed : List Task          -- every task ever moved into `tasks`, in order
  dropped : List Task           -- tasks popped in the same callback invocation behind a marker
  popped : List Item            -- every item ever popped, in order
  pushAtStop : Option Nat       -- push index when `stop()` was (last) called
  runBase : Nat                 -- number of items popped before the current / last collector thread started
  late : List Nat               -- ids whose `retire` took its ticket while a `stop()` had its marker queued / was joining

def State.init : State :=
  { gver := 0, nslots := 0, slots := fun _ => .idle, pushIdx := 0, popIdx := 0, cells := [],
    calls := fun _ => .none, stop := .idle, cpc := .off, tasks := [], index := 0, running := true,
    backoff := backoffInit, headSeen := false, must := [], floor := none, log := [], consumed := [], dropped := [],
    popped := [], pushAtStop := none, runBase := 0, late := [] }

def upd {α : Type} (f : Nat → α) (i : Nat) (v : α) : Nat → α := fun j => if j = i then v else f j

/-- labels: one per observable action -/
inductive Lbl
  -- retire
  | callRetire (id : Nat)            -- `retire(r)` called
  | callRetireAt (id e : Nat)        -- `retire(r, e)` called with `e` obtained from an earlier tick
  | tick (id : Nat)
  | reserve (id : Nat)
  | publish (id : Nat)
  -- a client ticks on its own (batch retirement)
  | clientTick
  -- regions
  | newSlot
  | enterRead (s : Nat)
  | enterPin (s : Nat)
  | leave (s : Nat)
  -- life cycle
  | start                            -- `start()`: launches the collector thread unless one is joinable
  | stopNoop                         -- `stop()` / destructor with no joinable thread: returns at once
  -- stop
  | callStop
  | stopReserve
  | stopPublish
  | stopJoin
  -- collector
  | consumeBegin
  | pop (n : Nat)
  | scanBegin
  | scanEnd (m : Lwm)
  | reclaim (id : Nat)
  | passEnd
  | exit
  deriving DecidableEq, Repr

def Item.task? : Item → Option Task
  | .task t => some t
  | .marker => none

/-- the reclaim tasks among a list of items, in order -/
def tasksOf (l : List Item) : List Task := l.filterMap Item.task?

/-- one callback invocation of `consume_reclaim_task` on a popped range:
(tasks appended, tasks skipped behind a marker, marker seen) -/
def absorb : List Item → List Task × List Task × Bool
  | [] => ([], [], false)
  | .marker :: rest => ([], tasksOf rest, true)
  | .task t :: rest => let r := absorb rest; (t :: r.1, r.2.1, r.2.2)

def setPublished (cells : List (Item × Bool)) (i : Nat) : List (Item × Bool) :=
  cells.modify i (fun c => (c.1, true))

/-- the `while` condition of `keep_reclaim` -/
def loopCond (s : State) : Bool := s.running || decide (s.index < s.tasks.length)
/-- the `if` guarding the consume block -/
def consumeCond (s : State) : Bool := s.running && decide (s.index = s.tasks.length)

/-- room to the end of the ring for the first `try_deal_n_continuously` -/
def Cfg.ringRoom (c : Cfg) (popIdx : Nat) : Nat := c.cap - popIdx % c.cap
def Cfg.lim1 (c : Cfg) (popIdx : Nat) : Nat := min c.batch (c.ringRoom popIdx)

def popCells (s : State) (n : Nat) : State :=
  let items := (s.cells.take n).map (·.1)
  let r := absorb items
  { s with popIdx := s.popIdx + n, cells := s.cells.drop n,
           tasks := s.tasks ++ r.1, consumed := s.consumed ++ r.1, dropped := s.dropped ++ r.2.1,
           running := s.running && !r.2.2, popped := s.popped ++ items }

def canPop (s : State) (n lim : Nat) : Bool :=
  decide (n ≤ lim) && decide (n ≤ s.cells.length) && (s.cells.take n).all (·.2)

/-- may the task at `index` be reclaimed with low water mark `m`? (`!(lowest_epoch > lwm)`) -/
def nextReclaimable (s : State) (m : Lwm) : Option Task :=
  match s.tasks[s.index]? with
  | some t => if leLwm t.e m then some t else none
  | none => none

def scanEndOk (s : State) (m : Lwm) : Bool :=
  s.must.all (fun i => match s.slots i with
    | .pinned p _ => Lwm.le m (some p)
    | _ => true) && Lwm.le s.floor m

def pinnedNow (s : State) : List Nat :=
  (List.range s.nslots).filter (fun i => match s.slots i with | .pinned _ _ => true | _ => false)

def floorNow (s : State) : Lwm :=
  (pinnedNow s).foldl (fun a i => match s.slots i with | .pinned p _ => minLwm a p | _ => a) none

/-- the back-off arithmetic at the end of one pass: (new back-off, sleep duration if any) -/
def backoffNext (c : Cfg) (backoff cnt : Nat) : Nat × Option Nat :=
  if cnt < sleepBelow then
    let b := min (backoff + backoffIncr) backoffMax
    (b, some b)
  else if cnt ≥ c.batch then (backoff >>> backoffShift, none)
  else (backoff, none)

/-- The transition function, parametrised by the two conditions of the collector loop (`lc` = the
`while` condition, `cc` = the guard of the consume block) so that the loop of the code before the
repair of DESIGN §7 #2 can be stated too (`stepOld`). -/
def stepWith (lc cc : State → Bool) (c : Cfg) (s : State) : Lbl → Option State
  -- ---------------- retire
  | .callRetire id =>
    if s.calls id = .none then some { s with calls := upd s.calls id .tick } else none
  | .callRetireAt id e =>
    if s.calls id = .none ∧ 1 ≤ e ∧ e ≤ s.gver then some { s with calls := upd s.calls id (.reserve e) } else none
  | .tick id =>
    if s.calls id = .tick then
      some { s with gver := s.gver + tickAdds, calls := upd s.calls id (.reserve (s.gver + tickReturnsOldPlus)) }
    else none
  | .reserve id =>
    match s.calls id with
    | .reserve e =>
      some { s with pushIdx := s.pushIdx + 1, cells := s.cells ++ [(.task ⟨id, e⟩, false)],
                    calls := upd s.calls id (.publish e s.pushIdx),
                    late := match s.stop with
                      | .publish _ => id :: s.late
                      | .join => id :: s.late
                      | _ => s.late }
    | _ => none
  | .publish id =>
    match s.calls id with
    | .publish e k =>
      if s.popIdx ≤ k ∧ k < s.popIdx + c.cap then
        some { s with cells := setPublished s.cells (k - s.popIdx), calls := upd s.calls id (.done e k) }
      else none
    | _ => none
  | .clientTick => some { s with gver := s.gver + tickAdds }
  -- ---------------- regions
  | .newSlot => some { s with nslots := s.nslots + 1 }
  | .enterRead i =>
    if i < s.nslots ∧ s.slots i = .idle then some { s with slots := upd s.slots i (.entering s.gver) } else none
  | .enterPin i =>
    match s.slots i with
    | .entering g =>
      some { s with slots := upd s.slots i (.pinned g s.gver),
                    floor := if s.cpc = .scan then minLwm s.floor g else s.floor }
    | _ => none
  | .leave i =>
    match s.slots i with
    | .pinned _ _ => some { s with slots := upd s.slots i .idle, must := s.must.filter (· ≠ i) }
    | _ => none
  -- ---------------- life cycle
  | .start =>
    if s.cpc = .off then
      -- a fresh `keep_reclaim`: its locals are new, the queue is whatever it is
      some { s with cpc := .top, tasks := [], index := 0, running := true, backoff := backoffInit,
                    headSeen := false, runBase := s.popped.length }
    else some s
  | .stopNoop =>
    if s.cpc = .off ∧ (s.stop = .idle ∨ s.stop = .returned) then some s else none
  -- ---------------- stop
  | .callStop =>
    if (s.stop = .idle ∨ s.stop = .returned) ∧ s.cpc ≠ .off then
      some { s with stop := .reserve, pushAtStop := some s.pushIdx }
    else none
  | .stopReserve =>
    if s.stop = .reserve then
      some { s with pushIdx := s.pushIdx + 1, cells := s.cells ++ [(.marker, false)], stop := .publish s.pushIdx }
    else none
  | .stopPublish =>
    match s.stop with
    | .publish k =>
      if s.popIdx ≤ k ∧ k < s.popIdx + c.cap then
        some { s with cells := setPublished s.cells (k - s.popIdx), stop := .join }
      else none
    | _ => none
  | .stopJoin =>
    if s.stop = .join ∧ s.cpc = .done then some { s with stop := .returned, cpc := .off } else none
  -- ---------------- collector
  | .consumeBegin =>
    if s.cpc = .top ∧ lc s ∧ cc s then
      some { s with cpc := .pop1, tasks := [], index := 0,
                    headSeen := match s.cells.head? with | some (_, true) => true | _ => false }
    else none
  | .pop n =>
    match s.cpc with
    | .pop1 =>
      let lim := c.lim1 s.popIdx
      -- a head that was published before the call began is seen by its version check: not empty-handed
      if canPop s n lim ∧ (1 ≤ n ∨ s.headSeen = false) then
        let s' := popCells s n
        some { s' with cpc := if n = lim ∧ lim < c.batch then .pop2 (c.batch - lim) else .preScan }
      else none
    | .pop2 lim =>
      if canPop s n lim then some { popCells s n with cpc := .preScan } else none
    | _ => none
  | .scanBegin =>
    if s.cpc = .preScan ∨ (s.cpc = .top ∧ lc s ∧ ¬ cc s) then
      some { s with cpc := .scan, must := pinnedNow s, floor := floorNow s }
    else none
  | .scanEnd m =>
    if s.cpc = .scan ∧ scanEndOk s m then some { s with cpc := .reclaim m 0, must := [], floor := none } else none
  | .reclaim id =>
    match s.cpc with
    | .reclaim m cnt =>
      match nextReclaimable s m with
      | some t =>
        if t.id = id then
          some { s with index := s.index + 1, cpc := .reclaim m (cnt + 1), log := s.log ++ [⟨t.id, t.e, m⟩] }
        else none
      | none => none
    | _ => none
  | .passEnd =>
    match s.cpc with
    | .reclaim m cnt =>
      if (nextReclaimable s m).isNone then
        some { s with cpc := .top, backoff := (backoffNext c s.backoff cnt).1 }
      else none
    | _ => none
  | .exit =>
    if s.cpc = .top ∧ ¬ lc s then some { s with cpc := .done } else none

/-- The transition function: `step c s l = some s'` iff action `l` is enabled in `s`. -/
def step (c : Cfg) (s : State) (l : Lbl) : Option State := stepWith loopCond consumeCond c s l

/-- the collector loop before the repair: `while (running) { if (index == tasks.size()) {…} … }` -/
def loopCondOld (s : State) : Bool := s.running
def consumeCondOld (s : State) : Bool := decide (s.index = s.tasks.length)
def stepOld (c : Cfg) (s : State) (l : Lbl) : Option State := stepWith loopCondOld consumeCondOld c s l

/-- run a sequence of actions (used by the non-vacuity examples and the counterexample) -/
def runL (st : Cfg → State → Lbl → Option State) (c : Cfg) : State → List Lbl → Option State
  | s, [] => some s
  | s, l :: ls => match st c s l with
    | some s' => runL st c s' ls
    | none => none

/-- Any enabled action of any actor: all interleavings, any number of clients, slots, retirements. -/
def Step (c : Cfg) (s s' : State) : Prop := ∃ l, step c s l = some s'

/-- every ticket ever taken, in ticket order (ticket `k` is element `k`) -/
def State.allItems (s : State) : List Item := s.popped ++ s.cells.map (·.1)

def Inv.task (i : Inv) : Task := ⟨i.id, i.e⟩

/-- ids of the reclaimers invoked so far, in invocation order -/
def State.invoked (s : State) : List Nat := s.log.map (·.id)

/-- sleep duration of the pass that is about to end (what `usleep` is called with), if it sleeps -/
def passSleep (c : Cfg) (s : State) : Option Nat :=
  match s.cpc with
  | .reclaim _ cnt => (backoffNext c s.backoff cnt).2
  | _ => none

/-- the shapes this model was written against (compared with the generated ones in Properties/C10) -/
def Shape.loopCond : String := "running||index<tasks.size()"
def Shape.consumeCond : String := "running&&index==tasks.size()"
def Shape.consumeBlock : String := "tasks.clear();running=consume_reclaim_task(batch,tasks);index=0;"
def Shape.reclaimCall : String := "reclaim_start_from(index,tasks)"
def Shape.markerAction : String := "running=false;break;"
def Shape.absorbAction : String := "tasks.emplace_back(::std::move(task));"
def Shape.notYetCond : String := "task.lowest_epoch>low_water_mark"
def Shape.notYetAction : String := "break;"

end Babylon.GC
