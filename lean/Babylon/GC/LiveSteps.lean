/-
  Termination of `stop()` (property C10), part 2: frame facts (what an action of one actor leaves
  untouched) and the local potentials of the collector in the three situations where it is the
  helpful actor.
-/
import Babylon.GC.Live

namespace Babylon.GC
open Babylon.Core Babylon.Gen.GC

/-- a non-collector action leaves the collector's variables and the pop index alone -/
theorem frame_nonColl {c : Cfg} {s s' : State} {l : Lbl} (hl : l.isColl = false) (hr : l ≠ .start)
    (hj : l ≠ .stopJoin) (h : step c s l = some s') :
    s'.cpc = s.cpc ∧ s'.tasks = s.tasks ∧ s'.index = s.index ∧ s'.running = s.running ∧
    s'.headSeen = s.headSeen ∧ s'.popIdx = s.popIdx := by
  cases l <;> first | (cases hl; done) | (exact absurd rfl hr) | (exact absurd rfl hj) | skip
  all_goals
    simp only [GC.step, stepWith] at h <;> (repeat' split at h) <;>
    first
    | contradiction
    | (injection h with h; subst h; exact ⟨rfl, rfl, rfl, rfl, rfl, rfl⟩)

theorem stopJoin_needs_done {c : Cfg} {s s' : State} (h : step c s .stopJoin = some s') : s.cpc = .done := by
  simp only [GC.step, stepWith] at h
  split at h <;> try contradiction
  rename_i hg; exact hg.2

/-- a collector action needs the collector not to have finished -/
theorem coll_not_done {c : Cfg} {s s' : State} {l : Lbl} (hl : l.isColl = true) (h : step c s l = some s') :
    s.cpc ≠ .done := by
  intro hd
  cases l with
  | consumeBegin =>
    simp only [GC.step, stepWith] at h
    split at h <;> try contradiction
    rename_i hg; rw [hd] at hg; cases hg.1
  | pop n =>
    simp only [GC.step, stepWith] at h
    split at h <;> try contradiction
    · rename_i heq; rw [hd] at heq; cases heq
    · rename_i heq; rw [hd] at heq; cases heq
  | scanBegin =>
    simp only [GC.step, stepWith] at h
    split at h <;> try contradiction
    rename_i hg; rw [hd] at hg
    rcases hg with hg | hg
    · cases hg
    · cases hg.1
  | scanEnd m =>
    simp only [GC.step, stepWith] at h
    split at h <;> try contradiction
    rename_i hg; rw [hd] at hg; cases hg.1
  | reclaim id =>
    simp only [GC.step, stepWith] at h
    split at h <;> try contradiction
    rename_i heq; rw [hd] at heq; cases heq
  | passEnd =>
    simp only [GC.step, stepWith] at h
    split at h <;> try contradiction
    rename_i heq; rw [hd] at heq; cases heq
  | exit =>
    simp only [GC.step, stepWith] at h
    split at h <;> try contradiction
    rename_i hg; rw [hd] at hg; cases hg.1
  | _ => cases hl

/-- only the stopping thread moves `stop` (once it has been called) -/
theorem frame_nonStop {c : Cfg} {s s' : State} {l : Lbl} (hl : l.isStop = false) (hr : l.retiring = false)
    (h : step c s l = some s') : s'.stop = s.stop := by
  cases l with
  | stopReserve => cases hl
  | stopPublish => cases hl
  | stopJoin => cases hl
  | callStop => cases hr
  | pop n =>
    simp only [GC.step, stepWith] at h
    split at h <;> try contradiction
    · split at h <;> try contradiction
      injection h with h; subst h; rfl
    · split at h <;> try contradiction
      injection h with h; subst h; rfl
  | _ =>
    simp only [GC.step, stepWith] at h <;> (repeat' split at h) <;>
    first
    | contradiction
    | (injection h with h; subst h; rfl)

theorem popIdx_mono {c : Cfg} {s s' : State} {l : Lbl} (h : step c s l = some s') : s.popIdx ≤ s'.popIdx := by
  cases l with
  | pop n =>
    simp only [GC.step, stepWith] at h
    split at h <;> try contradiction
    · split at h <;> try contradiction
      injection h with h; subst h; simp [popCells]
    · split at h <;> try contradiction
      injection h with h; subst h; simp [popCells]
  | _ =>
    simp only [GC.step, stepWith] at h <;> (repeat' split at h) <;>
    first
    | contradiction
    | (injection h with h; subst h; exact Nat.le_refl _)

/-- the head cell of the queue is published -/
def headPub (s : State) : Prop := ∃ x, s.cells.head? = some (x, true)

theorem head?_setPublished (cells : List (Item × Bool)) (i : Nat) (x : Item) (h : cells.head? = some (x, true)) :
    (setPublished cells i).head? = some (x, true) := by
  unfold setPublished
  cases cells with
  | nil => simp at h
  | cons a rest =>
    simp at h; subst h
    cases i <;> simp

theorem headPub_nonColl {c : Cfg} {s s' : State} {l : Lbl} (hl : l.isColl = false) (hp : headPub s)
    (h : step c s l = some s') : headPub s' := by
  obtain ⟨x, hx⟩ := hp
  have happ : ∀ y, (s.cells ++ [y]).head? = some (x, true) := by
    intro y
    cases hc : s.cells with
    | nil => rw [hc] at hx; simp at hx
    | cons a rest => rw [hc] at hx; simpa using hx
  cases l <;> first | (cases hl; done) | skip
  all_goals
    simp only [GC.step, stepWith] at h <;> (repeat' split at h) <;>
    first
    | contradiction
    | (injection h with h; subst h
       first
       | exact ⟨x, hx⟩
       | exact ⟨x, happ _⟩
       | exact ⟨x, head?_setPublished _ _ _ hx⟩)

/-- number of consumed tasks still waiting in `tasks[index..]` -/
def waiting (s : State) : Nat := s.tasks.length - s.index

/-- every task in `tasks` is below the scan's running lower bound -/
def floorOkB (s : State) : Bool := s.tasks.all (fun t => leLwm t.e s.floor)

theorem leLwm_minLwm {e g : Nat} {f : Lwm} (h1 : leLwm e f = true) (h2 : e ≤ g) : leLwm e (minLwm f g) = true := by
  cases f with
  | none => simp [minLwm, leLwm, h2]
  | some v =>
    simp only [leLwm, decide_eq_true_eq] at h1
    simp only [minLwm, leLwm, decide_eq_true_eq]
    omega

theorem floorOkB_nonColl {c : Cfg} {s s' : State} {l : Lbl} (g : Good c s) (hl : l.isColl = false)
    (hr : l.retiring = false) (hf : floorOkB s = true) (h : step c s l = some s') : floorOkB s' = true := by
  have he := (reach_inv g.reach).e
  cases l with
  | start => cases hr
  | enterPin i =>
    simp only [GC.step, stepWith] at h
    split at h <;> try contradiction
    rename_i g0 hent
    injection h with h; subst h
    have hfresh := g.fresh i
    rw [hent] at hfresh
    simp only [floorOkB, List.all_eq_true] at hf ⊢
    intro t ht
    split
    · exact leLwm_minLwm (hf t ht) (Nat.le_trans (he.taskLe t ht) hfresh)
    · exact hf t ht
  | _ =>
    first
    | (cases hl; done)
    | (simp only [GC.step, stepWith] at h <;> (repeat' split at h) <;>
       first
       | contradiction
       | (injection h with h; subst h; exact hf))

end Babylon.GC
