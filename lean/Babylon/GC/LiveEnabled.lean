/-
  Termination of `stop()` (property C10), part 6: the fairness hypothesis on the collector is not
  vacuous — until it has finished, the collector thread always has an enabled action.
-/
import Babylon.GC.LiveSteps

namespace Babylon.GC
open Babylon.Core Babylon.Gen.GC

theorem Lwm.le_refl (f : Lwm) : Lwm.le f f = true := by
  cases f <;> simp [Lwm.le]

theorem Lwm.le_trans {a b d : Lwm} (h1 : Lwm.le a b = true) (h2 : Lwm.le b d = true) : Lwm.le a d = true := by
  cases d with
  | none => cases a <;> rfl
  | some dv =>
    cases b with
    | none => simp [Lwm.le] at h2
    | some bv =>
      cases a with
      | none => simp [Lwm.le] at h1
      | some av => simp only [Lwm.le, decide_eq_true_eq] at *; omega

theorem minLwm_le_left (f : Lwm) (g : Nat) : Lwm.le (minLwm f g) f = true := by
  cases f with
  | none => rfl
  | some v => simp only [minLwm, Lwm.le, decide_eq_true_eq]; omega

theorem minLwm_le_right (f : Lwm) (g : Nat) : Lwm.le (minLwm f g) (some g) = true := by
  cases f with
  | none => simp [minLwm, Lwm.le]
  | some v => simp only [minLwm, Lwm.le, decide_eq_true_eq]; omega

theorem foldl_floor_le (s : State) (l : List Nat) (acc : Lwm) :
    Lwm.le (l.foldl (fun a i => match s.slots i with | .pinned p _ => minLwm a p | _ => a) acc) acc = true ∧
    ∀ i ∈ l, ∀ p a, s.slots i = .pinned p a →
      Lwm.le (l.foldl (fun a i => match s.slots i with | .pinned p _ => minLwm a p | _ => a) acc) (some p) = true := by
  induction l generalizing acc with
  | nil => exact ⟨Lwm.le_refl _, by simp⟩
  | cons j rest ih =>
    simp only [List.foldl_cons]
    have ih' := ih (match s.slots j with | .pinned p _ => minLwm acc p | _ => acc)
    constructor
    · refine Lwm.le_trans ih'.1 ?_
      split
      · exact minLwm_le_left _ _
      · exact Lwm.le_refl _
    · intro i hi p a hp
      rw [List.mem_cons] at hi
      rcases hi with hi | hi
      · subst hi
        refine Lwm.le_trans ih'.1 ?_
        rw [hp]; exact minLwm_le_right _ _
      · exact ih'.2 i hi p a hp

/-- the scan's running lower bound is below every slot it must respect, and a `try_pop_n` that saw a
published head still has it -/
structure FInv (s : State) : Prop where
  floorLe : s.cpc = .scan → ∀ i ∈ s.must, ∀ p a, s.slots i = .pinned p a → Lwm.le s.floor (some p) = true
  seen : s.cpc = .pop1 → s.headSeen = true → headPub s

theorem FInv.init : FInv State.init := by
  constructor <;> simp [State.init]

theorem FInv.step {c : Cfg} {s s' : State} {l : Lbl} (hf : FInv s) (h : step c s l = some s') : FInv s' := by
  by_cases hstart : l = .start
  · subst hstart
    simp only [GC.step, stepWith] at h
    split at h
    · injection h with h; subst h; exact ⟨by simp, by simp⟩
    · injection h with h; subst h; exact hf
  by_cases hjoin : l = .stopJoin
  · subst hjoin
    simp only [GC.step, stepWith] at h
    split at h <;> try contradiction
    injection h with h; subst h; exact ⟨by simp, by simp⟩
  cases hc : l.isColl with
  | false =>
    obtain ⟨f1, _, _, _, f5, _⟩ := frame_nonColl hc hstart hjoin h
    refine ⟨?_, ?_⟩
    · -- only enterPin / leave touch floor, must, slots
      cases l with
      | enterPin i0 =>
        simp only [GC.step, stepWith] at h
        split at h <;> try contradiction
        rename_i g0 hent
        injection h with h; subst h
        intro hsc i hi p a hp
        dsimp only at hsc hi hp ⊢
        rw [if_pos hsc]
        by_cases hii : i = i0
        · subst hii; simp at hp; rw [← hp.1]; exact minLwm_le_right _ _
        · rw [upd_other _ _ hii] at hp
          exact Lwm.le_trans (minLwm_le_left _ _) (hf.floorLe hsc i hi p a hp)
      | leave i0 =>
        simp only [GC.step, stepWith] at h
        split at h <;> try contradiction
        injection h with h; subst h
        intro hsc i hi p a hp
        dsimp only at hsc hi hp ⊢
        rw [List.mem_filter] at hi
        by_cases hii : i = i0
        · subst hii; simp at hp
        · rw [upd_other _ _ hii] at hp
          exact hf.floorLe hsc i hi.1 p a hp
      | enterRead i0 =>
        simp only [GC.step, stepWith] at h
        split at h <;> try contradiction
        injection h with h; subst h
        intro hsc i hi p a hp
        dsimp only at hsc hi hp ⊢
        by_cases hii : i = i0
        · subst hii; simp at hp
        · rw [upd_other _ _ hii] at hp
          exact hf.floorLe hsc i hi p a hp
      | start => exact absurd rfl hstart
      | stopJoin => exact absurd rfl hjoin
      | _ =>
        first
        | (cases hc; done)
        | (simp only [GC.step, stepWith] at h <;> (repeat' split at h) <;>
           first
           | contradiction
           | (injection h with h; subst h; exact hf.floorLe))
    · intro hp1 hseen
      rw [f1] at hp1; rw [f5] at hseen
      exact headPub_nonColl hc (hf.seen hp1 hseen) h
  | true =>
    cases l <;> first | (cases hc; done) | skip
    · -- consumeBegin
      simp only [GC.step, stepWith] at h
      split at h <;> try contradiction
      injection h with h; subst h
      refine ⟨by simp, ?_⟩
      intro _ hseen
      dsimp only at hseen ⊢
      split at hseen
      · rename_i x0 hx0; exact ⟨x0, hx0⟩
      · cases hseen
    · -- pop
      simp only [GC.step, stepWith] at h
      split at h <;> try contradiction
      · split at h <;> try contradiction
        injection h with h; subst h
        exact ⟨by dsimp only; split <;> simp, by dsimp only; split <;> simp⟩
      · split at h <;> try contradiction
        injection h with h; subst h
        exact ⟨by simp, by simp⟩
    · -- scanBegin
      simp only [GC.step, stepWith] at h
      split at h <;> try contradiction
      injection h with h; subst h
      refine ⟨?_, by simp⟩
      intro _ i hi p a hp
      exact (foldl_floor_le s (pinnedNow s) none).2 i hi p a hp
    · simp only [GC.step, stepWith] at h
      split at h <;> try contradiction
      injection h with h; subst h
      exact ⟨by simp, by simp⟩
    · simp only [GC.step, stepWith] at h
      split at h <;> try contradiction
      split at h <;> try contradiction
      split at h <;> try contradiction
      injection h with h; subst h
      exact ⟨by simp, by simp⟩
    · simp only [GC.step, stepWith] at h
      split at h <;> try contradiction
      split at h <;> try contradiction
      injection h with h; subst h
      exact ⟨by simp, by simp⟩
    · simp only [GC.step, stepWith] at h
      split at h <;> try contradiction
      injection h with h; subst h
      exact ⟨by simp, by simp⟩

theorem reach_finv {c : Cfg} {s : State} (h : Reach c s) : FInv s := by
  refine Reach.inv (c := c) FInv FInv.init ?_ s h
  intro s s' l _ hi hs
  exact hi.step hs

theorem lim1_pos_e {c : Cfg} (hc : 1 ≤ c.cap) (p : Nat) : 1 ≤ c.lim1 p := by
  have h1 : p % c.cap < c.cap := Nat.mod_lt _ (by omega)
  have h2 : batchMax = 1024 := rfl
  simp only [Cfg.lim1, Cfg.batch, Cfg.ringRoom, h2]
  omega

/-- while it exists and has not finished, the collector thread always has an enabled action -/
theorem collector_enabled {c : Cfg} {s : State} (hcap : 1 ≤ c.cap) (h : Reach c s) (hnd : collActive s.cpc = true) :
    ∃ l, l.isColl = true ∧ (step c s l).isSome = true := by
  have hf := reach_finv h
  cases hpc : s.cpc with
  | done => rw [hpc] at hnd; cases hnd
  | off => rw [hpc] at hnd; cases hnd
  | top =>
    by_cases hl : loopCond s = true
    · by_cases hcc : consumeCond s = true
      · exact ⟨.consumeBegin, rfl, by simp [step, stepWith, hpc, hl, hcc]⟩
      · exact ⟨.scanBegin, rfl, by simp [step, stepWith, hpc, hl, hcc]⟩
    · exact ⟨.exit, rfl, by simp [step, stepWith, hpc, hl]⟩
  | pop1 =>
    cases hseen : s.headSeen with
    | false =>
      refine ⟨.pop 0, rfl, ?_⟩
      simp [step, stepWith, hpc, canPop, hseen]
    | true =>
      obtain ⟨x0, hx0⟩ := hf.seen hpc hseen
      have hl := lim1_pos_e hcap s.popIdx
      refine ⟨.pop 1, rfl, ?_⟩
      cases hcells : s.cells with
      | nil => rw [hcells] at hx0; simp at hx0
      | cons a rest =>
        rw [hcells] at hx0; simp at hx0; subst hx0
        simp [step, stepWith, hpc, canPop, hcells, hl]
  | pop2 lim => exact ⟨.pop 0, rfl, by simp [step, stepWith, hpc, canPop]⟩
  | preScan => exact ⟨.scanBegin, rfl, by simp [step, stepWith, hpc]⟩
  | scan =>
    refine ⟨.scanEnd s.floor, rfl, ?_⟩
    have : scanEndOk s s.floor = true := by
      simp only [scanEndOk, Bool.and_eq_true, List.all_eq_true]
      refine ⟨?_, Lwm.le_refl _⟩
      intro i hi
      split
      · rename_i p a hp; exact hf.floorLe hpc i hi p a hp
      · rfl
    simp [step, stepWith, hpc, this]
  | reclaim m cnt =>
    cases hn : nextReclaimable s m with
    | none => exact ⟨.passEnd, rfl, by simp [step, stepWith, hpc, hn]⟩
    | some t => exact ⟨.reclaim t.id, rfl, by simp [step, stepWith, hpc, hn]⟩

end Babylon.GC
