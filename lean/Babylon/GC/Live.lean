/-
  Termination of `stop()` for the GarbageCollector model (property C10): executions, the fairness /
  environment hypotheses, a progress measure that no in-contract step increases, and a helpful-actor
  argument for each situation the system can be in after `stop()` was called.
-/
import Babylon.GC.LemmasLive

namespace Babylon.GC
open Babylon.Core Babylon.Gen.GC

/-- an infinite execution: `ℓ n = none` is a stuttering step (nobody moves) -/
structure Exec (c : Cfg) where
  σ : Nat → State
  ℓ : Nat → Option Lbl
  init : Reach c (σ 0)
  next : ∀ n, match ℓ n with
    | none => σ (n + 1) = σ n
    | some l => step c (σ n) l = some (σ (n + 1))

theorem Exec.reach {c : Cfg} (x : Exec c) : ∀ n, Reach c (x.σ n) := by
  intro n
  induction n with
  | zero => exact x.init
  | succ n ih =>
    have := x.next n
    split at this
    · rw [this]; exact ih
    · exact ih.next _ this

/-- a collector thread exists and has not finished -/
def collActive : CPc → Bool
  | .done | .off => false
  | _ => true

def Lbl.isColl : Lbl → Bool
  | .consumeBegin | .pop _ | .scanBegin | .scanEnd _ | .reclaim _ | .passEnd | .exit => true
  | _ => false

def Lbl.isStop : Lbl → Bool
  | .stopReserve | .stopPublish | .stopJoin => true
  | _ => false

/-- client calls the contract forbids while the `stop()` under consideration is in progress: new
retirements and ticks, and further life-cycle calls (`start()`, another `stop()`) -/
def Lbl.retiring : Lbl → Bool
  | .callRetire _ | .callRetireAt _ _ | .clientTick | .callStop | .start | .stopNoop => true
  | _ => false

/-- no `retire` call is in flight -/
def Quiet (s : State) : Prop := ∀ id, s.calls id = .none ∨ ∃ e k, s.calls id = .done e k

/-- no slot holds, or is about to store, an epoch below the current global version: every critical
region that was entered before the latest tick has been closed -/
def NoStale (s : State) : Prop :=
  ∀ i, match s.slots i with
    | .pinned p _ => s.gver ≤ p
    | .entering g => s.gver ≤ g
    | .idle => True

def stopEnabled (c : Cfg) (s : State) : Prop :=
  (step c s .stopReserve).isSome ∨ (step c s .stopPublish).isSome ∨ (step c s .stopJoin).isSome

/-- The hypotheses of the termination theorem, from time `n0` on:
* contract: a `stop()` has been called (on a running collector), no `retire` is in flight and none
  starts, nobody ticks, no further `start()` / `stop()` call is made;
* fairness: the collector thread (which always has an enabled action while it exists and has not finished) and the
  stopping thread (whenever it is enabled) are eventually scheduled;
* environment: at `n0` every critical region entered before the latest tick has been closed
  ("every region open at stop eventually closes": `n0` is a moment after the last of them closed;
  regions entered later read the current version, never block anything and may stay open for ever —
  `noStale_step` shows the condition then persists). -/
structure Fair {c : Cfg} (x : Exec c) (n0 : Nat) : Prop where
  cap : 1 ≤ c.cap
  stopCalled : (x.σ n0).stop ≠ .idle
  quiet : Quiet (x.σ n0)
  contract : ∀ n, n0 ≤ n → ∀ l, x.ℓ n = some l → l.retiring = false
  collFair : ∀ n, n0 ≤ n → collActive (x.σ n).cpc = true → ∃ m, n ≤ m ∧ ∃ l, x.ℓ m = some l ∧ l.isColl = true
  stopFair : ∀ n, n0 ≤ n → stopEnabled c (x.σ n) → ∃ m, n ≤ m ∧ ∃ l, x.ℓ m = some l ∧ l.isStop = true
  regions : NoStale (x.σ n0)

/-- what is known of every state from `n0` on -/
structure Good (c : Cfg) (s : State) : Prop where
  reach : Reach c s
  cap : 1 ≤ c.cap
  called : s.stop ≠ .idle
  quiet : Quiet s
  fresh : NoStale s

theorem quiet_step {c : Cfg} {s s' : State} {l : Lbl} (hq : Quiet s) (hl : l.retiring = false)
    (h : step c s l = some s') : Quiet s' := by
  cases l with
  | callRetire id => cases hl
  | callRetireAt id e => cases hl
  | clientTick => cases hl
  | tick id =>
    simp only [GC.step, stepWith] at h
    split at h <;> try contradiction
    rename_i ht
    rcases hq id with h1 | ⟨e, k, h1⟩ <;> rw [h1] at ht <;> cases ht
  | reserve id =>
    simp only [GC.step, stepWith] at h
    split at h <;> try contradiction
    rename_i e0 ht
    rcases hq id with h1 | ⟨e, k, h1⟩ <;> rw [h1] at ht <;> cases ht
  | publish id =>
    simp only [GC.step, stepWith] at h
    split at h <;> try contradiction
    rename_i e0 k0 ht
    rcases hq id with h1 | ⟨e, k, h1⟩ <;> rw [h1] at ht <;> cases ht
  | pop n =>
    simp only [GC.step, stepWith] at h
    split at h <;> try contradiction
    · split at h <;> try contradiction
      injection h with h; subst h; exact hq
    · split at h <;> try contradiction
      injection h with h; subst h; exact hq
  | _ =>
    simp only [GC.step, stepWith] at h <;> (repeat' split at h) <;>
    first
    | contradiction
    | (injection h with h; subst h; exact hq)

theorem called_step {c : Cfg} {s s' : State} {l : Lbl} (hc : s.stop ≠ .idle)
    (h : step c s l = some s') : s'.stop ≠ .idle := by
  cases l with
  | pop n =>
    simp only [GC.step, stepWith] at h
    split at h <;> try contradiction
    · split at h <;> try contradiction
      injection h with h; subst h; exact hc
    · split at h <;> try contradiction
      injection h with h; subst h; exact hc
  | _ =>
    simp only [GC.step, stepWith] at h <;> (repeat' split at h) <;>
    first
    | contradiction
    | (injection h with h; subst h; first | exact hc | (intro hh; cases hh))

/-- without ticks, "no stale region" persists: a region entered now reads the current version -/
theorem noStale_step {c : Cfg} {s s' : State} {l : Lbl} (hq : Quiet s) (hn : NoStale s) (hl : l.retiring = false)
    (h : step c s l = some s') : NoStale s' := by
  cases l with
  | callRetire id => cases hl
  | callRetireAt id e => cases hl
  | clientTick => cases hl
  | tick id =>
    simp only [GC.step, stepWith] at h
    split at h <;> try contradiction
    rename_i ht
    rcases hq id with h1 | ⟨e, k, h1⟩ <;> rw [h1] at ht <;> cases ht
  | enterRead i0 =>
    simp only [GC.step, stepWith] at h
    split at h <;> try contradiction
    injection h with h; subst h
    intro i
    dsimp only
    by_cases hi : i = i0
    · subst hi; simp
    · rw [upd_other _ _ hi]; exact hn i
  | enterPin i0 =>
    simp only [GC.step, stepWith] at h
    split at h <;> try contradiction
    rename_i g0 hent
    injection h with h; subst h
    intro i
    dsimp only
    by_cases hi : i = i0
    · subst hi; simp; have := hn i; rw [hent] at this; exact this
    · rw [upd_other _ _ hi]; exact hn i
  | leave i0 =>
    simp only [GC.step, stepWith] at h
    split at h <;> try contradiction
    injection h with h; subst h
    intro i
    dsimp only
    by_cases hi : i = i0
    · subst hi; simp
    · rw [upd_other _ _ hi]; exact hn i
  | pop n =>
    simp only [GC.step, stepWith] at h
    split at h <;> try contradiction
    · split at h <;> try contradiction
      injection h with h; subst h; exact hn
    · split at h <;> try contradiction
      injection h with h; subst h; exact hn
  | _ =>
    simp only [GC.step, stepWith] at h <;> (repeat' split at h) <;>
    first
    | contradiction
    | (injection h with h; subst h; exact hn)

theorem Fair.good {c : Cfg} {x : Exec c} {n0 : Nat} (hf : Fair x n0) : ∀ n, n0 ≤ n → Good c (x.σ n) := by
  intro n hn
  induction n with
  | zero =>
    have : n0 = 0 := by omega
    subst this
    exact ⟨x.reach 0, hf.cap, hf.stopCalled, hf.quiet, hf.regions⟩
  | succ n ih =>
    rcases Nat.lt_or_ge n n0 with hlt | hge
    · have : n0 = n + 1 := by omega
      subst this
      exact ⟨x.reach _, hf.cap, hf.stopCalled, hf.quiet, hf.regions⟩
    · have g := ih hge
      have hnext := x.next n
      refine ⟨x.reach _, hf.cap, ?_, ?_, ?_⟩
      · split at hnext
        · rw [hnext]; exact g.called
        · exact called_step g.called hnext
      · split at hnext
        · rw [hnext]; exact g.quiet
        · rename_i l hl
          exact quiet_step g.quiet (hf.contract n hge l hl) hnext
      · split at hnext
        · rw [hnext]; exact g.fresh
        · rename_i l hl
          exact noStale_step g.quiet g.fresh (hf.contract n hge l hl) hnext

/-! ### the progress measure -/

def stopRank : StopPc → Nat
  | .idle => 6
  | .reserve => 5
  | .publish _ => 2
  | .join => 1
  | .returned => 0

/-- stop-thread rank + 2 · (queue length) + (consumed tasks still waiting) + (collector not finished).
Every step that matters decreases it (marker ticket: 5 → 2 while the queue grows by one; pop of `n ≥ 1`
cells: `2n` down, at most `n` tasks up; reclaim; marker published; collector exit; join) and no
in-contract step increases it. -/
def mu (s : State) : Nat :=
  stopRank s.stop + 2 * s.cells.length + (s.tasks.length - s.index) + (if collActive s.cpc then 1 else 0)

theorem absorb_fst_length (l : List Item) : (absorb l).1.length ≤ l.length := by
  induction l with
  | nil => simp [absorb]
  | cons x xs ih => cases x <;> simp [absorb] <;> omega

theorem mu_popCells {s : State} (hk : KInv s) {n lim : Nat} (hp : canPop s n lim = true) (pc : CPc)
    (h1 : collActive s.cpc = true) (h2 : collActive pc = true) :
    mu { popCells s n with cpc := pc } + n ≤ mu s := by
  simp only [canPop, Bool.and_eq_true, decide_eq_true_eq] at hp
  have hn := hp.1.2
  have hl := absorb_fst_length ((s.cells.take n).map (·.1))
  simp only [List.length_map, List.length_take] at hl
  have hidx := hk.idx
  simp only [mu, GC.popCells, List.length_drop, List.length_append, h1, h2, if_true]
  omega

theorem mu_mono {c : Cfg} {s s' : State} {l : Lbl} (g : Good c s) (hl : l.retiring = false)
    (h : step c s l = some s') : mu s' ≤ mu s := by
  have hk := (reach_inv g.reach).k
  cases l with
  | callRetire id => cases hl
  | callRetireAt id e => cases hl
  | clientTick => cases hl
  | callStop => cases hl
  | start => cases hl
  | stopNoop => cases hl
  | stopReserve =>
    simp only [GC.step, stepWith] at h
    split at h <;> try contradiction
    rename_i hr
    injection h with h; subst h
    simp [mu, hr, stopRank]; omega
  | stopPublish =>
    simp only [GC.step, stepWith] at h
    split at h <;> try contradiction
    rename_i k0 hr
    split at h <;> try contradiction
    injection h with h; subst h
    simp [mu, hr, stopRank, setPublished]
  | stopJoin =>
    simp only [GC.step, stepWith] at h
    split at h <;> try contradiction
    rename_i hg
    injection h with h; subst h
    simp [mu, hg.1, hg.2, stopRank, collActive]
  | reserve id =>
    simp only [GC.step, stepWith] at h
    split at h <;> try contradiction
    rename_i e0 ht
    rcases g.quiet id with h1 | ⟨e, k, h1⟩ <;> rw [h1] at ht <;> cases ht
  | publish id =>
    simp only [GC.step, stepWith] at h
    split at h <;> try contradiction
    rename_i e0 k0 ht
    rcases g.quiet id with h1 | ⟨e, k, h1⟩ <;> rw [h1] at ht <;> cases ht
  | consumeBegin =>
    simp only [GC.step, stepWith] at h
    split at h <;> try contradiction
    rename_i hg
    injection h with h; subst h
    simp [mu, hg.1, collActive]
  | pop n =>
    simp only [GC.step, stepWith] at h
    split at h <;> try contradiction
    · rename_i hpc
      split at h <;> try contradiction
      rename_i hp
      injection h with h; subst h
      have := mu_popCells hk hp.1 (if n = c.lim1 s.popIdx ∧ c.lim1 s.popIdx < c.batch then CPc.pop2 (c.batch - c.lim1 s.popIdx) else CPc.preScan)
        (by rw [hpc]; rfl) (by split <;> rfl)
      exact Nat.le_trans (Nat.le_add_right _ _) this
    · rename_i lim hpc
      split at h <;> try contradiction
      rename_i hp
      injection h with h; subst h
      have := mu_popCells hk hp CPc.preScan (by rw [hpc]; rfl) rfl
      exact Nat.le_trans (Nat.le_add_right _ _) this
  | scanBegin =>
    simp only [GC.step, stepWith] at h
    split at h <;> try contradiction
    rename_i hg
    injection h with h; subst h
    have : collActive s.cpc = true := by rcases hg with hg | hg; rw [hg]; rfl; rw [hg.1]; rfl
    simp only [mu, this]
    simp [collActive]
  | scanEnd m =>
    simp only [GC.step, stepWith] at h
    split at h <;> try contradiction
    rename_i hg
    injection h with h; subst h
    simp [mu, hg.1, collActive]
  | reclaim id =>
    simp only [GC.step, stepWith] at h
    split at h <;> try contradiction
    rename_i m cnt hpc
    split at h <;> try contradiction
    split at h <;> try contradiction
    injection h with h; subst h
    simp [mu, hpc, collActive]; omega
  | passEnd =>
    simp only [GC.step, stepWith] at h
    split at h <;> try contradiction
    rename_i m cnt hpc
    split at h <;> try contradiction
    injection h with h; subst h
    simp [mu, hpc, collActive]
  | exit =>
    simp only [GC.step, stepWith] at h
    split at h <;> try contradiction
    rename_i hg
    injection h with h; subst h
    simp [mu, hg.1, collActive]
  | _ =>
    simp only [GC.step, stepWith] at h <;> (repeat' split at h) <;>
    first
    | contradiction
    | (injection h with h; subst h; exact Nat.le_refl _)

/-! ### helpful-actor argument -/

/-- If in the situation `Cond` some class of actions `Hl` is eventually taken, every `Hl` action
either decreases `mu` or keeps `Cond` and decreases the local potential `P`, and every other action
either decreases `mu` or keeps `Cond` without increasing `P`, then `mu` eventually decreases. -/
theorem progress {c : Cfg} (x : Exec c) (n0 : Nat) (hf : Fair x n0)
    (Hl : Lbl → Bool) (Cond : State → Prop) (P : State → Nat)
    (fair : ∀ n, n0 ≤ n → Cond (x.σ n) → ∃ m, n ≤ m ∧ ∃ l, x.ℓ m = some l ∧ Hl l = true)
    (stepH : ∀ s s' l, Good c s → Good c s' → Cond s → Hl l = true → l.retiring = false →
      step c s l = some s' → mu s' < mu s ∨ (Cond s' ∧ P s' < P s))
    (stepO : ∀ s s' l, Good c s → Good c s' → Cond s → Hl l = false → l.retiring = false →
      step c s l = some s' → mu s' < mu s ∨ (Cond s' ∧ P s' ≤ P s)) :
    ∀ n, n0 ≤ n → Cond (x.σ n) → ∃ m, n < m ∧ mu (x.σ m) < mu (x.σ n) := by
  have good := hf.good
  -- outer induction on the potential, inner on the distance to the next helpful action
  have key : ∀ p n, n0 ≤ n → Cond (x.σ n) → P (x.σ n) ≤ p → ∃ m, n < m ∧ mu (x.σ m) < mu (x.σ n) := by
    intro p
    induction p using Nat.strongRecOn with
    | _ p ihp =>
      have inner : ∀ d n, n0 ≤ n → Cond (x.σ n) → P (x.σ n) ≤ p →
          (∃ m, n ≤ m ∧ m ≤ n + d ∧ ∃ l, x.ℓ m = some l ∧ Hl l = true) →
          ∃ m, n < m ∧ mu (x.σ m) < mu (x.σ n) := by
        intro d
        induction d with
        | zero =>
          intro n hn hc hp ⟨m, hm1, hm2, l, hl, hh⟩
          have hmn : m = n := by omega
          subst hmn
          have hnext := x.next m
          rw [hl] at hnext
          have hret := hf.contract m hn l hl
          rcases stepH _ _ l (good m hn) (good (m + 1) (by omega)) hc hh hret hnext with hlt | ⟨hc', hp'⟩
          · exact ⟨m + 1, by omega, hlt⟩
          · obtain ⟨m', hm', hlt⟩ := ihp (P (x.σ (m + 1))) (by omega) (m + 1) (by omega) hc' (Nat.le_refl _)
            have := mu_mono (good m hn) hret hnext
            exact ⟨m', by omega, by omega⟩
        | succ d ihd =>
          intro n hn hc hp ⟨m, hm1, hm2, l, hl, hh⟩
          have hnext := x.next n
          cases hln : x.ℓ n with
          | none =>
            rw [hln] at hnext
            have hmn : m ≠ n := by intro h; subst h; rw [hln] at hl; cases hl
            have := ihd (n + 1) (by omega) (by rw [hnext]; exact hc) (by rw [hnext]; exact hp)
              ⟨m, by omega, by omega, l, hl, hh⟩
            obtain ⟨m', hm', hlt⟩ := this
            rw [hnext] at hlt
            exact ⟨m', by omega, hlt⟩
          | some l' =>
            rw [hln] at hnext
            have hret := hf.contract n hn l' hln
            have hmono := mu_mono (good n hn) hret hnext
            cases hh' : Hl l' with
            | true =>
              rcases stepH _ _ l' (good n hn) (good (n + 1) (by omega)) hc hh' hret hnext with hlt | ⟨hc', hp'⟩
              · exact ⟨n + 1, by omega, hlt⟩
              · obtain ⟨m', hm', hlt⟩ := ihp (P (x.σ (n + 1))) (by omega) (n + 1) (by omega) hc' (Nat.le_refl _)
                exact ⟨m', by omega, by omega⟩
            | false =>
              rcases stepO _ _ l' (good n hn) (good (n + 1) (by omega)) hc hh' hret hnext with hlt | ⟨hc', hp'⟩
              · exact ⟨n + 1, by omega, hlt⟩
              · have hmn : m ≠ n := by
                  intro h; subst h; rw [hln] at hl; injection hl with hl; subst hl; rw [hh'] at hh; cases hh
                obtain ⟨m', hm', hlt⟩ := ihd (n + 1) (by omega) hc' (by omega) ⟨m, by omega, by omega, l, hl, hh⟩
                exact ⟨m', by omega, by omega⟩
      intro n hn hc hp
      obtain ⟨m, hm, l, hl, hh⟩ := fair n hn hc
      exact inner (m - n) n hn hc hp ⟨m, hm, by omega, l, hl, hh⟩
  intro n hn hc
  exact key _ n hn hc (Nat.le_refl _)

end Babylon.GC
