/-
  Invariants of the GarbageCollector model (property C10), part 3: epochs.  Every epoch in the
  system is at most the global version; while the collector scans, every slot pinned before the
  tick of a still-waiting task is in the scan's `must` set; while it walks the prefix with low
  water mark `m`, every pinned slot was pinned after the tick of every task it may reclaim.
-/
import Babylon.GC.Lemmas

namespace Babylon.GC
open Babylon.Core Babylon.Gen.GC

structure EInv (s : State) : Prop where
  bound : ∀ i, s.slots i ≠ .idle → i < s.nslots
  pinLe : ∀ i p a, s.slots i = .pinned p a → p ≤ a ∧ a ≤ s.gver
  entLe : ∀ i g, s.slots i = .entering g → g ≤ s.gver
  callLe : ∀ id e, s.calls id = .reserve e → e ≤ s.gver
  cellLe : ∀ t b, (Item.task t, b) ∈ s.cells → t.e ≤ s.gver
  taskLe : ∀ t ∈ s.tasks, t.e ≤ s.gver
  scanI : s.cpc = .scan → ∀ i p a, s.slots i = .pinned p a →
    (∃ t ∈ s.tasks.drop s.index, a < t.e) → i ∈ s.must
  recI : ∀ m cnt, s.cpc = .reclaim m cnt → ∀ i p a, s.slots i = .pinned p a →
    ∀ t ∈ s.tasks.drop s.index, leLwm t.e m = true → t.e ≤ a
  logOk : ∀ x ∈ s.log, leLwm x.e x.m = true

theorem EInv.init : EInv State.init := by
  constructor <;> simp [State.init]

theorem mem_setPublished {x : Item} {b : Bool} {cells : List (Item × Bool)} {i : Nat}
    (h : (x, b) ∈ setPublished cells i) : ∃ b', (x, b') ∈ cells := by
  rw [List.mem_iff_getElem?] at h
  obtain ⟨j, hj⟩ := h
  rw [getElem?_setPublished] at hj
  cases hc : cells[j]? with
  | none => rw [hc] at hj; cases hj
  | some cl =>
    rw [hc] at hj
    simp only [Option.map_some, Option.some.injEq] at hj
    have hmem : cl ∈ cells := List.mem_of_getElem? hc
    split at hj
    · injection hj with h1 h2; subst h1; exact ⟨cl.2, hmem⟩
    · subst hj; exact ⟨b, hmem⟩

theorem mem_absorb_fst {t : Task} {l : List Item} (h : t ∈ (absorb l).1) : Item.task t ∈ l := by
  rw [← mem_tasksOf, ← absorb_split]
  exact List.mem_append_left _ h

theorem EInv.popCells {s : State} (he : EInv s) (n : Nat) (pc : CPc)
    (h1 : pc ≠ .scan) (h2 : ∀ m cnt, pc ≠ .reclaim m cnt) : EInv { popCells s n with cpc := pc } := by
  refine ⟨he.bound, he.pinLe, he.entLe, he.callLe, ?_, ?_, fun h => absurd h h1, fun m cnt h => absurd h (h2 m cnt), he.logOk⟩
  · intro t b hm
    exact he.cellLe t b (List.mem_of_mem_drop hm)
  · intro t ht
    simp only [GC.popCells, List.mem_append] at ht
    rcases ht with ht | ht
    · exact he.taskLe t ht
    · have := mem_absorb_fst ht
      rw [List.mem_map] at this
      obtain ⟨⟨x, b⟩, hxb, hx⟩ := this
      simp only at hx; subst hx
      exact he.cellLe t b (List.mem_of_mem_take hxb)

theorem mem_pinnedNow {s : State} {i p a : Nat} (hb : i < s.nslots) (h : s.slots i = .pinned p a) : i ∈ pinnedNow s := by
  simp [pinnedNow, hb, h]

theorem EInv.step {c : Cfg} {s s' : State} {l : Lbl} (he : EInv s) (h : step c s l = some s') : EInv s' := by
  cases l with
  | callRetire id =>
    simp only [GC.step, stepWith] at h
    split at h <;> try contradiction
    injection h with h; subst h
    refine ⟨he.bound, he.pinLe, he.entLe, ?_, he.cellLe, he.taskLe, he.scanI, he.recI, he.logOk⟩
    intro j e hj
    dsimp only at hj ⊢
    by_cases hji : j = id
    · subst hji; simp at hj
    · rw [upd_other _ _ hji] at hj; exact he.callLe j e hj
  | callRetireAt id e0 =>
    simp only [GC.step, stepWith] at h
    split at h <;> try contradiction
    rename_i hg
    injection h with h; subst h
    refine ⟨he.bound, he.pinLe, he.entLe, ?_, he.cellLe, he.taskLe, he.scanI, he.recI, he.logOk⟩
    intro j e hj
    dsimp only at hj ⊢
    by_cases hji : j = id
    · subst hji; simp at hj; subst hj; exact hg.2.2
    · rw [upd_other _ _ hji] at hj; exact he.callLe j e hj
  | tick id =>
    simp only [GC.step, stepWith] at h
    split at h <;> try contradiction
    injection h with h; subst h
    have h1 : tickAdds = 1 := rfl
    have h2 : tickReturnsOldPlus = 1 := rfl
    refine ⟨he.bound, ?_, ?_, ?_, ?_, ?_, he.scanI, he.recI, he.logOk⟩
    · intro i p a hi; have := he.pinLe i p a hi; dsimp only; omega
    · intro i g hi; have := he.entLe i g hi; dsimp only; omega
    · intro j e hj
      dsimp only at hj ⊢
      by_cases hji : j = id
      · subst hji; simp at hj; omega
      · rw [upd_other _ _ hji] at hj; have := he.callLe j e hj; omega
    · intro t b hm; have := he.cellLe t b hm; dsimp only; omega
    · intro t hm; have := he.taskLe t hm; dsimp only; omega
  | clientTick =>
    simp only [GC.step, stepWith] at h
    injection h with h; subst h
    have h1 : tickAdds = 1 := rfl
    refine ⟨he.bound, ?_, ?_, ?_, ?_, ?_, he.scanI, he.recI, he.logOk⟩
    · intro i p a hi; have := he.pinLe i p a hi; dsimp only; omega
    · intro i g hi; have := he.entLe i g hi; dsimp only; omega
    · intro j e hj; have := he.callLe j e hj; dsimp only; omega
    · intro t b hm; have := he.cellLe t b hm; dsimp only; omega
    · intro t hm; have := he.taskLe t hm; dsimp only; omega
  | reserve id =>
    simp only [GC.step, stepWith] at h
    split at h <;> try contradiction
    rename_i e0 hres
    injection h with h; subst h
    refine ⟨he.bound, he.pinLe, he.entLe, ?_, ?_, he.taskLe, he.scanI, he.recI, he.logOk⟩
    · intro j e hj
      dsimp only at hj ⊢
      by_cases hji : j = id
      · subst hji; simp at hj
      · rw [upd_other _ _ hji] at hj; exact he.callLe j e hj
    · intro t b hm
      dsimp only at hm ⊢
      rw [List.mem_append] at hm
      rcases hm with hm | hm
      · exact he.cellLe t b hm
      · simp at hm; obtain ⟨rfl, _⟩ := hm; exact he.callLe id e0 hres
  | publish id =>
    simp only [GC.step, stepWith] at h
    split at h <;> try contradiction
    split at h <;> try contradiction
    injection h with h; subst h
    refine ⟨he.bound, he.pinLe, he.entLe, ?_, ?_, he.taskLe, he.scanI, he.recI, he.logOk⟩
    · intro j e hj
      dsimp only at hj ⊢
      by_cases hji : j = id
      · subst hji; simp at hj
      · rw [upd_other _ _ hji] at hj; exact he.callLe j e hj
    · intro t b hm
      obtain ⟨b', hb'⟩ := mem_setPublished hm
      exact he.cellLe t b' hb'
  | stopReserve =>
    simp only [GC.step, stepWith] at h
    split at h <;> try contradiction
    injection h with h; subst h
    refine ⟨he.bound, he.pinLe, he.entLe, he.callLe, ?_, he.taskLe, he.scanI, he.recI, he.logOk⟩
    intro t b hm
    dsimp only at hm ⊢
    rw [List.mem_append] at hm
    rcases hm with hm | hm
    · exact he.cellLe t b hm
    · simp at hm
  | stopPublish =>
    simp only [GC.step, stepWith] at h
    split at h <;> try contradiction
    split at h <;> try contradiction
    injection h with h; subst h
    refine ⟨he.bound, he.pinLe, he.entLe, he.callLe, ?_, he.taskLe, he.scanI, he.recI, he.logOk⟩
    intro t b hm
    obtain ⟨b', hb'⟩ := mem_setPublished hm
    exact he.cellLe t b' hb'
  | newSlot =>
    simp only [GC.step, stepWith] at h
    injection h with h; subst h
    refine ⟨?_, he.pinLe, he.entLe, he.callLe, he.cellLe, he.taskLe, he.scanI, he.recI, he.logOk⟩
    intro i hi; have := he.bound i hi; dsimp only; omega
  | enterRead i0 =>
    simp only [GC.step, stepWith] at h
    split at h <;> try contradiction
    rename_i hg
    injection h with h; subst h
    refine ⟨?_, ?_, ?_, he.callLe, he.cellLe, he.taskLe, ?_, ?_, he.logOk⟩
    · intro i hi
      dsimp only at hi ⊢
      by_cases hii : i = i0
      · subst hii; exact hg.1
      · rw [upd_other _ _ hii] at hi; exact he.bound i hi
    · intro i p a hi
      dsimp only at hi ⊢
      by_cases hii : i = i0
      · subst hii; simp at hi
      · rw [upd_other _ _ hii] at hi; exact he.pinLe i p a hi
    · intro i g hi
      dsimp only at hi ⊢
      by_cases hii : i = i0
      · subst hii; simp at hi; omega
      · rw [upd_other _ _ hii] at hi; exact he.entLe i g hi
    · intro hs i p a hi
      dsimp only at hi hs ⊢
      by_cases hii : i = i0
      · subst hii; simp at hi
      · rw [upd_other _ _ hii] at hi; exact he.scanI hs i p a hi
    · intro m cnt hs i p a hi
      dsimp only at hi hs ⊢
      by_cases hii : i = i0
      · subst hii; simp at hi
      · rw [upd_other _ _ hii] at hi; exact he.recI m cnt hs i p a hi
  | enterPin i0 =>
    simp only [GC.step, stepWith] at h
    split at h <;> try contradiction
    rename_i g0 hent
    injection h with h; subst h
    refine ⟨?_, ?_, ?_, he.callLe, he.cellLe, he.taskLe, ?_, ?_, he.logOk⟩
    · intro i hi
      dsimp only at hi ⊢
      by_cases hii : i = i0
      · subst hii; exact he.bound i (by rw [hent]; simp)
      · rw [upd_other _ _ hii] at hi; exact he.bound i hi
    · intro i p a hi
      dsimp only at hi ⊢
      by_cases hii : i = i0
      · subst hii; simp at hi; obtain ⟨rfl, rfl⟩ := hi
        exact ⟨he.entLe i _ hent, Nat.le_refl _⟩
      · rw [upd_other _ _ hii] at hi; exact he.pinLe i p a hi
    · intro i g hi
      dsimp only at hi ⊢
      by_cases hii : i = i0
      · subst hii; simp at hi
      · rw [upd_other _ _ hii] at hi; exact he.entLe i g hi
    · intro hs i p a hi hex
      dsimp only at hi hs hex ⊢
      by_cases hii : i = i0
      · subst hii; simp at hi; obtain ⟨rfl, rfl⟩ := hi
        obtain ⟨t, ht, hlt⟩ := hex
        have := he.taskLe t (List.mem_of_mem_drop ht)
        omega
      · rw [upd_other _ _ hii] at hi; exact he.scanI hs i p a hi hex
    · intro m cnt hs i p a hi t ht hle
      dsimp only at hi hs ht ⊢
      by_cases hii : i = i0
      · subst hii; simp at hi; obtain ⟨rfl, rfl⟩ := hi
        exact he.taskLe t (List.mem_of_mem_drop ht)
      · rw [upd_other _ _ hii] at hi; exact he.recI m cnt hs i p a hi t ht hle
  | leave i0 =>
    simp only [GC.step, stepWith] at h
    split at h <;> try contradiction
    rename_i p0 a0 hpin
    injection h with h; subst h
    refine ⟨?_, ?_, ?_, he.callLe, he.cellLe, he.taskLe, ?_, ?_, he.logOk⟩
    · intro i hi
      dsimp only at hi ⊢
      by_cases hii : i = i0
      · subst hii; simp at hi
      · rw [upd_other _ _ hii] at hi; exact he.bound i hi
    · intro i p a hi
      dsimp only at hi ⊢
      by_cases hii : i = i0
      · subst hii; simp at hi
      · rw [upd_other _ _ hii] at hi; exact he.pinLe i p a hi
    · intro i g hi
      dsimp only at hi ⊢
      by_cases hii : i = i0
      · subst hii; simp at hi
      · rw [upd_other _ _ hii] at hi; exact he.entLe i g hi
    · intro hs i p a hi hex
      dsimp only at hi hs hex ⊢
      by_cases hii : i = i0
      · subst hii; simp at hi
      · rw [upd_other _ _ hii] at hi
        have := he.scanI hs i p a hi hex
        simp [this, hii]
    · intro m cnt hs i p a hi
      dsimp only at hi hs ⊢
      by_cases hii : i = i0
      · subst hii; simp at hi
      · rw [upd_other _ _ hii] at hi; exact he.recI m cnt hs i p a hi
  | start =>
    simp only [GC.step, stepWith] at h
    split at h
    · injection h with h; subst h
      exact ⟨he.bound, he.pinLe, he.entLe, he.callLe, he.cellLe, by simp, by simp, by simp, he.logOk⟩
    · injection h with h; subst h; exact he
  | stopJoin =>
    simp only [GC.step, stepWith] at h
    split at h <;> try contradiction
    injection h with h; subst h
    exact ⟨he.bound, he.pinLe, he.entLe, he.callLe, he.cellLe, he.taskLe, by simp, by simp, he.logOk⟩
  | consumeBegin =>
    simp only [GC.step, stepWith] at h
    split at h <;> try contradiction
    injection h with h; subst h
    exact ⟨he.bound, he.pinLe, he.entLe, he.callLe, he.cellLe, by simp, by simp, by simp, he.logOk⟩
  | pop n =>
    simp only [GC.step, stepWith] at h
    split at h <;> try contradiction
    · split at h <;> try contradiction
      injection h with h; subst h
      apply he.popCells
      · split <;> simp
      · intro m cnt; split <;> simp
    · split at h <;> try contradiction
      injection h with h; subst h
      apply he.popCells <;> simp
  | scanBegin =>
    simp only [GC.step, stepWith] at h
    split at h <;> try contradiction
    injection h with h; subst h
    refine ⟨he.bound, he.pinLe, he.entLe, he.callLe, he.cellLe, he.taskLe, ?_, by simp, he.logOk⟩
    intro _ i p a hi _
    exact mem_pinnedNow (he.bound i (by rw [hi]; simp)) hi
  | scanEnd m =>
    simp only [GC.step, stepWith] at h
    split at h <;> try contradiction
    rename_i hg
    injection h with h; subst h
    refine ⟨he.bound, he.pinLe, he.entLe, he.callLe, he.cellLe, he.taskLe, by simp, ?_, he.logOk⟩
    intro m' cnt hpc i p a hi t ht hle
    dsimp only at hpc hi ht
    injection hpc with hm _; subst hm
    rcases Nat.lt_or_ge a t.e with hlt | hge
    · have hmust := he.scanI hg.1 i p a hi ⟨t, ht, hlt⟩
      have hok := hg.2
      simp only [scanEndOk, Bool.and_eq_true, List.all_eq_true] at hok
      have := hok.1 i hmust
      rw [hi] at this
      have hpa := (he.pinLe i p a hi).1
      cases m with
      | none => simp [Lwm.le] at this
      | some mv =>
        simp only [Lwm.le, decide_eq_true_eq] at this
        simp only [leLwm, decide_eq_true_eq] at hle
        omega
    · exact hge
  | reclaim id =>
    simp only [GC.step, stepWith] at h
    split at h <;> try contradiction
    rename_i m cnt hpc
    split at h <;> try contradiction
    rename_i t hnext
    split at h <;> try contradiction
    injection h with h; subst h
    simp only [nextReclaimable] at hnext
    split at hnext <;> try contradiction
    rename_i t' hget
    split at hnext <;> try contradiction
    rename_i hle
    injection hnext with hnext; subst hnext
    refine ⟨he.bound, he.pinLe, he.entLe, he.callLe, he.cellLe, he.taskLe, by simp, ?_, ?_⟩
    · intro m' cnt' hpc' i p a hi t ht hl
      dsimp only at hpc' hi ht
      injection hpc' with hm _; subst hm
      refine he.recI m cnt hpc i p a hi t ?_ hl
      rw [← List.drop_drop] at ht
      exact List.mem_of_mem_drop ht
    · intro x hx
      dsimp only at hx
      rw [List.mem_append] at hx
      rcases hx with hx | hx
      · exact he.logOk x hx
      · simp at hx; subst hx; exact hle
  | passEnd =>
    simp only [GC.step, stepWith] at h
    split at h <;> try contradiction
    split at h <;> try contradiction
    injection h with h; subst h
    exact ⟨he.bound, he.pinLe, he.entLe, he.callLe, he.cellLe, he.taskLe, by simp, by simp, he.logOk⟩
  | exit =>
    simp only [GC.step, stepWith] at h
    split at h <;> try contradiction
    injection h with h; subst h
    exact ⟨he.bound, he.pinLe, he.entLe, he.callLe, he.cellLe, he.taskLe, by simp, by simp, he.logOk⟩
  | _ =>
    simp only [GC.step, stepWith] at h <;> (repeat' split at h) <;>
    first
    | contradiction
    | (injection h with h; subst h; exact ⟨he.bound, he.pinLe, he.entLe, he.callLe, he.cellLe, he.taskLe, he.scanI, he.recI, he.logOk⟩)

end Babylon.GC
