/-
  Termination of `stop()` (property C10), part 4: the situations in which the collector thread is
  the helpful actor — it has consumed tasks that are reclaimable as soon as it scans again (no stale
  region), the queue head is published and it has nothing left to reclaim, or it has seen the marker
  and reclaimed everything.  In each, a local potential (collector steps to the next productive one)
  decreases with every collector step and is not increased by anybody else.
-/
import Babylon.GC.LiveStop

namespace Babylon.GC
open Babylon.Core Babylon.Gen.GC

theorem popCells_zero (s : State) : popCells s 0 = s := by
  cases s; simp [popCells, absorb]

theorem lim1_pos {c : Cfg} (hc : 1 ≤ c.cap) (p : Nat) : 1 ≤ c.lim1 p := by
  have h1 : p % c.cap < c.cap := Nat.mod_lt _ (by omega)
  have h2 : batchMax = 1024 := rfl
  simp only [Cfg.lim1, Cfg.batch, Cfg.ringRoom, h2]
  omega

theorem waiting_zero_iff {s : State} (hk : KInv s) : waiting s = 0 ↔ s.index = s.tasks.length := by
  have := hk.idx; unfold waiting; omega

/-! ### potentials -/

def PX : CPc → Nat
  | .top => 1 | .reclaim _ _ => 2 | .scan => 3 | .preScan => 4 | .pop2 _ => 5 | .pop1 => 6 | .done => 0 | .off => 0

def PC (s : State) : Nat :=
  match s.cpc with
  | .top => 2 | .pop1 => if s.headSeen then 1 else 6 | .pop2 _ => 6 | .preScan => 5 | .scan => 4
  | .reclaim _ _ => 3 | .done => 0 | .off => 0

def PR (s : State) : Nat :=
  match s.cpc with
  | .reclaim m _ => if (nextReclaimable s m).isSome then 1 else 5
  | .scan => if floorOkB s then 2 else 6
  | .preScan => 3 | .top => 3 | .pop2 _ => 4 | .pop1 => 5 | .done => 0 | .off => 0

/-! ### the collector has seen the marker and has nothing left: it exits -/

def CondX (s : State) : Prop := waiting s = 0 ∧ s.running = false ∧ collActive s.cpc = true

theorem scen_exit {c : Cfg} (x : Exec c) (n0 : Nat) (hf : Fair x n0) :
    ∀ n, n0 ≤ n → CondX (x.σ n) → ∃ m, n < m ∧ mu (x.σ m) < mu (x.σ n) := by
  apply progress x n0 hf Lbl.isColl CondX (fun s => PX s.cpc)
  · intro n hn hc; exact hf.collFair n hn hc.2.2
  · intro s s' l g g' ⟨hw, hrun, hnd⟩ hh hr hs
    have hk := (reach_inv g.reach).k
    have hidx := (waiting_zero_iff hk).mp hw
    cases l <;> first | (cases hh; done) | skip
    · -- consumeBegin needs running
      simp only [step, stepWith] at hs
      split at hs <;> try contradiction
      rename_i hg
      have := hg.2.2
      simp [consumeCond, hrun] at this
    · -- pop n
      rename_i n
      simp only [step, stepWith] at hs
      split at hs <;> try contradiction
      · rename_i hpc
        split at hs <;> try contradiction
        rename_i hp
        injection hs with hs; subst hs
        rcases Nat.eq_zero_or_pos n with h0 | hpos
        · subst h0
          right
          have hl := lim1_pos g.cap s.popIdx
          have hne : ¬ (0 = c.lim1 s.popIdx ∧ c.lim1 s.popIdx < c.batch) := by omega
          simp only [popCells_zero, if_neg hne]
          exact ⟨⟨hw, hrun, by simp [collActive]⟩, by simp [PX, hpc]⟩
        · left
          have := mu_popCells hk hp.1 (if n = c.lim1 s.popIdx ∧ c.lim1 s.popIdx < c.batch then CPc.pop2 (c.batch - c.lim1 s.popIdx) else CPc.preScan)
            (by rw [hpc]; rfl) (by split <;> rfl)
          exact Nat.lt_of_lt_of_le (Nat.lt_add_of_pos_right hpos) this
      · rename_i lim hpc
        split at hs <;> try contradiction
        rename_i hp
        injection hs with hs; subst hs
        rcases Nat.eq_zero_or_pos n with h0 | hpos
        · subst h0
          right
          simp only [popCells_zero]
          exact ⟨⟨hw, hrun, by simp [collActive]⟩, by simp [PX, hpc]⟩
        · left
          have := mu_popCells hk hp CPc.preScan (by rw [hpc]; rfl) rfl
          exact Nat.lt_of_lt_of_le (Nat.lt_add_of_pos_right hpos) this
    · -- scanBegin
      simp only [step, stepWith] at hs
      split at hs <;> try contradiction
      rename_i hg
      injection hs with hs; subst hs
      rcases hg with hg | hg
      · right; exact ⟨⟨hw, hrun, by simp [collActive]⟩, by simp [PX, hg]⟩
      · have := hg.2.1
        simp [loopCond, hrun, hidx] at this
    · -- scanEnd
      simp only [step, stepWith] at hs
      split at hs <;> try contradiction
      rename_i hg
      injection hs with hs; subst hs
      right; exact ⟨⟨hw, hrun, by simp [collActive]⟩, by simp [PX, hg.1]⟩
    · -- reclaim: nothing to reclaim
      simp only [step, stepWith] at hs
      split at hs <;> try contradiction
      split at hs <;> try contradiction
      rename_i hnext
      simp [nextReclaimable, hidx] at hnext
    · -- passEnd
      simp only [step, stepWith] at hs
      split at hs <;> try contradiction
      rename_i m cnt hpc
      split at hs <;> try contradiction
      injection hs with hs; subst hs
      right; exact ⟨⟨hw, hrun, by simp [collActive]⟩, by simp [PX, hpc]⟩
    · -- exit
      simp only [step, stepWith] at hs
      split at hs <;> try contradiction
      rename_i hg
      injection hs with hs; subst hs
      left; simp [mu, hg.1, collActive]
  · intro s s' l g g' ⟨hw, hrun, hnd⟩ hh hr hs
    obtain ⟨f1, f2, f3, f4, _, _⟩ := frame_nonColl hh (by intro h; subst h; cases hr) (by intro h; subst h; rw [stopJoin_needs_done hs] at hnd; cases hnd) hs
    right
    exact ⟨⟨by simp [waiting, f2, f3]; exact hw, by rw [f4]; exact hrun, by rw [f1]; exact hnd⟩, by rw [f1]; exact Nat.le_refl _⟩

/-! ### nothing left to reclaim, marker not seen yet, queue head published: it pops -/

def CondC (s : State) : Prop := waiting s = 0 ∧ s.running = true ∧ headPub s ∧ collActive s.cpc = true

theorem scen_consume {c : Cfg} (x : Exec c) (n0 : Nat) (hf : Fair x n0) :
    ∀ n, n0 ≤ n → CondC (x.σ n) → ∃ m, n < m ∧ mu (x.σ m) < mu (x.σ n) := by
  apply progress x n0 hf Lbl.isColl CondC PC
  · intro n hn hc; exact hf.collFair n hn hc.2.2.2
  · intro s s' l g g' ⟨hw, hrun, hhead, hnd⟩ hh hr hs
    have hk := (reach_inv g.reach).k
    have hidx := (waiting_zero_iff hk).mp hw
    cases l <;> first | (cases hh; done) | skip
    · -- consumeBegin: the head is published, so `headSeen`
      simp only [step, stepWith] at hs
      split at hs <;> try contradiction
      rename_i hg
      injection hs with hs; subst hs
      right
      obtain ⟨x0, hx0⟩ := hhead
      refine ⟨⟨by simp [waiting], hrun, ⟨x0, hx0⟩, by simp [collActive]⟩, ?_⟩
      simp [PC, hg.1, hx0]
    · -- pop n
      rename_i n
      simp only [step, stepWith] at hs
      split at hs <;> try contradiction
      · rename_i hpc
        split at hs <;> try contradiction
        rename_i hp
        injection hs with hs; subst hs
        rcases Nat.eq_zero_or_pos n with h0 | hpos
        · subst h0
          right
          have hl := lim1_pos g.cap s.popIdx
          have hne : ¬ (0 = c.lim1 s.popIdx ∧ c.lim1 s.popIdx < c.batch) := by omega
          have hseen : s.headSeen = false := by
            rcases hp.2 with h | h
            · omega
            · exact h
          simp only [popCells_zero, if_neg hne]
          exact ⟨⟨hw, hrun, hhead, by simp [collActive]⟩, by simp [PC, hpc, hseen]⟩
        · left
          have := mu_popCells hk hp.1 (if n = c.lim1 s.popIdx ∧ c.lim1 s.popIdx < c.batch then CPc.pop2 (c.batch - c.lim1 s.popIdx) else CPc.preScan)
            (by rw [hpc]; rfl) (by split <;> rfl)
          exact Nat.lt_of_lt_of_le (Nat.lt_add_of_pos_right hpos) this
      · rename_i lim hpc
        split at hs <;> try contradiction
        rename_i hp
        injection hs with hs; subst hs
        rcases Nat.eq_zero_or_pos n with h0 | hpos
        · subst h0
          right
          simp only [popCells_zero]
          exact ⟨⟨hw, hrun, hhead, by simp [collActive]⟩, by simp [PC, hpc]⟩
        · left
          have := mu_popCells hk hp CPc.preScan (by rw [hpc]; rfl) rfl
          exact Nat.lt_of_lt_of_le (Nat.lt_add_of_pos_right hpos) this
    · -- scanBegin
      simp only [step, stepWith] at hs
      split at hs <;> try contradiction
      rename_i hg
      injection hs with hs; subst hs
      rcases hg with hg | hg
      · right; exact ⟨⟨hw, hrun, hhead, by simp [collActive]⟩, by simp [PC, hg]⟩
      · have := hg.2.2
        simp [consumeCond, hrun, hidx] at this
    · -- scanEnd
      simp only [step, stepWith] at hs
      split at hs <;> try contradiction
      rename_i hg
      injection hs with hs; subst hs
      right; exact ⟨⟨hw, hrun, hhead, by simp [collActive]⟩, by simp [PC, hg.1]⟩
    · -- reclaim: nothing to reclaim
      simp only [step, stepWith] at hs
      split at hs <;> try contradiction
      split at hs <;> try contradiction
      rename_i hnext
      simp [nextReclaimable, hidx] at hnext
    · -- passEnd
      simp only [step, stepWith] at hs
      split at hs <;> try contradiction
      rename_i m cnt hpc
      split at hs <;> try contradiction
      injection hs with hs; subst hs
      right; exact ⟨⟨hw, hrun, hhead, by simp [collActive]⟩, by simp [PC, hpc]⟩
    · -- exit needs ¬ running
      simp only [step, stepWith] at hs
      split at hs <;> try contradiction
      rename_i hg
      have := hg.2
      simp [loopCond, hrun] at this
  · intro s s' l g g' ⟨hw, hrun, hhead, hnd⟩ hh hr hs
    obtain ⟨f1, f2, f3, f4, f5, _⟩ := frame_nonColl hh (by intro h; subst h; cases hr) (by intro h; subst h; rw [stopJoin_needs_done hs] at hnd; cases hnd) hs
    right
    refine ⟨⟨by simp [waiting, f2, f3]; exact hw, by rw [f4]; exact hrun, headPub_nonColl hh hhead hs, by rw [f1]; exact hnd⟩, ?_⟩
    simp only [PC, f1, f5]; exact Nat.le_refl _

/-! ### consumed tasks are waiting and no stale region exists: the next scan frees the head -/

def CondR (s : State) : Prop := 0 < waiting s ∧ collActive s.cpc = true

theorem leLwm_trans {e : Nat} {f m : Lwm} (h1 : leLwm e f = true) (h2 : Lwm.le f m = true) : leLwm e m = true := by
  cases m with
  | none => rfl
  | some mv =>
    cases f with
    | none => simp [Lwm.le] at h2
    | some fv =>
      simp only [leLwm, Lwm.le, decide_eq_true_eq] at *
      omega

theorem leLwm_foldl {s : State} {e : Nat} (hfresh : NoStale s) (he : e ≤ s.gver) (l : List Nat) (acc : Lwm)
    (hacc : leLwm e acc = true) :
    leLwm e (l.foldl (fun a i => match s.slots i with | .pinned p _ => minLwm a p | _ => a) acc) = true := by
  induction l generalizing acc with
  | nil => exact hacc
  | cons i rest ih =>
    simp only [List.foldl_cons]
    apply ih
    have hf := hfresh i
    split
    · rename_i p a hp
      rw [hp] at hf
      exact leLwm_minLwm hacc (Nat.le_trans he hf)
    · exact hacc

theorem floorNow_ok {c : Cfg} {s : State} (g : Good c s) : ∀ t ∈ s.tasks, leLwm t.e (floorNow s) = true := by
  intro t ht
  have he := (reach_inv g.reach).e
  exact leLwm_foldl g.fresh (he.taskLe t ht) _ none rfl

theorem scen_reclaim {c : Cfg} (x : Exec c) (n0 : Nat) (hf : Fair x n0) :
    ∀ n, n0 ≤ n → CondR (x.σ n) → ∃ m, n < m ∧ mu (x.σ m) < mu (x.σ n) := by
  apply progress x n0 hf Lbl.isColl CondR PR
  · intro n hn hc; exact hf.collFair n hn hc.2
  · intro s s' l g g' ⟨hw, hnd⟩ hh hr hs
    have hk := (reach_inv g.reach).k
    have hlt : s.index < s.tasks.length := by unfold waiting at hw; omega
    cases l <;> first | (cases hh; done) | skip
    · -- consumeBegin needs index = tasks.size()
      simp only [step, stepWith] at hs
      split at hs <;> try contradiction
      rename_i hg
      have := hg.2.2
      simp only [consumeCond, Bool.and_eq_true, decide_eq_true_eq] at this
      omega
    · -- pop n
      rename_i n
      simp only [step, stepWith] at hs
      split at hs <;> try contradiction
      · rename_i hpc
        split at hs <;> try contradiction
        rename_i hp
        injection hs with hs; subst hs
        rcases Nat.eq_zero_or_pos n with h0 | hpos
        · subst h0
          right
          have hl := lim1_pos g.cap s.popIdx
          have hne : ¬ (0 = c.lim1 s.popIdx ∧ c.lim1 s.popIdx < c.batch) := by omega
          simp only [popCells_zero, if_neg hne]
          exact ⟨⟨hw, by simp [collActive]⟩, by simp [PR, hpc]⟩
        · left
          have := mu_popCells hk hp.1 (if n = c.lim1 s.popIdx ∧ c.lim1 s.popIdx < c.batch then CPc.pop2 (c.batch - c.lim1 s.popIdx) else CPc.preScan)
            (by rw [hpc]; rfl) (by split <;> rfl)
          exact Nat.lt_of_lt_of_le (Nat.lt_add_of_pos_right hpos) this
      · rename_i lim hpc
        split at hs <;> try contradiction
        rename_i hp
        injection hs with hs; subst hs
        rcases Nat.eq_zero_or_pos n with h0 | hpos
        · subst h0
          right
          simp only [popCells_zero]
          exact ⟨⟨hw, by simp [collActive]⟩, by simp [PR, hpc]⟩
        · left
          have := mu_popCells hk hp CPc.preScan (by rw [hpc]; rfl) rfl
          exact Nat.lt_of_lt_of_le (Nat.lt_add_of_pos_right hpos) this
    · -- scanBegin: a fresh scan, whose lower bound is above every task
      simp only [step, stepWith] at hs
      split at hs <;> try contradiction
      rename_i hg
      injection hs with hs; subst hs
      right
      refine ⟨⟨hw, by simp [collActive]⟩, ?_⟩
      have hok : floorOkB { s with cpc := CPc.scan, must := pinnedNow s, floor := floorNow s } = true := by
        simp only [floorOkB, List.all_eq_true]
        exact floorNow_ok g
      have hP : PR s = 3 := by
        rcases hg with hg | hg
        · simp [PR, hg]
        · simp [PR, hg.1]
      rw [hP]
      simp only [PR, hok, if_true]
      omega
    · -- scanEnd
      rename_i m
      simp only [step, stepWith] at hs
      split at hs <;> try contradiction
      rename_i hg
      injection hs with hs; subst hs
      right
      refine ⟨⟨hw, by simp [collActive]⟩, ?_⟩
      have hle : Lwm.le s.floor m = true := by
        have := hg.2
        simp only [scanEndOk, Bool.and_eq_true] at this
        exact this.2
      cases hok : floorOkB s with
      | true =>
        have hnext : (nextReclaimable { s with cpc := CPc.reclaim m 0, must := [], floor := none } m).isSome = true := by
          simp only [nextReclaimable]
          rw [List.getElem?_eq_getElem hlt]
          simp only [floorOkB, List.all_eq_true] at hok
          have := leLwm_trans (hok _ (List.getElem_mem hlt)) hle
          simp [this]
        simp only [PR, hg.1, hok, hnext, if_true]
        omega
      | false =>
        simp only [PR, hg.1, hok]
        split <;> simp
    · -- reclaim: one waiting task less
      simp only [step, stepWith] at hs
      split at hs <;> try contradiction
      rename_i m cnt hpc
      split at hs <;> try contradiction
      split at hs <;> try contradiction
      injection hs with hs; subst hs
      left
      simp only [mu, hpc, collActive]
      omega
    · -- passEnd: the head was not reclaimable with this pass's mark
      simp only [step, stepWith] at hs
      split at hs <;> try contradiction
      rename_i m cnt hpc
      split at hs <;> try contradiction
      rename_i hnone
      injection hs with hs; subst hs
      right
      refine ⟨⟨hw, by simp [collActive]⟩, ?_⟩
      have : (nextReclaimable s m).isSome = false := by
        cases h : nextReclaimable s m <;> simp [h] at hnone ⊢
      simp [PR, hpc, this]
    · -- exit needs index ≥ tasks.size()
      simp only [step, stepWith] at hs
      split at hs <;> try contradiction
      rename_i hg
      have := hg.2
      simp only [loopCond, Bool.or_eq_true, decide_eq_true_eq, not_or, Nat.not_lt] at this
      omega
  · intro s s' l g g' ⟨hw, hnd⟩ hh hr hs
    obtain ⟨f1, f2, f3, _, _, _⟩ := frame_nonColl hh (by intro h; subst h; cases hr) (by intro h; subst h; rw [stopJoin_needs_done hs] at hnd; cases hnd) hs
    right
    refine ⟨⟨by simp [waiting, f2, f3]; exact hw, by rw [f1]; exact hnd⟩, ?_⟩
    have hnr : ∀ m, nextReclaimable s' m = nextReclaimable s m := by
      intro m; simp [nextReclaimable, f2, f3]
    simp only [PR, f1]
    split
    · simp [hnr]
    · cases hok : floorOkB s with
      | true => simp [floorOkB_nonColl g hh hr hok hs]
      | false => split <;> simp
    all_goals exact Nat.le_refl _

end Babylon.GC
