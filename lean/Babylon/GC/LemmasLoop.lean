/-
  Invariants of the GarbageCollector model (property C10), part 2: the collector loop
  (`tasks[index..]` = consumed, not yet reclaimed, FIFO), what has been consumed relative to the
  stop marker, and what holds once the collector has finished.
-/
import Babylon.GC.Lemmas

namespace Babylon.GC
open Babylon.Core

structure KInv (s : State) : Prop where
  idx : s.index ≤ s.tasks.length
  /-- the collector-loop invariant: reclaimed tasks followed by `tasks[index..]` are exactly the
  consumed tasks, in consumption order -/
  split : s.log.map Inv.task ++ s.tasks.drop s.index = s.consumed
  /-- every popped task was either moved into `tasks` or skipped behind a marker -/
  perm : (tasksOf s.popped).Perm (s.consumed ++ s.dropped)
  /-- consumption order is ticket order -/
  sub : s.consumed.Sublist (tasksOf s.popped)
  base : s.runBase ≤ s.popped.length
  /-- the current collector thread has not popped a marker yet -/
  run : s.running = true ↔ Item.marker ∉ s.popped.drop s.runBase
  runEq : Item.marker ∉ s.popped → s.consumed = tasksOf s.popped ∧ s.dropped = []
  /-- everything popped in front of the first marker has been consumed -/
  pre : tasksOf (s.popped.takeWhile notMarker) <+: s.consumed
  fin : s.cpc = .done → s.running = false ∧ s.tasks.drop s.index = []
  finOff : s.cpc = .off → s.tasks.drop s.index = []

theorem KInv.init : KInv State.init := by
  constructor <;> simp [State.init]

theorem KInv.popCells {s : State} (hk : KInv s) (n : Nat) (pc : CPc) (hpc : pc ≠ .done) (hpo : pc ≠ .off) :
    KInv { popCells s n with cpc := pc } := by
  have hsp := absorb_split ((s.cells.take n).map (·.1))
  have hfst := absorb_fst ((s.cells.take n).map (·.1))
  have hsaw := absorb_saw ((s.cells.take n).map (·.1))
  generalize hit : (s.cells.take n).map (·.1) = items at hsp hfst hsaw
  constructor
  · simp [GC.popCells]; have := hk.idx; omega
  · simp only [GC.popCells, hit]
    rw [List.drop_append_of_le_length hk.idx, ← List.append_assoc, hk.split]
  · simp only [GC.popCells, hit, tasksOf_append]
    rw [← hsp]
    have h1 : (tasksOf s.popped ++ ((absorb items).1 ++ (absorb items).2.1)).Perm
        ((s.consumed ++ s.dropped) ++ ((absorb items).1 ++ (absorb items).2.1)) := List.Perm.append_right _ hk.perm
    refine h1.trans ?_
    simp only [List.append_assoc]
    exact List.Perm.append_left _ (List.perm_append_comm_assoc _ _ _)
  · simp only [GC.popCells, hit, tasksOf_append]
    rw [← hsp]
    exact List.Sublist.append hk.sub (List.sublist_append_left _ _)
  · simp [GC.popCells]; have := hk.base; omega
  · simp only [GC.popCells, hit, Bool.and_eq_true, Bool.not_eq_true']
    rw [List.drop_append_of_le_length hk.base, List.mem_append, not_or, hk.run]
    constructor
    · rintro ⟨h1, h2⟩
      refine ⟨h1, ?_⟩
      intro hm; rw [← hsaw] at hm; rw [hm] at h2; cases h2
    · rintro ⟨h1, h2⟩
      refine ⟨h1, ?_⟩
      cases hb : (absorb items).2.2 with
      | false => rfl
      | true => exact absurd (hsaw.mp hb) h2
  · simp only [GC.popCells, hit, List.mem_append, not_or]
    rintro ⟨h1, hnm⟩
    have ⟨e1, e2⟩ := hk.runEq h1
    have ⟨a1, a2, _⟩ := absorb_nomarker hnm
    simp [e1, e2, a1, a2]
  · simp only [GC.popCells, hit]
    by_cases hm : Item.marker ∈ s.popped
    · rw [takeWhile_notMarker_append_of_mem hm]
      exact List.IsPrefix.trans hk.pre (List.prefix_append _ _)
    · have ⟨e1, _⟩ := hk.runEq hm
      rw [takeWhile_notMarker_append_of_not_mem hm, tasksOf_append, hfst, e1]
      exact List.prefix_refl _
  · intro h; exact absurd h hpc
  · intro h; exact absurd h hpo

theorem KInv.step {c : Cfg} {s s' : State} {l : Lbl} (hk : KInv s) (h : step c s l = some s') : KInv s' := by
  cases l with
  | start =>
    simp only [GC.step, stepWith] at h
    split at h
    · rename_i hoff
      injection h with h; subst h
      have hdrop := hk.finOff hoff
      refine ⟨by simp, ?_, hk.perm, hk.sub, Nat.le_refl _, by simp, hk.runEq, hk.pre, by simp, by simp⟩
      have := hk.split; rw [hdrop] at this; simpa using this
    · injection h with h; subst h; exact hk
  | consumeBegin =>
    simp only [GC.step, stepWith] at h
    split at h <;> try contradiction
    rename_i hg
    obtain ⟨htop, hloop, hcons⟩ := hg
    injection h with h; subst h
    simp only [consumeCond, Bool.and_eq_true, decide_eq_true_eq] at hcons
    have hdrop : s.tasks.drop s.index = [] := by rw [hcons.2]; simp
    refine ⟨by simp, ?_, hk.perm, hk.sub, hk.base, hk.run, hk.runEq, hk.pre, by simp, by simp⟩
    have := hk.split; rw [hdrop] at this; simpa using this
  | pop n =>
    simp only [GC.step, stepWith] at h
    split at h <;> try contradiction
    · split at h <;> try contradiction
      injection h with h; subst h
      apply hk.popCells
      · split <;> simp
      · split <;> simp
    · split at h <;> try contradiction
      injection h with h; subst h
      apply hk.popCells <;> simp
  | scanBegin =>
    simp only [GC.step, stepWith] at h
    split at h <;> try contradiction
    injection h with h; subst h
    exact ⟨hk.idx, hk.split, hk.perm, hk.sub, hk.base, hk.run, hk.runEq, hk.pre, by simp, by simp⟩
  | scanEnd m =>
    simp only [GC.step, stepWith] at h
    split at h <;> try contradiction
    injection h with h; subst h
    exact ⟨hk.idx, hk.split, hk.perm, hk.sub, hk.base, hk.run, hk.runEq, hk.pre, by simp, by simp⟩
  | reclaim id =>
    simp only [GC.step, stepWith] at h
    split at h <;> try contradiction
    rename_i m cnt hpc
    split at h <;> try contradiction
    rename_i t hnext
    split at h <;> try contradiction
    injection h with h; subst h
    simp only [nextReclaimable] at hnext
    split at hnext <;> try contradiction
    rename_i t' hget
    split at hnext <;> try contradiction
    injection hnext with hnext; subst hnext
    have hlt : s.index < s.tasks.length := by
      rcases Nat.lt_or_ge s.index s.tasks.length with h | h
      · exact h
      · rw [List.getElem?_eq_none h] at hget; cases hget
    have hdrop : s.tasks.drop s.index = t' :: s.tasks.drop (s.index + 1) := by
      rw [List.drop_eq_getElem_cons hlt]
      congr 1
      rw [List.getElem?_eq_getElem hlt] at hget
      exact Option.some.inj hget
    refine ⟨by simp; omega, ?_, hk.perm, hk.sub, hk.base, hk.run, hk.runEq, hk.pre, by simp, by simp⟩
    have := hk.split
    rw [hdrop] at this
    simp only [List.map_append, List.map_cons, List.map_nil, List.append_assoc]
    simpa [Inv.task] using this
  | passEnd =>
    simp only [GC.step, stepWith] at h
    split at h <;> try contradiction
    split at h <;> try contradiction
    injection h with h; subst h
    exact ⟨hk.idx, hk.split, hk.perm, hk.sub, hk.base, hk.run, hk.runEq, hk.pre, by simp, by simp⟩
  | exit =>
    simp only [GC.step, stepWith] at h
    split at h <;> try contradiction
    rename_i hg
    injection h with h; subst h
    refine ⟨hk.idx, hk.split, hk.perm, hk.sub, hk.base, hk.run, hk.runEq, hk.pre, ?_, by simp⟩
    intro _
    have := hg.2
    simp only [loopCond, Bool.or_eq_true, decide_eq_true_eq, not_or, Bool.not_eq_true, Nat.not_lt] at this
    exact ⟨this.1, List.drop_eq_nil_of_le this.2⟩
  | stopJoin =>
    simp only [GC.step, stepWith] at h
    split at h <;> try contradiction
    rename_i hg
    injection h with h; subst h
    exact ⟨hk.idx, hk.split, hk.perm, hk.sub, hk.base, hk.run, hk.runEq, hk.pre, by simp, fun _ => (hk.fin hg.2).2⟩
  | _ =>
    simp only [GC.step, stepWith] at h <;> (repeat' split at h) <;>
    first
    | contradiction
    | (injection h with h; subst h; exact ⟨hk.idx, hk.split, hk.perm, hk.sub, hk.base, hk.run, hk.runEq, hk.pre, hk.fin, hk.finOff⟩)

end Babylon.GC
