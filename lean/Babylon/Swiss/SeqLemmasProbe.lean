/-
  Helper lemmas for property C18, part 3: `table_probe_complete`.
  Triangular probing (`step += 16; base = (base + step) mod n`, `n / 16` iterations, `n` a power
  of two) visits `n / 16` pairwise disjoint windows which therefore cover the whole ring; hence a
  probe sequence consisting of full windows only means that every bucket is occupied.
-/
import Babylon.Swiss.SeqLemmasWF

namespace Babylon.Swiss
open Babylon.Gen.Swiss

/-- triangular numbers -/
def tri : Nat → Nat
  | 0 => 0
  | m + 1 => tri m + (m + 1)

theorem two_tri (m : Nat) : 2 * tri m = m * (m + 1) := by
  induction m with
  | zero => rfl
  | succ k ih => simp only [tri]; grind

theorem tri_diff (a d : Nat) : 2 * tri (a + d) = 2 * tri a + d * (2 * a + d + 1) := by
  rw [two_tri, two_tri]; grind

theorem odd_cancel {x y j : Nat} (hx : x % 2 = 1) (h : 2 ^ j ∣ x * y) : 2 ^ j ∣ y := by
  have : Nat.Coprime (2 ^ j) x := by
    apply Nat.Coprime.pow_left
    unfold Nat.Coprime; rw [Nat.gcd_rec, hx]; rfl
  exact this.dvd_of_dvd_mul_left h

/-- triangular numbers below `2^k` are pairwise distinct modulo `2^k` -/
theorem tri_inj_aux {k a d : Nat} (hd : 0 < d) (hb : a + d < 2 ^ k)
    (h : tri (a + d) % 2 ^ k = tri a % 2 ^ k) : False := by
  -- 2^k ∣ tri (a+d) - tri a
  have h1 : (tri (a + d) - tri a) % 2 ^ k = 0 := Nat.sub_mod_eq_zero_of_mod_eq h
  have h2 : 2 ^ k ∣ tri (a + d) - tri a := Nat.dvd_of_mod_eq_zero h1
  have h3 : 2 ^ (k + 1) ∣ 2 * (tri (a + d) - tri a) := by
    rw [Nat.pow_succ, Nat.mul_comm (2 ^ k) 2]
    exact Nat.mul_dvd_mul_left 2 h2
  have h4 : 2 * (tri (a + d) - tri a) = d * (2 * a + d + 1) := by
    have := tri_diff a d
    rw [Nat.mul_sub]; omega
  rw [h4] at h3
  have hpow : 2 ^ (k + 1) = 2 * 2 ^ k := by rw [Nat.pow_succ, Nat.mul_comm]
  rcases Nat.mod_two_eq_zero_or_one d with hd0 | hd1
  · -- d even: 2a+d+1 odd
    have hodd : (2 * a + d + 1) % 2 = 1 := by omega
    rw [Nat.mul_comm] at h3
    have := Nat.le_of_dvd hd (odd_cancel hodd h3)
    omega
  · have := Nat.le_of_dvd (by omega) (odd_cancel hd1 h3)
    omega

theorem tri_inj {k a b : Nat} (ha : a < 2 ^ k) (hb : b < 2 ^ k)
    (h : tri a % 2 ^ k = tri b % 2 ^ k) : a = b := by
  rcases Nat.lt_trichotomy a b with hlt | heq | hgt
  · exfalso
    obtain ⟨d, rfl⟩ : ∃ d, b = a + d := ⟨b - a, by omega⟩
    exact tri_inj_aux (by omega) hb h.symm
  · exact heq
  · exfalso
    obtain ⟨d, rfl⟩ : ∃ d, a = b + d := ⟨a - b, by omega⟩
    exact tri_inj_aux (by omega) ha h

/-! pigeonhole on lists of naturals -/

theorem nodup_bounded_length : ∀ (m : Nat) (l : List Nat), l.Nodup → (∀ x ∈ l, x < m) →
    l.length ≤ m := by
  intro m
  induction m with
  | zero =>
    intro l _ hb
    cases l with
    | nil => simp
    | cons x xs => exact absurd (hb x (by simp)) (by omega)
  | succ m ih =>
    intro l hn hb
    by_cases hm : m ∈ l
    · have h1 := ih (l.erase m) (hn.erase m) (by
        intro x hx
        have := (hn.mem_erase_iff).1 hx
        have := hb x this.2
        omega)
      rw [List.length_erase_of_mem hm] at h1
      omega
    · have := ih l hn (by
        intro x hx
        have := hb x hx
        have : x ≠ m := fun e => hm (e ▸ hx)
        omega)
      omega

theorem nodup_full_mem {m : Nat} {l : List Nat} (hn : l.Nodup) (hb : ∀ x ∈ l, x < m)
    (hl : l.length = m) {w : Nat} (hw : w < m) : w ∈ l := by
  apply Classical.byContradiction
  intro hnot
  have := nodup_bounded_length m (w :: l) (List.nodup_cons.2 ⟨hnot, hn⟩) (by
    intro x hx
    rcases List.mem_cons.1 hx with rfl | hx
    · exact hw
    · exact hb x hx)
  simp at this
  omega

/-- triangular numbers hit every residue modulo `2^k` -/
theorem tri_surj {k w : Nat} (hw : w < 2 ^ k) : ∃ m, m < 2 ^ k ∧ tri m % 2 ^ k = w := by
  have hpos : 0 < 2 ^ k := Nat.pow_pos (by decide)
  have hn : ((List.range (2 ^ k)).map (fun m => tri m % 2 ^ k)).Nodup := by
    unfold List.Nodup
    rw [List.pairwise_map]
    refine List.Pairwise.imp_of_mem ?_ (List.pairwise_lt_range)
    intro a b ha hb hab heq
    have := tri_inj (List.mem_range.1 ha) (List.mem_range.1 hb) heq
    omega
  have hmem := nodup_full_mem hn (by
    intro x hx
    obtain ⟨m, _, rfl⟩ := List.mem_map.1 hx
    exact Nat.mod_lt _ hpos) (by simp) hw
  obtain ⟨m, hm, rfl⟩ := List.mem_map.1 hmem
  exact ⟨m, List.mem_range.1 hm, rfl⟩

/-! the probe sequence in closed form -/

theorem fullPath_closed (t : Table) (b : Nat) :
    ∀ fuel m step, step = 16 * m → t.FullPath fuel step ((b + 16 * tri m) % t.n) →
      ∀ m', m ≤ m' → m' < m + fuel → firstNeg (t.window ((b + 16 * tri m') % t.n)) = none := by
  intro fuel
  induction fuel with
  | zero => intro m step _ _ m' h1 h2; omega
  | succ k ih =>
    intro m step hs h m' h1 h2
    simp only [Table.FullPath] at h
    by_cases hm : m' = m
    · subst hm; exact h.1
    · have hnext : ((b + 16 * tri m) % t.n + (step + groupSize)) % t.n =
          (b + 16 * tri (m + 1)) % t.n := by
        rw [Nat.mod_add_mod]
        congr 1
        simp only [tri, groupSize_eq]; omega
      have h2' := h.2
      rw [hnext] at h2'
      exact ih (m + 1) (step + groupSize) (by simp only [groupSize_eq]; omega) h2' m'
        (by omega) (by omega)

/-- every ring position lies in one of the `n / 16` probed windows -/
theorem probe_cover {k : Nat} {n b i : Nat} (hn : n = 16 * 2 ^ k) (hb : b < n) (hi : i < n) :
    ∃ m j, m < 2 ^ k ∧ j < 16 ∧ ((b + 16 * tri m) % n + j) % n = i := by
  -- e = offset of i from b on the ring
  obtain ⟨e, he, hbe⟩ : ∃ e, e < n ∧ (b + e) % n = i := by
    by_cases hge : b ≤ i
    · exact ⟨i - b, by omega, by rw [show b + (i - b) = i by omega]; exact Nat.mod_eq_of_lt hi⟩
    · refine ⟨i + n - b, by omega, ?_⟩
      rw [show b + (i + n - b) = i + n by omega, Nat.add_mod_right]
      exact Nat.mod_eq_of_lt hi
  have hw : e / 16 < 2 ^ k := by
    apply Nat.div_lt_of_lt_mul
    omega
  obtain ⟨m, hm, hmw⟩ := tri_surj hw
  refine ⟨m, e % 16, hm, Nat.mod_lt _ (by decide), ?_⟩
  rw [Nat.mod_add_mod]
  -- tri m = 2^k * q + e/16
  obtain ⟨q, hq⟩ : ∃ q, tri m = 2 ^ k * q + e / 16 :=
    ⟨tri m / 2 ^ k, by have := Nat.div_add_mod (tri m) (2 ^ k); rw [hmw] at this; exact this.symm⟩
  have : b + 16 * tri m + e % 16 = b + e + n * q := by
    have h16 := Nat.div_add_mod e 16
    rw [hq, hn, Nat.mul_add, Nat.mul_assoc]; omega
  rw [this, Nat.add_mul_mod_self_left]
  exact hbe

/-- `table_probe_complete`, core: if all `n / 16` windows of a probe sequence are full then every
bucket of the table is occupied. -/
theorem Table.WF.fullPath_sat {hash : Nat → Nat} {t : Table} (hw : t.WF hash) {b : Nat}
    (hb : b < t.n) (h : t.FullPath (t.n / 16) 0 b) : ∀ i, i < t.n → 0 ≤ t.ctl i := by
  intro i hi
  obtain ⟨k, hk⟩ := hw.pow2
  have h16 := hw.ge16
  -- n = 16 * 2^(k-4)
  have hk4 : 4 ≤ k := by
    apply Classical.byContradiction
    intro hlt
    have : 2 ^ k < 2 ^ 4 := Nat.pow_lt_pow_right (by decide) (by omega)
    omega
  obtain ⟨k', rfl⟩ : ∃ k', k = k' + 4 := ⟨k - 4, by omega⟩
  have hn : t.n = 16 * 2 ^ k' := by rw [hk, Nat.pow_add]; omega
  have hdiv : t.n / 16 = 2 ^ k' := by rw [hn]; exact Nat.mul_div_cancel_left _ (by decide)
  obtain ⟨m, j, hm, hj, hmj⟩ := probe_cover hn hb hi
  have h0 : t.FullPath (t.n / 16) 0 ((b + 16 * tri 0) % t.n) := by
    simpa [tri, Nat.mod_eq_of_lt hb] using h
  have hfull := fullPath_closed t b (t.n / 16) 0 0 rfl h0 m (by omega) (by omega)
  have := firstNeg_window_none.1 hfull j hj
  rw [hw.ring (Nat.mod_lt _ hw.npos) hj, hmj] at this
  exact this

end Babylon.Swiss
