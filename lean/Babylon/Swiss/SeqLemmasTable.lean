/-
  Helper lemmas for property C18, part 5: complete specification of the table-level operations
  (`emplace`, `find`, fresh tables, the placeholder, `clear`, `emplaceAll`, `reserve`, `rehash`).
-/
import Babylon.Swiss.SeqLemmasPut

namespace Babylon.Swiss
open Babylon.Gen.Swiss

/-! ### table-level `emplace` -/

/-- The three outcomes of `emplace` on a well-formed table: the key is already stored (nothing
changes, first insertion wins), or it is absent and stored into a free reachable bucket, or the
table is saturated (every bucket occupied — `table_probe_complete`) and does not hold the key.
Never `.stuck`. -/
theorem Table.WF.emplace_spec {hash : Nat → Nat} {t : Table} (hw : t.WF hash) (e : Elem) :
    (∃ i v, t.emplace hash e = (t, .found i) ∧ i < t.n ∧ t.val i = some (e.1, v)) ∨
    (∃ i t', t.emplace hash e = (t', .inserted i) ∧ t'.WF hash ∧ t.Absent e.1 ∧
        t'.elems.Perm (e :: t.elems) ∧ t'.val i = some e ∧ ¬ t.Sat ∧ t'.n = t.n ∧ i < t.n) ∨
    (t.emplace hash e = (t, .full) ∧ t.Sat ∧ t.Absent e.1) := by
  have hb : t.baseOf (hash e.1) < t.n := Nat.mod_lt _ hw.npos
  have habs : ∀ r, t.emplace hash e = r → (∀ i, r ≠ (t, .found i)) → t.Absent e.1 := by
    intro r hr hne x hx hk
    have := emplaceLoop_of_reach hw hx hk _ _ _ hb (hw.reach x e.1 hx hk)
    exact hne x (hr.symm.trans this)
  rcases emplaceLoop_cases hw (tagOf (hash e.1)) e (t.n / groupSize) 0 _ hb with
    ⟨i, h1, h2, h3⟩ | ⟨i, h1, h2, h3, h4⟩ | ⟨h1, h2⟩
  · obtain ⟨_, v, hv⟩ := hw.keyAt_some h2 h3
    exact Or.inl ⟨i, v, h1, h2, hv⟩
  · have ha : t.Absent e.1 := habs _ h1 (by
      intro x hx
      have := congrArg Prod.snd hx
      cases this)
    refine Or.inr (Or.inl ⟨i, _, h1, hw.put h2 h3 e ha h4, ha,
      put_elems_perm hw h2 h3 (tagOf_nonneg _) e, ?_, ?_, rfl, h2⟩)
    · rw [put_val hw h2]; simp
    · rintro (hd | hs)
      · rw [hw.notDummy] at hd; cases hd
      · have := hs i h2
        rw [h3] at this
        exact absurd this (by decide)
  · have ha : t.Absent e.1 := habs _ h1 (by
      intro x hx
      have := congrArg Prod.snd hx
      cases this)
    exact Or.inr (Or.inr ⟨h1, Or.inr (hw.fullPath_sat hb h2), ha⟩)

theorem Table.WF.emplace_of_mem {hash : Nat → Nat} {t : Table} (hw : t.WF hash) {e : Elem}
    {i : Nat} (hi : i < t.n) (hk : t.keyAt i = some e.1) :
    t.emplace hash e = (t, .found i) :=
  emplaceLoop_of_reach hw hi hk _ _ _ (Nat.mod_lt _ hw.npos) (hw.reach i e.1 hi hk)

/-! ### the placeholder table -/

theorem matchKey_eq_none {t : Table} {b : Nat} {tag : Ctl} {key : Nat}
    (h : ∀ j, j < 16 → t.ctl (b + j) ≠ tag) : t.matchKey b tag key = none := by
  unfold Table.matchKey
  rw [List.find?_eq_none]
  intro x hx
  obtain ⟨j, hj, _⟩ := List.mem_map.1 hx
  rw [mem_matchTag_window] at hj
  exact absurd hj.2 (h j hj.1)

theorem placeholder_ctl (x : Nat) :
    Table.placeholder.ctl x = dummyCtl ∨ Table.placeholder.ctl x = emptyCtl := by
  unfold Table.ctl Table.placeholder
  simp only [List.getD_eq_getElem?_getD, List.getElem?_replicate]
  split
  · left; rfl
  · right; rfl

theorem placeholder_ctl_lt {x : Nat} (hx : x < 32) : Table.placeholder.ctl x = dummyCtl := by
  show (List.replicate dummyLen dummyCtl).getD x emptyCtl = dummyCtl
  rw [List.getD_eq_getElem?_getD, List.getElem?_replicate, if_pos (by simpa using hx)]
  rfl

theorem placeholder_ctl_neg (x : Nat) : Table.placeholder.ctl x < 0 := by
  rcases placeholder_ctl x with h | h <;> rw [h] <;> decide

theorem placeholder_matchKey (b : Nat) (h key : Nat) :
    Table.placeholder.matchKey b (tagOf h) key = none := by
  apply matchKey_eq_none
  intro j _ heq
  have h1 := placeholder_ctl_neg (b + j)
  have h2 := tagOf_nonneg h
  rw [heq] at h1
  exact absurd h2 (Int.not_le.2 h1)

theorem placeholder_firstNeg (b : Nat) : ∃ j, firstNeg (Table.placeholder.window b) = some j := by
  cases h : firstNeg (Table.placeholder.window b) with
  | some j => exact ⟨j, rfl⟩
  | none =>
    have := firstNeg_window_none.1 h 0 (by decide)
    exact absurd this (Int.not_le.2 (placeholder_ctl_neg _))

@[simp] theorem placeholder_n : Table.placeholder.n = 16 := rfl
@[simp] theorem placeholder_size : Table.placeholder.size = 0 := rfl
@[simp] theorem placeholder_dummy : Table.placeholder.dummy = true := rfl
@[simp] theorem placeholder_elems : Table.placeholder.elems = [] := by decide
@[simp] theorem placeholder_val (x : Nat) : Table.placeholder.val x = none := by
  simp [Table.val, Table.placeholder]

theorem placeholder_find (hash : Nat → Nat) (k : Nat) : Table.placeholder.find hash k = none := by
  unfold Table.find
  have : Table.placeholder.n / groupSize = 1 := by decide
  rw [this]
  simp only [Table.findLoop, placeholder_matchKey]
  obtain ⟨j, hj⟩ := placeholder_firstNeg (Table.placeholder.baseOf (hash k))
  rw [hj]; rfl

theorem placeholder_emplace (hash : Nat → Nat) (e : Elem) :
    Table.placeholder.emplace hash e = (Table.placeholder, .full) := by
  unfold Table.emplace
  have : Table.placeholder.n / groupSize = 1 := by decide
  rw [this]
  simp only [Table.emplaceLoop, placeholder_matchKey]
  obtain ⟨j, hj⟩ := placeholder_firstNeg (Table.placeholder.baseOf (hash e.1))
  rw [hj]
  have hlt : (Table.placeholder.baseOf (hash e.1) + j) % Table.placeholder.n < 32 := by
    have : (Table.placeholder.baseOf (hash e.1) + j) % Table.placeholder.n < 16 :=
      Nat.mod_lt _ (by decide)
    omega
  simp only [placeholder_ctl_lt hlt]
  rfl

/-! ### fresh tables -/

/-- an empty table with `n` buckets -/
def Table.fresh (n : Nat) : Table :=
  { dummy := false, n := n, ctrl := List.replicate (n + groupSize) emptyCtl,
    vals := List.replicate n none, size := 0 }

theorem fresh_ctl (n x : Nat) : (Table.fresh n).ctl x = emptyCtl := by
  unfold Table.ctl Table.fresh
  simp only [List.getD_eq_getElem?_getD, List.getElem?_replicate]
  split <;> rfl

theorem fresh_val (n x : Nat) : (Table.fresh n).val x = none := by
  unfold Table.val Table.fresh
  simp only [List.getD_eq_getElem?_getD, List.getElem?_replicate]
  split <;> rfl

theorem fresh_elems (n : Nat) : (Table.fresh n).elems = [] := by
  apply List.eq_nil_iff_forall_not_mem.2
  intro e he
  obtain ⟨x, _, h0, _⟩ := Table.mem_elems.1 he
  rw [fresh_ctl] at h0
  exact absurd h0 (by decide)

theorem fresh_WF (hash : Nat → Nat) {n : Nat} (hp : ∃ k, n = 2 ^ k) (h16 : 16 ≤ n) :
    (Table.fresh n).WF hash := by
  refine ⟨rfl, hp, h16, ?_, ?_, ?_, ?_, ?_, ?_, ?_⟩
  · simp [Table.fresh]
  · simp [Table.fresh]
  · intro j _; rw [fresh_ctl, fresh_ctl]
  · intro i _; exact Or.inl ⟨fresh_ctl _ _, fresh_val _ _⟩
  · rw [fresh_elems]; rfl
  · intro i j k _ _ hk
    simp [Table.keyAt, fresh_val] at hk
  · intro i k _ hk
    simp [Table.keyAt, fresh_val] at hk

theorem bitCeilAux_pow2 : ∀ fuel p x, (∃ k, p = 2 ^ k) → ∃ k, bitCeilAux fuel p x = 2 ^ k := by
  intro fuel
  induction fuel with
  | zero => intro p x h; exact h
  | succ f ih =>
    intro p x h
    simp only [bitCeilAux]
    split
    · exact h
    · obtain ⟨k, rfl⟩ := h
      exact ih _ _ ⟨k + 1, by rw [Nat.pow_succ, Nat.mul_comm]⟩

theorem bitCeilAux_ge : ∀ fuel p x, x ≤ p * 2 ^ fuel → x ≤ bitCeilAux fuel p x := by
  intro fuel
  induction fuel with
  | zero => intro p x h; simpa [bitCeilAux] using h
  | succ f ih =>
    intro p x h
    simp only [bitCeilAux]
    split
    · assumption
    · apply ih
      rw [Nat.pow_succ] at h
      have e : p * (2 ^ f * 2) = 2 * p * 2 ^ f := by
        rw [Nat.mul_comm (2 ^ f) 2, ← Nat.mul_assoc, Nat.mul_comm p 2]
      rw [← e]
      exact h

theorem bitCeil_pow2 (x : Nat) : ∃ k, bitCeil x = 2 ^ k :=
  bitCeilAux_pow2 _ _ _ ⟨0, rfl⟩

theorem bitCeil_ge (x : Nat) : x ≤ bitCeil x := by
  apply bitCeilAux_ge
  rw [Nat.one_mul]
  exact Nat.le_of_lt Nat.lt_two_pow_self

theorem mk'_eq (m : Nat) : Table.mk' m = Table.fresh (bitCeil (max m groupSize)) := rfl

theorem mk'_n_ge (m : Nat) : m ≤ (Table.mk' m).n ∧ 16 ≤ (Table.mk' m).n := by
  rw [mk'_eq]
  have := bitCeil_ge (max m groupSize)
  simp only [groupSize_eq] at this
  show m ≤ bitCeil (max m groupSize) ∧ 16 ≤ bitCeil (max m groupSize)
  simp only [groupSize_eq]
  omega

theorem mk'_WF (hash : Nat → Nat) (m : Nat) : (Table.mk' m).WF hash := by
  rw [mk'_eq]
  exact fresh_WF hash (bitCeil_pow2 _) (mk'_n_ge m).2

@[simp] theorem mk'_elems (m : Nat) : (Table.mk' m).elems = [] := by
  rw [mk'_eq]; exact fresh_elems _

@[simp] theorem mk'_size (m : Nat) : (Table.mk' m).size = 0 := rfl
@[simp] theorem mk'_dummy (m : Nat) : (Table.mk' m).dummy = false := rfl

/-! ### `clear` -/

theorem Table.WF.clear {hash : Nat → Nat} {t : Table} (hw : t.WF hash) :
    t.clear.WF hash ∧ t.clear.elems = [] := by
  unfold Table.clear
  rw [hw.notDummy]
  simp only [Bool.false_eq_true, if_false]
  split
  · rename_i h0
    refine ⟨hw, ?_⟩
    have : t.size = 0 := by simpa using h0
    rw [hw.sizeEq] at this
    exact List.eq_nil_of_length_eq_zero this
  · exact ⟨fresh_WF hash hw.pow2 hw.ge16, fresh_elems _⟩

theorem placeholder_clear (hash : Nat → Nat) :
    Table.placeholder.clear.WF hash ∧ Table.placeholder.clear.elems = [] := by
  have : Table.placeholder.clear = Table.mk' groupSize := rfl
  rw [this]
  exact ⟨mk'_WF hash _, mk'_elems _⟩

/-! ### table-level `emplaceAll` (results ignored, as `reserve` / `rehash` / copy do) -/

/-- Re-inserting a list of pairwise distinct keys, none of them stored yet, into a table with
enough free buckets keeps every element (a table with a free bucket never refuses). -/
theorem Table.WF.emplaceAll {hash : Nat → Nat} :
    ∀ (es : List Elem) {t : Table}, t.WF hash → (es.map (·.1)).Nodup →
      (∀ a ∈ t.elems, ∀ b ∈ es, a.1 ≠ b.1) → t.size + es.length ≤ t.n →
      (t.emplaceAll hash es).WF hash ∧ (t.emplaceAll hash es).elems.Perm (t.elems ++ es) ∧
        (t.emplaceAll hash es).n = t.n := by
  intro es
  induction es with
  | nil => intro t hw _ _ _; exact ⟨hw, by simp [Table.emplaceAll], rfl⟩
  | cons e es ih =>
    intro t hw hnd hdisj hcap
    rw [List.map_cons] at hnd
    have hnd' := List.nodup_cons.1 hnd
    have habs : t.Absent e.1 := hw.absent_iff.2 (fun a ha => hdisj a ha e List.mem_cons_self)
    have hstep : Table.emplaceAll hash t (e :: es) = Table.emplaceAll hash (t.emplace hash e).1 es := by
      simp [Table.emplaceAll]
    rw [hstep]
    rcases hw.emplace_spec e with ⟨i, v, _, hi, hv⟩ | ⟨i, t', h1, hw', _, hperm, _, _, hn, _⟩ |
        ⟨_, hsat, _⟩
    · exact absurd (by simp [Table.keyAt, hv]) (habs i hi)
    · rw [h1]
      have hsz : t'.size = t.size + 1 := by
        rw [hw'.sizeEq, hperm.length_eq, hw.sizeEq]; simp
      have := ih hw' hnd'.2 (by
        intro a ha b hb
        rcases List.mem_cons.1 (hperm.mem_iff.1 ha) with rfl | ha'
        · intro heq
          exact hnd'.1 (List.mem_map.2 ⟨b, hb, heq.symm⟩)
        · exact hdisj a ha' b (List.mem_cons_of_mem _ hb)) (by
        simp only [List.length_cons] at hcap; omega)
      refine ⟨this.1, ?_, by rw [this.2.2, hn]⟩
      exact this.2.1.trans ((List.Perm.append_right es hperm).trans
        (List.perm_middle.symm))
    · exfalso
      have := hw.sat_size hsat
      simp only [List.length_cons] at hcap
      omega

end Babylon.Swiss
