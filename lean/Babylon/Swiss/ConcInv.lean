/-
  Property C03, part 1 of the proofs: the inductive invariant of the concurrent model
  `Babylon.Swiss.Conc` (definitions only; preservation is proved in `ConcStep*.lean`).

  Layers:
    * `NodeOK`   — one table: shape, status of every bucket (EMPTY / BUSY / published), mirrored
                   bytes, and the concurrent probe-prefix-full fact `ReachC` of every claimed bucket;
    * `ThreadOK` — what a thread knows at each program counter (depends on the nodes, the chain and
                   its own pc only);
    * `Inv`      — all nodes, the chain, pairwise facts (one claim per key over all tables, one
                   owner per bucket, private new nodes), every thread;
    * `LogOK`    — the history: what every returned result guarantees, one `true` per bucket.
-/
import Babylon.Swiss.Conc
import Babylon.Swiss.SeqLemmasTable

namespace Babylon.Swiss.Conc
open Babylon.Core Babylon.Gen.Swiss Babylon.Gen.SwissConc Babylon.Swiss

/-! ### vocabulary -/

/-- base of the `m`-th window of the triangular probe sequence that starts at `b0` -/
def wbase (n b0 m : Nat) : Nat := (b0 + 16 * tri m) % n

/-- all 16 bytes of the window read at `b` are non-negative (no EMPTY / BUSY / DUMMY) -/
def winFull (T : Table) (b : Nat) : Prop := ∀ j, j < 16 → 0 ≤ T.ctl (b + j)

def claimAt (nd : Node) (i : Nat) : Option Nat := nd.claim.getD i none

/-- Concurrent probe-prefix-full: bucket `i` lies in window `m` (offset `j`) of the probe sequence
from `b0`; every earlier window is full *now* and every earlier byte of window `m` is non-negative. -/
def ReachC (T : Table) (b0 i : Nat) : Prop :=
  ∃ m j, m < T.n / 16 ∧ j < 16 ∧ (wbase T.n b0 m + j) % T.n = i ∧
    (∀ m', m' < m → winFull T (wbase T.n b0 m')) ∧
    (∀ j', j' < j → 0 ≤ T.ctl (wbase T.n b0 m + j'))

/-- Bucket `i` is visible to every probe for `key`: the byte through which the probe sequence of the
key reads the bucket (main or mirrored) holds the tag, and all earlier windows are full. -/
def Vis (T : Table) (b0 i : Nat) (tag : Ctl) : Prop :=
  ∃ m j, m < T.n / 16 ∧ j < 16 ∧ (wbase T.n b0 m + j) % T.n = i ∧
    (∀ m', m' < m → winFull T (wbase T.n b0 m')) ∧ T.ctl (wbase T.n b0 m + j) = tag

/-- bucket `i` of the node holds `key`, published to every probe for `key` -/
def Pub (hash : Nat → Nat) (nd : Node) (i key : Nat) : Prop :=
  nd.tab.dummy = false ∧ i < nd.tab.n ∧ nd.tab.keyAt i = some key ∧ claimAt nd i = some key ∧
    nd.tab.ctl i = tagOf (hash key) ∧ Vis nd.tab (nd.tab.baseOf (hash key)) i (tagOf (hash key))

/-- the table refuses `key`: saturated (placeholder or every bucket non-negative) and no bucket is
claimed for `key` -/
def Full (nd : Node) (key : Nat) : Prop := nd.tab.Sat ∧ ∀ i, claimAt nd i ≠ some key

/-- status of one bucket of a real table -/
def SlotOK (hash : Nat → Nat) (nd : Node) (i : Nat) : Prop :=
  (nd.tab.ctl i = emptyCtl ∧ nd.tab.val i = none ∧ claimAt nd i = none) ∨
  (∃ k, nd.tab.ctl i = busyCtl ∧ claimAt nd i = some k ∧
      (nd.tab.val i = none ∨ ∃ v, nd.tab.val i = some (k, v))) ∨
  (∃ k v, nd.tab.ctl i = tagOf (hash k) ∧ nd.tab.val i = some (k, v) ∧ claimAt nd i = some k)

structure NodeOK (hash : Nat → Nat) (nd : Node) : Prop where
  shape : nd.tab = Table.placeholder ∨
    (nd.tab.dummy = false ∧ (∃ k, nd.tab.n = 2 ^ k) ∧ 16 ≤ nd.tab.n ∧
      nd.tab.ctrl.length = nd.tab.n + 16 ∧ nd.tab.vals.length = nd.tab.n)
  claimLen : nd.claim.length = nd.tab.n
  dummyClaim : nd.tab.dummy = true → ∀ i, claimAt nd i = none
  slot : nd.tab.dummy = false → ∀ i, i < nd.tab.n → SlotOK hash nd i
  /-- a mirrored byte is EMPTY or (already) equal to its non-negative main byte -/
  mirror : nd.tab.dummy = false → ∀ j, j < 15 →
    nd.tab.ctl (nd.tab.n + j) = emptyCtl ∨
      (0 ≤ nd.tab.ctl (nd.tab.n + j) ∧ nd.tab.ctl (nd.tab.n + j) = nd.tab.ctl j)
  reach : nd.tab.dummy = false → ∀ i k, i < nd.tab.n → claimAt nd i = some k →
    ReachC nd.tab (nd.tab.baseOf (hash k)) i

/-! ### threads -/

/-- a `must` slot binds this call: set operations look at every table, table operations at node 0 -/
def usable (f : Frame) (tbs : Nat) : Prop := f.kind.isSet = true ∨ tbs = 0

/-- facts every active frame satisfies; `p` = position of `f.tb` in the chain -/
structure FrameOK (hash : Nat → Nat) (ns : List Node) (ch : List Nat) (f : Frame) (p : Nat) : Prop where
  pos : p < ch.length
  atPos : ch.getD p 0 = f.tb
  lt : f.tb < ns.length
  nEq : f.n = (nodeAt ns f.tb).tab.n
  fixed0 : f.kind.isSet = false → p = 0
  /-- an inserter has left every earlier table saturated and without its key -/
  earlier : f.kind.isFind = false → ∀ q, q < p → Full (nodeAt ns (ch.getD q 0)) f.e.1
  /-- the slot that had been returned for this key lies ahead (or here) and is published -/
  must : ∀ tbs is, f.must = some (tbs, is) → usable f tbs →
    ∃ ps, p ≤ ps ∧ ps < ch.length ∧ ch.getD ps 0 = tbs ∧ Pub hash (nodeAt ns tbs) is f.e.1

/-- the probe loop of `do_emplace` / `find` on node `f.tb` -/
structure ProbeOK (hash : Nat → Nat) (ns : List Node) (f : Frame) : Prop where
  notBuilt : f.built = false
  wLen : f.w.length ≤ 16
  dummyCase : (nodeAt ns f.tb).tab.dummy = true → f.step = 0 ∧ f.base < 16 ∧ ∀ c ∈ f.w, c = dummyCtl
  stepEq : (nodeAt ns f.tb).tab.dummy = false → f.step = 16 * (f.step / 16) ∧ f.step < f.n ∧
    f.base = wbase f.n ((nodeAt ns f.tb).tab.baseOf (hash f.e.1)) (f.step / 16)
  prefixFull : (nodeAt ns f.tb).tab.dummy = false → ∀ m', m' < f.step / 16 →
    winFull (nodeAt ns f.tb).tab (wbase f.n ((nodeAt ns f.tb).tab.baseOf (hash f.e.1)) m')
  /-- an inserter has found no bucket claimed for its key in the windows it has passed -/
  passed : (nodeAt ns f.tb).tab.dummy = false → f.kind.isFind = false → ∀ m', m' < f.step / 16 →
    ∀ j, j < 16 → claimAt (nodeAt ns f.tb)
      ((wbase f.n ((nodeAt ns f.tb).tab.baseOf (hash f.e.1)) m' + j) % f.n) ≠ some f.e.1
  /-- a non-negative byte of the snapshot is still there (control bytes never go back) -/
  snap : ∀ j, j < f.w.length → 0 ≤ f.w.getD j 0 → (nodeAt ns f.tb).tab.ctl (f.base + j) = f.w.getD j 0
  /-- if the key had been returned from this very table, the probe has not passed it and sees it -/
  mustHere : ∀ is, f.must = some (f.tb, is) → usable f f.tb →
    ∃ ms js, f.step / 16 ≤ ms ∧ ms < f.n / 16 ∧ js < 16 ∧
      (wbase f.n ((nodeAt ns f.tb).tab.baseOf (hash f.e.1)) ms + js) % f.n = is ∧
      (∀ m', m' < ms → winFull (nodeAt ns f.tb).tab (wbase f.n ((nodeAt ns f.tb).tab.baseOf (hash f.e.1)) m')) ∧
      (nodeAt ns f.tb).tab.ctl (wbase f.n ((nodeAt ns f.tb).tab.baseOf (hash f.e.1)) ms + js) = tagOf (hash f.e.1) ∧
      (f.step / 16 < ms → ∀ c ∈ f.w, 0 ≤ c) ∧
      (f.step / 16 = ms → js < f.w.length → f.w.getD js 0 = tagOf (hash f.e.1))

/-- no earlier result binds this call any more (it would contradict what the thread has seen) -/
def NoMust (f : Frame) : Prop := ∀ tbs is, f.must = some (tbs, is) → usable f tbs → False

/-- an inserter about to CAS has not been bound to a slot of this very table -/
def NoMustHere (f : Frame) : Prop := ∀ is, f.must = some (f.tb, is) → usable f f.tb → False

/-- the slot a thread holds between its successful CAS and its return -/
def ownerOf : Pc → Option (Nat × Nat)
  | .construct f i | .st1 f i | .st2 f i | .sz f i => some (f.tb, i)
  | .ret f (.slot _ i true) => some (f.tb, i)
  | _ => none

/-- facts of an inserter that has won bucket `i` -/
structure OwnOK (hash : Nat → Nat) (ns : List Node) (f : Frame) (i : Nat) : Prop where
  notFind : f.kind.isFind = false
  real : (nodeAt ns f.tb).tab.dummy = false
  lt : i < f.n
  claim : claimAt (nodeAt ns f.tb) i = some f.e.1
  noMust : NoMust f

def ThreadOK (hash : Nat → Nat) (ns : List Node) (ch : List Nat) : Pc → Prop
  | .idle => True
  | .load f => ∃ p, FrameOK hash ns ch f p ∧ ProbeOK hash ns f ∧ f.w.length < 16
  | .cmp f ms => ∃ p, FrameOK hash ns ch f p ∧ ProbeOK hash ns f ∧ f.w.length = 16 ∧
      (nodeAt ns f.tb).tab.dummy = false ∧ ms ≠ [] ∧
      ∃ pre, matchTag f.w (tagOf (hash f.e.1)) = pre ++ ms ∧
        ∀ j ∈ pre, (nodeAt ns f.tb).tab.keyAt ((f.base + j) % f.n) ≠ some f.e.1
  | .cas f i => ∃ p, FrameOK hash ns ch f p ∧ ProbeOK hash ns f ∧ f.w.length = 16 ∧
      f.kind.isFind = false ∧ NoMustHere f ∧
      ∃ j0, firstNeg f.w = some j0 ∧ i = (f.base + j0) % f.n ∧
        ((nodeAt ns f.tb).tab.dummy = false → ∀ j ∈ matchTag f.w (tagOf (hash f.e.1)),
          (nodeAt ns f.tb).tab.keyAt ((f.base + j) % f.n) ≠ some f.e.1)
  | .yield f => ∃ p, FrameOK hash ns ch f p ∧ ProbeOK hash ns f ∧ f.kind.isFind = false
  | .construct f i => ∃ p, FrameOK hash ns ch f p ∧ OwnOK hash ns f i ∧ f.built = false ∧
      (nodeAt ns f.tb).tab.ctl i = busyCtl ∧ (nodeAt ns f.tb).tab.val i = none
  | .st1 f i => ∃ p, FrameOK hash ns ch f p ∧ OwnOK hash ns f i ∧ f.built = true ∧
      (nodeAt ns f.tb).tab.ctl i = busyCtl ∧ (nodeAt ns f.tb).tab.val i = some f.e
  | .st2 f i => ∃ p, FrameOK hash ns ch f p ∧ OwnOK hash ns f i ∧ f.built = true ∧
      (nodeAt ns f.tb).tab.ctl i = tagOf (hash f.e.1) ∧ (nodeAt ns f.tb).tab.val i = some f.e ∧
      (i < 15 → (nodeAt ns f.tb).tab.ctl (f.n + i) = emptyCtl)
  | .sz f i => ∃ p, FrameOK hash ns ch f p ∧ OwnOK hash ns f i ∧ f.built = true ∧
      Pub hash (nodeAt ns f.tb) i f.e.1 ∧ (nodeAt ns f.tb).tab.val i = some f.e
  | .nextLd f => ∃ p, FrameOK hash ns ch f p ∧ f.kind.isSet = true ∧ f.built = false ∧
      (f.kind.isFind = false → Full (nodeAt ns f.tb) f.e.1) ∧
      (∀ tbs is, f.must = some (tbs, is) → tbs ≠ f.tb)
  | .nextCas f nw => ∃ p, FrameOK hash ns ch f p ∧ f.kind = .sEmplace ∧ f.built = false ∧
      Full (nodeAt ns f.tb) f.e.1 ∧ NoMust f ∧ nw < ns.length ∧ nw ∉ ch ∧
      (nodeAt ns nw).tab = Table.mk' (f.n * 2)
  | .ret f r =>
      match r with
      | .slot tb i ins => tb = f.tb ∧ f.tb < ns.length ∧ Pub hash (nodeAt ns f.tb) i f.e.1 ∧ ins = f.built ∧
          (f.kind.isFind = true → ins = false) ∧
          (∀ tbs is, f.must = some (tbs, is) → usable f tbs → tbs = tb ∧ is = i ∧ ins = false)
      | .none => f.built = false ∧ NoMust f ∧
          (f.kind.isFind = false → f.kind = .tEmplace ∧ (nodeAt ns 0).tab.Sat)

/-! ### the chain -/

structure ChainOK (ns : List Node) (ch : List Nat) : Prop where
  head : ch.head? = some 0
  lt : ∀ x ∈ ch, x < ns.length
  nodup : ch.Nodup
  /-- `next` of the node at position `idx` is the node at position `idx + 1` (none for the last) -/
  link : ∀ idx, idx < ch.length → (nodeAt ns (ch.getD idx 0)).next = ch[idx + 1]?

/-! ### the global invariant -/

structure Inv (hash : Nat → Nat) (s : State) : Prop where
  nodes : ∀ tb, tb < s.nodes.length → NodeOK hash (nodeAt s.nodes tb)
  chain : ChainOK s.nodes s.chain
  /-- nodes not (yet) linked — private new nodes, losers of a growth race — are untouched -/
  offChain : ∀ tb, tb < s.nodes.length → tb ∉ s.chain →
    (nodeAt s.nodes tb).next = none ∧ ∀ i, claimAt (nodeAt s.nodes tb) i = none
  /-- one claimed bucket per key over all tables -/
  distinct : ∀ tb i tb' i' k, tb < s.nodes.length → tb' < s.nodes.length →
    claimAt (nodeAt s.nodes tb) i = some k → claimAt (nodeAt s.nodes tb') i' = some k → tb = tb' ∧ i = i'
  /-- a claim in a chained table means every earlier table is saturated -/
  later : ∀ p q x k, p < q → q < s.chain.length →
    claimAt (nodeAt s.nodes (s.chain.getD q 0)) x = some k → (nodeAt s.nodes (s.chain.getD p 0)).tab.Sat
  thr : ∀ t, ThreadOK hash s.nodes s.chain (s.pc t)
  owners : ∀ t t' o, t ≠ t' → ownerOf (s.pc t) = some o → ownerOf (s.pc t') ≠ some o
  fresh : ∀ t t' f nw f' nw', t ≠ t' → s.pc t = .nextCas f nw → s.pc t' = .nextCas f' nw' → nw ≠ nw'

/-! ### the history -/

def insertedSlot : Event → Option (Nat × Nat)
  | .ret _ _ _ (.slot tb i true) _ _ => some (tb, i)
  | _ => none

/-- what one returned result guarantees (stable for ever after) -/
def RetOK (hash : Nat → Nat) (ns : List Node) : Event → Prop
  | .call _ _ _ => True
  | .ret _ k e r b must =>
    match r with
    | .slot tb i ins => tb < ns.length ∧ Pub hash (nodeAt ns tb) i e.1 ∧ ins = b ∧
        (k.isFind = true → ins = false) ∧
        (∀ tbs is, must = some (tbs, is) → (k.isSet = true ∨ tbs = 0) → tbs = tb ∧ is = i ∧ ins = false)
    | .none => b = false ∧ (∀ tbs is, must = some (tbs, is) → (k.isSet = true ∨ tbs = 0) → False) ∧
        (k.isFind = false → k = .tEmplace ∧ (nodeAt ns 0).tab.Sat)

structure LogOK (hash : Nat → Nat) (s : State) : Prop where
  rets : ∀ ev ∈ s.log, RetOK hash s.nodes ev
  /-- no bucket is reported as inserted twice -/
  winners : (s.log.filterMap insertedSlot).Nodup
  /-- a bucket whose inserter has not returned yet has not been reported -/
  pending : ∀ t o, ownerOf (s.pc t) = some o → o ∉ s.log.filterMap insertedSlot

end Babylon.Swiss.Conc
