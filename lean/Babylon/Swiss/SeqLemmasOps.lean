/-
  Helper lemmas for property C18, part 7: the reference container (association list, first
  insertion wins), the refinement relation, and the whole-container operations
  (`clear`, `reserve`, `rehash`, copy) on sets.
-/
import Babylon.Swiss.SeqLemmasSet

namespace Babylon.Swiss
open Babylon.Gen.Swiss

/-! ### reference container -/

/-- insert-if-absent on an association list (insertion order kept) -/
def specInsert (m : List Elem) (e : Elem) : List Elem :=
  match m.lookup e.1 with
  | some _ => m
  | none => m ++ [e]

theorem mem_of_lookup : ∀ {l : List Elem} {k v : Nat}, l.lookup k = some v → (k, v) ∈ l := by
  intro l
  induction l with
  | nil => intro _ _ h; cases h
  | cons a as ih =>
    intro k v h
    rw [List.lookup_cons] at h
    split at h
    · rename_i heq
      have hk : k = a.1 := by simpa using heq
      cases h
      rw [hk]
      exact List.mem_cons_self
    · exact List.mem_cons_of_mem _ (ih h)

theorem lookup_none_iff {l : List Elem} {k : Nat} :
    l.lookup k = none ↔ ∀ a ∈ l, a.1 ≠ k := by
  constructor
  · intro h a ha hk
    rw [List.lookup_eq_none_iff] at h
    have := h a ha
    simp only [bne_iff_ne, ne_eq] at this
    exact this hk.symm
  · exact lookup_none_of_absent

theorem lookup_perm {l₁ l₂ : List Elem} (hp : l₁.Perm l₂) (hn : (l₁.map (·.1)).Nodup) (k : Nat) :
    l₁.lookup k = l₂.lookup k := by
  have hn2 : (l₂.map (·.1)).Nodup := (hp.map (·.1)).nodup_iff.1 hn
  cases h : l₁.lookup k with
  | none =>
    symm
    rw [lookup_none_iff] at h ⊢
    intro a ha
    exact h a (hp.mem_iff.2 ha)
  | some v =>
    symm
    exact lookup_of_mem_nodup hn2 (hp.mem_iff.1 (mem_of_lookup h))

theorem specInsert_nodup {m : List Elem} (hn : (m.map (·.1)).Nodup) (e : Elem) :
    ((specInsert m e).map (·.1)).Nodup := by
  unfold specInsert
  split
  · exact hn
  · rename_i h
    rw [lookup_none_iff] at h
    rw [List.map_append, List.nodup_append]
    refine ⟨hn, by simp, ?_⟩
    intro a ha b hb
    simp only [List.map_cons, List.map_nil, List.mem_singleton] at hb
    subst hb
    obtain ⟨x, hx, rfl⟩ := List.mem_map.1 ha
    exact h x hx

theorem foldl_specInsert_nodup : ∀ (es m : List Elem), ((m ++ es).map (·.1)).Nodup →
    es.foldl specInsert m = m ++ es := by
  intro es
  induction es with
  | nil => intro m _; simp
  | cons e es ih =>
    intro m hn
    have hnone : m.lookup e.1 = none := by
      rw [lookup_none_iff]
      intro a ha hk
      rw [List.map_append, List.nodup_append] at hn
      exact hn.2.2 a.1 (List.mem_map.2 ⟨a, ha, rfl⟩) e.1 (by simp) hk
    have hs : specInsert m e = m ++ [e] := by
      unfold specInsert; rw [hnone]
    rw [List.foldl_cons, hs, ih (m ++ [e]) (by simpa using hn)]
    simp

theorem lookup_specInsert (m : List Elem) (e : Elem) (k : Nat) :
    (specInsert m e).lookup k =
      match m.lookup k with
      | some v => some v
      | none => if k = e.1 then some e.2 else none := by
  obtain ⟨ek, ev⟩ := e
  unfold specInsert
  cases he : m.lookup ek with
  | some w =>
    simp only
    cases hk : m.lookup k with
    | some v => rfl
    | none =>
      have : k ≠ ek := by
        intro heq; rw [heq, he] at hk; cases hk
      simp [this]
  | none =>
    simp only
    rw [List.lookup_append]
    cases hk : m.lookup k with
    | some v => rfl
    | none =>
      by_cases hke : k = ek
      · simp [hke]
      · have : (k == ek) = false := beq_false_of_ne hke
        simp [hke, this]

/-! ### refinement -/

/-- the model state `s` represents the reference container `m` -/
def Refines (hash : Nat → Nat) (s : HSet) (m : List Elem) : Prop :=
  s.WF hash ∧ s.abs.Perm m

theorem Refines.nodup {hash : Nat → Nat} {s : HSet} {m : List Elem} (h : Refines hash s m) :
    (m.map (·.1)).Nodup := (h.2.map (·.1)).nodup_iff.1 h.1.nodup

/-- `emplace` refines insert-if-absent; the returned flag says whether the key was absent and
the returned position holds the first-inserted pair. -/
theorem Refines.emplace {hash : Nat → Nat} {s : HSet} {m : List Elem} (h : Refines hash s m)
    (e : Elem) :
    Refines hash (s.emplace hash e).1 (specInsert m e) ∧
    ∃ ti i, (s.emplace hash e).2 = .done ti i (m.lookup e.1).isNone ∧
      (s.emplace hash e).1.at ti i = some (e.1, (m.lookup e.1).getD e.2) := by
  obtain ⟨hw, hp⟩ := h
  have hl := lookup_perm hp hw.nodup e.1
  obtain ⟨hw', hcase⟩ := hw.emplace_spec e
  rcases hcase with ⟨v, ti, i, hm, heq, hat⟩ | ⟨habs, ti, i, hr, hperm, hat⟩
  · have hlk : m.lookup e.1 = some v := by
      rw [← hl]; exact lookup_of_mem_nodup hw.nodup hm
    have hs : specInsert m e = m := by unfold specInsert; rw [hlk]
    rw [hs, heq, hlk]
    exact ⟨⟨hw, hp⟩, ti, i, rfl, hat⟩
  · have hlk : m.lookup e.1 = none := by
      rw [← hl]; exact lookup_none_of_absent habs
    have hs : specInsert m e = m ++ [e] := by unfold specInsert; rw [hlk]
    rw [hs, hlk]
    refine ⟨⟨hw', ?_⟩, ti, i, hr, hat⟩
    exact hperm.trans ((List.Perm.cons e hp).trans (List.perm_append_singleton e m).symm)

theorem Refines.emplaceAll {hash : Nat → Nat} : ∀ (es : List Elem) {s : HSet} {m : List Elem},
    Refines hash s m → Refines hash (s.emplaceAll hash es) (es.foldl specInsert m) := by
  intro es
  induction es with
  | nil => intro s m h; exact h
  | cons e es ih =>
    intro s m h
    have : HSet.emplaceAll hash s (e :: es) = HSet.emplaceAll hash (s.emplace hash e).1 es := by
      simp [HSet.emplaceAll]
    rw [this, List.foldl_cons]
    exact ih (h.emplace e).1

/-! ### single-table sets -/

theorem single_WF {hash : Nat → Nat} {t : Table} (hw : t.WF hash)
    (hn : (t.elems.map (·.1)).Nodup) : HSet.WF hash { head := t, chain := [] } := by
  refine ⟨⟨Or.inl hw, by simp, trivial⟩, ?_⟩
  simpa [HSet.abs, HSet.tables] using hn

theorem single_abs (t : Table) : HSet.abs { head := t, chain := [] } = t.elems := by
  simp [HSet.abs, HSet.tables]

theorem withBuckets_refines (hash : Nat → Nat) (n : Nat) :
    Refines hash (HSet.withBuckets n) [] := by
  have : (HSet.withBuckets n).abs = [] := by
    unfold HSet.withBuckets; rw [single_abs, mk'_elems]
  refine ⟨single_WF (mk'_WF hash n) (by simp), ?_⟩
  rw [this]

theorem default_refines (hash : Nat → Nat) : Refines hash HSet.default [] := by
  refine ⟨⟨⟨Or.inr ⟨rfl, rfl⟩, by simp [HSet.default], trivial⟩, ?_⟩, ?_⟩
  · simp [HSet.abs, HSet.tables, HSet.default]
  · simp [HSet.abs, HSet.tables, HSet.default]

/-- rebuilding into a fresh table of sufficient capacity keeps all elements -/
theorem mk'_emplaceAll {hash : Nat → Nat} {es : List Elem} (hn : (es.map (·.1)).Nodup) {x : Nat}
    (hx : es.length ≤ x) :
    ((Table.mk' x).emplaceAll hash es).WF hash ∧
      ((Table.mk' x).emplaceAll hash es).elems.Perm es := by
  have := (mk'_WF hash x).emplaceAll es hn (by simp) (by
    have := (mk'_n_ge x).1
    simp only [mk'_size]; omega)
  refine ⟨this.1, ?_⟩
  simpa using this.2.1

/-! ### `clear`, `reserve`, `rehash`, copy -/

theorem HSet.WF.head_ok {hash : Nat → Nat} {s : HSet} (hw : s.WF hash) : s.head.OK hash true :=
  hw.chain.1

theorem HSet.WF.clear {hash : Nat → Nat} {s : HSet} (hw : s.WF hash) :
    Refines hash s.clear [] := by
  unfold HSet.clear
  split
  · rename_i hch
    rw [hch]
    rcases hw.head_ok with h | ⟨_, h⟩
    · have := h.clear
      refine ⟨single_WF this.1 (by rw [this.2]; simp), ?_⟩
      rw [single_abs, this.2]
    · rw [h]
      have := placeholder_clear hash
      refine ⟨single_WF this.1 (by rw [this.2]; simp), ?_⟩
      rw [single_abs, this.2]
  · exact withBuckets_refines hash _

theorem Table.OK.reserve {hash : Nat → Nat} {t : Table} (h : t.OK hash true)
    (hn : (t.elems.map (·.1)).Nodup) (m : Nat) :
    (t.reserve hash m).WF hash ∧ (t.reserve hash m).elems.Perm t.elems := by
  rcases h with hw | ⟨_, rfl⟩
  · unfold Table.reserve
    rw [hw.notDummy]
    simp only [Bool.false_eq_true, if_false]
    split
    · have := t.elems_length_le
      exact mk'_emplaceAll hn (by omega)
    · exact ⟨hw, List.Perm.refl _⟩
  · have : Table.placeholder.reserve hash m = Table.mk' m := rfl
    rw [this]
    exact ⟨mk'_WF hash m, by simp⟩

theorem Table.OK.rehash {hash : Nat → Nat} {t : Table} (h : t.OK hash true)
    (hn : (t.elems.map (·.1)).Nodup) (m : Nat) :
    (t.rehash hash m).WF hash ∧ (t.rehash hash m).elems.Perm t.elems := by
  rcases h with hw | ⟨_, rfl⟩
  · unfold Table.rehash
    rw [hw.notDummy]
    simp only [Bool.false_eq_true, if_false]
    split
    · exact ⟨hw, List.Perm.refl _⟩
    · have := hw.sizeEq
      exact mk'_emplaceAll hn (by omega)
  · have : Table.placeholder.rehash hash m = Table.mk' m := rfl
    rw [this]
    exact ⟨mk'_WF hash m, by simp⟩

theorem rebuild_refines {hash : Nat → Nat} {s : HSet} (hw : s.WF hash) (x : Nat) :
    Refines hash ((HSet.withBuckets x).emplaceAll hash s.iter) s.abs := by
  rw [s.iter_eq]
  have := Refines.emplaceAll (hash := hash) s.abs (withBuckets_refines hash x)
  rw [foldl_specInsert_nodup _ _ (by simpa using hw.nodup)] at this
  simpa using this

/-- `reserve` keeps the content -/
theorem HSet.WF.reserve {hash : Nat → Nat} {s : HSet} (hw : s.WF hash) (m : Nat) :
    Refines hash (s.reserve hash m) s.abs := by
  unfold HSet.reserve
  split
  · rename_i hch
    have hn : (s.head.elems.map (·.1)).Nodup := by
      have := hw.nodup
      simpa [HSet.abs, HSet.tables, hch] using this
    have := hw.head_ok.reserve hn m
    rw [hch]
    refine ⟨single_WF this.1 ((this.2.map (·.1)).nodup_iff.2 hn), ?_⟩
    rw [single_abs]
    simpa [HSet.abs, HSet.tables, hch] using this.2
  · exact rebuild_refines hw _

/-- `rehash` keeps the content -/
theorem HSet.WF.rehash {hash : Nat → Nat} {s : HSet} (hw : s.WF hash) (m : Nat) :
    Refines hash (s.rehash hash m) s.abs := by
  unfold HSet.rehash
  split
  · rename_i hch
    have hn : (s.head.elems.map (·.1)).Nodup := by
      have := hw.nodup
      simpa [HSet.abs, HSet.tables, hch] using this
    have := hw.head_ok.rehash hn m
    rw [hch]
    refine ⟨single_WF this.1 ((this.2.map (·.1)).nodup_iff.2 hn), ?_⟩
    rw [single_abs]
    simpa [HSet.abs, HSet.tables, hch] using this.2
  · exact rebuild_refines hw _

/-- the copy constructor drops nothing: the head table of the copy has capacity `≥ size()` and a
table with a free bucket never refuses -/
theorem HSet.WF.copy {hash : Nat → Nat} {s : HSet} (hw : s.WF hash) :
    Refines hash (s.copy hash) s.abs := by
  unfold HSet.copy
  rw [s.iter_eq]
  have := mk'_emplaceAll (hash := hash) hw.nodup (x := s.size) (by rw [hw.size_eq]; omega)
  refine ⟨single_WF this.1 ((this.2.map (·.1)).nodup_iff.2 hw.nodup), ?_⟩
  rw [single_abs]
  exact this.2

end Babylon.Swiss
