/-
  Property C03, proofs part 10: growth (allocating a private node, linking it by CAS), calls and
  returns, and the assembly: `Inv` is preserved by every `Step`.
-/
import Babylon.Swiss.ConcStep6

namespace Babylon.Swiss.Conc
open Babylon.Core Babylon.Gen.Swiss Babylon.Gen.SwissConc Babylon.Swiss

variable {hash : Nat → Nat}

/-! ### a freshly allocated node -/

theorem nodeOK_fresh (m : Nat) : NodeOK hash (Node.ofTable (Table.mk' m)) := by
  have hn := mk'_n_ge m
  obtain ⟨k, hk⟩ := bitCeil_pow2 (max m groupSize)
  refine ⟨Or.inr ⟨rfl, ⟨k, hk⟩, hn.2, ?_, ?_⟩, ?_, fun _ i => claimAt_ofTable _ i, ?_, ?_, ?_⟩
  · simp [Node.ofTable, Table.mk']
  · simp [Node.ofTable, Table.mk']
  · simp [Node.ofTable]
  · intro _ i _
    left
    exact ⟨by rw [show (Node.ofTable (Table.mk' m)).tab = Table.fresh _ from rfl]; exact fresh_ctl _ _,
      by rw [show (Node.ofTable (Table.mk' m)).tab = Table.fresh _ from rfl]; exact fresh_val _ _,
      claimAt_ofTable _ i⟩
  · intro _ j _
    left
    rw [show (Node.ofTable (Table.mk' m)).tab = Table.fresh _ from rfl]; exact fresh_ctl _ _
  · intro _ i k _ hc
    rw [claimAt_ofTable] at hc; cases hc

/-! ### `next` load that sees null: an inserter allocates a node of double size -/

theorem inv_alloc {s : State} (h : Inv hash s) {t : Nat} {f : Frame} (hpc : s.pc t = .nextLd f)
    (hn : (nodeAt s.nodes f.tb).next = none) (hk : f.kind.isFind = false) :
    Inv hash (setPc { s with nodes := s.nodes ++ [Node.ofTable (Table.mk' (f.n * 2 ^ growShift))] } t
      (.nextCas f s.nodes.length)) := by
  have hthr := h.thr t
  rw [hpc] at hthr
  obtain ⟨p, hf, hset, hb, hfull, hm⟩ := hthr
  have hle : NodesLe s.nodes (s.nodes ++ [Node.ofTable (Table.mk' (f.n * 2 ^ growShift))]) :=
    NodesLe.append _ _
  have hold : ∀ tb, tb < s.nodes.length →
      nodeAt (s.nodes ++ [Node.ofTable (Table.mk' (f.n * 2 ^ growShift))]) tb = nodeAt s.nodes tb :=
    fun tb htb => nodeAt_append_lt _ _ htb
  have hnew : nodeAt (s.nodes ++ [Node.ofTable (Table.mk' (f.n * 2 ^ growShift))]) s.nodes.length =
      Node.ofTable (Table.mk' (f.n * 2 ^ growShift)) := nodeAt_append_eq _ _
  have hchlt : ∀ x ∈ s.chain, x < s.nodes.length := h.chain.lt
  have hlen : (s.nodes ++ [Node.ofTable (Table.mk' (f.n * 2 ^ growShift))]).length = s.nodes.length + 1 := by simp
  apply h.update (s' := setPc { s with nodes := s.nodes ++ [Node.ofTable (Table.mk' (f.n * 2 ^ growShift))] } t
    (.nextCas f s.nodes.length)) t _ rfl hle (List.prefix_refl _)
  · intro tb htb
    show NodeOK hash (nodeAt (s.nodes ++ [_]) tb)
    have : tb < s.nodes.length + 1 := by rw [← hlen]; exact htb
    rcases Nat.lt_or_ge tb s.nodes.length with h1 | h1
    · rw [hold tb h1]; exact h.nodes tb h1
    · have : tb = s.nodes.length := by omega
      subst this
      rw [hnew]; exact nodeOK_fresh _
  · refine ⟨h.chain.head, fun x hx => ?_, h.chain.nodup, fun idx hidx => ?_⟩
    · show x < (s.nodes ++ [_]).length
      have := hchlt x hx
      simp; omega
    · show (nodeAt (s.nodes ++ [_]) (s.chain.getD idx 0)).next = _
      rw [hold _ (hchlt _ (getD_mem hidx))]; exact h.chain.link idx hidx
  · intro tb htb hnm
    show (nodeAt (s.nodes ++ [_]) tb).next = none ∧ ∀ i, claimAt (nodeAt (s.nodes ++ [_]) tb) i = none
    have : tb < s.nodes.length + 1 := by rw [← hlen]; exact htb
    rcases Nat.lt_or_ge tb s.nodes.length with h1 | h1
    · rw [hold tb h1]; exact h.offChain tb h1 hnm
    · have : tb = s.nodes.length := by omega
      subst this
      rw [hnew]; exact ⟨rfl, fun i => claimAt_ofTable _ i⟩
  · intro tb1 i1 tb2 i2 k h1 h2 c1 c2
    have h1' : tb1 < s.nodes.length + 1 := by rw [← hlen]; exact h1
    have h2' : tb2 < s.nodes.length + 1 := by rw [← hlen]; exact h2
    change claimAt (nodeAt (s.nodes ++ [_]) tb1) i1 = some k at c1
    change claimAt (nodeAt (s.nodes ++ [_]) tb2) i2 = some k at c2
    rcases Nat.lt_or_ge tb1 s.nodes.length with l1 | l1
    · rcases Nat.lt_or_ge tb2 s.nodes.length with l2 | l2
      · rw [hold tb1 l1] at c1; rw [hold tb2 l2] at c2
        exact h.distinct tb1 i1 tb2 i2 k l1 l2 c1 c2
      · have : tb2 = s.nodes.length := by omega
        subst this
        rw [hnew, claimAt_ofTable] at c2; cases c2
    · have : tb1 = s.nodes.length := by omega
      subst this
      rw [hnew, claimAt_ofTable] at c1; cases c1
  · intro p' q x k hpq hq hc
    change claimAt (nodeAt (s.nodes ++ [_]) (s.chain.getD q 0)) x = some k at hc
    show (nodeAt (s.nodes ++ [_]) (s.chain.getD p' 0)).tab.Sat
    have hq' : q < s.chain.length := hq
    rw [hold _ (hchlt _ (getD_mem hq'))] at hc
    rw [hold _ (hchlt _ (getD_mem (by omega)))]
    exact h.later p' q x k hpq hq' hc
  · have hkind : f.kind = .sEmplace := by
      cases hkk : f.kind <;> simp [hkk, Kind.isSet, Kind.isFind] at hset hk ⊢
    refine ⟨p, hf.mono hchlt hle (List.prefix_refl _), hkind, hb, ?_, noMust_at_end h.chain hf hset hm hn, ?_, ?_, ?_⟩
    · show Full (nodeAt (s.nodes ++ [_]) f.tb) f.e.1
      rw [hold _ hf.lt]; exact hfull hk
    · show s.nodes.length < (s.nodes ++ [_]).length
      simp
    · intro hmem; exact absurd (hchlt _ hmem) (Nat.lt_irrefl _)
    · show (nodeAt (s.nodes ++ [_]) s.nodes.length).tab = _
      rw [hnew]; rfl
  · intro t' _ tb i ho
    obtain ⟨hlt, _⟩ := (h.thr t').owner_facts ho
    show SlotSame _ (nodeAt (s.nodes ++ [_]) tb) i
    rw [hold tb hlt]; exact SlotSame.refl _ _
  · intro t' _ g nw hp
    obtain ⟨_, _, _, _, _, _, hnwl, hnw, _⟩ := (by have := h.thr t'; rw [hp] at this; exact this :
      ThreadOK hash s.nodes s.chain (.nextCas g nw))
    refine ⟨hnw, ?_⟩
    show (nodeAt (s.nodes ++ [_]) nw).tab = _
    rw [hold nw hnwl]
  · intro o ho; simp [ownerOf] at ho
  · intro g nw hp t' _ g' nw' hp'
    cases hp
    obtain ⟨_, _, _, _, _, _, hnwl, _⟩ := (by have := h.thr t'; rw [hp'] at this; exact this :
      ThreadOK hash s.nodes s.chain (.nextCas g' nw'))
    omega

/-! ### the growth CAS succeeds: the private node becomes the last node of the chain -/

theorem link_le (nd : Node) (nw : Nat) (hn : nd.next = none) : NodeLe nd (nd.link nw) :=
  ⟨rfl, rfl, fun _ _ => rfl, fun _ _ h => h, fun _ _ h => h, fun _ hn' hne => absurd hn' hne,
    fun x hx => by rw [hn] at hx; cases hx⟩

theorem inv_link {s : State} (h : Inv hash s) {t : Nat} {f : Frame} {nw : Nat}
    (hpc : s.pc t = .nextCas f nw) (hn : (nodeAt s.nodes f.tb).next = none) :
    Inv hash (setPc { s.setNode f.tb ((nodeAt s.nodes f.tb).link nw) with chain := s.chain ++ [nw] } t
      (.load (entered hash (s.nodes.set f.tb ((nodeAt s.nodes f.tb).link nw)) f nw))) := by
  have hthr := h.thr t
  rw [hpc] at hthr
  obtain ⟨p, hf, hkind, hb, hfull, hnm, hnwl, hnwc, hnwt⟩ := hthr
  have hne : nw ≠ f.tb := fun e => hnwc (e ▸ hf.mem)
  have hlast := h.chain.next_none hf.pos (by rw [hf.atPos]; exact hn)
  have hnle := link_le _ nw hn
  have hle : NodesLe s.nodes (s.nodes.set f.tb ((nodeAt s.nodes f.tb).link nw)) := NodesLe.set hf.lt hnle
  have hchlt : ∀ x ∈ s.chain, x < s.nodes.length := h.chain.lt
  have hother : ∀ tb, tb ≠ f.tb → nodeAt (s.nodes.set f.tb ((nodeAt s.nodes f.tb).link nw)) tb = nodeAt s.nodes tb :=
    fun tb htb => nodeAt_set_other _ _ htb
  have hself : nodeAt (s.nodes.set f.tb ((nodeAt s.nodes f.tb).link nw)) f.tb = (nodeAt s.nodes f.tb).link nw :=
    nodeAt_set_same _ _ _ hf.lt
  have hclaims : ∀ tb x, claimAt (nodeAt (s.nodes.set f.tb ((nodeAt s.nodes f.tb).link nw)) tb) x =
      claimAt (nodeAt s.nodes tb) x := by
    intro tb x
    by_cases e : tb = f.tb
    · subst e; rw [hself]; rfl
    · rw [hother tb e]
  have hoffnw := h.offChain nw hnwl hnwc
  have hgetl : ∀ idx, idx < s.chain.length → (s.chain ++ [nw]).getD idx 0 = s.chain.getD idx 0 :=
    fun idx hidx => getD_append_lt _ _ _ hidx
  have hgetn : (s.chain ++ [nw]).getD s.chain.length 0 = nw := getD_append_len _ _ _
  have hsetlen : (s.nodes.set f.tb ((nodeAt s.nodes f.tb).link nw)).length = s.nodes.length := List.length_set
  apply h.update (s' := setPc { s.setNode f.tb ((nodeAt s.nodes f.tb).link nw) with chain := s.chain ++ [nw] } t
      (.load (entered hash (s.nodes.set f.tb ((nodeAt s.nodes f.tb).link nw)) f nw))) t _ rfl hle
      (List.prefix_append _ _)
  · intro tb htb
    show NodeOK hash (nodeAt (s.nodes.set f.tb _) tb)
    have htb' : tb < s.nodes.length := by rw [← hsetlen]; exact htb
    by_cases e : tb = f.tb
    · subst e
      rw [hself]
      exact (h.nodes _ hf.lt).of_same rfl rfl (fun hp => hp) rfl rfl rfl (fun _ => rfl) (fun _ => rfl) (fun _ => rfl)
    · rw [hother tb e]; exact h.nodes tb htb'
  · refine ⟨?_, ?_, ?_, ?_⟩
    · show (s.chain ++ [nw]).head? = some 0
      have := h.chain.head
      cases hc : s.chain with
      | nil => rw [hc] at this; cases this
      | cons a l => rw [hc] at this; simpa using this
    · intro x hx
      show x < (s.nodes.set f.tb _).length
      rw [hsetlen]
      rcases List.mem_append.1 hx with h1 | h1
      · exact hchlt x h1
      · simp at h1; subst h1; exact hnwl
    · show (s.chain ++ [nw]).Nodup
      rw [List.nodup_append]
      exact ⟨h.chain.nodup, by simp, fun a ha b hb => by simp at hb; subst hb; exact fun e => hnwc (e ▸ ha)⟩
    · intro idx hidx
      show (nodeAt (s.nodes.set f.tb _) ((s.chain ++ [nw]).getD idx 0)).next = (s.chain ++ [nw])[idx + 1]?
      have hidx' : idx < s.chain.length + 1 := by
        have : idx < (s.chain ++ [nw]).length := hidx
        simpa using this
      rcases Nat.lt_or_ge idx s.chain.length with h1 | h1
      · rw [hgetl idx h1]
        by_cases e : s.chain.getD idx 0 = f.tb
        · have : idx = p := h.chain.getD_inj h1 hf.pos (by rw [e, hf.atPos])
          subst this
          rw [e, hself, link_next, hlast, List.getElem?_append_right (Nat.le_refl _)]
          simp
        · rw [hother _ e, h.chain.link idx h1]
          have hlt2 : idx + 1 < s.chain.length := by
            apply Classical.byContradiction
            intro hge
            have : idx = p := by omega
            subst this
            exact e hf.atPos
          rw [List.getElem?_append_left hlt2]
      · have : idx = s.chain.length := by omega
        subst this
        rw [hgetn, hother nw hne, hoffnw.1, List.getElem?_eq_none (by simp)]
  · intro tb htb hnm
    show (nodeAt (s.nodes.set f.tb _) tb).next = none ∧ ∀ i, claimAt (nodeAt (s.nodes.set f.tb _) tb) i = none
    have htb' : tb < s.nodes.length := by rw [← hsetlen]; exact htb
    have hnm' : tb ∉ s.chain := fun hm => hnm (List.mem_append_left _ hm)
    have e : tb ≠ f.tb := fun e => hnm' (e ▸ hf.mem)
    rw [hother tb e]; exact h.offChain tb htb' hnm'
  · intro tb1 i1 tb2 i2 k h1 h2 c1 c2
    have h1' : tb1 < s.nodes.length := by rw [← hsetlen]; exact h1
    have h2' : tb2 < s.nodes.length := by rw [← hsetlen]; exact h2
    change claimAt (nodeAt (s.nodes.set f.tb _) tb1) i1 = some k at c1
    change claimAt (nodeAt (s.nodes.set f.tb _) tb2) i2 = some k at c2
    rw [hclaims] at c1 c2
    exact h.distinct tb1 i1 tb2 i2 k h1' h2' c1 c2
  · intro p' q x k hpq hq hc
    have hq' : q < s.chain.length + 1 := by
      have : q < (s.chain ++ [nw]).length := hq
      simpa using this
    change claimAt (nodeAt (s.nodes.set f.tb _) ((s.chain ++ [nw]).getD q 0)) x = some k at hc
    show (nodeAt (s.nodes.set f.tb _) ((s.chain ++ [nw]).getD p' 0)).tab.Sat
    rw [hclaims] at hc
    rcases Nat.lt_or_ge q s.chain.length with h1 | h1
    · rw [hgetl q h1] at hc
      rw [hgetl p' (by omega)]
      exact (hle.2 _ (hchlt _ (getD_mem (by omega)))).sat (h.later p' q x k hpq h1 hc)
    · have : q = s.chain.length := by omega
      subst this
      rw [hgetn, hoffnw.2 x] at hc; cases hc
  · have hset : f.kind.isSet = true := by rw [hkind]; rfl
    have hfind : f.kind.isFind = false := by rw [hkind]; rfl
    apply enter_ok f nw (p + 1) _ hb
    · refine ⟨by show p + 1 < (s.chain ++ [nw]).length; simp; omega, ?_, ?_, rfl, ?_, ?_, ?_⟩
      · show (s.chain ++ [nw]).getD (p + 1) 0 = nw
        rw [hlast]; exact hgetn
      · show nw < (s.nodes.set f.tb _).length
        rw [hsetlen]; exact hnwl
      · intro hk'; simp only [entered_kind] at hk'; rw [hset] at hk'; cases hk'
      · intro _ q hq
        simp only [entered_e]
        show Full (nodeAt (s.nodes.set f.tb _) ((s.chain ++ [nw]).getD q 0)) f.e.1
        rw [hgetl q (by omega)]
        rcases Nat.lt_or_ge q p with h1 | h1
        · exact (hle.2 _ (hchlt _ (getD_mem (by omega)))).full (hf.earlier hfind q h1)
        · have : q = p := by omega
          subst this
          rw [hf.atPos]
          exact (hle.2 _ hf.lt).full hfull
      · intro tbs si hm hu
        exact absurd hu (hnm tbs si hm)
    · show NodeOK hash (nodeAt (s.nodes.set f.tb _) nw)
      rw [hother nw hne]; exact h.nodes nw hnwl
  · intro t' _ tb i ho
    show SlotSame _ (nodeAt (s.nodes.set f.tb _) tb) i
    by_cases e : tb = f.tb
    · subst e; rw [hself]; exact ⟨rfl, rfl, rfl⟩
    · rw [hother tb e]; exact SlotSame.refl _ _
  · intro t' ht' g nw' hp
    obtain ⟨_, _, _, _, _, _, _, hnw', _⟩ := (by have := h.thr t'; rw [hp] at this; exact this :
      ThreadOK hash s.nodes s.chain (.nextCas g nw'))
    have hdiff : nw' ≠ nw := fun e => h.fresh t' t g nw' f nw ht' hp hpc e
    refine ⟨?_, ?_⟩
    · show nw' ∉ s.chain ++ [nw]
      intro hm
      rcases List.mem_append.1 hm with h1 | h1
      · exact hnw' h1
      · simp at h1; exact hdiff h1
    · show (nodeAt (s.nodes.set f.tb _) nw').tab = _
      rw [hother nw' (fun e => hnw' (e ▸ hf.mem))]
  · intro o ho; simp [ownerOf] at ho
  · intro g nw' hp; cases hp

end Babylon.Swiss.Conc
