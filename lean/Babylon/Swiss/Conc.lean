/-
  Atomic-granularity CONCURRENT model of `ConcurrentFixedSwissTable::do_emplace / find` and
  `ConcurrentTransientHashSet::emplace / find` (src/babylon/concurrent/transient_hash_table.hpp),
  property C03.  The table representation (`Table`: control bytes with the 15 mirrored tail bytes,
  value cells, the placeholder) and the pure helpers (`window`, `matchTag`, `firstNeg`,
  `clonedIndex`, `tagOf`, `baseOf`, `mk'`) are those of the sequential model `Babylon.Swiss.Seq`.

  One model step = one action of the real code as VRT observes it under the TSan-ABI build:
    * one relaxed byte load of the probe group (16 per group, `Group::Group`),
    * the acquire fence followed by the key comparison of one tag match,
    * the CAS EMPTY→BUSY on the *main* control byte,
    * the construct (plain write of the value cell; `tau`, checked by the HB race monitor),
    * the release store of the tag into the main byte, then into the mirrored byte,
    * the size counter add (`tau`: a plain thread-local add),
    * `sched_yield()` after a CAS that observed BUSY,
    * the acquire load of `node->next` / the CAS that appends a table of double size.
  A thread keeps, as in the C++, its private snapshot `w` of the 16 control bytes it has loaded so
  far: another thread's slot may be EMPTY, BUSY or published at the moment each byte is read, so
  the `continue` branches of `do_emplace` (unreachable sequentially) are reachable here.

  Ghost components (never influence a label or a non-ghost field): `Node.claim` (the key whose
  insert won the CAS on a slot), `State.chain` (ids linked from the head), `State.log`
  (call / return history), `Frame.built` (the construct step of this call has run), `Frame.must`
  (the slot that a call for the same key had already returned when this call began).
  Core Lean only.
-/
import Babylon.Swiss.Seq
import Babylon.Gen.SwissConc
import Babylon.Core.Trace

namespace Babylon.Swiss.Conc
open Babylon.Core Babylon.Gen.Swiss Babylon.Gen.SwissConc Babylon.Swiss

/-- one `TableNode` (the head is node 0) -/
structure Node where
  tab : Table
  next : Option Nat               -- `TableNode::next` (id of the next node)
  claim : List (Option Nat)       -- ghost, per bucket
  deriving Repr

/-- `t…` = operation on the fixed table (node 0) alone, `s…` = operation on the growing set -/
inductive Kind | tEmplace | tFind | sEmplace | sFind
  deriving DecidableEq, Repr, Inhabited

def Kind.isFind : Kind → Bool
  | .tFind | .sFind => true
  | _ => false
def Kind.isSet : Kind → Bool
  | .sEmplace | .sFind => true
  | _ => false

/-- locals of one call -/
structure Frame where
  kind : Kind
  e : Elem                        -- argument (key = `e.1`; `find` ignores `e.2`)
  tb : Nat                        -- `node`
  n : Nat                         -- `_bucket_mask + 1` of that node's table
  step : Nat
  base : Nat                      -- `base_index`
  w : List Ctl                    -- the bytes of `Group {controls}` loaded so far
  built : Bool := false           -- ghost
  must : Option (Nat × Nat) := none   -- ghost: the slot an earlier call for this key had returned when this call began
  deriving DecidableEq, Repr, Inhabited

inductive Res
  | slot (tb i : Nat) (inserted : Bool)     -- `{iterator to bucket i of node tb, inserted}`
  | none                                    -- `end()`
  deriving DecidableEq, Repr, Inhabited

inductive Pc
  | idle
  | load (f : Frame)                        -- next: `controls[w.length].load(relaxed)`
  | cmp (f : Frame) (ms : List Nat)         -- next: fence(acquire); `extract(at(index)) == key` for `ms.head`
  | cas (f : Frame) (i : Nat)               -- next: `control.compare_exchange_strong(EMPTY, BUSY, acquire, relaxed)`
  | yield (f : Frame)                       -- next: `sched_yield()`
  | construct (f : Frame) (i : Nat)         -- next: `construct(&at(index), …)`
  | st1 (f : Frame) (i : Nat)               -- next: `control.store(checker, release)`
  | st2 (f : Frame) (i : Nat)               -- next: `cloned_control.store(checker, release)`
  | sz (f : Frame) (i : Nat)                -- next: `_size << 1`
  | nextLd (f : Frame)                      -- next: `node->next.load(acquire)`
  | nextCas (f : Frame) (nw : Nat)          -- next: `node->next.compare_exchange_strong(nullptr, new_node, acq_rel)`
  | ret (f : Frame) (r : Res)               -- result computed, the call returns
  deriving DecidableEq, Repr, Inhabited

inductive Event
  | call (t : Nat) (k : Kind) (e : Elem)
  | ret (t : Nat) (k : Kind) (e : Elem) (r : Res) (built : Bool) (must : Option (Nat × Nat))
  deriving DecidableEq, Repr

structure State where
  nodes : List Node
  chain : List Nat                -- ghost
  pc : Nat → Pc
  log : List Event                -- ghost, oldest first

def upd {α : Type} (f : Nat → α) (i : Nat) (v : α) : Nat → α := fun j => if j = i then v else f j

def Node.ofTable (t : Table) : Node := { tab := t, next := none, claim := List.replicate t.n none }

def Node.placeholder : Node := Node.ofTable Table.placeholder

/-- initial states: a set / table constructed with `min_bucket_count`, or default-constructed -/
def State.init (head : Table) : State :=
  { nodes := [Node.ofTable head], chain := [0], pc := fun _ => .idle, log := [] }

def nodeAt (ns : List Node) (tb : Nat) : Node := ns.getD tb Node.placeholder
def State.node (s : State) (tb : Nat) : Node := nodeAt s.nodes tb
def State.setNode (s : State) (tb : Nat) (nd : Node) : State := { s with nodes := s.nodes.set tb nd }

/-- unsigned reading of a control byte, as VRT prints it -/
def ctlNat (c : Ctl) : Nat := (c % 256).toNat

/-- trace names: tables are known by their position in the chain (0 = head) -/
def ctlName (nd : Node) (pos : Nat) : String := if nd.tab.dummy then "dummy" else s!"ctl{pos}"
def nextName (pos : Nat) : String := s!"next{pos}"
/-- position of node `tb` in the chain -/
def State.posOf (s : State) (tb : Nat) : Nat := s.chain.idxOf tb

abbrev Label := Act

/-- start probing node `tb'` (`node->table.emplace(...)` / `.find(key)`) -/
def enter (hash : Nat → Nat) (s : State) (f : Frame) (tb' : Nat) : Pc :=
  let t := (s.node tb').tab
  .load { f with tb := tb', n := t.n, step := 0, base := t.baseOf (hash f.e.1), w := [] }

/-- the table-level operation on node `f.tb` ends with `end()` -/
def tableEnd (f : Frame) : Pc := if f.kind.isSet then .nextLd f else .ret f .none

/-- `step += Group::SIZE; base_index = (base_index + step) & _bucket_mask;` and the loop test -/
def advance (f : Frame) : Pc :=
  let step' := f.step + groupSize
  if step' < f.n then .load { f with step := step', base := (f.base + step') % f.n, w := [] }
  else tableEnd f

/-- after the tag matches of the group have been compared without success -/
def afterMatch (f : Frame) : Pc :=
  if f.kind.isFind then
    if (firstNeg f.w).isSome then tableEnd f else advance f
  else
    match firstNeg f.w with
    | some j => .cas f ((f.base + j) % f.n)
    | none => advance f

/-- after the 16th byte load: `group.match(checker)` -/
def afterLoad (hash : Nat → Nat) (f : Frame) : Pc :=
  match matchTag f.w (tagOf (hash f.e.1)) with
  | [] => afterMatch f
  | ms => .cmp f ms

/-- after a key comparison that failed: the next tag match of the group, or the end of the group -/
def afterCmp (f : Frame) (ms : List Nat) : Pc :=
  match ms with
  | [] => afterMatch f
  | _ => .cmp f ms

def setPc (s : State) (t : Nat) (p : Pc) : State := { s with pc := upd s.pc t p }

/-- One action of thread `t`. -/
def stepThread (hash : Nat → Nat) (s : State) (t : Nat) : Option (State × Label) :=
  match s.pc t with
  | .idle => none
  | .ret _ _ => none
  | .load f =>
    let nd := s.node f.tb
    let off := f.base + f.w.length
    let c := nd.tab.ctl off
    let f' := { f with w := f.w ++ [c] }
    let p := if f'.w.length < groupLoads then .load f' else afterLoad hash f'
    some (setPc s t p, .ld (ctlName nd (s.posOf f.tb)) off ordGroupLoad (ctlNat c))
  | .cmp _ [] => none
  | .cmp f (j :: ms) =>
    let nd := s.node f.tb
    let idx := (f.base + j) % f.n
    let p := if nd.tab.keyAt idx == some f.e.1 then .ret f (.slot f.tb idx false)
             else afterCmp f ms
    some (setPc s t p, .fence (if f.kind.isFind then ordFindFence else ordEmplaceFence))
  | .cas f i =>
    let nd := s.node f.tb
    let c := nd.tab.ctl i
    let lab := fun ok => Act.cas (ctlName nd (s.posOf f.tb)) i false ordCasSucc ordCasFail (ctlNat casExpected)
      (ctlNat casDesired) ok (ctlNat c)
    if c == casExpected then
      let nd' := { nd with tab := { nd.tab with ctrl := nd.tab.ctrl.set i casDesired },
                           claim := nd.claim.set i (some f.e.1) }
      some (setPc (s.setNode f.tb nd') t (.construct f i), lab true)
    else if c == dummyCtl then some (setPc s t (tableEnd f), lab false)
    else if c == busyCtl then some (setPc s t (.yield f), lab false)
    else some (setPc s t (.load { f with w := [] }), lab false)
  | .yield f => some (setPc s t (.load { f with w := [] }), .ev ["yield"])
  | .construct f i =>
    let nd := s.node f.tb
    let nd' := { nd with tab := { nd.tab with vals := nd.tab.vals.set i (some f.e) } }
    some (setPc (s.setNode f.tb nd') t (.st1 { f with built := true } i), .ev ["tau", "construct"])
  | .st1 f i =>
    let nd := s.node f.tb
    let tag := tagOf (hash f.e.1)
    let nd' := { nd with tab := { nd.tab with ctrl := nd.tab.ctrl.set i tag } }
    some (setPc (s.setNode f.tb nd') t (.st2 f i), .st (ctlName nd (s.posOf f.tb)) i ordStoreMain (ctlNat tag))
  | .st2 f i =>
    let nd := s.node f.tb
    let tag := tagOf (hash f.e.1)
    let ci := nd.tab.clonedIndex i
    let nd' := { nd with tab := { nd.tab with ctrl := nd.tab.ctrl.set ci tag } }
    some (setPc (s.setNode f.tb nd') t (.sz f i), .st (ctlName nd (s.posOf f.tb)) ci ordStoreMirror (ctlNat tag))
  | .sz f i =>
    let nd := s.node f.tb
    let nd' := { nd with tab := { nd.tab with size := nd.tab.size + 1 } }
    some (setPc (s.setNode f.tb nd') t (.ret f (.slot f.tb i true)), .ev ["tau", "size"])
  | .nextLd f =>
    let nd := s.node f.tb
    let o := if f.kind.isFind then (if f.tb = 0 then ordSetFindHeadLoad else ordSetFindNextLoad)
             else ordSetEmplaceNextLoad
    -- a non-null pointer in the `next` field of the node at position `p` is traced as `p + 1`
    let p := s.posOf f.tb
    match nd.next with
    | some nx => some (setPc s t (enter hash s f nx), .ld (nextName p) 0 o (p + 1))
    | none =>
      if f.kind.isFind then some (setPc s t (.ret f .none), .ld (nextName p) 0 o 0)
      else
        -- `new TableNode {node->table.bucket_count() << 1}` (thread-private until the CAS)
        let nw := s.nodes.length
        let s' := { s with nodes := s.nodes ++ [Node.ofTable (Table.mk' (f.n * 2 ^ growShift))] }
        some (setPc s' t (.nextCas f nw), .ld (nextName p) 0 o 0)
  | .nextCas f nw =>
    let nd := s.node f.tb
    let p := s.posOf f.tb
    let lab := fun ok obs => Act.cas (nextName p) 0 false ordSetCasSucc ordSetCasFail 0 (p + 1) ok obs
    match nd.next with
    | none =>
      let s' := { s.setNode f.tb { nd with next := some nw } with chain := s.chain ++ [nw] }
      some (setPc s' t (enter hash s' f nw), lab true 0)
    | some nx => some (setPc s t (enter hash s f nx), lab false (p + 1))   -- `delete new_node`

/-- ghost: the slot returned by the first call in the history that returned an element with key `key` -/
def doneOf (log : List Event) (key : Nat) : Option (Nat × Nat) :=
  log.findSome? (fun ev => match ev with
    | .ret _ _ e (.slot tb i _) _ _ => if e.1 = key then some (tb, i) else none
    | _ => none)

/-- an idle thread calls an operation (on node 0 = the fixed table / the head of the set) -/
def doCall (hash : Nat → Nat) (s : State) (t : Nat) (k : Kind) (e : Elem) : State :=
  let f : Frame := { kind := k, e := e, tb := 0, n := 0, step := 0, base := 0, w := [], must := doneOf s.log e.1 }
  { s with pc := upd s.pc t (enter hash s f 0), log := s.log ++ [.call t k e] }

/-- the call returns -/
def doRet (s : State) (t : Nat) (f : Frame) (r : Res) : State :=
  { s with pc := upd s.pc t .idle, log := s.log ++ [.ret t f.kind f.e r f.built f.must] }

inductive Step (hash : Nat → Nat) : State → State → Prop
  | act (s : State) (t : Nat) (s' : State) (l : Label) : stepThread hash s t = some (s', l) → Step hash s s'
  | call (s : State) (t : Nat) (k : Kind) (e : Elem) : s.pc t = .idle → Step hash s (doCall hash s t k e)
  | ret (s : State) (t : Nat) (f : Frame) (r : Res) : s.pc t = .ret f r → Step hash s (doRet s t f r)

/-- initial states of the transition system: any real table size, or the placeholder -/
def Init (s : State) : Prop := (∃ m, s = State.init (Table.mk' m)) ∨ s = State.init Table.placeholder

/-! skeletons this model was written against (compared with the generated ones in Properties/C03) -/
def Skel.do_emplace : List Site := [
  .fence .acq,
  .cas "control" true .acq .rlx,
  .call "construct",
  .store "control" .rel,
  .store "cloned_control" .rel,
  .call "sched_yield"]
def Skel.find : List Site := [.fence .acq]
def Skel.set_emplace : List Site := [
  .load "node->next" .acq,
  .cas "node->next" true .acqrel .acq]
def Skel.set_find : List Site := [
  .load "_head.next" .acq,
  .load "node->next" .acq]
def Skel.group_load_tsan : List Site := [.load "controls[i]" .rlx]

end Babylon.Swiss.Conc
