/-
  Helper lemmas for property C18, part 6: the set-level invariant `HSet.WF` and the behaviour of
  `emplace`, `find`, `size` and iteration on the chain of tables.
-/
import Babylon.Swiss.SeqLemmasTable

namespace Babylon.Swiss
open Babylon.Gen.Swiss

/-- all elements of a list of tables, in iteration order -/
def elemsOf (ts : List Table) : List Elem := ts.flatMap Table.elems

/-- abstract content of a set: every stored (key, value), in iteration order -/
def HSet.abs (s : HSet) : List Elem := elemsOf s.tables

@[simp] theorem elemsOf_nil : elemsOf [] = [] := rfl
@[simp] theorem elemsOf_cons (t : Table) (ts : List Table) :
    elemsOf (t :: ts) = t.elems ++ elemsOf ts := by simp [elemsOf]

/-- a table of a chain: well-formed, or (head position only) the placeholder -/
def Table.OK (hash : Nat → Nat) (hd : Bool) (t : Table) : Prop :=
  t.WF hash ∨ (hd = true ∧ t = Table.placeholder)

/-- chain invariant: every table is well-formed (the head may be the placeholder) and every
table that has a successor is saturated -/
def ChainOK (hash : Nat → Nat) : Bool → List Table → Prop
  | _, [] => True
  | hd, t :: rest => t.OK hash hd ∧ (rest ≠ [] → t.Sat) ∧ ChainOK hash false rest

/-- Well-formedness of a set. -/
structure HSet.WF (hash : Nat → Nat) (s : HSet) : Prop where
  chain : ChainOK hash true s.tables
  /-- keys pairwise distinct across all tables -/
  nodup : (s.abs.map (·.1)).Nodup

theorem Table.OK.weaken {hash : Nat → Nat} {hd : Bool} {t : Table} (h : t.OK hash false) :
    t.OK hash hd := by
  rcases h with h | ⟨h, _⟩
  · exact Or.inl h
  · cases h

/-- uniform specification of the table-level `emplace` for any table of a chain -/
theorem Table.OK.emplace_spec {hash : Nat → Nat} {hd : Bool} {t : Table} (h : t.OK hash hd)
    (e : Elem) :
    (∃ i v, t.emplace hash e = (t, .found i) ∧ t.val i = some (e.1, v) ∧ (e.1, v) ∈ t.elems) ∨
    (∃ i t', t.emplace hash e = (t', .inserted i) ∧ t'.WF hash ∧ (∀ a ∈ t.elems, a.1 ≠ e.1) ∧
        t'.elems.Perm (e :: t.elems) ∧ t'.val i = some e ∧ ¬ t.Sat) ∨
    (t.emplace hash e = (t, .full) ∧ t.Sat ∧ (∀ a ∈ t.elems, a.1 ≠ e.1)) := by
  rcases h with hw | ⟨_, rfl⟩
  · rcases hw.emplace_spec e with ⟨i, v, h1, h2, h3⟩ | ⟨i, t', h1, h2, h3, h4, h5, h6, _, _⟩ |
        ⟨h1, h2, h3⟩
    · exact Or.inl ⟨i, v, h1, h3, hw.mem_elems.2 ⟨i, h2, h3⟩⟩
    · exact Or.inr (Or.inl ⟨i, t', h1, h2, hw.absent_iff.1 h3, h4, h5, h6⟩)
    · exact Or.inr (Or.inr ⟨h1, h2, hw.absent_iff.1 h3⟩)
  · exact Or.inr (Or.inr ⟨placeholder_emplace hash e, Or.inl rfl, by simp⟩)

/-- a fresh table accepts any element -/
theorem mk'_emplace (hash : Nat → Nat) (m : Nat) (e : Elem) :
    ∃ i t', (Table.mk' m).emplace hash e = (t', .inserted i) ∧ t'.WF hash ∧
      t'.elems.Perm [e] ∧ t'.val i = some e := by
  have hw := mk'_WF hash m
  rcases hw.emplace_spec e with ⟨i, v, _, h2, h3⟩ | ⟨i, t', h1, h2, _, h4, h5, _, _, _⟩ |
      ⟨_, h2, _⟩
  · have := hw.mem_elems.2 ⟨i, h2, h3⟩
    rw [mk'_elems] at this; cases this
  · rw [mk'_elems] at h4
    exact ⟨i, t', h1, h2, h4, h5⟩
  · have := hw.sat_size h2
    have := (mk'_n_ge m).2
    simp only [mk'_size] at *
    omega

/-! ### set-level `emplace` -/

/-- Walk of `emplace` over the chain: the invariant is kept; if the key is stored somewhere
nothing changes and the stored element is returned with `inserted = false`; otherwise the
element is added (possibly to a freshly appended table) and returned with `inserted = true`.
Never `.stuck`. -/
theorem emplaceChain_spec {hash : Nat → Nat} (e : Elem) :
    ∀ (ts : List Table) (hd : Bool) (prevN pos : Nat), ChainOK hash hd ts →
      (emplaceChain hash e ts prevN pos).1 ≠ [] ∧
      ChainOK hash hd (emplaceChain hash e ts prevN pos).1 ∧
      ((∃ v d i, (e.1, v) ∈ elemsOf ts ∧
          emplaceChain hash e ts prevN pos = (ts, .done (pos + d) i false) ∧
          (ts.getD d Table.placeholder).val i = some (e.1, v)) ∨
       ((∀ a ∈ elemsOf ts, a.1 ≠ e.1) ∧ ∃ d i,
          (emplaceChain hash e ts prevN pos).2 = .done (pos + d) i true ∧
          (elemsOf (emplaceChain hash e ts prevN pos).1).Perm (e :: elemsOf ts) ∧
          ((emplaceChain hash e ts prevN pos).1.getD d Table.placeholder).val i = some e)) := by
  intro ts
  induction ts with
  | nil =>
    intro hd prevN pos _
    obtain ⟨i, t', h1, h2, h3, h4⟩ := mk'_emplace hash (prevN * 2) e
    have hres : emplaceChain hash e [] prevN pos = ([t'], .done pos i true) := by
      simp only [emplaceChain, h1]
    rw [hres]
    refine ⟨by simp, ⟨Or.inl h2, by simp, trivial⟩, Or.inr ⟨by simp, 0, i, rfl, ?_, ?_⟩⟩
    · simpa using h3
    · simpa using h4
  | cons t rest ih =>
    intro hd prevN pos hc
    obtain ⟨hok, hsat, hrest⟩ := hc
    rcases hok.emplace_spec e with ⟨i, v, h1, h2, h3⟩ | ⟨i, t', h1, h2, h3, h4, h5, h6⟩ |
        ⟨h1, h2, h3⟩
    · have hres : emplaceChain hash e (t :: rest) prevN pos =
          (t :: rest, .done pos i false) := by
        simp only [emplaceChain, h1]
      rw [hres]
      refine ⟨by simp, ⟨hok, hsat, hrest⟩, Or.inl ⟨v, 0, i, ?_, rfl, ?_⟩⟩
      · simp [h3]
      · simpa using h2
    · have hres : emplaceChain hash e (t :: rest) prevN pos =
          (t' :: rest, .done pos i true) := by
        simp only [emplaceChain, h1]
      have hnil : rest = [] := by
        apply Classical.byContradiction
        intro hne
        exact h6 (hsat hne)
      subst hnil
      rw [hres]
      refine ⟨by simp, ⟨Or.inl h2, by simp, trivial⟩, Or.inr ⟨?_, 0, i, rfl, ?_, ?_⟩⟩
      · simpa using h3
      · simpa using h4
      · simpa using h5
    · have hres : emplaceChain hash e (t :: rest) prevN pos =
          (t :: (emplaceChain hash e rest t.n (pos + 1)).1,
            (emplaceChain hash e rest t.n (pos + 1)).2) := by
        simp only [emplaceChain, h1]
      obtain ⟨ihne, ihok, ihcase⟩ := ih false t.n (pos + 1) hrest
      rw [hres]
      refine ⟨by simp, ⟨hok, fun _ => h2, ihok⟩, ?_⟩
      rcases ihcase with ⟨v, d, i, hm, heq, hv⟩ | ⟨habs, d, i, hr, hp, hv⟩
      · refine Or.inl ⟨v, d + 1, i, ?_, ?_, ?_⟩
        · simp [hm]
        · rw [heq]; simp only [Prod.mk.injEq, true_and]
          congr 1; omega
        · simpa using hv
      · refine Or.inr ⟨?_, d + 1, i, ?_, ?_, ?_⟩
        · intro a ha
          rcases List.mem_append.1 (by simpa using ha) with h | h
          · exact h3 a h
          · exact habs a h
        · simp only [hr]; congr 1; omega
        · simp only [elemsOf_cons]
          exact (List.Perm.append_left _ hp).trans List.perm_middle
        · simpa using hv

theorem HSet.abs_mk (t : Table) (ts : List Table) :
    HSet.abs { head := t, chain := ts } = elemsOf (t :: ts) := rfl

/-- set-level `emplace`: the invariant is kept; either the key was present (nothing changes,
`inserted = false`, the stored pair is the old one) or it was absent (the pair is added,
`inserted = true`). -/
theorem HSet.WF.emplace_spec {hash : Nat → Nat} {s : HSet} (hw : s.WF hash) (e : Elem) :
    (s.emplace hash e).1.WF hash ∧
    ((∃ v ti i, (e.1, v) ∈ s.abs ∧ s.emplace hash e = (s, .done ti i false) ∧
        s.at ti i = some (e.1, v)) ∨
     ((∀ a ∈ s.abs, a.1 ≠ e.1) ∧ ∃ ti i, (s.emplace hash e).2 = .done ti i true ∧
        (s.emplace hash e).1.abs.Perm (e :: s.abs) ∧ (s.emplace hash e).1.at ti i = some e)) := by
  obtain ⟨hne, hok, hcase⟩ := emplaceChain_spec e s.tables true 0 0 hw.chain
  unfold HSet.emplace
  cases hres : emplaceChain hash e s.tables 0 0 with
  | mk ts' r =>
    rw [hres] at hne hok hcase
    cases ts' with
    | nil => exact absurd rfl hne
    | cons t' rest' =>
      simp only
      rcases hcase with ⟨v, d, i, hm, heq, hv⟩ | ⟨habs, d, i, hr, hp, hv⟩
      · have hts : t' :: rest' = s.tables := (Prod.mk.inj heq).1
        have hs : ({ head := t', chain := rest' } : HSet) = s := by
          cases s
          simp only [HSet.tables] at hts
          cases hts; rfl
        rw [hs]
        refine ⟨hw, Or.inl ⟨v, 0 + d, i, hm, ?_, ?_⟩⟩
        · rw [(Prod.mk.inj heq).2]
        · simpa [HSet.at] using hv
      · refine ⟨⟨hok, ?_⟩, Or.inr ⟨habs, 0 + d, i, hr, hp, ?_⟩⟩
        · have := (hp.map (·.1)).nodup_iff.2 (by
            simp only [List.map_cons]
            refine List.nodup_cons.2 ⟨?_, hw.nodup⟩
            intro hmem
            obtain ⟨a, ha, hk⟩ := List.mem_map.1 hmem
            exact habs a ha hk)
          exact this
        · simpa [HSet.at, HSet.tables] using hv

/-! ### `find` -/

theorem Table.OK.find_spec {hash : Nat → Nat} {hd : Bool} {t : Table} (h : t.OK hash hd)
    (k : Nat) :
    (t.find hash k = none ∧ ∀ a ∈ t.elems, a.1 ≠ k) ∨
    (∃ i v, t.find hash k = some i ∧ t.val i = some (k, v) ∧ (k, v) ∈ t.elems) := by
  rcases h with hw | ⟨_, rfl⟩
  · cases hf : t.find hash k with
    | none => exact Or.inl ⟨rfl, hw.absent_iff.1 (hw.find_none hf)⟩
    | some i =>
      obtain ⟨hi, hk⟩ := Table.find_sound hw.npos hf
      obtain ⟨_, v, hv⟩ := hw.keyAt_some hi hk
      exact Or.inr ⟨i, v, rfl, hv, hw.mem_elems.2 ⟨i, hi, hv⟩⟩
  · exact Or.inl ⟨placeholder_find hash k, by simp⟩

theorem findChain_spec {hash : Nat → Nat} (k : Nat) :
    ∀ (ts : List Table) (hd : Bool) (pos : Nat), ChainOK hash hd ts →
      (findChain hash k ts pos = none ∧ ∀ a ∈ elemsOf ts, a.1 ≠ k) ∨
      (∃ d i v, findChain hash k ts pos = some (pos + d, i) ∧
        (ts.getD d Table.placeholder).val i = some (k, v) ∧ (k, v) ∈ elemsOf ts) := by
  intro ts
  induction ts with
  | nil => intro _ _ _; exact Or.inl ⟨rfl, by simp⟩
  | cons t rest ih =>
    intro hd pos hc
    obtain ⟨hok, _, hrest⟩ := hc
    rcases hok.find_spec k with ⟨h1, h2⟩ | ⟨i, v, h1, h2, h3⟩
    · rcases ih false (pos + 1) hrest with ⟨g1, g2⟩ | ⟨d, i, v, g1, g2, g3⟩
      · refine Or.inl ⟨by simp only [findChain, h1, g1], ?_⟩
        intro a ha
        rcases List.mem_append.1 (by simpa using ha) with h | h
        · exact h2 a h
        · exact g2 a h
      · refine Or.inr ⟨d + 1, i, v, ?_, by simpa using g2, by simp [g3]⟩
        simp only [findChain, h1, g1]
        congr 2; omega
    · exact Or.inr ⟨0, i, v, by simp only [findChain, h1]; rfl, by simpa using h2, by simp [h3]⟩

theorem lookup_of_mem_nodup : ∀ {l : List Elem} {k v : Nat}, (l.map (·.1)).Nodup → (k, v) ∈ l →
    l.lookup k = some v := by
  intro l
  induction l with
  | nil => intro _ _ _ h; cases h
  | cons a as ih =>
    intro k v hn hm
    rw [List.map_cons] at hn
    have hn' := List.nodup_cons.1 hn
    rw [List.lookup_cons]
    rcases List.mem_cons.1 hm with rfl | hm'
    · simp
    · have hne : (k == a.1) = false := by
        apply beq_false_of_ne
        intro heq
        exact hn'.1 (List.mem_map.2 ⟨(k, v), hm', heq⟩)
      rw [hne]
      exact ih hn'.2 hm'

theorem lookup_none_of_absent {l : List Elem} {k : Nat} (h : ∀ a ∈ l, a.1 ≠ k) :
    l.lookup k = none := by
  rw [List.lookup_eq_none_iff]
  intro a ha
  have := h a ha
  simp only [bne_iff_ne, ne_eq]
  exact fun e => this e.symm

/-- `find` returns exactly the pair stored for the key (first insertion), or nothing -/
theorem HSet.WF.find_eq {hash : Nat → Nat} {s : HSet} (hw : s.WF hash) (k : Nat) :
    s.find hash k = (s.abs.lookup k).map (fun v => (k, v)) := by
  unfold HSet.find
  rcases findChain_spec k s.tables true 0 hw.chain with ⟨h1, h2⟩ | ⟨d, i, v, h1, h2, h3⟩
  · rw [h1, show s.abs.lookup k = none from lookup_none_of_absent h2]; rfl
  · rw [h1, show s.abs.lookup k = some v from lookup_of_mem_nodup hw.nodup h3]
    simpa [HSet.at] using h2

/-! ### `size` -/

theorem Table.OK.size_eq {hash : Nat → Nat} {hd : Bool} {t : Table} (h : t.OK hash hd) :
    t.size = t.elems.length := by
  rcases h with hw | ⟨_, rfl⟩
  · exact hw.sizeEq
  · simp

theorem totalSizeFrom_eq {hash : Nat → Nat} :
    ∀ (c : List Table) (seed : Nat), c ≠ [] → ChainOK hash false c →
      HSet.totalSizeFrom seed c = seed + (elemsOf c).length := by
  intro c
  induction c with
  | nil => intro _ h; exact absurd rfl h
  | cons t rest ih =>
    intro seed _ hc
    obtain ⟨hok, hsat, hrest⟩ := hc
    cases rest with
    | nil => simp [HSet.totalSizeFrom, hok.size_eq]
    | cons t2 rest2 =>
      have hw : t.WF hash := by
        rcases hok with h | ⟨h, _⟩
        · exact h
        · cases h
      have hn : t.n = t.elems.length := by
        rw [← hw.sat_size (hsat (by simp)), hw.sizeEq]
      rw [HSet.totalSizeFrom, ih (seed + t.n) (by simp) hrest, hn]
      · simp only [elemsOf_cons, List.length_append]
        omega
      · simp

/-- `size()` is the number of stored elements -/
theorem HSet.WF.size_eq {hash : Nat → Nat} {s : HSet} (hw : s.WF hash) :
    s.size = s.abs.length := by
  obtain ⟨hok, _, hrest⟩ := hw.chain
  unfold HSet.size HSet.abs HSet.tables
  cases hch : s.chain with
  | nil => simp [hok.size_eq]
  | cons c cs =>
    rw [hch] at hrest
    have hseed : (totalSizeSeed == "size") = true := by decide
    simp only [hseed, if_true]
    rw [totalSizeFrom_eq (c :: cs) _ (by simp) hrest, hok.size_eq]
    simp only [elemsOf_cons, List.length_append]

/-! ### iteration -/

theorem skipEmpty_elems : ∀ (ts : List Table),
    (skipEmpty ts).cur ++ elemsOf (skipEmpty ts).next = elemsOf ts ∧
    ((skipEmpty ts).cur = [] → (skipEmpty ts).next = []) := by
  intro ts
  induction ts with
  | nil => exact ⟨rfl, fun _ => rfl⟩
  | cons t rest ih =>
    simp only [skipEmpty]
    split
    · rename_i he
      have : t.elems = [] := by simpa using he
      simp only [elemsOf_cons, this, List.nil_append]
      exact ih
    · rename_i he
      refine ⟨by simp, ?_⟩
      intro h
      simp only at h
      rw [h] at he
      simp at he

theorem iterFrom_eq : ∀ (fuel : Nat) (it : SetIter),
    (it.cur ++ elemsOf it.next).length < fuel → (it.cur = [] → it.next = []) →
    iterFrom fuel it = it.cur ++ elemsOf it.next := by
  intro fuel
  induction fuel with
  | zero => intro it h _; omega
  | succ f ih =>
    intro it hlen hinv
    obtain ⟨cur, next⟩ := it
    cases cur with
    | nil =>
      have := hinv rfl
      simp only at this
      subst this
      simp [iterFrom, SetIter.deref]
    | cons e es =>
      cases es with
      | nil =>
        have hs := skipEmpty_elems next
        simp only [iterFrom, SetIter.deref, List.head?_cons, SetIter.incr]
        rw [ih (skipEmpty next) (by
          rw [hs.1]
          simp only [List.length_append, List.length_cons, List.length_nil] at hlen
          omega) hs.2, hs.1]
        simp
      | cons e2 es2 =>
        simp only [iterFrom, SetIter.deref, List.head?_cons, SetIter.incr]
        rw [ih ⟨e2 :: es2, next⟩ (by
          simp only [List.length_append, List.length_cons] at hlen ⊢
          omega) (by intro h; cases h)]
        simp

theorem elemsOf_length_le : ∀ (ts : List Table), (elemsOf ts).length ≤ (ts.map (·.n)).sum := by
  intro ts
  induction ts with
  | nil => simp
  | cons t rest ih =>
    have := t.elems_length_le
    simp only [elemsOf_cons, List.length_append, List.map_cons, List.sum_cons]
    omega

/-- iteration (`begin()`, `++` within and across tables, until `end()`) yields exactly the
stored elements, each once (holds for every state, no invariant needed) -/
theorem HSet.iter_eq (s : HSet) : s.iter = s.abs := by
  unfold HSet.iter HSet.begin
  have hb := elemsOf_length_le s.tables
  have habs : s.abs = s.head.elems ++ elemsOf s.chain := by
    simp [HSet.abs, HSet.tables]
  split
  · rename_i he
    have h0 : s.head.elems = [] := by simpa using he
    have hs := skipEmpty_elems s.chain
    rw [iterFrom_eq _ _ (by
      rw [hs.1]
      unfold HSet.capacityBound
      have : (elemsOf s.chain).length ≤ (elemsOf s.tables).length := by
        simp [HSet.tables]
      omega) hs.2, hs.1, habs, h0]
    rfl
  · rename_i he
    rw [iterFrom_eq _ _ (by
      simp only
      unfold HSet.capacityBound
      rw [← habs]
      unfold HSet.abs
      omega) (by
      intro h
      simp only at h
      rw [h] at he
      simp at he), habs]

end Babylon.Swiss
