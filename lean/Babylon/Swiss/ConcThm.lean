/-
  Property C03, proofs part 14: consequences of the invariants, in the form the property theorems
  use them (reachability of the mirror invariant, per-step monotonicity over `Step`, the one-`true`
  lemma on histories, constructed-before-compared, an executable way to exhibit reachable states).
-/
import Babylon.Swiss.ConcKind

namespace Babylon.Swiss.Conc
open Babylon.Core Babylon.Gen.Swiss Babylon.Gen.SwissConc Babylon.Swiss

variable {hash : Nat → Nat}

abbrev Reach (hash : Nat → Nat) (s : State) : Prop := Reachable Init (Step hash) s

/-! ### the mirror invariant is reachable-invariant -/

theorem invMirror_init {s : State} (h : Init s) : InvMirror s := by
  rcases h with ⟨m, rfl⟩ | rfl
  · intro tb htb _ j _ h1 _
    have : tb = 0 := by
      have : tb < 1 := by simpa [State.init] using htb
      omega
    subst this
    exact absurd (by
      show (Node.ofTable (Table.mk' m)).tab.ctl j = emptyCtl
      rw [show (Node.ofTable (Table.mk' m)).tab = Table.fresh _ from rfl]; exact fresh_ctl _ _) h1
  · intro tb htb hd _ _ _ _
    have : tb = 0 := by
      have : tb < 1 := by simpa [State.init] using htb
      omega
    subst this
    exact absurd hd (by decide)

theorem invMirror_pc {s s' : State} {t : Nat} (hm : InvMirror s) (hn : s'.nodes = s.nodes)
    (hpc : ∀ t', t' ≠ t → s'.pc t' = s.pc t') (hown : ownerOf (s.pc t) = none ∨ ∃ f r, s.pc t = .ret f r) :
    InvMirror s' := by
  intro tb htb hd j hj h1 h2
  rw [hn] at htb hd h1 h2
  apply (hm tb htb hd j hj h1 h2).other hpc
  intro g
  left
  rcases hown with ho | ⟨f, r, hr⟩
  · exact pc_ne_ins ho g j
  · rw [hr]; exact ⟨(fun e => nomatch e), (fun e => nomatch e), (fun e => nomatch e)⟩

theorem reachable_mirror {s : State} (h : Reach hash s) : InvMirror s := by
  induction h with
  | base hi => exact invMirror_init hi
  | tail hr hst ih =>
    have hg := reachable_good hr
    cases hst with
    | act t _ l hs =>
      exact invMirror_step hg.1 (hg.1.step hg.2 (.act _ t _ l hs)) ih (step_act_kind hs)
    | call t k e hpc =>
      exact invMirror_pc (t := t) ih rfl (fun t' ht' => upd_other _ _ ht') (Or.inl (by rw [hpc]; rfl))
    | ret t f r hpc =>
      exact invMirror_pc (t := t) ih rfl (fun t' ht' => upd_other _ _ ht') (Or.inr ⟨f, r, hpc⟩)

/-! ### one step, seen from outside -/

/-- the nodes, the chain and the history only grow -/
theorem step_mono {s s' : State} (h : Reach hash s) (hst : Step hash s s') :
    NodesLe s.nodes s'.nodes ∧ s.chain <+: s'.chain ∧ s.log <+: s'.log := by
  have hg := reachable_good h
  cases hst with
  | act t _ l hs =>
    have ha := step_act_facts hg.1 hs
    exact ⟨ha.le, ha.chain, by rw [ha.log]; exact List.prefix_refl _⟩
  | call t k e hpc => exact ⟨NodesLe.refl _, List.prefix_refl _, List.prefix_append _ _⟩
  | ret t f r hpc => exact ⟨NodesLe.refl _, List.prefix_refl _, List.prefix_append _ _⟩

theorem step_ctl_move {s s' : State} (h : Reach hash s) (hst : Step hash s s') :
    ∀ tb, tb < s.nodes.length → ∀ x, CtlMove (nodeAt s.nodes tb).tab.n x
      ((nodeAt s.nodes tb).tab.ctl x) ((nodeAt s'.nodes tb).tab.ctl x) := by
  have hg := reachable_good h
  cases hst with
  | act t _ l hs => exact act_ctl_move hg.1 (step_act_kind hs)
  | call t k e hpc => exact fun _ _ _ => Or.inl rfl
  | ret t f r hpc => exact fun _ _ _ => Or.inl rfl

/-- the chain grows only by the successful CAS of a thread that was at `nextCas` -/
theorem step_chain_by_cas {s s' : State} (h : Reach hash s) (hst : Step hash s s') (hne : s'.chain ≠ s.chain) :
    ∃ t f nw, s.pc t = .nextCas f nw ∧ (nodeAt s.nodes f.tb).next = none ∧ s'.chain = s.chain ++ [nw] ∧
      (nodeAt s'.nodes f.tb).next = some nw := by
  cases hst with
  | act t _ l hs =>
    cases step_act_kind hs with
    | quiet p' _ _ he => subst he; exact absurd rfl hne
    | casWin f i _ _ he => subst he; exact absurd rfl hne
    | build f i _ he => subst he; exact absurd rfl hne
    | st1 f i _ he => subst he; exact absurd rfl hne
    | st2 f i _ he => subst he; exact absurd rfl hne
    | sz f i _ he => subst he; exact absurd rfl hne
    | alloc f _ he => subst he; exact absurd rfl hne
    | link f nw hpc hnx he =>
      subst he
      have hg := reachable_good h
      have hthr : ThreadOK hash s.nodes s.chain (.nextCas f nw) := by
        have := hg.1.thr t; rw [hpc] at this; exact this
      obtain ⟨p, hf, _⟩ := hthr
      refine ⟨t, f, nw, hpc, hnx, rfl, ?_⟩
      show (nodeAt (s.nodes.set f.tb _) f.tb).next = some nw
      rw [nodeAt_set_same _ _ _ hf.lt]; rfl
  | call t k e hpc => exact absurd rfl hne
  | ret t f r hpc => exact absurd rfl hne

/-! ### histories -/

theorem nodup_filterMap_index {α β : Type} {f : α → Option β} :
    ∀ {l : List α} {i j : Nat} {o : β} (hi : i < l.length) (hj : j < l.length),
      (l.filterMap f).Nodup → f l[i] = some o → f l[j] = some o → i = j := by
  intro l
  induction l with
  | nil => intro i j o hi; simp at hi
  | cons a l ih =>
    intro i j o hi hj hn h1 h2
    have hmem : ∀ {k : Nat} (hk : k < l.length), f l[k] = some o → o ∈ l.filterMap f :=
      fun hk hf => List.mem_filterMap.2 ⟨_, List.getElem_mem hk, hf⟩
    cases i with
    | zero =>
      cases j with
      | zero => rfl
      | succ j =>
        exfalso
        simp only [List.getElem_cons_zero] at h1
        simp only [List.getElem_cons_succ] at h2
        rw [List.filterMap_cons, h1, List.nodup_cons] at hn
        exact hn.1 (hmem (by simpa using hj) h2)
    | succ i =>
      cases j with
      | zero =>
        exfalso
        simp only [List.getElem_cons_zero] at h2
        simp only [List.getElem_cons_succ] at h1
        rw [List.filterMap_cons, h2, List.nodup_cons] at hn
        exact hn.1 (hmem (by simpa using hi) h1)
      | succ j =>
        simp only [List.getElem_cons_succ] at h1 h2
        have hn' : (l.filterMap f).Nodup := by
          rw [List.filterMap_cons] at hn
          split at hn
          · exact hn
          · exact (List.nodup_cons.1 hn).2
        have := ih (by simpa using hi) (by simpa using hj) hn' h1 h2
        omega

/-! ### constructed before compared -/

/-- the value cell a thread is about to compare its key with has been constructed -/
theorem cmp_reads_constructed {s : State} (h : Inv hash s) {t : Nat} {f : Frame} {j : Nat} {ms : List Nat}
    (hpc : s.pc t = .cmp f (j :: ms)) :
    ∃ k v, (nodeAt s.nodes f.tb).tab.val ((f.base + j) % f.n) = some (k, v) ∧
      tagOf (hash k) = tagOf (hash f.e.1) ∧ (nodeAt s.nodes f.tb).tab.ctl ((f.base + j) % f.n) = tagOf (hash k) := by
  have hthr : ThreadOK hash s.nodes s.chain (.cmp f (j :: ms)) := by have := h.thr t; rw [hpc] at this; exact this
  obtain ⟨p, hf, hp, hw, hd, _, pre, hpre, _⟩ := hthr
  have hok := h.nodes _ hf.lt
  have hr := hok.real hd
  have hn := hf.nEq
  have hjm : j ∈ matchTag f.w (tagOf (hash f.e.1)) := by rw [hpre]; simp
  obtain ⟨hjl, hjt⟩ := mem_matchTag.1 hjm
  have hj16 : j < 16 := by rw [hw] at hjl; exact hjl
  have hc := hp.snap j hjl (by rw [hjt]; exact tagOf_nonneg _)
  obtain ⟨_, _, hs3⟩ := hp.stepEq hd
  have hb : f.base < (nodeAt s.nodes f.tb).tab.n := by
    rw [hs3, ← hn]; exact wbase_lt (by rw [hn]; exact hr.npos)
  have hnn : 0 ≤ (nodeAt s.nodes f.tb).tab.ctl (f.base + j) := by rw [hc, hjt]; exact tagOf_nonneg _
  have hring := hok.ring hd hb hj16 hnn
  have hidx : (f.base + j) % (nodeAt s.nodes f.tb).tab.n < (nodeAt s.nodes f.tb).tab.n := Nat.mod_lt _ hr.npos
  obtain ⟨k, v, h1, h2, _⟩ := hok.slot_nonneg hd hidx (by rw [hring]; exact hnn)
  rw [← hn] at h1 h2 hring
  exact ⟨k, v, h2, by rw [← h1, hring, hc, hjt], h1⟩

/-! ### exhibiting reachable states by running the model -/

def stepOrStay (hash : Nat → Nat) (s : State) (t : Nat) : State :=
  match stepThread hash s t with
  | some (s', _) => s'
  | none => s

theorem reach_stepOrStay {s : State} (h : Reach hash s) (t : Nat) : Reach hash (stepOrStay hash s t) := by
  unfold stepOrStay
  cases hst : stepThread hash s t with
  | none => exact h
  | some r =>
    obtain ⟨s', l⟩ := r
    exact Reachable.tail h (.act s t s' l hst)

/-- run thread `t` for `n` actions -/
def runThread (hash : Nat → Nat) (s : State) (t : Nat) : Nat → State
  | 0 => s
  | n + 1 => runThread hash (stepOrStay hash s t) t n

theorem reach_runThread {s : State} (h : Reach hash s) (t : Nat) : ∀ n, Reach hash (runThread hash s t n) := by
  intro n
  induction n generalizing s with
  | zero => exact h
  | succ n ih => exact ih (reach_stepOrStay h t)

theorem reach_call {s : State} (h : Reach hash s) {t : Nat} (hpc : s.pc t = .idle) (k : Kind) (e : Elem) :
    Reach hash (doCall hash s t k e) := Reachable.tail h (.call s t k e hpc)

theorem reach_ret {s : State} (h : Reach hash s) {t : Nat} {f : Frame} {r : Res} (hpc : s.pc t = .ret f r) :
    Reach hash (doRet s t f r) := Reachable.tail h (.ret s t f r hpc)

end Babylon.Swiss.Conc
