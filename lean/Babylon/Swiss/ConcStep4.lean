/-
  Property C03, proofs part 7: the node updates performed by `stepThread` (winning the slot CAS,
  construct, the two release stores, the size add, linking a new node), each with: accessor facts,
  `NodeLe`, preservation of `NodeOK`.
-/
import Babylon.Swiss.ConcStep3

namespace Babylon.Swiss.Conc
open Babylon.Core Babylon.Gen.Swiss Babylon.Gen.SwissConc Babylon.Swiss

variable {hash : Nat → Nat}

def Node.setCtl (nd : Node) (x : Nat) (v : Ctl) : Node :=
  { nd with tab := { nd.tab with ctrl := nd.tab.ctrl.set x v } }
def Node.setClaim (nd : Node) (i : Nat) (k : Nat) : Node := { nd with claim := nd.claim.set i (some k) }
def Node.build (nd : Node) (i : Nat) (e : Elem) : Node :=
  { nd with tab := { nd.tab with vals := nd.tab.vals.set i (some e) } }
def Node.bump (nd : Node) : Node := { nd with tab := { nd.tab with size := nd.tab.size + 1 } }
def Node.link (nd : Node) (nw : Nat) : Node := { nd with next := some nw }

section accessors
variable (nd : Node) (x : Nat) (v : Ctl) (i k : Nat) (e : Elem)

@[simp] theorem setCtl_n : (nd.setCtl x v).tab.n = nd.tab.n := rfl
@[simp] theorem setCtl_dummy : (nd.setCtl x v).tab.dummy = nd.tab.dummy := rfl
@[simp] theorem setCtl_val (y : Nat) : (nd.setCtl x v).tab.val y = nd.tab.val y := rfl
@[simp] theorem setCtl_keyAt (y : Nat) : (nd.setCtl x v).tab.keyAt y = nd.tab.keyAt y := rfl
@[simp] theorem setCtl_claimAt (y : Nat) : claimAt (nd.setCtl x v) y = claimAt nd y := rfl
@[simp] theorem setCtl_next : (nd.setCtl x v).next = nd.next := rfl
@[simp] theorem setCtl_claim : (nd.setCtl x v).claim = nd.claim := rfl
@[simp] theorem setCtl_vals : (nd.setCtl x v).tab.vals = nd.tab.vals := rfl
theorem setCtl_ctl (h : x < nd.tab.ctrl.length) (y : Nat) :
    (nd.setCtl x v).tab.ctl y = if y = x then v else nd.tab.ctl y := ctl_setCtrl _ _ _ _ h
@[simp] theorem setCtl_ctrl_length : (nd.setCtl x v).tab.ctrl.length = nd.tab.ctrl.length := by
  simp [Node.setCtl]

@[simp] theorem setClaim_tab : (nd.setClaim i k).tab = nd.tab := rfl
@[simp] theorem setClaim_next : (nd.setClaim i k).next = nd.next := rfl
theorem setClaim_claimAt (h : i < nd.claim.length) (y : Nat) :
    claimAt (nd.setClaim i k) y = if y = i then some k else claimAt nd y :=
  claimAt_setClaim nd i y (some k) nd.tab nd.next h
@[simp] theorem setClaim_claim_length : (nd.setClaim i k).claim.length = nd.claim.length := by
  simp [Node.setClaim]

@[simp] theorem build_n : (nd.build i e).tab.n = nd.tab.n := rfl
@[simp] theorem build_dummy : (nd.build i e).tab.dummy = nd.tab.dummy := rfl
@[simp] theorem build_ctl (y : Nat) : (nd.build i e).tab.ctl y = nd.tab.ctl y := rfl
@[simp] theorem build_claimAt (y : Nat) : claimAt (nd.build i e) y = claimAt nd y := rfl
@[simp] theorem build_next : (nd.build i e).next = nd.next := rfl
@[simp] theorem build_claim : (nd.build i e).claim = nd.claim := rfl
@[simp] theorem build_ctrl : (nd.build i e).tab.ctrl = nd.tab.ctrl := rfl
theorem build_val (h : i < nd.tab.vals.length) (y : Nat) :
    (nd.build i e).tab.val y = if y = i then some e else nd.tab.val y := val_setVals _ _ _ _ h
@[simp] theorem build_vals_length : (nd.build i e).tab.vals.length = nd.tab.vals.length := by
  simp [Node.build]

@[simp] theorem bump_n : nd.bump.tab.n = nd.tab.n := rfl
@[simp] theorem bump_dummy : nd.bump.tab.dummy = nd.tab.dummy := rfl
@[simp] theorem bump_ctl (y : Nat) : nd.bump.tab.ctl y = nd.tab.ctl y := rfl
@[simp] theorem bump_val (y : Nat) : nd.bump.tab.val y = nd.tab.val y := rfl
@[simp] theorem bump_keyAt (y : Nat) : nd.bump.tab.keyAt y = nd.tab.keyAt y := rfl
@[simp] theorem bump_claimAt (y : Nat) : claimAt nd.bump y = claimAt nd y := rfl
@[simp] theorem bump_next : nd.bump.next = nd.next := rfl

@[simp] theorem link_tab (nw : Nat) : (nd.link nw).tab = nd.tab := rfl
@[simp] theorem link_claimAt (nw y : Nat) : claimAt (nd.link nw) y = claimAt nd y := rfl
@[simp] theorem link_next (nw : Nat) : (nd.link nw).next = some nw := rfl
end accessors

/-! ### a node that differs only in fields the invariant does not read, or pointwise equal -/

/-- `NodeOK` depends only on these observations of the node -/
theorem NodeOK.of_same {a b : Node} (h : NodeOK hash a)
    (ht : b.tab.dummy = a.tab.dummy) (hn : b.tab.n = a.tab.n)
    (hpl : a.tab = Table.placeholder → b.tab = Table.placeholder)
    (hcl : b.tab.ctrl.length = a.tab.ctrl.length) (hvl : b.tab.vals.length = a.tab.vals.length)
    (hcm : b.claim.length = a.claim.length)
    (hctl : ∀ y, b.tab.ctl y = a.tab.ctl y) (hval : ∀ y, b.tab.val y = a.tab.val y)
    (hclaim : ∀ y, claimAt b y = claimAt a y) : NodeOK hash b := by
  have hbase : ∀ x, b.tab.baseOf x = a.tab.baseOf x := fun x => by unfold Table.baseOf; rw [hn]
  refine ⟨?_, by rw [hcm, hn]; exact h.claimLen, ?_, ?_, ?_, ?_⟩
  · rcases h.shape with hp | ⟨h1, h2, h3, h4, h5⟩
    · exact Or.inl (hpl hp)
    · exact Or.inr ⟨by rw [ht]; exact h1, by rw [hn]; exact h2, by rw [hn]; exact h3,
        by rw [hcl, hn]; exact h4, by rw [hvl, hn]; exact h5⟩
  · intro hd y; rw [hclaim]; exact h.dummyClaim (by rw [← ht]; exact hd) y
  · intro hd y hy
    have := h.slot (by rw [← ht]; exact hd) y (by rw [← hn]; exact hy)
    unfold SlotOK at this ⊢
    rw [hctl, hval, hclaim]; exact this
  · intro hd j hj
    have := h.mirror (by rw [← ht]; exact hd) j hj
    rw [hn, hctl, hctl]; exact this
  · intro hd y k hy hk
    rw [hclaim] at hk
    obtain ⟨m, j, h1, h2, h3, h4, h5⟩ := h.reach (by rw [← ht]; exact hd) y k (by rw [← hn]; exact hy) hk
    refine ⟨m, j, by rw [hn]; exact h1, h2, by rw [hn, hbase]; exact h3, ?_, ?_⟩
    · intro m' hm' j' hj'; rw [hn, hbase, hctl]; exact h4 m' hm' j' hj'
    · intro j' hj'; rw [hn, hbase, hctl]; exact h5 j' hj'

theorem NodeOK.bump {nd : Node} (h : NodeOK hash nd) (hd : nd.tab.dummy = false) :
    NodeOK hash nd.bump := by
  apply h.of_same rfl rfl ?_ rfl rfl rfl (fun _ => rfl) (fun _ => rfl) (fun _ => rfl)
  intro hp
  rw [hp] at hd; cases hd

end Babylon.Swiss.Conc
