/-
  Property C03, proofs part 7: the node updates performed by `stepThread` (winning the slot CAS,
  construct, the two release stores, the size add, linking a new node), each with: accessor facts,
  `NodeLe`, preservation of `NodeOK`.
-/
import Babylon.Swiss.ConcStep3

namespace Babylon.Swiss.Conc
open Babylon.Core Babylon.Gen.Swiss Babylon.Gen.SwissConc Babylon.Swiss

variable {hash : Nat → Nat}

def Node.setCtl (nd : Node) (x : Nat) (v : Ctl) : Node :=
  { nd with tab := { nd.tab with ctrl := nd.tab.ctrl.set x v } }
def Node.setClaim (nd : Node) (i : Nat) (k : Nat) : Node := { nd with claim := nd.claim.set i (some k) }
def Node.build (nd : Node) (i : Nat) (e : Elem) : Node :=
  { nd with tab := { nd.tab with vals := nd.tab.vals.set i (some e) } }
def Node.bump (nd : Node) : Node := { nd with tab := { nd.tab with size := nd.tab.size + 1 } }
def Node.link (nd : Node) (nw : Nat) : Node := { nd with next := some nw }

section accessors
variable (nd : Node) (x : Nat) (v : Ctl) (i k : Nat) (e : Elem)

@[simp] theorem setCtl_n : (nd.setCtl x v).tab.n = nd.tab.n := rfl
@[simp] theorem setCtl_dummy : (nd.setCtl x v).tab.dummy = nd.tab.dummy := rfl
@[simp] theorem setCtl_val (y : Nat) : (nd.setCtl x v).tab.val y = nd.tab.val y := rfl
@[simp] theorem setCtl_keyAt (y : Nat) : (nd.setCtl x v).tab.keyAt y = nd.tab.keyAt y := rfl
@[simp] theorem setCtl_claimAt (y : Nat) : claimAt (nd.setCtl x v) y = claimAt nd y := rfl
@[simp] theorem setCtl_next : (nd.setCtl x v).next = nd.next := rfl
@[simp] theorem setCtl_claim : (nd.setCtl x v).claim = nd.claim := rfl
@[simp] theorem setCtl_vals : (nd.setCtl x v).tab.vals = nd.tab.vals := rfl
theorem setCtl_ctl (h : x < nd.tab.ctrl.length) (y : Nat) :
    (nd.setCtl x v).tab.ctl y = if y = x then v else nd.tab.ctl y := ctl_setCtrl _ _ _ _ h
@[simp] theorem setCtl_ctrl_length : (nd.setCtl x v).tab.ctrl.length = nd.tab.ctrl.length := by
  simp [Node.setCtl]

@[simp] theorem setClaim_tab : (nd.setClaim i k).tab = nd.tab := rfl
@[simp] theorem setClaim_next : (nd.setClaim i k).next = nd.next := rfl
theorem setClaim_claimAt (h : i < nd.claim.length) (y : Nat) :
    claimAt (nd.setClaim i k) y = if y = i then some k else claimAt nd y :=
  claimAt_setClaim nd i y (some k) nd.tab nd.next h
@[simp] theorem setClaim_claim_length : (nd.setClaim i k).claim.length = nd.claim.length := by
  simp [Node.setClaim]

@[simp] theorem build_n : (nd.build i e).tab.n = nd.tab.n := rfl
@[simp] theorem build_dummy : (nd.build i e).tab.dummy = nd.tab.dummy := rfl
@[simp] theorem build_ctl (y : Nat) : (nd.build i e).tab.ctl y = nd.tab.ctl y := rfl
@[simp] theorem build_claimAt (y : Nat) : claimAt (nd.build i e) y = claimAt nd y := rfl
@[simp] theorem build_next : (nd.build i e).next = nd.next := rfl
@[simp] theorem build_claim : (nd.build i e).claim = nd.claim := rfl
@[simp] theorem build_ctrl : (nd.build i e).tab.ctrl = nd.tab.ctrl := rfl
theorem build_val (h : i < nd.tab.vals.length) (y : Nat) :
    (nd.build i e).tab.val y = if y = i then some e else nd.tab.val y := val_setVals _ _ _ _ h
@[simp] theorem build_vals_length : (nd.build i e).tab.vals.length = nd.tab.vals.length := by
  simp [Node.build]

@[simp] theorem bump_n : nd.bump.tab.n = nd.tab.n := rfl
@[simp] theorem bump_dummy : nd.bump.tab.dummy = nd.tab.dummy := rfl
@[simp] theorem bump_ctl (y : Nat) : nd.bump.tab.ctl y = nd.tab.ctl y := rfl
@[simp] theorem bump_val (y : Nat) : nd.bump.tab.val y = nd.tab.val y := rfl
@[simp] theorem bump_keyAt (y : Nat) : nd.bump.tab.keyAt y = nd.tab.keyAt y := rfl
@[simp] theorem bump_claimAt (y : Nat) : claimAt nd.bump y = claimAt nd y := rfl
@[simp] theorem bump_next : nd.bump.next = nd.next := rfl

@[simp] theorem link_tab (nw : Nat) : (nd.link nw).tab = nd.tab := rfl
@[simp] theorem link_claimAt (nw y : Nat) : claimAt (nd.link nw) y = claimAt nd y := rfl
@[simp] theorem link_next (nw : Nat) : (nd.link nw).next = some nw := rfl
end accessors

/-! ### a node that differs only in fields the invariant does not read, or pointwise equal -/

/-- `NodeOK` depends only on these observations of the node -/
theorem NodeOK.of_same {a b : Node} (h : NodeOK hash a)
    (ht : b.tab.dummy = a.tab.dummy) (hn : b.tab.n = a.tab.n)
    (hpl : a.tab = Table.placeholder → b.tab = Table.placeholder)
    (hcl : b.tab.ctrl.length = a.tab.ctrl.length) (hvl : b.tab.vals.length = a.tab.vals.length)
    (hcm : b.claim.length = a.claim.length)
    (hctl : ∀ y, b.tab.ctl y = a.tab.ctl y) (hval : ∀ y, b.tab.val y = a.tab.val y)
    (hclaim : ∀ y, claimAt b y = claimAt a y) : NodeOK hash b := by
  have hbase : ∀ x, b.tab.baseOf x = a.tab.baseOf x := fun x => by unfold Table.baseOf; rw [hn]
  refine ⟨?_, by rw [hcm, hn]; exact h.claimLen, ?_, ?_, ?_, ?_⟩
  · rcases h.shape with hp | ⟨h1, h2, h3, h4, h5⟩
    · exact Or.inl (hpl hp)
    · exact Or.inr ⟨by rw [ht]; exact h1, by rw [hn]; exact h2, by rw [hn]; exact h3,
        by rw [hcl, hn]; exact h4, by rw [hvl, hn]; exact h5⟩
  · intro hd y; rw [hclaim]; exact h.dummyClaim (by rw [← ht]; exact hd) y
  · intro hd y hy
    have := h.slot (by rw [← ht]; exact hd) y (by rw [← hn]; exact hy)
    unfold SlotOK at this ⊢
    rw [hctl, hval, hclaim]; exact this
  · intro hd j hj
    have := h.mirror (by rw [← ht]; exact hd) j hj
    rw [hn, hctl, hctl]; exact this
  · intro hd y k hy hk
    rw [hclaim] at hk
    obtain ⟨m, j, h1, h2, h3, h4, h5⟩ := h.reach (by rw [← ht]; exact hd) y k (by rw [← hn]; exact hy) hk
    refine ⟨m, j, by rw [hn]; exact h1, h2, by rw [hn, hbase]; exact h3, ?_, ?_⟩
    · intro m' hm' j' hj'; rw [hn, hbase, hctl]; exact h4 m' hm' j' hj'
    · intro j' hj'; rw [hn, hbase, hctl]; exact h5 j' hj'

theorem NodeOK.bump {nd : Node} (h : NodeOK hash nd) (hd : nd.tab.dummy = false) :
    NodeOK hash nd.bump := by
  refine h.of_same (b := nd.bump) rfl rfl ?_ rfl rfl rfl (fun _ => rfl) (fun _ => rfl) (fun _ => rfl)
  intro hp
  rw [hp] at hd; cases hd

theorem SlotOK.congr {a b : Node} {y : Nat} (h : SlotOK hash a y) (h1 : b.tab.ctl y = a.tab.ctl y)
    (h2 : b.tab.val y = a.tab.val y) (h3 : claimAt b y = claimAt a y) : SlotOK hash b y := by
  unfold SlotOK at h ⊢
  rw [h1, h2, h3]; exact h

/-- the mirrored byte of a bucket whose main byte is negative is EMPTY -/
theorem NodeOK.mirror_empty {nd : Node} (h : NodeOK hash nd) (hd : nd.tab.dummy = false) {j : Nat}
    (hj : j < 15) (hneg : nd.tab.ctl j < 0) : nd.tab.ctl (nd.tab.n + j) = emptyCtl := by
  rcases h.mirror hd j hj with hm | ⟨h1, h2⟩
  · exact hm
  · rw [h2] at h1; exact absurd h1 (Int.not_le.2 hneg)

/-! ### winning the slot CAS: EMPTY → BUSY, the bucket is claimed for the key -/

theorem casWin_le {nd : Node} (h : NodeOK hash nd) (hd : nd.tab.dummy = false) {i key : Nat}
    (hi : i < nd.tab.n) (he : nd.tab.ctl i = emptyCtl) :
    NodeLe nd ((nd.setCtl i busyCtl).setClaim i key) := by
  have hr := h.real hd
  have hil : i < nd.tab.ctrl.length := by rw [hr.ctrlLen]; omega
  have hcl : i < (nd.setCtl i busyCtl).claim.length := by rw [setCtl_claim, hr.claimLen]; exact hi
  refine ⟨rfl, rfl, ?_, fun _ _ hv => hv, ?_, ?_, fun _ hx => hx⟩
  · intro x hx
    show (nd.setCtl i busyCtl).tab.ctl x = _
    rw [setCtl_ctl _ _ _ hil]
    split
    · next e => subst e; rw [he] at hx; exact absurd hx (by decide)
    · rfl
  · intro y k hk
    rw [setClaim_claimAt _ _ _ hcl]
    split
    · next e => subst e; rw [(h.slot_empty hd hi he).2] at hk; cases hk
    · exact hk
  · intro y hn hne
    rw [setClaim_claimAt _ _ _ hcl] at hne
    split at hne
    · next e => subst e; exact ⟨hd, hi, he⟩
    · exact absurd hn hne

theorem NodeOK.casWin {nd : Node} (h : NodeOK hash nd) (hd : nd.tab.dummy = false) {i key : Nat}
    (hi : i < nd.tab.n) (he : nd.tab.ctl i = emptyCtl)
    (hreach : ReachC nd.tab (nd.tab.baseOf (hash key)) i) :
    NodeOK hash ((nd.setCtl i busyCtl).setClaim i key) := by
  have hr := h.real hd
  have hle := casWin_le (key := key) h hd hi he
  have hil : i < nd.tab.ctrl.length := by rw [hr.ctrlLen]; omega
  have hcl : i < (nd.setCtl i busyCtl).claim.length := by rw [setCtl_claim, hr.claimLen]; exact hi
  have hctl : ∀ y, ((nd.setCtl i busyCtl).setClaim i key).tab.ctl y = if y = i then busyCtl else nd.tab.ctl y :=
    fun y => setCtl_ctl _ _ _ hil y
  have hclaim : ∀ y, claimAt ((nd.setCtl i busyCtl).setClaim i key) y = if y = i then some key else claimAt nd y :=
    fun y => setClaim_claimAt _ _ _ hcl y
  refine ⟨Or.inr ⟨hd, hr.pow2, hr.ge16, ?_, hr.valsLen⟩, ?_, ?_, ?_, ?_, ?_⟩
  · show (nd.setCtl i busyCtl).tab.ctrl.length = _
    rw [setCtl_ctrl_length]; exact hr.ctrlLen
  · show ((nd.setCtl i busyCtl).setClaim i key).claim.length = nd.tab.n
    rw [setClaim_claim_length, setCtl_claim]; exact hr.claimLen
  · intro hd'; rw [show ((nd.setCtl i busyCtl).setClaim i key).tab.dummy = nd.tab.dummy from rfl, hd] at hd'; cases hd'
  · intro _ y hy
    by_cases hyi : y = i
    · subst hyi
      right; left
      refine ⟨key, by rw [hctl, if_pos rfl], by rw [hclaim, if_pos rfl], Or.inl ?_⟩
      exact (h.slot_empty hd hi he).1
    · exact (h.slot hd y hy).congr (by rw [hctl, if_neg hyi]) rfl (by rw [hclaim, if_neg hyi])
  · intro _ j hj
    change ((nd.setCtl i busyCtl).setClaim i key).tab.ctl (nd.tab.n + j) = emptyCtl ∨
      (0 ≤ ((nd.setCtl i busyCtl).setClaim i key).tab.ctl (nd.tab.n + j) ∧
        ((nd.setCtl i busyCtl).setClaim i key).tab.ctl (nd.tab.n + j) = ((nd.setCtl i busyCtl).setClaim i key).tab.ctl j)
    have h1 : ((nd.setCtl i busyCtl).setClaim i key).tab.ctl (nd.tab.n + j) = nd.tab.ctl (nd.tab.n + j) := by
      rw [hctl, if_neg (by omega : ¬ nd.tab.n + j = i)]
    rw [h1]
    by_cases hji : j = i
    · subst hji
      left; exact h.mirror_empty hd hj (by rw [he]; decide)
    · rw [hctl, if_neg hji]; exact h.mirror hd j hj
  · intro _ y k hy hk
    rw [hclaim] at hk
    by_cases hyi : y = i
    · subst hyi
      rw [if_pos rfl] at hk; cases hk
      exact hle.reachC hreach
    · rw [if_neg hyi] at hk
      exact hle.reachC (h.reach hd y k hy hk)

/-! ### construct -/

theorem build_le {nd : Node} (h : NodeOK hash nd) (hd : nd.tab.dummy = false) {i : Nat} (e : Elem)
    (hi : i < nd.tab.n) (hv : nd.tab.val i = none) : NodeLe nd (nd.build i e) := by
  have hr := h.real hd
  refine ⟨rfl, rfl, fun _ _ => rfl, ?_, fun _ _ hk => hk, fun _ hn hne => absurd hn hne, fun _ hx => hx⟩
  intro y e' hv'
  rw [build_val _ _ _ (by rw [hr.valsLen]; exact hi)]
  split
  · next e1 => subst e1; rw [hv] at hv'; cases hv'
  · exact hv'

theorem NodeOK.build {nd : Node} (h : NodeOK hash nd) (hd : nd.tab.dummy = false) {i : Nat} (e : Elem)
    (hi : i < nd.tab.n) (hb : nd.tab.ctl i = busyCtl) (hc : claimAt nd i = some e.1) :
    NodeOK hash (nd.build i e) := by
  have hr := h.real hd
  have hval : ∀ y, (nd.build i e).tab.val y = if y = i then some e else nd.tab.val y :=
    fun y => build_val _ _ _ (by rw [hr.valsLen]; exact hi) y
  refine ⟨Or.inr ⟨hd, hr.pow2, hr.ge16, hr.ctrlLen, ?_⟩, hr.claimLen, ?_, ?_, h.mirror, h.reach⟩
  · show (nd.build i e).tab.vals.length = _
    rw [build_vals_length]; exact hr.valsLen
  · intro hd'; rw [build_dummy, hd] at hd'; cases hd'
  · intro _ y hy
    by_cases hyi : y = i
    · subst hyi
      right; left
      exact ⟨e.1, hb, hc, Or.inr ⟨e.2, by rw [hval, if_pos rfl]⟩⟩
    · exact (h.slot hd y hy).congr rfl (by rw [hval, if_neg hyi]) rfl

/-! ### publishing the tag in the main byte -/

theorem st1_le {nd : Node} (h : NodeOK hash nd) (hd : nd.tab.dummy = false) {i : Nat} (tag : Ctl)
    (hi : i < nd.tab.n) (hb : nd.tab.ctl i = busyCtl) : NodeLe nd (nd.setCtl i tag) := by
  have hr := h.real hd
  refine ⟨rfl, rfl, ?_, fun _ _ hv => hv, fun _ _ hk => hk, fun _ hn hne => absurd hn hne, fun _ hx => hx⟩
  intro x hx
  rw [setCtl_ctl _ _ _ (by rw [hr.ctrlLen]; omega)]
  split
  · next e => subst e; rw [hb] at hx; exact absurd hx (by decide)
  · rfl

theorem NodeOK.st1 {nd : Node} (h : NodeOK hash nd) (hd : nd.tab.dummy = false) {i : Nat} {e : Elem}
    (hi : i < nd.tab.n) (hb : nd.tab.ctl i = busyCtl) (hv : nd.tab.val i = some e)
    (hc : claimAt nd i = some e.1) : NodeOK hash (nd.setCtl i (tagOf (hash e.1))) := by
  have hr := h.real hd
  have hle := st1_le h hd (tagOf (hash e.1)) hi hb
  have hctl : ∀ y, (nd.setCtl i (tagOf (hash e.1))).tab.ctl y = if y = i then tagOf (hash e.1) else nd.tab.ctl y :=
    fun y => setCtl_ctl _ _ _ (by rw [hr.ctrlLen]; omega) y
  refine ⟨Or.inr ⟨hd, hr.pow2, hr.ge16, ?_, hr.valsLen⟩, hr.claimLen, ?_, ?_, ?_, ?_⟩
  · show (nd.setCtl i _).tab.ctrl.length = _
    rw [setCtl_ctrl_length]; exact hr.ctrlLen
  · intro hd'; rw [setCtl_dummy, hd] at hd'; cases hd'
  · intro _ y hy
    by_cases hyi : y = i
    · subst hyi
      right; right
      exact ⟨e.1, e.2, by rw [hctl, if_pos rfl], hv, hc⟩
    · exact (h.slot hd y hy).congr (by rw [hctl, if_neg hyi]) rfl rfl
  · intro _ j hj
    change (nd.setCtl i (tagOf (hash e.1))).tab.ctl (nd.tab.n + j) = emptyCtl ∨
      (0 ≤ (nd.setCtl i (tagOf (hash e.1))).tab.ctl (nd.tab.n + j) ∧
        (nd.setCtl i (tagOf (hash e.1))).tab.ctl (nd.tab.n + j) = (nd.setCtl i (tagOf (hash e.1))).tab.ctl j)
    have h1 : (nd.setCtl i (tagOf (hash e.1))).tab.ctl (nd.tab.n + j) = nd.tab.ctl (nd.tab.n + j) := by
      rw [hctl, if_neg (by omega : ¬ nd.tab.n + j = i)]
    rw [h1]
    by_cases hji : j = i
    · subst hji
      left; exact h.mirror_empty hd hj (by rw [hb]; decide)
    · rw [hctl, if_neg hji]; exact h.mirror hd j hj
  · intro _ y k hy hk
    exact hle.reachC (h.reach hd y k hy hk)

/-! ### publishing the tag in the mirrored byte -/

theorem st2_le {nd : Node} (h : NodeOK hash nd) (hd : nd.tab.dummy = false) {i : Nat} {tag : Ctl}
    (hi : i < nd.tab.n) (hm : nd.tab.ctl i = tag)
    (hmir : i < 15 → nd.tab.ctl (nd.tab.n + i) = emptyCtl) :
    NodeLe nd (nd.setCtl (nd.tab.clonedIndex i) tag) := by
  have hr := h.real hd
  have hci := clonedIndex_eq hr.ge16 hi
  refine ⟨rfl, rfl, ?_, fun _ _ hv => hv, fun _ _ hk => hk, fun _ hn hne => absurd hn hne, fun _ hx => hx⟩
  intro x hx
  rw [setCtl_ctl _ _ _ (by rw [hr.ctrlLen, hci]; split <;> omega)]
  split
  · next e =>
    rw [hci] at e
    split at e
    · next h15 => subst e; rw [Nat.add_comm, hmir h15] at hx; exact absurd hx (by decide)
    · subst e; exact hm.symm
  · rfl

theorem NodeOK.st2 {nd : Node} (h : NodeOK hash nd) (hd : nd.tab.dummy = false) {i : Nat} {tag : Ctl}
    (hi : i < nd.tab.n) (ht : 0 ≤ tag) (hm : nd.tab.ctl i = tag)
    (hmir : i < 15 → nd.tab.ctl (nd.tab.n + i) = emptyCtl) :
    NodeOK hash (nd.setCtl (nd.tab.clonedIndex i) tag) := by
  have hr := h.real hd
  have hle := st2_le h hd hi hm hmir
  have hci := clonedIndex_eq hr.ge16 hi
  have hctl : ∀ y, (nd.setCtl (nd.tab.clonedIndex i) tag).tab.ctl y =
      if y = nd.tab.clonedIndex i then tag else nd.tab.ctl y :=
    fun y => setCtl_ctl _ _ _ (by rw [hr.ctrlLen, hci]; split <;> omega) y
  -- below `n` nothing changes
  have hmain : ∀ y, y < nd.tab.n → (nd.setCtl (nd.tab.clonedIndex i) tag).tab.ctl y = nd.tab.ctl y := by
    intro y hy
    rw [hctl]
    split
    · next e =>
      rw [hci] at e
      split at e
      · omega
      · subst e; exact hm.symm
    · rfl
  refine ⟨Or.inr ⟨hd, hr.pow2, hr.ge16, ?_, hr.valsLen⟩, hr.claimLen, ?_, ?_, ?_, ?_⟩
  · show (nd.setCtl _ _).tab.ctrl.length = _
    rw [setCtl_ctrl_length]; exact hr.ctrlLen
  · intro hd'; rw [setCtl_dummy, hd] at hd'; cases hd'
  · intro _ y hy
    exact (h.slot hd y hy).congr (hmain y hy) rfl rfl
  · intro _ j hj
    change (nd.setCtl (nd.tab.clonedIndex i) tag).tab.ctl (nd.tab.n + j) = emptyCtl ∨
      (0 ≤ (nd.setCtl (nd.tab.clonedIndex i) tag).tab.ctl (nd.tab.n + j) ∧
        (nd.setCtl (nd.tab.clonedIndex i) tag).tab.ctl (nd.tab.n + j) = (nd.setCtl (nd.tab.clonedIndex i) tag).tab.ctl j)
    rw [hmain j (by have := hr.ge16; omega), hctl]
    split
    · next e =>
      rw [hci] at e
      split at e
      · have : j = i := by omega
        subst this
        exact Or.inr ⟨ht, hm.symm⟩
      · omega
    · exact h.mirror hd j hj
  · intro _ y k hy hk
    exact hle.reachC (h.reach hd y k hy hk)

/-- after both stores the bucket is visible to every probe for its key -/
theorem pub_after_st2 {nd : Node} (h : NodeOK hash nd) (hd : nd.tab.dummy = false) {i : Nat} {e : Elem}
    (hi : i < nd.tab.n) (hm : nd.tab.ctl i = tagOf (hash e.1)) (hv : nd.tab.val i = some e)
    (hc : claimAt nd i = some e.1)
    (hmir : i < 15 → nd.tab.ctl (nd.tab.n + i) = tagOf (hash e.1)) : Pub hash nd i e.1 := by
  have hr := h.real hd
  refine ⟨hd, hi, by unfold Table.keyAt; rw [hv]; rfl, hc, hm, ?_⟩
  obtain ⟨m, j, h1, h2, h3, h4, _⟩ := h.reach hd i e.1 hi hc
  refine ⟨m, j, h1, h2, h3, h4, ?_⟩
  have hb : wbase nd.tab.n (nd.tab.baseOf (hash e.1)) m < nd.tab.n := wbase_lt hr.npos
  by_cases hlt : wbase nd.tab.n (nd.tab.baseOf (hash e.1)) m + j < nd.tab.n
  · rw [Nat.mod_eq_of_lt hlt] at h3
    rw [h3]; exact hm
  · obtain ⟨e1, e2⟩ := ring_index hr.ge16 hb h2 (by omega)
    rw [e1] at h3
    have : wbase nd.tab.n (nd.tab.baseOf (hash e.1)) m + j = nd.tab.n + i := by omega
    rw [this]
    exact hmir (by omega)

end Babylon.Swiss.Conc
