/-
  Property C03, proofs part 12: what one action changes (`ActFacts`: the nodes only grow in the
  `NodesLe` order, the chain only grows at its end, ownership of a bucket starts on an EMPTY
  bucket), the history invariant `LogOK`, and reachability.
-/
import Babylon.Swiss.ConcStep8

namespace Babylon.Swiss.Conc
open Babylon.Core Babylon.Gen.Swiss Babylon.Gen.SwissConc Babylon.Swiss

variable {hash : Nat → Nat}

/-- summary of the effect of one action of thread `t` -/
structure ActFacts (s s' : State) (t : Nat) : Prop where
  log : s'.log = s.log
  le : NodesLe s.nodes s'.nodes
  chain : s.chain <+: s'.chain
  others : ∀ t', t' ≠ t → s'.pc t' = s.pc t'
  /-- a bucket is acquired only by the CAS on an EMPTY main byte of a real chained table -/
  owner : ∀ o, ownerOf (s'.pc t) = some o → ownerOf (s.pc t) = some o ∨
    (o.1 < s.nodes.length ∧ (nodeAt s.nodes o.1).tab.dummy = false ∧ o.2 < (nodeAt s.nodes o.1).tab.n ∧
      (nodeAt s.nodes o.1).tab.ctl o.2 = emptyCtl)

theorem setPc_pc_same (s : State) (t : Nat) (p : Pc) : (setPc s t p).pc t = p := upd_same _ _ _
theorem setPc_pc_other (s : State) {t t' : Nat} (p : Pc) (h : t' ≠ t) : (setPc s t p).pc t' = s.pc t' :=
  upd_other _ _ h

theorem actFacts_quiet {s : State} (t : Nat) (p' : Pc) (hq : Quiet p') : ActFacts s (setPc s t p') t :=
  ⟨rfl, NodesLe.refl _, List.prefix_refl _, fun t' ht' => upd_other _ _ ht',
    fun o ho => by rw [show (setPc s t p').pc t = p' from upd_same _ _ _, hq.1] at ho; cases ho⟩

theorem actFacts_slot {s : State} (t tb i : Nat) (nd' : Node) (p' : Pc) (hlt : tb < s.nodes.length)
    (hle : NodeLe (nodeAt s.nodes tb) nd') (ho : ownerOf (s.pc t) = some (tb, i))
    (ho' : ownerOf p' = some (tb, i)) : ActFacts s (setPc (s.setNode tb nd') t p') t :=
  ⟨rfl, NodesLe.set hlt hle, List.prefix_refl _, fun t' ht' => upd_other _ _ ht',
    fun o h => by
      rw [show (setPc (s.setNode tb nd') t p').pc t = p' from upd_same _ _ _, ho'] at h
      cases h; exact Or.inl ho⟩

theorem step_act_facts {s s' : State} {t : Nat} {l : Label} (h : Inv hash s)
    (hst : stepThread hash s t = some (s', l)) : ActFacts s s' t := by
  unfold stepThread at hst
  split at hst
  · cases hst
  · cases hst
  · next f hpc =>
    simp only [Option.some.injEq, Prod.mk.injEq] at hst
    obtain ⟨rfl, _⟩ := hst
    apply actFacts_quiet
    split
    · exact quiet_load _
    · exact quiet_afterLoad _
  · cases hst
  · next f j ms hpc =>
    simp only [Option.some.injEq, Prod.mk.injEq] at hst
    obtain ⟨rfl, _⟩ := hst
    apply actFacts_quiet
    split
    · exact quiet_retFound _ _ _
    · exact quiet_afterCmp _ _
  · next f i hpc =>
    have hthr : ThreadOK hash s.nodes s.chain (.cas f i) := by have := h.thr t; rw [hpc] at this; exact this
    obtain ⟨p, hf, hp, hw, hk, _, j0, hj0, hi, hcmp⟩ := hthr
    have hok := h.nodes _ hf.lt
    dsimp only at hst
    split at hst
    · next hc =>
      simp only [Option.some.injEq, Prod.mk.injEq] at hst
      obtain ⟨rfl, _⟩ := hst
      have he := (casExpected_beq _).1 hc
      have hd : (nodeAt s.nodes f.tb).tab.dummy = false := by
        cases hd : (nodeAt s.nodes f.tb).tab.dummy with
        | false => rfl
        | true =>
          exfalso
          have hpl := hok.placeholder_of_dummy hd
          have hlt : i < 32 := by
            rw [hi, hf.nEq, hpl]
            have : (f.base + j0) % Table.placeholder.n < 16 := Nat.mod_lt _ (by decide)
            omega
          have he' : (nodeAt s.nodes f.tb).tab.ctl i = emptyCtl := he
          rw [hpl, placeholder_ctl_lt hlt] at he'
          exact absurd he' (by decide)
      have hr := hok.real hd
      have hilt : i < (nodeAt s.nodes f.tb).tab.n := by rw [hi, hf.nEq]; exact Nat.mod_lt _ hr.npos
      refine ⟨rfl, NodesLe.set hf.lt (casWin_le (key := f.e.1) hok hd hilt he), List.prefix_refl _,
        fun t' ht' => upd_other _ _ ht', ?_⟩
      intro o ho
      rw [setPc_pc_same] at ho
      cases ho
      exact Or.inr ⟨hf.lt, hd, hilt, he⟩
    · split at hst
      · simp only [Option.some.injEq, Prod.mk.injEq] at hst
        obtain ⟨rfl, _⟩ := hst
        exact actFacts_quiet t _ (quiet_tableEnd f)
      · split at hst
        · simp only [Option.some.injEq, Prod.mk.injEq] at hst
          obtain ⟨rfl, _⟩ := hst
          exact actFacts_quiet t _ (quiet_yield f)
        · simp only [Option.some.injEq, Prod.mk.injEq] at hst
          obtain ⟨rfl, _⟩ := hst
          exact actFacts_quiet t _ (quiet_load _)
  · next f hpc =>
    simp only [Option.some.injEq, Prod.mk.injEq] at hst
    obtain ⟨rfl, _⟩ := hst
    exact actFacts_quiet t _ (quiet_load _)
  · next f i hpc =>
    have hthr : ThreadOK hash s.nodes s.chain (.construct f i) := by have := h.thr t; rw [hpc] at this; exact this
    obtain ⟨p, hf, hown, _, hc, hv⟩ := hthr
    simp only [Option.some.injEq, Prod.mk.injEq] at hst
    obtain ⟨rfl, _⟩ := hst
    exact actFacts_slot t f.tb i _ _ hf.lt
      (build_le (h.nodes _ hf.lt) hown.real f.e (by rw [← hf.nEq]; exact hown.lt) hv) (by rw [hpc]; rfl) rfl
  · next f i hpc =>
    have hthr : ThreadOK hash s.nodes s.chain (.st1 f i) := by have := h.thr t; rw [hpc] at this; exact this
    obtain ⟨p, hf, hown, _, hc, hv⟩ := hthr
    simp only [Option.some.injEq, Prod.mk.injEq] at hst
    obtain ⟨rfl, _⟩ := hst
    exact actFacts_slot t f.tb i _ _ hf.lt
      (st1_le (h.nodes _ hf.lt) hown.real _ (by rw [← hf.nEq]; exact hown.lt) hc) (by rw [hpc]; rfl) rfl
  · next f i hpc =>
    have hthr : ThreadOK hash s.nodes s.chain (.st2 f i) := by have := h.thr t; rw [hpc] at this; exact this
    obtain ⟨p, hf, hown, _, hc, hv, hm⟩ := hthr
    simp only [Option.some.injEq, Prod.mk.injEq] at hst
    obtain ⟨rfl, _⟩ := hst
    exact actFacts_slot t f.tb i _ _ hf.lt
      (st2_le (h.nodes _ hf.lt) hown.real (by rw [← hf.nEq]; exact hown.lt) hc
        (fun h15 => by rw [← hf.nEq]; exact hm h15)) (by rw [hpc]; rfl) rfl
  · next f i hpc =>
    have hthr : ThreadOK hash s.nodes s.chain (.sz f i) := by have := h.thr t; rw [hpc] at this; exact this
    obtain ⟨p, hf, hown, _, _, _⟩ := hthr
    simp only [Option.some.injEq, Prod.mk.injEq] at hst
    obtain ⟨rfl, _⟩ := hst
    exact actFacts_slot t f.tb i _ _ hf.lt (bump_le _) (by rw [hpc]; rfl) rfl
  · next f hpc =>
    dsimp only at hst
    split at hst
    · simp only [Option.some.injEq, Prod.mk.injEq] at hst
      obtain ⟨rfl, _⟩ := hst
      exact actFacts_quiet t _ (quiet_load _)
    · split at hst
      · simp only [Option.some.injEq, Prod.mk.injEq] at hst
        obtain ⟨rfl, _⟩ := hst
        exact actFacts_quiet t _ (quiet_retNone f)
      · simp only [Option.some.injEq, Prod.mk.injEq] at hst
        obtain ⟨rfl, _⟩ := hst
        refine ⟨rfl, NodesLe.append _ _, List.prefix_refl _, fun t' ht' => upd_other _ _ ht', ?_⟩
        intro o ho
        rw [setPc_pc_same] at ho; simp [ownerOf] at ho
  · next f nw hpc =>
    have hthr : ThreadOK hash s.nodes s.chain (.nextCas f nw) := by have := h.thr t; rw [hpc] at this; exact this
    obtain ⟨p, hf, _⟩ := hthr
    dsimp only at hst
    split at hst
    · next hnx =>
      simp only [Option.some.injEq, Prod.mk.injEq] at hst
      obtain ⟨rfl, _⟩ := hst
      refine ⟨rfl, NodesLe.set hf.lt (link_le _ nw hnx), List.prefix_append _ _,
        fun t' ht' => upd_other _ _ ht', ?_⟩
      intro o ho
      rw [setPc_pc_same] at ho; simp [enter, ownerOf] at ho
    · simp only [Option.some.injEq, Prod.mk.injEq] at hst
      obtain ⟨rfl, _⟩ := hst
      exact actFacts_quiet t _ (quiet_load _)

/-! ### the history invariant -/

theorem RetOK_of_thread {ns : List Node} {ch : List Nat} {t : Nat} {f : Frame} {r : Res}
    (h : ThreadOK hash ns ch (.ret f r)) : RetOK hash ns (.ret t f.kind f.e r f.built f.must) := by
  cases r with
  | slot tb i ins =>
    obtain ⟨h1, h2, h3, h4, h5, h6⟩ := h
    subst h1
    exact ⟨h2, h3, h4, h5, h6⟩
  | none =>
    obtain ⟨h1, h2, h3⟩ := h
    exact ⟨h1, h2, h3⟩

theorem LogOK.step {s s' : State} (h : Inv hash s) (hl : LogOK hash s) (hs : Step hash s s') :
    LogOK hash s' := by
  have h0 := h.zero_lt
  cases hs with
  | act t _ l hst =>
    have ha := step_act_facts h hst
    refine ⟨?_, by rw [ha.log]; exact hl.winners, ?_⟩
    · intro ev hev
      rw [ha.log] at hev
      exact (hl.rets ev hev).mono ha.le h0
    · intro t' o ho
      rw [ha.log]
      by_cases ht : t' = t
      · subst ht
        rcases ha.owner o ho with h1 | ⟨h1, h2, h3, h4⟩
        · exact hl.pending t' o h1
        · intro hmem
          obtain ⟨ev, hev, hins⟩ := List.mem_filterMap.1 hmem
          cases ev with
          | call _ _ _ => simp [insertedSlot] at hins
          | ret t2 k e r b m =>
            cases r with
            | none => simp [insertedSlot] at hins
            | slot tb i ins =>
              cases ins with
              | false => simp [insertedSlot] at hins
              | true =>
                simp only [insertedSlot, Option.some.injEq] at hins
                subst hins
                obtain ⟨_, hpub, _⟩ := hl.rets _ hev
                have := hpub.2.2.2.2.1
                rw [h4] at this
                exact tagOf_ne_empty _ this.symm
      · rw [ha.others t' ht] at ho
        exact hl.pending t' o ho
  | call t k e hpc =>
    refine ⟨?_, ?_, ?_⟩
    · intro ev hev
      rcases List.mem_append.1 hev with h1 | h1
      · exact hl.rets ev h1
      · simp at h1; subst h1; trivial
    · show ((s.log ++ [Event.call t k e]).filterMap insertedSlot).Nodup
      rw [List.filterMap_append]
      have : List.filterMap insertedSlot [Event.call t k e] = [] := rfl
      rw [this, List.append_nil]; exact hl.winners
    · intro t' o ho
      show o ∉ (s.log ++ [Event.call t k e]).filterMap insertedSlot
      rw [List.filterMap_append]
      have : o ∉ List.filterMap insertedSlot s.log := by
        by_cases ht : t' = t
        · subst ht
          have e : (doCall hash s t' k e).pc t' = enter hash s _ 0 := upd_same _ _ _
          rw [e] at ho; simp [enter, ownerOf] at ho
        · have e : (doCall hash s t k e).pc t' = s.pc t' := upd_other _ _ ht
          rw [e] at ho
          exact hl.pending t' o ho
      have hnil : List.filterMap insertedSlot [Event.call t k e] = [] := rfl
      rw [hnil, List.append_nil]; exact this
  | ret t f r hpc =>
    have hthr : ThreadOK hash s.nodes s.chain (.ret f r) := by have := h.thr t; rw [hpc] at this; exact this
    refine ⟨?_, ?_, ?_⟩
    · intro ev hev
      rcases List.mem_append.1 hev with h1 | h1
      · exact hl.rets ev h1
      · simp at h1; subst h1; exact RetOK_of_thread hthr
    · show ((s.log ++ [Event.ret t f.kind f.e r f.built f.must]).filterMap insertedSlot).Nodup
      rw [List.filterMap_append]
      cases hr : insertedSlot (Event.ret t f.kind f.e r f.built f.must) with
      | none => simpa [hr] using hl.winners
      | some o =>
        have ho : ownerOf (s.pc t) = some o := by
          rw [hpc]
          cases r with
          | none => simp [insertedSlot] at hr
          | slot tb i ins =>
            cases ins with
            | false => simp [insertedSlot] at hr
            | true =>
              simp only [insertedSlot, Option.some.injEq] at hr
              subst hr
              obtain ⟨h1, _⟩ := hthr
              subst h1; rfl
        have hnot := hl.pending t o ho
        simp only [List.filterMap_cons, hr, List.filterMap_nil]
        rw [List.nodup_append]
        exact ⟨hl.winners, by simp, fun a ha b hb => by simp at hb; subst hb; exact fun e => hnot (e ▸ ha)⟩
    · intro t' o ho
      show o ∉ (s.log ++ [Event.ret t f.kind f.e r f.built f.must]).filterMap insertedSlot
      by_cases ht : t' = t
      · subst ht
        have e : (doRet s t' f r).pc t' = Pc.idle := upd_same _ _ _
        rw [e] at ho; simp [ownerOf] at ho
      · have e : (doRet s t f r).pc t' = s.pc t' := upd_other _ _ ht
        rw [e] at ho
        rw [List.filterMap_append]
        intro hmem
        rcases List.mem_append.1 hmem with h1 | h1
        · exact hl.pending t' o ho h1
        · -- the bucket just reported belongs to the returning thread, not to `t'`
          cases hr : insertedSlot (Event.ret t f.kind f.e r f.built f.must) with
          | none => simp [hr] at h1
          | some o' =>
            simp only [List.filterMap_cons, hr, List.filterMap_nil, List.mem_singleton] at h1
            subst h1
            have ho2 : ownerOf (s.pc t) = some o := by
              rw [hpc]
              cases r with
              | none => simp [insertedSlot] at hr
              | slot tb i ins =>
                cases ins with
                | false => simp [insertedSlot] at hr
                | true =>
                  simp only [insertedSlot, Option.some.injEq] at hr
                  subst hr
                  obtain ⟨h1, _⟩ := hthr
                  subst h1; rfl
            exact h.owners t t' o (fun e => ht e.symm) ho2 ho

/-! ### initial states and reachability -/

theorem chainOK_init (nd : Node) (hn : nd.next = none) : ChainOK [nd] [0] := by
  refine ⟨rfl, by simp, by simp, ?_⟩
  intro idx hidx
  have : idx = 0 := by simpa using hidx
  subst this
  show (nodeAt [nd] 0).next = _
  simpa [nodeAt] using hn

theorem inv_init_of (hd : Table) (hok : NodeOK hash (Node.ofTable hd)) : Inv hash (State.init hd) := by
  have hnode : ∀ tb, tb < 1 → nodeAt [Node.ofTable hd] tb = Node.ofTable hd := by
    intro tb htb
    have : tb = 0 := by omega
    subst this; rfl
  refine ⟨?_, chainOK_init _ rfl, ?_, ?_, ?_, fun _ => trivial, ?_, ?_⟩
  · intro tb htb
    change NodeOK hash (nodeAt [Node.ofTable hd] tb)
    rw [hnode tb (by simpa [State.init] using htb)]; exact hok
  · intro tb htb hnm
    have : tb = 0 := by
      have : tb < 1 := by simpa [State.init] using htb
      omega
    subst this
    exact absurd (by simp [State.init]) hnm
  · intro tb i tb' i' k h1 _ c1 _
    change claimAt (nodeAt [Node.ofTable hd] tb) i = some k at c1
    rw [hnode tb (by simpa [State.init] using h1), claimAt_ofTable] at c1; cases c1
  · intro p q x k hpq hq
    have : q < 1 := by simpa [State.init] using hq
    omega
  · intro t t' o _ ho; simp [State.init, ownerOf] at ho
  · intro t t' f nw f' nw' _ hp; simp [State.init] at hp

theorem nodeOK_placeholder : NodeOK hash Node.placeholder := by
  refine ⟨Or.inl rfl, by simp [Node.placeholder, Node.ofTable], fun _ i => claimAt_ofTable _ i, ?_, ?_, ?_⟩
  · intro hd; exact absurd hd (by decide)
  · intro hd; exact absurd hd (by decide)
  · intro hd; exact absurd hd (by decide)

theorem inv_init {s : State} (h : Init s) : Inv hash s ∧ LogOK hash s := by
  have hlog : ∀ hd, LogOK hash (State.init hd) := fun hd =>
    ⟨fun ev hev => by simp [State.init] at hev, by simp [State.init],
      fun t o ho => by simp [State.init, ownerOf] at ho⟩
  rcases h with ⟨m, rfl⟩ | rfl
  · exact ⟨inv_init_of _ (nodeOK_fresh m), hlog _⟩
  · exact ⟨inv_init_of _ nodeOK_placeholder, hlog _⟩

/-- every reachable state satisfies the invariant -/
theorem reachable_good {s : State} (h : Reachable Init (Step hash) s) : Inv hash s ∧ LogOK hash s := by
  induction h with
  | base hi => exact inv_init hi
  | tail _ hst ih => exact ⟨ih.1.step ih.2 hst, ih.2.step ih.1 hst⟩

end Babylon.Swiss.Conc
